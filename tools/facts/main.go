// Command facts regenerates lean/FinProtoc/Generated/Facts.lean from /repo's CURRENT source
// (tie T1 of DESIGN §4.1): map-range sites with a syntactic classification, writes through
// model pointers in generator/cmd code, ambient inputs, and the literal type tables.
package main

import (
	"fmt"
	"go/ast"
	"go/constant"
	"go/token"
	"go/types"
	"os"
	"sort"
	"strconv"
	"strings"

	"golang.org/x/tools/go/packages"
)

func q(s string) string { return strconv.Quote(s) }

type site struct{ file, fn, expr, cls string }

func main() {
	repo := os.Args[1]
	out := os.Args[2]
	cfg := &packages.Config{Dir: repo, Mode: packages.NeedName | packages.NeedFiles | packages.NeedSyntax | packages.NeedTypes | packages.NeedTypesInfo | packages.NeedImports | packages.NeedDeps}
	pkgs, err := packages.Load(cfg, "./internal/parser", "./internal/model", "./cmd")
	if err != nil {
		fmt.Fprintln(os.Stderr, err)
		os.Exit(2)
	}
	var ranges, writes, ambient, globals []site
	mut := mutators(pkgs)
	tables := map[string][][2]string{} // table -> (key, size) for maps of struct literals with a Size field
	var optionRows []optionRow            // `var options` of model.go: option name -> allowed values ([] = any)
	var aliasRows [][2]string             // the switch of getBasicType: spelling -> canonical name
	aliasSubject := ""                    // ... and what it switches on
	var configRows [][2]string            // the defaults literal of NewConfiguration: field -> value
	for _, p := range pkgs {
		if len(p.Errors) > 0 {
			fmt.Fprintln(os.Stderr, p.Errors)
			os.Exit(2)
		}
		for _, f := range p.Syntax {
			fname := p.Fset.Position(f.Pos()).Filename
			if strings.HasSuffix(fname, "_test.go") || strings.Contains(fname, "/grammar/") {
				continue
			}
			short := fname[strings.LastIndex(fname, "/")+1:]
			var curFn string
			ast.Inspect(f, func(n ast.Node) bool {
				switch x := n.(type) {
				case *ast.FuncDecl:
					if x.Name.Name == "getBasicType" && x.Body != nil {
						aliasRows = append(aliasRows, aliasTable(x, p.TypesInfo)...)
						ast.Inspect(x.Body, func(n ast.Node) bool {
							if sw, ok := n.(*ast.SwitchStmt); ok && sw.Tag != nil && aliasSubject == "" {
								aliasSubject = types.ExprString(sw.Tag)
								// the parameter's name carries no meaning: spell it $0
								if x.Type.Params != nil && len(x.Type.Params.List) > 0 && len(x.Type.Params.List[0].Names) > 0 {
									aliasSubject = strings.ReplaceAll(aliasSubject, "("+x.Type.Params.List[0].Names[0].Name+")", "($0)")
								}
							}
							return true
						})
					}
					if x.Name.Name == "NewConfiguration" && x.Body != nil {
						configRows = append(configRows, configDefaults(x, p.TypesInfo)...)
					}
					curFn = x.Name.Name
					if x.Recv != nil && len(x.Recv.List) > 0 {
						curFn = types.ExprString(x.Recv.List[0].Type) + "." + curFn
					}
				case *ast.RangeStmt:
					if t := p.TypesInfo.TypeOf(x.X); t != nil {
						if _, ok := t.Underlying().(*types.Map); ok {
							ranges = append(ranges, site{short, curFn, types.ExprString(x.X), classifyRange(x, f, p.TypesInfo)})
						}
					}
				case *ast.CallExpr:
					if curFn != "init" {
						if w := globalCall(x, p.TypesInfo, mut); w != "" {
							globals = append(globals, site{short, curFn, types.ExprString(x.Fun), w})
						}
					}
				case *ast.AssignStmt:
					for _, l := range x.Lhs {
						if v := globalRoot(l, p.TypesInfo); v != nil && curFn != "init" && x.Tok != token.DEFINE {
							globals = append(globals, site{short, curFn, types.ExprString(l), "assigns-package-var " + v.Pkg().Name() + "." + v.Name()})
						}
						if w := modelWrite(l, p.TypesInfo); w != "" && !strings.HasPrefix(short, "packet_dsl_parser") && !strings.Contains(fname, "/model/") {
							writes = append(writes, site{short, curFn, types.ExprString(l), w})
						}
					}
				case *ast.IncDecStmt:
					if v := globalRoot(x.X, p.TypesInfo); v != nil && curFn != "init" {
						globals = append(globals, site{short, curFn, types.ExprString(x.X), "assigns-package-var " + v.Pkg().Name() + "." + v.Name()})
					}
					if w := modelWrite(x.X, p.TypesInfo); w != "" && !strings.HasPrefix(short, "packet_dsl_parser") && !strings.Contains(fname, "/model/") {
						writes = append(writes, site{short, curFn, types.ExprString(x.X), w})
					}
				case *ast.SelectorExpr:
					if id, ok := x.X.(*ast.Ident); ok {
						if pn, ok := p.TypesInfo.Uses[id].(*types.PkgName); ok {
							full := pn.Imported().Path() + "." + x.Sel.Name
							switch full {
							case "time.Now", "os.Args", "os.Getenv", "os.Environ", "os.Getpid", "os.Hostname", "os.Getwd":
								ambient = append(ambient, site{short, curFn, full, "ambient"})
							}
							if strings.HasPrefix(full, "math/rand") || strings.HasPrefix(full, "crypto/rand") {
								ambient = append(ambient, site{short, curFn, full, "ambient"})
							}
						}
					}
				case *ast.ValueSpec:
					// var xBasicTypeMap = map[string]T{ "u8": {..., Size: 1}, ... }
					for k, name := range x.Names {
						if k < len(x.Values) {
							if cl, ok := x.Values[k].(*ast.CompositeLit); ok && strings.HasSuffix(name.Name, "BasicTypeMap") {
								tables[name.Name] = sizeTable(cl, p.TypesInfo)
							}
							if cl, ok := x.Values[k].(*ast.CompositeLit); ok && name.Name == "options" && strings.HasSuffix(fname, "/model/model.go") {
								optionRows = append(optionRows, optionsTable(cl, p.TypesInfo)...)
							}
						}
					}
				}
				return true
			})
		}
	}
	var b strings.Builder
	b.WriteString("/- GENERATED by /verif/tools/facts from /repo's current source — do not edit. -/\n")
	b.WriteString("namespace FinProtoc.Generated\n\n")
	b.WriteString("structure Site where\n  file : String\n  func : String\n  expr : String\n  cls : String\n  deriving DecidableEq, Repr\n\n")
	emit := func(name string, all []site) {
		sort.Slice(all, func(i, j int) bool { return all[i].file+all[i].fn+all[i].expr < all[j].file+all[j].fn+all[j].expr })
		var ss []site
		for i, s := range all {
			if i == 0 || s != all[i-1] {
				ss = append(ss, s)
			}
		}
		b.WriteString("def " + name + " : List Site := [\n")
		for i, s := range ss {
			sep := ","
			if i == len(ss)-1 {
				sep = ""
			}
			b.WriteString(fmt.Sprintf("  ⟨%s, %s, %s, %s⟩%s\n", q(s.file), q(s.fn), q(s.expr), q(s.cls), sep))
		}
		b.WriteString("]\n\n")
	}
	emit("mapRangeSites", ranges)
	emit("modelWriteSites", writes)
	emit("ambientSites", ambient)
	emit("globalWriteSites", globals)
	names := []string{}
	for n := range tables {
		names = append(names, n)
	}
	sort.Strings(names)
	for _, n := range names {
		b.WriteString("def " + n + "Sizes : List (String × Nat) := [")
		rows := tables[n]
		sort.Slice(rows, func(i, j int) bool { return rows[i][0] < rows[j][0] })
		for i, r := range rows {
			if i > 0 {
				b.WriteString(", ")
			}
			b.WriteString("(" + q(r[0]) + ", " + r[1] + ")")
		}
		b.WriteString("]\n\n")
	}
	sort.Slice(optionRows, func(i, j int) bool { return optionRows[i].name < optionRows[j].name })
	b.WriteString("def optionsTable : List (String × List String) := [")
	for i, r := range optionRows {
		if i > 0 {
			b.WriteString(", ")
		}
		vs := []string{}
		for _, v := range r.values {
			vs = append(vs, leanStr(v))
		}
		b.WriteString("(" + leanStr(r.name) + ", [" + strings.Join(vs, ", ") + "])")
	}
	b.WriteString("]\n\n")
	pairs := func(name string, rows [][2]string) {
		b.WriteString("def " + name + " : List (String × String) := [")
		for i, r := range rows {
			if i > 0 {
				b.WriteString(", ")
			}
			b.WriteString("(" + leanStr(r[0]) + ", " + leanStr(r[1]) + ")")
		}
		b.WriteString("]\n\n")
	}
	pairs("aliasTable", aliasRows)
	b.WriteString("def aliasSubject : String := " + leanStr(aliasSubject) + "\n\n")
	pairs("configDefaults", configRows)
	b.WriteString("end FinProtoc.Generated\n")
	if err := os.WriteFile(out, []byte(b.String()), 0644); err != nil {
		fmt.Fprintln(os.Stderr, err)
		os.Exit(2)
	}
}

// classifyRange: what does the body of a map range do?
func classifyRange(r *ast.RangeStmt, file *ast.File, info *types.Info) string {
	text, store, collect, exits, effect := false, false, false, false, false
	var collected string
	ast.Inspect(r.Body, func(n ast.Node) bool {
		switch x := n.(type) {
		case *ast.FuncLit:
			return false
		case *ast.ReturnStmt:
			// leaving the loop (and the function) at an entry that depends on the iteration order
			exits = true
		case *ast.BranchStmt:
			if x.Tok == token.BREAK || x.Tok == token.GOTO {
				exits = true
			}
		case *ast.CallExpr:
			name := ""
			switch f := x.Fun.(type) {
			case *ast.SelectorExpr:
				name = f.Sel.Name
			case *ast.Ident:
				name = f.Name
			}
			if strings.HasPrefix(name, "Write") || strings.HasPrefix(name, "Generate") || name == "Remove" || name == "RemoveAll" || name == "Rename" {
				// writes files / runs a whole generator once per entry
				effect = true
			}
			switch name {
			case "WriteString", "Write", "WriteByte", "Println", "Printf", "Print", "Fprintf", "Fprintln", "Fprint", "Sprintf", "Create", "WriteFile", "MkdirAll":
				if name == "Sprintf" {
					// Sprintf alone only builds a value; what matters is where it goes
					return true
				}
				text = true
			case "append":
				if len(x.Args) >= 1 {
					collect = true
					collected = types.ExprString(x.Args[0])
				}
			}
		case *ast.AssignStmt:
			for _, l := range x.Lhs {
				if ix, ok := l.(*ast.IndexExpr); ok {
					if t := info.TypeOf(ix.X); t != nil {
						if _, ok := t.Underlying().(*types.Map); ok {
							store = true
						}
					}
				}
			}
		}
		return true
	})
	if exits {
		return "exit-in-map-order"
	}
	if text {
		if store || strings.Contains(types.ExprString(r.X), "codeMap") {
			return "io-per-entry"
		}
		return "text-in-map-order"
	}
	if collect && !store {
		// keys collected into a slice: fine iff the slice is sorted afterwards in the same function
		sorted := false
		ast.Inspect(file, func(n ast.Node) bool {
			if c, ok := n.(*ast.CallExpr); ok {
				// only sort.Strings / sort.Ints order the collected KEYS totally; a custom less function
				// (sort.Slice, sort.Sort) may compare something else and leave equal elements in map order
				if s, ok := c.Fun.(*ast.SelectorExpr); ok && (s.Sel.Name == "Strings" || s.Sel.Name == "Ints") && len(c.Args) >= 1 {
					if types.ExprString(c.Args[0]) == collected && c.Pos() > r.End() {
						sorted = true
					}
				}
			}
			return true
		})
		if sorted {
			return "collect-then-sort"
		}
		return "collect-unsorted"
	}
	if store {
		return "store-into-map"
	}
	if effect {
		return "effect-per-entry"
	}
	return "read-only"
}

// modelWrite: is the l-value reached through a POINTER to a type declared in package model
// (a local copy `c := *p; c.f = …` is not a write to the model)?
func modelWrite(l ast.Expr, info *types.Info) string {
	switch x := l.(type) {
	case *ast.SelectorExpr:
		if t := info.TypeOf(x.X); t != nil {
			if _, isPtr := t.(*types.Pointer); isPtr && isModel(t) {
				return "field-of-*" + shortType(t)
			}
		}
		return modelWrite(x.X, info)
	case *ast.IndexExpr:
		if sel, ok := x.X.(*ast.SelectorExpr); ok {
			if bt := info.TypeOf(sel.X); bt != nil && isModel(bt) {
				return "element-of-" + shortType(bt) + "." + sel.Sel.Name
			}
		}
		return modelWrite(x.X, info)
	case *ast.StarExpr:
		if t := info.TypeOf(x.X); t != nil && isModel(t) {
			return "deref-*" + shortType(t)
		}
	case *ast.ParenExpr:
		return modelWrite(x.X, info)
	}
	return ""
}

func isModel(t types.Type) bool {
	if p, ok := t.(*types.Pointer); ok {
		t = p.Elem()
	}
	if n, ok := t.(*types.Named); ok && n.Obj().Pkg() != nil {
		return strings.HasSuffix(n.Obj().Pkg().Path(), "/internal/model")
	}
	return false
}

func shortType(t types.Type) string {
	if p, ok := t.(*types.Pointer); ok {
		t = p.Elem()
	}
	if n, ok := t.(*types.Named); ok {
		return n.Obj().Name()
	}
	return t.String()
}

func sizeTable(cl *ast.CompositeLit, info *types.Info) [][2]string {
	var rows [][2]string
	for _, e := range cl.Elts {
		kv, ok := e.(*ast.KeyValueExpr)
		if !ok {
			continue
		}
		key, _ := strconv.Unquote(types.ExprString(kv.Key))
		val, ok := kv.Value.(*ast.CompositeLit)
		if !ok {
			continue
		}
		st, _ := info.TypeOf(val).Underlying().(*types.Struct)
		size := ""
		for i, fe := range val.Elts {
			var fieldName string
			var v ast.Expr
			if fkv, ok := fe.(*ast.KeyValueExpr); ok {
				fieldName = types.ExprString(fkv.Key)
				v = fkv.Value
			} else if st != nil && i < st.NumFields() {
				fieldName = st.Field(i).Name()
				v = fe
			}
			if fieldName == "Size" {
				if tv, ok := info.Types[v]; ok && tv.Value != nil {
					if n, ok := constant.Int64Val(tv.Value); ok {
						size = strconv.FormatInt(n, 10)
					}
				}
			}
		}
		if size != "" {
			rows = append(rows, [2]string{key, size})
		}
	}
	_ = token.NoPos
	return rows
}


// ---- process-global state (C14: a generator's output is a function of the parsed model alone) ----

// globalRoot: the package-level variable an l-value (or method receiver) is rooted in, if any.
// Aliases (a local pointer copied from a package variable) are not followed.
func globalRoot(e ast.Expr, info *types.Info) *types.Var {
	for {
		switch x := e.(type) {
		case *ast.Ident:
			if v, ok := info.Uses[x].(*types.Var); ok && v.Pkg() != nil && v.Parent() == v.Pkg().Scope() {
				return v
			}
			return nil
		case *ast.SelectorExpr:
			if id, ok := x.X.(*ast.Ident); ok {
				if _, ok := info.Uses[id].(*types.PkgName); ok {
					if v, ok := info.Uses[x.Sel].(*types.Var); ok && v.Pkg() != nil && v.Parent() == v.Pkg().Scope() {
						return v
					}
					return nil
				}
			}
			e = x.X
		case *ast.IndexExpr:
			e = x.X
		case *ast.StarExpr:
			e = x.X
		case *ast.ParenExpr:
			e = x.X
		default:
			return nil
		}
	}
}

var storeMethods = map[string]bool{"Store": true, "Delete": true, "LoadOrStore": true, "LoadAndDelete": true, "Swap": true,
	"CompareAndSwap": true, "CompareAndDelete": true, "Clear": true}

func calleeOf(c *ast.CallExpr, info *types.Info) *types.Func {
	switch f := c.Fun.(type) {
	case *ast.Ident:
		fn, _ := info.Uses[f].(*types.Func)
		return fn
	case *ast.SelectorExpr:
		fn, _ := info.Uses[f.Sel].(*types.Func)
		return fn
	}
	return nil
}

// directGlobalWrite: does this call store into a package-level container (sync.Map / atomic.Value …)?
func storeOnGlobal(c *ast.CallExpr, info *types.Info) *types.Var {
	if sel, ok := c.Fun.(*ast.SelectorExpr); ok && storeMethods[sel.Sel.Name] {
		if _, isPkg := info.Uses[rootIdent(sel.X)].(*types.PkgName); !isPkg || true {
			return globalRoot(sel.X, info)
		}
	}
	return nil
}

func rootIdent(e ast.Expr) *ast.Ident {
	for {
		switch x := e.(type) {
		case *ast.Ident:
			return x
		case *ast.SelectorExpr:
			e = x.X
		case *ast.IndexExpr:
			e = x.X
		case *ast.StarExpr:
			e = x.X
		case *ast.ParenExpr:
			e = x.X
		default:
			return nil
		}
	}
}

func thirdParty(path string) bool {
	first := path
	if i := strings.Index(path, "/"); i >= 0 {
		first = path[:i]
	}
	return strings.Contains(first, ".") && !strings.Contains(path, "xinchentechnote/fin-protoc")
}

// mutators: functions of third-party dependency packages that (transitively, inside their own
// package) assign a package-level variable or store into a package-level container, outside init.
func mutators(roots []*packages.Package) map[string]string {
	direct := map[string]string{}
	calls := map[string][]string{}
	packages.Visit(roots, nil, func(p *packages.Package) {
		if !thirdParty(p.PkgPath) || p.TypesInfo == nil {
			return
		}
		for _, f := range p.Syntax {
			if strings.HasSuffix(p.Fset.Position(f.Pos()).Filename, "_test.go") {
				continue
			}
			for _, d := range f.Decls {
				fd, ok := d.(*ast.FuncDecl)
				if !ok || fd.Body == nil || (fd.Name.Name == "init" && fd.Recv == nil) {
					continue
				}
				obj, _ := p.TypesInfo.Defs[fd.Name].(*types.Func)
				if obj == nil {
					continue
				}
				name := obj.FullName()
				ast.Inspect(fd.Body, func(n ast.Node) bool {
					switch x := n.(type) {
					case *ast.AssignStmt:
						if x.Tok != token.DEFINE {
							for _, l := range x.Lhs {
								if v := globalRoot(l, p.TypesInfo); v != nil && direct[name] == "" {
									direct[name] = v.Pkg().Name() + "." + v.Name()
								}
							}
						}
					case *ast.IncDecStmt:
						if v := globalRoot(x.X, p.TypesInfo); v != nil && direct[name] == "" {
							direct[name] = v.Pkg().Name() + "." + v.Name()
						}
					case *ast.CallExpr:
						if v := storeOnGlobal(x, p.TypesInfo); v != nil && direct[name] == "" {
							direct[name] = v.Pkg().Name() + "." + v.Name()
						}
						if c := calleeOf(x, p.TypesInfo); c != nil && c.Pkg() == obj.Pkg() {
							calls[name] = append(calls[name], c.FullName())
						}
					}
					return true
				})
			}
		}
	})
	for changed := true; changed; {
		changed = false
		for f, cs := range calls {
			if direct[f] != "" {
				continue
			}
			for _, c := range cs {
				if direct[c] != "" {
					direct[f] = direct[c]
					changed = true
					break
				}
			}
		}
	}
	return direct
}

// globalCall: a call from this module's code that changes process-global state
func globalCall(c *ast.CallExpr, info *types.Info, mut map[string]string) string {
	if v := storeOnGlobal(c, info); v != nil {
		return "stores-into-package-var " + v.Pkg().Name() + "." + v.Name()
	}
	if fn := calleeOf(c, info); fn != nil && fn.Pkg() != nil && thirdParty(fn.Pkg().Path()) {
		if g := mut[fn.FullName()]; g != "" {
			return "library-call-writes " + g
		}
	}
	return ""
}


// ---- tables of the front end (C08, C12): regenerated so that the visitor model's copies are checked against the source ----

type optionRow struct {
	name   string
	values []string
}

// leanStr: a Lean string literal (Go's %q escapes \x00 as \x00, which Lean reads the same way; other escapes used here are shared)
func leanStr(s string) string {
	var b strings.Builder
	b.WriteByte('"')
	for _, r := range s {
		switch {
		case r == '"':
			b.WriteString("\\\"")
		case r == '\\':
			b.WriteString("\\\\")
		case r < 0x20 || r == 0x7f:
			b.WriteString(fmt.Sprintf("\\x%02x", r))
		default:
			b.WriteRune(r)
		}
	}
	b.WriteByte('"')
	return b.String()
}

func constString(e ast.Expr, info *types.Info) (string, bool) {
	if tv, ok := info.Types[e]; ok && tv.Value != nil && tv.Value.Kind() == constant.String {
		return constant.StringVal(tv.Value), true
	}
	return "", false
}

func optionsTable(cl *ast.CompositeLit, info *types.Info) []optionRow {
	var rows []optionRow
	for _, e := range cl.Elts {
		kv, ok := e.(*ast.KeyValueExpr)
		if !ok {
			continue
		}
		name, ok := constString(kv.Key, info)
		if !ok {
			name = "?" + types.ExprString(kv.Key)
		}
		row := optionRow{name: name}
		if vl, ok := kv.Value.(*ast.CompositeLit); ok {
			for _, ve := range vl.Elts {
				if v, ok := constString(ve, info); ok {
					row.values = append(row.values, v)
				} else {
					row.values = append(row.values, "?"+types.ExprString(ve))
				}
			}
		} else {
			row.values = []string{"?" + types.ExprString(kv.Value)}
		}
		rows = append(rows, row)
	}
	return rows
}

// aliasTable: every `case "a", "b": return "c"` of getBasicType, in source order
func aliasTable(fn *ast.FuncDecl, info *types.Info) [][2]string {
	var rows [][2]string
	ast.Inspect(fn.Body, func(n ast.Node) bool {
		cc, ok := n.(*ast.CaseClause)
		if !ok || cc.List == nil {
			return true
		}
		result := "?"
		for _, st := range cc.Body {
			if r, ok := st.(*ast.ReturnStmt); ok && len(r.Results) == 1 {
				if v, ok := constString(r.Results[0], info); ok {
					result = v
				} else {
					result = "?" + types.ExprString(r.Results[0])
				}
			}
		}
		for _, e := range cc.List {
			if v, ok := constString(e, info); ok {
				rows = append(rows, [2]string{v, result})
			} else {
				rows = append(rows, [2]string{"?" + types.ExprString(e), result})
			}
		}
		return true
	})
	return rows
}

// configDefaults: the constant fields of the first composite literal of NewConfiguration (nested literals flattened with a dot)
func configDefaults(fn *ast.FuncDecl, info *types.Info) [][2]string {
	var rows [][2]string
	var walk func(prefix string, cl *ast.CompositeLit)
	walk = func(prefix string, cl *ast.CompositeLit) {
		for _, e := range cl.Elts {
			kv, ok := e.(*ast.KeyValueExpr)
			if !ok {
				continue
			}
			name := prefix + types.ExprString(kv.Key)
			v := kv.Value
			if u, ok := v.(*ast.UnaryExpr); ok {
				v = u.X
			}
			if inner, ok := v.(*ast.CompositeLit); ok {
				walk(name+".", inner)
				continue
			}
			if tv, ok := info.Types[kv.Value]; ok && tv.Value != nil {
				if tv.Value.Kind() == constant.String {
					rows = append(rows, [2]string{name, constant.StringVal(tv.Value)})
				} else {
					rows = append(rows, [2]string{name, tv.Value.ExactString()})
				}
			} else {
				rows = append(rows, [2]string{name, "?" + types.ExprString(kv.Value)})
			}
		}
	}
	done := false
	ast.Inspect(fn.Body, func(n ast.Node) bool {
		if done {
			return false
		}
		if cl, ok := n.(*ast.CompositeLit); ok {
			walk("", cl)
			done = true
			return false
		}
		return true
	})
	sort.Slice(rows, func(i, j int) bool { return rows[i][0] < rows[j][0] })
	return rows
}
