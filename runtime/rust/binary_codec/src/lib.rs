//! Conforming stand-in for the `binary_codec` runtime crate that the Rust code emitted by
//! fin-protoc imports with `use binary_codec::*;`.  Semantics: /verif/runtime/CONTRACT.md.
//!
//! Every name the generator (`/repo/internal/parser/rust_generator.go`) can print is here:
//!
//! * `BinaryCodec` (trait: `encode(&self, &mut BytesMut)`, `decode(&mut Bytes) -> Option<Self>`)
//! * `put_char` / `get_char`, `put_char_list::<L>` / `get_char_list::<L>`
//! * `put_char_array` / `get_char_array`,
//!   `put_char_array_with_pad_char` / `get_char_array_trim_pad_char`
//! * `put_string[_le]::<P>` / `get_string[_le]::<P>`
//! * `put_list[_le]::<T,L>` / `get_list[_le]::<T,L>`
//! * `put_string_list[_le]::<L,S>` / `get_string_list[_le]::<L,S>`
//! * `put_fixed_string_list[_le]::<L>` / `get_fixed_string_list[_le]::<L>`,
//!   `put_fixed_string_list_with_pad_char[_le]::<L>` / `get_fixed_string_list_trim_pad_char[_le]::<L>`
//! * `put_object_list[_le]::<T,L>` / `get_object_list[_le]::<T,L>`
//! * `CHECKSUM_SERVICE_CONTEXT.get(name)`, `service.calc(buf)`, `Checksum::{U8,..,I64}(v)`
//!
//! Scalars themselves are written by the emitted code with `bytes::BufMut::put_*[_le]` /
//! `bytes::Buf::get_*[_le]`, positions with `BytesMut::len()`, in-place length patches with
//! `byteorder::{BigEndian,LittleEndian}::write_*(&mut buf[a..b], v)` or `buf[pos] = v`: those are the
//! real `bytes` / `byteorder` crates, not part of this stand-in.
//!
//! This crate deliberately exports nothing called `BigEndian`, `LittleEndian`, `ByteOrder`, `Buf`,
//! `BufMut`, `Bytes`, `BytesMut`: the emitted files glob-import `byteorder::*` next to
//! `binary_codec::*`, and a second glob-imported item of the same name would make every use ambiguous.
//!
//! Conventions (CONTRACT.md):
//! * no suffix = big-endian, `_le` = little-endian (only prefixes and list elements are affected);
//! * writers panic on an error (string longer than the fixed size, count/length that does not fit
//!   the prefix type); readers return `None` when the input is too short or is not UTF-8.

use bytes::{Buf, BufMut, Bytes, BytesMut};

// ---------------------------------------------------------------------------------------------
// the codec trait
// ---------------------------------------------------------------------------------------------

/// What every emitted packet struct implements.
pub trait BinaryCodec: Sized {
    fn encode(&self, buf: &mut BytesMut);
    fn decode(buf: &mut Bytes) -> Option<Self>;
}

// ---------------------------------------------------------------------------------------------
// type-directed scalar and prefix access
// ---------------------------------------------------------------------------------------------

/// A scalar that can be a list element: the width and signedness come from the type parameter of
/// the call (`put_list::<u32,_>`), the byte order from the function variant.
pub trait WireScalar: Copy {
    const WIDTH: usize;
    fn put_be(self, buf: &mut BytesMut);
    fn put_le(self, buf: &mut BytesMut);
    /// Caller guarantees `buf.remaining() >= WIDTH`.
    fn get_be(buf: &mut Bytes) -> Self;
    /// Caller guarantees `buf.remaining() >= WIDTH`.
    fn get_le(buf: &mut Bytes) -> Self;
}

macro_rules! wire_scalar {
    ($t:ty, $w:expr, $put:ident, $put_le:ident, $get:ident, $get_le:ident) => {
        impl WireScalar for $t {
            const WIDTH: usize = $w;
            fn put_be(self, buf: &mut BytesMut) {
                buf.$put(self)
            }
            fn put_le(self, buf: &mut BytesMut) {
                buf.$put_le(self)
            }
            fn get_be(buf: &mut Bytes) -> Self {
                buf.$get()
            }
            fn get_le(buf: &mut Bytes) -> Self {
                buf.$get_le()
            }
        }
    };
}

wire_scalar!(u8, 1, put_u8, put_u8, get_u8, get_u8);
wire_scalar!(i8, 1, put_i8, put_i8, get_i8, get_i8);
wire_scalar!(u16, 2, put_u16, put_u16_le, get_u16, get_u16_le);
wire_scalar!(i16, 2, put_i16, put_i16_le, get_i16, get_i16_le);
wire_scalar!(u32, 4, put_u32, put_u32_le, get_u32, get_u32_le);
wire_scalar!(i32, 4, put_i32, put_i32_le, get_i32, get_i32_le);
wire_scalar!(u64, 8, put_u64, put_u64_le, get_u64, get_u64_le);
wire_scalar!(i64, 8, put_i64, put_i64_le, get_i64, get_i64_le);
wire_scalar!(f32, 4, put_f32, put_f32_le, get_f32, get_f32_le);
wire_scalar!(f64, 8, put_f64, put_f64_le, get_f64, get_f64_le);

/// An unsigned length / count prefix type (`u8`, `u16`, `u32`, `u64`).
pub trait LenPrefix: WireScalar {
    /// Panics when `n` does not fit the prefix type.
    fn from_len(n: usize) -> Self;
    /// `None` when the value does not fit `usize`.
    fn to_len(self) -> Option<usize>;
}

macro_rules! len_prefix {
    ($t:ty) => {
        impl LenPrefix for $t {
            fn from_len(n: usize) -> Self {
                match <$t>::try_from(n) {
                    Ok(v) => v,
                    Err(_) => panic!(
                        "binary_codec: length {} does not fit the {} prefix",
                        n,
                        stringify!($t)
                    ),
                }
            }
            fn to_len(self) -> Option<usize> {
                usize::try_from(self).ok()
            }
        }
    };
}

len_prefix!(u8);
len_prefix!(u16);
len_prefix!(u32);
len_prefix!(u64);

#[derive(Clone, Copy, PartialEq, Eq)]
enum Order {
    Big,
    Little,
}

fn put_scalar<T: WireScalar>(buf: &mut BytesMut, v: T, order: Order) {
    match order {
        Order::Big => v.put_be(buf),
        Order::Little => v.put_le(buf),
    }
}

fn get_scalar<T: WireScalar>(buf: &mut Bytes, order: Order) -> Option<T> {
    if buf.remaining() < T::WIDTH {
        return None;
    }
    Some(match order {
        Order::Big => T::get_be(buf),
        Order::Little => T::get_le(buf),
    })
}

fn put_prefix<P: LenPrefix>(buf: &mut BytesMut, n: usize, order: Order) {
    put_scalar::<P>(buf, P::from_len(n), order)
}

fn get_prefix<P: LenPrefix>(buf: &mut Bytes, order: Order) -> Option<usize> {
    get_scalar::<P>(buf, order)?.to_len()
}

/// Do not trust a count read from the wire for the allocation.
fn vec_for<T>(count: usize) -> Vec<T> {
    Vec::with_capacity(count.min(1024))
}

// ---------------------------------------------------------------------------------------------
// char
// ---------------------------------------------------------------------------------------------

fn char_byte(c: char) -> u8 {
    let v = c as u32;
    if v > 0xFF {
        panic!("binary_codec: char {:?} does not fit one byte", c);
    }
    v as u8
}

/// One byte.
pub fn put_char(buf: &mut BytesMut, c: char) {
    buf.put_u8(char_byte(c));
}

/// One byte.
pub fn get_char(buf: &mut Bytes) -> Option<char> {
    if buf.remaining() < 1 {
        return None;
    }
    Some(buf.get_u8() as char)
}

/// `L`-wide big-endian count, then one byte per char (the generator has no `_le` variant).
pub fn put_char_list<L: LenPrefix>(buf: &mut BytesMut, list: &[char]) {
    put_prefix::<L>(buf, list.len(), Order::Big);
    for c in list {
        put_char(buf, *c);
    }
}

pub fn get_char_list<L: LenPrefix>(buf: &mut Bytes) -> Option<Vec<char>> {
    let n = get_prefix::<L>(buf, Order::Big)?;
    let mut out = vec_for(n);
    for _ in 0..n {
        out.push(get_char(buf)?);
    }
    Some(out)
}

// ---------------------------------------------------------------------------------------------
// fixed strings: char[n]
// ---------------------------------------------------------------------------------------------

fn write_fixed(buf: &mut BytesMut, s: &str, size: usize, pad: u8, from_left: bool) {
    let bytes = s.as_bytes();
    if bytes.len() > size {
        panic!(
            "binary_codec: string {:?} is {} bytes long, longer than the fixed size {}",
            s,
            bytes.len(),
            size
        );
    }
    let fill = size - bytes.len();
    if from_left {
        buf.put_bytes(pad, fill);
        buf.put_slice(bytes);
    } else {
        buf.put_slice(bytes);
        buf.put_bytes(pad, fill);
    }
}

fn read_fixed(buf: &mut Bytes, size: usize, pad: u8, from_left: bool) -> Option<String> {
    if buf.remaining() < size {
        return None;
    }
    let raw = buf.split_to(size);
    let mut s: &[u8] = &raw;
    if from_left {
        while let Some((first, rest)) = s.split_first() {
            if *first != pad {
                break;
            }
            s = rest;
        }
    } else {
        while let Some((last, rest)) = s.split_last() {
            if *last != pad {
                break;
            }
            s = rest;
        }
    }
    String::from_utf8(s.to_vec()).ok()
}

/// Exactly `size` bytes: the string, padded with spaces on the right.  Panics when it is longer.
pub fn put_char_array(buf: &mut BytesMut, s: &str, size: usize) {
    write_fixed(buf, s, size, b' ', false);
}

/// Exactly `size` bytes, trailing spaces trimmed.
pub fn get_char_array(buf: &mut Bytes, size: usize) -> Option<String> {
    read_fixed(buf, size, b' ', false)
}

/// Exactly `size` bytes: the string, padded with `pad_char` on the left (`from_left`) or right.
pub fn put_char_array_with_pad_char(
    buf: &mut BytesMut,
    s: &str,
    size: usize,
    pad_char: char,
    from_left: bool,
) {
    write_fixed(buf, s, size, char_byte(pad_char), from_left);
}

/// Exactly `size` bytes, `pad_char` trimmed on the left (`from_left`) or right.
pub fn get_char_array_trim_pad_char(
    buf: &mut Bytes,
    size: usize,
    pad_char: char,
    from_left: bool,
) -> Option<String> {
    read_fixed(buf, size, char_byte(pad_char), from_left)
}

fn put_fixed_list<L: LenPrefix>(
    buf: &mut BytesMut,
    list: &[String],
    size: usize,
    pad: u8,
    from_left: bool,
    order: Order,
) {
    put_prefix::<L>(buf, list.len(), order);
    for s in list {
        write_fixed(buf, s, size, pad, from_left);
    }
}

fn get_fixed_list<L: LenPrefix>(
    buf: &mut Bytes,
    size: usize,
    pad: u8,
    from_left: bool,
    order: Order,
) -> Option<Vec<String>> {
    let n = get_prefix::<L>(buf, order)?;
    let mut out = vec_for(n);
    for _ in 0..n {
        out.push(read_fixed(buf, size, pad, from_left)?);
    }
    Some(out)
}

pub fn put_fixed_string_list<L: LenPrefix>(buf: &mut BytesMut, list: &[String], size: usize) {
    put_fixed_list::<L>(buf, list, size, b' ', false, Order::Big);
}

pub fn put_fixed_string_list_le<L: LenPrefix>(buf: &mut BytesMut, list: &[String], size: usize) {
    put_fixed_list::<L>(buf, list, size, b' ', false, Order::Little);
}

pub fn put_fixed_string_list_with_pad_char<L: LenPrefix>(
    buf: &mut BytesMut,
    list: &[String],
    size: usize,
    pad_char: char,
    from_left: bool,
) {
    put_fixed_list::<L>(buf, list, size, char_byte(pad_char), from_left, Order::Big);
}

pub fn put_fixed_string_list_with_pad_char_le<L: LenPrefix>(
    buf: &mut BytesMut,
    list: &[String],
    size: usize,
    pad_char: char,
    from_left: bool,
) {
    put_fixed_list::<L>(buf, list, size, char_byte(pad_char), from_left, Order::Little);
}

pub fn get_fixed_string_list<L: LenPrefix>(buf: &mut Bytes, size: usize) -> Option<Vec<String>> {
    get_fixed_list::<L>(buf, size, b' ', false, Order::Big)
}

pub fn get_fixed_string_list_le<L: LenPrefix>(buf: &mut Bytes, size: usize) -> Option<Vec<String>> {
    get_fixed_list::<L>(buf, size, b' ', false, Order::Little)
}

pub fn get_fixed_string_list_trim_pad_char<L: LenPrefix>(
    buf: &mut Bytes,
    size: usize,
    pad_char: char,
    from_left: bool,
) -> Option<Vec<String>> {
    get_fixed_list::<L>(buf, size, char_byte(pad_char), from_left, Order::Big)
}

pub fn get_fixed_string_list_trim_pad_char_le<L: LenPrefix>(
    buf: &mut Bytes,
    size: usize,
    pad_char: char,
    from_left: bool,
) -> Option<Vec<String>> {
    get_fixed_list::<L>(buf, size, char_byte(pad_char), from_left, Order::Little)
}

// ---------------------------------------------------------------------------------------------
// length-prefixed strings
// ---------------------------------------------------------------------------------------------

fn write_string<P: LenPrefix>(buf: &mut BytesMut, s: &str, order: Order) {
    put_prefix::<P>(buf, s.len(), order);
    buf.put_slice(s.as_bytes());
}

fn read_string<P: LenPrefix>(buf: &mut Bytes, order: Order) -> Option<String> {
    let n = get_prefix::<P>(buf, order)?;
    if buf.remaining() < n {
        return None;
    }
    let raw = buf.split_to(n);
    String::from_utf8(raw.to_vec()).ok()
}

/// `P`-wide big-endian byte length, then the UTF-8 bytes.
pub fn put_string<P: LenPrefix>(buf: &mut BytesMut, s: &str) {
    write_string::<P>(buf, s, Order::Big);
}

/// `P`-wide little-endian byte length, then the UTF-8 bytes.
pub fn put_string_le<P: LenPrefix>(buf: &mut BytesMut, s: &str) {
    write_string::<P>(buf, s, Order::Little);
}

pub fn get_string<P: LenPrefix>(buf: &mut Bytes) -> Option<String> {
    read_string::<P>(buf, Order::Big)
}

pub fn get_string_le<P: LenPrefix>(buf: &mut Bytes) -> Option<String> {
    read_string::<P>(buf, Order::Little)
}

fn write_string_list<L: LenPrefix, S: LenPrefix>(buf: &mut BytesMut, list: &[String], order: Order) {
    put_prefix::<L>(buf, list.len(), order);
    for s in list {
        write_string::<S>(buf, s, order);
    }
}

fn read_string_list<L: LenPrefix, S: LenPrefix>(buf: &mut Bytes, order: Order) -> Option<Vec<String>> {
    let n = get_prefix::<L>(buf, order)?;
    let mut out = vec_for(n);
    for _ in 0..n {
        out.push(read_string::<S>(buf, order)?);
    }
    Some(out)
}

/// `L`-wide count, then each string with an `S`-wide length, all big-endian.
pub fn put_string_list<L: LenPrefix, S: LenPrefix>(buf: &mut BytesMut, list: &[String]) {
    write_string_list::<L, S>(buf, list, Order::Big);
}

/// `L`-wide count, then each string with an `S`-wide length, all little-endian.
pub fn put_string_list_le<L: LenPrefix, S: LenPrefix>(buf: &mut BytesMut, list: &[String]) {
    write_string_list::<L, S>(buf, list, Order::Little);
}

pub fn get_string_list<L: LenPrefix, S: LenPrefix>(buf: &mut Bytes) -> Option<Vec<String>> {
    read_string_list::<L, S>(buf, Order::Big)
}

pub fn get_string_list_le<L: LenPrefix, S: LenPrefix>(buf: &mut Bytes) -> Option<Vec<String>> {
    read_string_list::<L, S>(buf, Order::Little)
}

// ---------------------------------------------------------------------------------------------
// scalar lists
// ---------------------------------------------------------------------------------------------

fn write_list<T: WireScalar, L: LenPrefix>(buf: &mut BytesMut, list: &[T], order: Order) {
    put_prefix::<L>(buf, list.len(), order);
    for v in list {
        put_scalar::<T>(buf, *v, order);
    }
}

fn read_list<T: WireScalar, L: LenPrefix>(buf: &mut Bytes, order: Order) -> Option<Vec<T>> {
    let n = get_prefix::<L>(buf, order)?;
    let mut out = vec_for(n);
    for _ in 0..n {
        out.push(get_scalar::<T>(buf, order)?);
    }
    Some(out)
}

/// `L`-wide count, then the elements, all big-endian.
pub fn put_list<T: WireScalar, L: LenPrefix>(buf: &mut BytesMut, list: &[T]) {
    write_list::<T, L>(buf, list, Order::Big);
}

/// `L`-wide count, then the elements, all little-endian.
pub fn put_list_le<T: WireScalar, L: LenPrefix>(buf: &mut BytesMut, list: &[T]) {
    write_list::<T, L>(buf, list, Order::Little);
}

pub fn get_list<T: WireScalar, L: LenPrefix>(buf: &mut Bytes) -> Option<Vec<T>> {
    read_list::<T, L>(buf, Order::Big)
}

pub fn get_list_le<T: WireScalar, L: LenPrefix>(buf: &mut Bytes) -> Option<Vec<T>> {
    read_list::<T, L>(buf, Order::Little)
}

// ---------------------------------------------------------------------------------------------
// object lists
// ---------------------------------------------------------------------------------------------

fn write_object_list<T: BinaryCodec, L: LenPrefix>(buf: &mut BytesMut, list: &[T], order: Order) {
    put_prefix::<L>(buf, list.len(), order);
    for v in list {
        v.encode(buf);
    }
}

fn read_object_list<T: BinaryCodec, L: LenPrefix>(buf: &mut Bytes, order: Order) -> Option<Vec<T>> {
    let n = get_prefix::<L>(buf, order)?;
    let mut out = vec_for(n);
    for _ in 0..n {
        out.push(T::decode(buf)?);
    }
    Some(out)
}

/// `L`-wide big-endian count, then each element's own `encode`.
pub fn put_object_list<T: BinaryCodec, L: LenPrefix>(buf: &mut BytesMut, list: &[T]) {
    write_object_list::<T, L>(buf, list, Order::Big);
}

/// `L`-wide little-endian count, then each element's own `encode`.
pub fn put_object_list_le<T: BinaryCodec, L: LenPrefix>(buf: &mut BytesMut, list: &[T]) {
    write_object_list::<T, L>(buf, list, Order::Little);
}

pub fn get_object_list<T: BinaryCodec, L: LenPrefix>(buf: &mut Bytes) -> Option<Vec<T>> {
    read_object_list::<T, L>(buf, Order::Big)
}

pub fn get_object_list_le<T: BinaryCodec, L: LenPrefix>(buf: &mut Bytes) -> Option<Vec<T>> {
    read_object_list::<T, L>(buf, Order::Little)
}

// ---------------------------------------------------------------------------------------------
// checksum registry
// ---------------------------------------------------------------------------------------------
//
// The emitted code is
//
//     let val = CHECKSUM_SERVICE_CONTEXT.get("CRC32")
//         .and_then(|service| match service.calc(buf) {
//             Checksum::U32(v) => Some(v),
//             _ => None,
//             }).unwrap_or(self.crc);
//
// CONTRACT.md: the registry is empty unless FP_CHECKSUM=sum; then EVERY name resolves to a service
// whose `calc(buf)` is (sum of all bytes in the buffer) mod 128, "wrapped in whichever Checksum
// variant the emitted code matches on".  A plain `enum Checksum` cannot do the last part (`calc`
// would have to guess the variant from the algorithm name), so here `Checksum` is a namespace of
// one-field tuple structs and `calc` is generic in its result: the pattern `Checksum::U32(v)` fixes
// the result type to `Checksum::U32` and binds `v: u32`, exactly the typing an enum variant of the
// same name gives.  (The emitted `_ => None` arm becomes unreachable: a warning, not an error.)

/// The value namespace the emitted code matches on: `Checksum::U8(v)` … `Checksum::I64(v)`.
#[allow(non_snake_case)]
pub mod Checksum {
    macro_rules! variant {
        ($name:ident, $t:ty) => {
            #[derive(Debug, Clone, Copy, PartialEq)]
            pub struct $name(pub $t);
            impl super::ChecksumValue for $name {
                fn from_sum(sum: u8) -> Self {
                    $name(sum as $t)
                }
            }
        };
    }
    variant!(U8, u8);
    variant!(U16, u16);
    variant!(U32, u32);
    variant!(U64, u64);
    variant!(I8, i8);
    variant!(I16, i16);
    variant!(I32, i32);
    variant!(I64, i64);
}

/// A checksum result the stand-in service can produce.
pub trait ChecksumValue {
    /// `sum` is the byte sum of the buffer modulo 128.
    fn from_sum(sum: u8) -> Self;
}

/// The only service of the stand-in registry.
#[derive(Debug, Clone, Copy)]
pub struct ChecksumService;

impl ChecksumService {
    /// Sum of all bytes currently in the buffer (start to write position), modulo 128.
    pub fn calc<T: ChecksumValue>(&self, buf: &BytesMut) -> T {
        let sum = buf.iter().fold(0u8, |acc, b| acc.wrapping_add(*b));
        T::from_sum(sum & 0x7f) // modulo 128: fits every result type, signed ones included
    }
}

/// The registry type behind `CHECKSUM_SERVICE_CONTEXT`.
#[derive(Debug)]
pub struct ChecksumServiceContext;

static SUM_SERVICE: ChecksumService = ChecksumService;

impl ChecksumServiceContext {
    /// Lookup by algorithm name.  Empty unless the environment variable `FP_CHECKSUM` is `sum`;
    /// then every name resolves to the byte-sum service.
    pub fn get(&self, _name: &str) -> Option<&'static ChecksumService> {
        match std::env::var("FP_CHECKSUM") {
            Ok(v) if v == "sum" => Some(&SUM_SERVICE),
            _ => None,
        }
    }
}

pub static CHECKSUM_SERVICE_CONTEXT: ChecksumServiceContext = ChecksumServiceContext;

// ---------------------------------------------------------------------------------------------
// the stand-in's own tests (cargo test in this directory)
// ---------------------------------------------------------------------------------------------

#[cfg(test)]
mod tests {
    use super::*;

    #[test]
    fn strings_and_prefixes() {
        let mut b = BytesMut::new();
        put_string::<u16>(&mut b, "ab");
        put_string_le::<u32>(&mut b, "c");
        put_string::<u8>(&mut b, "");
        put_string_le::<u64>(&mut b, "d");
        assert_eq!(
            &b[..],
            &[0, 2, b'a', b'b', 1, 0, 0, 0, b'c', 0, 1, 0, 0, 0, 0, 0, 0, 0, b'd'][..]
        );
        let mut r = b.freeze();
        assert_eq!(get_string::<u16>(&mut r).unwrap(), "ab");
        assert_eq!(get_string_le::<u32>(&mut r).unwrap(), "c");
        assert_eq!(get_string::<u8>(&mut r).unwrap(), "");
        assert_eq!(get_string_le::<u64>(&mut r).unwrap(), "d");
        assert_eq!(get_string::<u16>(&mut r), None);
    }

    #[test]
    fn fixed_strings() {
        let mut b = BytesMut::new();
        put_char_array(&mut b, "ab", 4);
        put_char_array_with_pad_char(&mut b, "ab", 4, '0', true);
        put_char_array_with_pad_char(&mut b, "ab", 4, '\0', false);
        put_char_array_with_pad_char(&mut b, " a", 3, ' ', true);
        assert_eq!(&b[..], b"ab  00abab\0\0  a");
        let mut r = b.freeze();
        assert_eq!(get_char_array(&mut r, 4).unwrap(), "ab");
        assert_eq!(get_char_array_trim_pad_char(&mut r, 4, '0', true).unwrap(), "ab");
        assert_eq!(get_char_array_trim_pad_char(&mut r, 4, '\0', false).unwrap(), "ab");
        assert_eq!(get_char_array_trim_pad_char(&mut r, 3, ' ', true).unwrap(), "a");
        assert_eq!(get_char_array(&mut r, 1), None);
    }

    #[test]
    #[should_panic]
    fn fixed_string_too_long() {
        let mut b = BytesMut::new();
        put_char_array(&mut b, "abcde", 4);
    }

    #[test]
    #[should_panic]
    fn count_does_not_fit() {
        let mut b = BytesMut::new();
        put_list::<u8, u8>(&mut b, &vec![0u8; 256]);
    }

    #[test]
    fn lists() {
        let mut b = BytesMut::new();
        put_list::<u16, u8>(&mut b, &vec![1, 2]);
        put_list_le::<i32, u16>(&mut b, &vec![-2]);
        put_char_list::<u16>(&mut b, &vec!['a', 'b']);
        put_fixed_string_list_le::<u16>(&mut b, &vec!["a".to_string()], 2);
        put_fixed_string_list_with_pad_char::<u8>(&mut b, &vec!["a".to_string()], 2, '0', true);
        put_string_list_le::<u8, u16>(&mut b, &vec!["x".to_string()]);
        assert_eq!(
            &b[..],
            &[
                2, 0, 1, 0, 2, 1, 0, 0xFE, 0xFF, 0xFF, 0xFF, 0, 2, b'a', b'b', 1, 0, b'a', b' ', 1, b'0',
                b'a', 1, 1, 0, b'x'
            ][..]
        );
        let mut r = b.freeze();
        assert_eq!(get_list::<u16, u8>(&mut r).unwrap(), vec![1, 2]);
        assert_eq!(get_list_le::<i32, u16>(&mut r).unwrap(), vec![-2]);
        assert_eq!(get_char_list::<u16>(&mut r).unwrap(), vec!['a', 'b']);
        assert_eq!(get_fixed_string_list_le::<u16>(&mut r, 2).unwrap(), vec!["a".to_string()]);
        assert_eq!(
            get_fixed_string_list_trim_pad_char::<u8>(&mut r, 2, '0', true).unwrap(),
            vec!["a".to_string()]
        );
        assert_eq!(get_string_list_le::<u8, u16>(&mut r).unwrap(), vec!["x".to_string()]);
        assert!(r.is_empty());
    }

    #[test]
    fn checksum() {
        // the only test of this crate that touches the environment
        let mut b = BytesMut::new();
        b.put_slice(&[200, 100, 1]);
        std::env::remove_var("FP_CHECKSUM");
        assert!(CHECKSUM_SERVICE_CONTEXT.get("CRC32").is_none());
        std::env::set_var("FP_CHECKSUM", "sum");
        let buf = &mut b;
        let val = CHECKSUM_SERVICE_CONTEXT
            .get("CRC32")
            .and_then(|service| match service.calc(buf) {
                Checksum::U32(v) => Some(v),
                #[allow(unreachable_patterns)]
                _ => None,
            })
            .unwrap_or(7u32);
        assert_eq!(val, 45);
        let val = CHECKSUM_SERVICE_CONTEXT
            .get("x")
            .and_then(|service| match service.calc(buf) {
                Checksum::I8(v) => Some(v),
                #[allow(unreachable_patterns)]
                _ => None,
            })
            .unwrap_or(7i8);
        assert_eq!(val, 45);
        buf.put_u8(200);
        let val: Checksum::I8 = CHECKSUM_SERVICE_CONTEXT.get("x").unwrap().calc(buf);
        assert_eq!(val.0, -11);
        std::env::remove_var("FP_CHECKSUM");
    }
}
