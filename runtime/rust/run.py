#!/usr/bin/env python3
"""Runner for the Rust self-tests emitted by fin-protoc (interface: /verif/runtime/CONTRACT.md).

    python3 /verif/runtime/rust/run.py <generated-output-dir> [--keep]

<generated-output-dir> is what was handed to `fin-protoc compile -r`: it holds lib.rs and one
<packet>.rs per packet (a directory with these files under src/ is accepted too).  The files are
copied UNMODIFIED into src/ of a fresh cargo package under /var/tmp whose only dependencies are the
stand-in `binary_codec` crate next to this script and the real `bytes` / `byteorder` crates from the
local cargo registry; `cargo test --offline --no-run` builds the test executable and every test is then
run in its own process (`<exe> <name> --exact`), so a crashing test cannot hide the others.

When the crate does not build, the build is retried per emitted file: for each <packet>.rs a crate root
written by the runner declares only that module and the modules it reaches through `use crate::x::*`
(the emitted lib.rs is left out, no emitted line is changed).  Tests of files that build are run, tests
of files that do not are reported with status "error" and the compiler message that concerns them.

Prints one JSON object on stdout; exit status 0 whenever the JSON was produced, 2 on usage errors.
"""

import hashlib
import json
import os
import re
import shutil
import subprocess
import sys
import tempfile

HERE = os.path.dirname(os.path.abspath(__file__))
STANDIN = os.path.join(HERE, "binary_codec")
CACHE = os.path.join(HERE, ".cache")
SCRATCH_PARENT = "/var/tmp"
PKG = "emitted"
TEST_TIMEOUT = 120  # seconds, per test process
BUILD_TIMEOUT = 900  # seconds, per cargo invocation

CARGO_TOML = """[package]
name = "%(pkg)s"
version = "0.0.0"
edition = "2021"
publish = false

[lib]
name = "%(pkg)s"
path = "%(root)s"
doctest = false

[dependencies]
binary_codec = { path = "%(standin)s" }
bytes = "1"
byteorder = "1"

[profile.dev]
debug = 0
incremental = false

[profile.test]
debug = 0
incremental = false
"""


def cargo_env(target_dir):
    env = dict(os.environ)
    cargo_bin = os.path.expanduser("~/.cargo/bin")
    if os.path.isdir("/root/.cargo/bin"):
        cargo_bin = "/root/.cargo/bin" + os.pathsep + cargo_bin
    env["PATH"] = cargo_bin + os.pathsep + env.get("PATH", "")
    env["CARGO_NET_OFFLINE"] = "true"
    env["CARGO_TARGET_DIR"] = target_dir
    env["CARGO_TERM_COLOR"] = "never"
    # the prebuilt dependencies were compiled without extra flags: keep the fingerprints equal
    for k in ("RUSTFLAGS", "CARGO_ENCODED_RUSTFLAGS", "CARGO_BUILD_RUSTFLAGS", "RUSTC_WRAPPER",
              "CARGO_BUILD_TARGET", "CARGO_INCREMENTAL"):
        env.pop(k, None)
    return env


def write_manifest(crate, root="src/lib.rs"):
    with open(os.path.join(crate, "Cargo.toml"), "w") as f:
        f.write(CARGO_TOML % {"pkg": PKG, "root": root, "standin": STANDIN})


# ----------------------------------------------------------------------------------------------
# prebuilt dependencies (the stand-in itself, bytes, byteorder): /verif/runtime/rust/.cache
# ----------------------------------------------------------------------------------------------

def seed_stamp():
    h = hashlib.sha256()
    for dirpath, dirnames, filenames in sorted(os.walk(STANDIN)):
        dirnames.sort()
        for fn in sorted(filenames):
            if fn == "Cargo.lock":
                continue
            p = os.path.join(dirpath, fn)
            h.update(os.path.relpath(p, STANDIN).encode())
            with open(p, "rb") as f:
                h.update(f.read())
    h.update(CARGO_TOML.encode())
    try:
        v = subprocess.run(["rustc", "-vV"], env=cargo_env("/nonexistent"), capture_output=True,
                           text=True, timeout=60).stdout
    except Exception:
        v = ""
    h.update(v.encode())
    return h.hexdigest()


def ensure_seed():
    """Returns the directory holding a prebuilt `target` and `Cargo.lock`, or None when it could
    not be made (then the run just compiles the dependencies itself)."""
    stamp = seed_stamp()
    seed = os.path.join(CACHE, "seed-" + stamp[:16])
    if os.path.isfile(os.path.join(seed, "ok")):
        return seed
    tmp = None
    try:
        os.makedirs(CACHE, exist_ok=True)
        # older seeds belong to older stand-in sources
        for name in os.listdir(CACHE):
            if name.startswith("seed-") and name != os.path.basename(seed):
                shutil.rmtree(os.path.join(CACHE, name), ignore_errors=True)
        tmp = tempfile.mkdtemp(prefix="fp-rust-seed-", dir=SCRATCH_PARENT)
        crate = os.path.join(tmp, "crate")
        os.makedirs(os.path.join(crate, "src"))
        with open(os.path.join(crate, "src", "lib.rs"), "w") as f:
            f.write("")
        write_manifest(crate)
        target = os.path.join(tmp, "out", "target")
        os.makedirs(target)
        p = subprocess.run(["cargo", "test", "--offline", "--no-run", "--lib"], cwd=crate,
                           env=cargo_env(target), capture_output=True, text=True, timeout=BUILD_TIMEOUT)
        if p.returncode != 0:
            sys.stderr.write("run.py: could not prebuild the stand-in:\n" + p.stderr[-2000:] + "\n")
            return None
        shutil.copy2(os.path.join(crate, "Cargo.lock"), os.path.join(tmp, "out", "Cargo.lock"))
        with open(os.path.join(tmp, "out", "ok"), "w") as f:
            f.write(stamp + "\n")
        staged = tempfile.mkdtemp(prefix="staging-", dir=CACHE)
        subprocess.run(["cp", "-a", os.path.join(tmp, "out") + "/.", staged], check=True)
        try:
            os.rename(staged, seed)
        except OSError:
            shutil.rmtree(staged, ignore_errors=True)  # somebody else was faster
        return seed if os.path.isfile(os.path.join(seed, "ok")) else None
    except Exception as e:  # the cache is an optimisation only
        sys.stderr.write("run.py: no prebuilt stand-in (%s)\n" % e)
        return None
    finally:
        if tmp:
            shutil.rmtree(tmp, ignore_errors=True)


# ----------------------------------------------------------------------------------------------
# reading (never changing) the emitted sources
# ----------------------------------------------------------------------------------------------

def scan_tests(path, module):
    """The tests of one emitted file as libtest will name them, with the line range of the test
    module each one lives in: [(name, first_line, last_line)]."""
    try:
        with open(path, encoding="utf-8", errors="replace") as f:
            lines = f.read().split("\n")
    except OSError:
        return []
    out = []
    i = 0
    n = len(lines)
    while i < n:
        if lines[i].strip() == "#[cfg(test)]" and i + 1 < n:
            m = re.match(r"\s*mod\s+(\w+)\s*\{", lines[i + 1])
            if m:
                start = i + 1  # 1-based line of #[cfg(test)]
                j = i + 2
                while j < n and lines[j].rstrip() != "}":
                    j += 1
                end = min(j, n - 1) + 1
                for k in range(i + 2, min(j, n)):
                    if lines[k].strip() == "#[test]":
                        for k2 in range(k + 1, min(k + 4, n)):
                            fm = re.match(r"\s*(?:pub\s+)?fn\s+(\w+)\s*\(", lines[k2])
                            if fm:
                                out.append(("%s::%s::%s" % (module, m.group(1), fm.group(1)), start, end))
                                break
                i = j
        i += 1
    return out


def scan_deps(path, modules):
    try:
        with open(path, encoding="utf-8", errors="replace") as f:
            text = f.read()
    except OSError:
        return set()
    return {d for d in re.findall(r"\bcrate::(\w+)\b", text) if d in modules}


def closure(module, deps):
    seen = set()
    todo = [module]
    while todo:
        m = todo.pop()
        if m in seen:
            continue
        seen.add(m)
        todo.extend(deps.get(m, ()))
    return seen


# ----------------------------------------------------------------------------------------------
# building and running
# ----------------------------------------------------------------------------------------------

class Build:
    def __init__(self):
        self.ok = False
        self.exe = None
        self.errors = []  # [{"text": rendered, "file": primary file (relative), "line": n}]
        self.stderr = ""

    def log(self):
        parts = [e["text"].rstrip() for e in self.errors]
        lines = self.stderr.splitlines()
        tail = [l for i, l in enumerate(lines) if l.startswith("error") or l.startswith("Caused by")
                or (l.startswith("  ") and i > 0 and lines[i - 1].startswith("Caused by"))]
        if not parts:
            tail = lines
        return ("\n\n".join(parts) + "\n" + "\n".join(tail)).strip()


def build(crate, target):
    b = Build()
    try:
        p = subprocess.run(["cargo", "test", "--offline", "--no-run", "--lib", "--message-format=json"],
                           cwd=crate, env=cargo_env(target), capture_output=True, text=True,
                           errors="replace", timeout=BUILD_TIMEOUT)
    except subprocess.TimeoutExpired:
        b.stderr = "error: cargo did not finish within %d s" % BUILD_TIMEOUT
        return b
    except OSError as e:
        b.stderr = "error: cannot run cargo: %s" % e
        return b
    b.stderr = p.stderr
    finished_ok = False
    for line in p.stdout.splitlines():
        if not line.startswith("{"):
            continue
        try:
            msg = json.loads(line)
        except ValueError:
            continue
        reason = msg.get("reason")
        if reason == "compiler-message":
            d = msg.get("message", {})
            if d.get("level") not in ("error", "error: internal compiler error"):
                continue
            text = d.get("rendered") or d.get("message") or ""
            if text.startswith("error: aborting due to"):
                continue
            file, lineno = None, None
            spans = d.get("spans") or []
            for s in spans:
                if s.get("is_primary"):
                    file, lineno = s.get("file_name"), s.get("line_start")
                    break
            else:
                if spans:
                    file, lineno = spans[0].get("file_name"), spans[0].get("line_start")
            b.errors.append({"text": text, "file": file, "line": lineno})
        elif reason == "compiler-artifact":
            if msg.get("executable") and msg.get("profile", {}).get("test") \
                    and msg.get("target", {}).get("name") == PKG:
                b.exe = msg["executable"]
        elif reason == "build-finished":
            finished_ok = bool(msg.get("success"))
    b.ok = p.returncode == 0 and finished_ok and b.exe is not None
    return b


def list_tests(exe):
    try:
        p = subprocess.run([exe, "--list", "--format", "terse"], capture_output=True, text=True,
                           errors="replace", timeout=TEST_TIMEOUT)
    except Exception:
        return []
    names = []
    for line in p.stdout.splitlines():
        if line.endswith(": test"):
            names.append(line[:-len(": test")])
    return names


def clip(s, n=600):
    s = s.strip()
    return s if len(s) <= n else s[:n - 3] + "..."


def run_test(exe, name, cwd):
    try:
        p = subprocess.run([exe, name, "--exact", "--test-threads=1"], cwd=cwd, capture_output=True,
                           text=True, errors="replace", timeout=TEST_TIMEOUT, env=test_env())
    except subprocess.TimeoutExpired:
        return {"name": name, "status": "error", "detail": "test did not finish within %d s" % TEST_TIMEOUT}
    except OSError as e:
        return {"name": name, "status": "error", "detail": "cannot run the test executable: %s" % e}
    out = p.stdout
    m = re.search(r"^test %s(?: - [^\n]*?)? \.\.\. (\w+)" % re.escape(name), out, re.M)
    verdict = m.group(1) if m else None
    if p.returncode == 0 and verdict == "ok":
        return {"name": name, "status": "pass", "detail": ""}
    if p.returncode == 0 and verdict == "ignored":
        return {"name": name, "status": "error", "detail": "ignored by the test framework"}
    if p.returncode == 0 and verdict is None:
        return {"name": name, "status": "error", "detail": clip("the test was not run: " + out)}
    detail = ""
    sec = re.search(r"^---- %s stdout ----\n(.*?)(?:\n\nfailures:|\Z)" % re.escape(name), out, re.M | re.S)
    if sec:
        detail = sec.group(1)
        detail = re.sub(r"\nnote: run with `RUST_BACKTRACE=1`[^\n]*", "", detail)
    if p.returncode < 0 or p.returncode not in (0, 101):
        how = "signal %d" % -p.returncode if p.returncode < 0 else "exit status %d" % p.returncode
        detail = ("test process ended with %s\n" % how) + (detail or (p.stderr[-400:] + "\n" + out[-200:]))
    if not detail.strip():
        detail = (p.stderr.strip() + "\n" + out.strip())[-600:]
    return {"name": name, "status": "fail", "detail": clip(detail)}


def test_env():
    env = dict(os.environ)
    env.pop("RUST_BACKTRACE", None)
    return env


def run_tests(exe, names, cwd):
    return [run_test(exe, n, cwd) for n in names]


def attribute(test, module_file, errors):
    """The compiler message(s) that concern one test of a file that did not build: the errors located
    inside the test's own module, else the first error located in the test's file, else the first error
    of the build that failed (it is then in a file this one imports)."""
    name, first, last = test
    rel = "src/" + module_file
    own = [e for e in errors if e["file"] == rel]
    inside = [e for e in own if e["line"] is not None and first <= e["line"] <= last]
    if inside:
        return clip("\n".join(e["text"].rstrip() for e in inside))
    if own:
        return clip(own[0]["text"])
    if errors:
        where = errors[0]["file"] or "the crate"
        return clip("[%s cannot be built because of an error in %s]\n%s" % (rel, where, errors[0]["text"]))
    return ""


def merge_errors(first, second):
    seen = set()
    out = []
    for e in list(first) + list(second):
        key = (e["file"], e["line"], e["text"])
        if key not in seen:
            seen.add(key)
            out.append(e)
    return out


def retry_per_file(crate, target, modules, tests_of, file_of, whole_errors):
    """modules: emitted module names (file stem); whole_errors: the errors of the failed build of the
    whole crate (they complete the attribution: a file that is not retried on its own because a file it
    imports is broken may have errors of its own).  Returns the list of test results."""
    deps = {m: scan_deps(os.path.join(crate, "src", file_of[m]), set(modules)) - {m} for m in modules}
    clos = {m: closure(m, deps) for m in modules}
    results = {}  # test name -> result
    good = set()
    bad = {}  # module -> (errors, fallback text)
    # small closures first: a file that cannot be built alone takes every file that imports it with it
    order = sorted(modules, key=lambda m: (len(clos[m]), m))
    n_root = 0
    for m in order:
        if m in good or m in bad:
            continue
        broken_dep = next((d for d in sorted(clos[m]) if d in bad), None)
        if broken_dep is not None:
            errs, text = bad[broken_dep]
            bad[m] = (errs, text)
            continue
        n_root += 1
        root = "src/fp_runner_root_%d.rs" % n_root
        with open(os.path.join(crate, root), "w") as f:
            f.write("// written by /verif/runtime/rust/run.py: crate root for the per-file retry\n")
            for d in sorted(clos[m]):
                if file_of[d] == d + ".rs":
                    f.write("pub mod %s;\n" % d)
                else:
                    f.write("#[path = \"%s\"]\npub mod %s;\n" % (file_of[d], d))
        write_manifest(crate, root)
        b = build(crate, target)
        os.remove(os.path.join(crate, root))
        if b.ok:
            names = list_tests(b.exe)
            fresh = [d for d in clos[m] if d not in good]
            for d in fresh:
                good.add(d)
            wanted = [n for n in names if n.split("::")[0] in fresh and n not in results]
            for r in run_tests(b.exe, wanted, crate):
                results[r["name"]] = r
        else:
            bad[m] = (b.errors, b.log())
    out = []
    for m in sorted(modules):
        if m in bad:
            errs, text = bad[m]
            rel = "src/" + file_of[m]
            errs = merge_errors([e for e in whole_errors if e["file"] == rel], errs)
            for t in tests_of[m]:
                detail = attribute(t, file_of[m], errs) or clip(text)
                out.append({"name": t[0], "status": "error", "detail": detail})
        else:
            out.extend(r for n, r in sorted(results.items()) if n.split("::")[0] == m)
    return out


def main(argv):
    args = [a for a in argv[1:] if a != "--keep"]
    keep = "--keep" in argv[1:]
    if len(args) != 1 or args[0].startswith("-"):
        sys.stderr.write("usage: run.py <generated-output-dir> [--keep]\n")
        return 2
    gen = os.path.abspath(args[0])
    if not os.path.isdir(gen):
        sys.stderr.write("run.py: %s is not a directory\n" % gen)
        return 2
    src = gen
    if not os.path.isfile(os.path.join(gen, "lib.rs")) and os.path.isfile(os.path.join(gen, "src", "lib.rs")):
        src = os.path.join(gen, "src")
    files = sorted(f for f in os.listdir(src) if f.endswith(".rs") and os.path.isfile(os.path.join(src, f)))

    seed = ensure_seed()
    work = tempfile.mkdtemp(prefix="fp-rust-", dir=SCRATCH_PARENT)
    result = {"target": "rust", "build": "error", "build_log": "", "tests": []}
    try:
        crate = os.path.join(work, "crate")
        target = os.path.join(work, "target")
        os.makedirs(os.path.join(crate, "src"))
        for f in files:
            shutil.copyfile(os.path.join(src, f), os.path.join(crate, "src", f))
        if seed:
            subprocess.run(["cp", "-a", os.path.join(seed, "target"), target], check=False)
            shutil.copy2(os.path.join(seed, "Cargo.lock"), os.path.join(crate, "Cargo.lock"))
        os.makedirs(target, exist_ok=True)
        write_manifest(crate)

        b = build(crate, target)
        if b.ok:
            result["build"] = "ok"
            result["tests"] = run_tests(b.exe, list_tests(b.exe), crate)
        else:
            result["build_log"] = b.log()[-4000:]
            mod_files = [f for f in files if f != "lib.rs" and re.match(r"^[A-Za-z_]\w*\.rs$", f)
                         and not f.startswith("fp_runner_root_")]
            declared = None
            try:
                with open(os.path.join(crate, "src", "lib.rs"), encoding="utf-8", errors="replace") as f:
                    declared = set(re.findall(r"^\s*(?:pub\s+)?mod\s+(\w+)\s*;", f.read(), re.M))
            except OSError:
                pass
            if declared:  # files lib.rs does not declare are not part of the emitted crate
                mod_files = [f for f in mod_files if f[:-3] in declared]
            file_of = {f[:-3]: f for f in mod_files}
            modules = sorted(file_of)
            tests_of = {m: scan_tests(os.path.join(crate, "src", file_of[m]), m) for m in modules}
            result["tests"] = retry_per_file(crate, target, modules, tests_of, file_of, b.errors)
        if keep:
            sys.stderr.write("run.py: kept %s\n" % work)
    finally:
        if not keep:
            shutil.rmtree(work, ignore_errors=True)
    sys.stdout.write(json.dumps(result) + "\n")
    return 0


if __name__ == "__main__":
    sys.exit(main(sys.argv))
