package codec

import (
	"bytes"
	"reflect"
	"testing"
)

func hex(t *testing.T, got []byte, want ...byte) {
	t.Helper()
	if !bytes.Equal(got, want) {
		t.Fatalf("bytes: got % x want % x", got, want)
	}
}

type obj struct{ A uint16 }

func (o *obj) Encode(b *bytes.Buffer) error { return WriteBasicType(b, o.A) }
func (o *obj) Decode(b *bytes.Buffer) error {
	v, err := ReadBasicType[uint16](b)
	o.A = v
	return err
}

func TestScalars(t *testing.T) {
	var b bytes.Buffer
	WriteBasicType(&b, uint16(0x0102))
	WriteBasicTypeLE(&b, uint16(0x0102))
	WriteBasicType(&b, int8(-2))
	WriteBasicType(&b, int32(-2))
	WriteBasicTypeLE(&b, uint64(1))
	WriteBasicType(&b, float32(1))
	WriteBasicTypeLE(&b, float64(1))
	hex(t, b.Bytes(), 1, 2, 2, 1, 0xfe, 0xff, 0xff, 0xff, 0xfe, 1, 0, 0, 0, 0, 0, 0, 0,
		0x3f, 0x80, 0, 0, 0, 0, 0, 0, 0, 0, 0xf0, 0x3f)
	if v, _ := ReadBasicType[uint16](&b); v != 0x0102 {
		t.Fatal(v)
	}
	if v, _ := ReadBasicTypeLE[uint16](&b); v != 0x0102 {
		t.Fatal(v)
	}
	if v, _ := ReadBasicType[int8](&b); v != -2 {
		t.Fatal(v)
	}
	if v, _ := ReadBasicType[int32](&b); v != -2 {
		t.Fatal(v)
	}
	if v, _ := ReadBasicTypeLE[uint64](&b); v != 1 {
		t.Fatal(v)
	}
	if v, _ := ReadBasicType[float32](&b); v != 1 {
		t.Fatal(v)
	}
	if v, _ := ReadBasicTypeLE[float64](&b); v != 1 {
		t.Fatal(v)
	}
	if _, err := ReadBasicType[uint8](&b); err == nil {
		t.Fatal("expected short-buffer error")
	}
}

func TestStrings(t *testing.T) {
	var b bytes.Buffer
	WriteString[uint8](&b, "ab")
	WriteString[uint16](&b, "ab")
	WriteStringLE[uint32](&b, "ab")
	WriteStringLE[uint64](&b, "é")
	hex(t, b.Bytes(), 2, 'a', 'b', 0, 2, 'a', 'b', 2, 0, 0, 0, 'a', 'b', 2, 0, 0, 0, 0, 0, 0, 0, 0xc3, 0xa9)
	for _, rd := range []func(*bytes.Buffer) (string, error){ReadString[uint8], ReadString[uint16], ReadStringLE[uint32]} {
		if s, err := rd(&b); err != nil || s != "ab" {
			t.Fatal(s, err)
		}
	}
	if s, err := ReadStringLE[uint64](&b); err != nil || s != "é" {
		t.Fatal(s, err)
	}
	if err := WriteString[uint8](&b, string(make([]byte, 256))); err == nil {
		t.Fatal("256 bytes must not fit a u8 prefix")
	}
	b.Reset()
	b.Write([]byte{5, 'a'})
	if _, err := ReadString[uint8](&b); err == nil {
		t.Fatal("expected short-buffer error")
	}
}

func TestLists(t *testing.T) {
	var b bytes.Buffer
	WriteBasicTypeList[uint16](&b, []uint16{1, 2})
	WriteBasicTypeListLE[uint8](&b, []int32{-1})
	WriteStringList[uint8, uint16](&b, []string{"a", ""})
	WriteStringListLE[uint16, uint8](&b, []string{"xy"})
	hex(t, b.Bytes(), 0, 2, 0, 1, 0, 2, 1, 0xff, 0xff, 0xff, 0xff, 2, 0, 1, 'a', 0, 0, 1, 0, 2, 'x', 'y')
	if v, err := ReadBasicTypeList[uint16, uint16](&b); err != nil || !reflect.DeepEqual(v, []uint16{1, 2}) {
		t.Fatal(v, err)
	}
	if v, err := ReadBasicTypeListLE[uint8, int32](&b); err != nil || !reflect.DeepEqual(v, []int32{-1}) {
		t.Fatal(v, err)
	}
	if v, err := ReadStringList[uint8, uint16](&b); err != nil || !reflect.DeepEqual(v, []string{"a", ""}) {
		t.Fatal(v, err)
	}
	if v, err := ReadStringListLE[uint16, uint8](&b); err != nil || !reflect.DeepEqual(v, []string{"xy"}) {
		t.Fatal(v, err)
	}
	b.Write([]byte{0xff, 0xff, 0xff, 0xff, 0xff, 0xff, 0xff, 0xff})
	if _, err := ReadBasicTypeList[uint64, uint8](&b); err == nil {
		t.Fatal("expected error for an absurd count")
	}
}

func TestFixed(t *testing.T) {
	var b bytes.Buffer
	WriteFixedString(&b, "ab", 4)
	WriteFixedStringWithPadding(&b, "ab", 4, '0', true)
	WriteFixedStringWithPadding(&b, "ab", 4, '\x00', false)
	WriteFixedStringWithPadding(&b, "ab", 4, ' ', true)
	hex(t, b.Bytes(), 'a', 'b', ' ', ' ', '0', '0', 'a', 'b', 'a', 'b', 0, 0, ' ', ' ', 'a', 'b')
	if s, _ := ReadFixedString(&b, 4); s != "ab" {
		t.Fatalf("%q", s)
	}
	if s, _ := ReadFixedStringTrimPadding(&b, 4, '0', true); s != "ab" {
		t.Fatalf("%q", s)
	}
	if s, _ := ReadFixedStringTrimPadding(&b, 4, '\x00', false); s != "ab" {
		t.Fatalf("%q", s)
	}
	if s, _ := ReadFixedStringTrimPadding(&b, 4, ' ', true); s != "ab" {
		t.Fatalf("%q", s)
	}
	if err := WriteFixedString(&b, "abcde", 4); err == nil {
		t.Fatal("too long must be an error")
	}
	if err := WriteFixedStringWithPadding(&b, "abcde", 4, '0', true); err == nil {
		t.Fatal("too long must be an error")
	}
	// trimming is one-sided
	b.Reset()
	b.WriteString(" a  0a00")
	if s, _ := ReadFixedString(&b, 4); s != " a" {
		t.Fatalf("%q", s)
	}
	if s, _ := ReadFixedStringTrimPadding(&b, 4, '0', true); s != "a00" {
		t.Fatalf("%q", s)
	}
	b.Reset()
	WriteFixedStringList[uint16](&b, []string{"a", "bc"}, 2)
	WriteFixedStringListLE[uint16](&b, []string{"a"}, 2)
	WriteFixedStringListWithPadding[uint8](&b, []string{"a"}, 2, '0', true)
	WriteFixedStringListWithPaddingLE[uint32](&b, []string{"a"}, 2, '\x00', false)
	hex(t, b.Bytes(), 0, 2, 'a', ' ', 'b', 'c', 1, 0, 'a', ' ', 1, '0', 'a', 1, 0, 0, 0, 'a', 0)
	if v, err := ReadFixedStringList[uint16](&b, 2); err != nil || !reflect.DeepEqual(v, []string{"a", "bc"}) {
		t.Fatal(v, err)
	}
	if v, err := ReadFixedStringListLE[uint16](&b, 2); err != nil || !reflect.DeepEqual(v, []string{"a"}) {
		t.Fatal(v, err)
	}
	if v, err := ReadFixedStringListTrimPadding[uint8](&b, 2, '0', true); err != nil || !reflect.DeepEqual(v, []string{"a"}) {
		t.Fatal(v, err)
	}
	if v, err := ReadFixedStringListTrimPaddingLE[uint32](&b, 2, '\x00', false); err != nil || !reflect.DeepEqual(v, []string{"a"}) {
		t.Fatal(v, err)
	}
}

func TestObjects(t *testing.T) {
	var b bytes.Buffer
	WriteObjectList[uint16](&b, []*obj{{1}, {2}})
	WriteObjectListLE[uint8](&b, []*obj{{3}})
	hex(t, b.Bytes(), 0, 2, 0, 1, 0, 2, 1, 0, 3)
	v, err := ReadObjectList[uint16](&b, func() *obj { return &obj{} })
	if err != nil || len(v) != 2 || v[0].A != 1 || v[1].A != 2 || v[0] == v[1] {
		t.Fatal(v, err)
	}
	w, err := ReadObjectListLE[uint8](&b, func() *obj { return &obj{} })
	if err != nil || len(w) != 1 || w[0].A != 3 {
		t.Fatal(w, err)
	}
}

func TestChecksum(t *testing.T) {
	t.Setenv("FP_CHECKSUM", "")
	if _, ok := Get("CRC32"); ok {
		t.Fatal("registry must be empty unless FP_CHECKSUM=sum")
	}
	t.Setenv("FP_CHECKSUM", "sum")
	var b bytes.Buffer
	b.Write([]byte{200, 100, 7}) // 307 mod 256 = 51
	if checksumService, ok := Get("CRC32"); ok {
		v := checksumService.(ChecksumService[*bytes.Buffer, uint32]).Calc(&b)
		if v != 51 {
			t.Fatal(v)
		}
	} else {
		t.Fatal("not found")
	}
	if checksumService, ok := Get("anything"); ok {
		v := checksumService.(ChecksumService[*bytes.Buffer, int8]).Calc(&b)
		if v != 51 {
			t.Fatal(v)
		}
	} else {
		t.Fatal("not found")
	}
	if checksumService, ok := Get("F"); ok {
		v := checksumService.(ChecksumService[*bytes.Buffer, float64]).Calc(&b)
		if v != 51 {
			t.Fatal(v)
		}
	}
	b.Next(1) // only the unread part counts: 107
	if checksumService, ok := Get("X"); ok {
		v := checksumService.(ChecksumService[*bytes.Buffer, uint16]).Calc(&b)
		if v != 107 {
			t.Fatal(v)
		}
	}
}
