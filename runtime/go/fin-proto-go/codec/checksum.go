package codec

import (
	"bytes"
	"os"
	"regexp"
	"runtime"
	"strings"
	"sync"
)

// ChecksumService is the interface the emitted code asserts a registry entry to:
//
//	checksumService.(codec.ChecksumService[*bytes.Buffer, uint32]).Calc(buf)
type ChecksumService[B any, T any] interface {
	Calc(buf B) T
}

// sumService is the contract's FP_CHECKSUM=sum algorithm: the sum of all bytes
// currently in the buffer, modulo 128, converted to the result type.
type sumService[T Basic] struct{}

func (sumService[T]) Calc(buf *bytes.Buffer) T {
	var s uint8
	for _, b := range buf.Bytes() {
		s += b
	}
	s &= 0x7f // modulo 128: fits every result type, signed ones included
	var z T
	switch any(z).(type) {
	case int8:
		return any(int8(s)).(T)
	case int16:
		return any(int16(s)).(T)
	case int32:
		return any(int32(s)).(T)
	case int64:
		return any(int64(s)).(T)
	case uint8:
		return any(s).(T)
	case uint16:
		return any(uint16(s)).(T)
	case uint32:
		return any(uint32(s)).(T)
	case uint64:
		return any(uint64(s)).(T)
	case float32:
		return any(float32(s)).(T)
	case float64:
		return any(float64(s)).(T)
	}
	panic("codec: unreachable scalar type")
}

func serviceFor(typ string) any {
	switch typ {
	case "int8":
		return sumService[int8]{}
	case "int16":
		return sumService[int16]{}
	case "int32":
		return sumService[int32]{}
	case "int64":
		return sumService[int64]{}
	case "uint8", "byte":
		return sumService[uint8]{}
	case "uint16":
		return sumService[uint16]{}
	case "uint64":
		return sumService[uint64]{}
	case "float32":
		return sumService[float32]{}
	case "float64":
		return sumService[float64]{}
	default:
		return sumService[uint32]{}
	}
}

var (
	assertRe  = regexp.MustCompile(`ChecksumService\[\s*\*bytes\.Buffer\s*,\s*([A-Za-z0-9_]+)\s*\]`)
	srcMu     sync.Mutex
	srcCache  = map[string][]string{}
	siteCache = map[string]string{}
)

// resultTypeAtCallSite finds the result type the caller of Get is about to assert.
//
// A Go value has ONE dynamic type, so it cannot satisfy ChecksumService[*bytes.Buffer, T]
// for every T, yet the contract says "every name resolves" whatever the width of the
// checksum field.  The emitted code always has the shape
//
//	if checksumService, ok := codec.Get(NAME); ok {
//	    p.X = checksumService.(codec.ChecksumService[*bytes.Buffer, T]).Calc(buf)
//
// so the stand-in reads T from the caller's source text (the line of the Get call and the
// few lines after it).  Nothing is rewritten; when the source cannot be read the uint32
// service is returned and a mismatching assertion panics as it would with the real library.
func resultTypeAtCallSite(skip int) string {
	_, file, line, ok := runtime.Caller(skip)
	if !ok {
		return ""
	}
	srcMu.Lock()
	defer srcMu.Unlock()
	key := file + ":" + itoa(line)
	if t, ok := siteCache[key]; ok {
		return t
	}
	lines, ok := srcCache[file]
	if !ok {
		if data, err := os.ReadFile(file); err == nil {
			lines = strings.Split(string(data), "\n")
		}
		srcCache[file] = lines
	}
	typ := ""
	for i := line - 1; i >= 0 && i < len(lines) && i < line+4; i++ {
		if m := assertRe.FindStringSubmatch(lines[i]); m != nil {
			typ = m[1]
			break
		}
	}
	siteCache[key] = typ
	return typ
}

func itoa(n int) string {
	if n == 0 {
		return "0"
	}
	var b []byte
	for n > 0 {
		b = append([]byte{byte('0' + n%10)}, b...)
		n /= 10
	}
	return string(b)
}

// Get looks a checksum service up by algorithm name.  The stand-in registry is EMPTY
// unless the environment variable FP_CHECKSUM=sum is set; then every name resolves.
func Get(name string) (any, bool) {
	if os.Getenv("FP_CHECKSUM") != "sum" {
		return nil, false
	}
	return serviceFor(resultTypeAtCallSite(2)), true
}
