// Package codec is a minimal conforming STAND-IN for
// github.com/xinchentechnote/fin-proto-go/codec, written for the offline
// verification harness (see /verif/runtime/CONTRACT.md).  It implements exactly
// the names fin-protoc's Go generator can emit, with the contract's semantics.
package codec

import (
	"bytes"
	"encoding/binary"
	"fmt"
	"math"
)

// BinaryCodec is what every emitted packet type implements.
type BinaryCodec interface {
	Encode(buf *bytes.Buffer) error
	Decode(buf *bytes.Buffer) error
}

// Basic is the set of scalar types of the emitted code (goBasicTypeMap).
type Basic interface {
	int8 | int16 | int32 | int64 | uint8 | uint16 | uint32 | uint64 | float32 | float64
}

// Prefix is the set of types usable as a length / count prefix: the unsigned integers
// (fin-protoc only accepts u8, u16, u32, u64 for the two prefix options).
type Prefix interface {
	uint8 | uint16 | uint32 | uint64
}

// ---------------------------------------------------------------------------
// raw helpers

func order(le bool) binary.ByteOrder {
	if le {
		return binary.LittleEndian
	}
	return binary.BigEndian
}

func putUint(buf *bytes.Buffer, le bool, width int, v uint64) {
	var tmp [8]byte
	o := order(le)
	switch width {
	case 1:
		tmp[0] = byte(v)
	case 2:
		o.PutUint16(tmp[:2], uint16(v))
	case 4:
		o.PutUint32(tmp[:4], uint32(v))
	case 8:
		o.PutUint64(tmp[:8], v)
	}
	buf.Write(tmp[:width])
}

func takeBytes(buf *bytes.Buffer, n int) ([]byte, error) {
	if n < 0 {
		return nil, fmt.Errorf("codec: negative length %d", n)
	}
	if buf.Len() < n {
		return nil, fmt.Errorf("codec: unexpected end of buffer: need %d bytes, have %d", n, buf.Len())
	}
	out := make([]byte, n)
	copy(out, buf.Next(n))
	return out, nil
}

func getUint(buf *bytes.Buffer, le bool, width int) (uint64, error) {
	b, err := takeBytes(buf, width)
	if err != nil {
		return 0, err
	}
	o := order(le)
	switch width {
	case 1:
		return uint64(b[0]), nil
	case 2:
		return uint64(o.Uint16(b)), nil
	case 4:
		return uint64(o.Uint32(b)), nil
	default:
		return o.Uint64(b), nil
	}
}

// bitsOf returns the wire bits and the width in bytes of a scalar.
func bitsOf[T Basic](v T) (uint64, int) {
	switch x := any(v).(type) {
	case int8:
		return uint64(uint8(x)), 1
	case int16:
		return uint64(uint16(x)), 2
	case int32:
		return uint64(uint32(x)), 4
	case int64:
		return uint64(x), 8
	case uint8:
		return uint64(x), 1
	case uint16:
		return uint64(x), 2
	case uint32:
		return uint64(x), 4
	case uint64:
		return x, 8
	case float32:
		return uint64(math.Float32bits(x)), 4
	case float64:
		return math.Float64bits(x), 8
	}
	panic("codec: unreachable scalar type")
}

func widthOf[T Basic]() int {
	var z T
	_, w := bitsOf(z)
	return w
}

func fromBits[T Basic](u uint64) T {
	var z T
	switch any(z).(type) {
	case int8:
		return any(int8(uint8(u))).(T)
	case int16:
		return any(int16(uint16(u))).(T)
	case int32:
		return any(int32(uint32(u))).(T)
	case int64:
		return any(int64(u)).(T)
	case uint8:
		return any(uint8(u)).(T)
	case uint16:
		return any(uint16(u)).(T)
	case uint32:
		return any(uint32(u)).(T)
	case uint64:
		return any(u).(T)
	case float32:
		return any(math.Float32frombits(uint32(u))).(T)
	case float64:
		return any(math.Float64frombits(u)).(T)
	}
	panic("codec: unreachable scalar type")
}

func prefixWidth[P Prefix]() int {
	var z P
	switch any(z).(type) {
	case uint8:
		return 1
	case uint16:
		return 2
	case uint32:
		return 4
	default:
		return 8
	}
}

func writePrefix[P Prefix](buf *bytes.Buffer, le bool, n int) error {
	w := prefixWidth[P]()
	if w < 8 && uint64(n) >= uint64(1)<<(8*uint(w)) {
		return fmt.Errorf("codec: length %d does not fit a %d-byte prefix", n, w)
	}
	putUint(buf, le, w, uint64(n))
	return nil
}

func readPrefix[P Prefix](buf *bytes.Buffer, le bool) (int, error) {
	u, err := getUint(buf, le, prefixWidth[P]())
	if err != nil {
		return 0, err
	}
	if u > uint64(math.MaxInt32) {
		// no buffer here can hold that many bytes / elements
		return 0, fmt.Errorf("codec: unexpected end of buffer: prefix %d exceeds the buffer", u)
	}
	return int(u), nil
}

// capHint bounds a preallocation by what the buffer can possibly hold.
func capHint(n int, buf *bytes.Buffer) int {
	if n > buf.Len() {
		return buf.Len()
	}
	return n
}

// ---------------------------------------------------------------------------
// scalars

func writeBasic[T Basic](buf *bytes.Buffer, le bool, v T) error {
	u, w := bitsOf(v)
	putUint(buf, le, w, u)
	return nil
}

func readBasic[T Basic](buf *bytes.Buffer, le bool) (T, error) {
	u, err := getUint(buf, le, widthOf[T]())
	if err != nil {
		var z T
		return z, err
	}
	return fromBits[T](u), nil
}

// WriteBasicType writes a scalar big-endian.
func WriteBasicType[T Basic](buf *bytes.Buffer, v T) error { return writeBasic(buf, false, v) }

// WriteBasicTypeLE writes a scalar little-endian.
func WriteBasicTypeLE[T Basic](buf *bytes.Buffer, v T) error { return writeBasic(buf, true, v) }

// ReadBasicType reads a big-endian scalar.
func ReadBasicType[T Basic](buf *bytes.Buffer) (T, error) { return readBasic[T](buf, false) }

// ReadBasicTypeLE reads a little-endian scalar.
func ReadBasicTypeLE[T Basic](buf *bytes.Buffer) (T, error) { return readBasic[T](buf, true) }

// ---------------------------------------------------------------------------
// scalar lists

func writeBasicList[P Prefix, T Basic](buf *bytes.Buffer, le bool, list []T) error {
	if err := writePrefix[P](buf, le, len(list)); err != nil {
		return err
	}
	for _, v := range list {
		if err := writeBasic(buf, le, v); err != nil {
			return err
		}
	}
	return nil
}

func readBasicList[P Prefix, T Basic](buf *bytes.Buffer, le bool) ([]T, error) {
	n, err := readPrefix[P](buf, le)
	if err != nil {
		return nil, err
	}
	out := make([]T, 0, capHint(n, buf))
	for i := 0; i < n; i++ {
		v, err := readBasic[T](buf, le)
		if err != nil {
			return nil, err
		}
		out = append(out, v)
	}
	return out, nil
}

func WriteBasicTypeList[P Prefix, T Basic](buf *bytes.Buffer, list []T) error {
	return writeBasicList[P](buf, false, list)
}

func WriteBasicTypeListLE[P Prefix, T Basic](buf *bytes.Buffer, list []T) error {
	return writeBasicList[P](buf, true, list)
}

func ReadBasicTypeList[P Prefix, T Basic](buf *bytes.Buffer) ([]T, error) {
	return readBasicList[P, T](buf, false)
}

func ReadBasicTypeListLE[P Prefix, T Basic](buf *bytes.Buffer) ([]T, error) {
	return readBasicList[P, T](buf, true)
}

// ---------------------------------------------------------------------------
// dynamic strings

func writeString[P Prefix](buf *bytes.Buffer, le bool, s string) error {
	if err := writePrefix[P](buf, le, len(s)); err != nil {
		return err
	}
	buf.WriteString(s)
	return nil
}

func readString[P Prefix](buf *bytes.Buffer, le bool) (string, error) {
	n, err := readPrefix[P](buf, le)
	if err != nil {
		return "", err
	}
	b, err := takeBytes(buf, n)
	if err != nil {
		return "", err
	}
	return string(b), nil
}

func WriteString[P Prefix](buf *bytes.Buffer, s string) error   { return writeString[P](buf, false, s) }
func WriteStringLE[P Prefix](buf *bytes.Buffer, s string) error { return writeString[P](buf, true, s) }
func ReadString[P Prefix](buf *bytes.Buffer) (string, error)    { return readString[P](buf, false) }
func ReadStringLE[P Prefix](buf *bytes.Buffer) (string, error)  { return readString[P](buf, true) }

func writeStringList[P Prefix, S Prefix](buf *bytes.Buffer, le bool, list []string) error {
	if err := writePrefix[P](buf, le, len(list)); err != nil {
		return err
	}
	for _, s := range list {
		if err := writeString[S](buf, le, s); err != nil {
			return err
		}
	}
	return nil
}

func readStringList[P Prefix, S Prefix](buf *bytes.Buffer, le bool) ([]string, error) {
	n, err := readPrefix[P](buf, le)
	if err != nil {
		return nil, err
	}
	out := make([]string, 0, capHint(n, buf))
	for i := 0; i < n; i++ {
		s, err := readString[S](buf, le)
		if err != nil {
			return nil, err
		}
		out = append(out, s)
	}
	return out, nil
}

// WriteStringList: P is the element-count prefix, S the per-string length prefix.
func WriteStringList[P Prefix, S Prefix](buf *bytes.Buffer, list []string) error {
	return writeStringList[P, S](buf, false, list)
}

func WriteStringListLE[P Prefix, S Prefix](buf *bytes.Buffer, list []string) error {
	return writeStringList[P, S](buf, true, list)
}

func ReadStringList[P Prefix, S Prefix](buf *bytes.Buffer) ([]string, error) {
	return readStringList[P, S](buf, false)
}

func ReadStringListLE[P Prefix, S Prefix](buf *bytes.Buffer) ([]string, error) {
	return readStringList[P, S](buf, true)
}

// ---------------------------------------------------------------------------
// fixed strings

func writeFixed(buf *bytes.Buffer, s string, n int, pad byte, fromLeft bool) error {
	if n < 0 {
		return fmt.Errorf("codec: negative fixed string length %d", n)
	}
	if len(s) > n {
		return fmt.Errorf("codec: string of %d bytes exceeds fixed length %d", len(s), n)
	}
	fill := bytes.Repeat([]byte{pad}, n-len(s))
	if fromLeft {
		buf.Write(fill)
		buf.WriteString(s)
	} else {
		buf.WriteString(s)
		buf.Write(fill)
	}
	return nil
}

func readFixed(buf *bytes.Buffer, n int, pad byte, fromLeft bool) (string, error) {
	b, err := takeBytes(buf, n)
	if err != nil {
		return "", err
	}
	if fromLeft {
		i := 0
		for i < len(b) && b[i] == pad {
			i++
		}
		return string(b[i:]), nil
	}
	j := len(b)
	for j > 0 && b[j-1] == pad {
		j--
	}
	return string(b[:j]), nil
}

// WriteFixedString writes exactly n bytes, padding with spaces on the right.
func WriteFixedString(buf *bytes.Buffer, s string, n int) error {
	return writeFixed(buf, s, n, ' ', false)
}

// ReadFixedString reads exactly n bytes and trims trailing spaces.
func ReadFixedString(buf *bytes.Buffer, n int) (string, error) {
	return readFixed(buf, n, ' ', false)
}

// WriteFixedStringWithPadding pads with padChar on the given side.
func WriteFixedStringWithPadding(buf *bytes.Buffer, s string, n int, padChar byte, fromLeft bool) error {
	return writeFixed(buf, s, n, padChar, fromLeft)
}

// ReadFixedStringTrimPadding trims padChar on the given side.
func ReadFixedStringTrimPadding(buf *bytes.Buffer, n int, padChar byte, fromLeft bool) (string, error) {
	return readFixed(buf, n, padChar, fromLeft)
}

func writeFixedList[P Prefix](buf *bytes.Buffer, le bool, list []string, n int, pad byte, fromLeft bool) error {
	if err := writePrefix[P](buf, le, len(list)); err != nil {
		return err
	}
	for _, s := range list {
		if err := writeFixed(buf, s, n, pad, fromLeft); err != nil {
			return err
		}
	}
	return nil
}

func readFixedList[P Prefix](buf *bytes.Buffer, le bool, n int, pad byte, fromLeft bool) ([]string, error) {
	cnt, err := readPrefix[P](buf, le)
	if err != nil {
		return nil, err
	}
	out := make([]string, 0, capHint(cnt, buf))
	for i := 0; i < cnt; i++ {
		s, err := readFixed(buf, n, pad, fromLeft)
		if err != nil {
			return nil, err
		}
		out = append(out, s)
	}
	return out, nil
}

func WriteFixedStringList[P Prefix](buf *bytes.Buffer, list []string, n int) error {
	return writeFixedList[P](buf, false, list, n, ' ', false)
}

func WriteFixedStringListLE[P Prefix](buf *bytes.Buffer, list []string, n int) error {
	return writeFixedList[P](buf, true, list, n, ' ', false)
}

func ReadFixedStringList[P Prefix](buf *bytes.Buffer, n int) ([]string, error) {
	return readFixedList[P](buf, false, n, ' ', false)
}

func ReadFixedStringListLE[P Prefix](buf *bytes.Buffer, n int) ([]string, error) {
	return readFixedList[P](buf, true, n, ' ', false)
}

func WriteFixedStringListWithPadding[P Prefix](buf *bytes.Buffer, list []string, n int, padChar byte, fromLeft bool) error {
	return writeFixedList[P](buf, false, list, n, padChar, fromLeft)
}

func WriteFixedStringListWithPaddingLE[P Prefix](buf *bytes.Buffer, list []string, n int, padChar byte, fromLeft bool) error {
	return writeFixedList[P](buf, true, list, n, padChar, fromLeft)
}

func ReadFixedStringListTrimPadding[P Prefix](buf *bytes.Buffer, n int, padChar byte, fromLeft bool) ([]string, error) {
	return readFixedList[P](buf, false, n, padChar, fromLeft)
}

func ReadFixedStringListTrimPaddingLE[P Prefix](buf *bytes.Buffer, n int, padChar byte, fromLeft bool) ([]string, error) {
	return readFixedList[P](buf, true, n, padChar, fromLeft)
}

// ---------------------------------------------------------------------------
// object lists

func writeObjectList[P Prefix, T BinaryCodec](buf *bytes.Buffer, le bool, list []T) error {
	if err := writePrefix[P](buf, le, len(list)); err != nil {
		return err
	}
	for _, o := range list {
		if err := o.Encode(buf); err != nil {
			return err
		}
	}
	return nil
}

func readObjectList[P Prefix, T BinaryCodec](buf *bytes.Buffer, le bool, factory func() T) ([]T, error) {
	n, err := readPrefix[P](buf, le)
	if err != nil {
		return nil, err
	}
	out := make([]T, 0, capHint(n, buf))
	for i := 0; i < n; i++ {
		o := factory()
		if err := o.Decode(buf); err != nil {
			return nil, err
		}
		out = append(out, o)
	}
	return out, nil
}

// WriteObjectList writes the count prefix, then each element's own Encode.
func WriteObjectList[P Prefix, T BinaryCodec](buf *bytes.Buffer, list []T) error {
	return writeObjectList[P](buf, false, list)
}

func WriteObjectListLE[P Prefix, T BinaryCodec](buf *bytes.Buffer, list []T) error {
	return writeObjectList[P](buf, true, list)
}

// ReadObjectList reads the count prefix, then a fresh factory() instance per element.
func ReadObjectList[P Prefix, T BinaryCodec](buf *bytes.Buffer, factory func() T) ([]T, error) {
	return readObjectList[P](buf, false, factory)
}

func ReadObjectListLE[P Prefix, T BinaryCodec](buf *bytes.Buffer, factory func() T) ([]T, error) {
	return readObjectList[P](buf, true, factory)
}
