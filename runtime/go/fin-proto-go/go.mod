module github.com/xinchentechnote/fin-proto-go

go 1.21
