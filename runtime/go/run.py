#!/usr/bin/env python3
"""Runner for the Go self-tests emitted by fin-protoc (see /verif/runtime/CONTRACT.md).

    python3 /verif/runtime/go/run.py <generated-output-dir> [--keep]

Copies the emitted *.go files (UNMODIFIED) into a fresh module under /var/tmp, wires the
stand-in github.com/xinchentechnote/fin-proto-go in with a `replace` directive, builds the
test binary with the installed Go toolchain (offline), runs every Test function and prints
one JSON object on stdout.  Exit status: 0 when the JSON was produced, 2 on usage errors.
"""
import concurrent.futures
import hashlib
import json
import os
import re
import shutil
import subprocess
import sys
import tempfile

HERE = os.path.dirname(os.path.abspath(__file__))
STANDIN = os.path.join(HERE, "fin-proto-go")
CACHE_ROOT = os.path.join(HERE, ".cache")
SCRATCH_ROOT = "/var/tmp"
GO = os.environ.get("FP_GO", "go")
TESTIFY = "v1.11.1"
PLACEHOLDER_MODULE = "fp.invalid/emitted"
RUN_TIMEOUT = 120
BUILD_TIMEOUT = 600

GO_SUM = """\
github.com/davecgh/go-spew v1.1.1 h1:vj9j/u1bqnvCEfJOwUhtlOARqs3+rkHYY13jYWTU97c=
github.com/davecgh/go-spew v1.1.1/go.mod h1:J7Y8YcW2NihsgmVo/mv3lAwl/skON4iLHjSsI+c5H38=
github.com/pmezard/go-difflib v1.0.0 h1:4DBwDE0NGyQoBHbLQYPwSUPoCMWR5BEzIk/f1lZbAQM=
github.com/pmezard/go-difflib v1.0.0/go.mod h1:iKH77koFhYxTK1pcRnkKkqfTogsbg7gZNVY4sRDYZ/4=
github.com/stretchr/testify v1.11.1 h1:7s2iGBzp5EwR7/aIZr8ao5+dra3wiQyKjjFuvgVKu7U=
github.com/stretchr/testify v1.11.1/go.mod h1:wZwfW3scLgRK+23gO65QZefKpKQRnfz6sD981Nm4B6U=
gopkg.in/yaml.v3 v3.0.1 h1:fxVm/GzAzEWqLHuvctI91KS9hhNmmWOoWu0XTYJS7CA=
gopkg.in/yaml.v3 v3.0.1/go.mod h1:K4uyk7z7BCEPqu6E+C64Yfv1cQ7kz7rIZviUmN+EgEM=
"""


def go_sum_text():
    """Prefer the checksums recorded in /repo/go.sum, fall back to the embedded copy."""
    try:
        want = ("stretchr/testify", "davecgh/go-spew", "pmezard/go-difflib", "gopkg.in/yaml.v3 ")
        with open("/repo/go.sum") as f:
            lines = [l for l in f if any(w in l for w in want)]
        if any("testify " + TESTIFY + " h1:" in l for l in lines):
            return "".join(lines)
    except OSError:
        pass
    return GO_SUM


def go_mod_text(module, standin_rel):
    return (
        "module %s\n\ngo 1.21\n\n"
        "require (\n"
        "\tgithub.com/stretchr/testify %s\n"
        "\tgithub.com/xinchentechnote/fin-proto-go v0.0.0\n"
        ")\n\n"
        "require (\n"
        "\tgithub.com/davecgh/go-spew v1.1.1 // indirect\n"
        "\tgithub.com/pmezard/go-difflib v1.0.0 // indirect\n"
        "\tgopkg.in/yaml.v3 v3.0.1 // indirect\n"
        ")\n\n"
        "replace github.com/xinchentechnote/fin-proto-go => %s\n" % (module, TESTIFY, standin_rel)
    )


def base_env(gocache):
    env = dict(os.environ)
    env.update({
        "GOTOOLCHAIN": "local",
        "GOFLAGS": "-mod=mod",
        "GOPROXY": "off",
        "GOCACHE": gocache,
        "GO111MODULE": "on",
        "GOWORK": "off",
    })
    env.pop("GOSUMDB", None)  # never switch the checksum database off
    return env


def sh(cmd, cwd, env, timeout):
    """Run a command, return (returncode, combined output, timed_out)."""
    try:
        p = subprocess.run(cmd, cwd=cwd, env=env, stdout=subprocess.PIPE, stderr=subprocess.STDOUT,
                           timeout=timeout)
        return p.returncode, p.stdout.decode("utf-8", "replace"), False
    except subprocess.TimeoutExpired as e:
        out = (e.stdout or b"").decode("utf-8", "replace")
        return -1, out + "\n(runner: timed out after %ds)\n" % timeout, True


# --------------------------------------------------------------------------- seeded build cache

def standin_files():
    out = []
    for root, _dirs, files in os.walk(STANDIN):
        for f in sorted(files):
            out.append(os.path.join(root, f))
    return sorted(out)


def seed_key():
    h = hashlib.sha256()
    try:
        ver = subprocess.run([GO, "version"], stdout=subprocess.PIPE, stderr=subprocess.STDOUT,
                             env=base_env("/var/tmp/.fp-go-none"), timeout=60).stdout
    except Exception as e:  # noqa: BLE001
        ver = repr(e).encode()
    h.update(ver)
    h.update(TESTIFY.encode())
    for p in standin_files():
        h.update(os.path.relpath(p, STANDIN).encode())
        with open(p, "rb") as f:
            h.update(f.read())
    return h.hexdigest()[:16]


WARM_GO = """package warm

import (
	"bytes"
	"encoding/binary"
	"fmt"

	"github.com/xinchentechnote/fin-proto-go/codec"
)

type W struct{ A uint16 }

func (p *W) Encode(buf *bytes.Buffer) error {
	pos := buf.Len()
	if err := codec.WriteBasicType(buf, p.A); err != nil {
		return fmt.Errorf("w: %w", err)
	}
	binary.BigEndian.PutUint16(buf.Bytes()[pos:pos+2], p.A)
	return nil
}

func (p *W) Decode(buf *bytes.Buffer) error {
	v, err := codec.ReadBasicType[uint16](buf)
	p.A = v
	return err
}

var _ codec.BinaryCodec = &W{}
"""

WARM_TEST = """package warm_test

import (
	"bytes"
	"testing"

	"github.com/stretchr/testify/assert"
	msg "fp.invalid/warm"
)

func TestWarm(t *testing.T) {
	o := &msg.W{A: 7}
	var buf bytes.Buffer
	assert.NoError(t, o.Encode(&buf))
	var d msg.W
	assert.NoError(t, d.Decode(&buf))
	assert.Equal(t, o, &d)
}
"""


def ensure_seed():
    """A GOCACHE holding the compiled std packages, testify and the stand-in.

    Kept under /verif/runtime/go/.cache (the one allowed persistent cache); rebuilt when
    missing or when the stand-in sources / toolchain changed.  Runs never write into it: each
    run works on a hard-link copy inside its fresh directory."""
    key = seed_key()
    seed = os.path.join(CACHE_ROOT, "gocache-" + key)
    if os.path.isfile(os.path.join(seed, ".seeded")):
        return seed
    os.makedirs(CACHE_ROOT, exist_ok=True)
    tmp = tempfile.mkdtemp(prefix="seed-", dir=SCRATCH_ROOT)
    try:
        shutil.copytree(STANDIN, os.path.join(tmp, "fin-proto-go"))
        warm = os.path.join(tmp, "warm")
        os.makedirs(warm)
        with open(os.path.join(warm, "go.mod"), "w") as f:
            f.write(go_mod_text("fp.invalid/warm", "../fin-proto-go"))
        with open(os.path.join(warm, "go.sum"), "w") as f:
            f.write(go_sum_text())
        with open(os.path.join(warm, "warm.go"), "w") as f:
            f.write(WARM_GO)
        with open(os.path.join(warm, "warm_test.go"), "w") as f:
            f.write(WARM_TEST)
        building = tempfile.mkdtemp(prefix="building-", dir=CACHE_ROOT)
        env = base_env(building)
        rc1, out1, _ = sh([GO, "build", "."], warm, env, BUILD_TIMEOUT)
        rc2, out2, _ = sh([GO, "test", "-c", "-o", os.path.join(tmp, "warm.test"), "."], warm, env,
                          BUILD_TIMEOUT)
        sh([GO, "tool", "test2json", "-h"], warm, env, BUILD_TIMEOUT)
        if rc1 != 0 or rc2 != 0:
            shutil.rmtree(building, ignore_errors=True)
            sys.stderr.write("run.py: could not pre-build the stand-in:\n" + out1 + out2)
            return None
        with open(os.path.join(building, ".seeded"), "w") as f:
            f.write(key + "\n")
        try:
            os.rename(building, seed)
        except OSError:
            shutil.rmtree(building, ignore_errors=True)  # somebody else won the race
        return seed if os.path.isfile(os.path.join(seed, ".seeded")) else None
    finally:
        shutil.rmtree(tmp, ignore_errors=True)


def clone_cache(seed, dest):
    if seed is None:
        os.makedirs(dest, exist_ok=True)
        return
    p = subprocess.run(["cp", "-al", seed, dest], stdout=subprocess.PIPE, stderr=subprocess.STDOUT)
    if p.returncode != 0:
        shutil.rmtree(dest, ignore_errors=True)
        shutil.copytree(seed, dest)


# --------------------------------------------------------------------------- helpers

TEST_FUNC_RE = re.compile(r"^func\s+(Test\w*)\s*\(", re.M)
IMPORT_MSG_RE = re.compile(r'\bmsg\s+"([^"\n]*)"')
DECL_RE = re.compile(r"^(?:type|func|var|const)\s+(\w+)", re.M)
WORD_RE = re.compile(r"[A-Za-z_]\w*")
PTR_RE = re.compile(r"0x[0-9a-f]{8,}|(?<=pc=)0x[0-9a-f]+")


def read(path):
    with open(path, "rb") as f:
        return f.read().decode("utf-8", "replace")


class Ctx:
    def __init__(self, work, env):
        self.work = work
        self.env = env

    def scrub(self, text):
        # no scratch-directory names in the report: <work>/<variant>/x.go -> x.go
        text = re.sub(re.escape(self.work) + r"/(?:full|lib|t\d+_\w+)/", "", text)
        text = re.sub(r"(?m)^(\s*)(?:full|lib|t\d+_[a-z]+)/(?=[\w.-]+\.go:)", r"\1", text)
        text = text.replace(self.work + os.sep, "").replace(self.work, ".")
        return PTR_RE.sub("0xPTR", text)


def test_names_of(path):
    names = TEST_FUNC_RE.findall(read(path))
    return names or [os.path.basename(path)]


def make_module(ctx, name, module, files):
    d = os.path.join(ctx.work, name)
    os.makedirs(d)
    with open(os.path.join(d, "go.mod"), "w") as f:
        f.write(go_mod_text(module, "../fin-proto-go"))
    with open(os.path.join(d, "go.sum"), "w") as f:
        f.write(go_sum_text())
    for src in files:
        shutil.copyfile(src, os.path.join(d, os.path.basename(src)))  # byte-for-byte, unmodified
    return d


def build_tests(ctx, moddir):
    """go test -c .  ->  (binary path or None, scrubbed compiler output)"""
    binary = os.path.join(moddir, "emitted.test")
    rc, out, _ = sh([GO, "test", "-c", "-o", binary, "."], moddir, ctx.env, BUILD_TIMEOUT)
    out = ctx.scrub(out)
    if rc != 0:
        return None, out
    if not os.path.isfile(binary):
        return None, out or "go test -c produced no test binary (no test files?)"
    return binary, out


def clean_detail(ctx, text):
    text = ctx.scrub(text)
    lines = []
    for ln in text.split("\n"):
        s = ln.rstrip()
        if re.match(r"^\s*(=== (RUN|PAUSE|CONT|NAME)|--- (FAIL|PASS|SKIP)|FAIL$|PASS$|exit status)", s):
            continue
        lines.append(s)
    text = "\n".join(lines)
    if "panic:" in text:
        i = text.index("panic:")
        head = text[i:].split("\n\n", 1)[0]
        # first stack frame outside the Go runtime / testing package: where the emitted code blew up
        where = ""
        for fr in re.findall(r"^\s+\S*?([\w.-]+\.go:\d+) \+0x", text[i:], re.M):
            if not fr.startswith(("panic.go", "testing.go", "asm_", "proc.go", "iface.go", "error.go",
                                  "signal_", "value.go", "map", "slice.go", "string.go")):
                where = " at " + fr
                break
        text = head.strip() + where
    else:
        j = text.find("Error:")
        if j >= 0:
            # drop testify's "Error Trace:" blocks (file positions only), keep the messages
            kept, skipping = [], False
            for ln in text.split("\n"):
                st = ln.strip()
                if st.startswith("Error Trace:"):
                    skipping = True
                    continue
                if skipping and (st.startswith("Error:") or st.startswith("Test:") or st == ""):
                    skipping = False
                if skipping:
                    continue
                kept.append(ln)
            text = "\n".join(kept)
    text = re.sub(r"[ \t]+", " ", text)
    text = re.sub(r"\n\s*\n+", "\n", text).strip()
    return text[:600]


def run_binary(ctx, moddir, binary, names):
    """Run the given Test functions; a panic aborts the binary, so the rest is re-run."""
    results = {}
    pending = list(names)
    guard = 0
    while pending and guard <= len(names) + 1:
        guard += 1
        pattern = "^(" + "|".join(re.escape(n) for n in pending) + ")$"
        cmd = [GO, "tool", "test2json", "-t", binary, "-test.v=test2json", "-test.count=1",
               "-test.timeout=%ds" % (RUN_TIMEOUT - 10), "-test.run", pattern]
        _rc, out, timed_out = sh(cmd, moddir, ctx.env, RUN_TIMEOUT)
        outputs, final, started, loose = {}, {}, [], []
        for line in out.split("\n"):
            line = line.strip()
            if not line.startswith("{"):
                if line:
                    loose.append(line)
                continue
            try:
                ev = json.loads(line)
            except ValueError:
                loose.append(line)
                continue
            t = ev.get("Test")
            act = ev.get("Action")
            if not t:
                if act == "output":
                    loose.append(ev.get("Output", "").rstrip("\n"))
                continue
            t = t.split("/")[0]
            if act == "run" and t not in started:
                started.append(t)
            elif act == "output":
                outputs.setdefault(t, []).append(ev.get("Output", ""))
            elif act in ("pass", "fail", "skip"):
                if ev["Test"] == t or act == "fail":
                    final[t] = act if final.get(t) != "fail" else "fail"
        progressed = False
        for t in started:
            if t not in pending:
                continue
            progressed = True
            text = "".join(outputs.get(t, []))
            if t in final and final[t] in ("pass", "skip"):
                results[t] = {"name": t, "status": "pass", "detail": ""}
            elif t in final:
                if "panic:" not in text and any("panic:" in l for l in loose):
                    text += "\n" + "\n".join(loose)
                results[t] = {"name": t, "status": "fail", "detail": clean_detail(ctx, text)}
            else:
                # started, never finished: the binary died (panic / os.Exit / timeout) in this test
                text += "\n" + "\n".join(loose)
                status = "error" if timed_out else "fail"
                results[t] = {"name": t, "status": status,
                              "detail": clean_detail(ctx, text) or "test binary exited before the test finished"}
            pending.remove(t)
        if not progressed:
            msg = clean_detail(ctx, "\n".join(loose)) or "test was not run by the test binary"
            for t in pending:
                results[t] = {"name": t, "status": "error", "detail": msg}
            pending = []
    return [results[n] for n in names if n in results]


def list_tests(ctx, moddir, binary):
    rc, out, _ = sh([binary, "-test.list", ".*"], moddir, ctx.env, RUN_TIMEOUT)
    if rc != 0:
        return None
    return [l.strip() for l in out.split("\n") if l.strip().startswith("Test")]


def closure(test_file, lib_files):
    """Library files (transitively) naming something the test file mentions."""
    decls = {p: set(DECL_RE.findall(read(p))) - {"init", "_", "main"} for p in lib_files}
    words = {p: set(WORD_RE.findall(read(p))) for p in lib_files}
    seen_words = set(WORD_RE.findall(read(test_file)))
    chosen = []
    changed = True
    while changed:
        changed = False
        for p in lib_files:
            if p in chosen:
                continue
            if decls[p] & seen_words:
                chosen.append(p)
                seen_words |= words[p]
                changed = True
    return sorted(chosen)


def first_error_lines(log, limit=600):
    lines = [l for l in log.split("\n") if l.strip()]
    return "\n".join(lines)[:limit]


# --------------------------------------------------------------------------- main flow

def run(gen_dir, work):
    result = {"target": "go", "build": "ok", "build_log": "", "tests": []}
    go_files = sorted(os.path.join(gen_dir, f) for f in os.listdir(gen_dir)
                      if f.endswith(".go") and os.path.isfile(os.path.join(gen_dir, f)))
    lib_files = [p for p in go_files if not p.endswith("_test.go")]
    test_files = [p for p in go_files if p.endswith("_test.go")]
    if not go_files:
        result["build"] = "error"
        result["build_log"] = "no .go files in " + gen_dir
        return result

    module = None
    for tf in test_files:
        m = IMPORT_MSG_RE.search(read(tf))
        if m and m.group(1).strip():
            module = m.group(1).strip()
            break
    if module is None:
        # no GoModule option: the test imports msg "" - leave that for the compiler to report
        module = PLACEHOLDER_MODULE

    seed = ensure_seed()
    gocache = os.path.join(work, "gocache")
    clone_cache(seed, gocache)
    ctx = Ctx(work, base_env(gocache))
    shutil.copytree(STANDIN, os.path.join(work, "fin-proto-go"))

    full = make_module(ctx, "full", module, go_files)
    binary, log = build_tests(ctx, full)
    if binary is not None:
        names = list_tests(ctx, full, binary)
        if names is None:
            names = [n for tf in test_files for n in TEST_FUNC_RE.findall(read(tf))]
        result["tests"] = run_binary(ctx, full, binary, names)
        have = {t["name"] for t in result["tests"]}
        for tf in test_files:
            for n in TEST_FUNC_RE.findall(read(tf)):
                if n not in have:
                    have.add(n)
                    result["tests"].append({
                        "name": n, "status": "error",
                        "detail": "%s: test function is not in the built test binary (the go tool ignored the file: "
                                  "its name ends in a GOOS/GOARCH word or a build constraint excludes it)"
                                  % os.path.basename(tf)})
        result["tests"].sort(key=lambda t: t["name"])
        return result

    # ---- the package as a whole does not build: retry one test file at a time
    result["build"] = "error"
    result["build_log"] = log[-4000:]
    if not test_files:
        return result

    lib_only = make_module(ctx, "lib", module, lib_files)
    rc, lib_log, _ = sh([GO, "build", "."], lib_only, ctx.env, BUILD_TIMEOUT)
    lib_ok = rc == 0

    def one(idx_tf):
        idx, tf = idx_tf
        names = test_names_of(tf)
        attempts = []
        if lib_ok:
            attempts.append(("all", lib_files))
        sub = closure(tf, lib_files)
        if not lib_ok or sub != sorted(lib_files):
            attempts.append(("closure", sub))
        last_log = ""
        for tag, libs in attempts:
            d = make_module(ctx, "t%03d_%s" % (idx, tag), module, list(libs) + [tf])
            b, blog = build_tests(ctx, d)
            if b is not None:
                listed = list_tests(ctx, d, b) or names
                return run_binary(ctx, d, b, listed)
            last_log = blog
        return [{"name": n, "status": "error", "detail": first_error_lines(last_log)} for n in names]

    workers = max(1, min(8, (os.cpu_count() or 2)))
    with concurrent.futures.ThreadPoolExecutor(max_workers=workers) as ex:
        for res in ex.map(one, list(enumerate(test_files))):
            result["tests"].extend(res)
    result["tests"].sort(key=lambda t: t["name"])
    return result


def main(argv):
    args = [a for a in argv[1:] if a != "--keep"]
    keep = "--keep" in argv[1:]
    if len(args) != 1 or args[0].startswith("-") or not os.path.isdir(args[0]):
        sys.stderr.write("usage: run.py <generated-output-dir> [--keep]\n")
        return 2
    gen_dir = os.path.abspath(args[0])
    work = tempfile.mkdtemp(prefix="fp-go-", dir=SCRATCH_ROOT)
    try:
        try:
            result = run(gen_dir, work)
        except Exception as e:  # noqa: BLE001 - still produce the JSON
            result = {"target": "go", "build": "error", "build_log": "runner exception: %r" % (e,), "tests": []}
        sys.stdout.write(json.dumps(result) + "\n")
        return 0
    finally:
        if keep:
            sys.stderr.write("run.py: kept " + work + "\n")
        else:
            shutil.rmtree(work, ignore_errors=True)


if __name__ == "__main__":
    sys.exit(main(sys.argv))
