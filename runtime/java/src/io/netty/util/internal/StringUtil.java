package io.netty.util.internal;

/** Stand-in for netty's StringUtil (only what emitted code calls). */
public final class StringUtil {
    public static final String EMPTY_STRING = "";

    private StringUtil() {
    }

    public static boolean isNullOrEmpty(String s) {
        return s == null || s.isEmpty();
    }
}
