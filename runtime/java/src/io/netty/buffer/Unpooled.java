package io.netty.buffer;

/** Stand-in for netty's Unpooled: factory of heap {@link ByteBuf}s. */
public final class Unpooled {
    private Unpooled() {
    }

    public static ByteBuf buffer() {
        return new ByteBuf(256);
    }

    public static ByteBuf buffer(int initialCapacity) {
        return new ByteBuf(initialCapacity);
    }

    /** Shares the array: reader index 0, writer index array.length. */
    public static ByteBuf wrappedBuffer(byte[] array) {
        return new ByteBuf(array);
    }

    public static ByteBuf copiedBuffer(byte[] array) {
        return new ByteBuf(array.clone());
    }
}
