package io.netty.buffer;

import java.nio.charset.Charset;
import java.util.Arrays;

/**
 * Stand-in for netty's io.netty.buffer.ByteBuf: a growable heap buffer with independent reader and writer
 * indices.  Only methods that exist in netty 4.1 with exactly these signatures are offered, so that emitted
 * code which would not compile against netty does not compile here either (e.g. there is no writeByteLE, and
 * readCharSequence takes an int).
 *
 * Un-suffixed multi-byte accessors are big-endian, the LE-suffixed ones little-endian.
 */
public class ByteBuf {
    private byte[] data;
    private int readerIndex;
    private int writerIndex;

    ByteBuf(int initialCapacity) {
        if (initialCapacity < 0) {
            throw new IllegalArgumentException("initialCapacity: " + initialCapacity + " (expected: >= 0)");
        }
        this.data = new byte[initialCapacity];
    }

    ByteBuf(byte[] wrapped) {
        this.data = wrapped;
        this.writerIndex = wrapped.length;
    }

    // ------------------------------------------------------------------ indices

    public int capacity() {
        return data.length;
    }

    public int maxCapacity() {
        return Integer.MAX_VALUE;
    }

    public int readerIndex() {
        return readerIndex;
    }

    public ByteBuf readerIndex(int readerIndex) {
        if (readerIndex < 0 || readerIndex > writerIndex) {
            throw new IndexOutOfBoundsException(String.format(
                "readerIndex: %d (expected: 0 <= readerIndex <= writerIndex(%d))", readerIndex, writerIndex));
        }
        this.readerIndex = readerIndex;
        return this;
    }

    public int writerIndex() {
        return writerIndex;
    }

    public ByteBuf writerIndex(int writerIndex) {
        if (writerIndex < readerIndex || writerIndex > capacity()) {
            throw new IndexOutOfBoundsException(String.format(
                "writerIndex: %d (expected: readerIndex(%d) <= writerIndex <= capacity(%d))",
                writerIndex, readerIndex, capacity()));
        }
        this.writerIndex = writerIndex;
        return this;
    }

    public int readableBytes() {
        return writerIndex - readerIndex;
    }

    public int writableBytes() {
        return capacity() - writerIndex;
    }

    public boolean isReadable() {
        return writerIndex > readerIndex;
    }

    public boolean isReadable(int size) {
        return writerIndex - readerIndex >= size;
    }

    public ByteBuf clear() {
        readerIndex = 0;
        writerIndex = 0;
        return this;
    }

    public ByteBuf skipBytes(int length) {
        checkReadable(length);
        readerIndex += length;
        return this;
    }

    public boolean hasArray() {
        return true;
    }

    public byte[] array() {
        return data;
    }

    public int arrayOffset() {
        return 0;
    }

    public int refCnt() {
        return 1;
    }

    public ByteBuf retain() {
        return this;
    }

    public boolean release() {
        return false;
    }

    public ByteBuf ensureWritable(int minWritableBytes) {
        if (minWritableBytes < 0) {
            throw new IllegalArgumentException("minWritableBytes : " + minWritableBytes + " (expected: >= 0)");
        }
        long need = (long) writerIndex + minWritableBytes;
        if (need > Integer.MAX_VALUE - 8) {
            throw new IndexOutOfBoundsException(String.format(
                "writerIndex(%d) + minWritableBytes(%d) exceeds maxCapacity(%d): %s",
                writerIndex, minWritableBytes, maxCapacity(), this));
        }
        if (need > data.length) {
            long cap = Math.max(64, data.length);
            while (cap < need) {
                cap <<= 1;
            }
            data = Arrays.copyOf(data, (int) Math.min(cap, Integer.MAX_VALUE - 8));
        }
        return this;
    }

    private void checkReadable(int length) {
        if (length < 0) {
            throw new IllegalArgumentException("minimumReadableBytes : " + length + " (expected: >= 0)");
        }
        if (readerIndex > writerIndex - length) {
            throw new IndexOutOfBoundsException(String.format(
                "readerIndex(%d) + length(%d) exceeds writerIndex(%d): %s",
                readerIndex, length, writerIndex, this));
        }
    }

    private void checkIndex(int index, int length) {
        if (index < 0 || length < 0 || (long) index + length > capacity()) {
            throw new IndexOutOfBoundsException(String.format(
                "index: %d, length: %d (expected: range(0, %d))", index, length, capacity()));
        }
    }

    // ------------------------------------------------------------------ raw big/little endian access

    private long getBE(int index, int n) {
        long v = 0;
        for (int i = 0; i < n; i++) {
            v = (v << 8) | (data[index + i] & 0xFFL);
        }
        return v;
    }

    private long getLE(int index, int n) {
        long v = 0;
        for (int i = n - 1; i >= 0; i--) {
            v = (v << 8) | (data[index + i] & 0xFFL);
        }
        return v;
    }

    private void putBE(int index, int n, long v) {
        for (int i = n - 1; i >= 0; i--) {
            data[index + i] = (byte) v;
            v >>>= 8;
        }
    }

    private void putLE(int index, int n, long v) {
        for (int i = 0; i < n; i++) {
            data[index + i] = (byte) v;
            v >>>= 8;
        }
    }

    private long readRaw(int n, boolean le) {
        checkReadable(n);
        long v = le ? getLE(readerIndex, n) : getBE(readerIndex, n);
        readerIndex += n;
        return v;
    }

    private ByteBuf writeRaw(int n, long v, boolean le) {
        ensureWritable(n);
        if (le) {
            putLE(writerIndex, n, v);
        } else {
            putBE(writerIndex, n, v);
        }
        writerIndex += n;
        return this;
    }

    private long getRaw(int index, int n, boolean le) {
        checkIndex(index, n);
        return le ? getLE(index, n) : getBE(index, n);
    }

    private ByteBuf setRaw(int index, int n, long v, boolean le) {
        checkIndex(index, n);
        if (le) {
            putLE(index, n, v);
        } else {
            putBE(index, n, v);
        }
        return this;
    }

    // ------------------------------------------------------------------ sequential reads

    public boolean readBoolean() {
        return readByte() != 0;
    }

    public byte readByte() {
        return (byte) readRaw(1, false);
    }

    public short readUnsignedByte() {
        return (short) (readRaw(1, false) & 0xFF);
    }

    public short readShort() {
        return (short) readRaw(2, false);
    }

    public short readShortLE() {
        return (short) readRaw(2, true);
    }

    public int readUnsignedShort() {
        return (int) (readRaw(2, false) & 0xFFFF);
    }

    public int readUnsignedShortLE() {
        return (int) (readRaw(2, true) & 0xFFFF);
    }

    public int readInt() {
        return (int) readRaw(4, false);
    }

    public int readIntLE() {
        return (int) readRaw(4, true);
    }

    public long readUnsignedInt() {
        return readRaw(4, false) & 0xFFFFFFFFL;
    }

    public long readUnsignedIntLE() {
        return readRaw(4, true) & 0xFFFFFFFFL;
    }

    public long readLong() {
        return readRaw(8, false);
    }

    public long readLongLE() {
        return readRaw(8, true);
    }

    public float readFloat() {
        return Float.intBitsToFloat(readInt());
    }

    public float readFloatLE() {
        return Float.intBitsToFloat(readIntLE());
    }

    public double readDouble() {
        return Double.longBitsToDouble(readLong());
    }

    public double readDoubleLE() {
        return Double.longBitsToDouble(readLongLE());
    }

    public ByteBuf readBytes(byte[] dst) {
        return readBytes(dst, 0, dst.length);
    }

    public ByteBuf readBytes(byte[] dst, int dstIndex, int length) {
        checkReadable(length);
        System.arraycopy(data, readerIndex, dst, dstIndex, length);
        readerIndex += length;
        return this;
    }

    public ByteBuf readBytes(int length) {
        checkReadable(length);
        ByteBuf out = new ByteBuf(Arrays.copyOfRange(data, readerIndex, readerIndex + length));
        readerIndex += length;
        return out;
    }

    public CharSequence readCharSequence(int length, Charset charset) {
        checkReadable(length);
        String s = new String(data, readerIndex, length, charset);
        readerIndex += length;
        return s;
    }

    // ------------------------------------------------------------------ sequential writes

    public ByteBuf writeBoolean(boolean value) {
        return writeRaw(1, value ? 1 : 0, false);
    }

    public ByteBuf writeByte(int value) {
        return writeRaw(1, value, false);
    }

    public ByteBuf writeShort(int value) {
        return writeRaw(2, value, false);
    }

    public ByteBuf writeShortLE(int value) {
        return writeRaw(2, value, true);
    }

    public ByteBuf writeInt(int value) {
        return writeRaw(4, value, false);
    }

    public ByteBuf writeIntLE(int value) {
        return writeRaw(4, value, true);
    }

    public ByteBuf writeLong(long value) {
        return writeRaw(8, value, false);
    }

    public ByteBuf writeLongLE(long value) {
        return writeRaw(8, value, true);
    }

    public ByteBuf writeFloat(float value) {
        return writeInt(Float.floatToRawIntBits(value));
    }

    public ByteBuf writeFloatLE(float value) {
        return writeIntLE(Float.floatToRawIntBits(value));
    }

    public ByteBuf writeDouble(double value) {
        return writeLong(Double.doubleToRawLongBits(value));
    }

    public ByteBuf writeDoubleLE(double value) {
        return writeLongLE(Double.doubleToRawLongBits(value));
    }

    public ByteBuf writeBytes(byte[] src) {
        return writeBytes(src, 0, src.length);
    }

    public ByteBuf writeBytes(byte[] src, int srcIndex, int length) {
        if (srcIndex < 0 || length < 0 || (long) srcIndex + length > src.length) {
            throw new IndexOutOfBoundsException(String.format(
                "srcIndex: %d, length: %d (expected: range(0, %d))", srcIndex, length, src.length));
        }
        ensureWritable(length);
        System.arraycopy(src, srcIndex, data, writerIndex, length);
        writerIndex += length;
        return this;
    }

    public ByteBuf writeBytes(ByteBuf src) {
        int n = src.readableBytes();
        writeBytes(src.data, src.readerIndex, n);
        src.readerIndex += n;
        return this;
    }

    public ByteBuf writeZero(int length) {
        if (length < 0) {
            throw new IllegalArgumentException("length: " + length + " (expected: >= 0)");
        }
        ensureWritable(length);
        Arrays.fill(data, writerIndex, writerIndex + length, (byte) 0);
        writerIndex += length;
        return this;
    }

    public int writeCharSequence(CharSequence sequence, Charset charset) {
        byte[] b = sequence.toString().getBytes(charset);
        writeBytes(b);
        return b.length;
    }

    // ------------------------------------------------------------------ absolute getters

    public byte getByte(int index) {
        return (byte) getRaw(index, 1, false);
    }

    public short getUnsignedByte(int index) {
        return (short) (getRaw(index, 1, false) & 0xFF);
    }

    public short getShort(int index) {
        return (short) getRaw(index, 2, false);
    }

    public short getShortLE(int index) {
        return (short) getRaw(index, 2, true);
    }

    public int getUnsignedShort(int index) {
        return (int) (getRaw(index, 2, false) & 0xFFFF);
    }

    public int getUnsignedShortLE(int index) {
        return (int) (getRaw(index, 2, true) & 0xFFFF);
    }

    public int getInt(int index) {
        return (int) getRaw(index, 4, false);
    }

    public int getIntLE(int index) {
        return (int) getRaw(index, 4, true);
    }

    public long getUnsignedInt(int index) {
        return getRaw(index, 4, false) & 0xFFFFFFFFL;
    }

    public long getUnsignedIntLE(int index) {
        return getRaw(index, 4, true) & 0xFFFFFFFFL;
    }

    public long getLong(int index) {
        return getRaw(index, 8, false);
    }

    public long getLongLE(int index) {
        return getRaw(index, 8, true);
    }

    public float getFloat(int index) {
        return Float.intBitsToFloat(getInt(index));
    }

    public float getFloatLE(int index) {
        return Float.intBitsToFloat(getIntLE(index));
    }

    public double getDouble(int index) {
        return Double.longBitsToDouble(getLong(index));
    }

    public double getDoubleLE(int index) {
        return Double.longBitsToDouble(getLongLE(index));
    }

    public ByteBuf getBytes(int index, byte[] dst) {
        checkIndex(index, dst.length);
        System.arraycopy(data, index, dst, 0, dst.length);
        return this;
    }

    // ------------------------------------------------------------------ absolute setters (indices untouched)

    public ByteBuf setByte(int index, int value) {
        return setRaw(index, 1, value, false);
    }

    public ByteBuf setShort(int index, int value) {
        return setRaw(index, 2, value, false);
    }

    public ByteBuf setShortLE(int index, int value) {
        return setRaw(index, 2, value, true);
    }

    public ByteBuf setInt(int index, int value) {
        return setRaw(index, 4, value, false);
    }

    public ByteBuf setIntLE(int index, int value) {
        return setRaw(index, 4, value, true);
    }

    public ByteBuf setLong(int index, long value) {
        return setRaw(index, 8, value, false);
    }

    public ByteBuf setLongLE(int index, long value) {
        return setRaw(index, 8, value, true);
    }

    public ByteBuf setFloat(int index, float value) {
        return setInt(index, Float.floatToRawIntBits(value));
    }

    public ByteBuf setFloatLE(int index, float value) {
        return setIntLE(index, Float.floatToRawIntBits(value));
    }

    public ByteBuf setDouble(int index, double value) {
        return setLong(index, Double.doubleToRawLongBits(value));
    }

    public ByteBuf setDoubleLE(int index, double value) {
        return setLongLE(index, Double.doubleToRawLongBits(value));
    }

    public ByteBuf setBytes(int index, byte[] src) {
        checkIndex(index, src.length);
        System.arraycopy(src, 0, data, index, src.length);
        return this;
    }

    // ------------------------------------------------------------------ misc

    public ByteBuf copy() {
        ByteBuf out = new ByteBuf(Arrays.copyOfRange(data, readerIndex, writerIndex));
        return out;
    }

    public String toString(Charset charset) {
        return new String(data, readerIndex, writerIndex - readerIndex, charset);
    }

    @Override
    public String toString() {
        return "StandInHeapByteBuf(ridx: " + readerIndex + ", widx: " + writerIndex + ", cap: " + capacity() + ")";
    }

    @Override
    public int hashCode() {
        int h = 1;
        for (int i = readerIndex; i < writerIndex; i++) {
            h = 31 * h + data[i];
        }
        return h;
    }

    @Override
    public boolean equals(Object o) {
        if (this == o) {
            return true;
        }
        if (!(o instanceof ByteBuf)) {
            return false;
        }
        ByteBuf b = (ByteBuf) o;
        if (b.readableBytes() != readableBytes()) {
            return false;
        }
        for (int i = 0; i < readableBytes(); i++) {
            if (data[readerIndex + i] != b.data[b.readerIndex + i]) {
                return false;
            }
        }
        return true;
    }
}
