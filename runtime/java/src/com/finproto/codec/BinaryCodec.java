package com.finproto.codec;

import io.netty.buffer.ByteBuf;
import java.nio.charset.StandardCharsets;

/**
 * Stand-in for the fin-proto Java codec interface.  Emitted classes implement it and call the fixed-string
 * helpers UNQUALIFIED and without a static import, so the helpers have to be inherited members: default methods.
 *
 * Fixed strings (CONTRACT.md): exactly n bytes on the wire.  Without pad arguments: pad with 0x20 on the right
 * when writing, trim trailing 0x20 when reading.  With (padChar, fromLeft): pad with that byte on that side and
 * trim that byte on that side.  More than n bytes of UTF-8 is an IllegalArgumentException.
 */
public interface BinaryCodec {
    void encode(ByteBuf byteBuf);

    void decode(ByteBuf byteBuf);

    default void writeFixedString(ByteBuf byteBuf, String value, int length) {
        writeFixedString(byteBuf, value, length, ' ', false);
    }

    default void writeFixedString(ByteBuf byteBuf, String value, int length, char padChar, boolean fromLeft) {
        // a null string is written like the empty string (n pad bytes)
        byte[] bytes = value == null ? new byte[0] : value.getBytes(StandardCharsets.UTF_8);
        if (bytes.length > length) {
            throw new IllegalArgumentException(
                "fixed string too long: " + bytes.length + " bytes, field width " + length);
        }
        int pad = length - bytes.length;
        if (fromLeft) {
            for (int i = 0; i < pad; i++) {
                byteBuf.writeByte((byte) padChar);
            }
            byteBuf.writeBytes(bytes);
        } else {
            byteBuf.writeBytes(bytes);
            for (int i = 0; i < pad; i++) {
                byteBuf.writeByte((byte) padChar);
            }
        }
    }

    default String readFixedString(ByteBuf byteBuf, int length) {
        return readFixedString(byteBuf, length, ' ', false);
    }

    default String readFixedString(ByteBuf byteBuf, int length, char padChar, boolean fromLeft) {
        byte[] bytes = new byte[length];
        byteBuf.readBytes(bytes);
        byte pad = (byte) padChar;
        int from = 0;
        int to = length;
        if (fromLeft) {
            while (from < to && bytes[from] == pad) {
                from++;
            }
        } else {
            while (to > from && bytes[to - 1] == pad) {
                to--;
            }
        }
        return new String(bytes, from, to - from, StandardCharsets.UTF_8);
    }
}
