package com.finproto.codec;

import io.netty.buffer.ByteBuf;

/**
 * Stand-in checksum registry (CONTRACT.md): EMPTY (every lookup gives null) unless the environment variable
 * FP_CHECKSUM=sum is set; then every algorithm name resolves to a service whose calc(buf) is the sum of all bytes
 * currently in the buffer (index 0 to the writer index, whatever the reader index is), reduced modulo 128,
 * boxed as Integer (the result type the emitted code declares).
 */
public final class ChecksumServiceFactory {
    private static final ChecksumServiceFactory INSTANCE = new ChecksumServiceFactory();

    private ChecksumServiceFactory() {
    }

    public static ChecksumServiceFactory getInstance() {
        return INSTANCE;
    }

    @SuppressWarnings("unchecked")
    public <T, R> ChecksumService<T, R> getChecksumService(String algorithm) {
        if (!"sum".equals(System.getenv("FP_CHECKSUM"))) {
            return null;
        }
        final String name = algorithm;
        ChecksumService<ByteBuf, Integer> svc = new ChecksumService<ByteBuf, Integer>() {
            @Override
            public String algorithm() {
                return name;
            }

            @Override
            public Integer calc(ByteBuf buf) {
                int sum = 0;
                int end = buf.writerIndex();
                for (int i = 0; i < end; i++) {
                    sum = (sum + (buf.getByte(i) & 0xFF)) & 0xFF;
                }
                return Integer.valueOf(sum & 0x7F); // modulo 128: fits every result type
            }
        };
        return (ChecksumService<T, R>) svc;
    }
}
