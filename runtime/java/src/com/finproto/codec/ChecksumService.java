package com.finproto.codec;

/** Stand-in: a checksum algorithm over a buffer of type T with result type R. */
public interface ChecksumService<T, R> {
    String algorithm();

    R calc(T data);
}
