package fprt;

import java.io.File;
import java.io.IOException;
import java.io.PrintStream;
import java.io.StringWriter;
import java.lang.reflect.InvocationTargetException;
import java.lang.reflect.Method;
import java.lang.reflect.Modifier;
import java.net.URL;
import java.net.URLClassLoader;
import java.nio.charset.StandardCharsets;
import java.nio.file.Files;
import java.nio.file.Path;
import java.util.ArrayList;
import java.util.Arrays;
import java.util.Base64;
import java.util.Collections;
import java.util.List;
import java.util.stream.Collectors;
import java.util.stream.Stream;
import javax.tools.JavaCompiler;
import javax.tools.JavaFileObject;
import javax.tools.StandardJavaFileManager;
import javax.tools.ToolProvider;

/**
 * Build-and-run driver used by run.py, one JVM per run:
 *
 *   java -cp <stand-in classes> fprt.Driver <main-src-dir> <test-src-dir> <work-dir> <per-test-timeout-ms>
 *
 * 1. compiles every file under main-src-dir in one javac task;
 * 2. compiles each test file in its own task (against the main classes, or - when step 1 failed - with
 *    -sourcepath main-src-dir so that only the main classes that test needs are compiled with it);
 * 3. runs every method annotated with org.junit.Test of every test class that compiled, each test class in a
 *    fresh class loader, each method on its own thread with a timeout.
 *
 * Results go to the ORIGINAL stdout, one record per line, fields separated by TAB, free text base64(UTF-8):
 *   MAIN <ok|error|none> <log>
 *   TESTFILE <class> <ok|error> <log>
 *   TEST <class> <method> <pass|fail|error> <detail>
 *   DONE
 * Anything the emitted code prints is diverted to stderr.
 */
public final class Driver {
    private static PrintStream out;

    private Driver() {
    }

    public static void main(String[] args) throws Exception {
        if (args.length != 4) {
            System.err.println("usage: Driver <main-src> <test-src> <work> <timeout-ms>");
            System.exit(2);
        }
        out = new PrintStream(new java.io.FileOutputStream(java.io.FileDescriptor.out), true, "UTF-8");
        System.setOut(System.err);
        Path mainSrc = new File(args[0]).toPath();
        Path testSrc = new File(args[1]).toPath();
        Path work = new File(args[2]).toPath();
        long timeoutMs = Long.parseLong(args[3]);
        String standIn = System.getProperty("java.class.path");

        JavaCompiler javac = ToolProvider.getSystemJavaCompiler();
        if (javac == null) {
            emit("MAIN", "error", b64("no system Java compiler (JRE without jdk.compiler?)"));
            emit("DONE");
            System.exit(0);
        }

        List<Path> mainFiles = javaFiles(mainSrc);
        List<Path> testFiles = javaFiles(testSrc);

        Path mainOut = work.resolve("classes-main");
        Files.createDirectories(mainOut);
        boolean mainOk = true;
        if (mainFiles.isEmpty()) {
            emit("MAIN", "none", b64(""));
        } else {
            StringWriter log = new StringWriter();
            mainOk = compile(javac, log, mainFiles, mainOut, standIn, null);
            emit("MAIN", mainOk ? "ok" : "error", b64(log.toString()));
        }

        Path testOut = work.resolve("classes-test");
        Files.createDirectories(testOut);
        int n = 0;
        for (Path tf : testFiles) {
            String cls = className(testSrc, tf);
            StringWriter log = new StringWriter();
            Path dest;
            boolean ok;
            URL[] urls;
            if (mainOk) {
                dest = testOut;
                ok = compile(javac, log, Collections.singletonList(tf), dest,
                    standIn + File.pathSeparator + mainOut, null);
                urls = new URL[] {testOut.toUri().toURL(), mainOut.toUri().toURL()};
            } else {
                dest = work.resolve("classes-t" + (n++));
                Files.createDirectories(dest);
                ok = compile(javac, log, Collections.singletonList(tf), dest, standIn, mainSrc);
                urls = new URL[] {dest.toUri().toURL()};
            }
            emit("TESTFILE", cls, ok ? "ok" : "error", b64(log.toString()));
            if (ok) {
                runTestClass(cls, urls, timeoutMs);
            }
        }
        emit("DONE");
        out.flush();
        // a timed-out test may have left a spinning thread behind
        Runtime.getRuntime().halt(0);
    }

    // ---------------------------------------------------------------------------------------------- compile

    private static List<Path> javaFiles(Path root) throws IOException {
        if (!Files.isDirectory(root)) {
            return new ArrayList<>();
        }
        try (Stream<Path> s = Files.walk(root)) {
            return s.filter(p -> Files.isRegularFile(p) && p.getFileName().toString().endsWith(".java"))
                .sorted().collect(Collectors.toList());
        }
    }

    private static String className(Path root, Path file) {
        String rel = root.relativize(file).toString();
        rel = rel.substring(0, rel.length() - ".java".length());
        return rel.replace(File.separatorChar, '.');
    }

    private static boolean compile(JavaCompiler javac, StringWriter log, List<Path> files, Path dest,
        String classPath, Path sourcePath) {
        List<String> opts = new ArrayList<>(Arrays.asList(
            "-d", dest.toString(), "-cp", classPath, "-proc:none", "-nowarn", "-Xlint:none",
            "-encoding", "UTF-8", "-Xmaxerrs", "20"));
        // an empty -sourcepath stops javac from looking for sources on the class path
        opts.add("-sourcepath");
        opts.add(sourcePath == null ? "" : sourcePath.toString());
        try (StandardJavaFileManager fm = javac.getStandardFileManager(null, null, StandardCharsets.UTF_8)) {
            Iterable<? extends JavaFileObject> units =
                fm.getJavaFileObjectsFromFiles(files.stream().map(Path::toFile).collect(Collectors.toList()));
            Boolean ok = javac.getTask(log, fm, null, opts, null, units).call();
            return Boolean.TRUE.equals(ok);
        } catch (Throwable t) {
            log.write("\njavac crashed: " + t);
            return false;
        }
    }

    // ---------------------------------------------------------------------------------------------- run

    private static void runTestClass(String cls, URL[] urls, long timeoutMs) {
        URLClassLoader loader = new URLClassLoader(urls, Driver.class.getClassLoader());
        Class<?> c;
        List<Method> tests = new ArrayList<>();
        try {
            c = Class.forName(cls, false, loader);
            for (Method m : c.getMethods()) {
                if (m.isAnnotationPresent(org.junit.Test.class)) {
                    tests.add(m);
                }
            }
        } catch (Throwable t) {
            emit("TEST", cls, "<load>", "error", b64(describe(t)));
            return;
        }
        tests.sort((a, b) -> a.getName().compareTo(b.getName()));
        for (Method m : tests) {
            final Object[] result = new Object[] {null, null};
            Thread th = new Thread(null, () -> {
                try {
                    if (Modifier.isStatic(m.getModifiers()) || m.getParameterCount() != 0
                        || m.getReturnType() != void.class) {
                        throw new Exception("Method " + m.getName() + "() should be public, non-static, void, no-arg");
                    }
                    Object inst = c.getDeclaredConstructor().newInstance();
                    m.invoke(inst);
                    result[0] = "pass";
                } catch (InvocationTargetException e) {
                    result[1] = e.getCause() == null ? e : e.getCause();
                } catch (Throwable t) {
                    result[1] = t;
                }
            }, "test-" + cls + "." + m.getName(), 64L * 1024 * 1024);
            th.setDaemon(true);
            th.start();
            try {
                th.join(timeoutMs);
            } catch (InterruptedException e) {
                // fall through
            }
            if (th.isAlive()) {
                emit("TEST", cls, m.getName(), "error", b64("test timed out after " + timeoutMs + " ms"));
                continue;
            }
            if (result[1] == null) {
                Class<? extends Throwable> expected = m.getAnnotation(org.junit.Test.class).expected();
                if (expected != org.junit.Test.None.class) {
                    emit("TEST", cls, m.getName(), "fail",
                        b64("java.lang.AssertionError: Expected exception: " + expected.getName()));
                } else {
                    emit("TEST", cls, m.getName(), "pass", b64(""));
                }
            } else {
                Throwable t = (Throwable) result[1];
                Class<? extends Throwable> expected = m.getAnnotation(org.junit.Test.class).expected();
                if (expected != org.junit.Test.None.class && expected.isInstance(t)) {
                    emit("TEST", cls, m.getName(), "pass", b64(""));
                } else {
                    emit("TEST", cls, m.getName(), t instanceof AssertionError ? "fail" : "error", b64(describe(t)));
                }
            }
        }
    }

    private static String describe(Throwable t) {
        StringBuilder sb = new StringBuilder();
        String head;
        try {
            head = t.toString();
        } catch (Throwable inner) {
            head = t.getClass().getName();
        }
        sb.append(head);
        StackTraceElement[] st = t.getStackTrace();
        int shown = 0;
        for (StackTraceElement e : st) {
            String cn = e.getClassName();
            if (cn.startsWith("java.") || cn.startsWith("jdk.") || cn.startsWith("sun.") || cn.startsWith("fprt.")
                || cn.startsWith("org.junit.")) {
                continue;
            }
            sb.append("\n  at ").append(e);
            if (++shown == 4) {
                break;
            }
        }
        if (t.getCause() != null && t.getCause() != t) {
            sb.append("\n  caused by ").append(t.getCause());
        }
        return sb.toString();
    }

    // ---------------------------------------------------------------------------------------------- output

    private static String b64(String s) {
        return Base64.getEncoder().encodeToString(s.getBytes(StandardCharsets.UTF_8));
    }

    private static void emit(String... fields) {
        out.println(String.join("\t", fields));
        out.flush();
    }
}
