package org.junit;

import java.util.Arrays;

/**
 * Stand-in for JUnit 4's org.junit.Assert.  A failed assertion throws java.lang.AssertionError with JUnit's
 * message format ("expected:<..> but was:<..>"); the runner reports it as a failed test and goes on.
 */
public class Assert {
    protected Assert() {
    }

    public static void fail() {
        fail(null);
    }

    public static void fail(String message) {
        if (message == null) {
            throw new AssertionError();
        }
        throw new AssertionError(message);
    }

    public static void assertTrue(String message, boolean condition) {
        if (!condition) {
            fail(message);
        }
    }

    public static void assertTrue(boolean condition) {
        assertTrue(null, condition);
    }

    public static void assertFalse(String message, boolean condition) {
        assertTrue(message, !condition);
    }

    public static void assertFalse(boolean condition) {
        assertFalse(null, condition);
    }

    // ------------------------------------------------------------------ equality

    private static boolean equalsRegardingNull(Object expected, Object actual) {
        if (expected == null) {
            return actual == null;
        }
        return expected.equals(actual);
    }

    public static void assertEquals(String message, Object expected, Object actual) {
        if (equalsRegardingNull(expected, actual)) {
            return;
        }
        failNotEquals(message, expected, actual);
    }

    public static void assertEquals(Object expected, Object actual) {
        assertEquals(null, expected, actual);
    }

    public static void assertNotEquals(String message, Object unexpected, Object actual) {
        if (equalsRegardingNull(unexpected, actual)) {
            String formatted = "Values should be different. ";
            if (message != null) {
                formatted = message + ". ";
            }
            fail(formatted + "Actual: " + actual);
        }
    }

    public static void assertNotEquals(Object unexpected, Object actual) {
        assertNotEquals(null, unexpected, actual);
    }

    public static void assertEquals(String message, long expected, long actual) {
        if (expected != actual) {
            failNotEquals(message, Long.valueOf(expected), Long.valueOf(actual));
        }
    }

    public static void assertEquals(long expected, long actual) {
        assertEquals(null, expected, actual);
    }

    public static void assertNotEquals(String message, long unexpected, long actual) {
        if (unexpected == actual) {
            String formatted = "Values should be different. ";
            if (message != null) {
                formatted = message + ". ";
            }
            fail(formatted + "Actual: " + actual);
        }
    }

    public static void assertNotEquals(long unexpected, long actual) {
        assertNotEquals(null, unexpected, actual);
    }

    private static boolean doubleIsDifferent(double d1, double d2, double delta) {
        if (Double.compare(d1, d2) == 0) {
            return false;
        }
        return !(Math.abs(d1 - d2) <= delta);
    }

    private static boolean floatIsDifferent(float f1, float f2, float delta) {
        if (Float.compare(f1, f2) == 0) {
            return false;
        }
        return !(Math.abs(f1 - f2) <= delta);
    }

    public static void assertEquals(String message, double expected, double actual, double delta) {
        if (doubleIsDifferent(expected, actual, delta)) {
            failNotEquals(message, Double.valueOf(expected), Double.valueOf(actual));
        }
    }

    public static void assertEquals(double expected, double actual, double delta) {
        assertEquals(null, expected, actual, delta);
    }

    public static void assertEquals(String message, float expected, float actual, float delta) {
        if (floatIsDifferent(expected, actual, delta)) {
            failNotEquals(message, Float.valueOf(expected), Float.valueOf(actual));
        }
    }

    public static void assertEquals(float expected, float actual, float delta) {
        assertEquals(null, expected, actual, delta);
    }

    /** As in JUnit 4: comparing doubles without a delta always fails. */
    @Deprecated
    public static void assertEquals(double expected, double actual) {
        fail("Use assertEquals(expected, actual, delta) to compare floating-point numbers");
    }

    // ------------------------------------------------------------------ arrays

    public static void assertArrayEquals(String message, byte[] expecteds, byte[] actuals) {
        if (!Arrays.equals(expecteds, actuals)) {
            failNotEquals(message == null ? "arrays differ" : message,
                Arrays.toString(expecteds), Arrays.toString(actuals));
        }
    }

    public static void assertArrayEquals(byte[] expecteds, byte[] actuals) {
        assertArrayEquals(null, expecteds, actuals);
    }

    public static void assertArrayEquals(String message, Object[] expecteds, Object[] actuals) {
        if (!Arrays.deepEquals(expecteds, actuals)) {
            failNotEquals(message == null ? "arrays differ" : message,
                Arrays.deepToString(expecteds), Arrays.deepToString(actuals));
        }
    }

    public static void assertArrayEquals(Object[] expecteds, Object[] actuals) {
        assertArrayEquals(null, expecteds, actuals);
    }

    // ------------------------------------------------------------------ null / identity

    public static void assertNotNull(String message, Object object) {
        assertTrue(message, object != null);
    }

    public static void assertNotNull(Object object) {
        assertNotNull(null, object);
    }

    public static void assertNull(String message, Object object) {
        if (object == null) {
            return;
        }
        String formatted = "";
        if (message != null) {
            formatted = message + " ";
        }
        fail(formatted + "expected null, but was:<" + object + ">");
    }

    public static void assertNull(Object object) {
        assertNull(null, object);
    }

    public static void assertSame(String message, Object expected, Object actual) {
        if (expected == actual) {
            return;
        }
        String formatted = "";
        if (message != null) {
            formatted = message + " ";
        }
        fail(formatted + "expected same:<" + expected + "> was not:<" + actual + ">");
    }

    public static void assertSame(Object expected, Object actual) {
        assertSame(null, expected, actual);
    }

    public static void assertNotSame(String message, Object unexpected, Object actual) {
        if (unexpected == actual) {
            String formatted = "";
            if (message != null) {
                formatted = message + " ";
            }
            fail(formatted + "expected not same");
        }
    }

    public static void assertNotSame(Object unexpected, Object actual) {
        assertNotSame(null, unexpected, actual);
    }

    // ------------------------------------------------------------------ message formatting (JUnit 4's)

    private static void failNotEquals(String message, Object expected, Object actual) {
        fail(format(message, expected, actual));
    }

    static String format(String message, Object expected, Object actual) {
        String formatted = "";
        if (message != null && !"".equals(message)) {
            formatted = message + " ";
        }
        String expectedString = String.valueOf(expected);
        String actualString = String.valueOf(actual);
        if (equalsRegardingNull(expectedString, actualString)) {
            return formatted + "expected: " + formatClassAndValue(expected, expectedString)
                + " but was: " + formatClassAndValue(actual, actualString);
        }
        return formatted + "expected:<" + expectedString + "> but was:<" + actualString + ">";
    }

    private static String formatClassAndValue(Object value, String valueString) {
        String className = value == null ? "null" : value.getClass().getName();
        return className + "<" + valueString + ">";
    }
}
