package org.junit;

import java.lang.annotation.ElementType;
import java.lang.annotation.Retention;
import java.lang.annotation.RetentionPolicy;
import java.lang.annotation.Target;

/** Stand-in for JUnit 4's @Test. */
@Retention(RetentionPolicy.RUNTIME)
@Target({ElementType.METHOD})
public @interface Test {
    class None extends Throwable {
        private static final long serialVersionUID = 1L;

        private None() {
        }
    }

    Class<? extends Throwable> expected() default None.class;

    long timeout() default 0L;
}
