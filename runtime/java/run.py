#!/usr/bin/env python3
"""Build and run the Java self-tests emitted by `fin-protoc compile -j <dir>` against the stand-in runtime.

    python3 /verif/runtime/java/run.py <generated-output-dir> [--keep]

Prints ONE JSON object on stdout (interface: /verif/runtime/CONTRACT.md).  Exit status 0 whenever the JSON could be
produced, 2 on usage errors.  Environment: FP_CHECKSUM=sum turns the stand-in checksum registry on (it is simply
inherited by the JVM); FP_JAVA_TEST_TIMEOUT_MS overrides the per-test timeout (default 10000).

Emitted layout: <dir>/main/java/<pkg path>/*.java and <dir>/test/java/<pkg path>/*Test.java.  The emitted files are
copied unmodified into a fresh directory under /var/tmp; one JVM (fprt.Driver, part of the stand-in) compiles the
main sources, then each test file on its own, and runs every @Test method reflectively.
"""
import base64
import hashlib
import json
import os
import re
import shutil
import subprocess
import sys
import tempfile

HERE = os.path.dirname(os.path.abspath(__file__))
SRC = os.path.join(HERE, "src")
CACHE = os.path.join(HERE, ".cache")
SCRATCH_ROOT = "/var/tmp"
JVM_FLAGS = ["-XX:TieredStopAtLevel=1", "-XX:+UseSerialGC", "-Xss16m", "-Xmx1g", "-Dfile.encoding=UTF-8"]
TEST_RE = re.compile(r"@Test\b(?:\s*\([^)]*\))?\s*(?:public\s+)?(?:static\s+)?(?:final\s+)?void\s+(\w+)\s*\(")


def standin_sources():
    out = []
    for root, _dirs, files in os.walk(SRC):
        for f in files:
            if f.endswith(".java"):
                out.append(os.path.join(root, f))
    return sorted(out)


def build_standin(dest):
    """javac the stand-in sources into dest; returns (ok, log)."""
    os.makedirs(dest, exist_ok=True)
    p = subprocess.run(["javac", "-nowarn", "-Xlint:none", "-proc:none", "-encoding", "UTF-8", "-d", dest]
                       + standin_sources(), stdout=subprocess.PIPE, stderr=subprocess.STDOUT, text=True)
    return p.returncode == 0, p.stdout


def standin_classes(fresh):
    """Directory with the compiled stand-in: a cache entry keyed by the hash of the sources, (re)built when missing;
    when the cache directory cannot be written the stand-in is built inside the fresh directory instead."""
    h = hashlib.sha256()
    for f in standin_sources():
        h.update(os.path.relpath(f, SRC).encode())
        with open(f, "rb") as fh:
            h.update(fh.read())
    final = os.path.join(CACHE, "classes-" + h.hexdigest()[:16])
    if os.path.isfile(os.path.join(final, "fprt", "Driver.class")):
        return final, ""
    try:
        os.makedirs(CACHE, exist_ok=True)
        tmp = tempfile.mkdtemp(prefix="build-", dir=CACHE)
    except OSError:
        tmp = None
    if tmp is None:
        dest = os.path.join(fresh, "standin")
        ok, log = build_standin(dest)
        return (dest if ok else None), log
    ok, log = build_standin(tmp)
    if not ok:
        shutil.rmtree(tmp, ignore_errors=True)
        return None, log
    try:
        os.chmod(tmp, 0o755)
        os.rename(tmp, final)  # atomic; loses the race harmlessly when another run got there first
    except OSError:
        shutil.rmtree(tmp, ignore_errors=True)
    # drop entries of older stand-in versions
    for e in os.listdir(CACHE):
        if e.startswith("classes-") and os.path.join(CACHE, e) != final:
            shutil.rmtree(os.path.join(CACHE, e), ignore_errors=True)
    return final, ""


def java_files(root):
    out = []
    for d, _dirs, files in os.walk(root):
        for f in files:
            if f.endswith(".java"):
                out.append(os.path.join(d, f))
    return sorted(out)


def class_name(root, path):
    return os.path.relpath(path, root)[:-len(".java")].replace(os.sep, ".")


def unb64(s):
    return base64.b64decode(s).decode("utf-8", "replace")


def clip(s, n=600):
    s = s.strip()
    return s if len(s) <= n else s[: n - 3] + "..."


def main(argv):
    args = [a for a in argv[1:] if a != "--keep"]
    keep = "--keep" in argv[1:]
    if len(args) != 1 or args[0].startswith("-"):
        sys.stderr.write("usage: run.py <generated-output-dir> [--keep]\n")
        return 2
    gen = os.path.abspath(args[0])
    if not os.path.isdir(gen):
        sys.stderr.write("run.py: not a directory: %s\n" % gen)
        return 2

    fresh = tempfile.mkdtemp(prefix="rt-java-", dir=SCRATCH_ROOT)
    try:
        result = run(gen, fresh)
    finally:
        if keep:
            sys.stderr.write("run.py: kept %s\n" % fresh)
        else:
            shutil.rmtree(fresh, ignore_errors=True)
    sys.stdout.write(json.dumps(result) + "\n")
    return 0


def run(gen, fresh):
    result = {"target": "java", "build": "ok", "build_log": "", "tests": []}

    main_src = os.path.join(fresh, "src", "main", "java")
    test_src = os.path.join(fresh, "src", "test", "java")
    for src, dst in ((os.path.join(gen, "main", "java"), main_src), (os.path.join(gen, "test", "java"), test_src)):
        if os.path.isdir(src):
            shutil.copytree(src, dst)
        else:
            os.makedirs(dst)

    # test ids known from the sources alone (needed for tests that do not compile or never report)
    planned = []  # (class, [method...])
    for tf in java_files(test_src):
        with open(tf, encoding="utf-8", errors="replace") as fh:
            methods = TEST_RE.findall(fh.read())
        planned.append((class_name(test_src, tf), methods))

    classes, log = standin_classes(fresh)
    if classes is None:
        result["build"] = "error"
        result["build_log"] = ("stand-in runtime failed to build:\n" + log)[-4000:]
        for cls, methods in planned:
            for m in methods or ["<class>"]:
                result["tests"].append({"name": cls + "." + m, "status": "error",
                                        "detail": "stand-in runtime failed to build"})
        return result

    timeout_ms = int(os.environ.get("FP_JAVA_TEST_TIMEOUT_MS", "10000"))
    work = os.path.join(fresh, "work")
    os.makedirs(work)
    n_tests = sum(max(1, len(m)) for _c, m in planned)
    overall = 120 + (timeout_ms / 1000.0 + 2) * n_tests
    cmd = ["java"] + JVM_FLAGS + ["-cp", classes, "fprt.Driver", main_src, test_src, work, str(timeout_ms)]
    stderr_path = os.path.join(fresh, "driver.stderr")
    crashed = ""
    with open(stderr_path, "wb") as errf:
        try:
            p = subprocess.run(cmd, stdout=subprocess.PIPE, stderr=errf, cwd=work, timeout=overall)
            stdout = p.stdout.decode("utf-8", "replace")
            if p.returncode != 0:
                crashed = "driver JVM exited with status %d" % p.returncode
        except subprocess.TimeoutExpired as e:
            stdout = (e.stdout or b"").decode("utf-8", "replace")
            crashed = "driver JVM killed after %d s" % overall
    with open(stderr_path, encoding="utf-8", errors="replace") as fh:
        stderr_tail = fh.read()[-1500:]

    logs = []
    file_status = {}  # class -> (ok, log)
    reported = {}  # class -> [(method, status, detail)]
    done = False
    for line in stdout.splitlines():
        f = line.split("\t")
        if f[0] == "MAIN" and len(f) == 3:
            if f[1] == "error":
                result["build"] = "error"
                logs.append(unb64(f[2]))
        elif f[0] == "TESTFILE" and len(f) == 4:
            ok = f[2] == "ok"
            file_status[f[1]] = (ok, unb64(f[3]))
            if not ok:
                result["build"] = "error"
                logs.append(unb64(f[3]))
        elif f[0] == "TEST" and len(f) == 5:
            reported.setdefault(f[1], []).append((f[2], f[3], unb64(f[4])))
        elif f[0] == "DONE":
            done = True
    if not done and not crashed:
        crashed = "driver JVM ended without finishing"

    for cls, methods in planned:
        if cls in file_status and not file_status[cls][0]:
            detail = clip(file_status[cls][1].replace(test_src + os.sep, "test/java/").replace(main_src + os.sep, "main/java/"))
            for m in methods or ["<class>"]:
                result["tests"].append({"name": cls + "." + m, "status": "error", "detail": detail})
            continue
        seen = set()
        for m, status, detail in reported.get(cls, []):
            seen.add(m)
            result["tests"].append({"name": cls + "." + m, "status": status, "detail": clip(detail)})
        for m in methods:
            if m not in seen and (crashed or cls not in file_status):
                result["tests"].append({"name": cls + "." + m, "status": "error",
                                        "detail": clip("no result: " + (crashed or "not reached") + "\n" + stderr_tail)})
    if crashed:
        result["build"] = "error" if not file_status and planned else result["build"]
        logs.append(crashed + "\n" + stderr_tail)
    if result["build"] == "error":
        text = "\n".join(x.strip() for x in logs if x.strip())
        result["build_log"] = text.replace(test_src + os.sep, "test/java/").replace(main_src + os.sep, "main/java/")[-4000:]
    return result


if __name__ == "__main__":
    sys.exit(main(sys.argv))
