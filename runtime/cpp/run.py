#!/usr/bin/env python3
"""Build and run the C++ self-tests fin-protoc emits (`-c <dir>`), offline, against the stand-in runtime.

    python3 /verif/runtime/cpp/run.py <generated-output-dir> [--keep]
    python3 /verif/runtime/cpp/run.py --selftest [--keep]

Interface and JSON shape: /verif/runtime/CONTRACT.md.  Exit status 0 when the JSON was produced, 2 on usage
errors.  The emitted sources are compiled UNMODIFIED.  Only when a whole test file does not compile is it
split at its `TEST(` boundaries into one translation unit per test (emitted preamble + the emitted text of
that block, both verbatim) so that one ill-typed test does not hide the others.
"""
import concurrent.futures as cf
import json
import os
import re
import resource
import shutil
import signal
import subprocess
import sys
import tempfile

HERE = os.path.dirname(os.path.abspath(__file__))
SCRATCH_ROOT = "/var/tmp"
TEST_TIMEOUT = 20          # seconds per test process
COMPILE_TIMEOUT = 300      # seconds per compiler invocation
MEM_LIMIT = 4 << 30        # address-space limit for a test process
TEST_RE = re.compile(r"^TEST(?:_F)?\s*\(\s*([A-Za-z_0-9]+)\s*,\s*([A-Za-z_0-9]+)\s*\)", re.M)


def find_cxx():
    env = os.environ.get("FP_CXX")
    if env:
        return env
    for c in ("g++", "clang++"):
        p = shutil.which(c)
        if p:
            return p
    return None


def run_cmd(cmd, cwd, timeout):
    try:
        p = subprocess.run(cmd, cwd=cwd, stdout=subprocess.PIPE, stderr=subprocess.STDOUT,
                           timeout=timeout, errors="replace")
        return p.returncode, p.stdout
    except subprocess.TimeoutExpired as e:
        out = e.stdout or ""
        if isinstance(out, bytes):
            out = out.decode("utf-8", "replace")
        return 124, out + "\n[runner] compiler timed out"


class Builder:
    def __init__(self, work, cxx):
        self.work = work
        self.cxx = cxx
        self.flags = ["-std=c++17", "-O0", "-w", "-fmax-errors=20" if "clang" not in os.path.basename(cxx)
                      else "-ferror-limit=20", "-I.", "-Iinclude"]

    def compile(self, src, obj):
        return run_cmd([self.cxx] + self.flags + ["-c", src, "-o", obj], self.work, COMPILE_TIMEOUT)

    def link(self, objs, exe):
        return run_cmd([self.cxx] + objs + ["-o", exe], self.work, COMPILE_TIMEOUT)


def limit_child():
    try:
        resource.setrlimit(resource.RLIMIT_AS, (MEM_LIMIT, MEM_LIMIT))
        resource.setrlimit(resource.RLIMIT_CORE, (0, 0))
    except Exception:
        pass


def clip(s, n):
    s = s.strip()
    return s if len(s) <= n else s[: n - 15].rstrip() + " ...[truncated]"


def clip_tail(s, n):
    return s if len(s) <= n else s[-n:]


def compiler_detail(log):
    """The most useful 600 chars of a compiler log: from the first 'error' line on."""
    lines = log.splitlines()
    for i, l in enumerate(lines):
        if re.search(r"\berror\b", l):
            return clip("\n".join(lines[i:]), 600)
    return clip(log, 600)


def list_tests(exe, work):
    rc, out = run_cmd([exe, "--gtest_list_tests"], work, 60)
    names, suite = [], None
    if rc != 0:
        return None, out
    for line in out.splitlines():
        if not line.strip():
            continue
        if not line.startswith(" "):
            suite = line.strip()
        elif suite:
            names.append(suite + line.strip().split()[0])
    return names, out


def run_one(exe, name, work):
    """Run one test in its own process (a crash must not take the other tests down)."""
    try:
        p = subprocess.run([exe, "--gtest_filter=" + name], cwd=work, stdout=subprocess.PIPE,
                           stderr=subprocess.STDOUT, timeout=TEST_TIMEOUT, errors="replace",
                           preexec_fn=limit_child)
    except subprocess.TimeoutExpired as e:
        out = e.stdout or ""
        if isinstance(out, bytes):
            out = out.decode("utf-8", "replace")
        return {"name": name, "status": "error",
                "detail": clip("timeout after %ds\n%s" % (TEST_TIMEOUT, body_of(out, name)), 600)}
    out = p.stdout
    body = body_of(out, name)
    if p.returncode == 0 and ("[       OK ] " + name) in out:
        return {"name": name, "status": "pass", "detail": ""}
    if p.returncode < 0:
        try:
            sig = signal.Signals(-p.returncode).name
        except Exception:
            sig = "signal %d" % -p.returncode
        return {"name": name, "status": "error",
                "detail": clip("test process terminated by %s\n%s" % (sig, body), 600)}
    if ("[  FAILED  ] " + name) in out:
        return {"name": name, "status": "fail", "detail": clip(body, 600)}
    return {"name": name, "status": "error",
            "detail": clip("test process exited with status %d\n%s" % (p.returncode, body), 600)}


def body_of(out, name):
    """Text printed between '[ RUN ] name' and the verdict line."""
    lines = out.splitlines()
    res, on = [], False
    for l in lines:
        if l.startswith("[ RUN      ] " + name):
            on = True
            continue
        if on and (l.startswith("[  FAILED  ] ") or l.startswith("[       OK ] ") or l.startswith("[==========]")):
            break
        if on:
            res.append(l)
    return "\n".join(res) if on else out


def split_test_file(text):
    """-> (preamble, [(suite.name, first_line_no, block_text)]).  Blocks are the verbatim text from a line
    starting with TEST( up to (not including) the next such line."""
    ms = list(TEST_RE.finditer(text))
    if not ms:
        return text, []
    pre = text[: ms[0].start()]
    blocks = []
    for i, m in enumerate(ms):
        end = ms[i + 1].start() if i + 1 < len(ms) else len(text)
        line = text.count("\n", 0, m.start()) + 1
        blocks.append((m.group(1) + "." + m.group(2), line, text[m.start():end]))
    return pre, blocks


def handle_test_file(b, rel_src, main_obj_future, pool):
    """Build + run one emitted test file.  -> (built_ok, build_log, [test results])"""
    work = b.work
    stem = re.sub(r"[^A-Za-z0-9_]", "_", os.path.splitext(os.path.basename(rel_src))[0])
    obj = os.path.join("build", stem + ".o")
    exe = os.path.join(work, "build", stem + ".bin")
    rc, log = b.compile(rel_src, obj)
    mrc, mlog = main_obj_future.result()
    if mrc != 0:
        return False, "[runner] the gtest stand-in main failed to build:\n" + mlog, []
    if rc == 0:
        rc, log2 = b.link([obj, os.path.join("build", "gtest_main.o")], exe)
        log += log2
    if rc == 0:
        names, out = list_tests(exe, work)
        if names is None:
            return False, "[runner] could not list tests:\n" + out, []
        results = list(pool.map(lambda n: run_one(exe, n, work), names))
        return True, "", results

    # ---- whole file does not build: one translation unit per TEST block
    with open(os.path.join(work, rel_src), "r", errors="replace") as f:
        text = f.read()
    pre, blocks = split_test_file(text)
    if not blocks:
        return False, log, [{"name": rel_src, "status": "error", "detail": compiler_detail(log)}]
    os.makedirs(os.path.join(work, "test", "split"), exist_ok=True)

    def one(idx_block):
        idx, (name, line, block) = idx_block
        src = os.path.join("test", "split", "%s__%03d.cpp" % (stem, idx))
        with open(os.path.join(work, src), "w") as f:
            f.write(pre)
            if not pre.endswith("\n"):
                f.write("\n")
            # keep diagnostics and __FILE__/__LINE__ pointing at the emitted file; the emitted text is verbatim
            f.write('#line %d "%s"\n' % (line, rel_src))
            f.write(block)
        o = os.path.join("build", "%s__%03d.o" % (stem, idx))
        e = os.path.join(work, "build", "%s__%03d.bin" % (stem, idx))
        rc1, l1 = b.compile(src, o)
        if rc1 == 0:
            rc1, l2 = b.link([o, os.path.join("build", "gtest_main.o")], e)
            l1 += l2
        if rc1 != 0:
            return {"name": name, "status": "error", "detail": compiler_detail(l1)}
        names, out = list_tests(e, work)
        if not names or name not in names:
            return {"name": name, "status": "error", "detail": clip("[runner] test not registered:\n" + (out or ""), 600)}
        return run_one(e, name, work)

    results = list(pool.map(one, enumerate(blocks)))
    return False, log, results


def stage(work, gen_dir, selftest):
    """Copy the stand-in and the emitted files into the fresh directory."""
    os.makedirs(os.path.join(work, "build"))
    shutil.copytree(os.path.join(HERE, "include"), os.path.join(work, "include"))
    shutil.copytree(os.path.join(HERE, "gtest"), os.path.join(work, "gtest"))
    shutil.copy(os.path.join(HERE, "gtest_main.cpp"), os.path.join(work, "gtest_main.cpp"))
    os.makedirs(os.path.join(work, "test"), exist_ok=True)
    if selftest:
        shutil.copy(os.path.join(HERE, "selftest", "runtime_selftest.cpp"),
                    os.path.join(work, "test", "runtime_selftest.cpp"))
        return
    for sub in ("include", "test"):
        src = os.path.join(gen_dir, sub)
        if os.path.isdir(src):
            shutil.copytree(src, os.path.join(work, sub), dirs_exist_ok=True)


def main(argv):
    args = [a for a in argv[1:] if a not in ("--keep", "--selftest")]
    keep = "--keep" in argv[1:]
    selftest = "--selftest" in argv[1:]
    if any(a.startswith("-") for a in args) or (selftest and args) or (not selftest and len(args) != 1):
        sys.stderr.write("usage: run.py <generated-output-dir> [--keep]\n       run.py --selftest [--keep]\n")
        return 2
    gen_dir = None
    if not selftest:
        gen_dir = os.path.abspath(args[0])
        if not os.path.isdir(gen_dir):
            sys.stderr.write("run.py: not a directory: %s\n" % gen_dir)
            return 2

    result = {"target": "cpp", "build": "ok", "build_log": "", "tests": []}
    cxx = find_cxx()
    if cxx is None:
        result["build"] = "error"
        result["build_log"] = "[runner] no C++ compiler (g++ / clang++) found"
        print(json.dumps(result))
        return 0

    work = tempfile.mkdtemp(prefix="fp-rt-cpp-", dir=SCRATCH_ROOT)
    try:
        stage(work, gen_dir, selftest)
        test_dir = os.path.join(work, "test")
        files = sorted(os.path.join("test", f) for f in os.listdir(test_dir)
                       if f.endswith(".cpp") and os.path.isfile(os.path.join(test_dir, f)))
        if not files:
            result["build"] = "error"
            result["build_log"] = "[runner] no test/*.cpp in " + str(gen_dir)
        else:
            b = Builder(work, cxx)
            logs = []
            workers = max(2, min(16, os.cpu_count() or 2))
            with cf.ThreadPoolExecutor(workers) as pool, cf.ThreadPoolExecutor(max(1, len(files))) as fpool:
                main_obj = pool.submit(b.compile, "gtest_main.cpp", os.path.join("build", "gtest_main.o"))
                futs = [fpool.submit(handle_test_file, b, f, main_obj, pool) for f in files]
                for f, fut in zip(files, futs):
                    ok, log, tests = fut.result()
                    if not ok:
                        result["build"] = "error"
                        logs.append(log)
                    result["tests"].extend(tests)
            result["build_log"] = clip_tail("\n".join(logs).replace(work + "/", ""), 4000)
        for t in result["tests"]:
            t["detail"] = clip(t["detail"].replace(work + "/", ""), 600)
        if keep:
            result["kept"] = work
        if selftest:
            must_fail = {"FrameworkSelfCheck.ExpectFailureContinues": ("reached-after-expect", None),
                         "FrameworkSelfCheck.ExceptionIsFailure": ("C++ exception", None),
                         "FrameworkSelfCheck.AssertReturns": ("Failure", "must-not-be-reached")}
            bad = []
            for t in result["tests"]:
                if t["name"] in must_fail:
                    want, forbid = must_fail[t["name"]]
                    if t["status"] != "fail" or want not in t["detail"] or (forbid and forbid in t["detail"]):
                        bad.append(t["name"])
                elif t["status"] != "pass":
                    bad.append(t["name"])
            if result["build"] != "ok" or len(result["tests"]) < 12:
                bad.append("<build>")
            result["selftest"] = "ok" if not bad else "FAILED: " + ", ".join(bad)
    except Exception as e:  # a runner bug must still produce the JSON
        result["build"] = "error"
        result["build_log"] = clip_tail("[runner] internal error: %r" % (e,), 4000)
    finally:
        if not keep:
            shutil.rmtree(work, ignore_errors=True)
    print(json.dumps(result))
    return 0


if __name__ == "__main__":
    sys.exit(main(sys.argv))
