// Stand-in for the fin-proto C++ runtime header "message_factory.hpp".
//
// Emitted use:
//   struct MsgTag{};
//   using MsgMessageFactory = MessageFactory<uint16_t, codec::BinaryCodec, MsgTag>;
//   REGISTER_MESSAGE(MsgMessageFactory, 1, Ack);
//   ...
//   body = MsgMessageFactory::getInstance().create(msgType);   // std::unique_ptr<codec::BinaryCodec>
//
// Contract: create() returns a fresh instance of the type registered under the key; an unregistered
// key throws (std::out_of_range).  Registering a key twice keeps the LAST registration.
#pragma once
#include <functional>
#include <map>
#include <memory>
#include <sstream>
#include <stdexcept>
#include <string>
#include <type_traits>
#include <utility>

namespace fp_detail {
template <typename K, typename = void>
struct KeyPrinter {
  static std::string str(const K&) { return "<key>"; }
};
template <typename K>
struct KeyPrinter<K, typename std::enable_if<std::is_arithmetic<K>::value>::type> {
  static std::string str(const K& k) { return std::to_string(k); }
};
template <>
struct KeyPrinter<std::string, void> {
  static std::string str(const std::string& k) { return "\"" + k + "\""; }
};
}  // namespace fp_detail

template <typename Key, typename Base, typename Tag>
class MessageFactory {
 public:
  using Creator = std::function<std::unique_ptr<Base>()>;

  static MessageFactory& getInstance() {
    static MessageFactory inst;
    return inst;
  }

  bool registerType(const Key& key, Creator creator) {
    creators_[key] = std::move(creator);
    return true;
  }

  template <typename T>
  bool registerType(const Key& key) {
    return registerType(key, []() -> std::unique_ptr<Base> { return std::make_unique<T>(); });
  }

  bool contains(const Key& key) const { return creators_.find(key) != creators_.end(); }

  std::unique_ptr<Base> create(const Key& key) const {
    auto it = creators_.find(key);
    if (it == creators_.end()) {
      throw std::out_of_range("MessageFactory: no message registered for key " +
                              fp_detail::KeyPrinter<Key>::str(key));
    }
    return it->second();
  }

 private:
  MessageFactory() = default;
  std::map<Key, Creator> creators_;
};

#define FP_MF_CAT2(a, b) a##b
#define FP_MF_CAT(a, b) FP_MF_CAT2(a, b)

// Used at namespace scope in a header, followed by ';' in the emitted code.
#define REGISTER_MESSAGE(FACTORY, KEY, CLASS)                                   \
  static const bool FP_MF_CAT(fp_registered_##CLASS##_, __COUNTER__) =          \
      FACTORY::getInstance().template registerType<CLASS>(KEY)
