// Stand-in for the fin-proto C++ runtime header "include/checksum.hpp".
//
// Emitted use:
//   auto service = ChecksumServiceContext::instance().get<ByteBuf, uint32_t>("CRC32");
//   if (service != nullptr) { auto cs = service->calc(buf); buf.write_u32(cs); } else { ... }
//
// Contract (/verif/runtime/CONTRACT.md): the registry is EMPTY (get() returns nullptr for every name)
// unless the environment variable FP_CHECKSUM equals "sum"; then every name resolves to a service whose
// calc(buf) is the sum of all bytes currently in the buffer (start of buffer to write position)
// reduced modulo 128, whatever the result type.
#pragma once
#include <cstddef>
#include <cstdint>
#include <cstdlib>
#include <memory>
#include <string>

template <typename Buf, typename R>
class ChecksumService {
 public:
  virtual ~ChecksumService() = default;
  virtual R calc(const Buf& buf) const = 0;
};

template <typename Buf, typename R>
class SumChecksumService : public ChecksumService<Buf, R> {
 public:
  R calc(const Buf& buf) const override {
    unsigned sum = 0;
    const std::size_t n = buf.writer_index();
    const auto* p = buf.bytes();
    for (std::size_t i = 0; i < n; ++i) sum = (sum + p[i]) & 0xFFu;
    return static_cast<R>(sum & 0x7Fu);  // modulo 128: fits every result type
  }
};

class ChecksumServiceContext {
 public:
  static ChecksumServiceContext& instance() {
    static ChecksumServiceContext ctx;
    return ctx;
  }

  // nullptr when no service is registered under `name`.
  template <typename Buf, typename R>
  std::shared_ptr<ChecksumService<Buf, R>> get(const std::string& name) const {
    (void)name;
    if (!enabled()) return nullptr;
    static const std::shared_ptr<ChecksumService<Buf, R>> svc =
        std::make_shared<SumChecksumService<Buf, R>>();
    return svc;
  }

 private:
  ChecksumServiceContext() = default;
  static bool enabled() {
    const char* e = std::getenv("FP_CHECKSUM");
    return e != nullptr && std::string(e) == "sum";
  }
};
