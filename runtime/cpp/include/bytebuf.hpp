// Stand-in for the fin-proto C++ runtime header "include/bytebuf.hpp".
// Implements the semantics fixed by /verif/runtime/CONTRACT.md, nothing more.
//
// ByteBuf is an append-only byte vector with a separate read cursor.
//   write_<t>(v) / write_<t>_le(v)          append a scalar, big-endian / little-endian
//   read_<t>()   / read_<t>_le()            consume a scalar, big-endian / little-endian
//   write_<t>_at(pos, v) / write_<t>_le_at  overwrite bytes [pos, pos+sizeof(t)) in place
//   writer_index()                          number of bytes written so far
// with <t> in {u8,i8,u16,i16,u32,i32,u64,i64,f32,f64}.  Floats are IEEE-754 of the given width.
// Reading past the written bytes, or patching outside them, throws std::out_of_range.
#pragma once
#include <cstddef>
#include <cstdint>
#include <cstring>
#include <stdexcept>
#include <string>
#include <type_traits>
#include <utility>
#include <vector>

namespace fp_detail {
template <std::size_t N> struct UIntOf;
template <> struct UIntOf<1> { using type = std::uint8_t; };
template <> struct UIntOf<2> { using type = std::uint16_t; };
template <> struct UIntOf<4> { using type = std::uint32_t; };
template <> struct UIntOf<8> { using type = std::uint64_t; };

template <typename T>
inline typename UIntOf<sizeof(T)>::type to_bits(T v) {
  static_assert(std::is_arithmetic<T>::value, "scalar expected");
  typename UIntOf<sizeof(T)>::type u;
  std::memcpy(&u, &v, sizeof(T));
  return u;
}
template <typename T>
inline T from_bits(typename UIntOf<sizeof(T)>::type u) {
  T v;
  std::memcpy(&v, &u, sizeof(T));
  return v;
}
}  // namespace fp_detail

class ByteBuf {
 public:
  ByteBuf() = default;
  explicit ByteBuf(std::vector<std::uint8_t> bytes) : data_(std::move(bytes)) {}
  ByteBuf(const std::uint8_t* p, std::size_t n) : data_(p, p + n) {}

  // ---- position API -------------------------------------------------
  std::size_t writer_index() const { return data_.size(); }
  std::size_t reader_index() const { return rpos_; }
  void reader_index(std::size_t p) {
    if (p > data_.size()) throw std::out_of_range("ByteBuf: reader_index beyond writer_index");
    rpos_ = p;
  }
  std::size_t readable_bytes() const { return data_.size() - rpos_; }
  std::size_t size() const { return data_.size(); }
  const std::vector<std::uint8_t>& data() const { return data_; }
  const std::uint8_t* bytes() const { return data_.data(); }
  void clear() { data_.clear(); rpos_ = 0; }

  // ---- raw bytes ----------------------------------------------------
  void write_bytes(const void* p, std::size_t n) {
    const std::uint8_t* b = static_cast<const std::uint8_t*>(p);
    data_.insert(data_.end(), b, b + n);
  }
  void write_bytes(const std::string& s) { write_bytes(s.data(), s.size()); }
  void write_bytes(const std::vector<std::uint8_t>& v) { write_bytes(v.data(), v.size()); }
  void write_fill(std::uint8_t b, std::size_t n) { data_.insert(data_.end(), n, b); }
  std::string read_string_bytes(std::size_t n) {
    need(n);
    std::string s(reinterpret_cast<const char*>(data_.data() + rpos_), n);
    rpos_ += n;
    return s;
  }
  std::vector<std::uint8_t> read_bytes(std::size_t n) {
    need(n);
    std::vector<std::uint8_t> v(data_.begin() + static_cast<std::ptrdiff_t>(rpos_),
                                data_.begin() + static_cast<std::ptrdiff_t>(rpos_ + n));
    rpos_ += n;
    return v;
  }

  // ---- generic scalars ----------------------------------------------
  template <typename T> void write_be(T v) {
    std::uint8_t tmp[sizeof(T)];
    store<T>(tmp, v, false);
    data_.insert(data_.end(), tmp, tmp + sizeof(T));
  }
  template <typename T> void write_le(T v) {
    std::uint8_t tmp[sizeof(T)];
    store<T>(tmp, v, true);
    data_.insert(data_.end(), tmp, tmp + sizeof(T));
  }
  template <typename T> T read_be() {
    need(sizeof(T));
    T v = load<T>(data_.data() + rpos_, false);
    rpos_ += sizeof(T);
    return v;
  }
  template <typename T> T read_le() {
    need(sizeof(T));
    T v = load<T>(data_.data() + rpos_, true);
    rpos_ += sizeof(T);
    return v;
  }
  template <typename T> void set_be(std::size_t pos, T v) {
    need_at(pos, sizeof(T));
    store<T>(data_.data() + pos, v, false);
  }
  template <typename T> void set_le(std::size_t pos, T v) {
    need_at(pos, sizeof(T));
    store<T>(data_.data() + pos, v, true);
  }
  template <typename T> T get_be(std::size_t pos) const {
    need_at(pos, sizeof(T));
    return load<T>(data_.data() + pos, false);
  }
  template <typename T> T get_le(std::size_t pos) const {
    need_at(pos, sizeof(T));
    return load<T>(data_.data() + pos, true);
  }

  // ---- named scalars --------------------------------------------------
#define FP_BYTEBUF_SCALAR(tok, T)                                        \
  void write_##tok(T v) { write_be<T>(v); }                              \
  void write_##tok##_le(T v) { write_le<T>(v); }                         \
  T read_##tok() { return read_be<T>(); }                                \
  T read_##tok##_le() { return read_le<T>(); }                           \
  void write_##tok##_at(std::size_t pos, T v) { set_be<T>(pos, v); }     \
  void write_##tok##_le_at(std::size_t pos, T v) { set_le<T>(pos, v); }  \
  T read_##tok##_at(std::size_t pos) const { return get_be<T>(pos); }    \
  T read_##tok##_le_at(std::size_t pos) const { return get_le<T>(pos); }

  FP_BYTEBUF_SCALAR(u8, std::uint8_t)
  FP_BYTEBUF_SCALAR(i8, std::int8_t)
  FP_BYTEBUF_SCALAR(u16, std::uint16_t)
  FP_BYTEBUF_SCALAR(i16, std::int16_t)
  FP_BYTEBUF_SCALAR(u32, std::uint32_t)
  FP_BYTEBUF_SCALAR(i32, std::int32_t)
  FP_BYTEBUF_SCALAR(u64, std::uint64_t)
  FP_BYTEBUF_SCALAR(i64, std::int64_t)
  FP_BYTEBUF_SCALAR(f32, float)
  FP_BYTEBUF_SCALAR(f64, double)
#undef FP_BYTEBUF_SCALAR

  // `char` scalar of the DSL (the generator prints write_char / read_char for it): one byte.
  void write_char(char c) { write_be<char>(c); }
  char read_char() { return read_be<char>(); }

 private:
  template <typename T>
  static void store(std::uint8_t* dst, T v, bool le) {
    auto u = fp_detail::to_bits<T>(v);
    for (std::size_t i = 0; i < sizeof(T); ++i) {
      std::size_t shift = 8 * (le ? i : (sizeof(T) - 1 - i));
      dst[i] = static_cast<std::uint8_t>((static_cast<std::uint64_t>(u) >> shift) & 0xFFu);
    }
  }
  template <typename T>
  static T load(const std::uint8_t* src, bool le) {
    std::uint64_t u = 0;
    for (std::size_t i = 0; i < sizeof(T); ++i) {
      std::size_t shift = 8 * (le ? i : (sizeof(T) - 1 - i));
      u |= static_cast<std::uint64_t>(src[i]) << shift;
    }
    return fp_detail::from_bits<T>(static_cast<typename fp_detail::UIntOf<sizeof(T)>::type>(u));
  }
  void need(std::size_t n) const {
    if (n > data_.size() - rpos_) {
      throw std::out_of_range("ByteBuf: read of " + std::to_string(n) + " byte(s) at " +
                              std::to_string(rpos_) + " beyond writer_index " +
                              std::to_string(data_.size()));
    }
  }
  void need_at(std::size_t pos, std::size_t n) const {
    if (pos > data_.size() || n > data_.size() - pos) {
      throw std::out_of_range("ByteBuf: access of " + std::to_string(n) + " byte(s) at " +
                              std::to_string(pos) + " beyond writer_index " +
                              std::to_string(data_.size()));
    }
  }

  std::vector<std::uint8_t> data_;
  std::size_t rpos_ = 0;
};
