// Stand-in for the fin-proto C++ runtime header "include/codec.hpp".
// Implements the semantics fixed by /verif/runtime/CONTRACT.md.
//
//   codec::BinaryCodec                         base of every emitted packet (encode/decode/equals/toString, ==, !=)
//   write_string[_le]<P>(buf, s)               P-wide unsigned byte-length prefix, then the bytes
//   read_string[_le]<P>(buf)
//   write_basic_type[_le]<P,T>(buf, v)         P-wide unsigned element-count prefix, then each scalar T
//   read_basic_type[_le]<P,T>(buf)
//   write_string_list[_le]<P,S>(buf, v)        count prefix P, then each string with prefix S
//   read_string_list[_le]<P,S>(buf)
//   write_fixed_string(buf, s, n)              exactly n bytes, padded right with ' '
//   write_fixed_string(buf, s, n, pad, left)   exactly n bytes, padded with `pad` on the given side
//   read_fixed_string(buf, n[, pad, left])     n bytes, pad byte trimmed on the padded side
//   write_fixed_string_list[_le]<P>(buf, v, n[, pad, left]) / read_fixed_string_list[_le]<P>(buf, n[, pad, left])
//   write_object_List[_le]<P>(buf, v)          count prefix, then each element's encode
//   read_object_List[_le]<P,T>(buf)            count prefix, then a fresh T per element and its decode
//   join_vector<T>(v)                          "[a, b, c]" rendering used by the emitted toString
// The `_le` variants write/read the prefixes (and scalars) little-endian, the others big-endian.
// Errors: a string longer than n bytes (fixed) or a length/count that does not fit the prefix type
// throws std::length_error; reading past the end throws std::out_of_range (from ByteBuf).
#pragma once
#include <cstddef>
#include <cstdint>
#include <limits>
#include <memory>
#include <sstream>
#include <stdexcept>
#include <string>
#include <type_traits>
#include <vector>

#include "include/bytebuf.hpp"

namespace codec {

struct BinaryCodec {
  virtual ~BinaryCodec() = default;
  virtual void encode(ByteBuf& buf) const = 0;
  virtual void decode(ByteBuf& buf) = 0;
  virtual bool equals(const BinaryCodec& other) const = 0;
  virtual std::string toString() const = 0;
};

inline bool operator==(const BinaryCodec& a, const BinaryCodec& b) { return a.equals(b); }
inline bool operator!=(const BinaryCodec& a, const BinaryCodec& b) { return !a.equals(b); }

namespace detail {

template <typename T>
inline void put(ByteBuf& buf, T v, bool le) {
  if (le) buf.write_le<T>(v); else buf.write_be<T>(v);
}
template <typename T>
inline T get(ByteBuf& buf, bool le) {
  return le ? buf.read_le<T>() : buf.read_be<T>();
}

// A prefix is an UNSIGNED integer of the width of P (a signed P is reinterpreted as unsigned).
template <typename P>
inline void put_prefix(ByteBuf& buf, std::size_t n, bool le, const char* what) {
  static_assert(std::is_integral<P>::value, "length/count prefix type must be an integer type");
  using U = typename std::make_unsigned<P>::type;
  if (static_cast<std::uint64_t>(n) > static_cast<std::uint64_t>(std::numeric_limits<U>::max())) {
    throw std::length_error(std::string(what) + " " + std::to_string(n) + " does not fit a " +
                            std::to_string(sizeof(U)) + "-byte prefix");
  }
  put<U>(buf, static_cast<U>(n), le);
}
template <typename P>
inline std::size_t get_prefix(ByteBuf& buf, bool le) {
  static_assert(std::is_integral<P>::value, "length/count prefix type must be an integer type");
  using U = typename std::make_unsigned<P>::type;
  return static_cast<std::size_t>(get<U>(buf, le));
}

template <typename P>
inline void put_string(ByteBuf& buf, const std::string& s, bool le) {
  put_prefix<P>(buf, s.size(), le, "string length");
  buf.write_bytes(s);
}
template <typename P>
inline std::string get_string(ByteBuf& buf, bool le) {
  std::size_t n = get_prefix<P>(buf, le);
  return buf.read_string_bytes(n);
}

inline void put_fixed(ByteBuf& buf, const std::string& s, std::size_t n, char pad, bool from_left) {
  if (s.size() > n) {
    throw std::length_error("fixed string of " + std::to_string(s.size()) +
                            " byte(s) does not fit char[" + std::to_string(n) + "]");
  }
  std::size_t fill = n - s.size();
  if (from_left) buf.write_fill(static_cast<std::uint8_t>(pad), fill);
  buf.write_bytes(s);
  if (!from_left) buf.write_fill(static_cast<std::uint8_t>(pad), fill);
}
inline std::string get_fixed(ByteBuf& buf, std::size_t n, char pad, bool from_left) {
  std::string s = buf.read_string_bytes(n);
  if (from_left) {
    std::size_t i = 0;
    while (i < s.size() && s[i] == pad) ++i;
    s.erase(0, i);
  } else {
    std::size_t e = s.size();
    while (e > 0 && s[e - 1] == pad) --e;
    s.erase(e);
  }
  return s;
}

}  // namespace detail

// ---------------------------------------------------------------- strings
template <typename P>
inline void write_string(ByteBuf& buf, const std::string& s) { detail::put_string<P>(buf, s, false); }
template <typename P>
inline void write_string_le(ByteBuf& buf, const std::string& s) { detail::put_string<P>(buf, s, true); }
template <typename P>
inline std::string read_string(ByteBuf& buf) { return detail::get_string<P>(buf, false); }
template <typename P>
inline std::string read_string_le(ByteBuf& buf) { return detail::get_string<P>(buf, true); }

// ---------------------------------------------------------------- scalar lists
template <typename P, typename T>
inline void write_basic_type(ByteBuf& buf, const std::vector<T>& v) {
  detail::put_prefix<P>(buf, v.size(), false, "list size");
  for (const T& e : v) detail::put<T>(buf, e, false);
}
template <typename P, typename T>
inline void write_basic_type_le(ByteBuf& buf, const std::vector<T>& v) {
  detail::put_prefix<P>(buf, v.size(), true, "list size");
  for (const T& e : v) detail::put<T>(buf, e, true);
}
template <typename P, typename T>
inline std::vector<T> read_basic_type(ByteBuf& buf) {
  std::size_t n = detail::get_prefix<P>(buf, false);
  std::vector<T> v;
  for (std::size_t i = 0; i < n; ++i) v.push_back(detail::get<T>(buf, false));
  return v;
}
template <typename P, typename T>
inline std::vector<T> read_basic_type_le(ByteBuf& buf) {
  std::size_t n = detail::get_prefix<P>(buf, true);
  std::vector<T> v;
  for (std::size_t i = 0; i < n; ++i) v.push_back(detail::get<T>(buf, true));
  return v;
}

// ---------------------------------------------------------------- string lists
template <typename P, typename S>
inline void write_string_list(ByteBuf& buf, const std::vector<std::string>& v) {
  detail::put_prefix<P>(buf, v.size(), false, "list size");
  for (const auto& s : v) detail::put_string<S>(buf, s, false);
}
template <typename P, typename S>
inline void write_string_list_le(ByteBuf& buf, const std::vector<std::string>& v) {
  detail::put_prefix<P>(buf, v.size(), true, "list size");
  for (const auto& s : v) detail::put_string<S>(buf, s, true);
}
template <typename P, typename S>
inline std::vector<std::string> read_string_list(ByteBuf& buf) {
  std::size_t n = detail::get_prefix<P>(buf, false);
  std::vector<std::string> v;
  for (std::size_t i = 0; i < n; ++i) v.push_back(detail::get_string<S>(buf, false));
  return v;
}
template <typename P, typename S>
inline std::vector<std::string> read_string_list_le(ByteBuf& buf) {
  std::size_t n = detail::get_prefix<P>(buf, true);
  std::vector<std::string> v;
  for (std::size_t i = 0; i < n; ++i) v.push_back(detail::get_string<S>(buf, true));
  return v;
}

// ---------------------------------------------------------------- fixed strings
inline void write_fixed_string(ByteBuf& buf, const std::string& s, std::size_t n) {
  detail::put_fixed(buf, s, n, ' ', false);
}
inline void write_fixed_string(ByteBuf& buf, const std::string& s, std::size_t n, char pad, bool from_left) {
  detail::put_fixed(buf, s, n, pad, from_left);
}
inline std::string read_fixed_string(ByteBuf& buf, std::size_t n) {
  return detail::get_fixed(buf, n, ' ', false);
}
inline std::string read_fixed_string(ByteBuf& buf, std::size_t n, char pad, bool from_left) {
  return detail::get_fixed(buf, n, pad, from_left);
}

// ---------------------------------------------------------------- fixed string lists
template <typename P>
inline void write_fixed_string_list(ByteBuf& buf, const std::vector<std::string>& v, std::size_t n) {
  detail::put_prefix<P>(buf, v.size(), false, "list size");
  for (const auto& s : v) detail::put_fixed(buf, s, n, ' ', false);
}
template <typename P>
inline void write_fixed_string_list(ByteBuf& buf, const std::vector<std::string>& v, std::size_t n,
                                    char pad, bool from_left) {
  detail::put_prefix<P>(buf, v.size(), false, "list size");
  for (const auto& s : v) detail::put_fixed(buf, s, n, pad, from_left);
}
template <typename P>
inline void write_fixed_string_list_le(ByteBuf& buf, const std::vector<std::string>& v, std::size_t n) {
  detail::put_prefix<P>(buf, v.size(), true, "list size");
  for (const auto& s : v) detail::put_fixed(buf, s, n, ' ', false);
}
template <typename P>
inline void write_fixed_string_list_le(ByteBuf& buf, const std::vector<std::string>& v, std::size_t n,
                                       char pad, bool from_left) {
  detail::put_prefix<P>(buf, v.size(), true, "list size");
  for (const auto& s : v) detail::put_fixed(buf, s, n, pad, from_left);
}
template <typename P>
inline std::vector<std::string> read_fixed_string_list(ByteBuf& buf, std::size_t n) {
  std::size_t c = detail::get_prefix<P>(buf, false);
  std::vector<std::string> v;
  for (std::size_t i = 0; i < c; ++i) v.push_back(detail::get_fixed(buf, n, ' ', false));
  return v;
}
template <typename P>
inline std::vector<std::string> read_fixed_string_list(ByteBuf& buf, std::size_t n, char pad, bool from_left) {
  std::size_t c = detail::get_prefix<P>(buf, false);
  std::vector<std::string> v;
  for (std::size_t i = 0; i < c; ++i) v.push_back(detail::get_fixed(buf, n, pad, from_left));
  return v;
}
template <typename P>
inline std::vector<std::string> read_fixed_string_list_le(ByteBuf& buf, std::size_t n) {
  std::size_t c = detail::get_prefix<P>(buf, true);
  std::vector<std::string> v;
  for (std::size_t i = 0; i < c; ++i) v.push_back(detail::get_fixed(buf, n, ' ', false));
  return v;
}
template <typename P>
inline std::vector<std::string> read_fixed_string_list_le(ByteBuf& buf, std::size_t n, char pad, bool from_left) {
  std::size_t c = detail::get_prefix<P>(buf, true);
  std::vector<std::string> v;
  for (std::size_t i = 0; i < c; ++i) v.push_back(detail::get_fixed(buf, n, pad, from_left));
  return v;
}

// ---------------------------------------------------------------- object lists
template <typename P, typename T>
inline void write_object_List(ByteBuf& buf, const std::vector<T>& v) {
  detail::put_prefix<P>(buf, v.size(), false, "list size");
  for (const T& e : v) e.encode(buf);
}
template <typename P, typename T>
inline void write_object_List_le(ByteBuf& buf, const std::vector<T>& v) {
  detail::put_prefix<P>(buf, v.size(), true, "list size");
  for (const T& e : v) e.encode(buf);
}
template <typename P, typename T>
inline std::vector<T> read_object_List(ByteBuf& buf) {
  std::size_t n = detail::get_prefix<P>(buf, false);
  std::vector<T> v;
  for (std::size_t i = 0; i < n; ++i) {
    v.emplace_back();
    v.back().decode(buf);
  }
  return v;
}
template <typename P, typename T>
inline std::vector<T> read_object_List_le(ByteBuf& buf) {
  std::size_t n = detail::get_prefix<P>(buf, true);
  std::vector<T> v;
  for (std::size_t i = 0; i < n; ++i) {
    v.emplace_back();
    v.back().decode(buf);
  }
  return v;
}

// ---------------------------------------------------------------- rendering
namespace detail {
template <typename T>
inline void render(std::ostream& os, const T& v, std::true_type /*is BinaryCodec*/) { os << v.toString(); }
template <typename T>
inline void render_plain(std::ostream& os, const T& v, std::true_type /*1-byte integer*/) {
  os << static_cast<int>(v);
}
template <typename T>
inline void render_plain(std::ostream& os, const T& v, std::false_type) { os << v; }
template <typename T>
inline void render(std::ostream& os, const T& v, std::false_type) {
  render_plain(os, v, std::integral_constant<bool, std::is_integral<T>::value && sizeof(T) == 1>());
}
}  // namespace detail

template <typename T>
inline std::string join_vector(const std::vector<T>& v, const std::string& sep = ", ") {
  std::ostringstream oss;
  oss << "[";
  bool first = true;
  for (const T& e : v) {
    if (!first) oss << sep;
    first = false;
    detail::render(oss, e, std::integral_constant<bool, std::is_base_of<BinaryCodec, T>::value>());
  }
  oss << "]";
  return oss.str();
}

}  // namespace codec
