// Tiny stand-in for <gtest/gtest.h> (header only; main() lives in gtest_main.cpp).
//
// Provided: TEST, TEST_F (fixture with SetUp/TearDown), EXPECT_/ASSERT_ {TRUE,FALSE,EQ,NE,LT,LE,GT,GE,
// STREQ,STRNE,DOUBLE_EQ,FLOAT_EQ,NEAR,THROW,NO_THROW,ANY_THROW}, FAIL, ADD_FAILURE, SUCCEED,
// streaming of a user message (`EXPECT_TRUE(x) << "why"`), ::testing::Test, ::testing::InitGoogleTest,
// RUN_ALL_TESTS, --gtest_list_tests, --gtest_filter=<pattern[:pattern...]> ('*' and '?' wildcards).
// As in the real framework an EXPECT_* failure marks the test failed and continues, an ASSERT_* failure
// returns from the test body, an exception escaping the body marks the test failed, and the run goes on
// with the next test.
#pragma once
#include <cmath>
#include <cstddef>
#include <cstdio>
#include <cstring>
#include <exception>
#include <functional>
#include <iostream>
#include <limits>
#include <sstream>
#include <string>
#include <type_traits>
#include <typeinfo>
#include <utility>
#include <vector>

namespace testing {

class Message {
 public:
  Message() = default;
  Message(const Message& o) { ss_ << o.str(); }
  template <typename T>
  Message& operator<<(const T& v) { ss_ << v; return *this; }
  Message& operator<<(std::ostream& (*manip)(std::ostream&)) { ss_ << manip; return *this; }
  Message& operator<<(bool b) { ss_ << (b ? "true" : "false"); return *this; }
  std::string str() const { return ss_.str(); }
 private:
  std::ostringstream ss_;
};

class Test {
 public:
  virtual ~Test() = default;
  virtual void SetUp() {}
  virtual void TearDown() {}
  virtual void TestBody() = 0;
};

namespace internal {

struct TestInfo {
  std::string suite;
  std::string name;
  std::function<Test*()> make;
  std::string full() const { return suite + "." + name; }
};

inline std::vector<TestInfo>& registry() {
  static std::vector<TestInfo> r;
  return r;
}

struct State {
  bool current_failed = false;
  bool current_fatal = false;
};
inline State& state() {
  static State s;
  return s;
}

inline bool register_test(const char* suite, const char* name, std::function<Test*()> make) {
  registry().push_back(TestInfo{suite, name, std::move(make)});
  return true;
}

// ---- value printing ---------------------------------------------------
template <typename T, typename = void>
struct is_streamable : std::false_type {};
template <typename T>
struct is_streamable<T, decltype(void(std::declval<std::ostream&>() << std::declval<const T&>()))>
    : std::true_type {};

template <typename T>
inline void print_value(std::ostream& os, const T& v, std::true_type) { os << v; }
template <typename T>
inline void print_value(std::ostream& os, const T& v, std::false_type) {
  os << sizeof(T) << "-byte object <";
  const unsigned char* p = reinterpret_cast<const unsigned char*>(&v);
  char b[4];
  for (std::size_t i = 0; i < sizeof(T) && i < 32; ++i) {
    std::snprintf(b, sizeof b, "%02X", p[i]);
    os << (i ? " " : "") << b;
  }
  if (sizeof(T) > 32) os << " ...";
  os << ">";
}
template <typename T>
inline std::string PrintToString(const T& v) {
  std::ostringstream os;
  print_value(os, v, is_streamable<T>());
  return os.str();
}
inline std::string PrintToString(const std::string& s) { return "\"" + s + "\""; }
inline std::string PrintToString(const char* s) { return s ? "\"" + std::string(s) + "\"" : "NULL"; }
inline std::string PrintToString(char* s) { return PrintToString(static_cast<const char*>(s)); }
inline std::string PrintToString(bool b) { return b ? "true" : "false"; }
inline std::string PrintToString(unsigned char c) { return std::to_string(static_cast<unsigned>(c)); }
inline std::string PrintToString(signed char c) { return std::to_string(static_cast<int>(c)); }
inline std::string PrintToString(std::nullptr_t) { return "(nullptr)"; }

// ---- failure reporting ------------------------------------------------
class AssertHelper {
 public:
  AssertHelper(bool fatal, const char* file, int line, std::string summary)
      : fatal_(fatal), file_(file), line_(line), summary_(std::move(summary)) {}
  void operator=(const Message& user) const {
    state().current_failed = true;
    if (fatal_) state().current_fatal = true;
    std::string u = user.str();
    std::cout << file_ << ":" << line_ << ": Failure\n" << summary_;
    if (!summary_.empty() && summary_.back() != '\n') std::cout << "\n";
    if (!u.empty()) std::cout << u << "\n";
    std::cout.flush();
  }
 private:
  bool fatal_;
  const char* file_;
  int line_;
  std::string summary_;
};

struct AssertionResult {
  bool ok;
  std::string msg;
  explicit operator bool() const { return ok; }
};

template <typename A, typename B>
inline std::string cmp_msg(const char* ea, const char* eb, const A& a, const B& b, const char* op) {
  std::ostringstream os;
  os << "Expected: (" << ea << ") " << op << " (" << eb << "), actual: " << PrintToString(a) << " vs "
     << PrintToString(b);
  return os.str();
}

template <typename A, typename B>
inline AssertionResult CmpEQ(const char* ea, const char* eb, const A& a, const B& b) {
  if (a == b) return {true, ""};
  std::ostringstream os;
  os << "Expected equality of these values:\n  " << ea << "\n    Which is: " << PrintToString(a) << "\n  " << eb
     << "\n    Which is: " << PrintToString(b);
  return {false, os.str()};
}
#define FP_GTEST_CMP_(Name, op)                                                          \
  template <typename A, typename B>                                                      \
  inline AssertionResult Cmp##Name(const char* ea, const char* eb, const A& a, const B& b) { \
    if (a op b) return {true, ""};                                                       \
    return {false, cmp_msg(ea, eb, a, b, #op)};                                          \
  }
FP_GTEST_CMP_(NE, !=)
FP_GTEST_CMP_(LT, <)
FP_GTEST_CMP_(LE, <=)
FP_GTEST_CMP_(GT, >)
FP_GTEST_CMP_(GE, >=)
#undef FP_GTEST_CMP_

inline AssertionResult CmpSTREQ(const char* ea, const char* eb, const char* a, const char* b) {
  bool eq = (a == nullptr || b == nullptr) ? (a == b) : (std::strcmp(a, b) == 0);
  if (eq) return {true, ""};
  std::ostringstream os;
  os << "Expected equality of these values:\n  " << ea << "\n    Which is: " << PrintToString(a) << "\n  " << eb
     << "\n    Which is: " << PrintToString(b);
  return {false, os.str()};
}
inline AssertionResult CmpSTRNE(const char* ea, const char* eb, const char* a, const char* b) {
  bool eq = (a == nullptr || b == nullptr) ? (a == b) : (std::strcmp(a, b) == 0);
  if (!eq) return {true, ""};
  std::ostringstream os;
  os << "Expected: (" << ea << ") != (" << eb << "), actual: " << PrintToString(a) << " vs " << PrintToString(b);
  return {false, os.str()};
}
template <typename F>
inline AssertionResult CmpFloat(const char* ea, const char* eb, F a, F b) {
  F diff = std::fabs(a - b);
  F scale = std::fmax(std::fabs(a), std::fabs(b));
  F eps = static_cast<F>(4) * std::numeric_limits<F>::epsilon() * (scale > 0 ? scale : 1);
  if (a == b || diff <= eps) return {true, ""};
  std::ostringstream os;
  os << "Expected equality of these values:\n  " << ea << "\n    Which is: " << a << "\n  " << eb
     << "\n    Which is: " << b;
  return {false, os.str()};
}
inline AssertionResult CmpNear(const char* ea, const char* eb, const char* et, double a, double b, double t) {
  double diff = std::fabs(a - b);
  if (diff <= t) return {true, ""};
  std::ostringstream os;
  os << "The difference between " << ea << " and " << eb << " is " << diff << ", which exceeds " << et
     << ", where\n" << ea << " evaluates to " << a << ",\n" << eb << " evaluates to " << b << ", and\n" << et
     << " evaluates to " << t << ".";
  return {false, os.str()};
}

inline bool wildcard_match(const char* p, const char* s) {
  if (*p == '\0') return *s == '\0';
  if (*p == '*') return wildcard_match(p + 1, s) || (*s != '\0' && wildcard_match(p, s + 1));
  if (*s == '\0') return false;
  if (*p == '?' || *p == *s) return wildcard_match(p + 1, s + 1);
  return false;
}
inline bool filter_match(const std::string& filter, const std::string& name) {
  // positive[:positive...][-negative[:negative...]]
  std::string pos = filter, neg;
  std::size_t dash = filter.find('-');
  if (dash != std::string::npos) { pos = filter.substr(0, dash); neg = filter.substr(dash + 1); }
  if (pos.empty()) pos = "*";
  auto any = [&](const std::string& pats) {
    std::size_t i = 0;
    while (i <= pats.size()) {
      std::size_t j = pats.find(':', i);
      if (j == std::string::npos) j = pats.size();
      std::string one = pats.substr(i, j - i);
      if (!one.empty() && wildcard_match(one.c_str(), name.c_str())) return true;
      i = j + 1;
    }
    return false;
  };
  return any(pos) && !(neg.size() && any(neg));
}

struct Flags {
  bool list = false;
  std::string filter = "*";
};
inline Flags& flags() {
  static Flags f;
  return f;
}

inline std::string exception_text(const std::exception& e) {
  return std::string("C++ exception with description \"") + e.what() + "\" thrown in the test body.";
}

inline int RunAllTests() {
  auto& reg = registry();
  if (flags().list) {
    std::string last;
    for (auto& t : reg) {
      if (t.suite != last) { std::cout << t.suite << ".\n"; last = t.suite; }
      std::cout << "  " << t.name << "\n";
    }
    return 0;
  }
  int ran = 0, failed = 0;
  std::vector<std::string> failed_names;
  for (auto& t : reg) {
    if (!filter_match(flags().filter, t.full())) continue;
    ++ran;
    state().current_failed = false;
    state().current_fatal = false;
    std::cout << "[ RUN      ] " << t.full() << std::endl;
    Test* inst = nullptr;
    try {
      inst = t.make();
      inst->SetUp();
      if (!state().current_fatal) inst->TestBody();
      inst->TearDown();
    } catch (const std::exception& e) {
      state().current_failed = true;
      std::cout << "unknown file: Failure\n" << exception_text(e) << std::endl;
    } catch (...) {
      state().current_failed = true;
      std::cout << "unknown file: Failure\nUnknown C++ exception thrown in the test body." << std::endl;
    }
    try { delete inst; } catch (...) { state().current_failed = true; }
    if (state().current_failed) {
      ++failed;
      failed_names.push_back(t.full());
      std::cout << "[  FAILED  ] " << t.full() << std::endl;
    } else {
      std::cout << "[       OK ] " << t.full() << std::endl;
    }
  }
  std::cout << "[==========] " << ran << " test(s) ran.\n[  PASSED  ] " << (ran - failed) << " test(s)." << std::endl;
  if (failed) {
    std::cout << "[  FAILED  ] " << failed << " test(s), listed below:\n";
    for (auto& n : failed_names) std::cout << "[  FAILED  ] " << n << "\n";
    std::cout.flush();
  }
  return failed ? 1 : 0;
}

}  // namespace internal

inline void InitGoogleTest(int* argc, char** argv) {
  if (!argc || !argv) return;
  int out = 1;
  for (int i = 1; i < *argc; ++i) {
    std::string a = argv[i];
    if (a == "--gtest_list_tests") {
      internal::flags().list = true;
    } else if (a.rfind("--gtest_filter=", 0) == 0) {
      internal::flags().filter = a.substr(std::strlen("--gtest_filter="));
    } else if (a.rfind("--gtest_", 0) == 0) {
      // other gtest flags are accepted and ignored
    } else {
      argv[out++] = argv[i];
    }
  }
  *argc = out;
}
inline void InitGoogleTest() {}

}  // namespace testing

inline int RUN_ALL_TESTS() { return ::testing::internal::RunAllTests(); }

// ------------------------------------------------------------------ TEST
#define FP_GTEST_CLASS_(suite, name) suite##_##name##_Test

#define FP_GTEST_TEST_(suite, name, parent)                                              \
  class FP_GTEST_CLASS_(suite, name) : public parent {                                   \
   public:                                                                               \
    void TestBody() override;                                                            \
    static const bool registered_;                                                       \
  };                                                                                     \
  const bool FP_GTEST_CLASS_(suite, name)::registered_ = ::testing::internal::register_test( \
      #suite, #name, []() -> ::testing::Test* { return new FP_GTEST_CLASS_(suite, name)(); }); \
  void FP_GTEST_CLASS_(suite, name)::TestBody()

#define TEST(suite, name) FP_GTEST_TEST_(suite, name, ::testing::Test)
#define TEST_F(fixture, name) FP_GTEST_TEST_(fixture, name, fixture)

// ------------------------------------------------------------------ assertions
#define FP_GTEST_AMBIGUOUS_ELSE_BLOCKER_ switch (0) case 0: default:

#define FP_GTEST_NONFATAL_(msg) \
  ::testing::internal::AssertHelper(false, __FILE__, __LINE__, msg) = ::testing::Message()
#define FP_GTEST_FATAL_(msg) \
  return ::testing::internal::AssertHelper(true, __FILE__, __LINE__, msg) = ::testing::Message()

#define FP_GTEST_BOOL_(expr, text, actual, expected, on_fail)                 \
  FP_GTEST_AMBIGUOUS_ELSE_BLOCKER_                                            \
  if (static_cast<bool>(expr)) ; else                                         \
    on_fail("Value of: " text "\n  Actual: " #actual "\nExpected: " #expected)

#define EXPECT_TRUE(c) FP_GTEST_BOOL_(c, #c, false, true, FP_GTEST_NONFATAL_)
#define EXPECT_FALSE(c) FP_GTEST_BOOL_(!(c), #c, true, false, FP_GTEST_NONFATAL_)
#define ASSERT_TRUE(c) FP_GTEST_BOOL_(c, #c, false, true, FP_GTEST_FATAL_)
#define ASSERT_FALSE(c) FP_GTEST_BOOL_(!(c), #c, true, false, FP_GTEST_FATAL_)

#define FP_GTEST_PRED_(call, on_fail)                                         \
  FP_GTEST_AMBIGUOUS_ELSE_BLOCKER_                                            \
  if (const ::testing::internal::AssertionResult fp_gtest_ar = (call)) ; else \
    on_fail(fp_gtest_ar.msg)

#define EXPECT_EQ(a, b) FP_GTEST_PRED_(::testing::internal::CmpEQ(#a, #b, a, b), FP_GTEST_NONFATAL_)
#define EXPECT_NE(a, b) FP_GTEST_PRED_(::testing::internal::CmpNE(#a, #b, a, b), FP_GTEST_NONFATAL_)
#define EXPECT_LT(a, b) FP_GTEST_PRED_(::testing::internal::CmpLT(#a, #b, a, b), FP_GTEST_NONFATAL_)
#define EXPECT_LE(a, b) FP_GTEST_PRED_(::testing::internal::CmpLE(#a, #b, a, b), FP_GTEST_NONFATAL_)
#define EXPECT_GT(a, b) FP_GTEST_PRED_(::testing::internal::CmpGT(#a, #b, a, b), FP_GTEST_NONFATAL_)
#define EXPECT_GE(a, b) FP_GTEST_PRED_(::testing::internal::CmpGE(#a, #b, a, b), FP_GTEST_NONFATAL_)
#define ASSERT_EQ(a, b) FP_GTEST_PRED_(::testing::internal::CmpEQ(#a, #b, a, b), FP_GTEST_FATAL_)
#define ASSERT_NE(a, b) FP_GTEST_PRED_(::testing::internal::CmpNE(#a, #b, a, b), FP_GTEST_FATAL_)
#define ASSERT_LT(a, b) FP_GTEST_PRED_(::testing::internal::CmpLT(#a, #b, a, b), FP_GTEST_FATAL_)
#define ASSERT_LE(a, b) FP_GTEST_PRED_(::testing::internal::CmpLE(#a, #b, a, b), FP_GTEST_FATAL_)
#define ASSERT_GT(a, b) FP_GTEST_PRED_(::testing::internal::CmpGT(#a, #b, a, b), FP_GTEST_FATAL_)
#define ASSERT_GE(a, b) FP_GTEST_PRED_(::testing::internal::CmpGE(#a, #b, a, b), FP_GTEST_FATAL_)

#define EXPECT_STREQ(a, b) FP_GTEST_PRED_(::testing::internal::CmpSTREQ(#a, #b, a, b), FP_GTEST_NONFATAL_)
#define EXPECT_STRNE(a, b) FP_GTEST_PRED_(::testing::internal::CmpSTRNE(#a, #b, a, b), FP_GTEST_NONFATAL_)
#define ASSERT_STREQ(a, b) FP_GTEST_PRED_(::testing::internal::CmpSTREQ(#a, #b, a, b), FP_GTEST_FATAL_)
#define ASSERT_STRNE(a, b) FP_GTEST_PRED_(::testing::internal::CmpSTRNE(#a, #b, a, b), FP_GTEST_FATAL_)

#define EXPECT_DOUBLE_EQ(a, b) \
  FP_GTEST_PRED_(::testing::internal::CmpFloat<double>(#a, #b, a, b), FP_GTEST_NONFATAL_)
#define ASSERT_DOUBLE_EQ(a, b) \
  FP_GTEST_PRED_(::testing::internal::CmpFloat<double>(#a, #b, a, b), FP_GTEST_FATAL_)
#define EXPECT_FLOAT_EQ(a, b) \
  FP_GTEST_PRED_(::testing::internal::CmpFloat<float>(#a, #b, a, b), FP_GTEST_NONFATAL_)
#define ASSERT_FLOAT_EQ(a, b) \
  FP_GTEST_PRED_(::testing::internal::CmpFloat<float>(#a, #b, a, b), FP_GTEST_FATAL_)
#define EXPECT_NEAR(a, b, t) \
  FP_GTEST_PRED_(::testing::internal::CmpNear(#a, #b, #t, a, b, t), FP_GTEST_NONFATAL_)
#define ASSERT_NEAR(a, b, t) \
  FP_GTEST_PRED_(::testing::internal::CmpNear(#a, #b, #t, a, b, t), FP_GTEST_FATAL_)

#define FP_GTEST_THROW_(stmt, extype, on_fail)                                               \
  FP_GTEST_AMBIGUOUS_ELSE_BLOCKER_                                                           \
  if (const char* fp_gtest_msg = [&]() -> const char* {                                      \
        try { stmt; } catch (const extype&) { return nullptr; } catch (...) {                \
          return "Expected: " #stmt " throws an exception of type " #extype                  \
                 ".\n  Actual: it throws a different type.";                                 \
        }                                                                                    \
        return "Expected: " #stmt " throws an exception of type " #extype                    \
               ".\n  Actual: it throws nothing.";                                            \
      }())                                                                                   \
    on_fail(fp_gtest_msg)

#define FP_GTEST_NO_THROW_(stmt, on_fail)                                                    \
  FP_GTEST_AMBIGUOUS_ELSE_BLOCKER_                                                           \
  if (const char* fp_gtest_msg = [&]() -> const char* {                                      \
        try { stmt; } catch (...) {                                                          \
          return "Expected: " #stmt " doesn't throw an exception.\n  Actual: it throws.";    \
        }                                                                                    \
        return nullptr;                                                                      \
      }())                                                                                   \
    on_fail(fp_gtest_msg)

#define FP_GTEST_ANY_THROW_(stmt, on_fail)                                                   \
  FP_GTEST_AMBIGUOUS_ELSE_BLOCKER_                                                           \
  if (const char* fp_gtest_msg = [&]() -> const char* {                                      \
        try { stmt; } catch (...) { return nullptr; }                                        \
        return "Expected: " #stmt " throws an exception.\n  Actual: it doesn't.";            \
      }())                                                                                   \
    on_fail(fp_gtest_msg)

#define EXPECT_THROW(stmt, extype) FP_GTEST_THROW_(stmt, extype, FP_GTEST_NONFATAL_)
#define ASSERT_THROW(stmt, extype) FP_GTEST_THROW_(stmt, extype, FP_GTEST_FATAL_)
#define EXPECT_NO_THROW(stmt) FP_GTEST_NO_THROW_(stmt, FP_GTEST_NONFATAL_)
#define ASSERT_NO_THROW(stmt) FP_GTEST_NO_THROW_(stmt, FP_GTEST_FATAL_)
#define EXPECT_ANY_THROW(stmt) FP_GTEST_ANY_THROW_(stmt, FP_GTEST_NONFATAL_)
#define ASSERT_ANY_THROW(stmt) FP_GTEST_ANY_THROW_(stmt, FP_GTEST_FATAL_)

#define ADD_FAILURE() FP_GTEST_NONFATAL_("Failed")
#define FAIL() FP_GTEST_FATAL_("Failed")
#define GTEST_FAIL() FP_GTEST_FATAL_("Failed")
#define SUCCEED() ::testing::Message()
#define GTEST_SUCCEED() ::testing::Message()
