// main() for the gtest stand-in (the real framework ships it as libgtest_main).
#include <gtest/gtest.h>

int main(int argc, char** argv) {
  ::testing::InitGoogleTest(&argc, argv);
  return RUN_ALL_TESTS();
}
