// Self-test of the stand-in runtime against /verif/runtime/CONTRACT.md (wire bytes, not just round trips).
// Run with:  python3 /verif/runtime/cpp/run.py --selftest
#include "include/bytebuf.hpp"
#include "include/checksum.hpp"
#include "include/codec.hpp"
#include "message_factory.hpp"
#include <gtest/gtest.h>

#include <cstdlib>

static std::string hex(const ByteBuf& b) {
  static const char* d = "0123456789abcdef";
  std::string s;
  for (auto c : b.data()) { s += d[c >> 4]; s += d[c & 15]; }
  return s;
}

struct P : public codec::BinaryCodec {
  uint16_t a = 0;
  void encode(ByteBuf& buf) const override { buf.write_u16(a); }
  void decode(ByteBuf& buf) override { a = buf.read_u16(); }
  bool equals(const BinaryCodec& o) const override {
    auto* p = dynamic_cast<const P*>(&o);
    return p && p->a == a;
  }
  std::string toString() const override { return "P{" + std::to_string(a) + "}"; }
};
struct Q : public P {};

struct FTag {};
using F = MessageFactory<uint16_t, codec::BinaryCodec, FTag>;
REGISTER_MESSAGE(F, 1, P);
REGISTER_MESSAGE(F, 2, Q);
REGISTER_MESSAGE(F, 3, Q);
struct STag {};
using SF = MessageFactory<std::string, codec::BinaryCodec, STag>;
REGISTER_MESSAGE(SF, "AB", P);

TEST(ByteBuf, ScalarsBigAndLittle) {
  ByteBuf b;
  b.write_u8(0x01); b.write_i8(-2);
  b.write_u16(0x0102); b.write_u16_le(0x0102);
  b.write_i16(-2); b.write_i16_le(-2);
  b.write_u32(0x01020304u); b.write_u32_le(0x01020304u);
  b.write_i32(-2); b.write_i32_le(-2);
  b.write_u64(0x0102030405060708ull); b.write_u64_le(0x0102030405060708ull);
  b.write_i64(-2); b.write_i64_le(-2);
  EXPECT_EQ(hex(b),
            "01fe" "0102" "0201" "fffe" "feff" "01020304" "04030201" "fffffffe" "feffffff"
            "0102030405060708" "0807060504030201" "fffffffffffffffe" "feffffffffffffff");
  EXPECT_EQ(b.writer_index(), 2u + 8u + 16u + 32u);
  EXPECT_EQ(b.read_u8(), 1); EXPECT_EQ(b.read_i8(), -2);
  EXPECT_EQ(b.read_u16(), 0x0102); EXPECT_EQ(b.read_u16_le(), 0x0102);
  EXPECT_EQ(b.read_i16(), -2); EXPECT_EQ(b.read_i16_le(), -2);
  EXPECT_EQ(b.read_u32(), 0x01020304u); EXPECT_EQ(b.read_u32_le(), 0x01020304u);
  EXPECT_EQ(b.read_i32(), -2); EXPECT_EQ(b.read_i32_le(), -2);
  EXPECT_EQ(b.read_u64(), 0x0102030405060708ull); EXPECT_EQ(b.read_u64_le(), 0x0102030405060708ull);
  EXPECT_EQ(b.read_i64(), -2); EXPECT_EQ(b.read_i64_le(), -2);
  EXPECT_THROW(b.read_u8(), std::out_of_range);
}

TEST(ByteBuf, Floats) {
  ByteBuf b;
  b.write_f32(1.0f); b.write_f32_le(1.0f); b.write_f64(-2.0); b.write_f64_le(-2.0);
  EXPECT_EQ(hex(b), "3f800000" "0000803f" "c000000000000000" "00000000000000c0");
  EXPECT_EQ(b.read_f32(), 1.0f); EXPECT_EQ(b.read_f32_le(), 1.0f);
  EXPECT_EQ(b.read_f64(), -2.0); EXPECT_EQ(b.read_f64_le(), -2.0);
}

TEST(ByteBuf, InPlaceSetters) {
  ByteBuf b;
  b.write_u8(9);
  auto pos = b.writer_index();
  b.write_u32(0);
  b.write_u8(7);
  b.write_u32_at(pos, 0x0A0B0C0Du);
  EXPECT_EQ(hex(b), "090a0b0c0d07");
  b.write_u32_le_at(pos, 0x0A0B0C0Du);
  EXPECT_EQ(hex(b), "090d0c0b0a07");
  b.write_u16_at(pos, 0x1122); b.write_u16_le_at(pos + 2, 0x1122);
  EXPECT_EQ(hex(b), "091122221107");
  b.write_u8_at(0, 0xFF); b.write_i8_at(5, -1);
  EXPECT_EQ(hex(b), "ff11222211ff");
  EXPECT_EQ(b.writer_index(), 6u);
  EXPECT_THROW(b.write_u32_at(3, 1), std::out_of_range);
  ByteBuf c; c.write_u64(0); c.write_u64_at(0, 1); c.write_u64_le_at(0, 1);
  EXPECT_EQ(hex(c), "0100000000000000");
}

TEST(Codec, StringsAllPrefixWidths) {
  ByteBuf b;
  codec::write_string<uint8_t>(b, "ab");
  codec::write_string<uint16_t>(b, "ab");
  codec::write_string_le<uint16_t>(b, "ab");
  codec::write_string<uint32_t>(b, "ab");
  codec::write_string_le<uint32_t>(b, "ab");
  codec::write_string<uint64_t>(b, "ab");
  codec::write_string_le<uint64_t>(b, "");
  EXPECT_EQ(hex(b), "026162" "00026162" "02006162" "000000026162" "020000006162"
                    "00000000000000026162" "0000000000000000");
  EXPECT_EQ(codec::read_string<uint8_t>(b), "ab");
  EXPECT_EQ(codec::read_string<uint16_t>(b), "ab");
  EXPECT_EQ(codec::read_string_le<uint16_t>(b), "ab");
  EXPECT_EQ(codec::read_string<uint32_t>(b), "ab");
  EXPECT_EQ(codec::read_string_le<uint32_t>(b), "ab");
  EXPECT_EQ(codec::read_string<uint64_t>(b), "ab");
  EXPECT_EQ(codec::read_string_le<uint64_t>(b), "");
  EXPECT_EQ(b.readable_bytes(), 0u);
  ByteBuf c;
  EXPECT_THROW(codec::write_string<uint8_t>(c, std::string(256, 'x')), std::length_error);
  codec::write_string<uint8_t>(c, std::string(200, 'x'));   // unsigned prefix: 200 > 127 is fine
  EXPECT_EQ(codec::read_string<uint8_t>(c).size(), 200u);
  ByteBuf d; d.write_u16(5); d.write_u8('x');
  EXPECT_THROW(codec::read_string<uint16_t>(d), std::out_of_range);
}

TEST(Codec, Lists) {
  ByteBuf b;
  codec::write_basic_type<uint16_t, uint32_t>(b, {1, 2});
  codec::write_basic_type_le<uint16_t, uint32_t>(b, {1, 2});
  codec::write_basic_type<uint8_t, int8_t>(b, {-1});
  codec::write_basic_type_le<uint32_t, double>(b, {});
  EXPECT_EQ(hex(b), "00020000000100000002" "02000100000002000000" "01ff" "00000000");
  EXPECT_EQ((codec::read_basic_type<uint16_t, uint32_t>(b)), (std::vector<uint32_t>{1, 2}));
  EXPECT_EQ((codec::read_basic_type_le<uint16_t, uint32_t>(b)), (std::vector<uint32_t>{1, 2}));
  EXPECT_EQ((codec::read_basic_type<uint8_t, int8_t>(b)), (std::vector<int8_t>{-1}));
  EXPECT_TRUE((codec::read_basic_type_le<uint32_t, double>(b)).empty());

  ByteBuf s;
  codec::write_string_list<uint8_t, uint16_t>(s, {"a", "bc"});
  codec::write_string_list_le<uint16_t, uint32_t>(s, {"a"});
  EXPECT_EQ(hex(s), "02" "000161" "00026263" "0100" "0100000061");
  EXPECT_EQ((codec::read_string_list<uint8_t, uint16_t>(s)), (std::vector<std::string>{"a", "bc"}));
  EXPECT_EQ((codec::read_string_list_le<uint16_t, uint32_t>(s)), (std::vector<std::string>{"a"}));

  ByteBuf o;
  P p1; p1.a = 0x0102; P p2; p2.a = 3;
  codec::write_object_List<uint16_t>(o, std::vector<P>{p1, p2});
  codec::write_object_List_le<uint32_t>(o, std::vector<P>{p2});
  EXPECT_EQ(hex(o), "0002" "0102" "0003" "01000000" "0003");
  auto r1 = codec::read_object_List<uint16_t, P>(o);
  auto r2 = codec::read_object_List_le<uint32_t, P>(o);
  EXPECT_EQ(r1.size(), 2u); EXPECT_TRUE(r1[0] == p1); EXPECT_TRUE(r1[1] == p2);
  EXPECT_EQ(r2.size(), 1u); EXPECT_TRUE(r2[0] == p2); EXPECT_TRUE(r2[0] != p1);
}

TEST(Codec, FixedStrings) {
  ByteBuf b;
  codec::write_fixed_string(b, "ab", 4);
  codec::write_fixed_string(b, "ab", 4, '0', true);
  codec::write_fixed_string(b, "ab", 4, '\0', false);
  codec::write_fixed_string(b, "ab", 4, ' ', true);
  codec::write_fixed_string(b, "", 2);
  EXPECT_EQ(hex(b), "61622020" "30306162" "61620000" "20206162" "2020");
  EXPECT_EQ(codec::read_fixed_string(b, 4), "ab");
  EXPECT_EQ(codec::read_fixed_string(b, 4, '0', true), "ab");
  EXPECT_EQ(codec::read_fixed_string(b, 4, '\0', false), "ab");
  EXPECT_EQ(codec::read_fixed_string(b, 4, ' ', true), "ab");
  EXPECT_EQ(codec::read_fixed_string(b, 2), "");
  ByteBuf c;
  EXPECT_THROW(codec::write_fixed_string(c, "abcde", 4), std::length_error);
  EXPECT_THROW(codec::write_fixed_string(c, "abcde", 4, '0', true), std::length_error);
  // only the padded side is trimmed, and only the pad byte
  codec::write_fixed_string(c, " a ", 5);
  codec::write_fixed_string(c, "0a0", 5, '0', true);
  EXPECT_EQ(codec::read_fixed_string(c, 5), " a");
  EXPECT_EQ(codec::read_fixed_string(c, 5, '0', true), "a0");

  ByteBuf l;
  codec::write_fixed_string_list<uint16_t>(l, {"a", "bc"}, 2);
  codec::write_fixed_string_list_le<uint16_t>(l, {"a"}, 2);
  codec::write_fixed_string_list<uint8_t>(l, {"a"}, 2, '0', true);
  codec::write_fixed_string_list_le<uint32_t>(l, {"a"}, 2, '\0', false);
  EXPECT_EQ(hex(l), "0002" "6120" "6263" "0100" "6120" "01" "3061" "01000000" "6100");
  EXPECT_EQ((codec::read_fixed_string_list<uint16_t>(l, 2)), (std::vector<std::string>{"a", "bc"}));
  EXPECT_EQ((codec::read_fixed_string_list_le<uint16_t>(l, 2)), (std::vector<std::string>{"a"}));
  EXPECT_EQ((codec::read_fixed_string_list<uint8_t>(l, 2, '0', true)), (std::vector<std::string>{"a"}));
  EXPECT_EQ((codec::read_fixed_string_list_le<uint32_t>(l, 2, '\0', false)), (std::vector<std::string>{"a"}));
}

TEST(Codec, JoinVector) {
  EXPECT_EQ(codec::join_vector<uint8_t>({1, 2}), "[1, 2]");
  EXPECT_EQ(codec::join_vector<std::string>({"a"}), "[a]");
  P p; p.a = 5;
  EXPECT_EQ(codec::join_vector<P>({p}), "[P{5}]");
}

TEST(Factory, CreateAndUnknownKey) {
  auto a = F::getInstance().create(1);
  auto b = F::getInstance().create(2);
  auto c = F::getInstance().create(3);
  EXPECT_TRUE(dynamic_cast<P*>(a.get()) != nullptr);
  EXPECT_TRUE(dynamic_cast<Q*>(a.get()) == nullptr);
  EXPECT_TRUE(dynamic_cast<Q*>(b.get()) != nullptr);
  EXPECT_TRUE(dynamic_cast<Q*>(c.get()) != nullptr);
  EXPECT_TRUE(b.get() != c.get());
  EXPECT_THROW(F::getInstance().create(9), std::out_of_range);
  std::string k = "AB";
  EXPECT_TRUE(SF::getInstance().create(k) != nullptr);
  EXPECT_THROW(SF::getInstance().create("ZZ"), std::out_of_range);
}

TEST(Checksum, RegistryFollowsEnv) {
  ByteBuf b;
  b.write_u32(0xFFFFFFFFu); b.write_u8(0x10);   // sum = 4*255 + 16 = 1036 = 0x40C -> 0x0C
  unsetenv("FP_CHECKSUM");
  EXPECT_TRUE((ChecksumServiceContext::instance().get<ByteBuf, uint32_t>("CRC32")) == nullptr);
  setenv("FP_CHECKSUM", "crc", 1);
  EXPECT_TRUE((ChecksumServiceContext::instance().get<ByteBuf, uint32_t>("CRC32")) == nullptr);
  setenv("FP_CHECKSUM", "sum", 1);
  auto s32 = ChecksumServiceContext::instance().get<ByteBuf, uint32_t>("CRC32");
  auto s8 = ChecksumServiceContext::instance().get<ByteBuf, uint8_t>("whatever");
  auto s16 = ChecksumServiceContext::instance().get<ByteBuf, int16_t>("X");
  ASSERT_TRUE(s32 != nullptr); ASSERT_TRUE(s8 != nullptr); ASSERT_TRUE(s16 != nullptr);
  EXPECT_EQ(s32->calc(b), 0x0Cu);
  EXPECT_EQ(s8->calc(b), 0x0C);
  EXPECT_EQ(s16->calc(b), 0x0C);
  b.read_u8();   // the read cursor does not matter
  EXPECT_EQ(s32->calc(b), 0x0Cu);
  unsetenv("FP_CHECKSUM");
}

// ---- the framework stand-in itself: these two MUST be reported as failed by the runner's self-test
TEST(FrameworkSelfCheck, ExpectFailureContinues) {
  EXPECT_TRUE(1 == 2) << "user message";
  EXPECT_EQ(1, 2);
  std::cout << "reached-after-expect" << std::endl;
}
TEST(FrameworkSelfCheck, ExceptionIsFailure) {
  ByteBuf b;
  b.read_u32();
}
TEST(FrameworkSelfCheck, AssertReturns) {
  ASSERT_EQ(1, 2);
  std::cout << "must-not-be-reached" << std::endl;
}
