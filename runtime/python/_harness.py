"""Child process of run.py: import ONE emitted test module and run it with unittest.

    python3 -B -E -s _harness.py <gen-dir> <runtime-dir> <test-module-name> <results.jsonl>

One JSON object per line is appended to <results.jsonl> (flushed after every test so that a hang or crash
loses nothing):

    {"kind": "import_error", "detail": "..."}                      the module (or what it imports) does not load
    {"kind": "test", "name": id, "status": pass|fail|error, "detail": "..."}
    {"kind": "done"}

The emitted files are used exactly as written; nothing is patched.
"""
# everything the harness / unittest may import lazily is imported BEFORE the generated directory is put in
# front of sys.path, so that an emitted module with a stdlib-like name cannot break the harness itself
import difflib  # noqa: F401  (unittest imports it lazily when formatting a failed assertEqual)
import importlib
import json
import linecache
import os
import pprint  # noqa: F401
import re
import struct  # noqa: F401
import sys
import traceback
import typing  # noqa: F401
import unittest
import unittest.util  # noqa: F401
import warnings

MAX_DETAIL = 600


def clip(text, limit=MAX_DETAIL):
    text = text.strip()
    return text if len(text) <= limit else text[:limit - 3] + "..."


def field_diff(a, b, path="", out=None, depth=0):
    """Paths of the members in which two emitted objects differ (diagnostic only)."""
    out = [] if out is None else out
    if len(out) >= 6 or depth > 8:
        return out
    if isinstance(a, list) and isinstance(b, list):
        if len(a) != len(b):
            out.append("%s: list of %d != list of %d" % (path, len(a), len(b)))
        else:
            for i, (x, y) in enumerate(zip(a, b)):
                field_diff(x, y, "%s[%d]" % (path, i), out, depth + 1)
    elif hasattr(a, "__dict__") and hasattr(b, "__dict__") and type(a) is type(b):
        for key in vars(a):
            if key in vars(b):
                field_diff(vars(a)[key], vars(b)[key], (path + "." if path else "") + key, out, depth + 1)
            else:
                out.append("%s.%s: missing" % (path, key))
    else:
        try:
            same = bool(a == b)
        except Exception:
            same = False
        if not same:
            out.append(re.sub(r" at 0x[0-9a-fA-F]+", "", "%s: %r != %r" % (path or "value", a, b)))
    return out


def describe(exc_type, exc, tb, gen_dir, assertion=False, limit=MAX_DETAIL, depth=3):
    """Exception text first, then the innermost frames that lie in the emitted code."""
    head = "".join(traceback.format_exception_only(exc_type, exc)).strip()
    head = re.sub(r" at 0x[0-9a-fA-F]+", "", head).replace(gen_dir + os.sep, "")
    extra = ""
    if assertion and tb is not None:
        # decoded vs expected members, read from the emitted test method's own locals
        node = tb
        while node is not None:
            loc = node.tb_frame.f_locals
            if "decoded_packet" in loc and hasattr(loc.get("self"), "packet"):
                try:
                    diffs = field_diff(loc["decoded_packet"], loc["self"].packet)
                except Exception:
                    diffs = []
                if diffs:
                    extra = "\n  decoded vs expected: " + "; ".join(diffs)
                break
            node = node.tb_next
    where = ""
    frames = traceback.extract_tb(tb) if tb is not None else []
    emitted = [f for f in frames
               if not f.filename.startswith("<") and os.path.dirname(os.path.abspath(f.filename)) == gen_dir]
    if emitted:
        chain = ["%s:%d in %s: %s" % (os.path.basename(f.filename), f.lineno, f.name, (f.line or "").strip())
                 for f in emitted[-depth:]]
        where = "\n  at " + "\n  at ".join(reversed(chain))
    return clip(head + extra + where, limit)


def main(argv):
    gen_dir, rt_dir, modname, out_path = argv[1:5]
    gen_dir = os.path.abspath(gen_dir)
    out = open(out_path, "a", encoding="utf-8")

    def emit(obj):
        out.write(json.dumps(obj) + "\n")
        out.flush()

    # the emitted directory first (as when a user runs the test from that directory), then the runtime
    sys.path[0:1] = [gen_dir, os.path.abspath(rt_dir)]
    warnings.simplefilter("ignore")
    linecache.clearcache()

    try:
        module = importlib.import_module(modname)
    except BaseException as exc:  # SyntaxError, NameError, ImportError, SystemExit, ...
        emit({"kind": "import_error",
              "detail": describe(type(exc), exc, exc.__traceback__, gen_dir),
              "log": describe(type(exc), exc, exc.__traceback__, gen_dir, limit=4000, depth=20)})
        emit({"kind": "done"})
        return 0

    loader = unittest.TestLoader()
    suite = loader.loadTestsFromModule(module)
    for err in loader.errors:
        emit({"kind": "import_error", "detail": clip(err), "log": err[-4000:]})

    class Result(unittest.TestResult):
        def _put(self, test, status, detail=""):
            emit({"kind": "test", "name": test.id(), "status": status, "detail": detail})

        def addSuccess(self, test):
            super().addSuccess(test)
            self._put(test, "pass")

        def addFailure(self, test, err):
            super().addFailure(test, err)
            self._put(test, "fail", describe(err[0], err[1], err[2], gen_dir, assertion=True))

        def addError(self, test, err):
            super().addError(test, err)
            self._put(test, "error", describe(err[0], err[1], err[2], gen_dir))

        def addSkip(self, test, reason):
            super().addSkip(test, reason)
            self._put(test, "error", clip("skipped: %s" % reason))

        def addExpectedFailure(self, test, err):
            super().addExpectedFailure(test, err)
            self._put(test, "pass", "expected failure")

        def addUnexpectedSuccess(self, test):
            super().addUnexpectedSuccess(test)
            self._put(test, "fail", "unexpected success")

    result = Result()
    suite.run(result)
    emit({"kind": "done"})
    out.close()
    return 0


if __name__ == "__main__":
    sys.exit(main(sys.argv))
