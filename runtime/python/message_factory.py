"""Stand-in for the fin-proto Python runtime module `message_factory` (see /verif/runtime/CONTRACT.md).

The emitted code subclasses `MessageFactory[K, V]`, instantiates the subclass, calls `register(key, cls)` for
every match entry and `create(key)` when decoding.  `create` returns a FRESH instance of the registered class; an
unregistered key raises KeyError.  Each factory instance has its own table; registering a key again replaces
the earlier entry.
"""
from typing import Callable, Dict, Generic, TypeVar

K = TypeVar("K")
V = TypeVar("V")


class MessageFactory(Generic[K, V]):
    def __init__(self):
        self._registry: Dict[K, Callable[[], V]] = {}

    def register(self, key: K, creator: Callable[[], V]) -> None:
        if not callable(creator):
            raise TypeError("cannot register %r for key %r: not a class/callable" % (creator, key))
        self._registry[key] = creator

    def create(self, key: K) -> V:
        try:
            creator = self._registry[key]
        except KeyError:
            raise KeyError("%s: no message registered for key %r" % (type(self).__name__, key)) from None
        return creator()

    def contains(self, key: K) -> bool:
        return key in self._registry


__all__ = ["MessageFactory"]
