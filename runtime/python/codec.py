"""Stand-in for the fin-proto Python runtime module `codec` (see /verif/runtime/CONTRACT.md).

Names used by the emitted code (`from codec import *`):

    BinaryCodec
    read_len(buf, P) / read_len_le(buf, P)                     P-wide element-count prefix
    write_string(buf, s, P) / write_string_le(buf, s, P)        P-wide byte-length prefix, then UTF-8 bytes
    read_string(buf, P) / read_string_le(buf, P)
    write_fixed_string(buf, s, n, enc[, pad_char, from_left])   exactly n bytes
    read_fixed_string(buf, n, enc[, pad_char, from_left])

P is a type token ('u8', 'u16', 'u32', 'u64'; the signed integer tokens are accepted too and then read/written
with that signedness).  Without pad arguments a fixed string is padded with a space on the right and trailing
spaces are trimmed when reading; with `(pad_char, from_left)` that byte is padded / trimmed on that side.
"""
from bytebuf import ByteBuf

_INT_TOKENS = ("u8", "u16", "u32", "u64", "i8", "i16", "i32", "i64")


class BinaryCodec:
    """Base class of every emitted packet class."""

    def encode(self, buffer):
        raise NotImplementedError("%s.encode" % type(self).__name__)

    def decode(self, buffer):
        raise NotImplementedError("%s.decode" % type(self).__name__)


def _check_token(token):
    if token not in _INT_TOKENS:
        raise ValueError("unsupported length prefix type %r" % (token,))
    return token


def _read_prefix(buffer, token, suffix):
    return getattr(buffer, "read_%s%s" % (_check_token(token), suffix))()


def _write_prefix(buffer, token, suffix, value):
    getattr(buffer, "write_%s%s" % (_check_token(token), suffix))(value)


# ---- list count prefix -----------------------------------------------------------------------
def read_len(buffer, len_type="u16"):
    return _read_prefix(buffer, len_type, "")


def read_len_le(buffer, len_type="u16"):
    return _read_prefix(buffer, len_type, "_le")


def write_len(buffer, size, len_type="u16"):
    _write_prefix(buffer, len_type, "", size)


def write_len_le(buffer, size, len_type="u16"):
    _write_prefix(buffer, len_type, "_le", size)


# ---- length-prefixed strings -----------------------------------------------------------------
def _to_bytes(value, encoding):
    if isinstance(value, str):
        return value.encode(encoding)
    if isinstance(value, (bytes, bytearray)):
        return bytes(value)
    raise TypeError("expected a string, got %s: %r" % (type(value).__name__, value))


def _write_string(buffer, value, len_type, suffix, encoding):
    data = _to_bytes(value, encoding)
    _write_prefix(buffer, len_type, suffix, len(data))
    buffer.write_bytes(data)


def _read_string(buffer, len_type, suffix, encoding):
    n = _read_prefix(buffer, len_type, suffix)
    return buffer.read_bytes(n).decode(encoding)


def write_string(buffer, value, len_type="u16", encoding="utf-8"):
    _write_string(buffer, value, len_type, "", encoding)


def write_string_le(buffer, value, len_type="u16", encoding="utf-8"):
    _write_string(buffer, value, len_type, "_le", encoding)


def read_string(buffer, len_type="u16", encoding="utf-8"):
    return _read_string(buffer, len_type, "", encoding)


def read_string_le(buffer, len_type="u16", encoding="utf-8"):
    return _read_string(buffer, len_type, "_le", encoding)


# ---- fixed strings ---------------------------------------------------------------------------
def _pad_byte(pad_char, encoding):
    if isinstance(pad_char, int) and not isinstance(pad_char, bool):
        pad = bytes([pad_char])
    elif isinstance(pad_char, (bytes, bytearray)):
        pad = bytes(pad_char)
    elif isinstance(pad_char, str):
        pad = pad_char.encode(encoding)
    else:
        raise TypeError("pad character must be a one-character string, got %r" % (pad_char,))
    if len(pad) != 1:
        raise ValueError("pad character must be exactly one byte, got %r" % (pad_char,))
    return pad


def _check_length(length):
    if not isinstance(length, int) or isinstance(length, bool) or length < 0:
        raise ValueError("fixed string length must be a non-negative int, got %r" % (length,))
    return length


def write_fixed_string(buffer, value, length, encoding="utf-8", pad_char=" ", from_left=False):
    n = _check_length(length)
    pad = _pad_byte(pad_char, encoding)
    data = _to_bytes(value, encoding)
    if len(data) > n:
        raise ValueError("fixed string of %d byte(s) does not fit char[%d]: %r" % (len(data), n, value))
    fill = pad * (n - len(data))
    buffer.write_bytes(fill + data if from_left else data + fill)


def read_fixed_string(buffer, length, encoding="utf-8", pad_char=" ", from_left=False):
    n = _check_length(length)
    pad = _pad_byte(pad_char, encoding)
    data = buffer.read_bytes(n)
    data = data.lstrip(pad) if from_left else data.rstrip(pad)
    return data.decode(encoding)


__all__ = [
    "BinaryCodec", "ByteBuf",
    "read_len", "read_len_le", "write_len", "write_len_le",
    "read_string", "read_string_le", "write_string", "write_string_le",
    "read_fixed_string", "write_fixed_string",
]
