"""Stand-in for the fin-proto Python runtime module `bytebuf` (see /verif/runtime/CONTRACT.md).

A growable byte buffer with an independent read and write position.

    read_<ty>() / write_<ty>(v)          big-endian      ty in i8 i16 i32 i64 u8 u16 u32 u64 f32 f64
    read_<ty>_le() / write_<ty>_le(v)    little-endian   (also provided for i8/u8, where order is moot)
    write_<ty>_at(pos, v) / write_<ty>_le_at(pos, v)     overwrite already written bytes in place
    write_index / read_index             positions (plain int attributes)

Width and signedness come from the type token, byte order from the `_le` suffix (else big-endian).
Values that do not fit the type, or are not numbers, raise (struct.error / OverflowError / TypeError):
nothing is truncated silently.  Reading past the write position raises IndexError.
"""
import struct

_FORMATS = {
    "i8": "b", "i16": "h", "i32": "i", "i64": "q",
    "u8": "B", "u16": "H", "u32": "I", "u64": "Q",
    "f32": "f", "f64": "d",
}


class ByteBuf:
    def __init__(self, data=None):
        self._data = bytearray(data) if data is not None else bytearray()
        self.read_index = 0
        self.write_index = len(self._data)

    # ---- raw access -------------------------------------------------------------------------
    def write_bytes(self, data):
        data = bytes(data)
        end = self.write_index + len(data)
        if end > len(self._data):
            self._data.extend(b"\x00" * (end - len(self._data)))
        self._data[self.write_index:end] = data
        self.write_index = end

    def read_bytes(self, n):
        if not isinstance(n, int) or isinstance(n, bool):
            raise TypeError("read_bytes: length must be an int, got %r" % (n,))
        if n < 0:
            raise ValueError("read_bytes: negative length %d" % n)
        end = self.read_index + n
        if end > self.write_index:
            raise IndexError("read of %d byte(s) at %d exceeds the %d byte(s) written"
                             % (n, self.read_index, self.write_index))
        out = bytes(self._data[self.read_index:end])
        self.read_index = end
        return out

    def set_bytes(self, pos, data):
        data = bytes(data)
        if not isinstance(pos, int) or isinstance(pos, bool):
            raise TypeError("position must be an int, got %r" % (pos,))
        if pos < 0 or pos + len(data) > self.write_index:
            raise IndexError("in-place write of %d byte(s) at %d is outside the %d byte(s) written"
                             % (len(data), pos, self.write_index))
        self._data[pos:pos + len(data)] = data

    def readable_bytes(self):
        return self.write_index - self.read_index

    def to_bytes(self):
        """All bytes from the start of the buffer to the write position."""
        return bytes(self._data[:self.write_index])

    def __len__(self):
        return self.write_index

    def __bytes__(self):
        return self.to_bytes()

    def __repr__(self):
        return "ByteBuf(read_index=%d, write_index=%d, data=%s)" % (
            self.read_index, self.write_index, self.to_bytes().hex())


def _install(ty, code, order, suffix):
    fmt = struct.Struct(order + code)
    size = fmt.size

    def write(self, value):
        self.write_bytes(fmt.pack(value))

    def write_at(self, pos, value):
        self.set_bytes(pos, fmt.pack(value))

    def read(self):
        return fmt.unpack(self.read_bytes(size))[0]

    for name, fn in (("write_%s%s" % (ty, suffix), write),
                     ("write_%s%s_at" % (ty, suffix), write_at),
                     ("read_%s%s" % (ty, suffix), read)):
        fn.__name__ = name
        fn.__qualname__ = "ByteBuf." + name
        setattr(ByteBuf, name, fn)


for _ty, _code in _FORMATS.items():
    _install(_ty, _code, ">", "")
    _install(_ty, _code, "<", "_le")

__all__ = ["ByteBuf"]
