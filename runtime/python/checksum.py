"""Stand-in for the fin-proto Python runtime module `checksum` (see /verif/runtime/CONTRACT.md).

    create_checksum_service(name) -> service | None

The registry is EMPTY (every lookup returns None, which the emitted `if service :` guard expects) unless the
environment variable FP_CHECKSUM=sum is set; then every name resolves to a service whose `calc(buffer)` is the sum
of all bytes currently in the buffer (start of the buffer to the write position) modulo 128, as a plain int.
"""
import os


class ChecksumService:
    """Interface of a checksum service."""

    def algorithm(self):
        raise NotImplementedError

    def calc(self, buffer):
        raise NotImplementedError


class SumChecksumService(ChecksumService):
    def __init__(self, name):
        self._name = name

    def algorithm(self):
        return self._name

    def calc(self, buffer):
        return sum(buffer.to_bytes()) % 128   # modulo 128: fits every result type, signed ones included


def create_checksum_service(name):
    if not isinstance(name, str):
        raise TypeError("checksum algorithm name must be a string, got %r" % (name,))
    if os.environ.get("FP_CHECKSUM") == "sum":
        return SumChecksumService(name)
    return None


__all__ = ["ChecksumService", "create_checksum_service"]
