#!/usr/bin/env python3
"""Runner for the Python self-tests emitted by fin-protoc (interface: /verif/runtime/CONTRACT.md).

    python3 /verif/runtime/python/run.py <generated-output-dir> [--keep]

Copies the emitted *.py files and the stand-in runtime into a fresh directory under /var/tmp, "builds" (byte-compiles
every emitted file, then imports every emitted *_test.py - which imports the codec module - in a child process),
runs every emitted test with unittest, removes the directory (unless --keep) and prints ONE JSON object.

The emitted code is used unmodified.  A file that does not compile / import is a build error; its tests (listed
from the source text, since they cannot be loaded) are reported with status "error" and the compiler message.
Every *_test.py runs in its own child process, so one broken file does not hide the others.
"""
import ast
import json
import os
import re
import shutil
import subprocess
import sys
import tempfile

HERE = os.path.dirname(os.path.abspath(__file__))
RUNTIME_FILES = ("bytebuf.py", "codec.py", "checksum.py", "message_factory.py")
HARNESS = "_harness.py"
SCRATCH_ROOT = "/var/tmp"
FILE_TIMEOUT = 120  # seconds per emitted test file
MAX_DETAIL = 600
MAX_LOG = 4000


def clip(text, limit=MAX_DETAIL):
    text = (text or "").strip()
    return text if len(text) <= limit else text[:limit - 3] + "..."


def usage(msg=None):
    if msg:
        sys.stderr.write("run.py: %s\n" % msg)
    sys.stderr.write("usage: python3 %s <generated-output-dir> [--keep]\n" % os.path.abspath(__file__))
    sys.exit(2)


def syntax_check(path):
    """None when the file is valid Python, else the compiler's message."""
    try:
        with open(path, "rb") as fh:
            source = fh.read()
        import warnings
        with warnings.catch_warnings():
            warnings.simplefilter("ignore")
            compile(source, os.path.basename(path), "exec", dont_inherit=True)
        return None
    except SyntaxError as exc:
        line = (exc.text or "").rstrip("\n")
        return "%s:%s:%s: %s: %s\n    %s" % (os.path.basename(path), exc.lineno, exc.offset,
                                            type(exc).__name__, exc.msg, line.strip())
    except (ValueError, UnicodeDecodeError) as exc:  # NUL bytes, bad encoding
        return "%s: %s: %s" % (os.path.basename(path), type(exc).__name__, exc)


def list_tests_from_source(path, modname):
    """Test ids of a test file that cannot be loaded, read from its text (ast when it parses, else a regex)."""
    try:
        with open(path, encoding="utf-8", errors="replace") as fh:
            text = fh.read()
    except OSError:
        return []
    ids = []
    try:
        tree = ast.parse(text)
        for node in tree.body:
            if isinstance(node, ast.ClassDef):
                bases = [b.attr if isinstance(b, ast.Attribute) else getattr(b, "id", "") for b in node.bases]
                if "TestCase" in bases:
                    for item in node.body:
                        if isinstance(item, (ast.FunctionDef, ast.AsyncFunctionDef)) and item.name.startswith("test"):
                            ids.append("%s.%s.%s" % (modname, node.name, item.name))
    except (SyntaxError, ValueError):
        cls = None
        for line in text.splitlines():
            m = re.match(r"class\s+([^\s(:]+)\s*\(\s*unittest\.TestCase\s*\)", line)
            if m:
                cls = m.group(1)
                continue
            m = re.match(r"\s+def\s+(test[^\s(]*)\s*\(", line)
            if m and cls:
                ids.append("%s.%s.%s" % (modname, cls, m.group(1)))
    seen, out = set(), []
    for i in ids:
        if i not in seen:
            seen.add(i)
            out.append(i)
    return out


def run_test_file(work, modname, env):
    """Run one emitted test module in a child process; returns (records, note) where note explains a crash."""
    results = os.path.join(work, "results-%s.jsonl" % re.sub(r"[^A-Za-z0-9_]", "_", modname))
    cmd = [sys.executable, "-B", "-E", "-s", os.path.join(work, HARNESS),
           os.path.join(work, "gen"), os.path.join(work, "rt"), modname, results]
    note = ""
    try:
        proc = subprocess.run(cmd, cwd=os.path.join(work, "gen"), env=env, stdin=subprocess.DEVNULL,
                              stdout=subprocess.PIPE, stderr=subprocess.STDOUT, timeout=FILE_TIMEOUT)
        if proc.returncode != 0:
            note = "test process exited with status %d: %s" % (
                proc.returncode, proc.stdout.decode("utf-8", "replace")[-1500:])
    except subprocess.TimeoutExpired:
        note = "timeout: the test process did not finish within %d s" % FILE_TIMEOUT
    records = []
    if os.path.exists(results):
        with open(results, encoding="utf-8") as fh:
            for line in fh:
                line = line.strip()
                if line:
                    try:
                        records.append(json.loads(line))
                    except ValueError:
                        pass
    if not any(r.get("kind") == "done" for r in records) and not note:
        note = "test process ended without finishing"
    return records, note


def main(argv):
    args = [a for a in argv[1:] if a != "--keep"]
    keep = "--keep" in argv[1:]
    if len(args) != 1 or args[0].startswith("-"):
        usage()
    src = os.path.abspath(args[0])
    if not os.path.isdir(src):
        usage("not a directory: %s" % args[0])
    for name in RUNTIME_FILES + (HARNESS,):
        if not os.path.isfile(os.path.join(HERE, name)):
            usage("stand-in runtime file missing: %s" % os.path.join(HERE, name))

    work = tempfile.mkdtemp(prefix="fp-python-", dir=SCRATCH_ROOT)
    out = {"target": "python", "build": "ok", "build_log": "", "tests": []}
    try:
        gen = os.path.join(work, "gen")
        rt = os.path.join(work, "rt")
        os.mkdir(gen)
        os.mkdir(rt)
        for name in RUNTIME_FILES:
            shutil.copyfile(os.path.join(HERE, name), os.path.join(rt, name))
        shutil.copyfile(os.path.join(HERE, HARNESS), os.path.join(work, HARNESS))
        emitted = sorted(n for n in os.listdir(src) if n.endswith(".py") and os.path.isfile(os.path.join(src, n)))
        for name in emitted:
            shutil.copyfile(os.path.join(src, name), os.path.join(gen, name))

        log = []
        if not emitted:
            log.append("no emitted *.py file in %s" % src)

        # ---- build step 1: every emitted file must be valid Python --------------------------------------
        syntax = {}
        for name in emitted:
            msg = syntax_check(os.path.join(gen, name))
            if msg:
                syntax[name] = msg
                log.append(msg)

        # ---- build step 2 + run: import and run every test file, each in its own process -----------------
        env = dict(os.environ)
        for key in [k for k in env if k.startswith("PYTHON")]:
            env.pop(key)  # (the child also runs with -E -s -B); FP_CHECKSUM is passed through untouched
        test_files = [n for n in emitted if n.endswith("_test.py")]
        for name in test_files:
            modname = name[:-3]
            path = os.path.join(gen, name)
            records, note = run_test_file(work, modname, env)
            reported = []
            import_errors = [r for r in records if r.get("kind") == "import_error"]
            for r in records:
                if r.get("kind") == "test":
                    reported.append(r["name"])
                    out["tests"].append({"name": r["name"], "status": r["status"],
                                         "detail": clip(r.get("detail", ""))})
            if import_errors or note:
                # the file (or the codec module it imports) could not be built, or the process died: every test
                # of the file that produced no result is an error carrying the compiler / crash message
                detail = import_errors[0]["detail"] if import_errors else note
                for r in import_errors:
                    log.append("%s: %s" % (name, r.get("log") or r.get("detail", "")))
                # (a crash / timeout while RUNNING is not a build error: `note` alone does not touch the log)
                missing = [i for i in list_tests_from_source(path, modname) if i not in reported]
                if not missing and not reported:
                    missing = [modname]
                for i in missing:
                    out["tests"].append({"name": i, "status": "error", "detail": clip(detail)})

        # files with a syntax error that no test imported still make the build fail (already in the log)
        if log:
            out["build"] = "error"
            out["build_log"] = "\n".join(log)[-MAX_LOG:]
    finally:
        if keep:
            sys.stderr.write("run.py: kept %s\n" % work)
        else:
            shutil.rmtree(work, ignore_errors=True)

    # the scratch directory name is random: keep it out of the report
    text = json.dumps(out, indent=1).replace(work + "/gen/", "").replace(work, "<work>")
    sys.stdout.write(text + "\n")
    return 0


if __name__ == "__main__":
    sys.exit(main(sys.argv))
