options {
    LittleEndian = "true";
    StringPrefixLenType = "u8";
    ArrayPrefixLenType = "u32";
    FixedStringPadFromLeft = "true";
    FixedStringPadChar = '0';
    JavaPackage = "com.example.msg";
    GoPackage = "msg";
    GoModule = "example.com/msg";
}

packet Leg {
    u16 Px,
    char[4] Ccy,
}

root packet Quote {
    u32 Seq,
    string Venue,
    repeat u16 Levels,
    char[6] Sym,
    repeat Leg Legs,
}
