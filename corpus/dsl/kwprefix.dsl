options {
    LittleEndian = true;
    JavaPackage = "com.example.msg";
    GoPackage = "msg";
    GoModule = "example.com/msg";
}

MetaData Types {
    u16 repeatCount `identifiers that begin with a word of the DSL`,
    u32 rootCause `root...`,
    char[4] stringCode `string...`,
    u8 matchKind `match...`,
}

root packet Quote {
    u16 MsgType,
    repeatCount,
    rootCause,
    stringCode,
    matchKind,
    match matchKind as Body {
        1 : Header,
        2 : Block,
    },
    repeat u8 Flags,
}

packet Header {
    u32 Seq,
}

packet Block {
    string Text,
}
