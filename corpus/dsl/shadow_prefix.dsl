options {
    LittleEndian = true;
    JavaPackage = "com.example.msg";
    GoPackage = "msg";
    GoModule = "example.com/msg";
}

MetaData Common {
    u16 Checksum `a MetaData entry named like a field that writes its own type`,
    u8 BodyLen `likewise`,
    u16 Seq `s`,
}

packet ShortFrame {
    u8 Kind,
    Checksum,
    BodyLen,
}

packet Ping {
    Seq,
}

root packet Frame {
    u8 Kind,
    @lengthOf(Body)
    u32 BodyLen,
    match Kind as Body {
        1 : ShortFrame,
        2 : Ping,
    },
    Seq,
    @calculatedFrom("CRC32")
    u32 Checksum,
}
