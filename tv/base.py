"""Common machinery of the per-target extractors (translation validation, DESIGN §4.2).

An extractor turns the text a REAL generator printed into the codec IR (JSON, see
lean/FinProtoc/Load.lean).  It is strict: every non-blank line of every emitted file must
be consumed by some template; what is not consumed is *residue* and is reported (C07).
Every token that can vary is captured as an IR parameter — names of APIs, type arguments,
numeric literals, byte-order suffixes, comparison operators, casts, slice bounds — and
identifiers are kept as text (definition/use consistency is checked in Lean).
"""
import re

ID = r"[A-Za-z_][A-Za-z_0-9]*"


class Lines:
    """Cursor over the stripped, non-blank lines of a text."""

    def __init__(self, text, comment=None):
        # `comment`: the target's line-comment prefix.  A full-line comment that no template asks for is transparent:
        # it cannot change what the program does, so it is neither residue nor a reason to lose the place.
        self.comment = comment
        self.raw = text.split("\n")
        self.lines = []
        for no, l in enumerate(self.raw, 1):
            s = l.strip()
            if s:
                self.lines.append((no, s))
        self.i = 0
        self.residue = []

    def eof(self):
        return self.i >= len(self.lines)

    def peek(self, k=0):
        j = self.i + k
        return self.lines[j][1] if j < len(self.lines) else None

    def is_comment(self, j):
        return self.comment is not None and j < len(self.lines) and self.lines[j][1].startswith(self.comment)

    def _match_at(self, j, patterns):
        """-> (matches, position after) or None.  Comments carry no meaning: a comment line the templates do not ask
        for is stepped over, and a template line that is only a comment (and captures nothing) may be absent."""
        ms = []
        k, pos = 0, j
        while k < len(patterns):
            l = self.lines[pos][1] if pos < len(self.lines) else None
            p = patterns[k]
            m = re.fullmatch(p, l) if l is not None else None
            if m:
                ms.append(m)
                k += 1
                pos += 1
            elif l is not None and self.is_comment(pos):
                pos += 1
            elif self.comment is not None and p.startswith(self.comment) and "(" not in p.replace("\\(", ""):
                ms.append(None)
                k += 1
            else:
                return None
        return ms, pos

    def match(self, *patterns):
        """Match consecutive lines against regexes (fullmatch).  Returns the list of match
        objects and advances, or None (no advance)."""
        r = self._match_at(self.i, patterns)
        if r is None:
            return None
        if self.comment is not None and all(m is None for m in r[0]):
            return None          # nothing but absent optional comments: not a match
        self.i = r[1]
        return r[0]

    def lit(self, *lits):
        for k, p in enumerate(lits):
            if self.peek(k) != p:
                return False
        self.i += len(lits)
        return True

    def skip_residue(self, where):
        if self.i >= len(self.lines):
            self.residue.append({"line": len(self.raw), "text": "<end of file>", "where": where})
            return
        no, s = self.lines[self.i]
        if not self.is_comment(self.i):
            self.residue.append({"line": no, "text": s, "where": where})
        self.i += 1


PADLIT = {"'\x00'".encode().decode('unicode_escape'): 0, "'0'": 48, "' '": 32, "'\\x00'": 0, "'\\0'": 0, "'\\u0000'": 0}


def pad_arg(ch, left):
    """pad literal text + bool text -> IR pad, or None when the literal is not a valid char literal"""
    if ch not in PADLIT:
        return None
    return [PADLIT[ch], left in ("true", "True")]


MARKERS = ["-- unsupport", "// unknow", "is not supported", "//TODO unknow", "unkown type", "unknow type", "-- unsupported",
           "// unknown type", "Unsupported type", "-- error generating"]


def find_markers(text):
    out = []
    for no, l in enumerate(text.split("\n"), 1):
        for m in MARKERS:
            if m in l:
                out.append({"line": no, "text": l.strip(), "marker": m})
                break
    return out
