"""Common machinery of the per-target extractors (translation validation, DESIGN §4.2).

An extractor turns the text a REAL generator printed into the codec IR (JSON, see
lean/FinProtoc/Load.lean).  It is strict: every non-blank line of every emitted file must
be consumed by some template; what is not consumed is *residue* and is reported (C07).
Every token that can vary is captured as an IR parameter — names of APIs, type arguments,
numeric literals, byte-order suffixes, comparison operators, casts, slice bounds — and
identifiers are kept as text (definition/use consistency is checked in Lean).
"""
import re

ID = r"[A-Za-z_][A-Za-z_0-9]*"


class Lines:
    """Cursor over the stripped, non-blank lines of a text."""

    def __init__(self, text):
        self.raw = text.split("\n")
        self.lines = []
        for no, l in enumerate(self.raw, 1):
            s = l.strip()
            if s:
                self.lines.append((no, s))
        self.i = 0
        self.residue = []

    def eof(self):
        return self.i >= len(self.lines)

    def peek(self, k=0):
        j = self.i + k
        return self.lines[j][1] if j < len(self.lines) else None

    def match(self, *patterns):
        """Match consecutive lines against regexes (fullmatch).  Returns the list of match
        objects and advances, or None (no advance)."""
        ms = []
        for k, p in enumerate(patterns):
            l = self.peek(k)
            if l is None:
                return None
            m = re.fullmatch(p, l)
            if not m:
                return None
            ms.append(m)
        self.i += len(patterns)
        return ms

    def lit(self, *lits):
        for k, p in enumerate(lits):
            if self.peek(k) != p:
                return False
        self.i += len(lits)
        return True

    def skip_residue(self, where):
        if self.i >= len(self.lines):
            self.residue.append({"line": len(self.raw), "text": "<end of file>", "where": where})
            return
        no, s = self.lines[self.i]
        self.residue.append({"line": no, "text": s, "where": where})
        self.i += 1


PADLIT = {"'\x00'".encode().decode('unicode_escape'): 0, "'0'": 48, "' '": 32, "'\\x00'": 0, "'\\0'": 0, "'\\u0000'": 0}


def pad_arg(ch, left):
    """pad literal text + bool text -> IR pad, or None when the literal is not a valid char literal"""
    if ch not in PADLIT:
        return None
    return [PADLIT[ch], left in ("true", "True")]


MARKERS = ["-- unsupport", "// unknow", "is not supported", "//TODO unknow", "unkown type", "unknow type", "-- unsupported",
           "// unknown type", "Unsupported type", "-- error generating"]


def find_markers(text):
    out = []
    for no, l in enumerate(text.split("\n"), 1):
        for m in MARKERS:
            if m in l:
                out.append({"line": no, "text": l.strip(), "marker": m})
                break
    return out
