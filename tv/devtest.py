import sys, random, collections, json
import os; sys.path.insert(0,'/verif/lib'); sys.path.insert(0,'/verif/tv')
import dslgen, harness, leandrv
import importlib
TG=sys.argv[3] if len(sys.argv)>3 else "go"; TGL={"py":"python"}.get(TG,TG)
rng=random.Random(int(sys.argv[1]) if len(sys.argv)>1 else 1)
N=int(sys.argv[2]) if len(sys.argv)>2 else 100
texts=[dslgen.render(dslgen.gen_program(rng)) for _ in range(N)]
res=harness.run_ops([{"op":"gen","text":t,"order":[TGL],"fresh":True} for t in texts])
reqs=[];exs=[]
c=collections.Counter()
for t,r in zip(texts,res):
    files=r['runs'][0]['files']
    ex=importlib.import_module(TG if TG!="go" else "go").extract(files); exs.append(ex)
    for x in ex['residue']: c['residue:'+x['where'].split(' of ')[0]]+=1
    for x in ex['issues']: c['issue:'+x.split(':',1)[-1][:50]]+=1
    reqs.append({"op":"conform","text":t,"prog":{"structs":ex['structs'],"tables":ex['tables']}})
out=leandrv.run_ops(reqs)
shown=0
for t,ex,o in zip(texts,exs,out):
    if 'reasons' not in o: c['lean:'+json.dumps(o)[:100]]+=1; continue
    c['enc_ok' if o['enc'] else 'enc_bad']+=1; c['dec_ok' if o['dec'] else 'dec_bad']+=1
    if not o['consistent']: c['INCONSISTENT']+=1
    for r in o['reasons']:
        c['reason:%s/%s/%s'%(r['side'],r['kind'],r['attr'])]+=1
        if shown<6 and r['attr'] in ('shape','?','member','extra-step','missing-step'):
            shown+=1; print(t); print(r); 
for k,v in sorted(c.items()): print(v,k)
if ex['residue']: print(ex['residue'][:3])
