"""Extractor for the Wireshark dissector printed by internal/parser/lua_wsp_generator.go.

IR (see lean/FinProtoc/Lua.lean):
  LEN    = ["n", int] | ["v", name]
  SIMPLE = ["local", var, width, le] | ["localstr", var, skip, LEN] | ["add", field_id, LEN] | ["addtext", LEN]
         | ["adv", LEN] | ["call", fn, assign_bool]
  STMT   = SIMPLE | ["for", count_var, [SIMPLE...]] | ["if", key_var, [[KEY, fn, assign_bool]...]]
  display-only statements (pinfo.cols…, the subtree header) carry no meaning for C15 and are consumed silently.
"""
import re

from base import ID, Lines, find_markers

READ = {"uint": False, "le_uint": True, "int": False, "le_int": True, "uint64": False, "le_uint64": True,
        "int64": False, "le_int64": True, "float": False, "le_float": True}
LENX = r"(\d+|%s)" % ID


def lenx(t):
    return ["n", int(t)] if t.isdigit() else ["v", t]


def key_lit(text):
    text = text.strip()
    if re.fullmatch(r"\d+", text):
        return ["i", int(text)]
    if len(text) >= 2 and text[0] == '"' and text[-1] == '"':
        return ["s", text[1:-1]]
    return None


def simple(L, out, tree_names):
    """try to consume one simple statement; returns the IR item, "" for a display-only line, or None"""
    m = L.match(r"local (%s) = buf\(offset, (\d+)\):(%s)\(\)" % (ID, ID))
    if m:
        rd = m[0].group(3)
        if rd == "string":      # a fixed-string member read for a match key: tvbrange:string()
            return ["localstr", m[0].group(1), 0, ["n", int(m[0].group(2))]]
        if rd not in READ:
            out["issues"].append("unknown buffer read :%s()" % rd)
        return ["local", m[0].group(1), int(m[0].group(2)), READ.get(rd, False)]
    m = L.match(r"local (%s) = buf\(offset, %s\):string\(\)" % (ID, LENX))
    if m:
        return ["localstr", m[0].group(1), 0, lenx(m[0].group(2))]
    m = L.match(r"(%s):(add|le_add)\(fields\.(%s), buf\(offset, %s\)\)" % (ID, ID, LENX))
    if m:
        if m[0].group(1) not in tree_names:
            out["issues"].append("tree variable %s is not in scope" % m[0].group(1))
        return ["add", m[0].group(3), lenx(m[0].group(4))]
    m = L.match(r'(%s):add\("[^"]*"\.\. ?(%s), buf\(offset, %s\)\)' % (ID, ID, LENX))
    if m:
        if m[0].group(1) not in tree_names:
            out["issues"].append("tree variable %s is not in scope" % m[0].group(1))
        return ["addtext", lenx(m[0].group(3))]
    m = L.match(r"offset = offset \+ %s" % LENX)
    if m:
        return ["adv", lenx(m[0].group(1))]
    m = L.match(r"(offset = )?(dissect_%s)\(buf, pinfo, (%s), offset\)" % (ID, ID))
    if m:
        if m[0].group(3) not in tree_names:
            out["issues"].append("tree variable %s is not in scope" % m[0].group(3))
        return ["call", m[0].group(2), m[0].group(1) is not None]
    if L.match(r'pinfo\.cols\.info:(set|append)\(.*\)') or L.match(r'subtree:append_text\(.*\)'):
        return ""
    return None


def body(L, out, tree_names, end_pat):
    stmts = []
    while not L.eof():
        if L.match(end_pat):
            return stmts
        m = L.match(r"for i=1,(%s) do" % ID)
        if m:
            inner = []
            while not L.eof() and not L.match(r"end"):
                s = simple(L, out, tree_names)
                if s is None:
                    L.skip_residue("for body")
                elif s != "":
                    inner.append(s)
            stmts.append(["for", m[0].group(1), inner])
            continue
        m = L.match(r"if (%s) == (.+) then -- (%s)" % (ID, ID))
        if m:
            key = m[0].group(1)
            arms = []
            cur = m[0].group(2)
            while not L.eof():
                c = simple(L, out, tree_names)
                if c and c[0] == "call":
                    k = key_lit(cur)
                    if k is None:
                        out["issues"].append("match key %r is not a literal" % cur)
                    else:
                        arms.append([k, c[1], c[2]])
                    continue
                if c == "":
                    continue
                m2 = L.match(r"elseif (%s) == (.+) then -- (%s)" % (ID, ID))
                if m2:
                    if m2[0].group(1) != key:
                        out["issues"].append("if-chain compares %s and %s" % (key, m2[0].group(1)))
                    cur = m2[0].group(2)
                    continue
                if L.match(r"end"):
                    break
                L.skip_residue("if chain")
            stmts.append(["if", key, arms])
            continue
        s = simple(L, out, tree_names)
        if s is None:
            L.skip_residue("dissector body")
        elif s != "":
            stmts.append(s)
    out["issues"].append("function body not closed")
    return stmts


def extract(files):
    out = {"funcs": [], "main": [], "field_decls": [], "residue": [], "markers": [], "issues": [], "proto": None}
    if len(files) != 1:
        out["issues"].append("expected one .lua file, got %s" % sorted(files))
    for name in sorted(files):
        text = files[name]
        for mk in find_markers(text):
            mk["file"] = name
            out["markers"].append(mk)
        L = Lines(text, "--")
        L.match(r"-- Code generated by fin-protoc\. DO NOT EDIT\.")
        m = L.match(r'local (%s)_proto = Proto\("(.*)", "(.*) Protocol"\)' % ID)
        if m:
            out["proto"] = m[0].group(1)
        else:
            out["issues"].append("no Proto declaration")
        proto = out["proto"] or "?"
        if L.match(r"local fields = \{"):
            while not L.eof() and not L.match(r"\}"):
                m = L.match(r"(%s) = ProtoField\.(%s)\(\"([^\"]*)\", \"([^\"]*)\"(?:, base\.(%s))?\)," % (ID, ID, ID))
                if m:
                    out["field_decls"].append({"id": m[0].group(1), "kind": m[0].group(2), "filter": m[0].group(3)})
                    continue
                if L.match(r"-- Field from (%s)" % ID):
                    continue
                if L.match(r"-- Unsupported type: .*") or L.match(r"-- unsupported .*"):
                    continue   # reported by the marker scan
                L.skip_residue("fields table")
        if not L.match(r"for _, field in pairs\(fields\) do", r"%s_proto\.fields\[field\] = field" % proto, r"end"):
            out["issues"].append("field registration loop missing")
        while not L.eof():
            m = L.match(r"local function (dissect_%s)\(buf, pinfo, tree, offset\)" % ID)
            if m:
                hdr = L.match(r'local subtree = tree:add\(%s_proto, buf\(offset, 1\), "(.*)"\)' % proto)
                if not hdr:
                    out["issues"].append("%s has no subtree header" % m[0].group(1))
                st = body(L, out, {"tree", "subtree"} if hdr else {"tree"}, r"return offset")
                if not L.match(r"end"):
                    L.skip_residue("function end")
                out["funcs"].append({"name": m[0].group(1), "stmts": st})
                continue
            m = L.match(r"function %s_proto\.dissector\(buf, pinfo, tree\)" % proto)
            if m:
                L.match(r'pinfo\.cols\.protocol = "(.*)"')
                if not L.match(r"local offset = 0"):
                    out["issues"].append("main dissector does not start at offset 0")
                out["main"] = body(L, out, {"tree"}, r"end")
                continue
            if L.match(r'local tcp_table = DissectorTable\.get\("tcp\.port"\)', r"tcp_table:add\(\d+, %s_proto\)" % proto):
                continue
            L.skip_residue("top")
        for r in L.residue:
            r["file"] = name
        out["residue"] += L.residue
    # a `local function` is visible in its own body and below its definition only
    def calls(stmts):
        for s in stmts:
            if s[0] == "call":
                yield s[1]
            elif s[0] == "for":
                yield from calls(s[2])
            elif s[0] == "if":
                for arm in s[2]:
                    yield arm[1]
    seen = set()
    for fn in out["funcs"]:
        seen.add(fn["name"])
        for c in calls(fn["stmts"]):
            if c not in seen:
                out["issues"].append("%s: calls %s above its definition (undeclared helper at the call)" % (fn["name"], c))
    for c in calls(out["main"]):
        if c not in seen:
            out["issues"].append("main dissector: calls %s which is never defined (undeclared helper)" % c)
    declared = {d["id"] for d in out["field_decls"]}

    def used(stmts):
        for s in stmts:
            if s[0] == "add":
                yield s[1]
            elif s[0] == "for":
                yield from used(s[2])
    for fn in out["funcs"] + [{"name": "main", "stmts": out["main"]}]:
        for u in used(fn["stmts"]):
            if u not in declared:
                out["issues"].append("fields.%s is used but not declared in the fields table" % u)
    return out
