"""Extractor for the unit tests the generators emit next to every codec (C17).

`extract_tests(lang, files, ex) -> {"tests": [TEST...], "residue": [...], "issues": [...], "flags": {...}}`

  TEST  = {"name", "file", "packet": <emitted type name>, "sample": SEXPR, "fixups": [member id...], "issues": [text...]}
  SEXPR = ["int", n] | ["flt", bits32, bits64, exact32] | ["num", n, bits32, bits64, exact32] | ["str", [byte...]] | ["list", [SEXPR...]]
        | ["obj", type_name, [[member id, SEXPR]...]] | ["dflt"]
  (lean/FinProtoc/SelfTest.lean gives the meaning; `flags` are the per-target constants of `SelfTest.Flags`.)

Like the codec extractors this one is strict: every non-blank line of a test must be consumed by a template of
the target's test emitter or it is residue; every literal is typed against the member it is stored in with the
target language's own rule (a violation = the emitted test is not a valid program); variables are resolved the
way the language resolves them (redeclaration, use before definition, unused variables in Go, copies of
non-copyable values in C++, class paths in Java, `use` scopes in Rust).
"""
import re
import struct

from base import ID, Lines, find_markers

FLAGS = {
    "go": {"storeBack": True, "strictRange": True, "floatsAreDoubles": False, "dupIsError": True},
    "rust": {"storeBack": False, "strictRange": True, "floatsAreDoubles": False, "dupIsError": True},
    "java": {"storeBack": True, "strictRange": False, "floatsAreDoubles": False, "dupIsError": False},
    "python": {"storeBack": True, "strictRange": True, "floatsAreDoubles": True, "dupIsError": False},
    "cpp": {"storeBack": False, "strictRange": False, "floatsAreDoubles": False, "dupIsError": False},
}


# ------------------------------------------------------------------------------------------------ literals

def flt(x):
    x = float(x)
    b64 = struct.unpack(">Q", struct.pack(">d", x))[0]
    try:
        p32 = struct.pack(">f", x)
    except OverflowError:
        p32 = struct.pack(">f", float("inf"))
    b32 = struct.unpack(">I", p32)[0]
    exact = struct.unpack(">f", p32)[0] == x
    return ["flt", b32, b64, exact]


def sbytes(text):
    return ["str", list(text.encode("utf-8"))]


def unescape(s, issues, what):
    """the text between the quotes of a string literal -> the string it denotes (common escapes only)"""
    if "\\" not in s:
        return s
    out = []
    i = 0
    while i < len(s):
        c = s[i]
        if c == "\\" and i + 1 < len(s):
            n = s[i + 1]
            m = {"n": "\n", "t": "\t", "r": "\r", "\\": "\\", '"': '"', "'": "'", "0": "\0"}.get(n)
            if m is None:
                issues.append("%s: escape \\%s in a string literal" % (what, n))
                m = n
            out.append(m)
            i += 2
        else:
            out.append(c)
            i += 1
    return "".join(out)


class Obj:
    """an instance under construction"""

    def __init__(self, ty, kind="value"):
        self.ty = ty
        self.kind = kind      # value | ptr | uptr
        self.sets = []        # [(member, value)] ; value = SEXPR-ish with ("ref", Obj) leaves
        self.moved = False

    def snapshot(self):
        o = Obj(self.ty, self.kind)
        o.sets = list(self.sets)
        return o


def resolve(v, issues, stack=(), seen=None):
    """replace ("ref", Obj) leaves by obj expressions; a cycle is an issue; `seen` counts how often each instance is stored"""
    if v[0] == "ref":
        o = v[1]
        if seen is not None:
            seen[id(o)] = (o, seen.get(id(o), (o, 0))[1] + 1)
        if id(o) in stack:
            issues.append("the sample contains itself (an instance of %s is stored inside itself): encode never terminates" % o.ty)
            return ["dflt"]
        return ["obj", o.ty, [[m, resolve(x, issues, stack + (id(o),), seen)] for m, x in o.sets]]
    if v[0] == "list":
        return ["list", [resolve(x, issues, stack, seen) for x in v[1]]]
    return v


def resolve_shared(v, issues):
    """-> (tree, [type names of instances stored more than once])  (reference semantics: Go pointers, Java, Python)"""
    seen = {}
    tree = resolve(v, issues, (), seen)
    return tree, sorted({o.ty for o, n in seen.values() if n > 1})


def member_ty(structs, ty, member):
    for s in structs:
        if s["name"] == ty:
            for m in s["members"]:
                if m["id"] == member:
                    return m["ty"]
            return None
    return None


def has_struct(structs, ty):
    return any(s["name"] == ty for s in structs)


def split_args(s):
    """split at top-level commas (strings and brackets respected)"""
    out, depth, cur, q = [], 0, "", None
    i = 0
    while i < len(s):
        c = s[i]
        if q:
            cur += c
            if c == "\\" and i + 1 < len(s):
                cur += s[i + 1]
                i += 1
            elif c == q:
                q = None
        elif c in "\"'":
            q = c
            cur += c
        elif c in "([{<":
            depth += 1
            cur += c
        elif c in ")]}>":
            depth -= 1
            cur += c
        elif c == "," and depth == 0:
            out.append(cur.strip())
            cur = ""
        else:
            cur += c
        i += 1
    if cur.strip():
        out.append(cur.strip())
    return out


# ------------------------------------------------------------------------------------------------ Go

GO_INT = {"uint8": (0, 2 ** 8), "uint16": (0, 2 ** 16), "uint32": (0, 2 ** 32), "uint64": (0, 2 ** 64),
          "int8": (-2 ** 7, 2 ** 7), "int16": (-2 ** 15, 2 ** 15), "int32": (-2 ** 31, 2 ** 31), "int64": (-2 ** 63, 2 ** 63)}
GO_FLT = ("float32", "float64")


def go_value(text, mt, env, I, what, used):
    """Go expression text at a member of declared type `mt`"""
    text = text.strip()
    m = re.fullmatch(r"-?\d+", text)
    if m:
        if mt in GO_INT:
            return ["int", int(text)]
        if mt in GO_FLT:
            return flt(text)
        I.append("%s: integer constant %s used as %s" % (what, text, mt))
        return ["int", int(text)]
    if re.fullmatch(r"-?\d+\.\d*(e[-+]?\d+)?", text):
        if mt not in GO_FLT:
            I.append("%s: constant %s truncated to %s" % (what, text, mt))
        return flt(text)
    m = re.fullmatch(r'"((?:[^"\\]|\\.)*)"', text)
    if m:
        if mt != "string":
            I.append("%s: string literal used as %s" % (what, mt))
        return sbytes(unescape(m.group(1), I, what))
    m = re.fullmatch(r"'(.)'", text)
    if m:
        return ["int", ord(m.group(1))]
    m = re.fullmatch(r"\[\](\*?)((?:msg\.)?)(%s)\{(.*)\}" % ID, text)
    if m:
        star, q, et, inner = m.groups()
        lit_ty = "[]" + star + et
        if mt != lit_ty:
            I.append("%s: %s literal assigned to a member of type %s" % (what, "[]" + star + q + et, mt))
        if q and not star:
            elem_mt = et
        elif star:
            elem_mt = "*" + et
        else:
            elem_mt = et
        return ["list", [go_value(x, elem_mt, env, I, what, used) for x in split_args(inner)]]
    if re.fullmatch(ID, text):
        if text not in env:
            I.append("%s: undefined: %s" % (what, text))
            return ["dflt"]
        used.add(text)
        o = env[text]
        if mt is not None and mt != "codec.BinaryCodec" and mt != "*" + o.ty:
            I.append("%s: *msg.%s used as %s" % (what, o.ty, mt))
        return ("ref", o)
    I.append("%s: unrecognised expression %r" % (what, text))
    return ["dflt"]


def go_tests(files, ex, out):
    structs = ex["structs"]
    for fname in sorted(ex.get("tests") or {}):
        text = ex["tests"][fname]
        L = Lines(text, "//")
        L.match(r"// Code generated by fin-protoc\. DO NOT EDIT\.")
        m = L.match(r"package (%s)?_test" % ID)
        if m:
            if not m[0].group(1):
                out["issues"].append("%s: package clause without a name" % fname)
            mi = L.match(r"import \(", r'"bytes"', r'"testing"', r'"github\.com/stretchr/testify/assert"', r'msg "(.*)"\)')
            if not mi:
                out["issues"].append("%s: import block not recognised" % fname)
            elif not mi[4].group(1):
                out["issues"].append("%s: the package under test is imported from an empty path" % fname)
        while not L.eof():
            m = L.match(r"func Test(%s)Codec\(t \*testing\.T\) \{" % ID)
            if not m:
                L.skip_residue("go test file")
                continue
            T = {"name": "Test%sCodec" % m[0].group(1), "file": fname, "packet": None, "sample": ["dflt"], "fixups": [], "issues": []}
            I = T["issues"]
            env, used, order = {}, set(), []
            while True:
                mo = L.match(r"(%s) := &msg\.(%s)\{" % (ID, ID))
                if not mo:
                    break
                var, ty = mo[0].groups()
                if var in env:
                    I.append("no new variables on left side of := (%s declared twice)" % var)
                if not has_struct(structs, ty):
                    I.append("undefined: msg.%s" % ty)
                o = Obj(ty, "ptr")
                names = set()
                while not L.eof() and not L.match(r"\}"):
                    mf = L.match(r"(%s) ?: (.*)," % ID)
                    if not mf:
                        L.skip_residue("go composite literal")
                        continue
                    mem, val = mf[0].groups()
                    mt = member_ty(structs, ty, mem)
                    if mt is None:
                        I.append("unknown field %s in struct literal of type msg.%s" % (mem, ty))
                    if mem in names:
                        I.append("duplicate field name %s in struct literal" % mem)
                    names.add(mem)
                    o.sets.append((mem, go_value(val, mt, env, I, "%s.%s" % (ty, mem), used)))
                env[var] = o
                order.append(var)
            for v in order:
                if v != "original" and v not in used:
                    I.append("declared and not used: %s" % v)
            sk = L.match(r"var buf bytes\.Buffer", r"assert\.NoError\(t, original\.Encode\(&buf\)\)", r"var decoded msg\.(%s)" % ID,
                         r"assert\.NoError\(t, decoded\.Decode\(&buf\)\)", r"assert\.Equal\(t, original, &decoded\)", r"\}")
            if not sk:
                I.append("test body is not `encode; decode; assert.Equal(original, &decoded)`")
                while not L.eof() and not L.match(r"\}"):
                    L.skip_residue("go test body")
            if "original" in env:
                T["packet"] = env["original"].ty
                T["sample"], T["shared"] = resolve_shared(("ref", env["original"]), I)
                if sk and sk[2].group(1) != T["packet"]:
                    I.append("original is a %s, decoded a %s" % (T["packet"], sk[2].group(1)))
            else:
                I.append("no `original` instance is built")
            out["tests"].append(T)
        for r in L.residue:
            r["file"] = fname
        out["residue"] += L.residue


# ------------------------------------------------------------------------------------------------ Python

def py_value(text, env, I, what):
    text = text.strip()
    if text == "":
        I.append("%s: nothing on the right-hand side (SyntaxError)" % what)
        return ["dflt"]
    if re.fullmatch(r"-?\d+", text):
        f = flt(text)
        return ["num", int(text), f[1], f[2], f[3]]
    if re.fullmatch(r"-?\d+\.\d*(e[-+]?\d+)?", text):
        return flt(text)
    m = re.fullmatch(r'"((?:[^"\\]|\\.)*)"', text) or re.fullmatch(r"'((?:[^'\\]|\\.)*)'", text)
    if m:
        return sbytes(unescape(m.group(1), I, what))
    m = re.fullmatch(r"\[(.*)\]", text)
    if m:
        return ["list", [py_value(x, env, I, what) for x in split_args(m.group(1))]]
    if re.fullmatch(ID, text):
        if text not in env:
            I.append("%s: name %r is not defined" % (what, text))
            return ["dflt"]
        return ("ref", env[text])
    I.append("%s: unrecognised expression %r" % (what, text))
    return ["dflt"]


def py_tests(files, ex, out):
    structs = ex["structs"]
    for fname in sorted(ex.get("tests") or {}):
        text = ex["tests"][fname]
        L = Lines(text, "#")
        L.match(r"# Code generated by fin-protoc\. DO NOT EDIT\.")
        if not L.match(r"import unittest", r"from (%s) import \*" % ID):
            out["issues"].append("%s: import block not recognised" % fname)
        while not L.eof():
            if L.match(r"if __name__ == '__main__':", r"unittest\.main\(\)"):
                continue
            m = L.match(r"class Test(%s)\(unittest\.TestCase\):" % ID, r"def setUp\(self\):")
            if not m:
                L.skip_residue("python test file")
                continue
            T = {"name": "Test%s.test_encode_decode" % m[0].group(1), "file": fname, "packet": None, "sample": ["dflt"], "fixups": [], "issues": []}
            I = T["issues"]
            env = {}
            while not L.eof():
                mo = L.match(r"(self\.packet|%s) = (%s)\(\)" % (ID, ID))
                if mo:
                    var, ty = mo[0].groups()
                    if not has_struct(structs, ty):
                        I.append("name %r is not defined" % ty)
                    env[var] = Obj(ty, "ptr")
                    continue
                ma = L.match(r"(self\.packet|%s)\.(%s) =(.*)" % (ID, ID))
                if ma:
                    var, mem, val = ma[0].groups()
                    if var not in env:
                        I.append("name %r is not defined" % var)
                        continue
                    o = env[var]
                    if member_ty(structs, o.ty, mem) is None:
                        # Python creates the attribute silently: the codec never sees it
                        I.append("%s has no member %s: the assignment creates an attribute the codec ignores" % (o.ty, mem))
                    o.sets.append((mem, py_value(val, env, I, "%s.%s" % (o.ty, mem))))
                    continue
                break
            sk = L.match(r"def test_encode_decode\(self\):", r"buf = ByteBuf\(\)", r"self\.packet\.encode\(buf\)", r"decoded_packet = (%s)\(\)" % ID,
                         r"decoded_packet\.decode\(buf\)", r"self\.assertEqual\(decoded_packet, self\.packet\)")
            if not sk:
                I.append("test body is not `encode; decode; assertEqual(decoded, original)`")
                while not L.eof() and not re.fullmatch(r"class Test.*|if __name__.*", L.peek()):
                    L.skip_residue("python test body")
            if "self.packet" in env:
                T["packet"] = env["self.packet"].ty
                T["sample"], T["shared"] = resolve_shared(("ref", env["self.packet"]), I)
                if sk and sk[3].group(1) != T["packet"]:
                    I.append("original is a %s, decoded a %s" % (T["packet"], sk[3].group(1)))
            else:
                I.append("no self.packet instance is built")
            out["tests"].append(T)
        for r in L.residue:
            r["file"] = fname
        out["residue"] += L.residue


# ------------------------------------------------------------------------------------------------ C++

CPP_NUM = {"uint8_t", "uint16_t", "uint32_t", "uint64_t", "int8_t", "int16_t", "int32_t", "int64_t", "float", "double", "char"}
UPTR = "std::unique_ptr<codec::BinaryCodec>"


def cpp_noncopyable(structs, ty, seen=()):
    """a struct with a unique_ptr member (directly or in a member struct / vector of structs) has no copy constructor"""
    if ty in seen:
        return False
    for s in structs:
        if s["name"] == ty:
            for m in s["members"]:
                t = m["ty"] or ""
                if "std::unique_ptr" in t:
                    return True
                inner = re.fullmatch(r"std::vector<(.*)>", t)
                t2 = inner.group(1) if inner else t
                if has_struct(structs, t2) and cpp_noncopyable(structs, t2, seen + (ty,)):
                    return True
    return False


def cpp_value(text, mt, env, structs, I, what):
    text = text.strip()
    if text == "":
        I.append("%s: nothing on the right-hand side" % what)
        return ["dflt"]
    if re.fullmatch(r"-?\d+", text):
        if mt in ("float", "double"):
            return flt(text)
        if mt is not None and mt not in CPP_NUM:
            I.append("%s: integer literal assigned to %s" % (what, mt))
        return ["int", int(text)]
    if re.fullmatch(r"-?\d+\.\d*(e[-+]?\d+)?f?", text):
        return flt(text.rstrip("f"))
    m = re.fullmatch(r"'(.)'", text)
    if m:
        return ["int", ord(m.group(1))]
    m = re.fullmatch(r'"((?:[^"\\]|\\.)*)"', text)
    if m:
        if mt is not None and mt != "std::string":
            I.append("%s: string literal assigned to %s" % (what, mt))
        return sbytes(unescape(m.group(1), I, what))
    m = re.fullmatch(r"\{(.*)\}", text)
    if m:
        inner = re.fullmatch(r"std::vector<(.*)>", mt or "")
        if not inner:
            I.append("%s: braced list assigned to %s" % (what, mt))
        et = inner.group(1) if inner else None
        vals = []
        for x in split_args(m.group(1)):
            v = cpp_value(x, et, env, structs, I, what)
            if isinstance(v, tuple) and v[0] == "ref" and cpp_noncopyable(structs, v[1].ty):
                I.append("%s: an initializer list copies its elements, %s is not copyable (it holds a std::unique_ptr)" % (what, v[1].ty))
            vals.append(v)
        return ["list", vals]
    m = re.fullmatch(r"std::move\((%s)\)" % ID, text)
    if m:
        v = m.group(1)
        if v not in env:
            I.append("%s: use of undeclared identifier %s" % (what, v))
            return ["dflt"]
        o = env[v]
        if o.moved:
            I.append("%s: %s is used after it was moved from" % (what, v))
        if o.kind == "uptr":
            if mt != UPTR:
                I.append("%s: std::unique_ptr<%s> moved into %s" % (what, o.ty, mt))
            o.moved = True
            return ("ref", o)
        if mt == UPTR:
            I.append("%s: a %s value moved into %s" % (what, o.ty, mt))
        elif mt is not None and mt != o.ty:
            I.append("%s: %s moved into %s" % (what, o.ty, mt))
        return ("ref", o.snapshot())
    if re.fullmatch(ID, text):
        if text not in env:
            I.append("%s: use of undeclared identifier %s" % (what, text))
            return ["dflt"]
        o = env[text]
        if o.kind == "uptr":
            I.append("%s: copy of a std::unique_ptr (%s)" % (what, text))
        elif mt is not None and mt != o.ty:
            I.append("%s: %s assigned to %s" % (what, o.ty, mt))
        elif cpp_noncopyable(structs, o.ty):
            I.append("%s: copy of %s, which is not copyable (it holds a std::unique_ptr)" % (what, o.ty))
        return ("ref", o.snapshot())
    I.append("%s: unrecognised expression %r" % (what, text))
    return ["dflt"]


def cpp_tests(files, ex, out):
    structs = ex["structs"]
    for fname in sorted(ex.get("tests") or {}):
        text = ex["tests"][fname]
        L = Lines(text, "//")
        L.match(r"// Copyright \d{4} xinchentechnote")
        L.match(r"// Code generated by fin-protoc\. DO NOT EDIT\.")
        if not L.match(r'#include "include/(%s)\.hpp"' % ID, r"#include <gtest/gtest\.h>"):
            out["issues"].append("%s: include block not recognised" % fname)
        while not L.eof():
            m = L.match(r"TEST\((%s)Test, EncodeAndDeocde\) \{" % ID)
            if not m:
                L.skip_residue("c++ test file")
                continue
            T = {"name": "%sTest.EncodeAndDeocde" % m[0].group(1), "file": fname, "packet": None, "sample": ["dflt"], "fixups": [], "issues": []}
            I = T["issues"]
            env = {}
            while not L.eof():
                if L.peek() == "ByteBuf buf;":
                    break
                md = L.match(r"(%s) (%s);" % (ID, ID))
                if md:
                    ty, var = md[0].groups()
                    if var in env:
                        I.append("redefinition of '%s'" % var)
                    if not has_struct(structs, ty):
                        I.append("unknown type name '%s'" % ty)
                    env[var] = Obj(ty, "value")
                    continue
                md = L.match(r"auto (%s) = std::make_unique<(%s)>\(\);" % (ID, ID))
                if md:
                    var, ty = md[0].groups()
                    if var in env:
                        I.append("redefinition of '%s'" % var)
                    if not has_struct(structs, ty):
                        I.append("unknown type name '%s'" % ty)
                    env[var] = Obj(ty, "uptr")
                    continue
                ma = L.match(r"(%s)(\.|->)(%s) =(.*);" % (ID, ID))
                if ma:
                    var, op, mem, val = ma[0].groups()
                    if var not in env:
                        I.append("use of undeclared identifier '%s'" % var)
                        continue
                    o = env[var]
                    if (op == "->") != (o.kind == "uptr"):
                        I.append("member reference %s applied to %s '%s'" % (op, "a pointer" if o.kind == "uptr" else "a value", var))
                    mt = member_ty(structs, o.ty, mem)
                    if mt is None:
                        I.append("no member named '%s' in '%s'" % (mem, o.ty))
                    o.sets.append((mem, cpp_value(val, mt, env, structs, I, "%s.%s" % (o.ty, mem))))
                    continue
                break
            sk = L.match(r"ByteBuf buf;", r"original\.encode\(buf\);", r"(%s) decoded;" % ID, r"decoded\.decode\(buf\);")
            if not sk:
                I.append("test body is not `encode; decode; EXPECT_TRUE(original == decoded)`")
            else:
                while True:
                    mf = L.match(r"original\.(%s) = decoded\.(%s);" % (ID, ID))
                    if not mf:
                        break
                    if mf[0].group(1) != mf[0].group(2):
                        I.append("fix-up copies decoded.%s into original.%s" % (mf[0].group(2), mf[0].group(1)))
                    T["fixups"].append(mf[0].group(1))
                if not L.match(r"EXPECT_TRUE\(original == decoded\);", r"\}"):
                    I.append("test does not end with EXPECT_TRUE(original == decoded)")
            if not sk or I and I[-1].startswith("test does not end"):
                while not L.eof() and not re.fullmatch(r"TEST\(.*", L.peek()):
                    L.skip_residue("c++ test body")
            if "original" in env:
                T["packet"] = env["original"].ty
                T["sample"] = resolve(("ref", env["original"]), I)
                if env["original"].kind != "value":
                    I.append("original is not a value")
                if sk and sk[2].group(1) != T["packet"]:
                    I.append("original is a %s, decoded a %s" % (T["packet"], sk[2].group(1)))
                for fx in T["fixups"]:
                    if member_ty(structs, T["packet"], fx) is None:
                        I.append("no member named '%s' in '%s'" % (fx, T["packet"]))
            else:
                I.append("no `original` instance is built")
            out["tests"].append(T)
        for r in L.residue:
            r["file"] = fname
        out["residue"] += L.residue


# ------------------------------------------------------------------------------------------------ Java

JPRIM = {"byte": "Byte", "short": "Short", "int": "Integer", "long": "Long", "float": "Float", "double": "Double"}
JWIDEN = {"byte": ["byte", "short", "int", "long", "float", "double"], "short": ["short", "int", "long", "float", "double"],
          "int": ["int", "long", "float", "double"], "long": ["long", "float", "double"], "float": ["float", "double"], "double": ["double"]}


def java_classes(files):
    """{simple name: [qualified path...]} from the emitted main sources (brace-depth aware)"""
    paths = {}
    for name, text in files.items():
        if "/test/" in "/" + name or not name.endswith(".java"):
            continue
        stack = []   # (class name, depth at which its body opened)
        depth = 0
        for line in text.split("\n"):
            m = re.search(r"\b(?:public\s+)?(?:static\s+)?class\s+(%s)\b" % ID, line)
            if m and "{" in line:
                q = ".".join([c for c, _ in stack] + [m.group(1)])
                paths.setdefault(m.group(1), []).append(q)
                stack.append((m.group(1), depth + 1))
            depth += line.count("{") - line.count("}")
            while stack and depth < stack[-1][1]:
                stack.pop()
    return paths


def java_type_ok(ref, paths):
    """is the class reference `ref` (as written in a top-level test class of the same package) resolvable, and to what"""
    simple = ref.split(".")[-1]
    for q in paths.get(simple, []):
        if q == ref:
            return True
    return False


def java_lit(text, I, what):
    """-> (SEXPR, static type)"""
    text = text.strip()
    m = re.fullmatch(r"\((byte|short|int|long|float|double)\)\s*(-?\d+)", text)
    if m:
        if not -2 ** 31 <= int(m.group(2)) < 2 ** 31:       # a decimal literal without suffix is an int
            I.append("%s: integer number too large: %s" % (what, m.group(2)))
        return ["int", int(m.group(2))], m.group(1)
    m = re.fullmatch(r"\((byte|short|int|long|float|double)\)\s*(-?\d+)L", text)
    if m:
        if not -2 ** 63 <= int(m.group(2)) < 2 ** 63:
            I.append("%s: integer number too large: %sL" % (what, m.group(2)))
        return ["int", int(m.group(2))], m.group(1)
    m = re.fullmatch(r'\((long)\)\s*Long\.parseUnsignedLong\("(\d+)"\)', text)
    if m:
        if int(m.group(2)) >= 2 ** 64:
            I.append("%s: parseUnsignedLong(%s) throws NumberFormatException" % (what, m.group(2)))
        return ["int", int(m.group(2))], "long"
    m = re.fullmatch(r"(-?\d+)L", text)
    if m:
        return ["int", int(m.group(1))], "long"
    m = re.fullmatch(r"(-?\d+(?:\.\d*)?)F", text)
    if m:
        return flt(m.group(1)), "float"
    m = re.fullmatch(r"(-?\d+(?:\.\d*)?)D", text)
    if m:
        return flt(m.group(1)), "double"
    m = re.fullmatch(r"-?\d+\.\d*", text)
    if m:
        return flt(text), "double"
    if re.fullmatch(r"-?\d+", text):
        if not -2 ** 31 <= int(text) < 2 ** 31:
            I.append("%s: integer number too large: %s" % (what, text))
        return ["int", int(text)], "int"
    m = re.fullmatch(r"'(.)'", text)
    if m:
        return ["int", ord(m.group(1))], "char"
    m = re.fullmatch(r'"((?:[^"\\]|\\.)*)"', text)
    if m:
        return sbytes(unescape(m.group(1), I, what)), "String"
    return None, None


def java_value(text, mt, env, I, what):
    text = text.strip()
    if text == "":
        I.append("%s: setter called without an argument" % what)
        return ["dflt"]
    v, st = java_lit(text, I, what)
    if v is not None:
        if mt is None:
            return v
        if st == "String":
            if mt != "String":
                I.append("%s: String cannot be converted to %s" % (what, mt))
        elif st == "char":
            if mt not in ("char", "int", "long", "float", "double"):
                I.append("%s: char cannot be converted to %s" % (what, mt))
        elif mt not in JWIDEN.get(st, []):
            I.append("%s: incompatible types: possible lossy conversion from %s to %s" % (what, st, mt) if mt in JPRIM else
                     "%s: %s cannot be converted to %s" % (what, st, mt))
        if v[0] == "int" and mt in ("float", "double"):
            return flt(v[1])
        if v[0] == "flt" and mt in ("byte", "short", "int", "long"):
            return v
        return v
    m = re.fullmatch(r"Arrays\.asList\((.*)\)", text)
    if m:
        inner = re.fullmatch(r"List<(.*)>", mt or "")
        if not inner:
            I.append("%s: List cannot be converted to %s" % (what, mt))
        et = inner.group(1) if inner else None
        vals = []
        for x in split_args(m.group(1)):
            lv, st = java_lit(x, I, what)
            if lv is not None:
                boxed = JPRIM.get(st, st)
                if st == "char":
                    boxed = "Character"
                if et is not None and boxed != et:
                    I.append("%s: List<%s> cannot be converted to List<%s>" % (what, boxed, et))
                if lv[0] == "int" and et in ("Float", "Double"):
                    lv = flt(lv[1])
                vals.append(lv)
            else:
                vals.append(java_value(x, et, env, I, what))
        return ["list", vals]
    if re.fullmatch(ID, text):
        if text not in env:
            I.append("%s: cannot find symbol: variable %s" % (what, text))
            return ["dflt"]
        o = env[text]
        if mt is not None and mt != "BinaryCodec" and mt != o.ty.split(".")[-1]:
            I.append("%s: %s cannot be converted to %s" % (what, o.ty, mt))
        return ("ref", o)
    I.append("%s: unrecognised expression %r" % (what, text))
    return ["dflt"]


def java_setter_member(structs, ty, setter):
    for s in structs:
        if s["name"] == ty:
            for m in s["members"]:
                if m["id"][:1].upper() + m["id"][1:] == setter:
                    return m["id"], m["ty"]
    return None, None


def java_tests(files, ex, out):
    structs = ex["structs"]
    paths = java_classes(files)
    for fname in sorted(ex.get("tests") or {}):
        text = ex["tests"][fname]
        L = Lines(text, "//")
        m = L.match(r"package (.*);")
        if not m or not re.fullmatch(r"%s(\.%s)*" % (ID, ID), m[0].group(1)):
            out["issues"].append("%s: package declaration without a name" % fname)
        if not L.match(r"import io\.netty\.buffer\.ByteBuf;", r"import io\.netty\.buffer\.Unpooled;", r"import org\.junit\.Test;",
                       r"import java\.util\.Arrays;", r"import static org\.junit\.Assert\.\*;"):
            out["issues"].append("%s: import block not recognised" % fname)
        m = L.match(r"public class (%s)Test \{" % ID, r"@Test", r"public void testEncodeDecode\(\) \{")
        if not m:
            out["issues"].append("%s: test class header not recognised" % fname)
            while not L.eof():
                L.skip_residue("java test file")
            out["residue"] += [dict(r, file=fname) for r in L.residue]
            continue
        cls = m[0].group(1)
        if not fname.endswith("/%sTest.java" % cls) and fname != "%sTest.java" % cls:
            out["issues"].append("%s: public class %sTest is declared in another file" % (fname, cls))
        T = {"name": "%sTest.testEncodeDecode" % cls, "file": fname, "packet": None, "sample": ["dflt"], "fixups": [], "issues": []}
        I = T["issues"]
        env = {}
        while not L.eof():
            if L.peek() == "ByteBuf buffer = Unpooled.buffer();":
                break
            md = L.match(r"((?:%s\.)*%s) (%s) = new ((?:%s\.)*%s)\(\);" % (ID, ID, ID, ID, ID))
            if md:
                t1, var, t2 = md[0].groups()
                if t1 != t2:
                    I.append("%s %s = new %s()" % (t1, var, t2))
                if var in env:
                    I.append("variable %s is already defined in method testEncodeDecode()" % var)
                if not java_type_ok(t2, paths):
                    cands = paths.get(t2.split(".")[-1], [])
                    I.append("cannot find symbol: class %s%s" % (t2, (" (the emitted class is %s)" % cands[0]) if cands else ""))
                env[var] = Obj(t2, "ptr")
                continue
            ma = L.match(r"(%s)\.set(%s)\((.*)\);" % (ID, ID))
            if ma:
                var, setter, val = ma[0].groups()
                if var not in env:
                    I.append("cannot find symbol: variable %s" % var)
                    continue
                o = env[var]
                mem, mt = java_setter_member(structs, o.ty.split(".")[-1], setter)
                if mem is None:
                    I.append("cannot find symbol: method set%s on %s" % (setter, o.ty))
                    mem = setter
                o.sets.append((mem, java_value(val, mt, env, I, "%s.set%s" % (o.ty, setter))))
                continue
            break
        sk = L.match(r"ByteBuf buffer = Unpooled\.buffer\(\);", r"original\.encode\(buffer\);", r"(%s) decoded = new (%s)\(\);" % (ID, ID),
                     r"decoded\.decode\(buffer\);", r"assertEquals\(original, decoded\);", r"\}", r"\}")
        if not sk:
            I.append("test body is not `encode; decode; assertEquals(original, decoded)`")
            while not L.eof():
                L.skip_residue("java test body")
        if "original" in env:
            T["packet"] = env["original"].ty.split(".")[-1]
            tree, T["shared"] = resolve_shared(("ref", env["original"]), I)
            T["sample"] = java_strip(tree)
            if sk and (sk[2].group(1) != T["packet"] or sk[2].group(2) != T["packet"]):
                I.append("original is a %s, decoded a %s" % (T["packet"], sk[2].group(1)))
        else:
            I.append("no `original` instance is built")
        while not L.eof():
            L.skip_residue("java test file")
        out["tests"].append(T)
        for r in L.residue:
            r["file"] = fname
        out["residue"] += L.residue


def java_strip(v):
    """qualified class paths -> the emitted struct name"""
    if v[0] == "obj":
        return ["obj", v[1].split(".")[-1], [[m, java_strip(x)] for m, x in v[2]]]
    if v[0] == "list":
        return ["list", [java_strip(x) for x in v[1]]]
    return v


# ------------------------------------------------------------------------------------------------ Rust

RS_TOK = re.compile(r"""\s*(?:
    (?P<str>"(?:[^"\\]|\\.)*") |
    (?P<chr>'(?:[^'\\]|\\.)') |
    (?P<num>\d+(?:\.\d+)?) |
    (?P<id>[A-Za-z_][A-Za-z_0-9]*(?:::(?:<[A-Za-z_0-9]+>|[A-Za-z_][A-Za-z_0-9]*))*!?) |
    (?P<p>[-{}()\[\],;:.])
)""", re.X)
RS_INT = {"u8": (0, 2 ** 8), "u16": (0, 2 ** 16), "u32": (0, 2 ** 32), "u64": (0, 2 ** 64),
          "i8": (-2 ** 7, 2 ** 7), "i16": (-2 ** 15, 2 ** 15), "i32": (-2 ** 31, 2 ** 31), "i64": (-2 ** 63, 2 ** 63)}


class RsParser:
    def __init__(self, text, structs, enums, scope, I):
        self.toks = []
        pos = 0
        text = text.rstrip()
        while pos < len(text):
            m = RS_TOK.match(text, pos)
            if not m:
                I.append("unrecognised text in the sample expression: %r" % text[pos:pos + 30])
                break
            pos = m.end()
            kind = m.lastgroup
            self.toks.append((kind, m.group(kind)))
        self.i = 0
        self.structs, self.enums, self.scope, self.I = structs, enums, scope, I

    def peek(self, k=0):
        return self.toks[self.i + k] if self.i + k < len(self.toks) else (None, None)

    def take(self, val=None):
        t = self.peek()
        if val is not None and t[1] != val:
            self.I.append("sample expression: expected %r, found %r" % (val, t[1]))
            return t
        self.i += 1
        return t

    def type_in_scope(self, ty, what):
        if self.scope is not None and ty not in self.scope:
            self.I.append("%s: cannot find struct, variant or union type `%s` in this scope (no `use` brings it in)" % (what, ty))

    def suffix_calls(self):
        """.method() / .method::<T>() chains -> list of names"""
        names = []
        while self.peek()[1] == ".":
            self.take(".")
            names.append(self.take()[1])
            self.take("(")
            self.take(")")
        return names

    def expr(self, mt, what):
        k, v = self.peek()
        I = self.I
        if v == "-" or k == "num":
            neg = False
            if v == "-":
                self.take("-")
                neg = True
                k, v = self.peek()
            self.take()
            if "." in v:
                if mt not in ("f32", "f64", "__any"):
                    I.append("%s: mismatched types: expected `%s`, found floating-point number" % (what, mt))
                return flt(("-" if neg else "") + v)
            n = -int(v) if neg else int(v)
            if mt in ("f32", "f64"):
                I.append("%s: mismatched types: expected `%s`, found integer" % (what, mt))
                return flt(n)
            if mt is not None and mt != "__any" and mt not in RS_INT:
                I.append("%s: mismatched types: expected `%s`, found integer" % (what, mt))
            return ["int", n]
        if k == "str":
            self.take()
            calls = self.suffix_calls()
            s = unescape(v[1:-1], I, what)
            if calls == ["to_string"] or calls == ["to_owned"] or calls == ["into"]:
                if mt is not None and mt != "__any" and mt != "String":
                    I.append("%s: mismatched types: expected `%s`, found `String`" % (what, mt))
            else:
                I.append("%s: mismatched types: expected `%s`, found `&str`" % (what, mt))
            return sbytes(s)
        if k == "chr":
            self.take()
            c = unescape(v[1:-1], I, what)
            if mt is not None and mt != "__any" and mt != "char":
                I.append("%s: mismatched types: expected `%s`, found `char`" % (what, mt))
            return ["int", ord(c)] if mt != "__strchar" else sbytes(c)
        if k == "id":
            self.take()
            if v == "Default::default":
                self.take("(")
                self.take(")")
                return ["dflt"]
            if v == "vec!":
                self.take("[")
                inner = re.fullmatch(r"Vec<(.*)>", mt or "")
                items = []
                rep = None
                if self.peek()[1] != "]":
                    first_k = self.peek()[0]
                    first = self.expr("__any", what)
                    if self.peek()[1] == ";":
                        self.take(";")
                        rep = int(self.take()[1])
                        items = [first] * rep
                        items_kind = first_k
                    else:
                        items = [first]
                        while self.peek()[1] == ",":
                            self.take(",")
                            if self.peek()[1] == "]":
                                break
                            items.append(self.expr("__any", what))
                self.take("]")
                calls = self.suffix_calls()
                if calls:
                    # vec!['a'; n].into_iter().collect::<String>()
                    if calls == ["into_iter", "collect::<String>"] and all(x[0] == "int" for x in items):
                        if mt is not None and mt != "String":
                            I.append("%s: mismatched types: expected `%s`, found `String`" % (what, mt))
                        return sbytes("".join(chr(x[1]) for x in items))
                    I.append("%s: unrecognised method chain %s on vec!" % (what, calls))
                    return ["dflt"]
                if mt is not None and mt != "__any" and not inner:
                    I.append("%s: mismatched types: expected `%s`, found `Vec<_>`" % (what, mt))
                et = inner.group(1) if inner else None
                out_items = []
                for x in items:
                    out_items.append(self.retype(x, et, what))
                return ["list", out_items]
            # Type { ... } | Enum::Variant(expr) | Type::default()
            if self.peek()[1] == "{":
                ty = v
                self.type_in_scope(ty, what)
                if not has_struct(self.structs, ty):
                    I.append("%s: cannot find struct `%s`" % (what, ty))
                if mt is not None and mt != "__any" and mt != ty:
                    I.append("%s: mismatched types: expected `%s`, found `%s`" % (what, mt, ty))
                self.take("{")
                sets, names = [], set()
                while self.peek()[1] not in ("}", None):
                    mem = self.take()[1]
                    self.take(":")
                    fmt = member_ty(self.structs, ty, mem)
                    if has_struct(self.structs, ty) and fmt is None:
                        I.append("%s: struct `%s` has no field named `%s`" % (what, ty, mem))
                    if mem in names:
                        I.append("%s: field `%s` specified more than once" % (what, mem))
                    names.add(mem)
                    sets.append([mem, self.expr(fmt, "%s.%s" % (ty, mem))])
                    if self.peek()[1] == ",":
                        self.take(",")
                self.take("}")
                for s in self.structs:
                    if s["name"] == ty:
                        missing = [m["id"] for m in s["members"] if m["id"] not in names]
                        if missing:
                            I.append("%s: missing field%s %s in initializer of `%s`" % (what, "s" if len(missing) > 1 else "", ", ".join("`%s`" % x for x in missing), ty))
                return ["obj", ty, sets]
            if "::" in v and self.peek()[1] == "(":
                en, var = v.rsplit("::", 1)
                self.take("(")
                if var == "default" and self.peek()[1] == ")":
                    self.take(")")
                    I.append("%s: no function `default` for `%s` (it does not implement Default)" % (what, en))
                    return ["dflt"]
                variants = self.enums.get(en)
                if variants is None:
                    I.append("%s: failed to resolve: use of undeclared type `%s`" % (what, en))
                elif var not in variants:
                    I.append("%s: no variant named `%s` found for enum `%s`" % (what, var, en))
                if self.scope is not None and en not in self.scope:
                    I.append("%s: failed to resolve: use of undeclared type `%s` (not in scope)" % (what, en))
                if mt is not None and mt != "__any" and mt != en:
                    I.append("%s: mismatched types: expected `%s`, found `%s`" % (what, mt, en))
                inner = self.expr(variants.get(var) if variants else None, what)
                self.take(")")
                return inner
            I.append("%s: unrecognised expression starting with %r" % (what, v))
            return ["dflt"]
        I.append("%s: unrecognised expression starting with %r" % (what, v))
        self.i += 1
        return ["dflt"]

    def retype(self, x, et, what):
        """elements were parsed without an expected type: check them against the vector's element type"""
        I = self.I
        if et is None:
            return x
        if x[0] == "int":
            if et in ("f32", "f64"):
                return flt(x[1])
            if et == "char":
                return x
            if et not in RS_INT:
                I.append("%s: mismatched types: expected `%s`, found integer" % (what, et))
            return x
        if x[0] == "str" and et != "String":
            I.append("%s: mismatched types: expected `%s`, found `String`" % (what, et))
        if x[0] == "obj" and et != x[1]:
            I.append("%s: mismatched types: expected `%s`, found `%s`" % (what, et, x[1]))
        return x


def rust_tests(files, ex, out):
    structs = ex["structs"]
    enums = {}
    for e in ex.get("enums") or []:
        enums[e["name"]] = {v[0] if isinstance(v, (list, tuple)) else v: (v[1] if isinstance(v, (list, tuple)) else v) for v in e.get("variants", [])}
    # what each emitted module defines (for `use crate::m::*`)
    defines = {}
    for name, text in files.items():
        if name.endswith(".rs"):
            mod = name.rsplit("/", 1)[-1][:-3]
            defines[mod] = set(re.findall(r"\bpub (?:struct|enum) (%s)" % ID, text))
    for fname in sorted(ex.get("tests") or {}):
        mod = fname.rsplit("/", 1)[-1][:-3]
        # the file's own imports: the header only (the `use` lines of the test modules are printed
        # at column 0 as well, and they are private to their module)
        header = re.split(r"^(?:#\[|pub |impl |mod )", files.get(fname, ""), 1, flags=re.M)[0]
        file_uses = set(re.findall(r"^use crate::(%s)::\*;" % ID, header, re.M))
        for tm in ex["tests"][fname]:
            T = {"name": "%s::%s" % (mod, tm["mod"]), "file": fname, "packet": None, "sample": ["dflt"], "fixups": [], "issues": []}
            I = T["issues"]
            L = Lines(tm["body"], "//")
            if not L.match(r"use super::\*;", r"use bytes::BytesMut;"):
                I.append("test module prelude not recognised")
            scope = set(defines.get(mod, set()))
            for u in file_uses:           # `use super::*` re-exports what the parent module imported (glob imports are importable)
                scope |= defines.get(u, set())
            while True:
                mu = L.match(r"use crate::(%s)::\*;" % ID)
                if not mu:
                    break
                if mu[0].group(1) not in defines:
                    I.append("unresolved import `crate::%s`" % mu[0].group(1))
                scope |= defines.get(mu[0].group(1), set())
            mh = L.match(r"#\[test\]", r"fn (%s)\(\) \{" % ID)
            if not mh:
                I.append("test function header not recognised")
            else:
                T["name"] = "%s::%s::%s" % (mod, tm["mod"], mh[1].group(1))
            ml = L.match(r"let mut original = (%s) \{" % ID)
            if not ml:
                I.append("no `original` instance is built")
                while not L.eof():
                    L.skip_residue("rust test body")
            else:
                ty = ml[0].group(1)
                T["packet"] = ty
                # collect the literal up to the line `};`
                body = []
                while not L.eof() and L.peek() != "};":
                    body.append(L.peek())
                    L.i += 1
                L.match(r"\};")
                p = RsParser(ty + " { " + "\n".join(body) + " }", structs, enums, scope, I)
                T["sample"] = p.expr(ty, ty)
                if p.i != len(p.toks):
                    I.append("sample expression: trailing text %r" % (p.peek()[1],))
                sk = L.match(r"let mut buf = BytesMut::new\(\);", r"original\.encode\(&mut buf\);", r"let mut bytes = buf\.freeze\(\);",
                             r"let decoded = (%s)::decode\(&mut bytes\)\.unwrap\(\);" % ID)
                if not sk:
                    I.append("test body is not `encode; decode; assert_eq!(original, decoded)`")
                else:
                    if sk[3].group(1) != ty:
                        I.append("original is a %s, decoded a %s" % (ty, sk[3].group(1)))
                    while True:
                        mf = L.match(r"original\.(%s) = decoded\.(%s);" % (ID, ID))
                        if not mf:
                            break
                        if mf[0].group(1) != mf[0].group(2):
                            I.append("fix-up copies decoded.%s into original.%s" % (mf[0].group(2), mf[0].group(1)))
                        if member_ty(structs, ty, mf[0].group(1)) is None:
                            I.append("no field `%s` on type `%s`" % (mf[0].group(1), ty))
                        T["fixups"].append(mf[0].group(1))
                    if not L.match(r"assert_eq!\(original, decoded\);", r"\}"):
                        I.append("test does not end with assert_eq!(original, decoded)")
                while not L.eof():
                    L.skip_residue("rust test body")
            for r in L.residue:
                r["file"] = fname
            out["residue"] += L.residue
            out["tests"].append(T)


EXTRACT = {"go": go_tests, "python": py_tests, "cpp": cpp_tests, "java": java_tests, "rust": rust_tests}


def extract_tests(lang, files, ex):
    out = {"tests": [], "residue": [], "issues": [], "flags": FLAGS[lang], "markers": []}
    EXTRACT[lang](files, ex, out)
    texts = ex.get("tests") or {}
    for fname, t in texts.items():
        if isinstance(t, list):
            t = "\n".join(x["body"] for x in t)
        for mk in find_markers(t):
            mk["file"] = fname
            out["markers"].append(mk)
    return out
