"""Extractor for the Python codec files printed by internal/parser/py_generator.go.

Python is indentation sensitive while `Lines` matches stripped lines, so every template line carries the
indentation the generator is expected to print (class level 0, `def` 4, method statements 8, `for`/`if`
bodies 12, an `if` body inside a `for` 16).  A matched line with another indentation is recorded as an
issue, and so is a body statement that is not deeper than its `for`/`if` header.
"""
import re

from base import ID, Lines, pad_arg, find_markers

W = {"i8": 1, "u8": 1, "i16": 2, "u16": 2, "i32": 4, "u32": 4, "f32": 4, "i64": 8, "u64": 8, "f64": 8}
# type token of buffer.write_<T> / buffer.read_<T>: `typ.BasicType` or `typ.Le` (empty when the type is not in pyBasicTypeMap)
T = r"([a-z0-9]*?)(_le)?"
PADCH = r"(.*?)"
DEFAULTS = ("0", "''", "[]", "None")
MARK = r"-- unsupported type: (.*)"

C0, C1, B, BB, BBB = 0, 4, 8, 12, 16   # expected indentation levels


def indent_at(L, k):
    no, _ = L.lines[k]
    raw = L.raw[no - 1]
    return len(raw) - len(raw.lstrip())


def tm(L, issues, *pairs):
    """pairs: (expected_indent, regex[, k_header]) for consecutive lines.  Like Lines.match, plus indentation checks:
    exact expected indentation, no tabs, and (when k_header is given) strictly deeper than line k_header of the template."""
    start = L.i
    ms = L.match(*[p[1] for p in pairs])
    if ms is None:
        return None
    for k, p in enumerate(pairs):
        no, s = L.lines[start + k]
        raw = L.raw[no - 1]
        got = len(raw) - len(raw.lstrip())
        if raw[:got].strip(" "):
            issues.append("line %d `%s`: indentation contains non-space characters" % (no, s))
        if got != p[0]:
            issues.append("line %d `%s`: indented %d, expected %d" % (no, s, got, p[0]))
        if len(p) > 2 and got <= indent_at(L, start + p[2]):
            issues.append("line %d `%s`: not inside the body of `%s`" % (no, s, L.lines[start + p[2]][1]))
    return ms


ACC_LOG = []      # (what, accessor type token) of the struct being parsed: the accessor name is where Python states signedness


def width(t, issues, what):
    ACC_LOG.append((what, t))
    if t not in W:
        issues.append("%s: unknown type token %r" % (what, t))
        return 0
    return W[t]


def pad_or_skip(steps, issues, ch, left, ident, mk):
    pad = pad_arg(ch, left)
    if pad is None:
        issues.append("pad argument text [%s] is not a 1-char string literal (field %s)" % (ch, ident))
        steps.append(["skip", "fixed string with invalid pad literal"])
    else:
        steps.append(mk(pad))


def method_end(L):
    p = L.peek()
    return p is None or p.startswith("def ") or p.startswith("class ")


# ---------------------------------------------------------------- encode

def enc_elem(L, st, lst, hdr):
    """element statement of a repeated field; hdr = index (in L.lines) of the `for` line.
    Returns ELEM, the text of an `-- unsupported` marker, or None (nothing usable)."""
    I = st["issues"]
    start = L.i

    def chk(ident):
        if ident != lst:
            I.append("loop over self.%s encodes self.%s[i]" % (lst, ident))
        if indent_at(L, start) <= indent_at(L, hdr):
            I.append("line %d `%s`: not inside the body of `for i in range(size):`" % L.lines[start])

    m = tm(L, I, (BB, r"buffer\.write_%s\(self\.(%s)\[i\]\)" % (T, ID)))
    if m:
        t, lefl, ident = m[0].groups()
        chk(ident)
        return ["scalar", width(t, I, "write of %s[i]" % ident), lefl is not None]
    m = tm(L, I, (BB, r"write_fixed_string\(buffer, self\.(%s)\[i\], (\d+), 'utf-8', %s, (True|False)\)" % (ID, PADCH)))
    if m:
        ident, n, ch, left = m[0].groups()
        chk(ident)
        pad = pad_arg(ch, left)
        if pad is None:
            I.append("pad argument text [%s] is not a 1-char string literal (field %s)" % (ch, ident))
            return None
        return ["fixed", int(n), pad]
    m = tm(L, I, (BB, r"write_fixed_string\(buffer, self\.(%s)\[i\], (\d+), 'utf-8'\)" % ID))
    if m:
        chk(m[0].group(1))
        return ["fixed", int(m[0].group(2)), None]
    m = tm(L, I, (BB, r"write_string(_le)?\(buffer, self\.(%s)\[i\], '(.*?)'\)" % ID))
    if m:
        lefl, ident, t = m[0].groups()
        chk(ident)
        return ["string", width(t, I, "string prefix of %s[i]" % ident), lefl is not None, "u"]
    m = tm(L, I, (BB, r"self\.(%s)\[i\]\.encode\(buffer\)" % ID))
    if m:
        chk(m[0].group(1))
        return ["object", None]     # class resolved from the decode step of the same member
    m = tm(L, I, (BB, r"if self\.(%s)\[i\] is not None:" % ID), (BBB, r"self\.(%s)\[i\]\.encode\(buffer\)" % ID, 0))
    if m:
        chk(m[0].group(1))
        I.append("repeated match field %s: guarded dynamic element has no IR form" % m[0].group(1))
        return None
    m = tm(L, I, (BB, MARK))
    if m:
        chk(lst)
        return "-- unsupported type: " + m[0].group(1)
    # nothing recognisable: a deeper line is a body we do not understand, otherwise the loop body is empty
    if not method_end(L) and indent_at(L, L.i) > indent_at(L, hdr):
        L.skip_residue("encode of " + st["name"])
        return None
    I.append("`for i in range(size):` over self.%s has an empty body (invalid Python)" % lst)
    return None


def parse_encode(L, st):
    E, I = st["enc"], st["issues"]
    first = L.i
    while not method_end(L):
        if tm(L, I, (B, r"pass")):
            continue
        # length slot
        m = tm(L, I, (B, r"(%s) = buffer\.write_index" % ID), (B, r"buffer\.write_%s\(0\)" % T))
        if m:
            t, lefl = m[1].groups()
            E.append(["slot", width(t, I, "length placeholder"), lefl is not None, m[0].group(1)])
            continue
        # length target
        m = tm(L, I, (B, r"(%s) = buffer\.write_index" % ID), (B, r"self\.(%s)\.encode\(buffer\)" % ID), (B, r"(%s) = buffer\.write_index" % ID),
               (B, r"self\.(%s) = (%s) - (%s)" % (ID, ID, ID)), (B, r"buffer\.write_%s_at\((%s), self\.(%s)\)" % (T, ID, ID)))
        if m:
            sv, ident, ev = m[0].group(1), m[1].group(1), m[2].group(1)
            lenf, e2, s2 = m[3].groups()
            t, lefl, pv, lenf2 = m[4].groups()
            if lenf2 != lenf:
                I.append("length of %s stored in self.%s but self.%s is written" % (ident, lenf, lenf2))
            E.append(["mark", sv])
            E.append(["object", None, ident])     # object / dynamic decided from the decode step of the member
            E.append(["mark", ev])
            E.append(["patch", width(t, I, "length patch"), lefl is not None, pv, s2, e2, None])
            continue
        # checksum
        m = tm(L, I, (B, r"service = create_checksum_service\((.*)\)"), (B, r"if service :"), (BB, r"self\.(%s) = service\.calc\(buffer\)" % ID, 1))
        if m:
            ident = m[2].group(1)
            nxt = re.fullmatch(r"buffer\.write_%s\(self\.(%s)\)" % (T, ID), L.peek() or "")
            if nxt and nxt.group(3) == ident:
                tm(L, I, (B, r".*"))
                E.append(["checksum", m[0].group(1), width(nxt.group(1), I, "checksum write of %s" % ident), nxt.group(2) is not None, ident])
            else:
                I.append("checksum %s is computed but never written" % ident)
                E.append(["skip", "checksum %s computed, not written" % ident])
            continue
        # repeated field
        m = tm(L, I, (B, r"size = len\(self\.(%s)\)" % ID), (B, r"buffer\.write_%s\(size\)" % T), (B, r"for i in range\(size\):"))
        if m:
            ident = m[0].group(1)
            t, lefl = m[1].groups()
            el = enc_elem(L, st, ident, L.i - 1)
            if isinstance(el, str):
                E.append(["skip", "list %s: %s" % (ident, el)])
            elif el is None:
                E.append(["skip", "list %s without usable element statement" % ident])
            else:
                E.append(["list", width(t, I, "list prefix of %s" % ident), lefl is not None, el, ident])
            continue
        # plain fields
        m = tm(L, I, (B, r"buffer\.write_%s\(self\.(%s)\)" % (T, ID)))
        if m:
            t, lefl, ident = m[0].groups()
            E.append(["scalar", width(t, I, "write of %s" % ident), lefl is not None, ident])
            continue
        m = tm(L, I, (B, r"write_fixed_string\(buffer, self\.(%s), (\d+), 'utf-8', %s, (True|False)\)" % (ID, PADCH)))
        if m:
            ident, n, ch, left = m[0].groups()
            pad_or_skip(E, I, ch, left, ident, lambda pad: ["fixed", int(n), pad, ident])
            continue
        m = tm(L, I, (B, r"write_fixed_string\(buffer, self\.(%s), (\d+), 'utf-8'\)" % ID))
        if m:
            E.append(["fixed", int(m[0].group(2)), None, m[0].group(1)])
            continue
        m = tm(L, I, (B, r"write_string(_le)?\(buffer, self\.(%s), '(.*?)'\)" % ID))
        if m:
            lefl, ident, t = m[0].groups()
            E.append(["string", width(t, I, "string prefix of %s" % ident), lefl is not None, ident])
            continue
        m = tm(L, I, (B, r"if self\.(%s) is not None:" % ID), (BB, r"self\.(%s)\.encode\(buffer\)" % ID, 0))
        if m:
            if m[0].group(1) != m[1].group(1):
                I.append("guard on self.%s but self.%s is encoded" % (m[0].group(1), m[1].group(1)))
            E.append(["dynamic", m[1].group(1)])
            continue
        m = tm(L, I, (B, r"self\.(%s)\.encode\(buffer\)" % ID))
        if m:
            E.append(["object", None, m[0].group(1)])
            continue
        m = tm(L, I, (B, MARK))
        if m:
            E.append(["skip", "-- unsupported type: " + m[0].group(1)])
            continue
        L.skip_residue("encode of " + st["name"])
    if L.i == first:
        I.append("encode has an empty body (invalid Python)")


# ---------------------------------------------------------------- decode

def dec_elem(L, st, hdr):
    """element statement(s) of a repeated field -> (ELEM / marker text / None, list member or None)"""
    I = st["issues"]
    start = L.i

    def chk():
        if indent_at(L, start) <= indent_at(L, hdr):
            I.append("line %d `%s`: not inside the body of `for i in range(size):`" % L.lines[start])

    m = tm(L, I, (BB, r"self\.(%s)\.append\(buffer\.read_%s\(\)\)" % (ID, T)))
    if m:
        ident, t, lefl = m[0].groups()
        chk()
        return ["scalar", width(t, I, "read of %s element" % ident), lefl is not None], ident
    m = tm(L, I, (BB, r"self\.(%s)\.append\(read_fixed_string\(buffer,\s+(\d+), 'utf-8', %s, (True|False)\)\)" % (ID, PADCH)))
    if m:
        ident, n, ch, left = m[0].groups()
        chk()
        pad = pad_arg(ch, left)
        if pad is None:
            I.append("pad argument text [%s] is not a 1-char string literal (field %s)" % (ch, ident))
            return None, ident
        return ["fixed", int(n), pad], ident
    m = tm(L, I, (BB, r"self\.(%s)\.append\(read_fixed_string\(buffer,\s+(\d+), 'utf-8'\)\)" % ID))
    if m:
        chk()
        return ["fixed", int(m[0].group(2)), None], m[0].group(1)
    m = tm(L, I, (BB, r"self\.(%s)\.append\(read_string(_le)?\(buffer,\s*'(.*?)'\)\)" % ID))
    if m:
        ident, lefl, t = m[0].groups()
        chk()
        return ["string", width(t, I, "string prefix of %s element" % ident), lefl is not None, "u"], ident
    m = tm(L, I, (BB, r"(%s) = (%s)\(\)" % (ID, ID)), (BB, r"(%s)\.decode\(buffer\)" % ID), (BB, r"self\.(%s)\.append\((%s)\)" % (ID, ID)))
    if m:
        chk()
        v = m[0].group(1)
        if m[1].group(1) != v or m[2].group(2) != v:
            I.append("object element of %s: creates %s, decodes %s, appends %s" % (m[2].group(1), v, m[1].group(1), m[2].group(2)))
        return ["object", m[0].group(2)], m[2].group(1)
    m = tm(L, I, (BB, r"self\.(%s) = (%s)\.create\(self\.(%s)\)" % (ID, ID, ID)), (BB, r"self\.(%s)\.decode\(buffer\)" % ID))
    if m:
        chk()
        I.append("repeated match field %s: the loop overwrites the member instead of appending; no IR form" % m[0].group(1))
        return None, m[0].group(1)
    m = tm(L, I, (BB, MARK))
    if m:
        chk()
        return "-- unsupported type: " + m[0].group(1), None
    if not method_end(L) and indent_at(L, L.i) > indent_at(L, hdr):
        L.skip_residue("decode of " + st["name"])
        return None, None
    I.append("`for i in range(size):` in decode has an empty body (invalid Python)")
    return None, None


def parse_decode(L, st):
    D, I = st["dec"], st["issues"]
    first = L.i
    while not method_end(L):
        if tm(L, I, (B, r"pass")):
            continue
        m = tm(L, I, (B, r"size = read_len(_le)?\(buffer, '(.*?)'\)"), (B, r"for i in range\(size\):"))
        if m:
            lefl, t = m[0].groups()
            el, ident = dec_elem(L, st, L.i - 1)
            if isinstance(el, str):
                D.append(["skip", "list: " + el])
            elif el is None:
                D.append(["skip", "list %s without usable element statement" % (ident or "?")])
            else:
                D.append(["list", width(t, I, "list prefix of %s" % ident), lefl is not None, "u", el, ident])
            continue
        m = tm(L, I, (B, r"self\.(%s) = buffer\.read_%s\(\)" % (ID, T)))
        if m:
            ident, t, lefl = m[0].groups()
            D.append(["scalar", width(t, I, "read of %s" % ident), lefl is not None, ident])
            continue
        m = tm(L, I, (B, r"self\.(%s) = read_fixed_string\(buffer,\s+(\d+), 'utf-8', %s, (True|False)\)" % (ID, PADCH)))
        if m:
            ident, n, ch, left = m[0].groups()
            pad_or_skip(D, I, ch, left, ident, lambda pad: ["fixed", int(n), pad, ident])
            continue
        m = tm(L, I, (B, r"self\.(%s) = read_fixed_string\(buffer,\s+(\d+), 'utf-8'\)" % ID))
        if m:
            D.append(["fixed", int(m[0].group(2)), None, m[0].group(1)])
            continue
        m = tm(L, I, (B, r"self\.(%s) = read_string(_le)?\(buffer,\s*'(.*?)'\)" % ID))
        if m:
            ident, lefl, t = m[0].groups()
            D.append(["string", width(t, I, "string prefix of %s" % ident), lefl is not None, "u", ident])
            continue
        m = tm(L, I, (B, r"self\.(%s) = (%s)\.create\(self\.(%s)\)" % (ID, ID, ID)), (B, r"self\.(%s)\.decode\(buffer\)" % ID))
        if m:
            ident, table, key = m[0].groups()
            if m[1].group(1) != ident:
                I.append("dispatch creates self.%s but decodes self.%s" % (ident, m[1].group(1)))
            D.append(["dispatch", key, table, ident])
            continue
        m = tm(L, I, (B, r"self\.(%s) = (%s)\(\)" % (ID, ID)), (B, r"self\.(%s)\.decode\(buffer\)" % ID))
        if m:
            ident, cls = m[0].groups()
            if m[1].group(1) != ident:
                I.append("object decode creates self.%s but decodes self.%s" % (ident, m[1].group(1)))
            D.append(["object", cls, ident])
            continue
        m = tm(L, I, (B, MARK))
        if m:
            D.append(["skip", "-- unsupported type: " + m[0].group(1)])
            continue
        L.skip_residue("decode of " + st["name"])
    if L.i == first:
        I.append("decode has an empty body (invalid Python)")


# ---------------------------------------------------------------- class

def parse_eq(L, st):
    I = st["issues"]
    if not tm(L, I, (B, r"if not isinstance\(other, self\.__class__\):"), (BB, r"return False", 0)):
        I.append("__eq__ without the isinstance guard")
    if tm(L, I, (B, r"return True")):
        if st["members"]:
            I.append("__eq__ compares nothing but the class has members")
        return
    if not tm(L, I, (B, r"return all\(\[")):
        I.append("__eq__ has no return")
        return
    names, commas = [], []
    while True:
        m = tm(L, I, (BB, r"self\.(%s) == other\.(%s)(,?)" % (ID, ID)))
        if not m:
            break
        if m[0].group(1) != m[0].group(2):
            I.append("__eq__ compares self.%s with other.%s" % (m[0].group(1), m[0].group(2)))
        names.append(m[0].group(1))
        commas.append(m[0].group(3))
    if commas and (any(c != "," for c in commas[:-1]) or commas[-1] != ""):
        I.append("__eq__ comparison list has misplaced commas")
    want = [x["id"] for x in st["members"]]
    if names != want:
        I.append("__eq__ compares %s but members are %s" % (names, want))
    if not tm(L, I, (B, r"\]\)")):
        I.append("__eq__ comparison list is not closed")


def resolve_calls(st):
    """Python is untyped: the class an `x.encode(buffer)` call reaches is the one the decoder instantiates for the same member."""
    by_member = {}
    for d in st["dec"]:
        if d[0] != "skip":
            by_member.setdefault(d[-1], d)
    for e in st["enc"]:
        if e[0] == "object" and e[1] is None:
            d = by_member.get(e[2])
            if d and d[0] == "dispatch":
                e[:] = ["dynamic", e[2]]
            elif d and d[0] == "object":
                e[1] = d[1]
            else:
                e[1] = "?"
        elif e[0] == "list" and e[3][0] == "object" and e[3][1] is None:
            d = by_member.get(e[4])
            e[3][1] = d[4][1] if d and d[0] == "list" and d[4][0] == "object" else "?"


def key_lit(text, issues):
    text = text.strip()
    if re.fullmatch(r"\d+", text):
        if len(text) > 1 and text[0] == "0" and text.strip("0"):
            issues.append("factory key %s is not a valid Python 3 integer literal (leading zero)" % text)
        return ["i", int(text)]
    if len(text) >= 2 and text[0] == '"' and text[-1] == '"':
        return ["s", text[1:-1]]
    return None


def extract_file(name, text, out):
    L = Lines(text, "#")
    G = out["issues"]
    for h in (r"# Code generated by fin-protoc\. DO NOT EDIT\.", r"from bytebuf import ByteBuf", r"from checksum import create_checksum_service",
              r"from message_factory import MessageFactory", r"from codec import \*"):
        if not tm(L, G, (C0, h)):
            G.append("%s: header line missing: %s" % (name, h))
    pending = []     # factory blocks waiting for their owner class
    defined = []     # class names defined so far (registration runs at import time)
    while not L.eof():
        # ---- message factory block
        m = tm(L, G, (C0, r"class (%s)MessageFactory\(MessageFactory\[(%s), BinaryCodec\]\): \.\.\." % (ID, ID)))
        if m:
            P, kty = m[0].groups()
            tab = {"name": None, "entries": [], "keyWidth": None, "errOnMiss": True, "kty": kty, "owner": P}
            if kty not in ("int", "str"):
                G.append("factory %sMessageFactory: key type %s" % (P, kty))
            m2 = tm(L, G, (C0, r"(%s) = (%s)\(\)" % (ID, ID)))
            if m2:
                tab["name"] = m2[0].group(1)
                if m2[0].group(2) != P + "MessageFactory":
                    G.append("factory instance %s is created from %s, not %sMessageFactory" % (m2[0].group(1), m2[0].group(2), P))
            else:
                G.append("factory class %sMessageFactory is never instantiated" % P)
                tab["name"] = "?"
            while True:
                m3 = tm(L, G, (C0, r"(%s)\.register\((.*), (%s)\)" % (ID, ID)))
                if not m3:
                    break
                inst, key, target = m3[0].groups()
                if inst != tab["name"]:
                    G.append("registration into %s inside the block of %s" % (inst, tab["name"]))
                    continue
                k = key_lit(key, G)
                if k is None:
                    G.append("registration key %r is not a literal" % key)
                    continue
                if target not in defined:
                    G.append("%s.register(%s, %s): class %s is not defined at this point" % (inst, key, target, target))
                tab["entries"].append([k, target])
            if any(t["name"] == tab["name"] for t in out["tables"] + pending):
                G.append("duplicate factory name %s" % tab["name"])
            pending.append(tab)
            continue
        # ---- class
        m = tm(L, G, (C0, r"class (%s)\(BinaryCodec\):" % ID))
        if m:
            st = {"name": m[0].group(1), "members": [], "enc": [], "dec": [], "issues": []}
            I = st["issues"]
            if st["name"] in defined:
                I.append("class defined twice")
            defined.append(st["name"])
            out["structs"].append(st)
            if tm(L, I, (C1, r"def __init__\(self\):")):
                first = L.i
                while True:
                    if tm(L, I, (B, r"pass")):
                        continue
                    mm = tm(L, I, (B, r"self\.(%s) = (.+)" % ID))
                    if not mm:
                        break
                    if mm[0].group(2) not in DEFAULTS:
                        I.append("member %s has unexpected default %s" % mm[0].groups())
                    if any(x["id"] == mm[0].group(1) for x in st["members"]):
                        I.append("member %s initialised twice" % mm[0].group(1))
                    st["members"].append({"id": mm[0].group(1), "ty": mm[0].group(2)})
                if L.i == first:
                    I.append("__init__ has an empty body (invalid Python)")
            else:
                I.append("no __init__")
            del ACC_LOG[:]
            if tm(L, I, (C1, r"def encode\(self, buffer: ByteBuf\):")):
                parse_encode(L, st)
            else:
                I.append("no encode")
            if tm(L, I, (C1, r"def decode\(self, buffer: ByteBuf\):")):
                parse_decode(L, st)
                # accessor type tokens per member: {member: [tokens]} (writes, reads, elements; prefixes and patches apart)
                acc = {}
                for what, t in ACC_LOG:
                    mm2 = re.fullmatch(r"(?:write|read|checksum write) of (%s)(?:\[i\]| element)?" % ID, what)
                    if mm2:
                        acc.setdefault(mm2.group(1), [])
                        if t not in acc[mm2.group(1)]:
                            acc[mm2.group(1)].append(t)
                st["accessors"] = acc
                st["patch_accessors"] = sorted({t for what, t in ACC_LOG if what in ("length placeholder", "length patch")})
            else:
                I.append("no decode")
            if tm(L, I, (C1, r"def __eq__\(self, other\):")):
                parse_eq(L, st)
            else:
                I.append("no __eq__")
            resolve_calls(st)
            # the factory blocks printed just before the class belong to it
            for tab in pending:
                if tab.pop("owner") != st["name"]:
                    G.append("factory %s precedes class %s" % (tab["name"], st["name"]))
                kty = tab.pop("kty")
                if kty == "int":
                    # MessageFactory[int, …] is keyed by an unbounded Python int: the keys that can reach create() are
                    # those the decoder reads into the key member, so take that member's read width (8 if unknown).
                    kw = 8
                    for d in st["dec"]:
                        if d[0] == "dispatch" and d[2] == tab["name"]:
                            ws = [x[1] for x in st["dec"] if x[0] == "scalar" and x[3] == d[1]]
                            if ws:
                                kw = ws[0]
                                break
                    tab["keyWidth"] = kw
                # errOnMiss: assumption about the external runtime — MessageFactory.create(key) raises for an unregistered key
                out["tables"].append(tab)
            pending = []
            continue
        L.skip_residue("top")
    for tab in pending:
        G.append("factory %s is not followed by a class" % tab["name"])
        tab.pop("owner")
        if tab.pop("kty") == "int":
            tab["keyWidth"] = 8
        out["tables"].append(tab)
    for r in L.residue:
        r["file"] = name
    out["residue"] += L.residue


def extract(files):
    """files: {name: text} of one Python generator run -> IR program + diagnostics"""
    out = {"structs": [], "tables": [], "residue": [], "markers": [], "issues": [], "tests": {}}
    for name in sorted(files):
        text = files[name]
        for mk in find_markers(text):
            mk["file"] = name
            out["markers"].append(mk)
        if name.endswith("_test.py"):
            out["tests"][name] = text
            continue
        extract_file(name, text, out)
    names = [s["name"] for s in out["structs"]]
    for s in out["structs"]:
        for d in s["dec"]:
            cls = d[1] if d[0] == "object" else (d[4][1] if d[0] == "list" and d[4][0] == "object" else None)
            if cls is not None and cls not in names:
                s["issues"].append("decode instantiates undefined class %s" % cls)
            if d[0] == "dispatch" and not any(t["name"] == d[2] for t in out["tables"]):
                s["issues"].append("decode uses undefined factory %s" % d[2])
        for i in s.pop("issues"):
            out["issues"].append("%s: %s" % (s["name"], i))
    return out
