import FinProtoc.Props.C06
#print axioms FinProtoc.Props.checksum_value
#print axioms FinProtoc.Props.checksum_registered
#print axioms FinProtoc.Props.checksum_unregistered
#print axioms FinProtoc.Props.emitted_checksum
