import FinProtoc.Props.C08
#print axioms FinProtoc.Props.alias_scalar
#print axioms FinProtoc.Props.dyn_spellings
#print axioms FinProtoc.Props.zchar_is_nul_right_pad
#print axioms FinProtoc.Props.omitted_pad_is_configured
#print axioms FinProtoc.Props.padchar_spellings
#print axioms FinProtoc.Props.default_options
#print axioms FinProtoc.Props.default_option_each
#print axioms FinProtoc.Props.length_placement
#print axioms FinProtoc.Props.checksum_placement
#print axioms FinProtoc.Props.doc_irrelevant
#print axioms FinProtoc.Props.flatten_singletons
#print axioms FinProtoc.Props.keylist_expands
#print axioms FinProtoc.Props.pairsOf_append
#print axioms FinProtoc.Props.metadata_typed_field
