import FinProtoc.Props.C05
#print axioms FinProtoc.Props.enc_payload
#print axioms FinProtoc.Props.dispatch_hit
#print axioms FinProtoc.Props.dispatch_miss_spec
#print axioms FinProtoc.Props.emitted_dispatch_miss
