import FinProtoc.Props.C03
#print axioms FinProtoc.Props.enc_agree
#print axioms FinProtoc.Props.cross
#print axioms FinProtoc.Props.cross_roundtrip_full
