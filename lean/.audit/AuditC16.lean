import FinProtoc.Props.C16
#print axioms FinProtoc.Props.format_d
#print axioms FinProtoc.Props.format_f
#print axioms FinProtoc.Props.format_f_result
#print axioms FinProtoc.Props.format_f_error
#print axioms FinProtoc.Props.format_d_error
#print axioms FinProtoc.Props.export_ok
#print axioms FinProtoc.Props.export_error
#print axioms FinProtoc.Props.implicit_compile
#print axioms FinProtoc.Props.explicit_subcommand
#print axioms FinProtoc.Props.compile_files
#print axioms FinProtoc.Props.compile_files_disjoint
#print axioms FinProtoc.Props.compile_nowhere_else
#print axioms FinProtoc.Props.compile_refuses
#print axioms FinProtoc.Props.compile_accepts
#print axioms FinProtoc.Props.writeCode_order_free
