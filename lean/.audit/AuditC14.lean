import FinProtoc.Props.C14
#print axioms FinProtoc.Props.runAll_frame
#print axioms FinProtoc.Props.driver_independent
#print axioms FinProtoc.Props.no_model_writes
#print axioms FinProtoc.Props.no_global_writes
