import FinProtoc.Props.C15
#print axioms FinProtoc.Props.call_defined
#print axioms FinProtoc.Props.noKeys_of_flat
#print axioms FinProtoc.Props.flat_kind_run
#print axioms FinProtoc.Props.flat_field_run
#print axioms FinProtoc.Props.flat_kind_mono
#print axioms FinProtoc.Props.rangesFields_cons
#print axioms FinProtoc.Props.rangesField_flat
#print axioms FinProtoc.Props.ranges_mono
#print axioms FinProtoc.Props.flat_sound_partial
#print axioms FinProtoc.Props.env_of_conf
#print axioms FinProtoc.Props.dissect_sound
