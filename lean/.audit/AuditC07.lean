import FinProtoc.Props.C07
#print axioms FinProtoc.Props.plainOkE_noskip
#print axioms FinProtoc.Props.plainOkD_noskip
#print axioms FinProtoc.Props.confFieldsE_complete
#print axioms FinProtoc.Props.confFieldsD_complete
#print axioms FinProtoc.Props.complete_of_conf
