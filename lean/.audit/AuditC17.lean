import FinProtoc.Props.C17
#print axioms FinProtoc.Props.selftest_outcome
#print axioms FinProtoc.Props.selftest_passes
#print axioms FinProtoc.Props.adj_ignores_computed
