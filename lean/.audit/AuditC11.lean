import FinProtoc.Props.C11
#print axioms FinProtoc.Props.format_no_panic
#print axioms FinProtoc.Props.format_syntax_error_no_print
#print axioms FinProtoc.Props.visit_no_crash
#print axioms FinProtoc.Props.visit_no_crash'
#print axioms FinProtoc.Props.visit_text_no_crash
