import FinProtoc.Props.C02
#print axioms FinProtoc.Props.dec_sound
#print axioms FinProtoc.Props.dec_agree
