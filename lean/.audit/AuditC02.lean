import FinProtoc.Props.C02
#print axioms FinProtoc.Props.dec_sound
#print axioms FinProtoc.Props.spec_roundtrip_plain
#print axioms FinProtoc.Props.emitted_roundtrip_plain
#print axioms FinProtoc.Props.spec_roundtrip_computed
#print axioms FinProtoc.Props.emitted_roundtrip_computed
#print axioms FinProtoc.Props.spec_roundtrip_full
#print axioms FinProtoc.Props.emitted_roundtrip_full
#print axioms FinProtoc.Props.dec_agree
