import FinProtoc.Props.C01
#print axioms FinProtoc.Props.enc_sound
