import FinProtoc.Props.C10
#print axioms FinProtoc.Props.hiddenLeft_fresh
#print axioms FinProtoc.Props.hiddenRight_fresh
#print axioms FinProtoc.Props.hiddenLeft_skips_seen
#print axioms FinProtoc.Props.format_layout_canonical
