import FinProtoc.Props.C12
#print axioms FinProtoc.Props.dup_packet_diag
#print axioms FinProtoc.Props.second_root_diag
#print axioms FinProtoc.Props.fresh_packet_ok
#print axioms FinProtoc.Props.dup_meta_diag
#print axioms FinProtoc.Props.fresh_meta_ok
#print axioms FinProtoc.Props.unknown_option_diag
#print axioms FinProtoc.Props.bad_option_value_diag
#print axioms FinProtoc.Props.dup_option_diag
#print axioms FinProtoc.Props.good_option_ok
#print axioms FinProtoc.Props.padchar_nul_accepted
#print axioms FinProtoc.Props.options_table_tied
#print axioms FinProtoc.Props.option_names_tied
