import FinProtoc.Props.C04
#print axioms FinProtoc.Props.length_value
#print axioms FinProtoc.Props.length_ignores_caller
#print axioms FinProtoc.Props.target_bytes
#print axioms FinProtoc.Props.emitted_length
