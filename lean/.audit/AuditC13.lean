import FinProtoc.Props.C13
#print axioms FinProtoc.Props.lookup_filter_ne
#print axioms FinProtoc.Props.lookup_insert
#print axioms FinProtoc.Props.lookup_build
#print axioms FinProtoc.Props.find_nodup_mem
#print axioms FinProtoc.Props.lookup_build_mem
#print axioms FinProtoc.Props.lookup_build_not_mem
#print axioms FinProtoc.Props.lookup_build_perm
#print axioms FinProtoc.Props.map_sites_classified
#print axioms FinProtoc.Props.ambient_sites_classified
