import FinProtoc.Props.C09
#print axioms FinProtoc.Props.format_error_identity
#print axioms FinProtoc.Props.format_ok_is_parsed
#print axioms FinProtoc.Props.accepted_is_whole
#print axioms FinProtoc.Props.keylist_short
#print axioms FinProtoc.Props.parseToks_toks
#print axioms FinProtoc.Props.parsed_tree_is_the_text
#print axioms FinProtoc.Props.formatted_tree_is_the_text
#print axioms FinProtoc.Props.exFmtText_accepted
