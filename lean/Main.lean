import Lean.Data.Json
import FinProtoc
open Lean FinProtoc.Dsl

def tokJson (t : RawTok) : Json :=
  Json.arr #[t.kind.name, t.text, (t.line : Nat), (t.col : Nat), ((if t.hidden then 1 else 0 : Nat))]

def handle (req : Json) : Json :=
  let op := (req.getObjValAs? String "op").toOption.getD ""
  let text := (req.getObjValAs? String "text").toOption.getD ""
  match op with
  | "tokens" => Json.mkObj [("tokens", Json.arr ((lexRaw text).map tokJson).toArray)]
  | "tree" =>
    match parse text with
    | none => Json.mkObj [("errors", (1 : Nat))]
    | some (cst, rest) =>
      Json.mkObj [("errors", (0 : Nat)), ("tree", cst.dump), ("leftover", (rest.length : Nat))]
  | _ => Json.mkObj [("error", "unknown op")]

partial def loop (hin hout : IO.FS.Stream) : IO Unit := do
  let line ← hin.getLine
  if line.isEmpty then return ()
  let res := match Json.parse line with
    | .ok j => handle j
    | .error e => Json.mkObj [("error", e)]
  hout.putStrLn res.compress
  loop hin hout

def main : IO Unit := do
  let hin ← IO.getStdin
  let hout ← IO.getStdout
  loop hin hout
  hout.flush
