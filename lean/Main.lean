import Lean.Data.Json
import FinProtoc
open Lean FinProtoc FinProtoc.Dsl

def tokJson (t : RawTok) : Json :=
  Json.arr #[t.kind.name, t.text, (t.line : Nat), (t.col : Nat), ((if t.hidden then 1 else 0 : Nat))]

def reasonJ (r : Explain.Reason) : Json :=
  Json.mkObj [("side", r.side), ("packet", r.packet), ("field", r.field), ("kind", r.kind), ("attr", r.attr),
              ("expected", r.expected), ("got", r.got)]

def fuelFor (_vs : List Val) : Nat := 64

/-- the property evaluated directly on the real IR for one message -/
def tryMessage (S : Schema) (P : IR.Prog) (pkt : String) (vs : List Val) : List (String × Json) :=
  let regs : List (String × Registry) :=
    [("none", fun _ => none), ("sum", fun _ => some fun b => b.foldl (fun a x => a + x.toNat) 7),
     ("len", fun _ => some fun b => b.length * 2654435761 + 1),
     -- only the algorithms the DSL declares are registered, each with a function of its own: a look-up under another name
     -- (or under the name of another field's algorithm) writes something else
     ("byname", fun nm =>
        let declared := S.packets.flatMap fun p => p.fields.filterMap fun f => match f.kind with | .checksum _ a => some a | _ => none
        if declared.contains nm then some (fun b => b.foldl (fun a x => a + x.toNat) (nm.length * 131 + nm.hash.toNat % 1000 + 7)) else none)]
  regs.foldl (fun acc (rn, reg) =>
    if !acc.isEmpty then acc else
    let pre : Bytes := [0xEE, 0x01]
    match Wire.enc S reg pkt vs pre with
    | none => acc
    | some want =>
      let got := IR.encStruct P reg (fuelFor vs) pkt vs pre
      if got ≠ some want then
        [("fail", "enc"), ("registry", rn), ("packet", pkt), ("message", Load.valToJ (.struct vs)),
         ("expected", Load.bytesJ (want.drop 2)), ("got", match got with | some g => Load.bytesJ (g.drop 2) | none => Json.null)]
      else
        let sfx : Bytes := [0xAB, 0xCD]
        let bytes := want.drop 2
        let spec := Wire.dec S (fuelFor vs) pkt (bytes ++ sfx)
        let got := IR.decStruct P (fuelFor vs) pkt (bytes ++ sfx)
        let same := match spec, got with
          | some (a, ra), some (b, rb) => beqList a b && ra == rb
          | none, _ => true       -- the declared decoder does not read it: no claim
          | some _, none => false
        if !same then
          [("fail", "dec"), ("registry", rn), ("packet", pkt), ("message", Load.valToJ (.struct vs)),
           ("bytes", Load.bytesJ bytes),
           ("declared", match spec with | some (a, ra) => Json.arr #[Load.valToJ (.struct a), Load.bytesJ ra] | none => Json.null),
           ("emitted", match got with | some (a, ra) => Json.arr #[Load.valToJ (.struct a), Load.bytesJ ra] | none => Json.null)]
        else
          -- the specification's own round trip on this message (reported separately: a spec/value-domain matter)
          match spec with
          | some (vs', rest) =>
            if rest ≠ sfx || Wire.enc S reg pkt vs' pre ≠ some want then
              [("fail", "spec-roundtrip"), ("registry", rn), ("packet", pkt), ("message", Load.valToJ (.struct vs)),
               ("bytes", Load.bytesJ bytes), ("decoded", Load.valToJ (.struct vs')), ("rest", Load.bytesJ rest)]
            else acc
          | none =>
            [("fail", "spec-roundtrip"), ("registry", rn), ("packet", pkt), ("message", Load.valToJ (.struct vs)),
             ("bytes", Load.bytesJ bytes), ("decoded", Json.null)]
    ) []


def topMissing (cst : Cst) (tests : List SelfTest.Test) : List Json :=
  let tops : List String := cst.defs.filterMap fun d => match d with | .packet p => some p.name.text | _ => none
  (tops.filter fun n => !tests.any (fun t => t.pkt == n)).map Json.str

/-- association lists come as JSON arrays of two-element arrays -/
def pairsJ (j : Except String Json) : List (String × String) :=
  match j with
  | .ok (Json.arr a) => a.toList.filterMap fun x => match x with
    | Json.arr #[Json.str k, Json.str v] => some (k, v)
    | _ => none
  | _ => []

def worldJ (w : Cli.World) : Json :=
  Json.mkObj [("exit", w.exit), ("stdout", w.stdout),
              ("files", Json.arr ((w.files.map fun (k, v) => Json.arr #[Json.str k, Json.str v]).toArray))]

/-- the wrapper model (`Cli`) run on a concrete world: `format -d / -f` and `compile` -/
def handleCli (op : String) (req : Json) : Json :=
  let w : Cli.World := { files := pairsJ (req.getObjVal? "files") }
  match op with
  | "format_world" =>
    -- `fmt` is the library result for the one text the wrapper will see: null = syntax error
    let out : Option String := (req.getObjValAs? String "fmt").toOption
    worldJ (Cli.runFormat (fun _ => out) ((req.getObjValAs? String "dsl").toOption.getD "") ((req.getObjValAs? String "file").toOption.getD "") w)
  | "export_world" =>
    Json.mkObj [("result", Cli.exportFormat (fun _ => (req.getObjValAs? String "fmt").toOption) "")]
  | "args_world" =>
    let args := match req.getObjVal? "args" with | .ok (Json.arr a) => a.toList.filterMap (·.getStr?.toOption) | _ => []
    Json.mkObj [("args", Json.arr ((Cli.rewriteArgs args).map Json.str).toArray)]
  | _ =>
    let diags := match req.getObjVal? "diags" with | .ok (Json.arr a) => a.toList.filterMap (·.getStr?.toOption) | _ => []
    let targets : List Cli.Target := match req.getObjVal? "targets" with
      | .ok (Json.arr a) => a.toList.map fun t =>
        { lang := (t.getObjValAs? String "lang").toOption.getD "", path := (t.getObjValAs? String "path").toOption.getD "",
          gen := match t.getObjValAs? String "error" with
            | .ok e => .error e
            | .error _ => .ok (pairsJ (t.getObjVal? "files")) }
      | _ => []
    worldJ (Cli.runCompile diags targets w)

def handle (req : Json) : Json :=
  let op := (req.getObjValAs? String "op").toOption.getD ""
  let text := (req.getObjValAs? String "text").toOption.getD ""
  match op with
  | "tokens" => Json.mkObj [("tokens", Json.arr ((lexRaw text).map tokJson).toArray)]
  | "tree" =>
    match parseFull text with
    | none => Json.mkObj [("errors", (1 : Nat))]
    | some cst => Json.mkObj [("errors", (0 : Nat)), ("tree", cst.dump), ("leftover", (0 : Nat))]
  | "format" =>
    match Fmt.format text with
    | .ok t => Json.mkObj [("ok", true), ("out", t)]
    | .syntaxError => Json.mkObj [("ok", false), ("out", text)]
    | .panic _ => Json.mkObj [("panic", "nil")]
  | "fmtinfo" =>
    let i := Fmt.info text
    Json.mkObj [("leftover", i.leftover), ("lexErrors", i.lexErrors), ("objectDocs", i.objectDocs), ("mixedLists", i.mixedLists),
                ("multilineDocs", i.multilineDocs), ("lostNeverRead", i.lostNeverRead), ("lostOtherLine", i.lostOtherLine),
                ("comments", i.comments),
                ("result", match i.result with | .ok _ => "ok" | .syntaxError => "err" | .panic (.other s) => "panic:" ++ s),
                ("out", match i.result with | .ok t => Json.str t | _ => Json.null)]
  | "model" =>
    match parseFull text with
    | none => Json.mkObj [("synerr", (1 : Nat))]
    | some cst =>
      match Visit.run cst with
      | .ok st => Json.mkObj [("synerr", (0 : Nat)), ("model", Visit.dumpJ st)]
      | .error c => Json.mkObj [("panic", c.kind), ("site", match c with | .nilDeref s => s | .assert s => s | .index s => s | .stack => "stack")]
  | "disconf" | "dissearch" =>
    match parseFull text with
    | none => Json.mkObj [("error", "syntax")]
    | some cst =>
      match specOf cst with
      | none => Json.mkObj [("error", "no-spec")]
      | some S =>
        match req.getObjVal? "prog" >>= Lua.progJ with
        | .error e => Json.mkObj [("load_error", e)]
        | .ok D =>
          let table : List (String × String) := match req.getObjVal? "snake" with
            | .ok (Json.obj kvs) => kvs.toList.filterMap fun (k, v) => v.getStr?.toOption.map fun x => (k, x)
            | _ => []
          let snake := fun n => (table.lookup n).getD n
          if op = "disconf" then
            let rs := Lua.explainDis S snake D
            let c := Lua.confDis S snake D
            Json.mkObj [("ok", c), ("consistent", rs.isEmpty == c),
              ("reasons", Json.arr (rs.map fun r => Json.mkObj [("where", r.where_), ("cls", r.cls), ("expected", r.expected), ("got", r.got)]).toArray)]
          else
            let n := (req.getObjValAs? Nat "tries").toOption.getD 40
            let seed := (req.getObjValAs? Nat "seed").toOption.getD 0
            match S.packets.find? (·.root) with
            | none => Json.mkObj [("error", "no-root")]
            | some root =>
              let res := (List.range n).foldl (fun (acc : List (String × Json)) i =>
                if !acc.isEmpty then acc else
                match Sample.genPacket S root.name (seed * 1000 + i) with
                | none => acc
                | some vs =>
                  match Wire.enc S (fun _ => none) root.name vs [], Lua.ranges S snake root.name vs with
                  | some bs, some (rs, _) =>
                    let got := Lua.dissect D 64 bs
                    if got = some (rs, bs.length) then acc else
                      [("fail", "dissect"), ("message", Load.valToJ (.struct vs)), ("bytes", Load.bytesJ bs),
                       ("expected", Json.arr ((rs.map fun (f, o, l) => Json.arr #[f, o, l]).toArray.push (Json.arr #["<end>", bs.length]))),
                       ("got", match got with
                          | some (g, off) => Json.arr ((g.map fun (f, o, l) => Json.arr #[f, o, l]).toArray.push (Json.arr #["<end>", off]))
                          | none => Json.str "error (range out of bounds / undefined helper / nil key)")]
                  | _, _ => acc) []
              Json.mkObj (("tried", (n : Json)) :: res)
  | "selftest" =>
    match parseFull text with
    | none => Json.mkObj [("error", "syntax")]
    | some cst =>
      match specOf cst with
      | none => Json.mkObj [("error", "no-spec")]
      | some S =>
        match req.getObjVal? "prog" >>= Load.progJ with
        | .error e => Json.mkObj [("load_error", e)]
        | .ok P =>
          let fl := match req.getObjVal? "flags" with | .ok j => SelfTest.flagsJ j | .error _ => {}
          let tj := match req.getObjVal? "tests" with | .ok (Json.arr a) => a.toList | _ => []
          let loaded := tj.map fun j => (j, SelfTest.testJ P j)
          let tests := loaded.filterMap fun (_, r) => r.toOption
          let bad := loaded.filterMap fun (j, r) => match r with
            | .error e => some (Json.mkObj [("name", (j.getObjValAs? String "name").toOption.getD "?"), ("load_error", e)])
            | .ok _ => none
          Json.mkObj [("enc", Conforms.confEnc S P), ("dec", Conforms.confDec S P),
                      ("reasons", Json.arr ((Explain.explainEnc S P ++ Explain.explainDec S P).map reasonJ).toArray),
                      -- a test is required for every packet declared with `packet` (inline objects are members)
                      ("missing", Json.arr (topMissing cst tests).toArray),
                      ("unloadable", Json.arr bad.toArray),
                      ("results", Json.arr (tests.map (SelfTest.reportJ S P fl 64)).toArray)]
  | "schema" =>
    -- the declared types of every member, for the checks that compare them with the target-language member types
    match parseFull text with
    | none => Json.mkObj [("error", "syntax")]
    | some cst =>
      match specOf cst with
      | none => Json.mkObj [("error", "no-spec")]
      | some S =>
        Json.mkObj [("packets", Json.arr (S.packets.map fun p =>
          Json.mkObj [("name", (p.name : Json)), ("fields", Json.arr (p.fields.map fun f =>
            Json.mkObj [("name", (f.name : Json)), ("rep", (f.rep : Json)),
              ("kind", (match f.kind with
                | .scalar _ => "scalar" | .fixed _ _ => "fixed" | .dyn => "dyn" | .obj _ => "obj" | .matchOn _ _ => "match"
                | .lengthOf _ _ => "length" | .checksum _ _ => "checksum" : String)),
              ("ty", (match f.kind with
                | .scalar t | .lengthOf t _ | .checksum t _ => t.name | .obj q => q | _ => "" : String))]).toArray)]).toArray)]
  | "conform" | "search" =>
    match parseFull text with
    | none => Json.mkObj [("error", "syntax")]
    | some cst =>
      match specOf cst with
      | none => Json.mkObj [("error", "no-spec")]
      | some S =>
        match req.getObjVal? "prog" >>= Load.progJ with
        | .error e => Json.mkObj [("load_error", e)]
        | .ok P =>
          if op = "conform" then
            let re := Explain.explainEnc S P
            let rd := Explain.explainDec S P
            let ce := Conforms.confEnc S P
            let cd := Conforms.confDec S P
            Json.mkObj [("enc", ce), ("dec", cd), ("consistent", (re.isEmpty == ce) && (rd.isEmpty == cd)),
                        ("reasons", Json.arr ((re ++ rd).map reasonJ).toArray),
                        ("packets", (S.packets.length : Nat))]
          else
            let n := (req.getObjValAs? Nat "tries").toOption.getD 50
            let seed := (req.getObjValAs? Nat "seed").toOption.getD 0
            let only := (req.getObjValAs? String "packet").toOption
            let pk := S.packets.filter fun p => only.isNone || only = some p.name
            let res := pk.foldl (fun acc p =>
              if !acc.isEmpty then acc else
              (List.range n).foldl (fun acc i =>
                if !acc.isEmpty then acc else
                match Sample.genPacket S p.name (seed * 1000 + i) with
                | some vs => tryMessage S P p.name vs
                | none => acc) acc) []
            Json.mkObj (("tried", ((pk.length * n : Nat) : Json)) :: res)
  | "format_world" | "export_world" | "args_world" | "compile_world" => handleCli op req
  | _ => Json.mkObj [("error", "unknown op")]

partial def loop (hin hout : IO.FS.Stream) : IO Unit := do
  let line ← hin.getLine
  if line.isEmpty then return ()
  let res := match Json.parse line with
    | .ok j => handle j
    | .error e => Json.mkObj [("error", e)]
  hout.putStrLn res.compress
  loop hin hout

def main : IO Unit := do
  let hin ← IO.getStdin
  let hout ← IO.getStdout
  loop hin hout
  hout.flush
