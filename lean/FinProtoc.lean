-- Root of the executable part of the library (core Lean only; never imports `Props`).
import FinProtoc.Dsl.Token
import FinProtoc.Dsl.Lexer
import FinProtoc.Dsl.Cst
import FinProtoc.Dsl.Parser
import FinProtoc.Bytes
import FinProtoc.Spec
import FinProtoc.SpecOf
import FinProtoc.Typed
import FinProtoc.IR
import FinProtoc.Conforms
import FinProtoc.Explain
import FinProtoc.Load
import FinProtoc.Sample
import FinProtoc.Visit
import FinProtoc.VisitDump
import FinProtoc.Fmt
