-- Root of the executable part of the library (core Lean only; never imports `Props`).
import FinProtoc.Dsl.Token
import FinProtoc.Dsl.Lexer
import FinProtoc.Dsl.Cst
import FinProtoc.Dsl.Parser
