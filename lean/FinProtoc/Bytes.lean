/-!
# Bytes and fixed-width integers

`encInt le w n` is the `w`-byte encoding of `n mod 2^(8w)` in the given byte order;
`decInt le bs` its inverse.  Scalars are bit patterns of their width throughout (floats
included), so no float is ever compared.
-/
namespace FinProtoc

abbrev Bytes := List UInt8

/-- little-endian, `w` bytes -/
def encLE : Nat → Nat → Bytes
  | 0, _ => []
  | w + 1, n => UInt8.ofNat (n % 256) :: encLE w (n / 256)

def encBE (w n : Nat) : Bytes := (encLE w n).reverse

def encInt (le : Bool) (w n : Nat) : Bytes := if le then encLE w n else encBE w n

def decLE : Bytes → Nat
  | [] => 0
  | b :: bs => b.toNat + 256 * decLE bs

def decBE (bs : Bytes) : Nat := decLE bs.reverse

def decInt (le : Bool) (bs : Bytes) : Nat := if le then decLE bs else decBE bs

@[simp] theorem encLE_length (w n : Nat) : (encLE w n).length = w := by
  induction w generalizing n with
  | zero => rfl
  | succ w ih => simp [encLE, ih]

@[simp] theorem encBE_length (w n : Nat) : (encBE w n).length = w := by simp [encBE]

@[simp] theorem encInt_length (le : Bool) (w n : Nat) : (encInt le w n).length = w := by
  unfold encInt; split <;> simp

theorem decLE_encLE (w n : Nat) (h : n < 256 ^ w) : decLE (encLE w n) = n := by
  induction w generalizing n with
  | zero => simp at h; subst h; rfl
  | succ w ih =>
    have h2 : n / 256 < 256 ^ w := by
      rw [Nat.pow_succ] at h
      exact Nat.div_lt_of_lt_mul (by rw [Nat.mul_comm]; exact h)
    simp only [encLE, decLE, ih _ h2]
    have : (UInt8.ofNat (n % 256)).toNat = n % 256 := by
      simp [Nat.mod_mod_of_dvd]
    rw [this]; omega

theorem decInt_encInt (le : Bool) (w n : Nat) (h : n < 256 ^ w) : decInt le (encInt le w n) = n := by
  unfold decInt encInt
  cases le <;> simp [decBE, encBE, decLE_encLE _ _ h]

theorem encLE_mod (w n : Nat) : encLE w (n % 256 ^ w) = encLE w n := by
  induction w generalizing n with
  | zero => rfl
  | succ w ih =>
    simp only [encLE]
    have h1 : n % 256 ^ (w + 1) % 256 = n % 256 := by
      rw [Nat.pow_succ, Nat.mul_comm]; exact Nat.mod_mul_right_mod n 256 (256 ^ w)
    have h2 : n % 256 ^ (w + 1) / 256 = (n / 256) % 256 ^ w := by
      rw [Nat.pow_succ, Nat.mul_comm]; exact Nat.mod_mul_right_div_self n 256 (256 ^ w)
    rw [h1, h2, ih]

theorem encInt_mod (le : Bool) (w n : Nat) : encInt le w (n % 256 ^ w) = encInt le w n := by
  unfold encInt encBE; simp [encLE_mod]

end FinProtoc
