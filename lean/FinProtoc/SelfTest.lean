import FinProtoc.Conforms
import FinProtoc.Typed
/-!
# The emitted self-tests (C17)

Next to every codec the generators print a unit test of one shape (all five targets):

    original := <sample message built from literals>          -- `SExpr`
    buf := empty; original.encode(buf)
    decoded := fresh; decoded.decode(buf)
    original.f := decoded.f            for f in `fixups`       -- Rust, C++: length / checksum fields
    assert original == decoded

`Test` is that shape with the target's text parsed away (`/verif/tv/tests.py`); `Flags` are the
per-target facts that matter for the outcome and are constants of the statement templates the
extractors accept (e.g. the Go/Java/Python encoder templates store the computed length / checksum
back into the message, the Rust/C++ ones cannot: `&self` / `const`).

`run enc dec` is the meaning of such a test over an arbitrary encoder / decoder pair;
`emittedRun` instantiates it with the operational semantics of the emitted codec (`IR.encStruct`,
`IR.decStruct`), `specRun` with the declared wire format.  `Props/C17.lean` proves that a test the
specification passes is passed by every emitted program the validators accept.
-/
namespace FinProtoc.SelfTest
open FinProtoc FinProtoc.IR FinProtoc.Wire

/-- a sample expression as written in an emitted test, target syntax removed -/
inductive SExpr
  | int (n : Int)                                  -- integer literal (char literals: their code)
  | flt (bits32 bits64 : Nat) (exact32 : Bool)     -- float literal: its IEEE patterns; `exact32` = representable in 32 bits
  | num (n : Int) (bits32 bits64 : Nat) (exact32 : Bool)   -- integer literal in an untyped position (Python): an
                                                   -- integer at an integer member, a float at a float member
  | str (bs : Bytes)                               -- string literal (UTF-8)
  | list (es : List SExpr)
  | obj (ty : String) (sets : List (String × SExpr))   -- instance of emitted type `ty`, members assigned in this order
  | dflt                                           -- the target's zero value (`Default::default()`)
  deriving Repr, Inhabited

structure Flags where
  /-- the emitted encoders store computed length / checksum values into the message (Go, Java, Python) -/
  storeBack : Bool := false
  /-- an integer literal outside the member's type is a build / run error (Go, Rust, Python); Java / C++ wrap -/
  strictRange : Bool := true
  /-- floats are carried as doubles: a sample that is not representable in 32 bits comes back different (Python) -/
  floatsAreDoubles : Bool := false
  /-- naming a member twice in one constructor is a build error (Go / Rust struct literals) -/
  dupIsError : Bool := false
  deriving Repr, Inhabited

structure Test where
  name : String
  pkt : String
  sample : SExpr
  /-- positions (in the packet's member list) copied from `decoded` into `original` before the comparison -/
  fixups : List Nat := []
  deriving Repr, Inhabited

def Scalar.signed : Scalar → Bool
  | .i8 | .i16 | .i32 | .i64 => true
  | _ => false

def Scalar.isFloat : Scalar → Bool
  | .f32 | .f64 => true
  | _ => false

def fitsInt (t : Scalar) (n : Int) : Bool :=
  if Scalar.signed t then -(2 ^ (8 * t.width - 1) : Int) ≤ n && n < (2 ^ (8 * t.width - 1) : Int)
  else 0 ≤ n && n < (2 ^ (8 * t.width) : Int)

/-- the bit pattern an integer literal denotes in `w` bytes (two's complement) -/
def intPat (w : Nat) (n : Int) : Nat := (n % (256 ^ w : Int)).toNat

abbrev R := Except String

def scalarOfInt (fl : Flags) (t : Scalar) (n : Int) : R Val :=
  if Scalar.isFloat t then
    -- an integer literal in a float member: exact for the small literals the generators use; the extractor
    -- hands over float patterns for everything else
    throw s!"integer literal {n} for a float member (the extractor must supply its IEEE pattern)"
  else if fl.strictRange && !fitsInt t n then throw s!"literal {n} does not fit {t.name}"
  else pure (.int (intPat t.width n))

def scalarOfFlt (fl : Flags) (t : Scalar) (b32 b64 : Nat) (exact32 : Bool) : R Val :=
  match t with
  | .f32 => if fl.floatsAreDoubles && !exact32 then throw "float sample is not representable in 32 bits: it does not come back equal"
            else pure (.int b32)
  | .f64 => pure (.int b64)
  | _ => throw s!"float literal for {t.name} member"

/-- default of a member that the test never assigns -/
def unsetVal (f : Field) : R Val :=
  if f.rep then pure (.list []) else
  match f.kind with
  | .scalar _ | .lengthOf _ _ | .checksum _ _ => pure (.int 0)
  | .fixed _ _ | .dyn => pure (.str [])
  | .obj _ | .matchOn _ _ => throw s!"member {f.name} (an object) is never assigned"

def assemble (fl : Flags) (slots : List (Nat × Val)) : Nat → List Field → R (List Val)
  | _, [] => pure []
  | i, f :: fs => do
    let mine := slots.filter (·.1 = i)
    if fl.dupIsError && mine.length > 1 then throw s!"member {f.name} is named twice in one constructor"
    let v ← match mine.getLast? with
      | some (_, v) => pure v
      | none => unsetVal f
    let rest ← assemble fl slots (i + 1) fs
    pure (v :: rest)

mutual
/-- the message value a sample expression denotes at a member of kind `k` -/
def toVal (S : Schema) (P : Prog) (fl : Flags) : FKind → SExpr → R Val
  | .scalar t, .int n => scalarOfInt fl t n
  | .lengthOf t _, .int n => scalarOfInt fl t n
  | .checksum t _, .int n => scalarOfInt fl t n
  | .scalar t, .flt a b e => scalarOfFlt fl t a b e
  | .lengthOf t _, .flt a b e => scalarOfFlt fl t a b e
  | .checksum t _, .flt a b e => scalarOfFlt fl t a b e
  | .scalar t, .num n a b e => if Scalar.isFloat t then scalarOfFlt fl t a b e else scalarOfInt fl t n
  | .lengthOf t _, .num n a b e => if Scalar.isFloat t then scalarOfFlt fl t a b e else scalarOfInt fl t n
  | .checksum t _, .num n a b e => if Scalar.isFloat t then scalarOfFlt fl t a b e else scalarOfInt fl t n
  | .scalar _, .dflt => pure (.int 0)
  | .lengthOf _ _, .dflt => pure (.int 0)
  | .checksum _ _, .dflt => pure (.int 0)
  | .fixed _ _, .str bs => pure (.str bs)
  | .dyn, .str bs => pure (.str bs)
  | .fixed _ _, .dflt => pure (.str [])
  | .dyn, .dflt => pure (.str [])
  | .obj pkt, .obj ty sets =>
    if ty ≠ pkt then throw s!"an instance of {ty} where {pkt} is declared" else
    match S.find pkt, P.find pkt with
    | some p, some st => do
      let slots ← toSets S P fl p.fields st.members sets
      let vs ← assemble fl slots 0 p.fields
      pure (.struct vs)
    | _, _ => throw s!"type {pkt} is not an emitted struct"
  | .matchOn _ pairs, .obj ty sets =>
    if !pairs.any (·.2 = ty) then throw s!"an instance of {ty} is not one of the match targets" else
    match S.find ty, P.find ty with
    | some p, some st => do
      let slots ← toSets S P fl p.fields st.members sets
      let vs ← assemble fl slots 0 p.fields
      pure (.dyn ty vs)
    | _, _ => throw s!"type {ty} is not an emitted struct"
  | _, _ => throw "the sample expression does not fit the declared member kind"
def toVals (S : Schema) (P : Prog) (fl : Flags) (k : FKind) : List SExpr → R (List Val)
  | [] => pure []
  | e :: es => do
    let v ← toVal S P fl k e
    let vs ← toVals S P fl k es
    pure (v :: vs)
/-- (member position, value) for every assignment, in assignment order -/
def toSets (S : Schema) (P : Prog) (fl : Flags) (fields : List Field) (members : List Member) :
    List (String × SExpr) → R (List (Nat × Val))
  | [] => pure []
  | (id, e) :: rest => do
    let i := members.findIdx (·.ident = id)
    match fields[i]? with
    | none => throw s!"{id} is not a member"
    | some f =>
      let v ← (if f.rep then
          match e with
          | .list es => do let vs ← toVals S P fl f.kind es; pure (.list vs)
          | .dflt => pure (.list [])
          | _ => throw s!"member {id} is repeated: a list is expected"
        else toVal S P fl f.kind e)
      let more ← toSets S P fl fields members rest
      pure ((i, v) :: more)
end

/-- the top-level sample as the member values of packet `pkt` -/
def sampleVals (S : Schema) (P : Prog) (fl : Flags) (t : Test) : R (List Val) :=
  match toVal S P fl (.obj t.pkt) t.sample with
  | .ok (.struct vs) => pure vs
  | .ok _ => throw "sample is not an object"
  | .error e => throw e

def isComputed : FKind → Bool
  | .lengthOf _ _ | .checksum _ _ => true
  | _ => false

mutual
/-- `original` as it is when compared: computed members replaced by what the encoder stored (store-back) or by
what the test copied from `decoded` (`fix`, top level only) — in both cases the value the decoder read.
The Boolean says whether the member is repeated. -/
def adjVal (S : Schema) (sb : Bool) : Bool → FKind → Val → Val → Val
  | true, k, .list es, .list ds' => .list (adjList S sb k es ds')
  | true, _, v, _ => v
  | false, .obj pkt, .struct vs, .struct ds =>
    match S.find pkt with
    | some p => .struct (adjFields S sb [] 0 p.fields vs ds)
    | none => .struct vs
  | false, .matchOn _ _, .dyn pkt vs, .dyn pkt' ds =>
    if pkt = pkt' then
      match S.find pkt with
      | some p => .dyn pkt (adjFields S sb [] 0 p.fields vs ds)
      | none => .dyn pkt vs
    else .dyn pkt vs
  | false, _, v, _ => v
def adjList (S : Schema) (sb : Bool) (k : FKind) : List Val → List Val → List Val
  | v :: vs, d :: ds => adjVal S sb false k v d :: adjList S sb k vs ds
  | vs, _ => vs
def adjFields (S : Schema) (sb : Bool) (fix : List Nat) : Nat → List Field → List Val → List Val → List Val
  | i, f :: fs, v :: vs, d :: ds =>
    (if !f.rep && isComputed f.kind && (sb || fix.contains i) then d
     else adjVal S sb f.rep f.kind v d) :: adjFields S sb fix (i + 1) fs vs ds
  | _, _, vs, _ => vs
end

inductive Outcome
  | pass
  | illTyped (why : String)     -- the sample cannot be built (build error / exception while building)
  | encodeFails
  | decodeFails
  | mismatch                    -- the assertion fails
  deriving Repr, Inhabited, DecidableEq

/-- the meaning of an emitted self-test over an encoder / decoder pair -/
def run (S : Schema) (P : Prog) (fl : Flags) (t : Test)
    (enc : String → List Val → Option Bytes) (dec : String → Bytes → Option (List Val × Bytes)) : Outcome :=
  match sampleVals S P fl t with
  | .error e => .illTyped e
  | .ok vs =>
    match enc t.pkt vs with
    | none => .encodeFails
    | some bs =>
      match dec t.pkt bs with
      | none => .decodeFails
      | some (ds, _) =>
        match S.find t.pkt with
        | none => .mismatch
        | some p => if beqList (adjFields S fl.storeBack t.fixups 0 p.fields vs ds) ds then .pass else .mismatch

/-- the test run against the emitted codec (operational semantics of the printed text) -/
def emittedRun (S : Schema) (P : Prog) (fl : Flags) (reg : Registry) (fuel : Nat) (t : Test) : Outcome :=
  run S P fl t (fun pkt vs => encStruct P reg fuel pkt vs []) (decStruct P fuel)

/-- the test run against the declared wire format -/
def specRun (S : Schema) (P : Prog) (fl : Flags) (reg : Registry) (fuel : Nat) (t : Test) : Outcome :=
  run S P fl t (fun pkt vs => Wire.enc S reg pkt vs []) (Wire.dec S fuel)

/-- everything the check evaluates for one test: the sample is in the domain of the encoder theorem
(`lenSafe`, fuel) and the declared wire format passes the test -/
def specOk (S : Schema) (P : Prog) (fl : Flags) (reg : Registry) (fuel : Nat) (t : Test) : Bool :=
  (match sampleVals S P fl t with
   | .ok vs => lenSafeVal S (.obj t.pkt) (.struct vs) && decide (depthList vs < fuel)
   | .error _ => false)
  && specRun S P fl reg fuel t == .pass

/-- every declared packet has a test -/
def covers (S : Schema) (ts : List Test) : Bool := S.packets.all fun p => ts.any (·.pkt = p.name)

end FinProtoc.SelfTest
