import FinProtoc.Dsl.Cst
import FinProtoc.Dsl.Lexer
/-!
# Parser model

Recursive descent for the 25 parser rules of `PacketDsl.g4`.  The grammar needs at most
three tokens of look-ahead.  The result mirrors what fin-protoc observes of the ANTLR
parser: either "syntax errors were reported" (`none`), or a tree together with the
tokens the start rule did **not** consume — the start rule `packet` has no `EOF`, so ANTLR
leaves the top-level loop silently at the first token that cannot start a definition.
-/
namespace FinProtoc.Dsl

abbrev P (α : Type) := List Tok → Option (α × List Tok)

def tok (k : TK) : P Tok
  | t :: ts => if t.kind = k then some (t, ts) else none
  | [] => none

def optTokP (k : TK) : List Tok → Option Tok × List Tok
  | t :: ts => if t.kind = k then (some t, ts) else (none, t :: ts)
  | [] => (none, [])

def TK.isBasic : TK → Bool
  | .kwChar | .uint8 | .uint16 | .uint32 | .uint64 | .int8 | .int16 | .int32 | .int64 | .float32 | .float64 => true
  | _ => false

def TK.startsType (k : TK) : Bool :=
  k.isBasic || k == .charLb || k == .zcharLb || k == .kwString || k == .charArr

def pTy : P Ty
  | t :: ts =>
    if t.kind.isBasic then some (.basic t, ts)
    else if t.kind = .kwString || t.kind = .charArr then some (.dyn t, ts)
    else if t.kind = .charLb || t.kind = .zcharLb then
      match ts with
      | n :: rb :: ts' => if n.kind = .digits && rb.kind = .rbrack then some (.fixed t n rb, ts') else none
      | _ => none
    else none
  | [] => none

def pMetaDecl : P MetaDecl := fun ts => do
  let (ty, ts) ← pTy ts
  let (name, ts) ← tok .ident ts
  let (doc, ts) := optTokP .strLit ts
  let (comma, ts) ← tok .comma ts
  pure ({ ty, name, doc, comma }, ts)

def pRefMetaDecl : P RefMetaDecl := fun ts => do
  let (typ, ts) ← tok .ident ts
  let (name, ts) ← tok .ident ts
  let (doc, ts) := optTokP .strLit ts
  let (comma, ts) ← tok .comma ts
  pure ({ typ, name, doc, comma }, ts)

/-- `( metaDataDeclaration | refMetaDataDeclaration )*` up to the closing brace -/
def pMetaEntries : Nat → List Tok → Option (List MetaEntry × List Tok)
  | 0, _ => none
  | fuel + 1, ts =>
    match ts with
    | t :: _ =>
      if t.kind.startsType then do
        let (d, ts) ← pMetaDecl ts
        let (rest, ts) ← pMetaEntries fuel ts
        pure (.decl d :: rest, ts)
      else if t.kind = .ident then do
        let (d, ts) ← pRefMetaDecl ts
        let (rest, ts) ← pMetaEntries fuel ts
        pure (.ref d :: rest, ts)
      else some ([], ts)
    | [] => some ([], ts)

def pMetaDef : P MetaDef := fun ts => do
  let (kw, ts) ← tok .metadata ts
  let (name, ts) ← tok .ident ts
  let (lb, ts) ← tok .lbrace ts
  let (entries, ts) ← pMetaEntries (ts.length + 1) ts
  let (rb, ts) ← tok .rbrace ts
  pure ({ kw, name, lb, entries, rb }, ts)

def pValue : P ValueC
  | t :: ts =>
    if t.kind.startsType then (pTy (t :: ts)).map fun (ty, r) => (.ty ty, r)
    else if t.kind = .string || t.kind = .digits || t.kind = .padChar || t.kind = .kwTrue || t.kind = .kwFalse then
      some (.tok t, ts)
    else none
  | [] => none

def pOptDecl : P OptDecl := fun ts => do
  let (name, ts) ← tok .ident ts
  let (eq, ts) ← tok .eq ts
  let (value, ts) ← pValue ts
  let (semi, ts) := optTokP .semi ts
  pure ({ name, eq, value, semi }, ts)

def pOptDecls : Nat → List Tok → Option (List OptDecl × List Tok)
  | 0, _ => none
  | fuel + 1, ts =>
    match ts with
    | t :: _ =>
      if t.kind = .ident then do
        let (d, ts) ← pOptDecl ts
        let (rest, ts) ← pOptDecls fuel ts
        pure (d :: rest, ts)
      else some ([], ts)
    | [] => some ([], ts)

def pOptDef : P OptDef := fun ts => do
  let (kw, ts) ← tok .kwOptions ts
  let (lb, ts) ← tok .lbrace ts
  let (decls, ts) ← pOptDecls (ts.length + 1) ts
  let (rb, ts) ← tok .rbrace ts
  pure ({ kw, lb, decls, rb }, ts)

def isKeyTok (t : Tok) : Bool := t.kind = .digits || t.kind = .string

/-- `(COMMA (DIGITS | STRING))*` -/
def pListRest : Nat → List Tok → Option (List (Tok × Tok) × List Tok)
  | 0, _ => none
  | fuel + 1, ts =>
    match ts with
    | c :: ts' =>
      if c.kind = .comma then
        match ts' with
        | i :: ts'' =>
          if isKeyTok i then do
            let (rest, r) ← pListRest fuel ts''
            pure ((c, i) :: rest, r)
          else none
        | [] => none
      else some ([], ts)
    | [] => some ([], ts)

def pMatchKey : P MatchKey
  | t :: ts =>
    if isKeyTok t then some (.single t, ts)
    else if t.kind = .lbrack then
      match ts with
      | f :: ts' =>
        if isKeyTok f then do
          let (rest, ts'') ← pListRest (ts'.length + 1) ts'
          let (rb, ts''') ← tok .rbrack ts''
          pure (.list t f rest rb, ts''')
        else none
      | [] => none
    else none
  | [] => none

def pMatchPair : P MatchPair := fun ts => do
  let (key, ts) ← pMatchKey ts
  let (colon, ts) ← tok .colon ts
  let (target, ts) ← tok .ident ts
  let (comma, ts) := optTokP .comma ts
  pure ({ key, colon, target, comma }, ts)

def startsPair (t : Tok) : Bool := isKeyTok t || t.kind = .lbrack

/-- `matchPair*` (the caller checks `+`) -/
def pMatchPairs : Nat → List Tok → Option (List MatchPair × List Tok)
  | 0, _ => none
  | fuel + 1, ts =>
    match ts with
    | t :: _ =>
      if startsPair t then do
        let (p, ts) ← pMatchPair ts
        let (rest, ts) ← pMatchPairs fuel ts
        pure (p :: rest, ts)
      else some ([], ts)
    | [] => some ([], ts)

def pMatchDecl : P MatchDecl := fun ts => do
  let (kw, ts) ← tok .match_ ts
  let (key, ts) ← tok .ident ts
  let (as_, ts) ← tok .kwAs ts
  let (name, ts) ← tok .ident ts
  let (lb, ts) ← tok .lbrace ts
  let (pairs, ts) ← pMatchPairs (ts.length + 1) ts
  if pairs.isEmpty then none else
  let (rb, ts) ← tok .rbrace ts
  pure ({ kw, key, as_, name, lb, pairs, rb }, ts)

def pLenAttr : P LenAttr := fun ts => do
  let (kw, ts) ← tok .lengthOf ts
  let (from_, ts) ← tok .ident ts
  let (rp, ts) ← tok .rparen ts
  pure ({ kw, from_, rp }, ts)

def pCalcAttr : P CalcAttr := fun ts => do
  let (kw, ts) ← tok .calcFrom ts
  let (from_, ts) ← tok .string ts
  let (rp, ts) ← tok .rparen ts
  pure ({ kw, from_, rp }, ts)

/-- after `type? name`, the token decides between length / checksum declaration -/
def pLenOrCk (ty : Option Ty) (name : Tok) : P FieldDef
  | t :: ts =>
    if t.kind = .lengthOf then do
      let (attr, ts) ← pLenAttr (t :: ts)
      let (doc, ts) := optTokP .strLit ts
      let (comma, ts) ← tok .comma ts
      pure (.len { ty, name, attr, doc, comma }, ts)
    else if t.kind = .calcFrom then do
      let (attr, ts) ← pCalcAttr (t :: ts)
      let (doc, ts) := optTokP .strLit ts
      let (comma, ts) ← tok .comma ts
      pure (.cks { ty, name, attr, doc, comma }, ts)
    else none
  | [] => none

def startsField (t : Tok) : Bool :=
  t.kind = .repeat_ || t.kind = .ident || t.kind.startsType || t.kind = .match_

mutual
/-- `fieldDefinition` -/
def pFieldDef : Nat → List Tok → Option (FieldDef × List Tok)
  | 0, _ => none
  | fuel + 1, ts =>
    let (rep, ts1) := optTokP .repeat_ ts
    match ts1 with
    | t :: rest =>
      if t.kind = .match_ then
        if rep.isSome then none else do
          let (d, ts) ← pMatchDecl ts1
          let (comma, ts) ← tok .comma ts
          pure (.match_ d comma, ts)
      else if t.kind.startsType then do
        let (ty, ts) ← pTy ts1
        let (name, ts) ← tok .ident ts
        match ts with
        | a :: _ =>
          if a.kind = .lengthOf || a.kind = .calcFrom then
            if rep.isSome then none else pLenOrCk (some ty) name ts
          else
            let (doc, ts) := optTokP .strLit ts
            do let (comma, ts) ← tok .comma ts
               pure (.metaF rep { ty, name, doc, comma }, ts)
        | [] => none
      else if t.kind = .ident then
        match rest with
        | a :: rest' =>
          if a.kind = .lbrace then do
            let (fields, ts) ← pFieldDefs fuel rest'
            if fields.isEmpty then none else
            let (rb, ts) ← tok .rbrace ts
            let (comma, ts) ← tok .comma ts
            pure (.iner rep t a fields rb comma, ts)
          else if a.kind = .lengthOf || a.kind = .calcFrom then
            if rep.isSome then none else pLenOrCk none t rest
          else
            let (fname, ts) := optTokP .ident rest
            let (doc, ts) := optTokP .strLit ts
            do let (comma, ts) ← tok .comma ts
               pure (.obj rep t fname doc comma, ts)
        | [] => none
      else none
    | [] => none
/-- `fieldDefinition*` up to a token that cannot start one -/
def pFieldDefs : Nat → List Tok → Option (List FieldDef × List Tok)
  | 0, _ => none
  | fuel + 1, ts =>
    match ts with
    | t :: _ =>
      if startsField t then do
        let (f, ts) ← pFieldDef fuel ts
        let (rest, ts) ← pFieldDefs fuel ts
        pure (f :: rest, ts)
      else some ([], ts)
    | [] => some ([], ts)
end

def TK.startsAttr (k : TK) : Bool := k == .lengthOf || k == .calcFrom || k == .tagAt || k == .padAttr

def pAttr : P Attr
  | t :: ts =>
    if t.kind = .lengthOf then (pLenAttr (t :: ts)).map fun (a, r) => (.len a, r)
    else if t.kind = .calcFrom then (pCalcAttr (t :: ts)).map fun (a, r) => (.calc a, r)
    else if t.kind = .tagAt then do
      let (n, ts) ← tok .digits ts
      let (rp, ts) ← tok .rparen ts
      pure (.tag t n rp, ts)
    else if t.kind = .padAttr then do
      let (lp, ts) ← tok .lparen ts
      let (ch, ts) := optTokP .padChar ts
      let (rp, ts) ← tok .rparen ts
      pure (.pad t lp ch rp, ts)
    else none
  | [] => none

def pAttrs : Nat → List Tok → Option (List Attr × List Tok)
  | 0, _ => none
  | fuel + 1, ts =>
    match ts with
    | t :: _ =>
      if t.kind.startsAttr then do
        let (a, ts) ← pAttr ts
        let (rest, ts) ← pAttrs fuel ts
        pure (a :: rest, ts)
      else some ([], ts)
    | [] => some ([], ts)

def pFieldWA : P FieldWA := fun ts => do
  let (attrs, ts) ← pAttrs (ts.length + 1) ts
  let (fd, ts) ← pFieldDef (ts.length + 1) ts
  pure ({ attrs, fd }, ts)

def pFieldWAs : Nat → List Tok → Option (List FieldWA × List Tok)
  | 0, _ => none
  | fuel + 1, ts =>
    match ts with
    | t :: _ =>
      if t.kind.startsAttr || startsField t then do
        let (f, ts) ← pFieldWA ts
        let (rest, ts) ← pFieldWAs fuel ts
        pure (f :: rest, ts)
      else some ([], ts)
    | [] => some ([], ts)

def pPacketDef : P PacketDef := fun ts => do
  let (root, ts) := optTokP .root ts
  let (kw, ts) ← tok .packet ts
  let (name, ts) ← tok .ident ts
  let (lb, ts) ← tok .lbrace ts
  let (fields, ts) ← pFieldWAs (ts.length + 1) ts
  let (rb, ts) ← tok .rbrace ts
  pure ({ root, kw, name, lb, fields, rb }, ts)

/-- the top-level loop: stops silently at a token that cannot start a definition -/
def pTop : Nat → List Tok → Option (List TopDef × List Tok)
  | 0, _ => none
  | fuel + 1, ts =>
    match ts with
    | t :: _ =>
      if t.kind = .root || t.kind = .packet then do
        let (p, ts) ← pPacketDef ts
        let (rest, ts) ← pTop fuel ts
        pure (.packet p :: rest, ts)
      else if t.kind = .metadata then do
        let (m, ts) ← pMetaDef ts
        let (rest, ts) ← pTop fuel ts
        pure (.metaD m :: rest, ts)
      else if t.kind = .kwOptions then do
        let (o, ts) ← pOptDef ts
        let (rest, ts) ← pTop fuel ts
        pure (.opt o :: rest, ts)
      else some ([], ts)
    | [] => some ([], ts)

/-- `none` = the real parser reports syntax errors; `some (cst, leftover)` otherwise. -/
def parseToks (ts : List Tok) : Option (Cst × List Tok) :=
  (pTop (ts.length + 1) ts).map fun (defs, rest) => ({ defs }, rest)

def parse (s : String) : Option (Cst × List Tok) := parseToks (lex s).toks

/-- What fin-protoc accepts (`ParseAll`): no lexical error, no syntax error, and the start rule
consumed every token. -/
def parseFull (s : String) : Option Cst :=
  if lexErrors s ≠ 0 then none else
  match parseToks (lex s).toks with
  | some (cst, []) => some cst
  | _ => none

end FinProtoc.Dsl
