import FinProtoc.Dsl.Token
/-!
# Concrete syntax tree of PacketDSL

One type per grammar rule; every optional element is an `Option`, every token is kept
(lines are needed for diagnostics, indices for the formatter's comment look-ups).
-/
namespace FinProtoc.Dsl

/-- `type: basicType | fixedString | dynamicString` -/
inductive Ty
  | basic (t : Tok)
  | fixed (kw : Tok) (n : Tok) (rb : Tok)     -- 'char[' DIGITS ']' | 'zchar[' DIGITS ']'
  | dyn (t : Tok)                              -- 'string' | 'char[]'
  deriving Repr, Inhabited, DecidableEq

def Ty.text : Ty → String
  | .basic t => t.text
  | .fixed kw n rb => kw.text ++ n.text ++ rb.text
  | .dyn t => t.text

def Ty.start : Ty → Tok
  | .basic t => t | .fixed kw _ _ => kw | .dyn t => t

def Ty.toks : Ty → List Tok
  | .basic t => [t] | .fixed kw n rb => [kw, n, rb] | .dyn t => [t]

structure MetaDecl where
  ty : Ty
  name : Tok
  doc : Option Tok
  comma : Tok
  deriving Repr, Inhabited, DecidableEq

structure RefMetaDecl where
  typ : Tok
  name : Tok
  doc : Option Tok
  comma : Tok
  deriving Repr, Inhabited, DecidableEq

inductive MetaEntry
  | decl (d : MetaDecl)
  | ref (r : RefMetaDecl)
  deriving Repr, Inhabited, DecidableEq

structure MetaDef where
  kw : Tok
  name : Tok
  lb : Tok
  entries : List MetaEntry
  rb : Tok
  deriving Repr, Inhabited, DecidableEq

/-- `value: type | STRING | DIGITS | PADDING_CHAR | 'true' | 'false'` -/
inductive ValueC
  | ty (t : Ty)
  | tok (t : Tok)
  deriving Repr, Inhabited, DecidableEq

def ValueC.text : ValueC → String
  | .ty t => t.text | .tok t => t.text

def ValueC.toks : ValueC → List Tok
  | .ty t => t.toks | .tok t => [t]

structure OptDecl where
  name : Tok
  eq : Tok
  value : ValueC
  semi : Option Tok
  deriving Repr, Inhabited, DecidableEq

structure OptDef where
  kw : Tok
  lb : Tok
  decls : List OptDecl
  rb : Tok
  deriving Repr, Inhabited, DecidableEq

/-- `(DIGITS | STRING | list)`; a list keeps its items and the separating commas -/
inductive MatchKey
  | single (t : Tok)
  | list (lb : Tok) (first : Tok) (rest : List (Tok × Tok)) (rb : Tok)   -- rest = (COMMA, item)
  deriving Repr, Inhabited, DecidableEq

structure MatchPair where
  key : MatchKey
  colon : Tok
  target : Tok
  comma : Option Tok
  deriving Repr, Inhabited, DecidableEq

structure MatchDecl where
  kw : Tok
  key : Tok
  as_ : Tok
  name : Tok
  lb : Tok
  pairs : List MatchPair
  rb : Tok
  deriving Repr, Inhabited, DecidableEq

structure LenAttr where
  kw : Tok
  from_ : Tok
  rp : Tok
  deriving Repr, Inhabited, DecidableEq

structure CalcAttr where
  kw : Tok
  from_ : Tok
  rp : Tok
  deriving Repr, Inhabited, DecidableEq

structure LenDecl where
  ty : Option Ty
  name : Tok
  attr : LenAttr
  doc : Option Tok
  comma : Tok
  deriving Repr, Inhabited, DecidableEq

structure CkDecl where
  ty : Option Ty
  name : Tok
  attr : CalcAttr
  doc : Option Tok
  comma : Tok
  deriving Repr, Inhabited, DecidableEq

/-- `fieldDefinition` (six labelled alternatives) -/
inductive FieldDef
  | iner (rep : Option Tok) (name : Tok) (lb : Tok) (fields : List FieldDef) (rb : Tok) (comma : Tok)
  | metaF (rep : Option Tok) (d : MetaDecl)
  | obj (rep : Option Tok) (ftype : Tok) (fname : Option Tok) (doc : Option Tok) (comma : Tok)
  | len (d : LenDecl)
  | cks (d : CkDecl)
  | match_ (d : MatchDecl) (comma : Tok)
  deriving Repr, Inhabited

inductive Attr
  | len (a : LenAttr)
  | calc (a : CalcAttr)
  | tag (kw : Tok) (n : Tok) (rp : Tok)
  | pad (kw : Tok) (lp : Tok) (ch : Option Tok) (rp : Tok)
  deriving Repr, Inhabited, DecidableEq

structure FieldWA where
  attrs : List Attr
  fd : FieldDef
  deriving Repr, Inhabited

structure PacketDef where
  root : Option Tok
  kw : Tok
  name : Tok
  lb : Tok
  fields : List FieldWA
  rb : Tok
  deriving Repr, Inhabited

inductive TopDef
  | packet (p : PacketDef)
  | metaD (m : MetaDef)
  | opt (o : OptDef)
  deriving Repr, Inhabited

structure Cst where
  defs : List TopDef
  deriving Repr, Inhabited

/-! ## Token views -/

def optTok : Option Tok → List Tok
  | some t => [t] | none => []

def MetaDecl.toks (d : MetaDecl) : List Tok := d.ty.toks ++ [d.name] ++ optTok d.doc ++ [d.comma]
def RefMetaDecl.toks (d : RefMetaDecl) : List Tok := [d.typ, d.name] ++ optTok d.doc ++ [d.comma]
def MetaEntry.toks : MetaEntry → List Tok
  | .decl d => d.toks | .ref r => r.toks
def MetaDef.toks (m : MetaDef) : List Tok :=
  [m.kw, m.name, m.lb] ++ (m.entries.map MetaEntry.toks).flatten ++ [m.rb]
def OptDecl.toks (d : OptDecl) : List Tok := [d.name, d.eq] ++ d.value.toks ++ optTok d.semi
def OptDef.toks (o : OptDef) : List Tok := [o.kw, o.lb] ++ (o.decls.map OptDecl.toks).flatten ++ [o.rb]
def MatchKey.toks : MatchKey → List Tok
  | .single t => [t]
  | .list lb f rest rb => [lb, f] ++ (rest.map fun (c, i) => [c, i]).flatten ++ [rb]
def MatchKey.start : MatchKey → Tok
  | .single t => t | .list lb _ _ _ => lb
def MatchPair.toks (p : MatchPair) : List Tok := p.key.toks ++ [p.colon, p.target] ++ optTok p.comma
def MatchPair.stop (p : MatchPair) : Tok := match p.comma with | some c => c | none => p.target
def MatchDecl.toks (d : MatchDecl) : List Tok :=
  [d.kw, d.key, d.as_, d.name, d.lb] ++ (d.pairs.map MatchPair.toks).flatten ++ [d.rb]
def LenAttr.toks (a : LenAttr) : List Tok := [a.kw, a.from_, a.rp]
def CalcAttr.toks (a : CalcAttr) : List Tok := [a.kw, a.from_, a.rp]
def optTy : Option Ty → List Tok
  | some t => t.toks | none => []
def LenDecl.toks (d : LenDecl) : List Tok := optTy d.ty ++ [d.name] ++ d.attr.toks ++ optTok d.doc ++ [d.comma]
def CkDecl.toks (d : CkDecl) : List Tok := optTy d.ty ++ [d.name] ++ d.attr.toks ++ optTok d.doc ++ [d.comma]

mutual
def FieldDef.toks : FieldDef → List Tok
  | .iner rep name lb fields rb comma => optTok rep ++ [name, lb] ++ FieldDef.toksList fields ++ [rb, comma]
  | .metaF rep d => optTok rep ++ d.toks
  | .obj rep ft fn doc comma => optTok rep ++ [ft] ++ optTok fn ++ optTok doc ++ [comma]
  | .len d => d.toks
  | .cks d => d.toks
  | .match_ d comma => d.toks ++ [comma]
def FieldDef.toksList : List FieldDef → List Tok
  | [] => []
  | f :: fs => f.toks ++ FieldDef.toksList fs
end

def Attr.toks : Attr → List Tok
  | .len a => a.toks | .calc a => a.toks
  | .tag kw n rp => [kw, n, rp]
  | .pad kw lp ch rp => [kw, lp] ++ optTok ch ++ [rp]

def FieldWA.toks (f : FieldWA) : List Tok := (f.attrs.map Attr.toks).flatten ++ f.fd.toks
def PacketDef.toks (p : PacketDef) : List Tok :=
  optTok p.root ++ [p.kw, p.name, p.lb] ++ (p.fields.map FieldWA.toks).flatten ++ [p.rb]
def TopDef.toks : TopDef → List Tok
  | .packet p => p.toks | .metaD m => m.toks | .opt o => o.toks
def Cst.toks (c : Cst) : List Tok := (c.defs.map TopDef.toks).flatten

/-- first token of a field definition (`ctx.GetStart()`) -/
def FieldDef.start : FieldDef → Tok
  | .iner rep name _ _ _ _ => rep.getD name
  | .metaF rep d => rep.getD d.ty.start
  | .obj rep ft _ _ _ => rep.getD ft
  | .len d => match d.ty with | some t => t.start | none => d.name
  | .cks d => match d.ty with | some t => t.start | none => d.name
  | .match_ d _ => d.kw

/-- last token of a field definition (`ctx.GetStop()`) -/
def FieldDef.stop : FieldDef → Tok
  | .iner _ _ _ _ _ comma => comma
  | .metaF _ d => d.comma
  | .obj _ _ _ _ comma => comma
  | .len d => d.comma
  | .cks d => d.comma
  | .match_ _ comma => comma

def Attr.start : Attr → Tok
  | .len a => a.kw | .calc a => a.kw | .tag kw _ _ => kw | .pad kw _ _ _ => kw

def FieldWA.start (f : FieldWA) : Tok :=
  match f.attrs with
  | a :: _ => a.start
  | [] => f.fd.start

def PacketDef.start (p : PacketDef) : Tok := p.root.getD p.kw

def TopDef.start : TopDef → Tok
  | .packet p => p.start | .metaD m => m.kw | .opt o => o.kw
def TopDef.stop : TopDef → Tok
  | .packet p => p.rb | .metaD m => m.rb | .opt o => o.rb

/-! ## Canonical dump (same format as the Go harness's `dumpTree`) -/

def jsonStr (s : String) : String :=
  "\"" ++ String.join (s.toList.map fun c =>
    if c = '"' then "\\\"" else if c = '\\' then "\\\\"
    else if c = '\n' then "\\n" else if c = '\r' then "\\r" else if c = '\t' then "\\t"
    else if c.toNat < 0x20 then
      let h := Nat.toDigits 16 c.toNat
      "\\u" ++ String.ofList (List.replicate (4 - h.length) '0' ++ h)
    else if c = '<' then "\\u003c" else if c = '>' then "\\u003e" else if c = '&' then "\\u0026"
    else if c.toNat = 0x2028 then "\\u2028" else if c.toNat = 0x2029 then "\\u2029"
    else String.singleton c) ++ "\""

def dTok (t : Tok) : String := " " ++ jsonStr t.text
def dOpt : Option Tok → String
  | some t => dTok t | none => ""

def Ty.dump : Ty → String
  | .basic t => " (Type (BasicType" ++ dTok t ++ "))"
  | .fixed kw n rb => " (Type (FixedString" ++ dTok kw ++ dTok n ++ dTok rb ++ "))"
  | .dyn t => " (Type (DynamicString" ++ dTok t ++ "))"

def MetaDecl.dump (d : MetaDecl) : String :=
  " (MetaDataDeclaration" ++ d.ty.dump ++ dTok d.name ++ dOpt d.doc ++ dTok d.comma ++ ")"
def RefMetaDecl.dump (d : RefMetaDecl) : String :=
  " (RefMetaDataDeclaration" ++ dTok d.typ ++ dTok d.name ++ dOpt d.doc ++ dTok d.comma ++ ")"
def MetaEntry.dump : MetaEntry → String
  | .decl d => d.dump | .ref r => r.dump
def MetaDef.dump (m : MetaDef) : String :=
  " (MetaDataDefinition" ++ dTok m.kw ++ dTok m.name ++ dTok m.lb ++ String.join (m.entries.map MetaEntry.dump) ++ dTok m.rb ++ ")"
def ValueC.dump : ValueC → String
  | .ty t => " (Value" ++ t.dump ++ ")"
  | .tok t => " (Value" ++ dTok t ++ ")"
def OptDecl.dump (d : OptDecl) : String :=
  " (OptionDeclaration" ++ dTok d.name ++ dTok d.eq ++ d.value.dump ++ dOpt d.semi ++ ")"
def OptDef.dump (o : OptDef) : String :=
  " (OptionDefinition" ++ dTok o.kw ++ dTok o.lb ++ String.join (o.decls.map OptDecl.dump) ++ dTok o.rb ++ ")"
def MatchKey.dump : MatchKey → String
  | .single t => dTok t
  | .list lb f rest rb => " (List" ++ dTok lb ++ dTok f ++ String.join (rest.map fun (c, i) => dTok c ++ dTok i) ++ dTok rb ++ ")"
def MatchPair.dump (p : MatchPair) : String :=
  " (MatchPair" ++ p.key.dump ++ dTok p.colon ++ dTok p.target ++ dOpt p.comma ++ ")"
def MatchDecl.dump (d : MatchDecl) : String :=
  " (MatchFieldDeclaration" ++ dTok d.kw ++ dTok d.key ++ dTok d.as_ ++ dTok d.name ++ dTok d.lb ++
    String.join (d.pairs.map MatchPair.dump) ++ dTok d.rb ++ ")"
def LenAttr.dump (a : LenAttr) : String := " (LengthOfAttribute" ++ dTok a.kw ++ dTok a.from_ ++ dTok a.rp ++ ")"
def CalcAttr.dump (a : CalcAttr) : String := " (CalculatedFromAttribute" ++ dTok a.kw ++ dTok a.from_ ++ dTok a.rp ++ ")"
def dOptTy : Option Ty → String
  | some t => t.dump | none => ""

mutual
def FieldDef.dump : FieldDef → String
  | .iner rep name lb fields rb comma =>
    " (InerObjectField" ++ dOpt rep ++ " (InerObjectDeclaration" ++ dTok name ++ dTok lb ++ FieldDef.dumpList fields ++ dTok rb ++ ")" ++ dTok comma ++ ")"
  | .metaF rep d => " (MetaField" ++ dOpt rep ++ d.dump ++ ")"
  | .obj rep ft fn doc comma => " (ObjectField" ++ dOpt rep ++ dTok ft ++ dOpt fn ++ dOpt doc ++ dTok comma ++ ")"
  | .len d => " (LengthField (LengthFieldDeclaration" ++ dOptTy d.ty ++ dTok d.name ++ d.attr.dump ++ dOpt d.doc ++ dTok d.comma ++ "))"
  | .cks d => " (CheckSumField (CheckSumFieldDeclaration" ++ dOptTy d.ty ++ dTok d.name ++ d.attr.dump ++ dOpt d.doc ++ dTok d.comma ++ "))"
  | .match_ d comma => " (MatchField" ++ d.dump ++ dTok comma ++ ")"
def FieldDef.dumpList : List FieldDef → String
  | [] => ""
  | f :: fs => f.dump ++ FieldDef.dumpList fs
end

def Attr.dump : Attr → String
  | .len a => " (FieldAttribute" ++ a.dump ++ ")"
  | .calc a => " (FieldAttribute" ++ a.dump ++ ")"
  | .tag kw n rp => " (FieldAttribute (TagAttribute" ++ dTok kw ++ dTok n ++ dTok rp ++ "))"
  | .pad kw lp ch rp => " (FieldAttribute (PaddingAttribute" ++ dTok kw ++ dTok lp ++ dOpt ch ++ dTok rp ++ "))"

def FieldWA.dump (f : FieldWA) : String :=
  " (FieldDefinitionWithAttribute" ++ String.join (f.attrs.map Attr.dump) ++ f.fd.dump ++ ")"
def PacketDef.dump (p : PacketDef) : String :=
  " (PacketDefinition" ++ dOpt p.root ++ dTok p.kw ++ dTok p.name ++ dTok p.lb ++ String.join (p.fields.map FieldWA.dump) ++ dTok p.rb ++ ")"
def TopDef.dump : TopDef → String
  | .packet p => p.dump | .metaD m => m.dump | .opt o => o.dump
def Cst.dump (c : Cst) : String := "(Packet" ++ String.join (c.defs.map TopDef.dump) ++ ")"

end FinProtoc.Dsl
