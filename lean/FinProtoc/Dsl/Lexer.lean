import FinProtoc.Dsl.Token
/-!
# Lexer model

A model of what the ANTLR-generated `PacketDslLexer` does: maximal munch over all lexer
rules, first rule wins a tie, `WS` skipped, `LINE_COMMENT` on the hidden channel.

Error behaviour (observed, and read off `antlr4-go` `Lexer.NextToken/recover` and
`LexerATNSimulator.execATN/failOrAccept`): the simulator consumes characters while at
least one rule is still viable; when no rule is viable any more it falls back to the
longest accepted prefix; if there is none, the characters consumed so far **plus the
offending character** are dropped and lexing resumes behind them.  fin-protoc installs no
lexer error listener, so such junk never becomes a "syntax error".
-/
namespace FinProtoc.Dsl

/-- Outcome of one rule on the remaining input: longest accepted prefix (if any) and the
number of characters the rule stays viable for. -/
structure RuleRes where
  acc : Option Nat
  viable : Nat
  deriving Repr

def commonPrefixLen : List Char → List Char → Nat
  | a :: as, b :: bs => if a = b then commonPrefixLen as bs + 1 else 0
  | _, _ => 0

def litRule (lit : String) (inp : List Char) : RuleRes :=
  let l := lit.toList
  let n := commonPrefixLen l inp
  { acc := if n = l.length then some n else none, viable := n }

/-- several literal alternatives under one rule (`'uint8' | 'u8'`) -/
def litsRule (lits : List String) (inp : List Char) : RuleRes :=
  lits.foldl (fun r lit =>
    let q := litRule lit inp
    { acc := match r.acc, q.acc with
        | some a, some b => some (max a b)
        | some a, none => some a
        | none, b => b,
      viable := max r.viable q.viable }) { acc := none, viable := 0 }

def isIdStart (c : Char) : Bool := c.isAlpha || c = '_'
def isIdChar (c : Char) : Bool := c.isAlphanum || c = '_'
def isWs (c : Char) : Bool := c = ' ' || c = '\t' || c = '\r' || c = '\n'

def runLen (p : Char → Bool) : List Char → Nat
  | c :: cs => if p c then runLen p cs + 1 else 0
  | [] => 0

def identRule (inp : List Char) : RuleRes :=
  match inp with
  | c :: cs => if isIdStart c then let n := runLen isIdChar cs + 1; { acc := some n, viable := n } else { acc := none, viable := 0 }
  | [] => { acc := none, viable := 0 }

def plusRule (p : Char → Bool) (inp : List Char) : RuleRes :=
  let n := runLen p inp
  { acc := if n = 0 then none else some n, viable := n }

/-- `STRING: '"' ( ~["\\\r\n] | '\\' . )* '"'`; `n` = characters consumed so far. -/
def stringBody : List Char → Nat → RuleRes
  | [], n => { acc := none, viable := n }
  | '"' :: _, n => { acc := some (n + 1), viable := n + 1 }
  | '\\' :: [], n => { acc := none, viable := n + 1 }
  | '\\' :: _ :: cs, n => stringBody cs (n + 2)
  | c :: cs, n => if c = '\r' || c = '\n' then { acc := none, viable := n } else stringBody cs (n + 1)

def stringRule : List Char → RuleRes
  | '"' :: cs => stringBody cs 1
  | _ => { acc := none, viable := 0 }

/-- ``STRING_LITERAL: '`' (~'`' | '\r' | '\n')* '`'`` -/
def strLitBody : List Char → Nat → RuleRes
  | [], n => { acc := none, viable := n }
  | c :: cs, n => if c = '`' then { acc := some (n + 1), viable := n + 1 } else strLitBody cs (n + 1)

def strLitRule : List Char → RuleRes
  | '`' :: cs => strLitBody cs 1
  | _ => { acc := none, viable := 0 }

/-- `LINE_COMMENT: '//' ~[\r\n]*` -/
def commentRule : List Char → RuleRes
  | '/' :: '/' :: cs => let n := runLen (fun c => !(c = '\r' || c = '\n')) cs + 2; { acc := some n, viable := n }
  | '/' :: _ => { acc := none, viable := 1 }
  | _ => { acc := none, viable := 0 }

/-- What a rule produces: a token kind, or nothing (`WS -> skip`). -/
inductive RuleOut | tok (k : TK) | skip
  deriving Repr

/-- The lexer rules in ANTLR priority order (implicit literals first, then the named
rules in grammar order). -/
def rules : List (RuleOut × (List Char → RuleRes)) := [
  (.tok .kwOptions, litRule "options"), (.tok .lbrace, litRule "{"), (.tok .rbrace, litRule "}"),
  (.tok .eq, litRule "="), (.tok .calcFrom, litRule "@calculatedFrom("), (.tok .rparen, litRule ")"),
  (.tok .lengthOf, litRule "@lengthOf("), (.tok .lparen, litRule "("), (.tok .tagAt, litRule "@tag("),
  (.tok .kwTrue, litRule "true"), (.tok .kwFalse, litRule "false"), (.tok .charLb, litRule "char["),
  (.tok .rbrack, litRule "]"), (.tok .zcharLb, litRule "zchar["), (.tok .kwString, litRule "string"),
  (.tok .charArr, litRule "char[]"), (.tok .kwAs, litRule "as"), (.tok .lbrack, litRule "["),
  (.tok .kwChar, litRule "char"),
  (.tok .uint8, litsRule ["uint8", "u8"]), (.tok .uint16, litsRule ["uint16", "u16"]),
  (.tok .uint32, litsRule ["uint32", "u32"]), (.tok .uint64, litsRule ["uint64", "u64"]),
  (.tok .int8, litsRule ["int8", "i8"]), (.tok .int16, litsRule ["int16", "i16"]),
  (.tok .int32, litsRule ["int32", "i32"]), (.tok .int64, litsRule ["int64", "i64"]),
  (.tok .float32, litsRule ["float32", "f32"]), (.tok .float64, litsRule ["float64", "f64"]),
  (.tok .digits, plusRule Char.isDigit), (.tok .string, stringRule),
  (.tok .padAttr, litsRule ["@leftPad", "@rightPad"]),
  (.tok .padChar, litsRule ["'0'", "' '", "'\\x00'"]),
  (.tok .root, litRule "root"), (.tok .packet, litRule "packet"), (.tok .repeat_, litRule "repeat"),
  (.tok .metadata, litRule "MetaData"), (.tok .match_, litRule "match"), (.tok .colon, litRule ":"),
  (.tok .comma, litRule ","), (.tok .semi, litRule ";"), (.tok .ident, identRule),
  (.tok .strLit, strLitRule), (.tok .lineComment, commentRule), (.skip, plusRule isWs)]

/-- Longest accept (first rule wins ties) and the longest viable prefix over all rules. -/
def bestMatch (inp : List Char) : Option (RuleOut × Nat) × Nat :=
  rules.foldl (fun (best, via) (out, r) =>
    let q := r inp
    let via' := max via q.viable
    match q.acc, best with
    | some n, some (_, m) => if n > m then (some (out, n), via') else (best, via')
    | some n, none => (some (out, n), via')
    | none, _ => (best, via')) (none, 0)

/-- advance a (line, col) position over consumed characters (ANTLR: only `\n` ends a line) -/
def advance (line col : Nat) : List Char → Nat × Nat
  | [] => (line, col)
  | c :: cs => if c = '\n' then advance (line + 1) 0 cs else advance line (col + 1) cs

def lexLoop : Nat → List Char → Nat → Nat → List RawTok → List RawTok
  | 0, _, _, _, acc => acc.reverse
  | _, [], _, _, acc => acc.reverse
  | fuel + 1, inp, line, col, acc =>
    match bestMatch inp with
    | (some (out, n), _) =>
      let txt := inp.take n
      let (l', c') := advance line col txt
      match out with
      | .tok k => lexLoop fuel (inp.drop n) l' c' ({ kind := k, text := String.ofList txt, line := line, col := col } :: acc)
      | .skip => lexLoop fuel (inp.drop n) l' c' acc
    | (none, via) =>
      -- lexical error: drop the viable prefix and the offending character
      let n := via + 1
      let (l', c') := advance line col (inp.take n)
      lexLoop fuel (inp.drop n) l' c' acc

/-- number of lexical errors (dropped character runs) — the real lexer only prints them to the console -/
def lexErrLoop : Nat → List Char → Nat → Nat
  | 0, _, n => n
  | _, [], n => n
  | fuel + 1, inp, n =>
    match bestMatch inp with
    | (some (_, k), _) => lexErrLoop fuel (inp.drop k) n
    | (none, via) => lexErrLoop fuel (inp.drop (via + 1)) (n + 1)

def lexErrors (s : String) : Nat := let cs := s.toList; lexErrLoop (cs.length + 1) cs 0

/-- All tokens, hidden ones included, in source order. -/
def lexRaw (s : String) : List RawTok :=
  let cs := s.toList
  lexLoop (cs.length + 1) cs 1 0 []

/-- The parser's view: visible tokens numbered from 0, and for each gap between visible
tokens (before token `i`; the last entry is the gap after the last token) the comments in
it. -/
structure TokStream where
  toks : List Tok
  gaps : List (List Comment)
  deriving Repr, Inhabited

def splitStream : List RawTok → Nat → Nat → List Comment → List Tok → List (List Comment) → TokStream
  | [], _, _, pend, ts, gs => { toks := ts.reverse, gaps := (pend.reverse :: gs).reverse }
  | r :: rs, i, cid, pend, ts, gs =>
    if r.hidden then splitStream rs i (cid + 1) ({ text := r.text, line := r.line, id := cid } :: pend) ts gs
    else splitStream rs (i + 1) cid [] ({ kind := r.kind, text := r.text, line := r.line, col := r.col, idx := i } :: ts) (pend.reverse :: gs)

def lex (s : String) : TokStream := splitStream (lexRaw s) 0 0 [] [] []

end FinProtoc.Dsl
