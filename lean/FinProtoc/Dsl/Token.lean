/-!
# Tokens of PacketDSL

One constructor per entry of the ANTLR vocabulary of `grammar/PacketDsl.g4`
(the 18 implicit literals `T__0 … T__17`, the named lexer rules, the hidden-channel
`LINE_COMMENT`).  `WS` is skipped by the lexer and never becomes a token.
-/
namespace FinProtoc.Dsl

inductive TK
  | kwOptions | lbrace | rbrace | eq | calcFrom | rparen | lengthOf | lparen | tagAt
  | kwTrue | kwFalse | charLb | rbrack | zcharLb | kwString | charArr | kwAs | lbrack
  | kwChar | uint8 | uint16 | uint32 | uint64 | int8 | int16 | int32 | int64 | float32 | float64
  | digits | string | padAttr | padChar | root | packet | repeat_ | metadata | match_
  | colon | comma | semi | ident | strLit | lineComment
  deriving DecidableEq, Repr, Inhabited

/-- The display name the Go harness prints (`SymbolicNames`, else `LiteralNames`). -/
def TK.name : TK → String
  | .kwOptions => "'options'" | .lbrace => "'{'" | .rbrace => "'}'" | .eq => "'='"
  | .calcFrom => "'@calculatedFrom('" | .rparen => "')'" | .lengthOf => "'@lengthOf('"
  | .lparen => "'('" | .tagAt => "'@tag('" | .kwTrue => "'true'" | .kwFalse => "'false'"
  | .charLb => "'char['" | .rbrack => "']'" | .zcharLb => "'zchar['" | .kwString => "'string'"
  | .charArr => "'char[]'" | .kwAs => "'as'" | .lbrack => "'['"
  | .kwChar => "CHAR" | .uint8 => "UINT8" | .uint16 => "UINT16" | .uint32 => "UINT32" | .uint64 => "UINT64"
  | .int8 => "INT8" | .int16 => "INT16" | .int32 => "INT32" | .int64 => "INT64"
  | .float32 => "FLOAT32" | .float64 => "FLOAT64" | .digits => "DIGITS" | .string => "STRING"
  | .padAttr => "PADDING_ATTR" | .padChar => "PADDING_CHAR" | .root => "ROOT" | .packet => "PACKET"
  | .repeat_ => "REPEAT" | .metadata => "METADATA" | .match_ => "MATCH" | .colon => "COLON"
  | .comma => "COMMA" | .semi => "SEMICOLON" | .ident => "IDENTIFIER" | .strLit => "STRING_LITERAL"
  | .lineComment => "LINE_COMMENT"

/-- A comment on the hidden channel: its text and the line it starts on. -/
structure Comment where
  text : String
  line : Nat
  /-- running number among all comments of the text (identity for the formatter's seen-set) -/
  id : Nat
  deriving DecidableEq, Repr, Inhabited

/-- A token.  `idx` is the index among the *visible* (default-channel) tokens. -/
structure Tok where
  kind : TK
  text : String
  line : Nat
  col : Nat
  idx : Nat := 0
  deriving DecidableEq, Repr, Inhabited

/-- A raw lexer product: visible token or hidden comment. -/
structure RawTok where
  kind : TK
  text : String
  line : Nat
  col : Nat
  deriving DecidableEq, Repr, Inhabited

def RawTok.hidden (t : RawTok) : Bool := t.kind == .lineComment

end FinProtoc.Dsl
