import FinProtoc.Spec
import FinProtoc.Typed
/-!
# The Wireshark dissector: IR, semantics, the declared byte ranges, the validator

The Lua the generator prints is an imperative program over a running `offset`.  The IR keeps what
matters for C15: which declared field is attributed which `buf(offset, len)`, how `offset` moves,
how prefixes and match keys are read (width, byte order, where), which helper is called, whether its
returned offset is assigned, and the order in which `local function`s become visible.
There is no Lua interpreter in the sandbox: this semantics is the only executable meaning (DESIGN §10).
-/
namespace FinProtoc.Lua
open FinProtoc

inductive LLen
  | lit (n : Nat)
  | var (v : String)
  deriving Repr, DecidableEq, Inhabited

/-- statements without nested bodies (everything that can stand inside a `for` body) -/
inductive LSimple
  | readLocal (v : String) (w : Nat) (le : Bool)      -- local v = buf(offset, w):uint()      (offset unchanged)
  | readStr (v : String) (skip : Nat) (len : LLen)    -- local v = buf(offset + skip, len):string()
  | add (field : String) (len : LLen)                 -- tree:add(fields.<field>, buf(offset, len))
  | addText (len : LLen)                              -- tree:add("…", buf(offset, len)): no declared field
  | adv (len : LLen)                                  -- offset = offset + len
  | call (fn : String) (assign : Bool)                -- [offset =] fn(buf, pinfo, tree, offset)
  | nop                                               -- display-only statement
  deriving Repr, DecidableEq, Inhabited

inductive LStmt
  | simple (s : LSimple)
  | forLoop (count : String) (body : List LSimple)    -- for i=1,count do body end
  | ifChain (key : String) (arms : List (Key × String × Bool))   -- if key == k then [offset =] fn(...) elseif … end
  deriving Repr, DecidableEq, Inhabited

structure LFunc where
  name : String
  body : List LStmt
  deriving Repr, Inhabited

/-- `funcs` in file order (a `local function` is visible in its own body and in everything after it) -/
structure LProg where
  funcs : List LFunc
  main : List LStmt
  deriving Repr, Inhabited

inductive LVal
  | num (n : Nat)
  | str (bs : Bytes)
  deriving Repr, DecidableEq, Inhabited

structure LState where
  offset : Nat
  vars : List (String × LVal) := []
  out : List (String × Nat × Nat) := []     -- (field id, offset, length) in display order
  deriving Repr, Inhabited

def lenOf (s : LState) : LLen → Option Nat
  | .lit n => some n
  | .var v => match s.vars.lookup v with | some (.num n) => some n | _ => none

/-- `buf(off, len)` exists only inside the buffer -/
def slice (bs : Bytes) (off len : Nat) : Option Bytes :=
  if off + len ≤ bs.length then some ((bs.drop off).take len) else none

def keyEq (k : Key) (v : LVal) : Bool :=
  match k, v with
  | .int a, .num n => a = n
  | .str a, .str b => a = b
  | _, _ => false

/-- calling `fn` with the functions `vis` visible, at `offset`, with the ranges shown so far:
the offset the callee returns and the ranges afterwards -/
abbrev LCall := List LFunc → String → Nat → List (String × Nat × Nat) → Option (Nat × List (String × Nat × Nat))

def doCall (call : LCall) (vis : List LFunc) (fn : String) (assign : Bool) (s : LState) : Option LState := do
  let (off', out') ← call vis fn s.offset s.out
  pure { s with out := out', offset := if assign then off' else s.offset }

def runSimple (bs : Bytes) (call : LCall) (vis : List LFunc) : LSimple → LState → Option LState
  | .readLocal v w le, s => do
    let x ← slice bs s.offset w
    pure { s with vars := (v, .num (decInt le x)) :: s.vars }
  | .readStr v skip len, s => do
    let n ← lenOf s len
    let x ← slice bs (s.offset + skip) n
    pure { s with vars := (v, .str x) :: s.vars }
  | .add f len, s => do
    let n ← lenOf s len
    let _ ← slice bs s.offset n
    pure { s with out := s.out ++ [(f, s.offset, n)] }
  | .addText len, s => do
    let n ← lenOf s len
    let _ ← slice bs s.offset n
    pure s
  | .adv len, s => do
    let n ← lenOf s len
    pure { s with offset := s.offset + n }
  | .call fn assign, s => doCall call vis fn assign s
  | .nop, s => some s

def runSimples (bs : Bytes) (call : LCall) (vis : List LFunc) : List LSimple → LState → Option LState
  | [], s => some s
  | st :: rest, s => do let s' ← runSimple bs call vis st s; runSimples bs call vis rest s'

def runLoop (bs : Bytes) (call : LCall) (vis : List LFunc) (body : List LSimple) : Nat → LState → Option LState
  | 0, s => some s
  | n + 1, s => do let s' ← runSimples bs call vis body s; runLoop bs call vis body n s'

def runArms (call : LCall) (vis : List LFunc) (kv : LVal) : List (Key × String × Bool) → LState → Option LState
  | [], s => some s            -- no arm matches: nothing happens (the payload is skipped)
  | (k, fn, assign) :: rest, s => if keyEq k kv then doCall call vis fn assign s else runArms call vis kv rest s

def runStmt (bs : Bytes) (call : LCall) (vis : List LFunc) : LStmt → LState → Option LState
  | .simple st, s => runSimple bs call vis st s
  | .forLoop count body, s => do
    let n ← lenOf s (.var count)
    runLoop bs call vis body n s
  | .ifChain key arms, s =>
    match s.vars.lookup key with
    | none => none
    | some kv => runArms call vis kv arms s

def runStmts (bs : Bytes) (call : LCall) (vis : List LFunc) : List LStmt → LState → Option LState
  | [], s => some s
  | st :: rest, s => do let s' ← runStmt bs call vis st s; runStmts bs call vis rest s'

/-- the function `fn` as seen from a place where `vis` is visible, with what is visible inside it -/
def visibleUpTo (vis : List LFunc) (fn : String) : Option (LFunc × List LFunc) :=
  (vis[vis.findIdx (·.name = fn)]?).map fun f => (f, vis.take (vis.findIdx (·.name = fn) + 1))

def callFn (bs : Bytes) : Nat → LCall
  | 0 => fun _ _ _ _ => none
  | fuel + 1 => fun vis fn off out =>
    match visibleUpTo vis fn with
    | none => none            -- calling a name that is not (yet) defined
    | some (f, vis') => (runStmts bs (callFn bs fuel) vis' f.body { offset := off, out := out }).map fun s => (s.offset, s.out)

/-- run the main dissector over `bs`: the attributed ranges and the final offset -/
def dissect (P : LProg) (fuel : Nat) (bs : Bytes) : Option (List (String × Nat × Nat) × Nat) :=
  (runStmts bs (callFn bs fuel) P.funcs P.main { offset := 0 }).map fun s => (s.out, s.offset)

/-! ## The declared ranges -/

/-- field identifier: `<snake packet>_<snake field>`; `snake` is the REAL `strcase.ToSnake`, tabulated by the harness -/
def fieldId (snake : String → String) (pkt fld : String) : String := snake pkt ++ "_" ++ snake fld

mutual
/-- ranges of one non-repeated value of field `fld` of packet `pkt` starting at `off`: (ranges, next offset) -/
def rangesVal (S : Schema) (snake : String → String) (pkt fld : String) : FKind → Val → Nat → Option (List (String × Nat × Nat) × Nat)
  | .scalar t, .int _, off => some ([(fieldId snake pkt fld, off, t.width)], off + t.width)
  | .lengthOf t _, .int _, off => some ([(fieldId snake pkt fld, off, t.width)], off + t.width)
  | .checksum t _, .int _, off => some ([(fieldId snake pkt fld, off, t.width)], off + t.width)
  | .fixed n _, .str _, off => some ([(fieldId snake pkt fld, off, n)], off + n)
  | .dyn, .str bs, off =>
    some ([(fieldId snake pkt fld, off + S.cfg.strPfx.width, bs.length)], off + S.cfg.strPfx.width + bs.length)
  | .obj q, .struct vs, off => do let p ← S.find q; rangesFields S snake p.name p.fields vs off
  | .matchOn _ _, .dyn q vs, off => do let p ← S.find q; rangesFields S snake p.name p.fields vs off
  | _, _, _ => none
def rangesList (S : Schema) (snake : String → String) (pkt fld : String) (k : FKind) : List Val → Nat → Option (List (String × Nat × Nat) × Nat)
  | [], off => some ([], off)
  | v :: vs, off => do
    let (a, o1) ← rangesVal S snake pkt fld k v off
    let (b, o2) ← rangesList S snake pkt fld k vs o1
    pure (a ++ b, o2)
def rangesFields (S : Schema) (snake : String → String) (pkt : String) : List Field → List Val → Nat → Option (List (String × Nat × Nat) × Nat)
  | [], [], off => some ([], off)
  | f :: fs, v :: vs, off => do
    let (a, o1) ← (if f.rep then
        match v with
        | .list es => rangesList S snake pkt f.name f.kind es (off + S.cfg.listPfx.width)
        | _ => none
      else rangesVal S snake pkt f.name f.kind v off)
    let (b, o2) ← rangesFields S snake pkt fs vs o1
    pure (a ++ b, o2)
  | _, _, _ => none
end

def ranges (S : Schema) (snake : String → String) (pkt : String) (vs : List Val) : Option (List (String × Nat × Nat) × Nat) := do
  let p ← S.find pkt
  rangesFields S snake p.name p.fields vs 0

end FinProtoc.Lua

namespace FinProtoc.Lua
open FinProtoc

/-! ## The canonical dissector of a schema, and the validator -/

def fnName (snake : String → String) (pkt : String) : String := "dissect_" ++ snake pkt

def isKeyField (fs : List Field) (name : String) : Bool :=
  fs.any fun f => match f.kind with | .matchOn k _ => k = name | _ => false

/-- statements that show one non-repeated value of kind `k` as field `id` (also the body of a list loop) -/
def elemStmts (S : Schema) (snake : String → String) (pkt fld : String) : FKind → List LSimple
  | .scalar t | .lengthOf t _ | .checksum t _ => [.add (fieldId snake pkt fld) (.lit t.width), .adv (.lit t.width)]
  | .fixed n _ => [.add (fieldId snake pkt fld) (.lit n), .adv (.lit n)]
  | .dyn =>
    let lv := snake pkt ++ "_" ++ snake fld ++ "_len"
    [.readLocal lv S.cfg.strPfx.width S.cfg.le, .addText (.lit S.cfg.strPfx.width), .adv (.lit S.cfg.strPfx.width),
     .add (fieldId snake pkt fld) (.var lv), .adv (.var lv)]
  | .obj q => [.call (fnName snake q) true]
  | .matchOn _ _ => []

/-- the local a match key is kept in, read before the key field itself is shown -/
def keyLocal (S : Schema) (snake : String → String) (f : Field) : List LSimple :=
  match f.kind with
  | .scalar t | .lengthOf t _ | .checksum t _ => [.readLocal (snake f.name) t.width S.cfg.le]
  | .fixed n _ => [.readStr (snake f.name) 0 (.lit n)]
  | .dyn => [.readLocal "_len" S.cfg.strPfx.width S.cfg.le, .readStr (snake f.name) S.cfg.strPfx.width (.var "_len")]
  | _ => []

def fieldStmts (S : Schema) (snake : String → String) (pkt : String) (all : List Field) (f : Field) : List LStmt :=
  (if isKeyField all f.name && !f.rep then (keyLocal S snake f).map .simple else []) ++
  (if f.rep then
    let sv := snake pkt ++ "_" ++ snake f.name ++ "_size"
    [.simple (.readLocal sv S.cfg.listPfx.width S.cfg.le), .simple (.addText (.lit S.cfg.listPfx.width)),
     .simple (.adv (.lit S.cfg.listPfx.width)), .forLoop sv (elemStmts S snake pkt f.name f.kind)]
   else match f.kind with
    | .matchOn key pairs => [.ifChain (snake key) (pairs.map fun (k, q) => (k, fnName snake q, true))]
    | k => (elemStmts S snake pkt f.name k).map .simple)

def packetStmts (S : Schema) (snake : String → String) (p : Packet) : List LStmt :=
  (p.fields.map (fieldStmts S snake p.name p.fields)).flatten

/-- every function a body calls -/
def calleesOf (body : List LStmt) : List String :=
  (body.map fun st => match st with
    | .simple (.call fn _) => [fn]
    | .forLoop _ b => b.filterMap fun s => match s with | .call fn _ => some fn | _ => none
    | .ifChain _ arms => arms.map (·.2.1)
    | _ => []).flatten

/-- a `local function` may call itself and the functions defined before it -/
def orderOk (funcs : List LFunc) : Bool :=
  (funcs.zipIdx.all fun (f, i) => (calleesOf f.body).all fun c => (funcs.take (i + 1)).any (·.name = c))

/-- the emitted dissector IS the canonical one: one helper per non-root packet with exactly the canonical
body, the canonical main body for the root packet, helpers defined before use -/
def confDis (S : Schema) (snake : String → String) (D : LProg) : Bool :=
  (S.packets.all fun p =>
    if p.root then decide (D.main = packetStmts S snake p)
    else match D.funcs.find? (·.name = fnName snake p.name) with
      | some f => decide (f.body = packetStmts S snake p)
      | none => false) &&
  orderOk D.funcs && (calleesOf D.main).all (fun c => D.funcs.any (·.name = c)) &&
  (S.packets.filter (·.root)).length = 1

end FinProtoc.Lua
