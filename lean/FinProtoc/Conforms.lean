import FinProtoc.IR
/-!
# Validators: decidable conditions on an emitted program `P` relative to a schema `S`

`confEnc S P = true` / `confDec S P = true` are what the soundness theorems of
`Props/` take as hypothesis.  They constrain exactly what matters for the bytes and
nothing else (no variable names beyond consistency, no boilerplate).
-/
namespace FinProtoc.Conforms
open FinProtoc FinProtoc.IR FinProtoc.Wire

/-- the pad arguments of an emitted fixed-string call agree with the declared pad:
the argument-less variant means "space on the right" -/
def padArgOk (declared : Pad) : Option Pad → Bool
  | none => declared = Pad.default
  | some p => p = declared

/-- the byte order of an emitted call is the configured one; a one-byte quantity has no order -/
def leOk (S : Schema) (w : Nat) (le : Bool) : Bool := w = 1 || le = S.cfg.le

def elemOkE (S : Schema) (k : FKind) : Elem → Bool
  | .scalar w le => (match k with | .scalar t => w = t.width | _ => false) && leOk S w le
  | .string pw le _ => k = .dyn && pw = S.cfg.strPfx.width && leOk S pw le
  | .fixed n pad => match k with | .fixed n' p => n = n' && padArgOk p pad | _ => false
  | .object ty => k = .obj ty

/-- the step emitted for field `f` at position `i`, when `f` is neither a length-of field
nor the target of one -/
def plainOkE (S : Schema) (i : Nat) (f : Field) (st : EStep) : Bool :=
  if f.rep then
    match st with
    | .list pw le e j => pw = S.cfg.listPfx.width && leOk S pw le && elemOkE S f.kind e && j = i
    | _ => false
  else
    match f.kind, st with
    | .scalar t, .scalar w le j => w = t.width && leOk S w le && j = i
    | .fixed n p, .fixed n' pad j => n' = n && padArgOk p pad && j = i
    | .dyn, .string pw le j => pw = S.cfg.strPfx.width && leOk S pw le && j = i
    | .obj pkt, .object ty j => ty = pkt && j = i
    | .matchOn _ _, .dynamic j => j = i
    | .checksum t algo, .checksum algo' w le j => algo' = algo && w = t.width && leOk S w le && j = i
    | _, _ => false

def isCallKind : FKind → Bool
  | .obj _ | .matchOn _ _ => true
  | _ => false

/-- position of the first field called `name` -/
def fieldIdx (fs : List Field) (name : String) : Option Nat :=
  if fs.findIdx (·.name = name) < fs.length then some (fs.findIdx (·.name = name)) else none

/-- a length field whose slot has been written and whose target has not been reached yet -/
structure Pending where
  pv : String        -- the variable holding the slot's position
  w : Nat            -- the declared width of the length field
  target : String
  deriving DecidableEq, Repr, Inhabited

/-- what the next field is for the encoder plan -/
inductive Role
  | len (t : Scalar) (target : String)   -- a length-of field: its slot is written here
  | target (p : Pending)                 -- the target of the pending length field: mark, step, mark, patch
  | plain                                -- exactly one step
  | bad                                  -- a second length-of field while one is pending
  deriving Repr, Inhabited

def roleOf (pend : Option Pending) (f : Field) : Role :=
  match f.kind, f.rep, pend with
  | .lengthOf t target, false, none => .len t target
  | .lengthOf _ _, false, some _ => .bad
  | _, _, some p => if f.name = p.target then .target p else .plain
  | _, _, none => .plain

/-- steps for the fields `fs` (a suffix of the packet's fields `all`) starting at member position `i`;
`pend` is the length field whose slot is written and whose target is still to come.  The length field may be
anywhere before its target: the slot is emitted at the length field, the fields in between are ordinary steps,
and `mark start; target; mark end; patch` is emitted at the target. -/
def confFieldsE (S : Schema) (all : List Field) : Option Pending → Nat → List Field → List EStep → Bool
  | none, _, [], [] => true
  | pend, i, f :: fs, steps =>
    match roleOf pend f, steps with
    | .len t target, .slot w1 le1 pv :: rest =>
      w1 = t.width && leOk S w1 le1 && confFieldsE S all (some ⟨pv, t.width, target⟩) (i + 1) fs rest
    | .target p, .mark sv :: st2 :: .mark ev :: .patch w2 le2 pv' sv' ev' slice :: rest =>
      w2 = p.w && leOk S w2 le2 && pv' = p.pv && sv' = sv && ev' = ev && sv != ev && p.pv != sv && p.pv != ev
        && fieldIdx all p.target = some i && !f.rep && isCallKind f.kind && sliceOk p.w slice
        && plainOkE S i f st2 && confFieldsE S all none (i + 1) fs rest
    | .plain, st :: rest => plainOkE S i f st && confFieldsE S all pend (i + 1) fs rest
    | _, _ => false
  | _, _, _, _ => false

def namesNodup (fs : List Field) : Bool := (fs.map (·.name)).eraseDups.length = fs.length

def confPacketE (S : Schema) (P : Prog) (p : Packet) : Bool :=
  match P.find p.name with
  | some st => st.members.length = p.fields.length && confFieldsE S p.fields none 0 p.fields st.enc
  | none => false

def confEnc (S : Schema) (P : Prog) : Bool := S.packets.all (confPacketE S P)

/-! ## Decoders -/

def elemOkD (S : Schema) (k : FKind) : Elem → Bool
  | .scalar w le => (match k with | .scalar t => w = t.width | _ => false) && leOk S w le
  | .string pw le cm => k = .dyn && pw = S.cfg.strPfx.width && leOk S pw le && cm = .unsigned
  | .fixed n pad => match k with | .fixed n' p => n = n' && padArgOk p pad | _ => false
  | .object ty => k = .obj ty

/-- integer key literals are compared in the key's width -/
def normKey (kw : Option Nat) : Key × String → Key × String
  | (.int a, tgt) => (match kw with | some w => .int (a % 256 ^ w) | none => .int a, tgt)
  | e => e

/-- the generated table lists the DSL's pairs (same keys up to the key width, same targets, same order) -/
def tableOk (kw : Option Nat) (pairs : List (Key × String)) (t : Table) : Bool :=
  t.keyWidth = kw && t.errOnMiss && t.entries.map (normKey kw) = pairs.map (normKey kw)

def plainOkD (S : Schema) (P : Prog) (all : List Field) (i : Nat) (f : Field) (st : DStep) : Bool :=
  if f.rep then
    match st with
    | .list pw le cm e j => pw = S.cfg.listPfx.width && leOk S pw le && cm = .unsigned && elemOkD S f.kind e && j = i
    | _ => false
  else
    match f.kind, st with
    | .scalar t, .scalar w le j => w = t.width && leOk S w le && j = i
    | .lengthOf t _, .scalar w le j => w = t.width && leOk S w le && j = i
    | .checksum t _, .scalar w le j => w = t.width && leOk S w le && j = i
    | .fixed n p, .fixed n' pad j => n' = n && padArgOk p pad && j = i
    | .dyn, .string pw le cm j => pw = S.cfg.strPfx.width && leOk S pw le && cm = .unsigned && j = i
    | .obj pkt, .object ty j => ty = pkt && j = i
    | .matchOn key pairs, .dispatch k tbl j =>
      j = i && fieldIdx all key = some k && k < i &&
        (match keyWidthOf all key, P.table tbl with
         | some kw, some t => tableOk kw pairs t
         | _, _ => false)
    | _, _ => false

def confFieldsD (S : Schema) (P : Prog) (all : List Field) : Nat → List Field → List DStep → Bool
  | _, [], [] => true
  | i, f :: fs, st :: rest => plainOkD S P all i f st && confFieldsD S P all (i + 1) fs rest
  | _, _, _ => false

def confPacketD (S : Schema) (P : Prog) (p : Packet) : Bool :=
  match P.find p.name with
  | some st => st.members.length = p.fields.length && confFieldsD S P p.fields 0 p.fields st.dec
  | none => false

def confDec (S : Schema) (P : Prog) : Bool := S.packets.all (confPacketD S P)

end FinProtoc.Conforms
