import FinProtoc.Spec
/-!
# Value-domain predicates (decidable, structural)

* `Val.depth` – nesting depth (the fuel the IR interpreters need).
* `ckFree*`   – encoding this value touches no checksum field, so its bytes do not depend on
                what precedes it in the buffer.
* `lenSafe*`  – every length-of field is immediately followed by its target and the target's
                value is checksum-free (DESIGN §8.0: a checksum *inside* a length-measured
                payload makes "the bytes that precede it" ambiguous and is outside the claim).
-/
namespace FinProtoc

mutual
def Val.depth : Val → Nat
  | .int _ => 0
  | .str _ => 0
  | .list vs => depthList vs + 1
  | .struct vs => depthList vs + 1
  | .dyn _ vs => depthList vs + 1
def depthList : List Val → Nat
  | [] => 0
  | v :: vs => max v.depth (depthList vs)
end

mutual
/-- structural equality test on messages (`Val` is a nested inductive: no derived `DecidableEq`) -/
def Val.beq : Val → Val → Bool
  | .int a, .int b => a == b
  | .str a, .str b => a == b
  | .list a, .list b => beqList a b
  | .struct a, .struct b => beqList a b
  | .dyn p a, .dyn q b => p == q && beqList a b
  | _, _ => false
def beqList : List Val → List Val → Bool
  | [], [] => true
  | a :: as, b :: bs => a.beq b && beqList as bs
  | _, _ => false
end

theorem depth_le_of_mem {v : Val} {vs : List Val} (h : v ∈ vs) : v.depth ≤ depthList vs := by
  induction vs with
  | nil => cases h
  | cons x xs ih =>
    simp only [depthList]
    cases h with
    | head => exact Nat.le_max_left _ _
    | tail _ h => exact Nat.le_trans (ih h) (Nat.le_max_right _ _)

theorem depth_le_of_getElem? {v : Val} {vs : List Val} {i : Nat} (h : vs[i]? = some v) : v.depth ≤ depthList vs :=
  depth_le_of_mem (List.mem_of_getElem? h)

namespace Wire

mutual
def ckFreeVal (S : Schema) : FKind → Val → Bool
  | .obj pkt, .struct vs => match S.find pkt with | some p => ckFreeFields S p.fields vs | none => true
  | .matchOn _ _, .dyn pkt vs => match S.find pkt with | some p => ckFreeFields S p.fields vs | none => true
  | .checksum _ _, _ => false
  | _, _ => true
def ckFreeList (S : Schema) (k : FKind) : List Val → Bool
  | [] => true
  | v :: vs => ckFreeVal S k v && ckFreeList S k vs
def ckFreeFields (S : Schema) : List Field → List Val → Bool
  | f :: fs, v :: vs =>
    (if f.rep then (match v with | .list es => ckFreeList S f.kind es | _ => true) else ckFreeVal S f.kind v)
      && ckFreeFields S fs vs
  | _, _ => true
end

mutual
def lenSafeVal (S : Schema) : FKind → Val → Bool
  | .obj pkt, .struct vs => match S.find pkt with | some p => lenSafeFields S p.fields vs | none => true
  | .matchOn _ _, .dyn pkt vs => match S.find pkt with | some p => lenSafeFields S p.fields vs | none => true
  | _, _ => true
def lenSafeList (S : Schema) (k : FKind) : List Val → Bool
  | [] => true
  | v :: vs => lenSafeVal S k v && lenSafeList S k vs
def lenSafeFields (S : Schema) : List Field → List Val → Bool
  | f :: fs, v :: vs =>
    (if f.rep then (match v with | .list es => lenSafeList S f.kind es | _ => true) else lenSafeVal S f.kind v)
      && (match f.kind, fs, vs with
          | .lengthOf _ _, f2 :: _, v2 :: _ => !f2.rep && ckFreeVal S f2.kind v2
          | _, _, _ => true)
      && lenSafeFields S fs vs
  | _, _ => true
end

end Wire
end FinProtoc
