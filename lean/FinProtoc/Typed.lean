import FinProtoc.Spec
/-!
# Value-domain predicates (decidable, structural)

* `Val.depth` – nesting depth (the fuel the IR interpreters need).
* `ckFree*`   – encoding this value touches no checksum field, so its bytes do not depend on
                what precedes it in the buffer.
* `lenSafe*`  – between a length-of field and its target (target included) no value contains a
                checksum field (DESIGN §8.0: a checksum computed while the length slot still holds its
                placeholder makes "the bytes that precede it" ambiguous and is outside the claim).
-/
namespace FinProtoc

mutual
def Val.depth : Val → Nat
  | .int _ => 0
  | .str _ => 0
  | .list vs => depthList vs + 1
  | .struct vs => depthList vs + 1
  | .dyn _ vs => depthList vs + 1
def depthList : List Val → Nat
  | [] => 0
  | v :: vs => max v.depth (depthList vs)
end

mutual
/-- structural equality test on messages (`Val` is a nested inductive: no derived `DecidableEq`) -/
def Val.beq : Val → Val → Bool
  | .int a, .int b => a == b
  | .str a, .str b => a == b
  | .list a, .list b => beqList a b
  | .struct a, .struct b => beqList a b
  | .dyn p a, .dyn q b => p == q && beqList a b
  | _, _ => false
def beqList : List Val → List Val → Bool
  | [], [] => true
  | a :: as, b :: bs => a.beq b && beqList as bs
  | _, _ => false
end

theorem depth_le_of_mem {v : Val} {vs : List Val} (h : v ∈ vs) : v.depth ≤ depthList vs := by
  induction vs with
  | nil => cases h
  | cons x xs ih =>
    simp only [depthList]
    cases h with
    | head => exact Nat.le_max_left _ _
    | tail _ h => exact Nat.le_trans (ih h) (Nat.le_max_right _ _)

theorem depth_le_of_getElem? {v : Val} {vs : List Val} {i : Nat} (h : vs[i]? = some v) : v.depth ≤ depthList vs :=
  depth_le_of_mem (List.mem_of_getElem? h)

namespace Wire

mutual
def ckFreeVal (S : Schema) : FKind → Val → Bool
  | .obj pkt, .struct vs => match S.find pkt with | some p => ckFreeFields S p.fields vs | none => true
  | .matchOn _ _, .dyn pkt vs => match S.find pkt with | some p => ckFreeFields S p.fields vs | none => true
  | .checksum _ _, _ => false
  | _, _ => true
def ckFreeList (S : Schema) (k : FKind) : List Val → Bool
  | [] => true
  | v :: vs => ckFreeVal S k v && ckFreeList S k vs
def ckFreeFields (S : Schema) : List Field → List Val → Bool
  | f :: fs, v :: vs =>
    (if f.rep then (match v with | .list es => ckFreeList S f.kind es | _ => true) else ckFreeVal S f.kind v)
      && ckFreeFields S fs vs
  | _, _ => true
end

/-- one field's value is checksum-free -/
def ckFreeField (S : Schema) (f : Field) (v : Val) : Bool :=
  if f.rep then (match v with | .list es => ckFreeList S f.kind es | _ => true) else ckFreeVal S f.kind v

/-- the fields from the front up to and including the first one called `target` are checksum-free -/
def ckFreeUpTo (S : Schema) (target : String) : List Field → List Val → Bool
  | f :: fs, v :: vs => ckFreeField S f v && (f.name == target || ckFreeUpTo S target fs vs)
  | _, _ => true

mutual
def lenSafeVal (S : Schema) : FKind → Val → Bool
  | .obj pkt, .struct vs => match S.find pkt with | some p => lenSafeFields S p.fields vs | none => true
  | .matchOn _ _, .dyn pkt vs => match S.find pkt with | some p => lenSafeFields S p.fields vs | none => true
  | _, _ => true
def lenSafeList (S : Schema) (k : FKind) : List Val → Bool
  | [] => true
  | v :: vs => lenSafeVal S k v && lenSafeList S k vs
/-- between a length-of field and its target (target included) no value contains a checksum field -/
def lenSafeFields (S : Schema) : List Field → List Val → Bool
  | f :: fs, v :: vs =>
    (if f.rep then (match v with | .list es => lenSafeList S f.kind es | _ => true) else lenSafeVal S f.kind v)
      && (match f.kind with
          | .lengthOf _ target => ckFreeUpTo S target fs vs
          | _ => true)
      && lenSafeFields S fs vs
  | _, _ => true
end

end Wire
end FinProtoc
