import FinProtoc.Proofs.WireLemmas
/-!
# The declared decoder inverts the declared encoder (specification level, no IR involved)

`plain*` is the value domain of this file: scalars that fit their width, strings whose byte length fits the
prefix, fixed strings that survive pad/trim, lists whose length fits the prefix, nested objects of such members —
i.e. every field kind except match payloads and the computed members (length-of, checksum), whose decoded value
is by design not the caller's.

`dec_enc_all`: for every schema, registry, buffer prefix, suffix and fuel above the nesting depth, decoding the bytes a
plain message encodes to, followed by any suffix, yields exactly that message and leaves exactly the suffix.
-/
namespace FinProtoc.Wire
open FinProtoc

mutual
def plainVal (S : Schema) : FKind → Val → Bool
  | .scalar t, .int n => decide (n < 256 ^ t.width)
  | .fixed n pad, .str bs => decide (trimPad pad (padTo n pad bs) = bs)
  | .dyn, .str bs => decide (bs.length < 256 ^ S.cfg.strPfx.width)
  | .obj pkt, .struct vs => match S.find pkt with | some p => plainFields S p.fields vs | none => false
  | _, _ => false
def plainList (S : Schema) (k : FKind) : List Val → Bool
  | [] => true
  | v :: vs => plainVal S k v && plainList S k vs
def plainFields (S : Schema) : List Field → List Val → Bool
  | [], [] => true
  | f :: fs, v :: vs =>
    (if f.rep then (match v with | .list es => decide (es.length < 256 ^ S.cfg.listPfx.width) && plainList S f.kind es | _ => false)
     else plainVal S f.kind v) && plainFields S fs vs
  | _, _ => false
end

theorem takeN_append (xs sfx : Bytes) : takeN xs.length (xs ++ sfx) = some (xs, sfx) := by
  simp [takeN]

theorem takeN_append' (n : Nat) (xs sfx : Bytes) (h : xs.length = n) : takeN n (xs ++ sfx) = some (xs, sfx) := by
  subst h; exact takeN_append xs sfx

/-- a field that is neither repeated nor a match field is decoded by `decPlain` -/
theorem decField_plain (S : Schema) (call : DCall) (all : List Field) (env : List (String × Val)) (f : Field) (bs : Bytes)
    (hrep : f.rep = false) (hk : ∀ key pairs, f.kind ≠ .matchOn key pairs) :
    decField S call all env f bs = decPlain S call f.kind bs := by
  unfold decField
  simp only [hrep, Bool.false_eq_true, if_false]
  -- `simp` discharges the side condition of the catch-all equation of the `match` with `hk`

def RtV (S : Schema) (reg : Registry) (cf : List Field) (cv : List Val) (k : FKind) (v : Val) (acc : Bytes) : Prop :=
  ∀ r, plainVal S k v = true → encVal S reg cf cv k v acc = some r →
    ∃ xs, r = acc ++ xs ∧ ∀ fuel sfx, v.depth ≤ fuel → decPlain S (dec S fuel) k (xs ++ sfx) = some (v, sfx)
def RtF (S : Schema) (reg : Registry) (cf : List Field) (cv : List Val) (fs : List Field) (vs : List Val) (acc : Bytes) : Prop :=
  ∀ r, plainFields S fs vs = true → encFields S reg cf cv fs vs acc = some r →
    ∃ xs, r = acc ++ xs ∧ ∀ fuel sfx all env, depthList vs ≤ fuel →
      decFields S (dec S fuel) all fs env (xs ++ sfx) = some (vs, sfx)
def RtL (S : Schema) (reg : Registry) (cf : List Field) (cv : List Val) (k : FKind) (vs : List Val) (acc : Bytes) : Prop :=
  ∀ r, plainList S k vs = true → encList S reg cf cv k vs acc = some r →
    ∃ xs, r = acc ++ xs ∧ ∀ fuel sfx, depthList vs ≤ fuel →
      decListN S (dec S fuel) k vs.length (xs ++ sfx) = some (vs, sfx)

theorem plain_not_match {S : Schema} {k : FKind} {v : Val} (h : plainVal S k v = true) : ∀ key pairs, k ≠ .matchOn key pairs := by
  intro key pairs hk
  subst hk
  cases v <;> simp [plainVal] at h

theorem dec_enc_all (S : Schema) (reg : Registry) :
    (∀ cf cv k v acc, RtV S reg cf cv k v acc) ∧
    (∀ cf cv fs vs acc, RtF S reg cf cv fs vs acc) ∧
    (∀ cf cv k vs acc, RtL S reg cf cv k vs acc) := by
  apply encVal.mutual_induct S (motive_1 := RtV S reg) (motive_2 := RtF S reg) (motive_3 := RtL S reg)
  · -- scalar
    intro cf cv t n acc r hp h
    simp [encVal] at h; subst h
    simp only [plainVal, decide_eq_true_eq] at hp
    refine ⟨_, rfl, ?_⟩
    intro fuel sfx _
    simp only [decPlain, takeN_append' t.width _ sfx (encInt_length _ _ _), bind, Option.bind, decInt_encInt _ _ _ hp]
    rfl
  · -- fixed, fits
    intro cf cv n pad bs acc hle r hp h
    simp [encVal, hle] at h; subst h
    simp only [plainVal, decide_eq_true_eq] at hp
    refine ⟨_, rfl, ?_⟩
    intro fuel sfx _
    simp only [decPlain, takeN_append' n _ sfx (padTo_length _ _ _ hle), bind, Option.bind, hp]
    rfl
  · -- fixed, too long
    intro cf cv n pad bs acc hle r _ h
    simp [encVal, hle] at h
  · -- dyn
    intro cf cv bs acc r hp h
    simp [encVal] at h; subst h
    simp only [plainVal, decide_eq_true_eq] at hp
    refine ⟨encInt S.cfg.le S.cfg.strPfx.width bs.length ++ bs, by simp, ?_⟩
    intro fuel sfx _
    have h1 : takeN S.cfg.strPfx.width ((encInt S.cfg.le S.cfg.strPfx.width bs.length ++ bs) ++ sfx) =
        some (encInt S.cfg.le S.cfg.strPfx.width bs.length, bs ++ sfx) := by
      rw [List.append_assoc]; exact takeN_append' _ _ _ (encInt_length _ _ _)
    simp only [decPlain, h1, bind, Option.bind, decInt_encInt _ _ _ hp, takeN_append]
    rfl
  · -- obj
    intro cf cv pkt vs acc ih r hp h
    simp only [encVal, bind_eq_some'] at h
    obtain ⟨p, hfind, h⟩ := h
    simp only [plainVal, hfind] at hp
    obtain ⟨xs, rfl, hdec⟩ := ih p r hp h
    refine ⟨xs, rfl, ?_⟩
    intro fuel sfx hd
    cases fuel with
    | zero => simp [Val.depth] at hd
    | succ f =>
      have hd' : depthList vs ≤ f := by simp [Val.depth] at hd; omega
      simp only [decPlain, dec, hfind, bind, Option.bind, hdec f sfx p.fields [] hd']
      rfl
  · -- matchOn: not plain
    intro cf cv key pairs pkt vs acc _ r hp _
    simp [plainVal] at hp
  · -- lengthOf: not plain
    intro cf cv t target n acc r hp _
    simp [plainVal] at hp
  · -- checksum: not plain
    intro cf cv t algo n acc r hp _
    simp [plainVal] at hp
  · -- ill-typed combinations
    intro v cf cv k acc h1 h2 h3 h4 h5 h6 h7 r _ h
    exfalso
    unfold encVal at h
    split at h <;> first | (simp at h; done) | skip
    all_goals first | exact h1 _ _ rfl rfl | exact h2 _ _ _ rfl rfl | exact h3 _ rfl rfl | exact h4 _ _ rfl rfl
                    | exact h5 _ _ _ _ rfl rfl | exact h6 _ _ _ rfl rfl | exact h7 _ _ _ rfl rfl | skip
    all_goals simp_all
  · -- fields, nil
    intro cf cv acc r _ h
    simp [encFields] at h; subst h
    refine ⟨[], by simp, ?_⟩
    intro fuel sfx all env _
    simp [decFields]
  · -- fields, cons
    intro cf cv f fs v vs acc ihL ihV ihF r hp h
    by_cases hrep : f.rep
    · cases v with
      | list es =>
        simp only [encFields, hrep, if_true] at h
        simp only [plainFields, hrep, if_true, Bool.and_eq_true, decide_eq_true_eq] at hp
        obtain ⟨⟨hlen, hpl⟩, hpf⟩ := hp
        obtain ⟨acc1, h1, h2⟩ := bind_eq_some'.mp h
        obtain ⟨x1, hx1, hd1⟩ := ihL acc1 hpl h1
        subst hx1
        obtain ⟨x2, hx2, hd2⟩ := ihF _ r hpf h2
        subst hx2
        refine ⟨encInt S.cfg.le S.cfg.listPfx.width es.length ++ x1 ++ x2, by simp [List.append_assoc], ?_⟩
        intro fuel sfx all env hd
        have hde : depthList es ≤ fuel := by
          simp only [depthList, Val.depth] at hd; omega
        have hdv : depthList vs ≤ fuel := by
          simp only [depthList] at hd; omega
        have ht : takeN S.cfg.listPfx.width ((encInt S.cfg.le S.cfg.listPfx.width es.length ++ x1 ++ x2) ++ sfx) =
            some (encInt S.cfg.le S.cfg.listPfx.width es.length, x1 ++ (x2 ++ sfx)) := by
          simp only [List.append_assoc]; exact takeN_append' _ _ _ (encInt_length _ _ _)
        have hfield : decField S (dec S fuel) all env f ((encInt S.cfg.le S.cfg.listPfx.width es.length ++ x1 ++ x2) ++ sfx) =
            some (.list es, x2 ++ sfx) := by
          unfold decField
          simp only [hrep, if_true, ht, bind, Option.bind, decInt_encInt _ _ _ hlen, hd1 fuel (x2 ++ sfx) hde]
          rfl
        simp only [decFields, hfield, bind, Option.bind, hd2 fuel sfx all _ hdv]
        rfl
      | _ => simp [encFields, hrep] at h
    · simp only [Bool.not_eq_true] at hrep
      have h' : (encVal S reg cf cv f.kind v acc >>= fun a => encFields S reg cf cv fs vs a) = some r := by
        cases v <;> simpa [encFields, hrep] using h
      have hp' : plainVal S f.kind v = true ∧ plainFields S fs vs = true := by
        cases v <;> simpa [plainFields, hrep] using hp
      obtain ⟨acc1, h1, h2⟩ := bind_eq_some'.mp h'
      obtain ⟨x1, hx1, hd1⟩ := ihV acc1 hp'.1 h1
      subst hx1
      obtain ⟨x2, hx2, hd2⟩ := ihF _ r hp'.2 h2
      subst hx2
      refine ⟨x1 ++ x2, by simp [List.append_assoc], ?_⟩
      intro fuel sfx all env hd
      have hdv : v.depth ≤ fuel := by simp only [depthList] at hd; omega
      have hdvs : depthList vs ≤ fuel := by simp only [depthList] at hd; omega
      have hfield : decField S (dec S fuel) all env f ((x1 ++ x2) ++ sfx) = some (v, x2 ++ sfx) := by
        rw [decField_plain S _ all env f _ hrep (plain_not_match hp'.1), List.append_assoc]
        exact hd1 fuel (x2 ++ sfx) hdv
      simp only [decFields, hfield, bind, Option.bind, hd2 fuel sfx all _ hdvs]
      rfl
  · -- fields, length mismatch
    intro vs cf cv fs acc h1 h2 r _ h
    exfalso
    unfold encFields at h
    split at h
    · exact h1 rfl rfl
    · exact h2 _ _ _ _ rfl rfl
    · simp at h
  · -- list, nil
    intro cf cv k acc r _ h
    simp [encList] at h; subst h
    refine ⟨[], by simp, ?_⟩
    intro fuel sfx _
    simp [decListN]
  · -- list, cons
    intro cf cv k v vs acc ihV ihL r hp h
    simp only [encList] at h
    simp only [plainList, Bool.and_eq_true] at hp
    obtain ⟨acc1, h1, h2⟩ := bind_eq_some'.mp h
    obtain ⟨x1, hx1, hd1⟩ := ihV acc1 hp.1 h1
    subst hx1
    obtain ⟨x2, hx2, hd2⟩ := ihL _ r hp.2 h2
    subst hx2
    refine ⟨x1 ++ x2, by simp [List.append_assoc], ?_⟩
    intro fuel sfx hd
    have hdv : v.depth ≤ fuel := by simp only [depthList] at hd; omega
    have hdvs : depthList vs ≤ fuel := by simp only [depthList] at hd; omega
    have e1 : decPlain S (dec S fuel) k ((x1 ++ x2) ++ sfx) = some (v, x2 ++ sfx) := by
      rw [List.append_assoc]; exact hd1 fuel (x2 ++ sfx) hdv
    simp only [List.length_cons, decListN, e1, bind, Option.bind, hd2 fuel sfx hdvs]
    rfl

/-- the declared decoder inverts the declared encoder on plain messages, whatever follows in the buffer -/
theorem dec_enc_plain (S : Schema) (reg : Registry) (pkt : String) (vs : List Val) (acc r : Bytes)
    (hp : plainVal S (.obj pkt) (.struct vs) = true) (h : Wire.enc S reg pkt vs acc = some r) :
    ∃ xs, r = acc ++ xs ∧ ∀ fuel sfx, depthList vs < fuel → Wire.dec S fuel pkt (xs ++ sfx) = some (vs, sfx) := by
  unfold Wire.enc at h
  obtain ⟨p, hfind, h⟩ := bind_eq_some'.mp h
  simp only [plainVal, hfind] at hp
  obtain ⟨xs, hx, hd⟩ := (dec_enc_all S reg).2.1 p.fields vs p.fields vs acc r hp h
  refine ⟨xs, hx, ?_⟩
  intro fuel sfx hlt
  cases fuel with
  | zero => omega
  | succ f =>
    simp only [dec, hfind, bind, Option.bind]
    exact hd f sfx p.fields [] (by omega)

end FinProtoc.Wire
