import FinProtoc.Lua
import FinProtoc.Proofs.WireLemmas
/-!
# The canonical dissector attributes every field its true byte range (C15, all kinds but match payloads)

`dVal / dList / dFields` is the value domain: scalars, fixed strings, length-of and checksum members, strings whose
byte length fits the configured prefix, nested objects (packets that are not the root), lists of all of these whose
length fits the list prefix.  Match payloads are outside: the real generator drops the offset a payload's helper
returns (known finding `lua/match-call-drops-offset`), so no emitted dissector with a match field is canonical.

`dis_all` (mutual induction over `Wire.encVal`): whatever buffer contains the bytes the declared encoder writes for a
value, at whatever position, with whatever follows — running the canonical statements from the position where those
bytes start shows exactly `Lua.rangesVal` and leaves the offset exactly behind them.
-/
namespace FinProtoc.Lua
open FinProtoc FinProtoc.Wire

/-! ## lists -/

theorem getElem?_findIdx {α} (p : α → Bool) : ∀ (l : List α), l[l.findIdx p]? = l.find? p
  | [] => by simp
  | a :: l => by
    by_cases h : p a
    · simp [List.findIdx_cons, h]
    · simp [List.findIdx_cons, h, getElem?_findIdx p l]

theorem findIdx_take_of_lt {α} (p : α → Bool) : ∀ (l : List α) (k : Nat), l.findIdx p < k → (l.take k).findIdx p = l.findIdx p
  | [], k, _ => by simp
  | a :: l, k, h => by
    cases k with
    | zero => simp at h
    | succ k =>
      by_cases hp : p a
      · simp [List.findIdx_cons, hp]
      · simp only [List.findIdx_cons, hp, cond_false] at h ⊢
        simp only [List.take_succ_cons, List.findIdx_cons, hp, cond_false]
        rw [findIdx_take_of_lt p l k (by omega)]

theorem findIdx_le_of_pos {α} (p : α → Bool) : ∀ (l : List α) (i : Nat) (h : i < l.length), p l[i] = true → l.findIdx p ≤ i
  | [], i, h, _ => by simp at h
  | a :: l, i, h, hp => by
    by_cases ha : p a
    · simp [List.findIdx_cons, ha]
    · cases i with
      | zero => simp at hp; exact absurd hp ha
      | succ i =>
        simp only [List.findIdx_cons, ha, cond_false]
        have := findIdx_le_of_pos p l i (by simpa using h) (by simpa using hp)
        omega

theorem findIdx_lt_of_any_take {α} (p : α → Bool) (l : List α) (k : Nat) (h : (l.take k).any p = true) :
    l.findIdx p < k ∧ l.findIdx p < l.length := by
  obtain ⟨x, hx, hpx⟩ := List.any_eq_true.mp h
  obtain ⟨i, hi, hget⟩ := List.getElem_of_mem hx
  have hik : i < k := by simp [List.length_take] at hi; omega
  have hil : i < l.length := by simp [List.length_take] at hi; omega
  have hxi : l[i] = x := by rw [← hget, List.getElem_take]
  have hle : l.findIdx p ≤ i := findIdx_le_of_pos p l i hil (by rw [hxi]; exact hpx)
  exact ⟨by omega, by omega⟩

/-! ## the value domain -/

mutual
def dVal (S : Schema) : FKind → Val → Bool
  | .scalar _, .int _ => true
  | .lengthOf _ _, .int _ => true
  | .checksum _ _, .int _ => true
  | .fixed _ _, .str _ => true
  | .dyn, .str bs => decide (bs.length < 256 ^ S.cfg.strPfx.width)
  | .obj pkt, .struct vs => match S.find pkt with | some p => !p.root && dFields S p.fields vs | none => false
  | _, _ => false
def dList (S : Schema) (k : FKind) : List Val → Bool
  | [] => true
  | v :: vs => dVal S k v && dList S k vs
def dFields (S : Schema) : List Field → List Val → Bool
  | [], [] => true
  | f :: fs, v :: vs =>
    (if f.rep then (match v with | .list es => decide (es.length < 256 ^ S.cfg.listPfx.width) && dList S f.kind es | _ => false)
     else dVal S f.kind v) && dFields S fs vs
  | _, _ => false
end

/-- no packet of the schema has a match field (so no member is a match key) -/
def keyFree (S : Schema) : Bool :=
  S.packets.all fun p => p.fields.all fun f => match f.kind with | .matchOn _ _ => false | _ => true

/-! ## calls -/

/-- functions called by a list of simple statements -/
def calleesS (b : List LSimple) : List String := b.filterMap fun s => match s with | .call fn _ => some fn | _ => none

/-- what the emitted program provides: a helper with the canonical body for every packet that is not the root,
helpers defined before use -/
structure Env (S : Schema) (snake : String → String) (D : LProg) : Prop where
  fn : ∀ q p, S.find q = some p → p.root = false →
    ∃ f, D.funcs.find? (·.name = fnName snake q) = some f ∧ f.body = packetStmts S snake p
  order : orderOk D.funcs = true

/-- the visible functions are an initial segment of the file's functions that contains the functions `names` -/
def Vis (D : LProg) (vis : List LFunc) (names : List String) : Prop :=
  (∃ k, vis = D.funcs.take k) ∧ ∀ c ∈ names, vis.any (·.name = c) = true

theorem Vis.mono {D : LProg} {vis : List LFunc} {a b : List String} (h : Vis D vis a) (hs : ∀ c ∈ b, c ∈ a) : Vis D vis b :=
  ⟨h.1, fun c hc => h.2 c (hs c hc)⟩

/-- calling the helper of packet `q` runs the canonical statements of `q`, with the helper's own callees visible -/
theorem call_canonical {S : Schema} {snake : String → String} {D : LProg} (env : Env S snake D)
    {q : String} {p : Packet} (hfind : S.find q = some p) (hroot : p.root = false)
    {vis : List LFunc} (hvis : Vis D vis [fnName snake q]) (bs : Bytes) (fuel off : Nat) (out : List (String × Nat × Nat)) :
    ∃ vis', Vis D vis' (calleesOf (packetStmts S snake p)) ∧
      callFn bs (fuel + 1) vis (fnName snake q) off out =
        (runStmts bs (callFn bs fuel) vis' (packetStmts S snake p) { offset := off, out := out }).map fun s => (s.offset, s.out) := by
  obtain ⟨f, hf, hbody⟩ := env.fn q p hfind hroot
  obtain ⟨⟨k, rfl⟩, hc⟩ := hvis
  have hany := hc (fnName snake q) (by simp)
  obtain ⟨hik, hil⟩ := findIdx_lt_of_any_take (fun g : LFunc => decide (g.name = fnName snake q)) D.funcs k hany
  have hidx := findIdx_take_of_lt (fun g : LFunc => decide (g.name = fnName snake q)) D.funcs k hik
  -- the function found in the visible segment is the first one of that name in the file
  have hget : (D.funcs.take k)[(D.funcs.take k).findIdx (fun g => decide (g.name = fnName snake q))]? = some f := by
    rw [hidx, List.getElem?_take_of_lt hik, getElem?_findIdx]; exact hf
  refine ⟨D.funcs.take (D.funcs.findIdx (fun g => decide (g.name = fnName snake q)) + 1), ⟨⟨_, rfl⟩, ?_⟩, ?_⟩
  · -- orderOk: the callees of the function at index i are among the first i+1 functions
    have hord := env.order
    unfold orderOk at hord
    have hfi : D.funcs[D.funcs.findIdx (fun g => decide (g.name = fnName snake q))]? = some f := by
      rw [getElem?_findIdx]; exact hf
    have hmem : (f, D.funcs.findIdx (fun g => decide (g.name = fnName snake q))) ∈ D.funcs.zipIdx := by
      rw [List.mem_iff_getElem?]
      exact ⟨D.funcs.findIdx (fun g => decide (g.name = fnName snake q)), by simp [List.getElem?_zipIdx, hfi]⟩
    have h1 := List.all_eq_true.mp hord _ hmem
    simp only at h1
    intro c hcc
    rw [← hbody] at hcc
    exact List.all_eq_true.mp h1 c hcc
  · simp only [callFn, visibleUpTo, hget, Option.map_some, hbody]
    rw [hidx, List.take_take]
    have hmin : min (D.funcs.findIdx (fun g => decide (g.name = fnName snake q)) + 1) k =
        D.funcs.findIdx (fun g => decide (g.name = fnName snake q)) + 1 := by omega
    rw [hmin]

/-! ## running statements -/

theorem slice_ok (bs : Bytes) (off n : Nat) (h : off + n ≤ bs.length) : slice bs off n = some ((bs.drop off).take n) := by
  simp [slice, h]

theorem slice_at (acc x rest : Bytes) : slice (acc ++ x ++ rest) acc.length x.length = some x := by
  have h : acc.length + x.length ≤ (acc ++ x ++ rest).length := by simp
  rw [slice_ok _ _ _ h, List.append_assoc, List.drop_left, List.take_left]

theorem runSimples_append {bs : Bytes} {call : LCall} {vis : List LFunc} :
    ∀ (xs ys : List LSimple) (s : LState),
      runSimples bs call vis (xs ++ ys) s = (runSimples bs call vis xs s >>= runSimples bs call vis ys) := by
  intro xs
  induction xs with
  | nil => intro ys s; simp [runSimples]
  | cons x xs ih =>
    intro ys s
    simp only [List.cons_append, runSimples]
    cases runSimple bs call vis x s with
    | none => simp
    | some s' => simp [ih]

theorem runStmts_append {bs : Bytes} {call : LCall} {vis : List LFunc} :
    ∀ (xs ys : List LStmt) (s : LState), runStmts bs call vis (xs ++ ys) s = (runStmts bs call vis xs s >>= runStmts bs call vis ys) := by
  intro xs
  induction xs with
  | nil => intro ys s; simp [runStmts]
  | cons x xs ih =>
    intro ys s
    simp only [List.cons_append, runStmts]
    cases runStmt bs call vis x s with
    | none => simp
    | some s' => simp [ih]

theorem runStmts_simple {bs : Bytes} {call : LCall} {vis : List LFunc} :
    ∀ (xs : List LSimple) (s : LState), runStmts bs call vis (xs.map .simple) s = runSimples bs call vis xs s := by
  intro xs
  induction xs with
  | nil => intro s; simp [runStmts, runSimples]
  | cons x xs ih =>
    intro s
    simp only [List.map_cons, runStmts, runSimples, runStmt]
    cases runSimple bs call vis x s with
    | none => simp
    | some s' => simp [ih]

theorem calleesOf_append (xs ys : List LStmt) : calleesOf (xs ++ ys) = calleesOf xs ++ calleesOf ys := by
  simp [calleesOf]

theorem calleesOf_simple (xs : List LSimple) : calleesOf (xs.map .simple) = calleesS xs := by
  induction xs with
  | nil => simp [calleesOf, calleesS]
  | cons x xs ih =>
    have : calleesOf ((x :: xs).map .simple) = calleesOf [LStmt.simple x] ++ calleesOf (xs.map .simple) := by
      rw [← calleesOf_append]; rfl
    rw [this, ih]
    cases x <;> simp [calleesOf, calleesS]

theorem noKey_of_keyFree {S : Schema} (h : keyFree S = true) {q : String} {p : Packet} (hf : S.find q = some p) (name : String) :
    isKeyField p.fields name = false := by
  have hp : p ∈ S.packets := List.mem_of_find?_eq_some hf
  have hall := List.all_eq_true.mp h p hp
  unfold isKeyField
  apply Bool.eq_false_iff.mpr
  intro hany
  obtain ⟨f, hfm, hk⟩ := List.any_eq_true.mp hany
  have := List.all_eq_true.mp hall f hfm
  cases hkk : f.kind <;> simp [hkk] at this hk

/-! ## single statements -/

section
variable {bs : Bytes} {call : LCall} {vis : List LFunc}

theorem run_add (f : String) (n off : Nat) (vars : List (String × LVal)) (out : List (String × Nat × Nat)) (h : off + n ≤ bs.length) :
    runSimple bs call vis (.add f (.lit n)) { offset := off, vars, out } = some { offset := off, vars, out := out ++ [(f, off, n)] } := by
  simp [runSimple, lenOf, slice_ok _ _ _ h, bind, Option.bind]

theorem run_addText (n off : Nat) (vars : List (String × LVal)) (out : List (String × Nat × Nat)) (h : off + n ≤ bs.length) :
    runSimple bs call vis (.addText (.lit n)) { offset := off, vars, out } = some { offset := off, vars, out } := by
  simp [runSimple, lenOf, slice_ok _ _ _ h, bind, Option.bind]

theorem run_adv (n off : Nat) (vars : List (String × LVal)) (out : List (String × Nat × Nat)) :
    runSimple bs call vis (.adv (.lit n)) { offset := off, vars, out } = some { offset := off + n, vars, out } := by
  simp [runSimple, lenOf, bind, Option.bind]

theorem run_readLocal (v : String) (w : Nat) (le : Bool) (x : Bytes) (off : Nat) (vars : List (String × LVal))
    (out : List (String × Nat × Nat)) (h : slice bs off w = some x) :
    runSimple bs call vis (.readLocal v w le) { offset := off, vars, out } =
      some { offset := off, vars := (v, .num (decInt le x)) :: vars, out } := by
  simp [runSimple, h, bind, Option.bind]

theorem run_add_var (f v : String) (n off : Nat) (vars : List (String × LVal)) (out : List (String × Nat × Nat))
    (h : off + n ≤ bs.length) :
    runSimple bs call vis (.add f (.var v)) { offset := off, vars := (v, .num n) :: vars, out } =
      some { offset := off, vars := (v, .num n) :: vars, out := out ++ [(f, off, n)] } := by
  simp [runSimple, lenOf, List.lookup, slice_ok _ _ _ h, bind, Option.bind]

theorem run_adv_var (v : String) (n off : Nat) (vars : List (String × LVal)) (out : List (String × Nat × Nat)) :
    runSimple bs call vis (.adv (.var v)) { offset := off, vars := (v, .num n) :: vars, out } =
      some { offset := off + n, vars := (v, .num n) :: vars, out } := by
  simp [runSimple, lenOf, List.lookup, bind, Option.bind]
end

/-- a fixed-size leaf: shown at its own offset, the offset moves behind it -/
theorem fixed_run (id : String) (acc x suf : Bytes) (w : Nat) (hx : x.length = w) (call : LCall) (vis : List LFunc)
    (vars : List (String × LVal)) (out : List (String × Nat × Nat)) :
    runSimples ((acc ++ x) ++ suf) call vis [.add id (.lit w), .adv (.lit w)] { offset := acc.length, vars, out } =
      some { offset := (acc ++ x).length, vars, out := out ++ [(id, acc.length, w)] } := by
  have hs : acc.length + w ≤ ((acc ++ x) ++ suf).length := by simp only [List.length_append]; omega
  have hl : (acc ++ x).length = acc.length + w := by simp only [List.length_append]; omega
  simp only [runSimples, run_add _ _ _ _ _ hs, run_adv, bind, Option.bind, hl]

/-- the header of a list: the count is read where the list starts, shown as text, skipped, and drives the loop -/
theorem list_header (sv : String) (bs acc rest : Bytes) (lw n : Nat) (le : Bool) (hn : n < 256 ^ lw)
    (hbs : bs = acc ++ encInt le lw n ++ rest) (call : LCall) (vis : List LFunc) (body : List LSimple)
    (vars : List (String × LVal)) (out : List (String × Nat × Nat)) :
    runStmts bs call vis [.simple (.readLocal sv lw le), .simple (.addText (.lit lw)), .simple (.adv (.lit lw)), .forLoop sv body]
        { offset := acc.length, vars, out } =
      runLoop bs call vis body n { offset := acc.length + lw, vars := (sv, .num n) :: vars, out } := by
  have hsl : slice bs acc.length lw = some (encInt le lw n) := by
    have := slice_at acc (encInt le lw n) rest
    rw [encInt_length] at this
    rw [hbs]; exact this
  have hs : acc.length + lw ≤ bs.length := by
    rw [hbs]; simp only [List.length_append, encInt_length]; omega
  simp only [runStmts, runStmt, run_readLocal _ _ _ _ _ _ _ hsl, decInt_encInt _ _ _ hn, run_addText _ _ _ _ hs, run_adv,
    lenOf, List.lookup, bind, Option.bind]
  simp only [beq_self_eq_true]
  cases runLoop bs call vis body n { offset := acc.length + lw, vars := (sv, .num n) :: vars, out } <;> rfl

theorem calleesOf_list (sv : String) (lw : Nat) (le : Bool) (body : List LSimple) :
    calleesOf [.simple (.readLocal sv lw le), .simple (.addText (.lit lw)), .simple (.adv (.lit lw)), .forLoop sv body] = calleesS body := by
  simp only [calleesOf, calleesS, List.map_cons, List.map_nil, List.flatten_cons, List.flatten_nil, List.nil_append, List.append_nil]
  congr 1

/-! ## the three statements of the mutual induction -/

section
variable (S : Schema) (reg : Registry) (snake : String → String) (D : LProg)

def DV (cf : List Field) (cv : List Val) (k : FKind) (v : Val) (acc : Bytes) : Prop :=
  ∀ r, dVal S k v = true → encVal S reg cf cv k v acc = some r →
    ∀ (pkt fld : String) (bs suf : Bytes) (fuel : Nat) (vis : List LFunc) (vars : List (String × LVal)) (out : List (String × Nat × Nat)),
      bs = r ++ suf → v.depth ≤ fuel → Vis D vis (calleesS (elemStmts S snake pkt fld k)) →
      ∃ rs vars', rangesVal S snake pkt fld k v acc.length = some (rs, r.length) ∧
        runSimples bs (callFn bs fuel) vis (elemStmts S snake pkt fld k) { offset := acc.length, vars, out } =
          some { offset := r.length, vars := vars', out := out ++ rs }

def DF (cf : List Field) (cv : List Val) (fs : List Field) (vs : List Val) (acc : Bytes) : Prop :=
  ∀ r, dFields S fs vs = true → encFields S reg cf cv fs vs acc = some r →
    ∀ (pkt : String) (all : List Field) (bs suf : Bytes) (fuel : Nat) (vis : List LFunc) (vars : List (String × LVal))
      (out : List (String × Nat × Nat)),
      bs = r ++ suf → (∀ f ∈ fs, isKeyField all f.name = false) → depthList vs ≤ fuel →
      Vis D vis (calleesOf ((fs.map (fieldStmts S snake pkt all)).flatten)) →
      ∃ rs vars', rangesFields S snake pkt fs vs acc.length = some (rs, r.length) ∧
        runStmts bs (callFn bs fuel) vis ((fs.map (fieldStmts S snake pkt all)).flatten) { offset := acc.length, vars, out } =
          some { offset := r.length, vars := vars', out := out ++ rs }

def DL (cf : List Field) (cv : List Val) (k : FKind) (vs : List Val) (acc : Bytes) : Prop :=
  ∀ r, dList S k vs = true → encList S reg cf cv k vs acc = some r →
    ∀ (pkt fld : String) (bs suf : Bytes) (fuel : Nat) (vis : List LFunc) (vars : List (String × LVal)) (out : List (String × Nat × Nat)),
      bs = r ++ suf → depthList vs ≤ fuel → Vis D vis (calleesS (elemStmts S snake pkt fld k)) →
      ∃ rs vars', rangesList S snake pkt fld k vs acc.length = some (rs, r.length) ∧
        runLoop bs (callFn bs fuel) vis (elemStmts S snake pkt fld k) vs.length { offset := acc.length, vars, out } =
          some { offset := r.length, vars := vars', out := out ++ rs }
end

theorem dis_all (S : Schema) (reg : Registry) (snake : String → String) (D : LProg) (env : Env S snake D) (hkf : keyFree S = true) :
    (∀ cf cv k v acc, DV S reg snake D cf cv k v acc) ∧
    (∀ cf cv fs vs acc, DF S reg snake D cf cv fs vs acc) ∧
    (∀ cf cv k vs acc, DL S reg snake D cf cv k vs acc) := by
  apply encVal.mutual_induct S (motive_1 := DV S reg snake D) (motive_2 := DF S reg snake D) (motive_3 := DL S reg snake D)
  · -- scalar
    intro cf cv t n acc r _ h pkt fld bs suf fuel vis vars out hbs _ _
    simp only [encVal, Option.some.injEq] at h; subst h; subst hbs
    refine ⟨[(fieldId snake pkt fld, acc.length, t.width)], vars, by simp [rangesVal], ?_⟩
    exact fixed_run _ acc _ suf t.width (encInt_length _ _ _) _ vis vars out
  · -- fixed, fits
    intro cf cv n pad bs acc hle r _ h pkt fld buf suf fuel vis vars out hbs _ _
    simp only [encVal, hle, if_true, Option.some.injEq] at h; subst h; subst hbs
    refine ⟨[(fieldId snake pkt fld, acc.length, n)], vars, by simp [rangesVal, padTo_length _ _ _ hle], ?_⟩
    exact fixed_run _ acc _ suf n (padTo_length _ _ _ hle) _ vis vars out
  · -- fixed, too long
    intro cf cv n pad bs acc hle r _ h
    simp [encVal, hle] at h
  · -- dyn
    intro cf cv bs acc r hp h pkt fld buf suf fuel vis vars out hbs _ _
    simp only [encVal, Option.some.injEq] at h; subst h; subst hbs
    simp only [dVal, decide_eq_true_eq] at hp
    have hlen : (acc ++ encInt S.cfg.le S.cfg.strPfx.width bs.length ++ bs).length = acc.length + S.cfg.strPfx.width + bs.length := by
      simp only [List.length_append, encInt_length]
    refine ⟨[(fieldId snake pkt fld, acc.length + S.cfg.strPfx.width, bs.length)],
      (snake pkt ++ "_" ++ snake fld ++ "_len", .num bs.length) :: vars, by rw [hlen]; simp [rangesVal], ?_⟩
    have hsl : slice ((acc ++ encInt S.cfg.le S.cfg.strPfx.width bs.length ++ bs) ++ suf) acc.length S.cfg.strPfx.width =
        some (encInt S.cfg.le S.cfg.strPfx.width bs.length) := by
      have := slice_at acc (encInt S.cfg.le S.cfg.strPfx.width bs.length) (bs ++ suf)
      simpa [List.append_assoc] using this
    have hs1 : acc.length + S.cfg.strPfx.width ≤ ((acc ++ encInt S.cfg.le S.cfg.strPfx.width bs.length ++ bs) ++ suf).length := by
      simp only [List.length_append, encInt_length]; omega
    have hs2 : acc.length + S.cfg.strPfx.width + bs.length ≤ ((acc ++ encInt S.cfg.le S.cfg.strPfx.width bs.length ++ bs) ++ suf).length := by
      simp only [List.length_append, encInt_length]; omega
    simp only [elemStmts, runSimples, run_readLocal _ _ _ _ _ _ _ hsl, decInt_encInt _ _ _ hp, run_addText _ _ _ _ hs1, run_adv,
      run_add_var _ _ _ _ _ _ hs2, run_adv_var, bind, Option.bind, hlen]
  · -- obj
    intro cf cv q vs acc ih r hp h pkt fld bs suf fuel vis vars out hbs hd hvis
    subst hbs
    simp only [encVal, bind_eq_some'] at h
    obtain ⟨p, hfind, h⟩ := h
    simp only [dVal, hfind, Bool.and_eq_true, Bool.not_eq_true'] at hp
    obtain ⟨hroot, hpf⟩ := hp
    cases fuel with
    | zero => simp [Val.depth] at hd
    | succ f =>
      have hd' : depthList vs ≤ f := by simp [Val.depth] at hd; omega
      have hv1 : Vis D vis [fnName snake q] := hvis.mono (by simp [elemStmts, calleesS])
      obtain ⟨vis', hvis', hcall⟩ := call_canonical env hfind hroot hv1 (r ++ suf) f acc.length out
      have hk : ∀ g ∈ p.fields, isKeyField p.fields g.name = false := fun g _ => noKey_of_keyFree hkf hfind g.name
      obtain ⟨rs, vars', hr, hrun⟩ := ih p r hpf h p.name p.fields (r ++ suf) suf f vis' [] out rfl hk hd' hvis'
      refine ⟨rs, vars, by simp [rangesVal, hfind, hr, bind, Option.bind], ?_⟩
      have hrun' : runStmts (r ++ suf) (callFn (r ++ suf) f) vis' (packetStmts S snake p) { offset := acc.length, out := out } =
          some { offset := r.length, vars := vars', out := out ++ rs } := hrun
      simp only [elemStmts, runSimples, runSimple, doCall, hcall, hrun', Option.map_some, bind, Option.bind]
      rfl
  · -- matchOn: outside the domain
    intro cf cv key pairs q vs acc _ r hp _
    simp [dVal] at hp
  · -- lengthOf
    intro cf cv t target n acc r _ h pkt fld bs suf fuel vis vars out hbs _ _
    simp only [encVal, bind_eq_some'] at h
    obtain ⟨m, _, h⟩ := h
    simp only [pure, Option.some.injEq] at h; subst h; subst hbs
    refine ⟨[(fieldId snake pkt fld, acc.length, t.width)], vars, by simp [rangesVal], ?_⟩
    exact fixed_run _ acc _ suf t.width (encInt_length _ _ _) _ vis vars out
  · -- checksum
    intro cf cv t algo n acc r _ h pkt fld bs suf fuel vis vars out hbs _ _
    simp only [encVal, Option.some.injEq] at h; subst h; subst hbs
    refine ⟨[(fieldId snake pkt fld, acc.length, t.width)], vars, by simp [rangesVal], ?_⟩
    exact fixed_run _ acc _ suf t.width (encInt_length _ _ _) _ vis vars out
  · -- ill-typed combinations
    intro v cf cv k acc h1 h2 h3 h4 h5 h6 h7 r _ h
    exfalso
    unfold encVal at h
    split at h <;> first | (simp at h; done) | skip
    all_goals first | exact h1 _ _ rfl rfl | exact h2 _ _ _ rfl rfl | exact h3 _ rfl rfl | exact h4 _ _ rfl rfl
                    | exact h5 _ _ _ _ rfl rfl | exact h6 _ _ _ rfl rfl | exact h7 _ _ _ rfl rfl | skip
    all_goals simp_all
  · -- fields, nil
    intro cf cv acc r _ h pkt all bs suf fuel vis vars out _ _ _ _
    simp only [encFields, Option.some.injEq] at h; subst h
    exact ⟨[], vars, by simp [rangesFields], by simp [runStmts]⟩
  · -- fields, cons
    intro cf cv f fs v vs acc ihL ihV ihF r hp h pkt all bs suf fuel vis vars out hbs hkeys hd hvis
    have hvisF : Vis D vis (calleesOf ((fs.map (fieldStmts S snake pkt all)).flatten)) := by
      apply hvis.mono
      intro c hc
      simp only [List.map_cons, List.flatten_cons, calleesOf_append, List.mem_append]
      exact Or.inr hc
    have hkeys' : ∀ g ∈ fs, isKeyField all g.name = false := fun g hg => hkeys g (by simp [hg])
    have hdvs : depthList vs ≤ fuel := by simp only [depthList] at hd; omega
    by_cases hrep : f.rep
    · cases v with
      | list es =>
        simp only [encFields, hrep, if_true] at h
        simp only [dFields, hrep, if_true, Bool.and_eq_true, decide_eq_true_eq] at hp
        obtain ⟨⟨hlen, hpl⟩, hpf⟩ := hp
        obtain ⟨acc1, h1, h2⟩ := bind_eq_some'.mp h
        obtain ⟨x1, hx1, _⟩ := encList_size h1
        obtain ⟨x2, hx2, _⟩ := encFields_size h2
        subst hx2
        have hde : depthList es ≤ fuel := by simp only [depthList, Val.depth] at hd; omega
        have hstm : fieldStmts S snake pkt all f =
            [.simple (.readLocal (snake pkt ++ "_" ++ snake f.name ++ "_size") S.cfg.listPfx.width S.cfg.le),
             .simple (.addText (.lit S.cfg.listPfx.width)), .simple (.adv (.lit S.cfg.listPfx.width)),
             .forLoop (snake pkt ++ "_" ++ snake f.name ++ "_size") (elemStmts S snake pkt f.name f.kind)] := by
          simp [fieldStmts, hrep]
        have hvisL : Vis D vis (calleesS (elemStmts S snake pkt f.name f.kind)) := by
          apply hvis.mono
          intro c hc
          simp only [List.map_cons, List.flatten_cons, calleesOf_append, List.mem_append, hstm, calleesOf_list]
          exact Or.inl hc
        obtain ⟨rs1, vars1, hr1, hrun1⟩ := ihL _ hpl h1 pkt f.name bs (x2 ++ suf) fuel vis
          ((snake pkt ++ "_" ++ snake f.name ++ "_size", .num es.length) :: vars) out (by rw [hbs]; simp [List.append_assoc]) hde hvisL
        obtain ⟨rs2, vars2, hr2, hrun2⟩ := ihF _ _ hpf h2 pkt all bs suf fuel vis vars1 (out ++ rs1) hbs hkeys' hdvs hvisF
        refine ⟨rs1 ++ rs2, vars2, ?_, ?_⟩
        · have e0 : (acc ++ encInt S.cfg.le S.cfg.listPfx.width es.length).length = acc.length + S.cfg.listPfx.width := by simp
          rw [e0] at hr1
          simp only [rangesFields, hrep, if_true, hr1, hr2, bind, Option.bind, pure]
        · have e0 : (acc ++ encInt S.cfg.le S.cfg.listPfx.width es.length).length = acc.length + S.cfg.listPfx.width := by simp
          rw [e0] at hrun1
          simp only [List.map_cons, List.flatten_cons, runStmts_append, hstm]
          rw [list_header _ bs acc (x1 ++ x2 ++ suf) _ es.length _ hlen (by rw [hbs, hx1]; simp [List.append_assoc]), hrun1]
          simp only [bind, Option.bind, hrun2, List.append_assoc]
      | _ => simp [encFields, hrep] at h
    · simp only [Bool.not_eq_true] at hrep
      have h' : (encVal S reg cf cv f.kind v acc >>= fun a => encFields S reg cf cv fs vs a) = some r := by
        cases v <;> simpa [encFields, hrep] using h
      have hp' : dVal S f.kind v = true ∧ dFields S fs vs = true := by
        cases v <;> simpa [dFields, hrep] using hp
      obtain ⟨acc1, h1, h2⟩ := bind_eq_some'.mp h'
      obtain ⟨x2, hx2, _⟩ := encFields_size h2
      subst hx2
      have hdv : v.depth ≤ fuel := by simp only [depthList] at hd; omega
      have hnm : ∀ key pairs, f.kind ≠ .matchOn key pairs := by
        intro key pairs hk
        rw [hk] at hp'
        cases v <;> simp [dVal] at hp'
      have hstm : fieldStmts S snake pkt all f = (elemStmts S snake pkt f.name f.kind).map .simple := by
        have hkey := hkeys f (by simp)
        unfold fieldStmts
        simp only [hkey, hrep, Bool.false_and, Bool.false_eq_true, if_false, List.nil_append]
        first | done | (cases hk : f.kind <;> first | rfl | exact absurd hk (hnm _ _))
      have hvisV : Vis D vis (calleesS (elemStmts S snake pkt f.name f.kind)) := by
        apply hvis.mono
        intro c hc
        simp only [List.map_cons, List.flatten_cons, calleesOf_append, List.mem_append, hstm, calleesOf_simple]
        exact Or.inl hc
      obtain ⟨rs1, vars1, hr1, hrun1⟩ := ihV acc1 hp'.1 h1 pkt f.name bs (x2 ++ suf) fuel vis vars out
        (by rw [hbs]; simp [List.append_assoc]) hdv hvisV
      obtain ⟨rs2, vars2, hr2, hrun2⟩ := ihF _ _ hp'.2 h2 pkt all bs suf fuel vis vars1 (out ++ rs1) hbs hkeys' hdvs hvisF
      refine ⟨rs1 ++ rs2, vars2, ?_, ?_⟩
      · cases v <;> simp only [rangesFields, hrep, Bool.false_eq_true, if_false, hr1, hr2, bind, Option.bind, pure]
      · simp only [List.map_cons, List.flatten_cons, runStmts_append, hstm, runStmts_simple, hrun1, bind, Option.bind, hrun2,
          List.append_assoc]
  · -- fields, length mismatch
    intro vs cf cv fs acc h1 h2 r _ h
    exfalso
    unfold encFields at h
    split at h
    · exact h1 rfl rfl
    · exact h2 _ _ _ _ rfl rfl
    · simp at h
  · -- list, nil
    intro cf cv k acc r _ h pkt fld bs suf fuel vis vars out _ _ _
    simp only [encList, Option.some.injEq] at h; subst h
    exact ⟨[], vars, by simp [rangesList], by simp [runLoop]⟩
  · -- list, cons
    intro cf cv k v vs acc ihV ihL r hp h pkt fld bs suf fuel vis vars out hbs hd hvis
    simp only [encList] at h
    simp only [dList, Bool.and_eq_true] at hp
    obtain ⟨acc1, h1, h2⟩ := bind_eq_some'.mp h
    obtain ⟨x2, hx2, _⟩ := encList_size h2
    subst hx2
    have hdv : v.depth ≤ fuel := by simp only [depthList] at hd; omega
    have hdvs : depthList vs ≤ fuel := by simp only [depthList] at hd; omega
    obtain ⟨rs1, vars1, hr1, hrun1⟩ := ihV acc1 hp.1 h1 pkt fld bs (x2 ++ suf) fuel vis vars out
      (by rw [hbs]; simp [List.append_assoc]) hdv hvis
    obtain ⟨rs2, vars2, hr2, hrun2⟩ := ihL _ _ hp.2 h2 pkt fld bs suf fuel vis vars1 (out ++ rs1) hbs hdvs hvis
    refine ⟨rs1 ++ rs2, vars2, ?_, ?_⟩
    · simp only [rangesList, hr1, hr2, bind, Option.bind, pure]
    · simp only [List.length_cons, runLoop, hrun1, bind, Option.bind, hrun2, List.append_assoc]

end FinProtoc.Lua
