import FinProtoc.Proofs.RoundTrip
/-!
# The declared round trip with computed members (length-of, checksum)

Same statement as `RoundTrip.lean`, on the larger domain `cplain*` = plain members plus length-of and checksum
members with any caller value.  What a decoder reads back for a computed member is by design not the caller's value
(it is the size of the target / the checksum of the preceding bytes): `erase*` overwrites those members with `0`
and the round trip is stated up to `erase` — "the logically equal message".  Match payloads are not in this domain.
-/
namespace FinProtoc.Wire
open FinProtoc

mutual
def cplainVal (S : Schema) : FKind → Val → Bool
  | .scalar t, .int n => decide (n < 256 ^ t.width)
  | .fixed n pad, .str bs => decide (trimPad pad (padTo n pad bs) = bs)
  | .dyn, .str bs => decide (bs.length < 256 ^ S.cfg.strPfx.width)
  | .obj pkt, .struct vs => match S.find pkt with | some p => cplainFields S p.fields vs | none => false
  | .lengthOf _ _, .int _ => true
  | .checksum _ _, .int _ => true
  | _, _ => false
def cplainList (S : Schema) (k : FKind) : List Val → Bool
  | [] => true
  | v :: vs => cplainVal S k v && cplainList S k vs
def cplainFields (S : Schema) : List Field → List Val → Bool
  | [], [] => true
  | f :: fs, v :: vs =>
    (if f.rep then (match v with | .list es => decide (es.length < 256 ^ S.cfg.listPfx.width) && cplainList S f.kind es | _ => false)
     else cplainVal S f.kind v) && cplainFields S fs vs
  | _, _ => false
end

mutual
/-- computed members overwritten with 0 (the Boolean says whether the member is repeated) -/
def eraseVal (S : Schema) : Bool → FKind → Val → Val
  | true, k, .list es => .list (eraseList S k es)
  | true, _, v => v
  | false, .lengthOf _ _, _ => .int 0
  | false, .checksum _ _, _ => .int 0
  | false, .obj pkt, .struct vs => match S.find pkt with | some p => .struct (eraseFields S p.fields vs) | none => .struct vs
  | false, .matchOn _ _, .dyn pkt vs => match S.find pkt with | some p => .dyn pkt (eraseFields S p.fields vs) | none => .dyn pkt vs
  | false, _, v => v
def eraseList (S : Schema) (k : FKind) : List Val → List Val
  | [] => []
  | v :: vs => eraseVal S false k v :: eraseList S k vs
def eraseFields (S : Schema) : List Field → List Val → List Val
  | f :: fs, v :: vs => eraseVal S f.rep f.kind v :: eraseFields S fs vs
  | _, vs => vs
end

def CtV (S : Schema) (reg : Registry) (cf : List Field) (cv : List Val) (k : FKind) (v : Val) (acc : Bytes) : Prop :=
  ∀ r, cplainVal S k v = true → encVal S reg cf cv k v acc = some r →
    ∃ xs, r = acc ++ xs ∧ ∀ fuel sfx, v.depth ≤ fuel →
      ∃ d, decPlain S (dec S fuel) k (xs ++ sfx) = some (d, sfx) ∧ eraseVal S false k d = eraseVal S false k v
def CtF (S : Schema) (reg : Registry) (cf : List Field) (cv : List Val) (fs : List Field) (vs : List Val) (acc : Bytes) : Prop :=
  ∀ r, cplainFields S fs vs = true → encFields S reg cf cv fs vs acc = some r →
    ∃ xs, r = acc ++ xs ∧ ∀ fuel sfx all env, depthList vs ≤ fuel →
      ∃ ds, decFields S (dec S fuel) all fs env (xs ++ sfx) = some (ds, sfx) ∧ eraseFields S fs ds = eraseFields S fs vs
def CtL (S : Schema) (reg : Registry) (cf : List Field) (cv : List Val) (k : FKind) (vs : List Val) (acc : Bytes) : Prop :=
  ∀ r, cplainList S k vs = true → encList S reg cf cv k vs acc = some r →
    ∃ xs, r = acc ++ xs ∧ ∀ fuel sfx, depthList vs ≤ fuel →
      ∃ ds, decListN S (dec S fuel) k vs.length (xs ++ sfx) = some (ds, sfx) ∧ eraseList S k ds = eraseList S k vs

theorem cplain_not_match {S : Schema} {k : FKind} {v : Val} (h : cplainVal S k v = true) : ∀ key pairs, k ≠ .matchOn key pairs := by
  intro key pairs hk
  subst hk
  cases v <;> simp [cplainVal] at h

theorem dec_enc_computed_all (S : Schema) (reg : Registry) :
    (∀ cf cv k v acc, CtV S reg cf cv k v acc) ∧
    (∀ cf cv fs vs acc, CtF S reg cf cv fs vs acc) ∧
    (∀ cf cv k vs acc, CtL S reg cf cv k vs acc) := by
  apply encVal.mutual_induct S (motive_1 := CtV S reg) (motive_2 := CtF S reg) (motive_3 := CtL S reg)
  · -- scalar
    intro cf cv t n acc r hp h
    simp [encVal] at h; subst h
    simp only [cplainVal, decide_eq_true_eq] at hp
    refine ⟨_, rfl, ?_⟩
    intro fuel sfx _
    refine ⟨.int n, ?_, rfl⟩
    simp only [decPlain, takeN_append' t.width _ sfx (encInt_length _ _ _), bind, Option.bind, decInt_encInt _ _ _ hp]
    rfl
  · -- fixed, fits
    intro cf cv n pad bs acc hle r hp h
    simp [encVal, hle] at h; subst h
    simp only [cplainVal, decide_eq_true_eq] at hp
    refine ⟨_, rfl, ?_⟩
    intro fuel sfx _
    refine ⟨.str bs, ?_, rfl⟩
    simp only [decPlain, takeN_append' n _ sfx (padTo_length _ _ _ hle), bind, Option.bind, hp]
    rfl
  · -- fixed, too long
    intro cf cv n pad bs acc hle r _ h
    simp [encVal, hle] at h
  · -- dyn
    intro cf cv bs acc r hp h
    simp [encVal] at h; subst h
    simp only [cplainVal, decide_eq_true_eq] at hp
    refine ⟨encInt S.cfg.le S.cfg.strPfx.width bs.length ++ bs, by simp, ?_⟩
    intro fuel sfx _
    refine ⟨.str bs, ?_, rfl⟩
    have h1 : takeN S.cfg.strPfx.width ((encInt S.cfg.le S.cfg.strPfx.width bs.length ++ bs) ++ sfx) =
        some (encInt S.cfg.le S.cfg.strPfx.width bs.length, bs ++ sfx) := by
      rw [List.append_assoc]; exact takeN_append' _ _ _ (encInt_length _ _ _)
    simp only [decPlain, h1, bind, Option.bind, decInt_encInt _ _ _ hp, takeN_append]
    rfl
  · -- obj
    intro cf cv pkt vs acc ih r hp h
    simp only [encVal, bind_eq_some'] at h
    obtain ⟨p, hfind, h⟩ := h
    simp only [cplainVal, hfind] at hp
    obtain ⟨xs, rfl, hdec⟩ := ih p r hp h
    refine ⟨xs, rfl, ?_⟩
    intro fuel sfx hd
    cases fuel with
    | zero => simp [Val.depth] at hd
    | succ f =>
      have hd' : depthList vs ≤ f := by simp [Val.depth] at hd; omega
      obtain ⟨ds, hds, her⟩ := hdec f sfx p.fields [] hd'
      refine ⟨.struct ds, ?_, ?_⟩
      · simp only [decPlain, dec, hfind, bind, Option.bind, hds]
        rfl
      · simp only [eraseVal, hfind, her]
  · -- matchOn: not in the domain
    intro cf cv key pairs pkt vs acc _ r hp _
    simp [cplainVal] at hp
  · -- lengthOf: the decoder reads the width's bytes, whatever they are
    intro cf cv t target n acc r _ h
    simp only [encVal, bind_eq_some'] at h
    obtain ⟨m, _, h⟩ := h
    simp at h; subst h
    refine ⟨_, rfl, ?_⟩
    intro fuel sfx _
    refine ⟨.int (decInt S.cfg.le (encInt S.cfg.le t.width m)), ?_, by simp [eraseVal]⟩
    simp only [decPlain, takeN_append' t.width _ sfx (encInt_length _ _ _), bind, Option.bind]
    rfl
  · -- checksum
    intro cf cv t algo n acc r _ h
    simp [encVal] at h; subst h
    refine ⟨_, rfl, ?_⟩
    intro fuel sfx _
    refine ⟨.int (decInt S.cfg.le (encInt S.cfg.le t.width (match reg algo with | some f => f acc | none => n))), ?_, by simp [eraseVal]⟩
    simp only [decPlain, takeN_append' t.width _ sfx (encInt_length _ _ _), bind, Option.bind]
    rfl
  · -- ill-typed combinations
    intro v cf cv k acc h1 h2 h3 h4 h5 h6 h7 r _ h
    exfalso
    unfold encVal at h
    split at h <;> first | (simp at h; done) | skip
    all_goals first | exact h1 _ _ rfl rfl | exact h2 _ _ _ rfl rfl | exact h3 _ rfl rfl | exact h4 _ _ rfl rfl
                    | exact h5 _ _ _ _ rfl rfl | exact h6 _ _ _ rfl rfl | exact h7 _ _ _ rfl rfl | skip
    all_goals simp_all
  · -- fields, nil
    intro cf cv acc r _ h
    simp [encFields] at h; subst h
    refine ⟨[], by simp, ?_⟩
    intro fuel sfx all env _
    exact ⟨[], by simp [decFields], rfl⟩
  · -- fields, cons
    intro cf cv f fs v vs acc ihL ihV ihF r hp h
    by_cases hrep : f.rep
    · cases v with
      | list es =>
        simp only [encFields, hrep, if_true] at h
        simp only [cplainFields, hrep, if_true, Bool.and_eq_true, decide_eq_true_eq] at hp
        obtain ⟨⟨hlen, hpl⟩, hpf⟩ := hp
        obtain ⟨acc1, h1, h2⟩ := bind_eq_some'.mp h
        obtain ⟨x1, hx1, hd1⟩ := ihL acc1 hpl h1
        subst hx1
        obtain ⟨x2, hx2, hd2⟩ := ihF _ r hpf h2
        subst hx2
        refine ⟨encInt S.cfg.le S.cfg.listPfx.width es.length ++ x1 ++ x2, by simp [List.append_assoc], ?_⟩
        intro fuel sfx all env hd
        have hde : depthList es ≤ fuel := by
          simp only [depthList, Val.depth] at hd; omega
        have hdv : depthList vs ≤ fuel := by
          simp only [depthList] at hd; omega
        obtain ⟨ds1, hds1, her1⟩ := hd1 fuel (x2 ++ sfx) hde
        obtain ⟨ds2, hds2, her2⟩ := hd2 fuel sfx all (env ++ [(f.name, .list ds1)]) hdv
        have ht : takeN S.cfg.listPfx.width ((encInt S.cfg.le S.cfg.listPfx.width es.length ++ x1 ++ x2) ++ sfx) =
            some (encInt S.cfg.le S.cfg.listPfx.width es.length, x1 ++ (x2 ++ sfx)) := by
          simp only [List.append_assoc]; exact takeN_append' _ _ _ (encInt_length _ _ _)
        have hfield : decField S (dec S fuel) all env f ((encInt S.cfg.le S.cfg.listPfx.width es.length ++ x1 ++ x2) ++ sfx) =
            some (.list ds1, x2 ++ sfx) := by
          unfold decField
          simp only [hrep, if_true, ht, bind, Option.bind, decInt_encInt _ _ _ hlen, hds1]
          rfl
        refine ⟨.list ds1 :: ds2, ?_, ?_⟩
        · simp only [decFields, hfield, bind, Option.bind, hds2]
          rfl
        · have e : eraseVal S f.rep f.kind (.list ds1) = eraseVal S f.rep f.kind (.list es) := by
            have hr : f.rep = true := hrep
            rw [hr]; simp only [eraseVal, her1]
          rw [eraseFields, eraseFields, e, her2]
      | _ => simp [encFields, hrep] at h
    · simp only [Bool.not_eq_true] at hrep
      have h' : (encVal S reg cf cv f.kind v acc >>= fun a => encFields S reg cf cv fs vs a) = some r := by
        cases v <;> simpa [encFields, hrep] using h
      have hp' : cplainVal S f.kind v = true ∧ cplainFields S fs vs = true := by
        cases v <;> simpa [cplainFields, hrep] using hp
      obtain ⟨acc1, h1, h2⟩ := bind_eq_some'.mp h'
      obtain ⟨x1, hx1, hd1⟩ := ihV acc1 hp'.1 h1
      subst hx1
      obtain ⟨x2, hx2, hd2⟩ := ihF _ r hp'.2 h2
      subst hx2
      refine ⟨x1 ++ x2, by simp [List.append_assoc], ?_⟩
      intro fuel sfx all env hd
      have hdv : v.depth ≤ fuel := by simp only [depthList] at hd; omega
      have hdvs : depthList vs ≤ fuel := by simp only [depthList] at hd; omega
      obtain ⟨d1, hds1, her1⟩ := hd1 fuel (x2 ++ sfx) hdv
      obtain ⟨ds2, hds2, her2⟩ := hd2 fuel sfx all (env ++ [(f.name, d1)]) hdvs
      have hfield : decField S (dec S fuel) all env f ((x1 ++ x2) ++ sfx) = some (d1, x2 ++ sfx) := by
        rw [decField_plain S _ all env f _ hrep (cplain_not_match hp'.1), List.append_assoc]
        exact hds1
      refine ⟨d1 :: ds2, ?_, ?_⟩
      · simp only [decFields, hfield, bind, Option.bind, hds2]
        rfl
      · have e : eraseVal S f.rep f.kind d1 = eraseVal S f.rep f.kind v := by
          rw [hrep]; exact her1
        rw [eraseFields, eraseFields, e, her2]
  · -- fields, length mismatch
    intro vs cf cv fs acc h1 h2 r _ h
    exfalso
    unfold encFields at h
    split at h
    · exact h1 rfl rfl
    · exact h2 _ _ _ _ rfl rfl
    · simp at h
  · -- list, nil
    intro cf cv k acc r _ h
    simp [encList] at h; subst h
    refine ⟨[], by simp, ?_⟩
    intro fuel sfx _
    exact ⟨[], by simp [decListN], rfl⟩
  · -- list, cons
    intro cf cv k v vs acc ihV ihL r hp h
    simp only [encList] at h
    simp only [cplainList, Bool.and_eq_true] at hp
    obtain ⟨acc1, h1, h2⟩ := bind_eq_some'.mp h
    obtain ⟨x1, hx1, hd1⟩ := ihV acc1 hp.1 h1
    subst hx1
    obtain ⟨x2, hx2, hd2⟩ := ihL _ r hp.2 h2
    subst hx2
    refine ⟨x1 ++ x2, by simp [List.append_assoc], ?_⟩
    intro fuel sfx hd
    have hdv : v.depth ≤ fuel := by simp only [depthList] at hd; omega
    have hdvs : depthList vs ≤ fuel := by simp only [depthList] at hd; omega
    obtain ⟨d1, hds1, her1⟩ := hd1 fuel (x2 ++ sfx) hdv
    obtain ⟨ds2, hds2, her2⟩ := hd2 fuel sfx hdvs
    have e1 : decPlain S (dec S fuel) k ((x1 ++ x2) ++ sfx) = some (d1, x2 ++ sfx) := by
      rw [List.append_assoc]; exact hds1
    refine ⟨d1 :: ds2, ?_, ?_⟩
    · simp only [List.length_cons, decListN, e1, bind, Option.bind, hds2]
      rfl
    · simp only [eraseList, her1, her2]

/-- the declared decoder inverts the declared encoder up to the computed members, whatever follows in the buffer -/
theorem dec_enc_computed (S : Schema) (reg : Registry) (pkt : String) (vs : List Val) (acc r : Bytes)
    (hp : cplainVal S (.obj pkt) (.struct vs) = true) (h : Wire.enc S reg pkt vs acc = some r) :
    ∃ xs, r = acc ++ xs ∧ ∀ fuel sfx, depthList vs < fuel →
      ∃ ds p, S.find pkt = some p ∧ Wire.dec S fuel pkt (xs ++ sfx) = some (ds, sfx) ∧
        eraseFields S p.fields ds = eraseFields S p.fields vs := by
  unfold Wire.enc at h
  obtain ⟨p, hfind, h⟩ := bind_eq_some'.mp h
  simp only [cplainVal, hfind] at hp
  obtain ⟨xs, hx, hd⟩ := (dec_enc_computed_all S reg).2.1 p.fields vs p.fields vs acc r hp h
  refine ⟨xs, hx, ?_⟩
  intro fuel sfx hlt
  cases fuel with
  | zero => omega
  | succ f =>
    obtain ⟨ds, hds, her⟩ := hd f sfx p.fields [] (by omega)
    refine ⟨ds, p, hfind, ?_, her⟩
    simp only [dec, hfind, bind, Option.bind]
    exact hds

end FinProtoc.Wire
