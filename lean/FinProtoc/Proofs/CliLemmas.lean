import FinProtoc.Cli
/-!
# Helper lemmas about the abstract I/O world of `Cli` (reads after writes, folds of writes)
-/
namespace FinProtoc.Proofs.CliLemmas
open FinProtoc.Cli

theorem lookup_cons' (x : String × String) (xs : List (String × String)) (p : String) :
    (x :: xs).lookup p = if p = x.1 then some x.2 else xs.lookup p := by
  obtain ⟨k, b⟩ := x
  rw [List.lookup_cons]
  by_cases h : p = k
  · simp [h]
  · have : (p == k) = false := by simp [h]
    simp [h, this]

theorem lookup_filter (fs : List (String × String)) (p : String) (f : String × String → Bool)
    (hf : ∀ x, f x = false → x.1 ≠ p) : (fs.filter f).lookup p = fs.lookup p := by
  induction fs with
  | nil => rfl
  | cons x xs ih =>
    cases hx : f x with
    | true => rw [List.filter_cons_of_pos hx, lookup_cons', lookup_cons', ih]
    | false =>
      rw [List.filter_cons_of_neg (by simp [hx]), lookup_cons', ih]
      have := hf x hx
      rw [if_neg (fun h => this h.symm)]

theorem read_write (w : World) (q c p : String) :
    (w.write q c).read p = if p = q then some c else w.read p := by
  unfold World.write World.read
  rw [lookup_cons']
  by_cases h : p = q
  · simp [h]
  · simp only [h, ↓reduceIte]
    exact lookup_filter _ _ _ (fun x hx => by
      simp only [ne_eq, decide_not, Bool.not_eq_eq_eq_not, Bool.not_false, decide_eq_true_eq] at hx
      rw [hx]; exact fun e => h e.symm)

@[simp] theorem read_println (w : World) (s p : String) : (w.println s).read p = w.read p := rfl
@[simp] theorem exit_println (w : World) (s : String) : (w.println s).exit = w.exit := rfl
@[simp] theorem exit_write (w : World) (q c : String) : (w.write q c).exit = w.exit := rfl

/-- the paths and contents `compile` writes, in the order it writes them -/
def writes : List Target → List (String × String)
  | [] => []
  | t :: ts =>
    if t.path = "" then writes ts
    else match t.gen with
      | .error _ => []
      | .ok files => files.map (fun f => (outPath t.path f.1, f.2)) ++ writes ts

def allOk : List Target → Bool
  | [] => true
  | t :: ts => (t.path = "" || (match t.gen with | .ok _ => true | .error _ => false)) && allOk ts

theorem read_foldl_write (ws : List (String × String)) (msg : String → String) (w : World) (p : String) :
    (ws.foldl (fun w f => (w.write f.1 f.2).println (msg f.1)) w).read p = (ws.reverse.lookup p).or (w.read p) := by
  induction ws generalizing w with
  | nil => simp
  | cons x xs ih =>
    simp only [List.foldl_cons, ih, read_println, read_write, List.reverse_cons, List.lookup_append, lookup_cons']
    by_cases h : p = x.1
    · simp [h]
    · simp [h]

theorem exit_foldl_write (ws : List (String × String)) (msg : String → String) (w : World) :
    (ws.foldl (fun w f => (w.write f.1 f.2).println (msg f.1)) w).exit = w.exit := by
  induction ws generalizing w with
  | nil => rfl
  | cons x xs ih => simp only [List.foldl_cons, ih, exit_println, exit_write]

theorem writeCode_eq (dir : String) (files : List (String × String)) (w : World) :
    writeCode dir files w =
      (files.map (fun f => (outPath dir f.1, f.2))).foldl (fun w f => (w.write f.1 f.2).println ("Generated code for packet: " ++ f.1)) w := by
  unfold writeCode
  rw [List.foldl_map]

theorem lookup_of_mem_nodup (l : List (String × String)) (p c : String)
    (hn : (l.map Prod.fst).Nodup) (hm : (p, c) ∈ l) : l.lookup p = some c := by
  induction l with
  | nil => cases hm
  | cons x xs ih =>
    rw [lookup_cons']
    rw [List.map_cons, List.nodup_cons] at hn
    rcases List.mem_cons.mp hm with h | h
    · subst h; simp
    · have : p ≠ x.1 := by
        intro e
        exact hn.1 (e ▸ List.mem_map_of_mem (f := Prod.fst) h)
      rw [if_neg this]
      exact ih hn.2 h

theorem read_foldl_println (ds : List String) (w : World) (p : String) :
    (ds.foldl (fun w d => w.println d) w).read p = w.read p := by
  induction ds generalizing w with
  | nil => rfl
  | cons d ds ih => rw [List.foldl_cons, ih, read_println]


theorem outPath_inj (dir a b : String) (h : outPath dir a = outPath dir b) : a = b := by
  unfold outPath at h
  have := congrArg String.toList h
  simp only [String.toList_append] at this
  have := List.append_cancel_left this
  exact String.toList_inj.mp this

theorem mem_of_lookup (l : List (String × String)) (p c : String) (h : l.lookup p = some c) : (p, c) ∈ l := by
  induction l with
  | nil => cases h
  | cons x xs ih =>
    rw [lookup_cons'] at h
    by_cases e : p = x.1
    · rw [if_pos e] at h
      cases h
      exact List.mem_cons.mpr (.inl (by rw [e]))
    · rw [if_neg e] at h
      exact List.mem_cons.mpr (.inr (ih h))

theorem lookup_perm (l l' : List (String × String)) (p : String) (hp : l.Perm l') (hn : (l.map Prod.fst).Nodup) :
    l.lookup p = l'.lookup p := by
  have hn' : (l'.map Prod.fst).Nodup := (hp.map Prod.fst).nodup_iff.mp hn
  cases h : l.lookup p with
  | some c => exact (lookup_of_mem_nodup l' p c hn' (hp.mem_iff.mp (mem_of_lookup l p c h))).symm
  | none =>
    cases h' : l'.lookup p with
    | none => rfl
    | some c =>
      have := lookup_of_mem_nodup l p c hn (hp.mem_iff.mpr (mem_of_lookup l' p c h'))
      rw [h] at this; cases this


end FinProtoc.Proofs.CliLemmas
