import FinProtoc.Visit
/-!
# The visitor model never crashes

A small weakest-precondition layer over `V = StateT VState (Except Crash)` and the store invariants
that make every `throw` of `Visit.lean` unreachable:

* every MetaData entry holds a valid attribute index of a *plain* kind (basic / fixed / dyn);
* attributes are only ever pushed, or overwritten in place where an `.object` / `.match_` stood
  (`Pres`: every other attribute keeps its slot and value for ever);
* an inline-object attribute refers to an anonymous packet that is already registered, and the fields of
  anonymous packet `pid` only refer to anonymous packets `< pid` (the fuel of `resolveField` is enough);
* the `lengthField` of `VisitPacketDefinition` always carries a `.length _ (some _)` attribute.

Result: `visitCst_safe` / `run_ok` (used by `Props/C11.lean`, `visit_no_crash`).
-/
namespace FinProtoc.Visit
open FinProtoc FinProtoc.Dsl

/-! ## Weakest preconditions (total correctness: the computation returns, and `Q` holds) -/

def wp (m : V α) (Q : α → VState → Prop) (s : VState) : Prop :=
  ∃ a s', m s = .ok (a, s') ∧ Q a s'

theorem wp_pure (a : α) (Q : α → VState → Prop) (s) : wp (pure a) Q s ↔ Q a s := by
  constructor
  · rintro ⟨a', s', h, hq⟩; cases h; exact hq
  · intro h; exact ⟨a, s, rfl, h⟩

theorem wp_bind (m : V α) (f : α → V β) (Q : β → VState → Prop) (s) :
    wp (m >>= f) Q s ↔ wp m (fun a s' => wp (f a) Q s') s := by
  show wp (fun s => _) Q s ↔ _
  unfold wp
  constructor
  · rintro ⟨b, s2, h, hq⟩
    cases hm : m s with
    | error e => simp [bind, StateT.bind, hm, Except.bind] at h
    | ok r =>
      obtain ⟨a, s1⟩ := r
      refine ⟨a, s1, rfl, b, s2, ?_, hq⟩
      simpa [bind, StateT.bind, hm, Except.bind] using h
  · rintro ⟨a, s1, hm, b, s2, hf, hq⟩
    refine ⟨b, s2, ?_, hq⟩
    simp [bind, StateT.bind, hm, Except.bind, hf]

theorem wp_get (Q : VState → VState → Prop) (s) : wp get Q s ↔ Q s s := by
  constructor
  · rintro ⟨a', s', h, hq⟩; cases h; exact hq
  · intro h; exact ⟨s, s, rfl, h⟩

theorem wp_set (x : VState) (Q : PUnit → VState → Prop) (s) : wp (set x) Q s ↔ Q ⟨⟩ x := by
  constructor
  · rintro ⟨a', s', h, hq⟩; cases h; exact hq
  · intro h; exact ⟨⟨⟩, x, rfl, h⟩

theorem wp_modify (f : VState → VState) (Q : PUnit → VState → Prop) (s) :
    wp (modify f) Q s ↔ Q ⟨⟩ (f s) := by
  constructor
  · rintro ⟨a', s', h, hq⟩; cases h; exact hq
  · intro h; exact ⟨⟨⟩, f s, rfl, h⟩

/-- a lifted `Except` computation must itself succeed -/
theorem wp_lift (x : Except Crash α) (Q : α → VState → Prop) (s) :
    wp (liftM x : V α) Q s ↔ ∃ a, x = .ok a ∧ Q a s := by
  cases x with
  | error e =>
    constructor
    · rintro ⟨a', s', h, hq⟩; cases h
    · rintro ⟨a, h, _⟩; cases h
  | ok a =>
    constructor
    · rintro ⟨a', s', h, hq⟩; cases h; exact ⟨a, rfl, hq⟩
    · rintro ⟨a', h, hq⟩; cases h; exact ⟨a, s, rfl, hq⟩

theorem wp_mono {m : V α} {Q Q' : α → VState → Prop} {s} (h : wp m Q s)
    (hq : ∀ a s', Q a s' → Q' a s') : wp m Q' s := by
  obtain ⟨a, s', h1, h2⟩ := h
  exact ⟨a, s', h1, hq _ _ h2⟩

theorem wp_foldlM (f : β → α → V β) (R : β → VState → Prop) :
    ∀ (xs : List α) (b : β) (s : VState), R b s →
      (∀ b x s, x ∈ xs → R b s → wp (f b x) R s) → wp (xs.foldlM f b) R s
  | [], b, s, h, _ => by rw [List.foldlM_nil]; exact (wp_pure ..).2 h
  | x :: xs, b, s, h, hs => by
    rw [List.foldlM_cons, wp_bind]
    refine wp_mono (hs b x s (List.mem_cons_self ..) h) ?_
    intro b' s' h'
    exact wp_foldlM f R xs b' s' h' (fun b x s hx => hs b x s (List.mem_cons_of_mem _ hx))

theorem wp_forM (f : α → V PUnit) (R : VState → Prop) :
    ∀ (xs : List α) (s : VState), R s →
      (∀ x s, x ∈ xs → R s → wp (f x) (fun _ => R) s) → wp (xs.forM f) (fun _ => R) s
  | [], s, h, _ => (wp_pure ..).2 h
  | x :: xs, s, h, hs => by
    show wp (f x >>= fun _ => xs.forM f) _ _
    rw [wp_bind]
    refine wp_mono (hs x s (List.mem_cons_self ..) h) ?_
    intro _ s' h'
    exact wp_forM f R xs s' h' (fun x s hx => hs x s (List.mem_cons_of_mem _ hx))

/-! ## The primitives of `Visit.lean` as weakest preconditions -/

theorem wp_newAttr (a : AttrK) (Q : Nat → VState → Prop) (s) :
    wp (newAttr a) Q s ↔ Q s.attrs.size { s with attrs := s.attrs.push a } := by
  simp only [newAttr, wp_bind, wp_get, wp_set, wp_pure]

theorem wp_newPad (p : PadCell) (Q : Nat → VState → Prop) (s) :
    wp (newPad p) Q s ↔ Q s.pads.size { s with pads := s.pads.push p } := by
  simp only [newPad, wp_bind, wp_get, wp_set, wp_pure]

theorem wp_addDiag (line : Nat) (msg : String) (Q : PUnit → VState → Prop) (s) :
    wp (addDiag line msg) Q s ↔ Q ⟨⟩ { s with diags := s.diags ++ [(line, msg)] } := by
  simp only [addDiag, wp_modify]

theorem wp_addMeta (m : MMeta) (Q : PUnit → VState → Prop) (s) :
    wp (addMeta m) Q s ↔ Q ⟨⟩ (addMetaS m s) := by
  simp only [addMeta, wp_modify]

theorem wp_addOption (n v : String) (l : Nat) (Q : PUnit → VState → Prop) (s) :
    wp (addOption n v l) Q s ↔ Q ⟨⟩ (addOptionS n v l s) := by
  simp only [addOption, wp_modify]

theorem wp_addPacket (p : MPacket) (Q : PUnit → VState → Prop) (s) :
    wp (addPacket p) Q s ↔ Q ⟨⟩ (addPacketS p s) := by
  simp only [addPacket, wp_modify]

/-! ## Invariants -/

/-- attribute kinds that no visitor step overwrites in place -/
def stable : AttrK → Prop
  | .object _ _ _ => False
  | .match_ _ _ _ => False
  | _ => True

/-- what a MetaData entry can hold (`tyAttr`) -/
def plain : AttrK → Prop
  | .basic _ => True
  | .fixed _ _ => True
  | .dyn => True
  | _ => False

/-- not a length attribute whose target pointer is nil -/
def noBareLen : AttrK → Prop
  | .length _ none => False
  | _ => True

theorem plain_stable {k : AttrK} (h : plain k) : stable k := by
  cases k <;> first | trivial | cases h

theorem plain_noBareLen {k : AttrK} (h : plain k) : noBareLen k := by
  cases k <;> first | trivial | cases h

structure Inv (s : VState) : Prop where
  metaOK : ∀ m, m ∈ s.metas → ∃ (a : Nat) (k : AttrK), m.attr = some a ∧ s.attrs[a]? = some k ∧ plain k
  inlOK : ∀ (i : Nat) p q, s.attrs[i]? = some (AttrK.object true p (.inline q)) → q < s.ipackets.size
  ipkOK : ∀ (pid : Nat) ip, s.ipackets[pid]? = some ip → ∀ f, f ∈ ip.fields → ∀ (i : Nat), f.attr = some i →
    i < s.attrs.size ∧ ∀ p q, s.attrs[i]? = some (AttrK.object true p (.inline q)) → q < pid

/-- from `s` to `s'`: no attribute slot is lost, stable attributes keep their value -/
structure Pres (s s' : VState) : Prop where
  size : s.attrs.size ≤ s'.attrs.size
  keep : ∀ (i : Nat) (k : AttrK), s.attrs[i]? = some k → stable k → s'.attrs[i]? = some k

theorem Pres.refl (s : VState) : Pres s s := ⟨Nat.le_refl _, fun _ _ h _ => h⟩

theorem Pres.trans {s1 s2 s3 : VState} (h1 : Pres s1 s2) (h2 : Pres s2 s3) : Pres s1 s3 :=
  ⟨Nat.le_trans h1.size h2.size, fun i k h hk => h2.keep i k (h1.keep i k h hk) hk⟩

theorem Pres.of_eq {s s' : VState} (h : s'.attrs = s.attrs) : Pres s s' := by
  constructor
  · rw [h]; exact Nat.le_refl _
  · intro i k hk _; rw [h]; exact hk

theorem Inv.of_eq {s s' : VState} (h : Inv s) (ha : s'.attrs = s.attrs) (hi : s'.ipackets = s.ipackets)
    (hm : s'.metas = s.metas) : Inv s' := by
  constructor
  · intro m hmem; rw [hm] at hmem; rw [ha]; exact h.metaOK m hmem
  · intro i p q; rw [ha, hi]; exact h.inlOK i p q
  · intro pid ip; rw [ha, hi]; exact h.ipkOK pid ip

theorem Inv.empty : Inv {} := by
  constructor
  · intro m hm; cases hm
  · intro i p q h; simp at h
  · intro pid ip h; simp at h

theorem lt_size_of_getElem? {xs : Array α} {i : Nat} {k : α} (h : xs[i]? = some k) : i < xs.size := by
  obtain ⟨h1, _⟩ := Array.getElem?_eq_some_iff.1 h
  exact h1

theorem getElem?_push_of_some {xs : Array α} {i : Nat} {k x : α} (h : xs[i]? = some k) :
    (xs.push x)[i]? = some k := by
  rw [Array.getElem?_push]
  have := lt_size_of_getElem? h
  split
  · omega
  · exact h

theorem getElem?_push_lt {xs : Array α} {i : Nat} {x : α} (h : i < xs.size) :
    (xs.push x)[i]? = xs[i]? := by
  rw [Array.getElem?_push]
  split
  · omega
  · rfl

/-- a new attribute: anything but a dangling inline reference -/
theorem Inv.push {s : VState} (h : Inv s) (a : AttrK)
    (ha : ∀ p q, a = .object true p (.inline q) → q < s.ipackets.size) :
    Inv { s with attrs := s.attrs.push a } := by
  constructor
  · intro m hm
    obtain ⟨i, k, h1, h2, h3⟩ := h.metaOK m hm
    exact ⟨i, k, h1, getElem?_push_of_some h2, h3⟩
  · intro i p q hq
    change (s.attrs.push a)[i]? = _ at hq
    rw [Array.getElem?_push] at hq
    split at hq
    · cases hq; exact ha p q rfl
    · exact h.inlOK i p q hq
  · intro pid ip hip f hf i hfi
    obtain ⟨h1, h2⟩ := h.ipkOK pid ip hip f hf i hfi
    refine ⟨?_, ?_⟩
    · show i < (s.attrs.push a).size
      rw [Array.size_push]; omega
    · intro p q hq
      change (s.attrs.push a)[i]? = _ at hq
      rw [getElem?_push_lt h1] at hq
      exact h2 p q hq

theorem Pres.push (s : VState) (a : AttrK) : Pres s { s with attrs := s.attrs.push a } := by
  constructor
  · show s.attrs.size ≤ (s.attrs.push a).size
    rw [Array.size_push]; omega
  · intro i k hk _
    exact getElem?_push_of_some hk

/-- overwriting in place where an `.object` / `.match_` stands (or nothing at all), with anything but an
inline reference -/
theorem Inv.set {s : VState} (h : Inv s) (ai : Nat) (v : AttrK)
    (hold : ∀ k, s.attrs[ai]? = some k → ¬ stable k)
    (hv : ∀ p q, v ≠ .object true p (.inline q)) :
    Inv { s with attrs := s.attrs.set! ai v } := by
  constructor
  · intro m hm
    obtain ⟨i, k, h1, h2, h3⟩ := h.metaOK m hm
    refine ⟨i, k, h1, ?_, h3⟩
    show (s.attrs.set! ai v)[i]? = some k
    rw [Array.set!_eq_setIfInBounds, Array.getElem?_setIfInBounds]
    split
    · next heq => subst heq; exact absurd (plain_stable h3) (hold k h2)
    · exact h2
  · intro i p q hq
    change (s.attrs.set! ai v)[i]? = _ at hq
    rw [Array.set!_eq_setIfInBounds, Array.getElem?_setIfInBounds] at hq
    split at hq
    · split at hq
      · cases hq; exact absurd rfl (hv p q)
      · cases hq
    · exact h.inlOK i p q hq
  · intro pid ip hip f hf i hfi
    obtain ⟨h1, h2⟩ := h.ipkOK pid ip hip f hf i hfi
    refine ⟨?_, ?_⟩
    · show i < (s.attrs.set! ai v).size
      rw [Array.set!_eq_setIfInBounds, Array.size_setIfInBounds]; exact h1
    · intro p q hq
      change (s.attrs.set! ai v)[i]? = _ at hq
      rw [Array.set!_eq_setIfInBounds, Array.getElem?_setIfInBounds] at hq
      split at hq
      · split at hq
        · cases hq; exact absurd rfl (hv p q)
        · cases hq
      · exact h2 p q hq

theorem Pres.set (s : VState) (ai : Nat) (v : AttrK) (hold : ∀ k, s.attrs[ai]? = some k → ¬ stable k) :
    Pres s { s with attrs := s.attrs.set! ai v } := by
  constructor
  · show s.attrs.size ≤ (s.attrs.set! ai v).size
    rw [Array.set!_eq_setIfInBounds, Array.size_setIfInBounds]; exact Nat.le_refl _
  · intro i k hk hs
    show (s.attrs.set! ai v)[i]? = some k
    rw [Array.set!_eq_setIfInBounds, Array.getElem?_setIfInBounds]
    split
    · next heq => subst heq; exact absurd hs (hold k hk)
    · exact hk

/-- registering an anonymous packet whose fields hold valid attribute indices -/
theorem Inv.ipush {s : VState} (h : Inv s) (ip : MPacket)
    (hv : ∀ f, f ∈ ip.fields → ∀ i, f.attr = some i → i < s.attrs.size) :
    Inv { s with ipackets := s.ipackets.push ip } := by
  constructor
  · exact h.metaOK
  · intro i p q hq
    show q < (s.ipackets.push ip).size
    have := h.inlOK i p q hq
    rw [Array.size_push]; omega
  · intro pid ip' hip f hf i hfi
    change (s.ipackets.push ip)[pid]? = _ at hip
    rw [Array.getElem?_push] at hip
    split at hip
    · next heq =>
      cases hip
      refine ⟨hv f hf i hfi, ?_⟩
      intro p q hq
      rw [heq]; exact h.inlOK i p q hq
    · exact h.ipkOK pid ip' hip f hf i hfi

theorem mem_of_findMeta {s : VState} {n : String} {m : MMeta} (h : findMeta s n = some m) : m ∈ s.metas :=
  List.mem_of_find?_eq_some h

theorem addMetaS_attrs (m : MMeta) (s : VState) : (addMetaS m s).attrs = s.attrs := by
  unfold addMetaS; split <;> rfl
theorem addMetaS_ipackets (m : MMeta) (s : VState) : (addMetaS m s).ipackets = s.ipackets := by
  unfold addMetaS; split <;> rfl

theorem Inv.addMeta {s : VState} (h : Inv s) (m : MMeta)
    (hm : ∃ (a : Nat) (k : AttrK), m.attr = some a ∧ s.attrs[a]? = some k ∧ plain k) : Inv (addMetaS m s) := by
  unfold addMetaS
  split
  · exact h.of_eq rfl rfl rfl
  · constructor
    · intro m' hm'
      rcases List.mem_append.1 hm' with h1 | h1
      · exact h.metaOK m' h1
      · cases List.mem_singleton.1 h1; exact hm
    · exact h.inlOK
    · exact h.ipkOK

theorem addOptionS_attrs (n v : String) (l : Nat) (s : VState) : (addOptionS n v l s).attrs = s.attrs := by
  unfold addOptionS; split
  · rfl
  · dsimp only; split <;> split <;> rfl
theorem addOptionS_ipackets (n v : String) (l : Nat) (s : VState) :
    (addOptionS n v l s).ipackets = s.ipackets := by
  unfold addOptionS; split
  · rfl
  · dsimp only; split <;> split <;> rfl
theorem addOptionS_metas (n v : String) (l : Nat) (s : VState) : (addOptionS n v l s).metas = s.metas := by
  unfold addOptionS; split
  · rfl
  · dsimp only; split <;> split <;> rfl

theorem addPacketS_attrs (p : MPacket) (s : VState) : (addPacketS p s).attrs = s.attrs := by
  unfold addPacketS; split
  · rfl
  · dsimp only; split
    · split <;> rfl
    · rfl
theorem addPacketS_ipackets (p : MPacket) (s : VState) : (addPacketS p s).ipackets = s.ipackets := by
  unfold addPacketS; split
  · rfl
  · dsimp only; split
    · split <;> rfl
    · rfl
theorem addPacketS_metas (p : MPacket) (s : VState) : (addPacketS p s).metas = s.metas := by
  unfold addPacketS; split
  · rfl
  · dsimp only; split
    · split <;> rfl
    · rfl

/-! ## Fields -/

/-- the field's attribute pointer is valid and is not a length attribute without target -/
def FOK (f : MField) (s : VState) : Prop :=
  ∃ (a : Nat) (k : AttrK), f.attr = some a ∧ s.attrs[a]? = some k ∧ noBareLen k

/-- the field's attribute pointer, if any, is valid -/
def FV (f : MField) (s : VState) : Prop := ∀ i, f.attr = some i → i < s.attrs.size

theorem FOK.fv {f : MField} {s : VState} (h : FOK f s) : FV f s := by
  obtain ⟨a, k, h1, h2, _⟩ := h
  intro i hi; rw [h1] at hi; cases hi; exact lt_size_of_getElem? h2

theorem FV.mono {f : MField} {s s' : VState} (h : FV f s) (hp : Pres s s') : FV f s' :=
  fun i hi => Nat.lt_of_lt_of_le (h i hi) hp.size

/-- postcondition of the steps that return a field -/
def FPost (s : VState) (f : MField) (s' : VState) : Prop := Inv s' ∧ Pres s s' ∧ FOK f s'

/-- normalise a `wp` goal: binds, state primitives and the store primitives of `Visit.lean` -/
macro "wps" : tactic =>
  `(tactic| simp only [wp_bind, wp_pure, wp_get, wp_set, wp_modify, wp_newAttr, wp_newPad, wp_addDiag,
      wp_addMeta, wp_addOption, wp_addPacket, wp_lift])

theorem and3 {a b c : Prop} (h : a ∧ b) (hc : c) : a ∧ b ∧ c := ⟨h.1, h.2, hc⟩

theorem chain {s0 s s' : VState} (hp : Pres s0 s) (h : Inv s' ∧ Pres s s') : Inv s' ∧ Pres s0 s' :=
  ⟨h.1, hp.trans h.2⟩

/-- nothing the invariants look at has changed -/
theorem step_same {s s' : VState} (h : Inv s) (ha : s'.attrs = s.attrs) (hi : s'.ipackets = s.ipackets)
    (hm : s'.metas = s.metas) : Inv s' ∧ Pres s s' := ⟨h.of_eq ha hi hm, Pres.of_eq ha⟩

/-- one attribute pushed (pads / diagnostics may differ as well) -/
theorem step_push {s s' : VState} (h : Inv s) (k : AttrK)
    (hk : ∀ p q, k = .object true p (.inline q) → q < s.ipackets.size)
    (ha : s'.attrs = s.attrs.push k) (hi : s'.ipackets = s.ipackets) (hm : s'.metas = s.metas) :
    Inv s' ∧ Pres s s' :=
  ⟨(h.push k hk).of_eq ha hi hm, (Pres.push s k).trans (Pres.of_eq ha)⟩

/-- one attribute overwritten in place -/
theorem step_set {s s' : VState} (h : Inv s) (ai : Nat) (v : AttrK)
    (hold : ∀ k, s.attrs[ai]? = some k → ¬ stable k) (hv : ∀ p q, v ≠ .object true p (.inline q))
    (ha : s'.attrs = s.attrs.set! ai v) (hi : s'.ipackets = s.ipackets) (hm : s'.metas = s.metas) :
    Inv s' ∧ Pres s s' :=
  ⟨(h.set ai v hold hv).of_eq ha hi hm, (Pres.set s ai v hold).trans (Pres.of_eq ha)⟩

theorem getElem?_push_size (xs : Array α) (x : α) : (xs.push x)[xs.size]? = some x := by simp

theorem notInl_basic {t} : ∀ p q, AttrK.basic t = .object true p (.inline q) → q < n := by intro p q h; cases h
theorem notInl_fixed {a b} : ∀ p q, AttrK.fixed a b = .object true p (.inline q) → q < n := by intro p q h; cases h
theorem notInl_dyn : ∀ p q, AttrK.dyn = .object true p (.inline q) → q < n := by intro p q h; cases h
theorem notInl_length {a b} : ∀ p q, AttrK.length a b = .object true p (.inline q) → q < n := by intro p q h; cases h
theorem notInl_lengthOf {a} : ∀ p q, AttrK.lengthOf a = .object true p (.inline q) → q < n := by intro p q h; cases h
theorem notInl_checksum {a b} : ∀ p q, AttrK.checksum a b = .object true p (.inline q) → q < n := by intro p q h; cases h
theorem notInl_match {a b c} : ∀ p q, AttrK.match_ a b c = .object true p (.inline q) → q < n := by intro p q h; cases h
theorem notInl_objNone {a b} : ∀ p q, AttrK.object a b .none = .object true p (.inline q) → q < n := by intro p q h; cases h

theorem tyAttr_spec (ty : Ty) (name : String) (s : VState) (h : Inv s) :
    wp (tyAttr ty name) (fun a s' => Inv s' ∧ Pres s s' ∧ ∃ k, s'.attrs[a]? = some k ∧ plain k) s := by
  unfold tyAttr
  split
  · wps
    exact and3 (step_push h _ notInl_basic rfl rfl rfl) ⟨_, getElem?_push_size _ _, trivial⟩
  · split
    · wps
      split
      · wps
        exact and3 (step_push h _ notInl_fixed rfl rfl rfl) ⟨_, getElem?_push_size _ _, trivial⟩
      · wps
        exact and3 (step_push h _ notInl_fixed rfl rfl rfl) ⟨_, getElem?_push_size _ _, trivial⟩
    · split
      · wps
        exact and3 (step_push h _ notInl_fixed rfl rfl rfl) ⟨_, getElem?_push_size _ _, trivial⟩
      · wps
        exact and3 (step_push h _ notInl_fixed rfl rfl rfl) ⟨_, getElem?_push_size _ _, trivial⟩
  · wps
    exact and3 (step_push h _ notInl_dyn rfl rfl rfl) ⟨_, getElem?_push_size _ _, trivial⟩

theorem fok_fresh (s s' : VState) (k : AttrK) (f : MField) (ha : s'.attrs = s.attrs.push k)
    (hf : f.attr = some s.attrs.size) (hk : noBareLen k) : FOK f s' :=
  ⟨s.attrs.size, k, hf, by rw [ha]; exact getElem?_push_size _ _, hk⟩

theorem visitObj_spec (rep : Option Tok) (ft : Tok) (fn : Option Tok) (s : VState) (h : Inv s) :
    wp (visitObj rep ft fn) (FPost s) s := by
  unfold visitObj FPost
  wps
  split
  · next m hm =>
    wps
    obtain ⟨a, k, h1, h2, h3⟩ := h.metaOK m (mem_of_findMeta hm)
    exact ⟨h, Pres.refl _, a, k, h1, h2, plain_noBareLen h3⟩
  · wps
    exact and3 (step_push h _ notInl_objNone rfl rfl rfl) (fok_fresh _ _ _ _ rfl rfl trivial)

theorem metaTypeOf_spec (name : String) (hasTy : Bool) (typ0 : String) (line : Nat) (site : String)
    (s : VState) (h : Inv s) :
    wp (metaTypeOf name hasTy typ0 line site) (fun _ s' => Inv s' ∧ Pres s s') s := by
  unfold metaTypeOf
  split
  · wps
    exact ⟨h, Pres.refl _⟩
  · wps
    split
    · next m hm =>
      obtain ⟨a, k, h1, h2, _⟩ := h.metaOK m (mem_of_findMeta hm)
      have : m.attr.bind (s.attrs[·]?) = some k := by rw [h1]; exact h2
      rw [this]
      wps
      exact ⟨h, Pres.refl _⟩
    · wps
      exact step_same h rfl rfl rfl

theorem visitLen_spec (d : LenDecl) (line : Nat) (s : VState) (h : Inv s) :
    wp (visitLen d line) (FPost s) s := by
  unfold visitLen FPost
  wps
  refine wp_mono (metaTypeOf_spec _ _ _ _ _ s h) ?_
  intro typ s1 ⟨h1, h2⟩
  obtain ⟨h3, h4⟩ := step_push (s' := { s1 with attrs := s1.attrs.push (.length typ (some d.attr.from_.text)) })
    h1 _ notInl_length rfl rfl rfl
  exact ⟨h3, h2.trans h4, fok_fresh _ _ _ _ rfl rfl trivial⟩

theorem visitCks_spec (d : CkDecl) (line : Nat) (s : VState) (h : Inv s) :
    wp (visitCks d line) (FPost s) s := by
  unfold visitCks FPost
  wps
  refine wp_mono (metaTypeOf_spec _ _ _ _ _ s h) ?_
  intro typ s1 ⟨h1, h2⟩
  obtain ⟨h3, h4⟩ := step_push (s' := { s1 with attrs := s1.attrs.push (.checksum typ d.attr.from_.text) })
    h1 _ notInl_checksum rfl rfl rfl
  exact ⟨h3, h2.trans h4, fok_fresh _ _ _ _ rfl rfl trivial⟩

theorem visitMetaF_spec (rep : Option Tok) (d : MetaDecl) (s : VState) (h : Inv s) :
    wp (visitMetaF rep d) (FPost s) s := by
  unfold visitMetaF FPost
  wps
  refine wp_mono (tyAttr_spec _ _ s h) ?_
  intro a s1 ⟨h1, h2, k, h3, h4⟩
  exact ⟨h1, h2, a, k, rfl, h3, plain_noBareLen h4⟩

theorem visitMatch_spec (d : MatchDecl) (s : VState) (h : Inv s) :
    wp (visitMatch d) (FPost s) s := by
  unfold visitMatch FPost
  wps
  have hl : wp ((pairsOfMatch d).foldlM dupKeyStep []) (fun _ s' => Inv s' ∧ Pres s s') s := by
    refine wp_foldlM dupKeyStep (fun _ s' => Inv s' ∧ Pres s s') _ _ _ ⟨h, Pres.refl _⟩ ?_
    intro seen pr s1 _ ⟨h1, h2⟩
    unfold dupKeyStep
    split
    · wps
      obtain ⟨h3, h4⟩ := step_same (s' := { s1 with diags := s1.diags ++ [(pr.line, "Duplicate match key: " ++ pr.key)] }) h1 rfl rfl rfl
      exact ⟨h3, h2.trans h4⟩
    · wps
      exact ⟨h1, h2⟩
  refine wp_mono hl ?_
  intro _ s1 ⟨h1, h2⟩
  obtain ⟨h3, h4⟩ := step_push (s' := { s1 with attrs := s1.attrs.push (.match_ (some d.key.text) false (pairsOfMatch d)) })
    h1 _ notInl_match rfl rfl rfl
  exact ⟨h3, h2.trans h4, fok_fresh _ _ _ _ rfl rfl trivial⟩

/-! ## Inline objects -/

theorem attr_at {f : MField} {s : VState} {ai : Nat} {k : AttrK}
    (h1 : f.attr.bind (s.attrs[·]?) = some k) (h2 : f.attr = some ai) : s.attrs[ai]? = some k := by
  rw [h2] at h1; exact h1

theorem notStable_of_eq {xs : Array AttrK} {ai : Nat} {k0 : AttrK} (h : xs[ai]? = some k0) (hk : ¬ stable k0) :
    ∀ k, xs[ai]? = some k → ¬ stable k := by
  intro k hk'; rw [h] at hk'; cases hk'; exact hk

theorem inerMatchStep_spec (subs : List MField) (f : MField) (line : Nat) (s : VState) (h : Inv s) :
    wp (inerMatchStep subs f line) (fun _ s' => Inv s' ∧ Pres s s') s := by
  unfold inerMatchStep
  wps
  split
  · next k kr pairs ai h1 h2 =>
    have hat := attr_at h1 h2
    split
    · wps
      exact step_set h ai _ (notStable_of_eq hat (fun hh => hh)) (by intro p q hh; cases hh) rfl rfl rfl
    · wps
      exact step_same h rfl rfl rfl
  · wps
    exact ⟨h, Pres.refl _⟩

theorem inerLenStep_spec (f : MField) (line : Nat) (s : VState) (h : Inv s) :
    wp (inerLenStep f line) (fun _ s' => Inv s' ∧ Pres s s') s := by
  unfold inerLenStep
  wps
  split
  · wps
    exact step_same h rfl rfl rfl
  · wps
    exact ⟨h, Pres.refl _⟩

theorem inerStep_spec (subs : List MField) (x : MField × FieldDef) (s : VState) (h : Inv s) :
    wp (inerStep subs x) (fun _ s' => Inv s' ∧ Pres s s') s := by
  unfold inerStep
  rw [wp_bind]
  refine wp_mono (inerMatchStep_spec subs x.1 _ s h) ?_
  intro _ s1 ⟨h1, h2⟩
  refine wp_mono (inerLenStep_spec x.1 _ s1 h1) ?_
  intro _ s2 ⟨h3, h4⟩
  exact ⟨h3, h2.trans h4⟩

/-- an anonymous packet is registered, then the attribute that refers to it -/
theorem step_ipush_push {s s' : VState} (h : Inv s) (ip : MPacket)
    (hv : ∀ f, f ∈ ip.fields → ∀ i, f.attr = some i → i < s.attrs.size) (p : String)
    (ha : s'.attrs = s.attrs.push (.object true p (.inline s.ipackets.size)))
    (hi : s'.ipackets = s.ipackets.push ip) (hm : s'.metas = s.metas) : Inv s' ∧ Pres s s' := by
  have h1 := h.ipush ip hv
  have h2 := h1.push (.object true p (.inline s.ipackets.size))
    (by intro p' q hh; cases hh; show s.ipackets.size < (s.ipackets.push ip).size; rw [Array.size_push]; omega)
  exact ⟨h2.of_eq ha hi hm, (Pres.push s _).trans (Pres.of_eq ha)⟩

theorem inerFinish_spec (rep : Option Tok) (name : Tok) (fields : List FieldDef) (subs : List MField)
    (s : VState) (h : Inv s) (hv : ∀ f, f ∈ subs → FV f s) :
    wp (inerFinish rep name fields subs) (FPost s) s := by
  unfold inerFinish FPost
  rw [wp_bind]
  have hl : wp ((subs.zip fields).forM (inerStep subs)) (fun _ s' => Inv s' ∧ Pres s s') s := by
    refine wp_forM (inerStep subs) (fun s' => Inv s' ∧ Pres s s') _ _ ⟨h, Pres.refl _⟩ ?_
    intro x s1 _ ⟨h1, h2⟩
    refine wp_mono (inerStep_spec subs x s1 h1) ?_
    intro _ s2 ⟨h3, h4⟩
    exact ⟨h3, h2.trans h4⟩
  refine wp_mono hl ?_
  intro _ s1 ⟨h1, h2⟩
  wps
  exact and3 (chain h2 (step_ipush_push h1 _ (fun f hf => (hv f hf).mono h2) name.text rfl rfl rfl))
    (fok_fresh _ _ _ _ rfl rfl trivial)

mutual
theorem visitFieldDef_spec : (fd : FieldDef) → (s : VState) → Inv s → wp (visitFieldDef fd) (FPost s) s
  | .obj rep ft fn _ _, s, h => by rw [visitFieldDef]; exact visitObj_spec rep ft fn s h
  | .iner rep name _ fields _ _, s, h => by
    rw [visitFieldDef, wp_bind]
    refine wp_mono (visitFieldDefs_spec fields s h) ?_
    intro subs s1 ⟨h1, h2, h3⟩
    refine wp_mono (inerFinish_spec rep name fields subs s1 h1 h3) ?_
    intro f s2 ⟨h4, h5, h6⟩
    exact ⟨h4, h2.trans h5, h6⟩
  | .len d, s, h => by rw [visitFieldDef]; exact visitLen_spec d _ s h
  | .cks d, s, h => by rw [visitFieldDef]; exact visitCks_spec d _ s h
  | .metaF rep d, s, h => by rw [visitFieldDef]; exact visitMetaF_spec rep d s h
  | .match_ d _, s, h => by rw [visitFieldDef]; exact visitMatch_spec d s h
theorem visitFieldDefs_spec : (fds : List FieldDef) → (s : VState) → Inv s →
    wp (visitFieldDefs fds) (fun fs s' => Inv s' ∧ Pres s s' ∧ ∀ f, f ∈ fs → FV f s') s
  | [], s, h => by
    rw [visitFieldDefs, wp_pure]
    exact ⟨h, Pres.refl _, fun f hf => by cases hf⟩
  | fd :: fds, s, h => by
    rw [visitFieldDefs, wp_bind]
    refine wp_mono (visitFieldDef_spec fd s h) ?_
    intro f s1 ⟨h1, h2, h3⟩
    rw [wp_bind]
    refine wp_mono (visitFieldDefs_spec fds s1 h1) ?_
    intro fs s2 ⟨h4, h5, h6⟩
    rw [wp_pure]
    refine ⟨h4, h2.trans h5, ?_⟩
    intro f' hf'
    rcases List.mem_cons.1 hf' with hh | hh
    · subst hh; exact h3.fv.mono h5
    · exact h6 f' hh
end

/-! ## `VisitFieldDefinitionWithAttribute` -/

/-- `Field.GetType()` does not panic on a field whose attribute pointer is valid -/
theorem fieldGetType_ok {s : VState} {a : Nat} {k : AttrK} (site : String) (h : s.attrs[a]? = some k) :
    ∃ t, fieldGetType s (some a) site = .ok t := by
  unfold fieldGetType
  simp only [h]
  split
  · exact ⟨_, rfl⟩
  · exact ⟨_, rfl⟩
  · split <;> exact ⟨_, rfl⟩
  · exact ⟨_, rfl⟩
  · split <;> exact ⟨_, rfl⟩

theorem FOK.push {f : MField} {s s' : VState} {k : AttrK} (h : FOK f s) (ha : s'.attrs = s.attrs.push k) : FOK f s' := by
  obtain ⟨a, k0, h1, h2, h3⟩ := h
  exact ⟨a, k0, h1, by rw [ha]; exact getElem?_push_of_some h2, h3⟩

theorem FOK.same {f : MField} {s s' : VState} (h : FOK f s) (ha : s'.attrs = s.attrs) : FOK f s' := by
  obtain ⟨a, k0, h1, h2, h3⟩ := h
  exact ⟨a, k0, h1, by rw [ha]; exact h2, h3⟩

theorem attrStep_spec (fld : MField) (a : Attr) (s : VState) (h : Inv s) (hf : FOK fld s) :
    wp (attrStep fld a) (FPost s) s := by
  obtain ⟨ai, k, h1, h2, h3⟩ := hf
  unfold attrStep FPost
  split
  · wps
    rw [h1]
    obtain ⟨t, ht⟩ := fieldGetType_ok "calculatedFrom attribute: f.GetType()" h2
    exact ⟨t, ht, and3 (step_push h _ notInl_checksum rfl rfl rfl) (fok_fresh _ _ _ _ rfl rfl trivial)⟩
  · wps
    rw [h1]
    obtain ⟨t, ht⟩ := fieldGetType_ok "lengthOf attribute: f.GetType()" h2
    exact ⟨t, ht, and3 (step_push h _ notInl_length rfl rfl rfl) (fok_fresh _ _ _ _ rfl rfl trivial)⟩
  · wps
    split
    · wps
      exact and3 (step_push h _ notInl_fixed rfl rfl rfl) (fok_fresh _ _ _ _ rfl rfl trivial)
    · wps
      exact and3 (step_same h rfl rfl rfl) ⟨ai, k, h1, h2, h3⟩
  · wps
    exact ⟨h, Pres.refl _, ai, k, h1, h2, h3⟩

theorem visitFieldWA_spec (f : FieldWA) (s : VState) (h : Inv s) : wp (visitFieldWA f) (FPost s) s := by
  unfold visitFieldWA
  rw [wp_bind]
  refine wp_mono (visitFieldDef_spec f.fd s h) ?_
  intro fld s1 h1
  refine wp_foldlM attrStep (FPost s) _ _ _ h1 ?_
  intro fld' a s2 _ ⟨h2, h3, h4⟩
  refine wp_mono (attrStep_spec fld' a s2 h2 h4) ?_
  intro fld'' s3 ⟨h5, h6, h7⟩
  exact ⟨h5, h3.trans h6, h7⟩

/-! ## `VisitPacketDefinition` -/

/-- the field carries a length attribute whose target pointer is not nil -/
def LenAttrOK (lf : MField) (s : VState) : Prop :=
  ∃ (a : Nat) (t tn : String), lf.attr = some a ∧ s.attrs[a]? = some (.length t (some tn))

theorem LenAttrOK.mono {lf : MField} {s s' : VState} (h : LenAttrOK lf s) (hp : Pres s s') : LenAttrOK lf s' := by
  obtain ⟨a, t, tn, h1, h2⟩ := h
  exact ⟨a, t, tn, h1, hp.keep a _ h2 trivial⟩

/-- first loop: the `lengthField` pointer is a length field with a target and, when it stands in `fields`, it is
the field at the recorded position -/
def L1 (fields : List MField) (lenF : LenF) (s : VState) : Prop :=
  ∀ lf li, lenF = some (lf, li) → LenAttrOK lf s ∧ ∀ j, li = some j → fields[j]? = some lf

theorem L1.mono {fields : List MField} {lenF : LenF} {s s' : VState} (h : L1 fields lenF s) (hp : Pres s s') :
    L1 fields lenF s' :=
  fun lf li hl => ⟨(h lf li hl).1.mono hp, (h lf li hl).2⟩

theorem isLenK_some {k : AttrK} (h : isLenK (some k) = true) : ∃ t tgt, k = .length t tgt := by
  cases k <;> first | exact ⟨_, _, rfl⟩ | (simp [isLenK] at h)

def Post1 (s : VState) (acc : Acc1) (s' : VState) : Prop := Inv s' ∧ Pres s s' ∧ L1 acc.1 acc.2.2.1 s'

theorem pktStep1_spec (isRoot : Bool) (pname : String) (acc : Acc1) (fwa : FieldWA) (s : VState) (h : Inv s)
    (hl : L1 acc.1 acc.2.2.1 s) : wp (pktStep1 isRoot pname acc fwa) (Post1 s) s := by
  obtain ⟨fields, lines, lenF, mfs⟩ := acc
  unfold pktStep1 Post1
  simp only [wp_bind]
  refine wp_mono (visitFieldWA_spec fwa s h) ?_
  intro fld s1 ⟨h1, h2, a, k, h3, h4, h5⟩
  have hb : fld.attr.bind (s1.attrs[·]?) = some k := by rw [h3]; exact h4
  simp only [wp_get, hb]
  have hl1 : L1 fields lenF s1 := L1.mono hl h2
  split
  · wps
    exact and3 (chain h2 (step_same h1 rfl rfl rfl)) (hl1.mono (Pres.of_eq rfl))
  · split
    · wps
      exact and3 (chain h2 (step_same h1 rfl rfl rfl)) (hl1.mono (Pres.of_eq rfl))
    · split
      · next hdup =>
        wps
        refine and3 (chain h2 (step_same h1 rfl rfl rfl)) ?_
        intro lf li hlf
        split at hlf
        · next hlen =>
          cases hlf
          obtain ⟨t, tgt, hk⟩ := isLenK_some hlen
          subst hk
          cases tgt with
          | none => exact absurd h5 (fun hh => hh)
          | some tn =>
            refine ⟨⟨a, t, tn, h3, h4⟩, ?_⟩
            intro j hj
            cases hj
        · exact (hl1.mono (Pres.of_eq rfl)) lf li hlf
      · next hdup =>
        wps
        refine ⟨h1, h2, ?_⟩
        intro lf li hlf
        split at hlf
        · next hlen =>
          cases hlf
          obtain ⟨t, tgt, hk⟩ := isLenK_some hlen
          subst hk
          cases tgt with
          | none => exact absurd h5 (fun hh => hh)
          | some tn =>
            refine ⟨⟨a, t, tn, h3, h4⟩, ?_⟩
            intro j hj
            cases hj
            exact List.getElem?_concat_length
        · obtain ⟨h6, h7⟩ := hl1 lf li hlf
          refine ⟨h6, ?_⟩
          intro j hj
          have h8 := h7 j hj
          have hlt : j < fields.length := by
            rcases Nat.lt_or_ge j fields.length with hh | hh
            · exact hh
            · rw [List.getElem?_eq_none hh] at h8; cases h8
          show (fields ++ [fld])[j]? = some lf
          rw [List.getElem?_append_left hlt]; exact h8

/-- second loop: the current length-field object still carries `.length _ (some tn)`, `tn` a declared field -/
def LenOK (fieldMap : List String) (lenF : LenF) (fs : List MField) (s : VState) : Prop :=
  ∀ lf0 li, lenF = some (lf0, li) →
    ∃ (a : Nat) (t tn : String), (curLenField fs lf0 li).attr = some a ∧
      s.attrs[a]? = some (.length t (some tn)) ∧ fieldMap.contains tn = true

theorem LenOK.mono {fm : List String} {lenF : LenF} {fs : List MField} {s s' : VState}
    (h : LenOK fm lenF fs s) (hp : Pres s s') : LenOK fm lenF fs s' := by
  intro lf0 li hl
  obtain ⟨a, t, tn, h1, h2, h3⟩ := h lf0 li hl
  exact ⟨a, t, tn, h1, hp.keep a _ h2 trivial, h3⟩

theorem LenOK.none (fm : List String) (fs : List MField) (s : VState) : LenOK fm none fs s :=
  fun _ _ hl => by cases hl

theorem getElem!_of_getElem? {fs : List MField} {j : Nat} {f : MField} (h : fs[j]? = some f) : fs[j]! = f := by
  rw [List.getElem!_eq_getElem?_getD, h]; rfl

theorem pktLenCheck_spec (fields : List MField) (lines : List Nat) (fm : List String) (lenF : LenF) (s : VState)
    (h : Inv s) (hl : L1 fields lenF s) :
    wp (pktLenCheck fields lines fm lenF) (fun lenF' s' => Inv s' ∧ Pres s s' ∧ LenOK fm lenF' fields s') s := by
  unfold pktLenCheck
  split
  · next lf li =>
    obtain ⟨⟨a, t, tn, h1, h2⟩, h3⟩ := hl lf li rfl
    have hb : lf.attr.bind (s.attrs[·]?) = some (.length t (some tn)) := by rw [h1]; exact h2
    have hok : fm.contains tn = true → LenOK fm (some (lf, li)) fields s := by
      intro hc lf0 li0 hh
      cases hh
      refine ⟨a, t, tn, ?_, h2, hc⟩
      cases li with
      | none => exact h1
      | some j => show (fields[j]!).attr = some a; rw [getElem!_of_getElem? (h3 j rfl)]; exact h1
    simp only [wp_bind, wp_get, hb]
    split
    · next hc =>
      split
      · split
        · wps
          exact and3 (step_same h rfl rfl rfl) (LenOK.none _ _ _)
        · wps
          exact ⟨h, Pres.refl _, hok hc⟩
      · wps
        exact ⟨h, Pres.refl _, hok hc⟩
    · wps
      exact and3 (step_same h rfl rfl rfl) (LenOK.none _ _ _)
  · wps
    exact ⟨h, Pres.refl _, LenOK.none _ _ _⟩

theorem getElem!_setField (fs : List MField) (i j : Nat) (x : MField) :
    (setField fs i x)[j]! = if i = j ∧ i < fs.length then x else fs[j]! := by
  unfold setField
  rw [List.getElem!_eq_getElem?_getD, List.getElem?_set, List.getElem!_eq_getElem?_getD]
  by_cases h1 : i = j
  · by_cases h2 : i < fs.length
    · subst h1
      simp [h2]
    · subst h1
      simp [h2]
  · simp [h1]

/-- overwriting a field by one with the same attribute pointer does not change the pointers seen through `[j]!` -/
theorem attr_setField_same (fs : List MField) (i j : Nat) (x : MField) (hx : x.attr = (fs[i]!).attr) :
    ((setField fs i x)[j]!).attr = (fs[j]!).attr := by
  rw [getElem!_setField]
  split
  · next hh => rw [hx, hh.1]
  · rfl

theorem curLenField_attr_congr {fs fs' : List MField} (lf0 : MField) (li : Option Nat)
    (h : ∀ j : Nat, (fs'[j]! : MField).attr = (fs[j]! : MField).attr) : (curLenField fs' lf0 li).attr = (curLenField fs lf0 li).attr := by
  cases li with
  | none => rfl
  | some j => exact h j

def Post2 (fm : List String) (lenF : LenF) (s : VState) (fs : List MField) (s' : VState) : Prop :=
  Inv s' ∧ Pres s s' ∧ LenOK fm lenF fs s'

theorem pktStep2Len_spec (fm : List String) (lenF : LenF) (fs : List MField) (i : Nat) (s : VState)
    (h : Inv s) (hl : LenOK fm lenF fs s) : wp (pktStep2Len lenF fs i) (Post2 fm lenF s) s := by
  unfold pktStep2Len Post2
  wps
  split
  · next lf0 li =>
    obtain ⟨a, t, tn, h1, h2, h3⟩ := hl lf0 li rfl
    have hb : (curLenField fs lf0 li).attr.bind (s.attrs[·]?) = some (.length t (some tn)) := by rw [h1]; exact h2
    simp only [hb]
    split
    · wps
      refine and3 (step_push h _ notInl_lengthOf rfl rfl rfl) ?_
      intro lf0' li' hh
      cases hh
      refine ⟨a, t, tn, ?_, getElem?_push_of_some h2, h3⟩
      rw [← h1]
      apply curLenField_attr_congr
      intro j
      refine (attr_setField_same _ i j _ (by rfl)).trans ?_
      cases li with
      | none => rfl
      | some j' => exact attr_setField_same _ _ _ _ (by rfl)
    · wps
      exact ⟨h, Pres.refl _, hl⟩
  · wps
    exact ⟨h, Pres.refl _, hl⟩

theorem LenOK.step {fm : List String} {lenF : LenF} {fs : List MField} {s s' : VState}
    (hl : LenOK fm lenF fs s) (h : Inv s' ∧ Pres s s') : Inv s' ∧ Pres s s' ∧ LenOK fm lenF fs s' :=
  ⟨h.1, h.2, hl.mono h.2⟩

theorem pktStep2Res_spec (fm : List String) (lenF : LenF) (lines : List Nat) (fs : List MField) (i : Nat)
    (s : VState) (h : Inv s) (hl : LenOK fm lenF fs s) : wp (pktStep2Res fm lines fs i) (Post2 fm lenF s) s := by
  unfold pktStep2Res Post2
  wps
  split
  · next pkt ref ai h1 h2 =>
    have hat := attr_at h1 h2
    wps
    exact hl.step (step_set h ai _ (notStable_of_eq hat (fun hh => hh)) (by intro p q hh; cases hh) rfl rfl rfl)
  · next t0 tname ai h1 h2 =>
    have hat := attr_at h1 h2
    wps
    rw [h2]
    obtain ⟨t, ht⟩ := fieldGetType_ok "LengthType: f.GetType()" hat
    refine ⟨t, ht, and3 (step_push h _ notInl_length rfl rfl rfl) ?_⟩
    intro lf0 li hh
    obtain ⟨a, t', tn, h3, h4, h5⟩ := hl lf0 li hh
    cases li with
    | none => exact ⟨a, t', tn, h3, getElem?_push_of_some h4, h5⟩
    | some j =>
      show ∃ (a : Nat) (t tn : String), ((setField fs i _)[j]!).attr = some a ∧ _
      rw [getElem!_setField]
      split
      · next hij =>
        -- the length field itself: its new attribute keeps the (declared) target
        have h3' : (fs[i]!).attr = some a := by rw [hij.1]; exact h3
        rw [h2] at h3'; cases h3'
        rw [hat] at h4; cases h4
        refine ⟨s.attrs.size, t, tname, rfl, ?_, h5⟩
        show (s.attrs.push _)[s.attrs.size]? = _
        rw [getElem?_push_size, if_pos h5]
      · exact ⟨a, t', tn, h3, getElem?_push_of_some h4, h5⟩
  · next k kr pairs ai h1 h2 =>
    have hat := attr_at h1 h2
    split
    · wps
      exact hl.step (step_set h ai _ (notStable_of_eq hat (fun hh => hh)) (by intro p q hh; cases hh) rfl rfl rfl)
    · wps
      exact hl.step (step_same h rfl rfl rfl)
  · wps
    exact ⟨h, Pres.refl _, hl⟩

theorem pktStep2_spec (fm : List String) (lenF : LenF) (lines : List Nat) (fs : List MField) (i : Nat)
    (s : VState) (h : Inv s) (hl : LenOK fm lenF fs s) : wp (pktStep2 lenF fm lines fs i) (Post2 fm lenF s) s := by
  unfold pktStep2
  rw [wp_bind]
  refine wp_mono (pktStep2Len_spec fm lenF fs i s h hl) ?_
  intro fs1 s1 ⟨h1, h2, h3⟩
  refine wp_mono (pktStep2Res_spec fm lenF lines fs1 i s1 h1 h3) ?_
  intro fs2 s2 ⟨h4, h5, h6⟩
  exact ⟨h4, h2.trans h5, h6⟩

theorem visitPacketDef_spec (p : PacketDef) (s : VState) (h : Inv s) :
    wp (visitPacketDef p) (fun _ s' => Inv s' ∧ Pres s s') s := by
  unfold visitPacketDef
  simp only [wp_bind]
  have hl1 : wp (p.fields.foldlM (pktStep1 p.root.isSome p.name.text) ([], [], none, [])) (Post1 s) s := by
    refine wp_foldlM _ (Post1 s) _ _ _ ⟨h, Pres.refl _, fun _ _ hh => by cases hh⟩ ?_
    intro acc fwa s1 _ ⟨h1, h2, h3⟩
    refine wp_mono (pktStep1_spec _ _ acc fwa s1 h1 h3) ?_
    intro acc' s2 ⟨h4, h5, h6⟩
    exact ⟨h4, h2.trans h5, h6⟩
  refine wp_mono hl1 ?_
  intro ⟨fields, lines, lenF, mfs⟩ s1 ⟨h1, h2, h3⟩
  refine wp_mono (pktLenCheck_spec fields lines (fields.map (·.name)) lenF s1 h1 h3) ?_
  intro lenF' s2 ⟨h4, h5, h6⟩
  have hl2 : wp ((List.range fields.length).foldlM (pktStep2 lenF' (fields.map (·.name)) lines) fields)
      (Post2 (fields.map (·.name)) lenF' s2) s2 := by
    refine wp_foldlM _ (Post2 (fields.map (·.name)) lenF' s2) _ _ _ ⟨h4, Pres.refl _, h6⟩ ?_
    intro fs i s3 _ ⟨h7, h8, h9⟩
    refine wp_mono (pktStep2_spec _ lenF' lines fs i s3 h7 h9) ?_
    intro fs' s4 ⟨h10, h11, h12⟩
    exact ⟨h10, h8.trans h11, h12⟩
  refine wp_mono hl2 ?_
  intro fs s3 ⟨h7, h8, _⟩
  rw [wp_pure]
  exact ⟨h7, (h2.trans h5).trans h8⟩

/-! ## `ResolveDependencies` -/

/-- postcondition of the resolve steps: the invariants hold and no anonymous packet was added -/
structure RPost (ipk : Array MPacket) (s' : VState) : Prop where
  inv : Inv s'
  same : s'.ipackets = ipk

theorem matchTargetStep_spec (f : MField) (pr : MPair) (s : VState) (h : Inv s) :
    wp (matchTargetStep f pr) (fun _ => RPost s.ipackets) s := by
  unfold matchTargetStep
  wps
  split
  · wps
    exact ⟨h.of_eq rfl rfl rfl, rfl⟩
  · wps
    exact ⟨h, rfl⟩

/-- the fuel of `resolveField` is never exhausted: a field whose inline references (if any) go to anonymous
packets `< fuel` is resolved without a crash -/
theorem resolveField_safe : (fuel : Nat) → (f : MField) → (s : VState) → Inv s →
    (∀ (i : Nat) p q, f.attr = some i → s.attrs[i]? = some (AttrK.object true p (.inline q)) → q < fuel) →
    wp (resolveField fuel f) (fun _ => RPost s.ipackets) s
  | fuel, f, s, h, hq => by
    rw [resolveField]
    wps
    split
    · next iner pkt ai h1 h2 =>
      have hat := attr_at h1 h2
      split
      · wps
        exact ⟨h.set ai _ (notStable_of_eq hat (fun hh => hh)) (by intro p q hh; cases hh), rfl⟩
      · wps
        exact ⟨h.of_eq rfl rfl rfl, rfl⟩
    · next _ _ pkt pid h1 =>
      split
      · next ip hip =>
        -- the attribute pointer of `f` is valid, and it is an inline reference to `pid`
        cases hfa : f.attr with
        | none => rw [hfa] at h1; cases h1
        | some ai =>
          have hat : s.attrs[ai]? = some (.object true pkt (.inline pid)) := attr_at h1 hfa
          have hlt : pid < fuel := hq ai pkt pid hfa hat
          cases fuel with
          | zero => omega
          | succ n =>
            dsimp only
            refine wp_forM (resolveField n) (RPost s.ipackets) ip.fields s ⟨h, rfl⟩ ?_
            intro f' s1 hf' ⟨h3, h4⟩
            have hip1 : s1.ipackets[pid]? = some ip := by rw [h4]; exact hip
            refine wp_mono (resolveField_safe n f' s1 h3 ?_) ?_
            · intro i p q hi hqi
              have := (h3.ipkOK pid ip hip1 f' hf' i hi).2 p q hqi
              omega
            · intro _ s2 ⟨h5, h6⟩
              exact ⟨h5, h6.trans h4⟩
      · wps
        exact ⟨h, rfl⟩
    · next _ _ kk kr pairs _ =>
      refine wp_forM (matchTargetStep f) (RPost s.ipackets) pairs s ⟨h, rfl⟩ ?_
      intro pr s1 _ ⟨h3, h4⟩
      refine wp_mono (matchTargetStep_spec f pr s1 h3) ?_
      intro _ s2 ⟨h5, h6⟩
      exact ⟨h5, h6.trans h4⟩
    · wps
      exact ⟨h, rfl⟩

theorem resolveFields_safe (fields : List MField) (s : VState) (h : Inv s) :
    wp (resolveFields s.ipackets.size fields) (fun _ => RPost s.ipackets) s := by
  unfold resolveFields
  refine wp_forM _ (RPost s.ipackets) fields s ⟨h, rfl⟩ ?_
  intro f s1 _ ⟨h1, h2⟩
  refine wp_mono (resolveField_safe s.ipackets.size f s1 h1 ?_) ?_
  · intro i p q _ hqi
    have := h1.inlOK i p q hqi
    rw [h2] at this; exact this
  · intro _ s2 ⟨h3, h4⟩
    exact ⟨h3, h4.trans h2⟩

theorem checkRecursion_spec (s : VState) (h : Inv s) : wp checkRecursion (fun _ s' => Inv s') s := by
  unfold checkRecursion
  wps
  split
  · wps
    exact h.of_eq rfl rfl rfl
  · wps
    exact h

theorem resolveDeps_spec (s : VState) (h : Inv s) : wp resolveDeps (fun _ s' => Inv s') s := by
  unfold resolveDeps
  wps
  have hl : wp (s.packets.forM fun p => resolveFields s.ipackets.size p.fields) (fun _ => RPost s.ipackets) s := by
    refine wp_forM _ (RPost s.ipackets) s.packets s ⟨h, rfl⟩ ?_
    intro p s1 _ ⟨h1, h2⟩
    have := resolveFields_safe p.fields s1 h1
    rw [h2] at this
    exact this
  refine wp_mono hl ?_
  intro _ s1 ⟨h1, _⟩
  exact checkRecursion_spec s1 h1

/-! ## `VisitPacket` -/

theorem metaEntryStep_spec (e : MetaEntry) (s : VState) (h : Inv s) :
    wp (metaEntryStep e) (fun _ s' => Inv s') s := by
  unfold metaEntryStep
  split
  · next d =>
    rw [wp_bind]
    refine wp_mono (tyAttr_spec d.ty d.name.text s h) ?_
    intro a s1 ⟨h1, _, k, h2, h3⟩
    wps
    exact h1.addMeta _ ⟨a, k, rfl, h2, h3⟩
  · next r =>
    wps
    have key : ∀ s1 : VState, Inv s1 → s1.attrs = s.attrs →
        wp (if ((findMeta s r.typ.text).bind (·.attr)).isSome = true then
              addMeta { name := r.name.text, attr := (findMeta s r.typ.text).bind (·.attr), desc := docOf r.doc, line := r.typ.line }
            else pure PUnit.unit) (fun _ s' => Inv s') s1 := by
      intro s1 h1 ha
      split
      · next hs =>
        wps
        apply h1.addMeta
        cases hm : findMeta s r.typ.text with
        | none => rw [hm] at hs; cases hs
        | some m =>
          obtain ⟨a, k, h2, h3, h4⟩ := h.metaOK m (mem_of_findMeta hm)
          refine ⟨a, k, ?_, by rw [ha]; exact h3, h4⟩
          show Option.bind (some m) (·.attr) = some a
          exact h2
      · wps
        exact h1
    split
    · wps
      exact key _ (h.of_eq rfl rfl rfl) rfl
    · exact key s h rfl

theorem metaStep_spec (d : TopDef) (s : VState) (h : Inv s) : wp (metaStep d) (fun _ s' => Inv s') s := by
  unfold metaStep
  split
  · next m =>
    refine wp_forM metaEntryStep Inv m.entries s h ?_
    intro e s1 _ h1
    exact metaEntryStep_spec e s1 h1
  · wps
    exact h

theorem optStep_spec (d : TopDef) (s : VState) (h : Inv s) : wp (optStep d) (fun _ s' => Inv s') s := by
  unfold optStep
  split
  · next o =>
    refine wp_forM optDeclStep Inv o.decls s h ?_
    intro od s1 _ h1
    unfold optDeclStep
    wps
    exact h1.of_eq (addOptionS_attrs ..) (addOptionS_ipackets ..) (addOptionS_metas ..)
  · wps
    exact h

theorem addPacketS_inv {s : VState} (h : Inv s) (p : MPacket) : Inv (addPacketS p s) :=
  h.of_eq (addPacketS_attrs ..) (addPacketS_ipackets ..) (addPacketS_metas ..)

theorem packetStep_spec (d : TopDef) (s : VState) (h : Inv s) : wp (packetStep d) (fun _ s' => Inv s') s := by
  unfold packetStep
  split
  · next p =>
    rw [wp_bind]
    refine wp_mono (visitPacketDef_spec p s h) ?_
    intro mp s1 ⟨h1, _⟩
    wps
    exact addPacketS_inv h1 mp
  · wps
    exact h

theorem forM_inv (f : α → V PUnit) (hf : ∀ x s, Inv s → wp (f x) (fun _ s' => Inv s') s) (xs : List α)
    (s : VState) (h : Inv s) : wp (xs.forM f) (fun _ s' => Inv s') s :=
  wp_forM f Inv xs s h (fun x s _ hs => hf x s hs)

/-- the visitor model returns on every concrete syntax tree, from every state that satisfies the invariants -/
theorem visitCst_safe (c : Cst) (s : VState) (h : Inv s) : wp (visitCst c) (fun _ s' => Inv s') s := by
  unfold visitCst
  rw [wp_bind]
  refine wp_mono (forM_inv metaStep metaStep_spec c.defs s h) ?_
  intro _ s1 h1
  rw [wp_bind]
  refine wp_mono (forM_inv optStep optStep_spec c.defs s1 h1) ?_
  intro _ s2 h2
  rw [wp_bind]
  refine wp_mono (forM_inv packetStep packetStep_spec c.defs s2 h2) ?_
  intro _ s3 h3
  exact resolveDeps_spec s3 h3

/-- `Visit.run` never returns `.error`: no `throw` of the visitor model (nil dereference, failed type assertion,
index out of range, exhausted recursion fuel) is reachable, whatever the concrete syntax tree -/
theorem run_ok (c : Cst) : ∃ s, run c = .ok s := by
  obtain ⟨_, s', h, _⟩ := visitCst_safe c {} Inv.empty
  refine ⟨s', ?_⟩
  unfold run
  show Except.map (·.2) (visitCst c {}) = .ok s'
  rw [h]; rfl

end FinProtoc.Visit
