import FinProtoc.Proofs.VisitSafe
/-!
# What the visitor model reports: diagnostics through the loops

`VisitSafe.lean` shows that the visitor returns.  This file follows the *diagnostics* through the same steps:

* a partial-correctness calculus `wlp` (if the step returns, `Q` holds), combined with `wp` by `wp_and_wlp`;
* `Fr s s'` - the frame of the field level: `packets`, `root`, `metas`, `options` are untouched and `diags` has
  only been appended to; `Grow s s'` - the frame of the top level: every list has only been appended to and
  `root`, once set, stays;
* `Frames m` / `Grows m` for every step function of `Visit.lean`, up to `visitCst`;
* the top-level loops: a MetaData entry, an option, a packet that repeats an earlier name is diagnosed at its line.
-/
namespace FinProtoc.Visit
open FinProtoc FinProtoc.Dsl

/-! ## Weakest liberal preconditions -/

def wlp (m : V α) (Q : α → VState → Prop) (s : VState) : Prop :=
  ∀ a s', m s = .ok (a, s') → Q a s'

theorem wlp_pure (a : α) (Q : α → VState → Prop) (s) : wlp (pure a) Q s ↔ Q a s := by
  constructor
  · intro h; exact h a s rfl
  · intro h a' s' e; cases e; exact h

theorem wlp_bind (m : V α) (f : α → V β) (Q : β → VState → Prop) (s) :
    wlp (m >>= f) Q s ↔ wlp m (fun a s' => wlp (f a) Q s') s := by
  show wlp (fun s => _) Q s ↔ _
  unfold wlp
  constructor
  · intro h a s1 hm b s2 hf
    apply h
    simp [bind, StateT.bind, hm, Except.bind, hf]
  · intro h b s2 hb
    cases hm : m s with
    | error e => simp [bind, StateT.bind, hm, Except.bind] at hb
    | ok r =>
      obtain ⟨a, s1⟩ := r
      refine h a s1 hm b s2 ?_
      simpa [bind, StateT.bind, hm, Except.bind] using hb

theorem wlp_get (Q : VState → VState → Prop) (s) : wlp get Q s ↔ Q s s := by
  constructor
  · intro h; exact h s s rfl
  · intro h a' s' e; cases e; exact h

theorem wlp_set (x : VState) (Q : PUnit → VState → Prop) (s) : wlp (set x) Q s ↔ Q ⟨⟩ x := by
  constructor
  · intro h; exact h ⟨⟩ x rfl
  · intro h a' s' e; cases e; exact h

theorem wlp_modify (f : VState → VState) (Q : PUnit → VState → Prop) (s) :
    wlp (modify f) Q s ↔ Q ⟨⟩ (f s) := by
  constructor
  · intro h; exact h ⟨⟩ (f s) rfl
  · intro h a' s' e; cases e; exact h

theorem wlp_throw (e : Crash) (Q : α → VState → Prop) (s) : wlp (throw e : V α) Q s ↔ True := by
  constructor
  · intro _; trivial
  · intro _ a s' h; cases h

theorem wlp_lift (x : Except Crash α) (Q : α → VState → Prop) (s) :
    wlp (liftM x : V α) Q s ↔ ∀ a, x = .ok a → Q a s := by
  cases x with
  | error e =>
    constructor
    · intro _ a h; cases h
    · intro _ a s' h; cases h
  | ok a =>
    constructor
    · intro h a' e; cases e; exact h a s rfl
    · intro h a' s' e; cases e; exact h a rfl

theorem wlp_mono {m : V α} {Q Q' : α → VState → Prop} {s} (h : wlp m Q s)
    (hq : ∀ a s', Q a s' → Q' a s') : wlp m Q' s :=
  fun a s' e => hq _ _ (h a s' e)

theorem wlp_and {m : V α} {Q Q' : α → VState → Prop} {s} (h : wlp m Q s) (h' : wlp m Q' s) :
    wlp m (fun a s' => Q a s' ∧ Q' a s') s :=
  fun a s' e => ⟨h a s' e, h' a s' e⟩

/-- total and partial correctness combine -/
theorem wp_and_wlp {m : V α} {Q Q' : α → VState → Prop} {s} (h : wp m Q s) (h' : wlp m Q' s) :
    wp m (fun a s' => Q a s' ∧ Q' a s') s := by
  obtain ⟨a, s', e, hq⟩ := h
  exact ⟨a, s', e, hq, h' a s' e⟩

theorem wp_to_wlp {m : V α} {Q : α → VState → Prop} {s} (h : wp m Q s) : wlp m Q s := by
  obtain ⟨a, s', e, hq⟩ := h
  intro a' s'' e'
  rw [e] at e'; cases e'; exact hq

theorem wlp_foldlM (f : β → α → V β) (R : β → VState → Prop) :
    ∀ (xs : List α) (b : β) (s : VState), R b s →
      (∀ b x s, x ∈ xs → R b s → wlp (f b x) R s) → wlp (xs.foldlM f b) R s
  | [], b, s, h, _ => by rw [List.foldlM_nil]; exact (wlp_pure ..).2 h
  | x :: xs, b, s, h, hs => by
    rw [List.foldlM_cons, wlp_bind]
    refine wlp_mono (hs b x s (List.mem_cons_self ..) h) ?_
    intro b' s' h'
    exact wlp_foldlM f R xs b' s' h' (fun b x s hx => hs b x s (List.mem_cons_of_mem _ hx))

theorem forM_cons' (f : α → V PUnit) (x : α) (xs : List α) :
    (x :: xs).forM f = (f x >>= fun _ => xs.forM f) := rfl

theorem wlp_forM (f : α → V PUnit) (R : VState → Prop) :
    ∀ (xs : List α) (s : VState), R s →
      (∀ x s, x ∈ xs → R s → wlp (f x) (fun _ => R) s) → wlp (xs.forM f) (fun _ => R) s
  | [], s, h, _ => (wlp_pure ..).2 h
  | x :: xs, s, h, hs => by
    rw [forM_cons', wlp_bind]
    refine wlp_mono (hs x s (List.mem_cons_self ..) h) ?_
    intro _ s' h'
    exact wlp_forM f R xs s' h' (fun x s hx => hs x s (List.mem_cons_of_mem _ hx))

/-- a loop over `l1 ++ a :: l2` is the loop over `l1`, the step for `a`, the loop over `l2` -/
theorem wlp_forM_split (f : α → V PUnit) (Q : PUnit → VState → Prop) (a : α) (l2 : List α) :
    ∀ (l1 : List α) (s : VState),
      wlp ((l1 ++ a :: l2).forM f) Q s ↔
        wlp (l1.forM f) (fun _ s1 => wlp (f a) (fun _ s2 => wlp (l2.forM f) Q s2) s1) s
  | [], s => by
    rw [List.nil_append, forM_cons', wlp_bind]
    show _ ↔ wlp (pure PUnit.unit) _ s
    rw [wlp_pure]
  | x :: l1, s => by
    rw [List.cons_append, forM_cons', wlp_bind, forM_cons', wlp_bind]
    constructor
    · intro h; exact wlp_mono h (fun _ s1 h1 => (wlp_forM_split f Q a l2 l1 s1).1 h1)
    · intro h; exact wlp_mono h (fun _ s1 h1 => (wlp_forM_split f Q a l2 l1 s1).2 h1)

theorem wlp_newAttr (a : AttrK) (Q : Nat → VState → Prop) (s) :
    wlp (newAttr a) Q s ↔ Q s.attrs.size { s with attrs := s.attrs.push a } := by
  simp only [newAttr, wlp_bind, wlp_get, wlp_set, wlp_pure]

theorem wlp_newPad (p : PadCell) (Q : Nat → VState → Prop) (s) :
    wlp (newPad p) Q s ↔ Q s.pads.size { s with pads := s.pads.push p } := by
  simp only [newPad, wlp_bind, wlp_get, wlp_set, wlp_pure]

theorem wlp_addDiag (line : Nat) (msg : String) (Q : PUnit → VState → Prop) (s) :
    wlp (addDiag line msg) Q s ↔ Q ⟨⟩ { s with diags := s.diags ++ [(line, msg)] } := by
  simp only [addDiag, wlp_modify]

theorem wlp_addMeta (m : MMeta) (Q : PUnit → VState → Prop) (s) :
    wlp (addMeta m) Q s ↔ Q ⟨⟩ (addMetaS m s) := by
  simp only [addMeta, wlp_modify]

theorem wlp_addOption (n v : String) (l : Nat) (Q : PUnit → VState → Prop) (s) :
    wlp (addOption n v l) Q s ↔ Q ⟨⟩ (addOptionS n v l s) := by
  simp only [addOption, wlp_modify]

theorem wlp_addPacket (p : MPacket) (Q : PUnit → VState → Prop) (s) :
    wlp (addPacket p) Q s ↔ Q ⟨⟩ (addPacketS p s) := by
  simp only [addPacket, wlp_modify]

/-- normalise a `wlp` goal -/
macro "wls" : tactic =>
  `(tactic| simp only [wlp_bind, wlp_pure, wlp_get, wlp_set, wlp_modify, wlp_newAttr, wlp_newPad, wlp_addDiag,
      wlp_addMeta, wlp_addOption, wlp_addPacket, wlp_lift, wlp_throw])

/-! ## Frames -/

/-- field level: nothing but attributes, pads, anonymous packets and (appended) diagnostics changes -/
structure Fr (s s' : VState) : Prop where
  diags : ∃ l, s'.diags = s.diags ++ l
  packets : s'.packets = s.packets
  root : s'.root = s.root
  metas : s'.metas = s.metas
  options : s'.options = s.options

theorem Fr.refl (s : VState) : Fr s s := ⟨⟨[], (List.append_nil _).symm⟩, rfl, rfl, rfl, rfl⟩

theorem Fr.trans {s1 s2 s3 : VState} (h1 : Fr s1 s2) (h2 : Fr s2 s3) : Fr s1 s3 := by
  obtain ⟨l1, e1⟩ := h1.diags
  obtain ⟨l2, e2⟩ := h2.diags
  exact ⟨⟨l1 ++ l2, by rw [e2, e1, List.append_assoc]⟩, h2.packets.trans h1.packets, h2.root.trans h1.root,
    h2.metas.trans h1.metas, h2.options.trans h1.options⟩

/-- only attributes / pads / anonymous packets differ -/
theorem Fr.of_eq {s s' : VState} (hd : s'.diags = s.diags) (hp : s'.packets = s.packets) (hr : s'.root = s.root)
    (hm : s'.metas = s.metas) (ho : s'.options = s.options) : Fr s s' :=
  ⟨⟨[], by rw [hd, List.append_nil]⟩, hp, hr, hm, ho⟩

theorem Fr.diag (s : VState) (line : Nat) (msg : String) : Fr s { s with diags := s.diags ++ [(line, msg)] } :=
  ⟨⟨_, rfl⟩, rfl, rfl, rfl, rfl⟩

/-- top level: every list is only appended to; `root`, once set, stays -/
structure Grow (s s' : VState) : Prop where
  diags : ∃ l, s'.diags = s.diags ++ l
  packets : ∃ l, s'.packets = s.packets ++ l
  metas : ∃ l, s'.metas = s.metas ++ l
  options : ∃ l, s'.options = s.options ++ l
  root : s.root.isSome = true → s'.root = s.root

theorem Grow.refl (s : VState) : Grow s s :=
  ⟨⟨[], (List.append_nil _).symm⟩, ⟨[], (List.append_nil _).symm⟩, ⟨[], (List.append_nil _).symm⟩,
    ⟨[], (List.append_nil _).symm⟩, fun _ => rfl⟩

theorem Grow.trans {s1 s2 s3 : VState} (h1 : Grow s1 s2) (h2 : Grow s2 s3) : Grow s1 s3 := by
  obtain ⟨l1, e1⟩ := h1.diags
  obtain ⟨l2, e2⟩ := h2.diags
  obtain ⟨p1, f1⟩ := h1.packets
  obtain ⟨p2, f2⟩ := h2.packets
  obtain ⟨m1, g1⟩ := h1.metas
  obtain ⟨m2, g2⟩ := h2.metas
  obtain ⟨o1, k1⟩ := h1.options
  obtain ⟨o2, k2⟩ := h2.options
  refine ⟨⟨l1 ++ l2, by rw [e2, e1, List.append_assoc]⟩, ⟨p1 ++ p2, by rw [f2, f1, List.append_assoc]⟩,
    ⟨m1 ++ m2, by rw [g2, g1, List.append_assoc]⟩, ⟨o1 ++ o2, by rw [k2, k1, List.append_assoc]⟩, ?_⟩
  intro h
  have := h1.root h
  rw [h2.root (by rw [this]; exact h), this]

theorem Fr.grow {s s' : VState} (h : Fr s s') : Grow s s' :=
  ⟨h.diags, ⟨[], by rw [h.packets, List.append_nil]⟩, ⟨[], by rw [h.metas, List.append_nil]⟩,
    ⟨[], by rw [h.options, List.append_nil]⟩, fun _ => h.root⟩

theorem Grow.mem_diags {s s' : VState} (h : Grow s s') {d : Nat × String} (hd : d ∈ s.diags) : d ∈ s'.diags := by
  obtain ⟨l, e⟩ := h.diags
  rw [e]; exact List.mem_append_left _ hd

theorem Fr.mem_diags {s s' : VState} (h : Fr s s') {d : Nat × String} (hd : d ∈ s.diags) : d ∈ s'.diags :=
  h.grow.mem_diags hd

/-- the step leaves the field-level frame alone, from every state -/
structure Frames (m : V α) : Prop where
  out : ∀ s, wlp m (fun _ s' => Fr s s') s

/-- the step only appends, from every state -/
structure Grows (m : V α) : Prop where
  out : ∀ s, wlp m (fun _ s' => Grow s s') s

theorem Frames.grows {m : V α} (h : Frames m) : Grows m := ⟨fun s => wlp_mono (h.out s) (fun _ _ h => h.grow)⟩

theorem frames_pure (a : α) : Frames (pure a : V α) := ⟨fun s => (wlp_pure ..).2 (Fr.refl s)⟩

theorem frames_bind {m : V α} {f : α → V β} (hm : Frames m) (hf : ∀ a, Frames (f a)) : Frames (m >>= f) := by
  constructor
  intro s
  rw [wlp_bind]
  refine wlp_mono (hm.out s) ?_
  intro a s1 h1
  exact wlp_mono ((hf a).out s1) (fun _ _ h2 => h1.trans h2)

theorem frames_get : Frames (get : V VState) := ⟨fun s => (wlp_get ..).2 (Fr.refl s)⟩

theorem frames_modify {f : VState → VState} (h : ∀ s, Fr s (f s)) : Frames (modify f : V PUnit) :=
  ⟨fun s => (wlp_modify ..).2 (h s)⟩

theorem frames_throw (e : Crash) : Frames (throw e : V α) := ⟨fun _ => (wlp_throw ..).2 trivial⟩

theorem frames_lift (x : Except Crash α) : Frames (liftM x : V α) := ⟨fun s => (wlp_lift ..).2 (fun _ _ => Fr.refl s)⟩

theorem frames_newAttr (a : AttrK) : Frames (newAttr a) := ⟨fun _ => (wlp_newAttr ..).2 (Fr.of_eq rfl rfl rfl rfl rfl)⟩

theorem frames_newPad (p : PadCell) : Frames (newPad p) := ⟨fun _ => (wlp_newPad ..).2 (Fr.of_eq rfl rfl rfl rfl rfl)⟩

theorem frames_addDiag (l : Nat) (m : String) : Frames (addDiag l m) := ⟨fun s => (wlp_addDiag ..).2 (Fr.diag s l m)⟩

theorem frames_setAttrs (g : VState → Array AttrK) : Frames (modify (fun s => { s with attrs := g s }) : V PUnit) :=
  frames_modify (fun _ => Fr.of_eq rfl rfl rfl rfl rfl)

theorem frames_foldlM {f : β → α → V β} (hf : ∀ b x, Frames (f b x)) (xs : List α) (b : β) : Frames (xs.foldlM f b) := by
  constructor
  intro s
  refine wlp_foldlM f (fun _ s' => Fr s s') xs b s (Fr.refl s) ?_
  intro b x s1 _ h1
  exact wlp_mono ((hf b x).out s1) (fun _ _ h2 => h1.trans h2)

theorem frames_forM {f : α → V PUnit} (hf : ∀ x, Frames (f x)) (xs : List α) : Frames (xs.forM f) := by
  constructor
  intro s
  refine wlp_forM f (fun s' => Fr s s') xs s (Fr.refl s) ?_
  intro x s1 _ h1
  exact wlp_mono ((hf x).out s1) (fun _ _ h2 => h1.trans h2)

theorem grows_pure (a : α) : Grows (pure a : V α) := ⟨fun s => (wlp_pure ..).2 (Grow.refl s)⟩

theorem grows_bind {m : V α} {f : α → V β} (hm : Grows m) (hf : ∀ a, Grows (f a)) : Grows (m >>= f) := by
  constructor
  intro s
  rw [wlp_bind]
  refine wlp_mono (hm.out s) ?_
  intro a s1 h1
  exact wlp_mono ((hf a).out s1) (fun _ _ h2 => h1.trans h2)

theorem grows_forM {f : α → V PUnit} (hf : ∀ x, Grows (f x)) (xs : List α) : Grows (xs.forM f) := by
  constructor
  intro s
  refine wlp_forM f (fun s' => Grow s s') xs s (Grow.refl s) ?_
  intro x s1 _ h1
  exact wlp_mono ((hf x).out s1) (fun _ _ h2 => h1.trans h2)

/-- decompose a `Frames` goal along binds, branches and the primitives -/
macro "frames" : tactic =>
  `(tactic| repeat' (first
      | exact frames_pure _ | exact frames_get | exact frames_throw _ | exact frames_lift _
      | exact frames_newAttr _ | exact frames_newPad _ | exact frames_addDiag _ _ | exact frames_setAttrs _
      | apply frames_bind | intro _ | dsimp only | split))

/-! ## Every field-level step frames -/

theorem tyAttr_frames (ty : Ty) (name : String) : Frames (tyAttr ty name) := by
  unfold tyAttr; frames

theorem visitObj_frames (rep : Option Tok) (ft : Tok) (fn : Option Tok) : Frames (visitObj rep ft fn) := by
  unfold visitObj; frames

theorem metaTypeOf_frames (name : String) (hasTy : Bool) (typ0 : String) (line : Nat) (site : String) :
    Frames (metaTypeOf name hasTy typ0 line site) := by
  unfold metaTypeOf; frames

theorem visitLen_frames (d : LenDecl) (line : Nat) : Frames (visitLen d line) := by
  unfold visitLen
  refine frames_bind (metaTypeOf_frames ..) ?_
  frames

theorem visitCks_frames (d : CkDecl) (line : Nat) : Frames (visitCks d line) := by
  unfold visitCks
  refine frames_bind (metaTypeOf_frames ..) ?_
  frames

theorem visitMetaF_frames (rep : Option Tok) (d : MetaDecl) : Frames (visitMetaF rep d) := by
  unfold visitMetaF
  refine frames_bind (tyAttr_frames ..) ?_
  frames

theorem dupKeyStep_frames (seen : List String) (pr : MPair) : Frames (dupKeyStep seen pr) := by
  unfold dupKeyStep; frames

theorem visitMatch_frames (d : MatchDecl) : Frames (visitMatch d) := by
  unfold visitMatch
  refine frames_bind (frames_foldlM dupKeyStep_frames _ _) ?_
  frames

theorem inerMatchStep_frames (subs : List MField) (f : MField) (line : Nat) : Frames (inerMatchStep subs f line) := by
  unfold inerMatchStep; frames

theorem inerLenStep_frames (f : MField) (line : Nat) : Frames (inerLenStep f line) := by
  unfold inerLenStep; frames

theorem inerStep_frames (subs : List MField) (x : MField × FieldDef) : Frames (inerStep subs x) := by
  unfold inerStep
  exact frames_bind (inerMatchStep_frames ..) (fun _ => inerLenStep_frames ..)

theorem inerFinish_frames (rep : Option Tok) (name : Tok) (fields : List FieldDef) (subs : List MField) :
    Frames (inerFinish rep name fields subs) := by
  unfold inerFinish
  refine frames_bind (frames_forM (inerStep_frames subs) _) ?_
  intro _
  constructor
  intro s
  wls
  exact Fr.of_eq rfl rfl rfl rfl rfl

mutual
theorem visitFieldDef_frames : (fd : FieldDef) → Frames (visitFieldDef fd)
  | .obj rep ft fn _ _ => by rw [visitFieldDef]; exact visitObj_frames rep ft fn
  | .iner rep name _ fields _ _ => by
    rw [visitFieldDef]
    exact frames_bind (visitFieldDefs_frames fields) (fun subs => inerFinish_frames rep name fields subs)
  | .len d => by rw [visitFieldDef]; exact visitLen_frames d _
  | .cks d => by rw [visitFieldDef]; exact visitCks_frames d _
  | .metaF rep d => by rw [visitFieldDef]; exact visitMetaF_frames rep d
  | .match_ d _ => by rw [visitFieldDef]; exact visitMatch_frames d
theorem visitFieldDefs_frames : (fds : List FieldDef) → Frames (visitFieldDefs fds)
  | [] => by rw [visitFieldDefs]; exact frames_pure _
  | fd :: fds => by
    rw [visitFieldDefs]
    exact frames_bind (visitFieldDef_frames fd) (fun _ => frames_bind (visitFieldDefs_frames fds) (fun _ => frames_pure _))
end

theorem attrStep_frames (fld : MField) (a : Attr) : Frames (attrStep fld a) := by
  unfold attrStep; frames

theorem visitFieldWA_frames (f : FieldWA) : Frames (visitFieldWA f) := by
  unfold visitFieldWA
  exact frames_bind (visitFieldDef_frames f.fd) (fun fld => frames_foldlM attrStep_frames _ _)

theorem pktStep1_frames (isRoot : Bool) (pname : String) (acc : Acc1) (fwa : FieldWA) :
    Frames (pktStep1 isRoot pname acc fwa) := by
  unfold pktStep1
  refine frames_bind (visitFieldWA_frames fwa) ?_
  frames

theorem pktLenCheck_frames (fields : List MField) (lines : List Nat) (fm : List String) (lenF : LenF) :
    Frames (pktLenCheck fields lines fm lenF) := by
  unfold pktLenCheck; frames

theorem pktStep2Len_frames (lenF : LenF) (fs : List MField) (i : Nat) : Frames (pktStep2Len lenF fs i) := by
  unfold pktStep2Len; frames

theorem pktStep2Res_frames (fm : List String) (lines : List Nat) (fs : List MField) (i : Nat) :
    Frames (pktStep2Res fm lines fs i) := by
  unfold pktStep2Res; frames

theorem pktStep2_frames (lenF : LenF) (fm : List String) (lines : List Nat) (fs : List MField) (i : Nat) :
    Frames (pktStep2 lenF fm lines fs i) := by
  unfold pktStep2
  exact frames_bind (pktStep2Len_frames ..) (fun _ => pktStep2Res_frames ..)

theorem visitPacketDef_frames (p : PacketDef) : Frames (visitPacketDef p) := by
  unfold visitPacketDef
  refine frames_bind (frames_foldlM (pktStep1_frames _ _) _ _) ?_
  intro ⟨fields, lines, lenF, mfs⟩
  refine frames_bind (pktLenCheck_frames ..) ?_
  intro lenF'
  refine frames_bind (frames_foldlM (pktStep2_frames _ _ _) _ _) ?_
  intro _
  exact frames_pure _

theorem matchTargetStep_frames (f : MField) (pr : MPair) : Frames (matchTargetStep f pr) := by
  unfold matchTargetStep; frames

theorem resolveField_frames : (fuel : Nat) → (f : MField) → Frames (resolveField fuel f)
  | fuel, f => by
    rw [resolveField]
    refine frames_bind frames_get ?_
    intro s
    split
    · frames
    · split
      · cases fuel with
        | zero => exact frames_throw _
        | succ n => exact frames_forM (fun f' => resolveField_frames n f') _
      · exact frames_pure _
    · exact frames_forM (matchTargetStep_frames f) _
    · exact frames_pure _

theorem resolveFields_frames (fuel : Nat) (fields : List MField) : Frames (resolveFields fuel fields) :=
  frames_forM (resolveField_frames fuel) _

theorem checkRecursion_frames : Frames checkRecursion := by
  unfold checkRecursion; frames

theorem resolveDeps_frames : Frames resolveDeps := by
  unfold resolveDeps
  refine frames_bind frames_get ?_
  intro s
  exact frames_bind (frames_forM (fun p => resolveFields_frames _ _) _) (fun _ => checkRecursion_frames)

/-! ## The top level: everything only grows -/

theorem addMetaS_grow (m : MMeta) (s : VState) : Grow s (addMetaS m s) := by
  unfold addMetaS
  split
  · exact (Fr.diag s _ _).grow
  · exact ⟨⟨[], (List.append_nil _).symm⟩, ⟨[], (List.append_nil _).symm⟩, ⟨[m], rfl⟩, ⟨[], (List.append_nil _).symm⟩, fun _ => rfl⟩

theorem grow_ite_diag (c : Prop) [Decidable c] (s : VState) (l : Nat) (m : String) :
    Grow s (if c then s.diag l m else s) := by
  split
  · exact (Fr.diag s _ _).grow
  · exact Grow.refl s

theorem grow_addOption_tail (s s1 : VState) (n v m : String) (l : Nat) (h : Grow s s1) :
    Grow s (if (s1.options.lookup n).isSome = true then s1.diag l m else { s1 with options := s1.options ++ [(n, v)] }) := by
  refine h.trans ?_
  split
  · exact (Fr.diag _ _ _).grow
  · exact ⟨⟨[], (List.append_nil _).symm⟩, ⟨[], (List.append_nil _).symm⟩, ⟨[], (List.append_nil _).symm⟩, ⟨[(n, v)], rfl⟩, fun _ => rfl⟩

theorem addOptionS_grow (n v : String) (l : Nat) (s : VState) : Grow s (addOptionS n v l s) := by
  unfold addOptionS
  split
  · exact (Fr.diag s _ _).grow
  · dsimp only
    apply grow_addOption_tail
    exact grow_ite_diag _ s l _

theorem addPacketS_grow (p : MPacket) (s : VState) : Grow s (addPacketS p s) := by
  unfold addPacketS
  split
  · exact (Fr.diag s _ _).grow
  · dsimp only
    split
    · split
      · exact ⟨⟨_, rfl⟩, ⟨[p], rfl⟩, ⟨[], (List.append_nil _).symm⟩, ⟨[], (List.append_nil _).symm⟩, fun _ => rfl⟩
      · next h =>
        refine ⟨⟨[], (List.append_nil _).symm⟩, ⟨[p], rfl⟩, ⟨[], (List.append_nil _).symm⟩, ⟨[], (List.append_nil _).symm⟩, ?_⟩
        intro h'; exact absurd h' h
    · exact ⟨⟨[], (List.append_nil _).symm⟩, ⟨[p], rfl⟩, ⟨[], (List.append_nil _).symm⟩, ⟨[], (List.append_nil _).symm⟩, fun _ => rfl⟩

theorem grows_modify {f : VState → VState} (h : ∀ s, Grow s (f s)) : Grows (modify f : V PUnit) :=
  ⟨fun s => (wlp_modify ..).2 (h s)⟩

theorem metaEntryStep_grows (e : MetaEntry) : Grows (metaEntryStep e) := by
  unfold metaEntryStep
  split
  · exact grows_bind (tyAttr_frames ..).grows (fun _ => grows_modify (addMetaS_grow _))
  · refine grows_bind frames_get.grows ?_
    intro s
    dsimp only
    have key : ∀ (c : Prop) [Decidable c] (m : MMeta), Grows (if c then addMeta m else pure PUnit.unit) := by
      intro c _ m
      split
      · exact grows_modify (addMetaS_grow _)
      · exact grows_pure _
    split
    · exact grows_bind (frames_addDiag _ _).grows (fun _ => key _ _)
    · exact key _ _

theorem metaStep_grows (d : TopDef) : Grows (metaStep d) := by
  unfold metaStep
  split
  · exact grows_forM metaEntryStep_grows _
  · exact grows_pure _

theorem optDeclStep_grows (od : OptDecl) : Grows (optDeclStep od) := grows_modify (addOptionS_grow _ _ _)

theorem optStep_grows (d : TopDef) : Grows (optStep d) := by
  unfold optStep
  split
  · exact grows_forM optDeclStep_grows _
  · exact grows_pure _

theorem packetStep_grows (d : TopDef) : Grows (packetStep d) := by
  unfold packetStep
  split
  · exact grows_bind (visitPacketDef_frames _).grows (fun _ => grows_modify (addPacketS_grow _))
  · exact grows_pure _

/-- `VisitPacket` as a whole only appends: in particular a diagnostic, once issued, is never retracted -/
theorem visitCst_grows (c : Cst) : Grows (visitCst c) := by
  unfold visitCst
  exact grows_bind (grows_forM metaStep_grows _) (fun _ => grows_bind (grows_forM optStep_grows _) (fun _ =>
    grows_bind (grows_forM packetStep_grows _) (fun _ => resolveDeps_frames.grows)))

/-! ## Whole runs -/

theorem run_eq {c : Cst} {s : VState} (h : run c = .ok s) : visitCst c {} = .ok (⟨⟩, s) := by
  unfold run at h
  change Except.map (·.2) (visitCst c {}) = .ok s at h
  cases hv : visitCst c {} with
  | error e => rw [hv] at h; cases h
  | ok r => rw [hv] at h; obtain ⟨u, s'⟩ := r; cases h; rfl

/-- whatever is proved of every returning run of `visitCst c` from the empty state holds of `Visit.run c` -/
theorem run_of_wlp {c : Cst} {s : VState} {Q : VState → Prop} (hw : wlp (visitCst c) (fun _ => Q) {})
    (h : run c = .ok s) : Q s := hw ⟨⟩ s (run_eq h)

theorem wlp_visitCst (c : Cst) (Q : PUnit → VState → Prop) (s : VState) :
    wlp (visitCst c) Q s ↔
      wlp (c.defs.forM metaStep) (fun _ s1 => wlp (c.defs.forM optStep) (fun _ s2 =>
        wlp (c.defs.forM packetStep) (fun _ s3 => wlp resolveDeps Q s3) s2) s1) s := by
  unfold visitCst
  simp only [wlp_bind]

/-- the state the packets are visited in: no packet, no root yet -/
def NoPk (s : VState) : Prop := s.packets = [] ∧ s.root = none

theorem addMetaS_noPk {m : MMeta} {s : VState} (h : NoPk s) : NoPk (addMetaS m s) := by
  unfold addMetaS; split <;> exact h

theorem addOptionS_noPk {n v : String} {l : Nat} {s : VState} (h : NoPk s) : NoPk (addOptionS n v l s) := by
  unfold addOptionS; split
  · exact h
  · dsimp only; split <;> split <;> exact h

theorem Fr.noPk {s s' : VState} (h : Fr s s') (hn : NoPk s) : NoPk s' := ⟨h.packets.trans hn.1, h.root.trans hn.2⟩

theorem metaEntryStep_noPk (e : MetaEntry) (s : VState) (h : NoPk s) : wlp (metaEntryStep e) (fun _ => NoPk) s := by
  unfold metaEntryStep
  split
  · rw [wlp_bind]
    refine wlp_mono ((tyAttr_frames ..).out s) ?_
    intro a s1 h1
    wls
    exact addMetaS_noPk (h1.noPk h)
  · wls
    have key : ∀ (c : Prop) [Decidable c] (m : MMeta) (s1 : VState), NoPk s1 →
        wlp (if c then addMeta m else pure PUnit.unit) (fun _ => NoPk) s1 := by
      intro c _ m s1 h1
      split
      · wls; exact addMetaS_noPk h1
      · wls; exact h1
    split
    · wls; exact key _ _ _ h
    · exact key _ _ _ h

theorem metaStep_noPk (d : TopDef) (s : VState) (h : NoPk s) : wlp (metaStep d) (fun _ => NoPk) s := by
  unfold metaStep
  split
  · exact wlp_forM _ NoPk _ s h (fun e s1 _ h1 => metaEntryStep_noPk e s1 h1)
  · wls; exact h

theorem optStep_noPk (d : TopDef) (s : VState) (h : NoPk s) : wlp (optStep d) (fun _ => NoPk) s := by
  unfold optStep
  split
  · refine wlp_forM _ NoPk _ s h ?_
    intro od s1 _ h1
    unfold optDeclStep
    wls
    exact addOptionS_noPk h1
  · wls; exact h

/-- a diagnostic of the MetaData phase is in the final list -/
theorem diag_of_phase1 {c : Cst} {s : VState} {d : Nat × String}
    (hw : wlp (c.defs.forM metaStep) (fun _ s' => d ∈ s'.diags) {}) (h : run c = .ok s) : d ∈ s.diags := by
  refine run_of_wlp (Q := fun s => d ∈ s.diags) ((wlp_visitCst ..).2 ?_) h
  refine wlp_mono hw ?_
  intro _ s1 h1
  refine wlp_mono ((grows_forM optStep_grows c.defs).out s1) ?_
  intro _ s2 h2
  refine wlp_mono ((grows_forM packetStep_grows c.defs).out s2) ?_
  intro _ s3 h3
  refine wlp_mono (resolveDeps_frames.out s3) ?_
  intro _ s4 h4
  exact h4.mem_diags (h3.mem_diags (h2.mem_diags h1))

/-- a diagnostic of the option phase (from whatever state the MetaData phase left) is in the final list -/
theorem diag_of_phase2 {c : Cst} {s : VState} {d : Nat × String}
    (hw : ∀ s1, wlp (c.defs.forM optStep) (fun _ s' => d ∈ s'.diags) s1) (h : run c = .ok s) : d ∈ s.diags := by
  refine run_of_wlp (Q := fun s => d ∈ s.diags) ((wlp_visitCst ..).2 ?_) h
  intro _ s1 _
  refine wlp_mono (hw s1) ?_
  intro _ s2 h2
  refine wlp_mono ((grows_forM packetStep_grows c.defs).out s2) ?_
  intro _ s3 h3
  refine wlp_mono (resolveDeps_frames.out s3) ?_
  intro _ s4 h4
  exact h4.mem_diags (h3.mem_diags h2)

/-- a diagnostic of the packet phase (started without packets and root, the store invariants hold) is in the final list -/
theorem diag_of_phase3 {c : Cst} {s : VState} {d : Nat × String}
    (hw : ∀ s2, NoPk s2 → Inv s2 → wlp (c.defs.forM packetStep) (fun _ s' => d ∈ s'.diags) s2) (h : run c = .ok s) :
    d ∈ s.diags := by
  refine run_of_wlp (Q := fun s => d ∈ s.diags) ((wlp_visitCst ..).2 ?_) h
  have h1 : wlp (c.defs.forM metaStep) (fun _ s' => NoPk s' ∧ Inv s') {} :=
    wlp_and (wlp_forM _ NoPk _ _ ⟨rfl, rfl⟩ (fun d s _ hs => metaStep_noPk d s hs))
      (wp_to_wlp (forM_inv metaStep metaStep_spec c.defs {} Inv.empty))
  refine wlp_mono h1 ?_
  intro _ s1 ⟨hn1, hi1⟩
  have h2 : wlp (c.defs.forM optStep) (fun _ s' => NoPk s' ∧ Inv s') s1 :=
    wlp_and (wlp_forM _ NoPk _ _ hn1 (fun d s _ hs => optStep_noPk d s hs))
      (wp_to_wlp (forM_inv optStep optStep_spec c.defs s1 hi1))
  refine wlp_mono h2 ?_
  intro _ s2 ⟨hn2, hi2⟩
  refine wlp_mono (hw s2 hn2 hi2) ?_
  intro _ s3 h3
  refine wlp_mono (resolveDeps_frames.out s3) ?_
  intro _ s4 h4
  exact h4.mem_diags h3

/-! ## Offences in a loop -/

/-- one offending element: its diagnostic survives the rest of the loop -/
theorem forM_offence1 {f : α → V PUnit} (hg : ∀ x, Grows (f x)) (x : α) (l1 l2 : List α) (d : Nat × String)
    (R : VState → Prop) (s : VState) (h1 : wlp (l1.forM f) (fun _ => R) s)
    (hx : ∀ s, R s → wlp (f x) (fun _ s' => d ∈ s'.diags) s) :
    wlp ((l1 ++ x :: l2).forM f) (fun _ s' => d ∈ s'.diags) s := by
  rw [wlp_forM_split]
  refine wlp_mono h1 ?_
  intro _ s1 hr
  refine wlp_mono (hx s1 hr) ?_
  intro _ s2 hd
  exact wlp_mono ((grows_forM hg l2).out s2) (fun _ _ hgw => hgw.mem_diags hd)

/-- an element `a` establishes `P` (kept by every later step), a later element `b` is diagnosed when `P` holds -/
theorem forM_offence2 {f : α → V PUnit} (hg : ∀ x, Grows (f x)) (P : VState → Prop)
    (hP : ∀ s s', Grow s s' → P s → P s') (a b : α) (l1 l2 l3 : List α) (d : Nat × String)
    (R1 R2 : VState → Prop) (s : VState)
    (h1 : wlp (l1.forM f) (fun _ => R1) s) (ha : ∀ s, R1 s → wlp (f a) (fun _ => P) s)
    (h2 : wlp ((l1 ++ a :: l2).forM f) (fun _ => R2) s)
    (hb : ∀ s, P s → R2 s → wlp (f b) (fun _ s' => d ∈ s'.diags) s) :
    wlp ((l1 ++ a :: (l2 ++ b :: l3)).forM f) (fun _ s' => d ∈ s'.diags) s := by
  have e : l1 ++ a :: (l2 ++ b :: l3) = (l1 ++ a :: l2) ++ b :: l3 := by simp
  rw [e]
  have hp : wlp ((l1 ++ a :: l2).forM f) (fun _ => P) s := by
    rw [wlp_forM_split]
    refine wlp_mono h1 ?_
    intro _ s1 hr
    refine wlp_mono (ha s1 hr) ?_
    intro _ s2 hp2
    exact wlp_mono ((grows_forM hg l2).out s2) (fun _ s3 hgw => hP s2 s3 hgw hp2)
  refine forM_offence1 hg b (l1 ++ a :: l2) l3 d (fun s => P s ∧ R2 s) s (wlp_and hp h2) ?_
  intro s1 ⟨hp1, hr1⟩
  exact hb s1 hp1 hr1

theorem wlp_true (m : V α) (s : VState) : wlp m (fun _ _ => True) s := fun _ _ _ => trivial

/-! ## MetaData entries and options as flat lists -/

def entriesOf : TopDef → List MetaEntry
  | .metaD m => m.entries
  | _ => []

def declsOf : TopDef → List OptDecl
  | .opt o => o.decls
  | _ => []

theorem metaStep_eq (d : TopDef) : metaStep d = (entriesOf d).forM metaEntryStep := by
  cases d <;> rfl

theorem optStep_eq (d : TopDef) : optStep d = (declsOf d).forM optDeclStep := by
  cases d <;> rfl

theorem forM_flatMap (g : β → List α) (f : α → V PUnit) :
    ∀ l : List β, l.forM (fun x => (g x).forM f) = (l.flatMap g).forM f
  | [] => rfl
  | x :: l => by
    have e : (g x ++ l.flatMap g).forM f = (do (g x).forM f; (l.flatMap g).forM f) := List.forM_append
    rw [List.flatMap_cons, e, forM_cons', forM_flatMap g f l]

theorem metaLoop_eq (defs : List TopDef) : defs.forM metaStep = (defs.flatMap entriesOf).forM metaEntryStep := by
  rw [← forM_flatMap]
  congr 1
  funext d
  exact metaStep_eq d

theorem optLoop_eq (defs : List TopDef) : defs.forM optStep = (defs.flatMap declsOf).forM optDeclStep := by
  rw [← forM_flatMap]
  congr 1
  funext d
  exact optStep_eq d

/-- the value text `AddOption` is called with -/
def optValueOf (od : OptDecl) : String :=
  match od.value with
  | .tok t => if t.kind = .string then trimQuotes t.text else t.text
  | .ty t => t.text

theorem optDeclStep_eq (od : OptDecl) : optDeclStep od = addOption od.name.text (optValueOf od) od.name.line := rfl

/-! ## The offences of the top level -/

theorem mem_diag_self (s : VState) (l : Nat) (m : String) : (l, m) ∈ (s.diag l m).diags :=
  List.mem_append_right _ (List.mem_singleton.2 rfl)

theorem find?_append_isSome {p : α → Bool} {l l' : List α} (h : (l.find? p).isSome = true) :
    ((l ++ l').find? p).isSome = true := by
  rw [List.find?_append]
  cases hl : l.find? p with
  | none => rw [hl] at h; cases h
  | some x => rfl

theorem findMeta_grow {s s' : VState} (h : Grow s s') {n : String} (hf : (findMeta s n).isSome = true) :
    (findMeta s' n).isSome = true := by
  obtain ⟨l, e⟩ := h.metas
  unfold findMeta at *
  rw [e]; exact find?_append_isSome hf

theorem findMeta_addMetaS (m : MMeta) (s : VState) : (findMeta (addMetaS m s) m.name).isSome = true := by
  unfold addMetaS
  split
  · next h => exact h
  · unfold findMeta
    show ((s.metas ++ [m]).find? _).isSome = true
    rw [List.find?_append]
    cases s.metas.find? (fun x => decide (x.name = m.name)) with
    | some x => rfl
    | none => simp

/-- a MetaData declaration registers its name (or the name was there already) -/
theorem metaDecl_registers (d : MetaDecl) (s : VState) :
    wlp (metaEntryStep (.decl d)) (fun _ s' => (findMeta s' d.name.text).isSome = true) s := by
  unfold metaEntryStep
  dsimp only
  rw [wlp_bind]
  refine wlp_mono (wlp_true _ s) ?_
  intro a s1 _
  wls
  exact findMeta_addMetaS { name := d.name.text, attr := some a, desc := docOf d.doc, line := d.ty.start.line } s1

/-- a MetaData declaration whose name is taken is diagnosed at the line of its type -/
theorem metaDecl_dup (d : MetaDecl) (s : VState) (h : (findMeta s d.name.text).isSome = true) :
    wlp (metaEntryStep (.decl d))
      (fun _ s' => (d.ty.start.line, "Duplicate metadata definition for " ++ d.name.text) ∈ s'.diags) s := by
  unfold metaEntryStep
  dsimp only
  rw [wlp_bind]
  refine wlp_mono ((tyAttr_frames d.ty d.name.text).out s) ?_
  intro a s1 h1
  wls
  have h2 : (findMeta s1 d.name.text).isSome = true := findMeta_grow h1.grow h
  unfold addMetaS
  simp only [h2, if_true]
  exact mem_diag_self _ _ _

theorem optDecl_unknown (od : OptDecl) (s : VState) (h : optionValues od.name.text = none) :
    wlp (optDeclStep od) (fun _ s' =>
      (od.name.line, "Option " ++ od.name.text ++ " is not allowed in this context, Expected one of:" ++
        ",".intercalate optionNames) ∈ s'.diags) s := by
  rw [optDeclStep_eq]
  wls
  unfold addOptionS
  simp only [h]
  exact mem_diag_self _ _ _

theorem optDecl_badValue (od : OptDecl) (vals : List String) (s : VState) (h : optionValues od.name.text = some vals)
    (hne : vals.isEmpty = false) (hbad : vals.contains (optValueOf od) = false) :
    wlp (optDeclStep od) (fun _ s' =>
      (od.name.line, "Option " ++ od.name.text ++ " is not allowed to be " ++ optValueOf od ++ ", Expected one of:" ++
        ",".intercalate vals) ∈ s'.diags) s := by
  rw [optDeclStep_eq]
  wls
  simp only [addOptionS, h, hne, hbad, VState.diag, Bool.not_false, Bool.and_self, ↓reduceIte]
  split <;> simp

theorem lookup_grow {s s' : VState} (h : Grow s s') {n : String} (hf : (s.options.lookup n).isSome = true) :
    (s'.options.lookup n).isSome = true := by
  obtain ⟨l, e⟩ := h.options
  rw [e, List.lookup_append]
  cases hl : s.options.lookup n with
  | none => rw [hl] at hf; cases hf
  | some x => rfl

theorem optDecl_registers (od : OptDecl) (vals : List String) (s : VState) (h : optionValues od.name.text = some vals) :
    wlp (optDeclStep od) (fun _ s' => (s'.options.lookup od.name.text).isSome = true) s := by
  rw [optDeclStep_eq]
  wls
  unfold addOptionS
  simp only [h]
  have : ∀ (s1 : VState) (m : String),
      ((if (s1.options.lookup od.name.text).isSome = true then s1.diag od.name.line m
        else { s1 with options := s1.options ++ [(od.name.text, optValueOf od)] }).options.lookup od.name.text).isSome = true := by
    intro s1 m
    split
    · next hh => exact hh
    · next hh =>
      show ((s1.options ++ [(od.name.text, optValueOf od)]).lookup od.name.text).isSome = true
      rw [List.lookup_append]
      simp
  apply this

theorem optDecl_dup (od : OptDecl) (vals : List String) (s : VState) (h : optionValues od.name.text = some vals)
    (hd : (s.options.lookup od.name.text).isSome = true) :
    wlp (optDeclStep od) (fun _ s' =>
      (od.name.line, "Option " ++ od.name.text ++ " is already defined") ∈ s'.diags) s := by
  rw [optDeclStep_eq]
  wls
  unfold addOptionS
  simp only [h]
  have : ∀ s1 : VState, s1.options = s.options →
      (od.name.line, "Option " ++ od.name.text ++ " is already defined") ∈
        (if (s1.options.lookup od.name.text).isSome = true then s1.diag od.name.line ("Option " ++ od.name.text ++ " is already defined")
         else { s1 with options := s1.options ++ [(od.name.text, optValueOf od)] }).diags := by
    intro s1 e
    rw [e, if_pos hd]
    exact mem_diag_self _ _ _
  apply this
  split <;> rfl

/-! ### Packets -/

theorem visitPacketDef_res (p : PacketDef) (s : VState) :
    wlp (visitPacketDef p) (fun mp _ => mp.name = p.name.text ∧ mp.line = p.start.line ∧ mp.root = p.root.isSome) s := by
  unfold visitPacketDef
  rw [wlp_bind]
  intro acc s1 _
  obtain ⟨fields, lines, lenF, mfs⟩ := acc
  dsimp only
  rw [wlp_bind]
  intro lenF' s2 _
  rw [wlp_bind]
  intro fs s3 _
  rw [wlp_pure]
  exact ⟨rfl, rfl, rfl⟩

/-- what `packetStep` does, seen from outside: visit (frame), then `AddPacket` of a packet with this name / line / root flag -/
theorem packetStep_packet (p : PacketDef) (s : VState) (Q : PUnit → VState → Prop)
    (h : ∀ mp s1, Fr s s1 → mp.name = p.name.text → mp.line = p.start.line → mp.root = p.root.isSome → Q ⟨⟩ (addPacketS mp s1)) :
    wlp (packetStep (.packet p)) Q s := by
  unfold packetStep
  dsimp only
  rw [wlp_bind]
  refine wlp_mono (wlp_and ((visitPacketDef_frames p).out s) (visitPacketDef_res p s)) ?_
  intro mp s1 ⟨h1, h2, h3, h4⟩
  wls
  exact h mp s1 h1 h2 h3 h4

def hasPk (s : VState) (n : String) : Prop := s.packets.any (·.name = n) = true

theorem hasPk_grow {s s' : VState} (h : Grow s s') {n : String} (hf : hasPk s n) : hasPk s' n := by
  obtain ⟨l, e⟩ := h.packets
  unfold hasPk at *
  rw [e, List.any_append, hf]; rfl

theorem packetStep_registers (p : PacketDef) (s : VState) :
    wlp (packetStep (.packet p)) (fun _ s' => hasPk s' p.name.text) s := by
  apply packetStep_packet
  intro mp s1 _ hn _ _
  unfold addPacketS hasPk
  rw [hn]
  split
  · next h => exact h
  · have : ((s1.packets ++ [mp]).any (·.name = p.name.text)) = true := by
      rw [List.any_append]; simp [hn]
    dsimp only
    split
    · split <;> exact this
    · exact this

theorem packetStep_dup (p : PacketDef) (s : VState) (h : hasPk s p.name.text) :
    wlp (packetStep (.packet p))
      (fun _ s' => (p.start.line, "Duplicate packet definition for " ++ p.name.text) ∈ s'.diags) s := by
  apply packetStep_packet
  intro mp s1 h1 hn hl _
  have h2 : hasPk s1 p.name.text := hasPk_grow h1.grow h
  unfold hasPk at h2
  unfold addPacketS
  rw [hn, hl, if_pos h2]
  exact mem_diag_self _ _ _

/-- the packets registered so far all come from the packet definitions of `l` -/
def PkFrom (l : List TopDef) (s : VState) : Prop :=
  ∀ mp, mp ∈ s.packets → ∃ r, TopDef.packet r ∈ l ∧ mp.name = r.name.text

theorem addPacketS_packets (mp : MPacket) (s : VState) :
    (addPacketS mp s).packets = s.packets ∨ (addPacketS mp s).packets = s.packets ++ [mp] := by
  unfold addPacketS
  split
  · exact .inl rfl
  · dsimp only
    split
    · split <;> exact .inr rfl
    · exact .inr rfl

theorem packetLoop_pkFrom (l : List TopDef) (s : VState) (h : s.packets = []) :
    wlp (l.forM packetStep) (fun _ => PkFrom l) s := by
  refine wlp_forM packetStep (PkFrom l) l s (by intro mp hm; rw [h] at hm; cases hm) ?_
  intro d s1 hd h1
  cases d with
  | packet p =>
    apply packetStep_packet
    intro mp s2 hf hn _ _
    intro mp' hm'
    have h2 : PkFrom l s2 := by intro x hx; rw [hf.packets] at hx; exact h1 x hx
    rcases addPacketS_packets mp s2 with e | e
    · rw [e] at hm'; exact h2 mp' hm'
    · rw [e] at hm'
      rcases List.mem_append.1 hm' with hh | hh
      · exact h2 mp' hh
      · cases List.mem_singleton.1 hh; exact ⟨p, hd, hn⟩
  | metaD m => unfold packetStep; wls; exact h1
  | opt o => unfold packetStep; wls; exact h1

/-- a root packet whose name is new sets (or finds) the root -/
theorem packetStep_root (p : PacketDef) (s : VState) (hr : p.root.isSome = true) (hnew : ¬ hasPk s p.name.text) :
    wlp (packetStep (.packet p)) (fun _ s' => s'.root.isSome = true) s := by
  apply packetStep_packet
  intro mp s1 h1 hn _ hroot
  have h2 : (s1.packets.any (·.name = mp.name)) = false := by
    rw [hn, h1.packets]
    unfold hasPk at hnew
    simpa using hnew
  unfold addPacketS
  rw [h2, hroot, hr]
  simp only [Bool.false_eq_true, if_false, if_true]
  split
  · next h => exact h
  · rfl

theorem packetStep_secondRoot (p : PacketDef) (s : VState) (hr : p.root.isSome = true)
    (hnew : ¬ hasPk s p.name.text) (hroot : s.root.isSome = true) :
    wlp (packetStep (.packet p)) (fun _ s' => (p.start.line, "Multiple root packets are not allowed") ∈ s'.diags) s := by
  apply packetStep_packet
  intro mp s1 h1 hn hl hmr
  have h2 : (s1.packets.any (·.name = mp.name)) = false := by
    rw [hn, h1.packets]
    unfold hasPk at hnew
    simpa using hnew
  have h3 : s1.root.isSome = true := by rw [h1.root]; exact hroot
  unfold addPacketS
  rw [h2, hmr, hr, hl]
  simp only [Bool.false_eq_true, if_false, if_true, h3]
  exact mem_diag_self _ _ _

theorem not_hasPk_of_pkFrom {l : List TopDef} {s : VState} {n : String} (h : PkFrom l s)
    (hn : ∀ r, TopDef.packet r ∈ l → r.name.text ≠ n) : ¬ hasPk s n := by
  intro hh
  unfold hasPk at hh
  obtain ⟨mp, hm, he⟩ := List.any_eq_true.1 hh
  obtain ⟨r, hr, e⟩ := h mp hm
  have : mp.name = n := by simpa using he
  exact hn r hr (by rw [← e, this])

/-! ## Readable views of a concrete syntax tree -/

/-- `x` stands before `y` in `l` (at two different positions) -/
def Before (l : List α) (x y : α) : Prop := ∃ l1 l2 l3, l = l1 ++ x :: (l2 ++ y :: l3)

/-- all MetaData entries of the file, in order (over all `MetaData` blocks) -/
def metaEntries (c : Cst) : List MetaEntry := c.defs.flatMap entriesOf

/-- all option declarations of the file, in order (over all `options` blocks) -/
def optDecls (c : Cst) : List OptDecl := c.defs.flatMap declsOf

/-- the names of the packet definitions among `l`, in order -/
def packetNames (l : List TopDef) : List String :=
  l.filterMap fun d => match d with | .packet r => some r.name.text | _ => none

theorem mem_packetNames {l : List TopDef} {r : PacketDef} (h : TopDef.packet r ∈ l) : r.name.text ∈ packetNames l :=
  List.mem_filterMap.2 ⟨_, h, rfl⟩

theorem optionValues_none {n : String} (h : n ∉ optionNames) : optionValues n = none := by
  unfold optionValues
  split <;> first | rfl | (exfalso; apply h; simp [optionNames])

/-! ## Fields: the name and the "is a length field" flag are syntactic -/

/-- the name the model field gets -/
def fieldName : FieldDef → String
  | .obj _ ft fn _ _ => match fn with | some n => n.text | none => ft.text
  | .iner _ name _ _ _ _ => name.text
  | .len d => d.name.text
  | .cks d => d.name.text
  | .metaF _ d => d.name.text
  | .match_ d _ => d.name.text

/-- a length field declaration (`[type] name @lengthOf(target)`) -/
def fdIsLen : FieldDef → Bool
  | .len _ => true
  | _ => false

/-- what a prefix attribute does to the "is a length field" flag -/
def attrLen (a : Attr) (b : Bool) : Bool :=
  match a with
  | .calc _ => false
  | .len _ => true
  | _ => b

/-- the field ends up with a `LengthFieldAttribute`: a length field declaration, or a prefix `@lengthOf(..)` attribute,
not followed by a prefix `@calculatedFrom(..)` -/
def isLenSyn (f : FieldWA) : Bool := f.attrs.foldl (fun b a => attrLen a b) (fdIsLen f.fd)

def isLenA : AttrK → Bool
  | .length _ _ => true
  | _ => false

theorem isLenK_eq (k : AttrK) : isLenK (some k) = isLenA k := by cases k <;> rfl

/-- the field's attribute pointer is valid and the attribute is / is not a length attribute -/
def HasLen (f : MField) (s : VState) (b : Bool) : Prop :=
  ∃ (a : Nat) (k : AttrK), f.attr = some a ∧ s.attrs[a]? = some k ∧ isLenA k = b

theorem HasLen.bind_eq {f : MField} {s : VState} {b : Bool} (h : HasLen f s b) :
    ∃ k, f.attr.bind (s.attrs[·]?) = some k ∧ isLenA k = b := by
  obtain ⟨a, k, h1, h2, h3⟩ := h
  exact ⟨k, by rw [h1]; exact h2, h3⟩

theorem HasLen.isLenK {f : MField} {s : VState} {b : Bool} (h : HasLen f s b) :
    isLenK (f.attr.bind (s.attrs[·]?)) = b := by
  obtain ⟨k, h1, h2⟩ := h.bind_eq
  rw [h1, isLenK_eq, h2]

theorem hasLen_fresh (s : VState) (k : AttrK) (f : MField) (hf : f.attr = some s.attrs.size) (b : Bool)
    (hb : isLenA k = b) : HasLen f { s with attrs := s.attrs.push k } b :=
  ⟨s.attrs.size, k, hf, getElem?_push_size _ _, hb⟩

theorem plain_notLen {k : AttrK} (h : plain k) : isLenA k = false := by
  cases k <;> first | rfl | cases h

theorem visitFieldDef_len (fd : FieldDef) (s : VState) (h : Inv s) :
    wlp (visitFieldDef fd) (fun f s' => f.name = fieldName fd ∧ HasLen f s' (fdIsLen fd)) s := by
  cases fd with
  | obj rep ft fn doc comma =>
    rw [visitFieldDef]
    unfold visitObj
    wls
    split
    · next m hm =>
      wls
      obtain ⟨a, k, h1, h2, h3⟩ := h.metaOK m (mem_of_findMeta hm)
      exact ⟨rfl, a, k, h1, h2, plain_notLen h3⟩
    · wls
      exact ⟨rfl, hasLen_fresh _ _ _ rfl _ rfl⟩
  | iner rep name lb fields rb comma =>
    rw [visitFieldDef, wlp_bind]
    intro subs s1 _
    unfold inerFinish
    rw [wlp_bind]
    intro _ s2 _
    wls
    exact ⟨rfl, hasLen_fresh _ _ _ rfl _ rfl⟩
  | len d =>
    rw [visitFieldDef]
    unfold visitLen
    rw [wlp_bind]
    intro typ s1 _
    wls
    exact ⟨rfl, hasLen_fresh _ _ _ rfl _ rfl⟩
  | cks d =>
    rw [visitFieldDef]
    unfold visitCks
    rw [wlp_bind]
    intro typ s1 _
    wls
    exact ⟨rfl, hasLen_fresh _ _ _ rfl _ rfl⟩
  | metaF rep d =>
    rw [visitFieldDef]
    unfold visitMetaF
    rw [wlp_bind]
    refine wlp_mono (wp_to_wlp (tyAttr_spec d.ty d.name.text s h)) ?_
    intro a s1 ⟨_, _, k, h2, h3⟩
    wls
    exact ⟨rfl, a, k, rfl, h2, plain_notLen h3⟩
  | match_ d comma =>
    rw [visitFieldDef]
    unfold visitMatch
    rw [wlp_bind]
    intro _ s1 _
    wls
    exact ⟨rfl, hasLen_fresh _ _ _ rfl _ rfl⟩

theorem attrStep_len (fld : MField) (a : Attr) (s : VState) (b : Bool) (h : HasLen fld s b) :
    wlp (attrStep fld a) (fun f' s' => f'.name = fld.name ∧ HasLen f' s' (attrLen a b)) s := by
  unfold attrStep
  split
  · wls
    intro t _
    exact ⟨by first | rfl | trivial, hasLen_fresh _ _ _ rfl _ rfl⟩
  · wls
    intro t _
    exact ⟨by first | rfl | trivial, hasLen_fresh _ _ _ rfl _ rfl⟩
  · wls
    split
    · next n pd heq =>
      wls
      obtain ⟨k, h1, h2⟩ := h.bind_eq
      rw [heq] at h1; cases h1
      exact ⟨by first | rfl | trivial, hasLen_fresh _ _ _ rfl _ h2⟩
    · wls
      exact ⟨by first | rfl | trivial, h⟩
  · wls
    exact ⟨by first | rfl | trivial, h⟩

theorem attrs_len : ∀ (attrs : List Attr) (fld : MField) (s : VState) (b : Bool), HasLen fld s b →
    wlp (attrs.foldlM attrStep fld)
      (fun f' s' => f'.name = fld.name ∧ HasLen f' s' (attrs.foldl (fun b a => attrLen a b) b)) s
  | [], fld, s, b, h => by rw [List.foldlM_nil, wlp_pure]; exact ⟨by first | rfl | trivial, h⟩
  | a :: attrs, fld, s, b, h => by
    rw [List.foldlM_cons, wlp_bind]
    refine wlp_mono (attrStep_len fld a s b h) ?_
    intro f1 s1 ⟨hn, h1⟩
    refine wlp_mono (attrs_len attrs f1 s1 _ h1) ?_
    intro f2 s2 ⟨hn2, h2⟩
    exact ⟨hn2.trans hn, h2⟩

theorem visitFieldWA_len (f : FieldWA) (s : VState) (h : Inv s) :
    wlp (visitFieldWA f) (fun fld s' => fld.name = fieldName f.fd ∧ HasLen fld s' (isLenSyn f)) s := by
  unfold visitFieldWA
  rw [wlp_bind]
  refine wlp_mono (visitFieldDef_len f.fd s h) ?_
  intro f1 s1 ⟨hn, h1⟩
  refine wlp_mono (attrs_len f.attrs f1 s1 _ h1) ?_
  intro f2 s2 ⟨hn2, h2⟩
  exact ⟨hn2.trans hn, h2⟩

/-! ## The first loop of `VisitPacketDefinition` -/

/-- the rest of `pktStep1` after the field was visited -/
def pktStep1Tail (isRoot : Bool) (pname : String) (acc : Acc1) (fwa : FieldWA) (fld : MField) : V Acc1 := do
  let (fields, lines, lenF, mfs) := acc
  let s ← get
  let isLen := isLenK (fld.attr.bind (s.attrs[·]?))
  if isLen && !isRoot then
    addDiag fwa.start.line "LengthOfField can only be declared in the root packet"
    pure acc
  else if isLen && lenF.isSome then
    addDiag fwa.start.line "Duplicate LengthOfField declaration"
    pure acc
  else
    let dup := fields.any (·.name = fld.name)
    let lenF := if isLen then some (fld, if dup then none else some fields.length) else lenF
    if dup then
      addDiag fwa.start.line ("Duplicate field definition for " ++ fld.name ++ " in packet " ++ pname)
      pure (fields, lines, lenF, mfs)
    else
      pure (fields ++ [fld], lines ++ [fwa.start.line], lenF, addMatchField mfs (fld.attr.bind (s.attrs[·]?)))

theorem pktStep1_eq (isRoot : Bool) (pname : String) (acc : Acc1) (fwa : FieldWA) :
    pktStep1 isRoot pname acc fwa = visitFieldWA fwa >>= pktStep1Tail isRoot pname acc fwa := by
  obtain ⟨fields, lines, lenF, mfs⟩ := acc
  rfl

/-- `pktStep1` from outside: the field is visited (invariants, frame, its name and length flag are the syntactic
ones), then the tail runs -/
theorem pktStep1_wlp (isRoot : Bool) (pname : String) (acc : Acc1) (fwa : FieldWA) (s : VState) (h : Inv s)
    (Q : Acc1 → VState → Prop)
    (hQ : ∀ fld s1, Inv s1 → Fr s s1 → fld.name = fieldName fwa.fd → HasLen fld s1 (isLenSyn fwa) →
      wlp (pktStep1Tail isRoot pname acc fwa fld) Q s1) :
    wlp (pktStep1 isRoot pname acc fwa) Q s := by
  rw [pktStep1_eq, wlp_bind]
  refine wlp_mono (wlp_and (wlp_and (wp_to_wlp (visitFieldWA_spec fwa s h)) ((visitFieldWA_frames fwa).out s))
    (visitFieldWA_len fwa s h)) ?_
  intro fld s1 ⟨⟨⟨h1, _, _⟩, h2⟩, h3, h4⟩
  exact hQ fld s1 h1 h2 h3 h4

theorem pktStep1_inv (isRoot : Bool) (pname : String) (acc : Acc1) (fwa : FieldWA) (s : VState) (h : Inv s) :
    wlp (pktStep1 isRoot pname acc fwa) (fun _ s' => Inv s' ∧ Fr s s') s := by
  have h1 : wlp (pktStep1 isRoot pname acc fwa) (fun _ s' => Inv s') s := by
    obtain ⟨fields, lines, lenF, mfs⟩ := acc
    -- the invariants of `VisitSafe` need the `L1` side condition only to be carried, not to hold
    rw [pktStep1_eq, wlp_bind]
    refine wlp_mono (wp_to_wlp (visitFieldWA_spec fwa s h)) ?_
    intro fld s1 ⟨hi, _, _⟩
    unfold pktStep1Tail
    wls
    split
    · wls; exact hi.of_eq rfl rfl rfl
    · split
      · wls; exact hi.of_eq rfl rfl rfl
      · try dsimp only
        split
        · wls; exact hi.of_eq rfl rfl rfl
        · wls; exact hi
  exact wlp_and h1 ((pktStep1_frames ..).out s)

/-- the fields collected so far only grow -/
theorem pktStep1Tail_fields (isRoot : Bool) (pname : String) (acc : Acc1) (fwa : FieldWA) (fld : MField) (s : VState) :
    wlp (pktStep1Tail isRoot pname acc fwa fld) (fun acc' _ => acc'.1 = acc.1 ∨ acc'.1 = acc.1 ++ [fld]) s := by
  obtain ⟨fields, lines, lenF, mfs⟩ := acc
  unfold pktStep1Tail
  wls
  split
  · wls; exact .inl (by first | rfl | trivial)
  · split
    · wls; exact .inl (by first | rfl | trivial)
    · try dsimp only
      split
      · wls; exact .inl (by first | rfl | trivial)
      · wls; exact .inr (by first | rfl | trivial)

def hasField (acc : Acc1) (n : String) : Prop := acc.1.any (·.name = n) = true

theorem hasField_mono {acc acc' : Acc1} {fld : MField} {n : String} (h : acc'.1 = acc.1 ∨ acc'.1 = acc.1 ++ [fld])
    (hf : hasField acc n) : hasField acc' n := by
  unfold hasField at *
  rcases h with e | e
  · rw [e]; exact hf
  · rw [e, List.any_append, hf]; rfl

/-- a field that is not a length field is in `fields` after its step (or a field of that name was there already) -/
theorem pktStep1_registers (isRoot : Bool) (pname : String) (acc : Acc1) (fwa : FieldWA) (s : VState) (h : Inv s)
    (hl : isLenSyn fwa = false) :
    wlp (pktStep1 isRoot pname acc fwa) (fun acc' _ => hasField acc' (fieldName fwa.fd)) s := by
  apply pktStep1_wlp _ _ _ _ _ h
  intro fld s1 _ _ hn hlen
  obtain ⟨fields, lines, lenF, mfs⟩ := acc
  unfold pktStep1Tail
  wls
  rw [hlen.isLenK, hl]
  simp only [Bool.false_and, Bool.false_eq_true, if_false]
  unfold hasField
  split
  · next hd => wls; rw [← hn]; exact hd
  · wls
    show (fields ++ [fld]).any _ = true
    rw [List.any_append]
    simp [hn]

/-- a field that is not a length field and whose name is taken is diagnosed at its line -/
theorem pktStep1_dup (isRoot : Bool) (pname : String) (acc : Acc1) (fwa : FieldWA) (s : VState) (h : Inv s)
    (hl : isLenSyn fwa = false) (hd : hasField acc (fieldName fwa.fd)) :
    wlp (pktStep1 isRoot pname acc fwa) (fun _ s' =>
      (fwa.start.line, "Duplicate field definition for " ++ fieldName fwa.fd ++ " in packet " ++ pname) ∈ s'.diags) s := by
  apply pktStep1_wlp _ _ _ _ _ h
  intro fld s1 _ _ hn hlen
  obtain ⟨fields, lines, lenF, mfs⟩ := acc
  unfold pktStep1Tail
  wls
  rw [hlen.isLenK, hl]
  simp only [Bool.false_and, Bool.false_eq_true, if_false]
  unfold hasField at hd
  rw [hn]
  rw [if_pos hd]
  wls
  exact List.mem_append_right _ (List.mem_singleton.2 rfl)

/-- a length field in a packet that is not the root packet is diagnosed at its line -/
theorem pktStep1_lenNonRoot (pname : String) (acc : Acc1) (fwa : FieldWA) (s : VState) (h : Inv s)
    (hl : isLenSyn fwa = true) :
    wlp (pktStep1 false pname acc fwa) (fun _ s' =>
      (fwa.start.line, "LengthOfField can only be declared in the root packet") ∈ s'.diags) s := by
  apply pktStep1_wlp _ _ _ _ _ h
  intro fld s1 _ _ hn hlen
  obtain ⟨fields, lines, lenF, mfs⟩ := acc
  unfold pktStep1Tail
  wls
  rw [hlen.isLenK, hl]
  simp only [Bool.not_false, Bool.and_self, if_true]
  wls
  exact List.mem_append_right _ (List.mem_singleton.2 rfl)

/-! ## Offences in the first loop, through `VisitPacketDefinition`, through the run -/

theorem wlp_foldlM_split (f : β → α → V β) (Q : β → VState → Prop) (a : α) (l2 : List α) :
    ∀ (l1 : List α) (b : β) (s : VState),
      wlp ((l1 ++ a :: l2).foldlM f b) Q s ↔
        wlp (l1.foldlM f b) (fun b1 s1 => wlp (f b1 a) (fun b2 s2 => wlp (l2.foldlM f b2) Q s2) s1) s
  | [], b, s => by
    rw [List.nil_append, List.foldlM_cons, wlp_bind, List.foldlM_nil, wlp_pure]
  | x :: l1, b, s => by
    rw [List.cons_append, List.foldlM_cons, wlp_bind, List.foldlM_cons, wlp_bind]
    constructor
    · intro h; exact wlp_mono h (fun b1 s1 h1 => (wlp_foldlM_split f Q a l2 l1 b1 s1).1 h1)
    · intro h; exact wlp_mono h (fun b1 s1 h1 => (wlp_foldlM_split f Q a l2 l1 b1 s1).2 h1)

theorem foldlM_offence1 {f : β → α → V β} (R : VState → Prop)
    (hR : ∀ b x s, R s → wlp (f b x) (fun _ s' => R s' ∧ Fr s s') s)
    (x : α) (l1 l2 : List α) (d : Nat × String) (P : β → Prop) (b : β) (s : VState) (hs : R s)
    (h1 : wlp (l1.foldlM f b) (fun b' _ => P b') s)
    (hx : ∀ b s, R s → P b → wlp (f b x) (fun _ s' => d ∈ s'.diags) s) :
    wlp ((l1 ++ x :: l2).foldlM f b) (fun _ s' => d ∈ s'.diags) s := by
  rw [wlp_foldlM_split]
  have hr1 : wlp (l1.foldlM f b) (fun _ s' => R s') s :=
    wlp_foldlM f (fun _ s' => R s') l1 b s hs (fun b x s _ h => wlp_mono (hR b x s h) (fun _ _ hh => hh.1))
  refine wlp_mono (wlp_and hr1 h1) ?_
  intro b1 s1 ⟨hr, hp⟩
  refine wlp_mono (wlp_and (hR b1 x s1 hr) (hx b1 s1 hr hp)) ?_
  intro b2 s2 ⟨⟨hr2, _⟩, hd⟩
  refine wlp_mono (wlp_foldlM f (fun _ s' => R s' ∧ d ∈ s'.diags) l2 b2 s2 ⟨hr2, hd⟩ ?_) (fun _ _ hh => hh.2)
  intro b x s _ ⟨h3, h4⟩
  exact wlp_mono (hR b x s h3) (fun _ _ hh => ⟨hh.1, hh.2.mem_diags h4⟩)

theorem foldlM_offence2 {f : β → α → V β} (R : VState → Prop)
    (hR : ∀ b x s, R s → wlp (f b x) (fun _ s' => R s' ∧ Fr s s') s)
    (P : β → Prop) (hP : ∀ b x s, R s → P b → wlp (f b x) (fun b' _ => P b') s)
    (a y : α) (l1 l2 l3 : List α) (d : Nat × String) (b : β) (s : VState) (hs : R s)
    (ha : ∀ b s, R s → wlp (f b a) (fun b' _ => P b') s)
    (hy : ∀ b s, R s → P b → wlp (f b y) (fun _ s' => d ∈ s'.diags) s) :
    wlp ((l1 ++ a :: (l2 ++ y :: l3)).foldlM f b) (fun _ s' => d ∈ s'.diags) s := by
  have e : l1 ++ a :: (l2 ++ y :: l3) = (l1 ++ a :: l2) ++ y :: l3 := by simp
  rw [e]
  refine foldlM_offence1 R hR y (l1 ++ a :: l2) l3 d P b s hs ?_ hy
  rw [wlp_foldlM_split]
  have hr1 : wlp (l1.foldlM f b) (fun _ s' => R s') s :=
    wlp_foldlM f (fun _ s' => R s') l1 b s hs (fun b x s _ h => wlp_mono (hR b x s h) (fun _ _ hh => hh.1))
  refine wlp_mono hr1 ?_
  intro b1 s1 hr
  refine wlp_mono (wlp_and (hR b1 a s1 hr) (ha b1 s1 hr)) ?_
  intro b2 s2 ⟨⟨hr2, _⟩, hp⟩
  refine wlp_mono (wlp_foldlM f (fun b' s' => R s' ∧ P b') l2 b2 s2 ⟨hr2, hp⟩ ?_) (fun _ _ hh => hh.2)
  intro b x s _ ⟨h3, h4⟩
  exact wlp_mono (wlp_and (hR b x s h3) (hP b x s h3 h4)) (fun _ _ hh => ⟨hh.1.1, hh.2⟩)

theorem pktStep1_hasField (isRoot : Bool) (pname : String) (n : String) (acc : Acc1) (fwa : FieldWA) (s : VState)
    (hf : hasField acc n) : wlp (pktStep1 isRoot pname acc fwa) (fun acc' _ => hasField acc' n) s := by
  rw [pktStep1_eq, wlp_bind]
  intro fld s1 _
  exact wlp_mono (pktStep1Tail_fields isRoot pname acc fwa fld s1) (fun _ _ hh => hasField_mono hh hf)

/-- a diagnostic of the first loop is a diagnostic of the packet definition -/
theorem visitPacketDef_diag (p : PacketDef) (s : VState) (d : Nat × String)
    (h1 : wlp (p.fields.foldlM (pktStep1 p.root.isSome p.name.text) ([], [], none, [])) (fun _ s' => d ∈ s'.diags) s) :
    wlp (visitPacketDef p) (fun _ s' => d ∈ s'.diags) s := by
  unfold visitPacketDef
  rw [wlp_bind]
  refine wlp_mono h1 ?_
  intro ⟨fields, lines, lenF, mfs⟩ s1 hd
  dsimp only
  rw [wlp_bind]
  refine wlp_mono ((pktLenCheck_frames ..).out s1) ?_
  intro lenF' s2 h2
  rw [wlp_bind]
  refine wlp_mono ((frames_foldlM (pktStep2_frames _ _ _) _ _).out s2) ?_
  intro fs s3 h3
  rw [wlp_pure]
  exact h3.mem_diags (h2.mem_diags hd)

theorem packetStep_diag (p : PacketDef) (s : VState) (d : Nat × String)
    (h1 : wlp (visitPacketDef p) (fun _ s' => d ∈ s'.diags) s) :
    wlp (packetStep (.packet p)) (fun _ s' => d ∈ s'.diags) s := by
  unfold packetStep
  dsimp only
  rw [wlp_bind]
  refine wlp_mono h1 ?_
  intro mp s1 hd
  wls
  exact (addPacketS_grow mp s1).mem_diags hd

/-- a diagnostic that the first loop of packet `p` issues (from every state that satisfies the invariants) is in the
final list of every run over a file that contains `p` -/
theorem diag_of_packet {c : Cst} {s : VState} {d : Nat × String} (p : PacketDef) (hp : TopDef.packet p ∈ c.defs)
    (hw : ∀ s0, Inv s0 →
      wlp (p.fields.foldlM (pktStep1 p.root.isSome p.name.text) ([], [], none, [])) (fun _ s' => d ∈ s'.diags) s0)
    (h : run c = .ok s) : d ∈ s.diags := by
  obtain ⟨l1, l2, hc⟩ := List.append_of_mem hp
  refine diag_of_phase3 ?_ h
  intro s2 _ hi
  rw [hc]
  exact forM_offence1 packetStep_grows _ l1 l2 d Inv s2 (wp_to_wlp (forM_inv packetStep packetStep_spec l1 s2 hi))
    (fun s hs => packetStep_diag p s d (visitPacketDef_diag p s d (hw s hs)))

/-! ## Acceptance: the flat fragment

Fields whose attribute is of a *quiet* kind (basic, `char[n]`, string, checksum) are passed over by every later check:
the second loop of `VisitPacketDefinition`, `resolveFields` and the recursion check leave them (and the state) alone. -/

/-- the field's attribute pointer is valid and the attribute satisfies `P` -/
def Kind (f : MField) (s : VState) (P : AttrK → Prop) : Prop :=
  ∃ (a : Nat) (k : AttrK), f.attr = some a ∧ s.attrs[a]? = some k ∧ P k

def quiet : AttrK → Prop
  | .basic _ => True
  | .fixed _ _ => True
  | .dyn => True
  | .checksum _ _ => True
  | _ => False

def isFixedK : AttrK → Prop
  | .fixed _ _ => True
  | _ => False

theorem quiet_stable {k : AttrK} (h : quiet k) : stable k := by cases k <;> first | trivial | cases h
theorem plain_quiet {k : AttrK} (h : plain k) : quiet k := by cases k <;> first | trivial | cases h
theorem quiet_notLen {k : AttrK} (h : quiet k) : isLenA k = false := by cases k <;> first | rfl | cases h

theorem Kind.mono {f : MField} {s s' : VState} {P : AttrK → Prop} (h : Kind f s P) (hp : Pres s s')
    (hs : ∀ k, P k → stable k) : Kind f s' P := by
  obtain ⟨a, k, h1, h2, h3⟩ := h
  exact ⟨a, k, h1, hp.keep a k h2 (hs k h3), h3⟩

theorem Kind.imp {f : MField} {s : VState} {P Q : AttrK → Prop} (h : Kind f s P) (hq : ∀ k, P k → Q k) : Kind f s Q := by
  obtain ⟨a, k, h1, h2, h3⟩ := h
  exact ⟨a, k, h1, h2, hq k h3⟩

theorem Kind.bind_eq {f : MField} {s : VState} {P : AttrK → Prop} (h : Kind f s P) :
    ∃ k, f.attr.bind (s.attrs[·]?) = some k ∧ P k := by
  obtain ⟨a, k, h1, h2, h3⟩ := h
  exact ⟨k, by rw [h1]; exact h2, h3⟩

theorem kind_fresh (s : VState) (k : AttrK) (f : MField) (hf : f.attr = some s.attrs.size) (P : AttrK → Prop) (hk : P k) :
    Kind f { s with attrs := s.attrs.push k } P :=
  ⟨s.attrs.size, k, hf, getElem?_push_size _ _, hk⟩

/-- the length of a `char[n]` / `zchar[n]` fits an `int32` -/
def tyOK : Ty → Prop
  | .fixed _ n _ => natOfDigits n.text ≤ 2 ^ 31 - 1
  | _ => True

def tyFixed : Ty → Prop
  | .fixed _ _ _ => True
  | _ => False

theorem tyAttr_flat (ty : Ty) (name : String) (s : VState) (h : tyOK ty) :
    wlp (tyAttr ty name) (fun a s' => s'.diags = s.diags ∧ ∃ k, s'.attrs[a]? = some k ∧ plain k ∧ (tyFixed ty → isFixedK k)) s := by
  unfold tyAttr
  split
  · wls
    exact ⟨by first | rfl | trivial, _, getElem?_push_size _ _, trivial, fun hh => hh.elim⟩
  · next kw n rb =>
    have hc : ¬ (natOfDigits n.text > 2 ^ 31 - 1) := Nat.not_lt.2 h
    simp only [hc, if_false]
    split
    · wls
      exact ⟨by first | rfl | trivial, _, getElem?_push_size _ _, trivial, fun _ => trivial⟩
    · wls
      exact ⟨by first | rfl | trivial, _, getElem?_push_size _ _, trivial, fun _ => trivial⟩
  · wls
    exact ⟨by first | rfl | trivial, _, getElem?_push_size _ _, trivial, fun hh => hh.elim⟩

/-- every name of `mn` is a registered MetaData entry -/
def MetaKnown (mn : List String) (s : VState) : Prop := ∀ n, n ∈ mn → (findMeta s n).isSome = true

theorem MetaKnown.fr {mn : List String} {s s' : VState} (h : MetaKnown mn s) (hf : s'.metas = s.metas) : MetaKnown mn s' := by
  intro n hn
  have := h n hn
  unfold findMeta at *
  rw [hf]; exact this

def fdFixed : FieldDef → Prop
  | .metaF _ d => tyFixed d.ty
  | _ => False

/-- field definitions of the flat fragment: a typed plain field, a field of a MetaData type, a checksum field -/
def FlatFd (mn : List String) : FieldDef → Prop
  | .metaF _ d => tyOK d.ty
  | .obj _ ft _ _ _ => ft.text ∈ mn
  | .cks d => d.ty.isSome = true ∨ d.name.text ∈ mn
  | _ => False

def AttrOK (F : Prop) : Attr → Prop
  | .tag _ _ _ => True
  | .pad _ _ _ _ => F
  | _ => False

/-- prefix attributes of the flat fragment: `@tag(n)`, and padding on a `char[n]` field -/
def FlatAttr (fd : FieldDef) (a : Attr) : Prop := AttrOK (fdFixed fd) a

structure FlatField (mn : List String) (f : FieldWA) : Prop where
  fd : FlatFd mn f.fd
  attrs : ∀ a, a ∈ f.attrs → FlatAttr f.fd a

theorem metaTypeOf_flat (name : String) (hasTy : Bool) (typ0 : String) (line : Nat) (site : String) (s : VState)
    (h : hasTy = true ∨ (findMeta s name).isSome = true) :
    wlp (metaTypeOf name hasTy typ0 line site) (fun _ s' => s' = s) s := by
  unfold metaTypeOf
  split
  · wls
  · next hty =>
    wls
    split
    · split
      · wls
      · wls
    · next hnone =>
      rcases h with h | h
      · exact absurd h hty
      · rw [hnone] at h; cases h

/-- what `quiet` field of the flat fragment looks like in the store: quiet, and `char[n]` stays `char[n]` -/
def QF (F : Prop) (k : AttrK) : Prop := quiet k ∧ (F → isFixedK k)

theorem visitFieldDef_flat (mn : List String) (fd : FieldDef) (s : VState) (h : Inv s) (hm : MetaKnown mn s)
    (hf : FlatFd mn fd) :
    wlp (visitFieldDef fd) (fun f s' => s'.diags = s.diags ∧ Kind f s' (QF (fdFixed fd))) s := by
  cases fd with
  | obj rep ft fn doc comma =>
    rw [visitFieldDef]
    unfold visitObj
    wls
    split
    · next m hm' =>
      wls
      obtain ⟨a, k, h1, h2, h3⟩ := h.metaOK m (mem_of_findMeta hm')
      exact ⟨by first | rfl | trivial, a, k, h1, h2, plain_quiet h3, fun hh => hh.elim⟩
    · next hnone =>
      have := hm _ hf
      rw [hnone] at this; cases this
  | cks d =>
    rw [visitFieldDef]
    unfold visitCks
    rw [wlp_bind]
    refine wlp_mono (metaTypeOf_flat _ _ _ _ _ s ?_) ?_
    · rcases hf with hf | hf
      · exact .inl hf
      · exact .inr (hm _ hf)
    · intro typ s1 e
      subst e
      wls
      exact ⟨by first | rfl | trivial, kind_fresh _ _ _ rfl _ ⟨trivial, fun hh => hh.elim⟩⟩
  | metaF rep d =>
    rw [visitFieldDef]
    unfold visitMetaF
    rw [wlp_bind]
    refine wlp_mono (tyAttr_flat d.ty d.name.text s hf) ?_
    intro a s1 ⟨hd, k, h2, h3, h4⟩
    wls
    exact ⟨hd, a, k, rfl, h2, plain_quiet h3, h4⟩
  | iner rep name lb fields rb comma => exact hf.elim
  | len d => exact hf.elim
  | match_ d comma => exact hf.elim

theorem attrStep_flat (F : Prop) (fld : MField) (a : Attr) (s : VState) (hk : Kind fld s (QF F))
    (ha : AttrOK F a) :
    wlp (attrStep fld a) (fun f' s' => s'.diags = s.diags ∧ Kind f' s' (QF F)) s := by
  unfold attrStep
  split
  · exact ha.elim
  · exact ha.elim
  · wls
    obtain ⟨k, h1, h2, h3⟩ := hk.bind_eq
    split
    · wls
      exact ⟨by first | rfl | trivial, kind_fresh _ _ _ rfl _ ⟨trivial, fun _ => trivial⟩⟩
    · next hne =>
      exfalso
      have := h3 ha
      cases k <;> first | exact this.elim | exact hne _ _ h1
  · wls
    exact ⟨by first | rfl | trivial, hk⟩

theorem attrs_flat (F : Prop) : ∀ (attrs : List Attr) (fld : MField) (s : VState), Kind fld s (QF F) →
    (∀ a, a ∈ attrs → AttrOK F a) →
    wlp (attrs.foldlM attrStep fld) (fun f' s' => s'.diags = s.diags ∧ Kind f' s' (QF F)) s
  | [], fld, s, h, _ => by rw [List.foldlM_nil, wlp_pure]; exact ⟨rfl, h⟩
  | a :: attrs, fld, s, h, ha => by
    rw [List.foldlM_cons, wlp_bind]
    refine wlp_mono (attrStep_flat F fld a s h (ha a (List.mem_cons_self ..))) ?_
    intro f1 s1 ⟨hd, h1⟩
    refine wlp_mono (attrs_flat F attrs f1 s1 h1 (fun a' ha' => ha a' (List.mem_cons_of_mem _ ha'))) ?_
    intro f2 s2 ⟨hd2, h2⟩
    exact ⟨hd2.trans hd, h2⟩

theorem visitFieldWA_flat (mn : List String) (f : FieldWA) (s : VState) (h : Inv s) (hm : MetaKnown mn s)
    (hf : FlatField mn f) :
    wlp (visitFieldWA f) (fun fld s' => s'.diags = s.diags ∧ Kind fld s' quiet) s := by
  unfold visitFieldWA
  rw [wlp_bind]
  refine wlp_mono (visitFieldDef_flat mn f.fd s h hm hf.fd) ?_
  intro f1 s1 ⟨hd, h1⟩
  refine wlp_mono (attrs_flat (fdFixed f.fd) f.attrs f1 s1 h1 (fun a ha => hf.attrs a ha)) ?_
  intro f2 s2 ⟨hd2, h2⟩
  exact ⟨hd2.trans hd, h2.imp (fun _ hq => hq.1)⟩

theorem Kind.notLen {f : MField} {s : VState} (h : Kind f s quiet) : isLenK (f.attr.bind (s.attrs[·]?)) = false := by
  obtain ⟨k, h1, h2⟩ := h.bind_eq
  rw [h1, isLenK_eq, quiet_notLen h2]

theorem addMatchField_quiet {f : MField} {s : VState} (h : Kind f s quiet) (mfs : List (String × List MPair)) :
    addMatchField mfs (f.attr.bind (s.attrs[·]?)) = mfs := by
  obtain ⟨k, h1, h2⟩ := h.bind_eq
  rw [h1]
  cases k <;> first | rfl | cases h2

theorem pktStep1Tail_flat (r : Bool) (pn : String) (acc : Acc1) (fwa : FieldWA) (fld : MField) (s : VState)
    (hk : Kind fld s quiet) (hd : acc.1.any (·.name = fld.name) = false) :
    wlp (pktStep1Tail r pn acc fwa fld) (fun acc' s' => s' = s ∧ acc'.1 = acc.1 ++ [fld] ∧ acc'.2.2.1 = acc.2.2.1) s := by
  obtain ⟨fields, lines, lenF, mfs⟩ := acc
  unfold pktStep1Tail
  wls
  rw [hk.notLen]
  simp only [Bool.false_and, Bool.false_eq_true, if_false]
  rw [if_neg (by rw [hd]; exact Bool.false_ne_true)]
  wls
  exact ⟨by first | rfl | trivial, by first | rfl | trivial, by first | rfl | trivial⟩

/-- the facts carried through the first loop over a flat packet -/
structure Q1 (s0 : VState) (acc : Acc1) (s : VState) : Prop where
  inv : Inv s
  fr : Fr s0 s
  pres : Pres s0 s
  diags : s.diags = s0.diags
  lenF : acc.2.2.1 = none
  quiet : ∀ f, f ∈ acc.1 → Kind f s quiet

theorem loop1_flat (mn : List String) (r : Bool) (pn : String) :
    ∀ (fs : List FieldWA) (acc : Acc1) (s0 s : VState), Q1 s0 acc s → MetaKnown mn s →
      (∀ f, f ∈ fs → FlatField mn f) → (acc.1.map (·.name) ++ fs.map (fun f => fieldName f.fd)).Nodup →
      wlp (fs.foldlM (pktStep1 r pn) acc) (fun acc' s' => Q1 s0 acc' s') s
  | [], acc, s0, s, q, _, _, _ => by rw [List.foldlM_nil, wlp_pure]; exact q
  | f :: fs, acc, s0, s, q, hm, hf, hn => by
    rw [List.foldlM_cons, wlp_bind, pktStep1_eq, wlp_bind]
    have hff := hf f (List.mem_cons_self ..)
    refine wlp_mono (wlp_and (wlp_and (wp_to_wlp (visitFieldWA_spec f s q.inv)) ((visitFieldWA_frames f).out s))
      (wlp_and (visitFieldWA_len f s q.inv) (visitFieldWA_flat mn f s q.inv hm hff))) ?_
    intro fld s1 ⟨⟨⟨hi, hp, _⟩, hfr⟩, ⟨hname, _⟩, hd, hk⟩
    have hnd : acc.1.any (·.name = fld.name) = false := by
      rw [List.any_eq_false]
      intro x hx hxe
      have hxe' : x.name = fieldName f.fd := by rw [← hname]; simpa using hxe
      have h1 : fieldName f.fd ∈ acc.1.map (·.name) := List.mem_map.2 ⟨x, hx, hxe'⟩
      have h2 := (List.nodup_append.1 hn).2.2 _ h1 (fieldName f.fd) (by simp)
      exact h2 rfl
    refine wlp_mono (pktStep1Tail_flat r pn acc f fld s1 hk hnd) ?_
    intro acc' s2 ⟨e, hacc, hlen⟩
    subst e
    refine loop1_flat mn r pn fs acc' s0 s2 ?_ (hm.fr hfr.metas) (fun f' hf' => hf f' (List.mem_cons_of_mem _ hf')) ?_
    · refine ⟨hi, q.fr.trans hfr, q.pres.trans hp, hd.trans q.diags, hlen.trans q.lenF, ?_⟩
      intro f' hf'
      rw [hacc] at hf'
      rcases List.mem_append.1 hf' with hh | hh
      · exact (q.quiet f' hh).mono hp (fun _ => quiet_stable)
      · cases List.mem_singleton.1 hh; exact hk
    · rw [hacc, List.map_append, List.append_assoc]
      simpa [hname] using hn

theorem getElem!_mem' {fs : List MField} {i : Nat} (hi : i < fs.length) : fs[i]! ∈ fs := by
  rw [List.getElem!_eq_getElem?_getD, List.getElem?_eq_getElem hi]
  exact List.getElem_mem hi

/-- the second loop passes over a quiet field -/
theorem pktStep2_flat (fm : List String) (lines : List Nat) (fs : List MField) (i : Nat) (s : VState)
    (hi : i < fs.length) (hq : ∀ f, f ∈ fs → Kind f s quiet) :
    wlp (pktStep2 none fm lines fs i) (fun fs' s' => fs' = fs ∧ s' = s) s := by
  unfold pktStep2 pktStep2Len
  wls
  unfold pktStep2Res
  wls
  obtain ⟨k, h1, h2⟩ := (hq _ (getElem!_mem' hi)).bind_eq
  split
  · next heq _ => rw [h1] at heq; cases heq; exact h2.elim
  · next heq _ => rw [h1] at heq; cases heq; exact h2.elim
  · next heq _ => rw [h1] at heq; cases heq; exact h2.elim
  · wls
    exact ⟨by first | rfl | trivial, by first | rfl | trivial⟩

theorem visitPacketDef_flat (mn : List String) (p : PacketDef) (s : VState) (h : Inv s) (hm : MetaKnown mn s)
    (hf : ∀ f, f ∈ p.fields → FlatField mn f) (hn : (p.fields.map (fun f => fieldName f.fd)).Nodup) :
    wlp (visitPacketDef p) (fun mp s' => Inv s' ∧ Pres s s' ∧ Fr s s' ∧ s'.diags = s.diags ∧ mp.name = p.name.text ∧
      mp.root = p.root.isSome ∧ ∀ f, f ∈ mp.fields → Kind f s' quiet) s := by
  unfold visitPacketDef
  rw [wlp_bind]
  refine wlp_mono (loop1_flat mn p.root.isSome p.name.text p.fields ([], [], none, []) s s
    ⟨h, Fr.refl s, Pres.refl s, rfl, rfl, fun f hf => by cases hf⟩ hm hf (by simpa using hn)) ?_
  intro ⟨fields, lines, lenF, mfs⟩ s1 q
  have hl : lenF = none := q.lenF
  subst hl
  dsimp only
  rw [wlp_bind]
  unfold pktLenCheck
  wls
  have h2 : wlp ((List.range fields.length).foldlM (pktStep2 none (fields.map (·.name)) lines) fields)
      (fun fs' s' => fs' = fields ∧ s' = s1) s1 := by
    refine wlp_foldlM _ (fun fs' s' => fs' = fields ∧ s' = s1) _ _ _ ⟨rfl, rfl⟩ ?_
    intro fs' i s' hi ⟨e1, e2⟩
    subst e1; subst e2
    exact pktStep2_flat _ _ _ i _ (List.mem_range.1 hi) q.quiet
  refine wlp_mono h2 ?_
  intro fs' s' ⟨e1, e2⟩
  subst e1; subst e2
  exact ⟨q.inv, q.pres, q.fr, q.diags, by first | rfl | trivial, by first | rfl | trivial, q.quiet⟩

/-! ### The packet loop over flat packets -/

theorem Kind.of_attrs {f : MField} {s s' : VState} {P : AttrK → Prop} (h : Kind f s P) (e : s'.attrs = s.attrs) :
    Kind f s' P := by
  obtain ⟨a, k, h1, h2, h3⟩ := h
  exact ⟨a, k, h1, by rw [e]; exact h2, h3⟩

/-- number of packet definitions declared `root` -/
def rootCount (l : List TopDef) : Nat :=
  (l.filter fun d => match d with | .packet p => p.root.isSome | _ => false).length

def AllQuiet (s : VState) : Prop := ∀ p, p ∈ s.packets → ∀ f, f ∈ p.fields → Kind f s quiet

/-- a packet of the flat fragment: flat fields with pairwise different names -/
structure FlatPacket (mn : List String) (p : PacketDef) : Prop where
  fields : ∀ f, f ∈ p.fields → FlatField mn f
  nodup : (p.fields.map (fun f => fieldName f.fd)).Nodup

structure Q3 (s0 s : VState) : Prop where
  inv : Inv s
  diags : s.diags = s0.diags
  quiet : AllQuiet s

theorem addPacketS_fresh (mp : MPacket) (s : VState) (hnew : s.packets.any (·.name = mp.name) = false)
    (hroot : mp.root = true → s.root = none) :
    (addPacketS mp s).diags = s.diags ∧ (addPacketS mp s).packets = s.packets ++ [mp] ∧
      ((addPacketS mp s).root.isSome = (s.root.isSome || mp.root)) := by
  unfold addPacketS
  rw [if_neg (by rw [hnew]; exact Bool.false_ne_true)]
  dsimp only
  cases hr : mp.root
  · simp
  · have := hroot hr
    simp [this]

theorem packetLoop_flat (mn : List String) :
    ∀ (l : List TopDef) (s0 s : VState), Q3 s0 s → MetaKnown mn s → (∀ p, TopDef.packet p ∈ l → FlatPacket mn p) →
      (s.packets.map (·.name) ++ packetNames l).Nodup → (if s.root.isSome = true then 1 else 0) + rootCount l ≤ 1 →
      wlp (l.forM packetStep) (fun _ s' => Q3 s0 s') s
  | [], s0, s, q, _, _, _, _ => (wlp_pure ..).2 q
  | d :: l, s0, s, q, hm, hf, hn, hr => by
    rw [forM_cons', wlp_bind]
    cases d with
    | packet p =>
      unfold packetStep
      dsimp only
      rw [wlp_bind]
      have hfp := hf p (List.mem_cons_self ..)
      refine wlp_mono (visitPacketDef_flat mn p s q.inv hm hfp.fields hfp.nodup) ?_
      intro mp s1 ⟨hi, hp, hfr, hd, hname, hroot, hq⟩
      wls
      have hn' : (s.packets.map (·.name) ++ p.name.text :: packetNames l).Nodup := by simpa [packetNames] using hn
      have hnew : s1.packets.any (·.name = mp.name) = false := by
        rw [hfr.packets, hname, List.any_eq_false]
        intro x hx hxe
        have h1 : p.name.text ∈ s.packets.map (·.name) := List.mem_map.2 ⟨x, hx, by simpa using hxe⟩
        exact (List.nodup_append.1 hn').2.2 _ h1 p.name.text (List.mem_cons_self ..) rfl
      have hr' : (if s.root.isSome = true then 1 else 0) + ((if p.root.isSome = true then 1 else 0) + rootCount l) ≤ 1 := by
        have e : rootCount (TopDef.packet p :: l) = (if p.root.isSome = true then 1 else 0) + rootCount l := by
          unfold rootCount
          rw [List.filter_cons]
          dsimp only
          split <;> simp <;> omega
        rw [e] at hr; exact hr
      have hrn : mp.root = true → s1.root = none := by
        intro hmr
        rw [hfr.root]
        rw [hroot] at hmr
        rw [if_pos hmr] at hr'
        cases hsr : s.root with
        | none => rfl
        | some x => rw [hsr] at hr'; simp at hr'; omega
      obtain ⟨e1, e2, e3⟩ := addPacketS_fresh mp s1 hnew hrn
      refine packetLoop_flat mn l s0 _ ⟨addPacketS_inv hi mp, e1.trans (hd.trans q.diags), ?_⟩ ?_ ?_ ?_ ?_
      · intro p' hp' f hf'
        rw [e2] at hp'
        rcases List.mem_append.1 hp' with hh | hh
        · rw [hfr.packets] at hh
          exact ((q.quiet p' hh f hf').mono hp (fun _ => quiet_stable)).of_attrs (addPacketS_attrs ..)
        · cases List.mem_singleton.1 hh
          exact (hq f hf').of_attrs (addPacketS_attrs ..)
      · exact hm.fr ((addPacketS_metas ..).trans hfr.metas)
      · intro p' hp'; exact hf p' (List.mem_cons_of_mem _ hp')
      · rw [e2, hfr.packets]
        simpa [hname] using hn'
      · rw [e3, hfr.root, hroot]
        cases hsr : s.root.isSome <;> cases hpr : p.root.isSome <;> simp [hsr, hpr] at hr' ⊢ <;> omega
    | metaD m =>
      unfold packetStep
      wls
      refine packetLoop_flat mn l s0 s q hm (fun p' hp' => hf p' (List.mem_cons_of_mem _ hp')) ?_ ?_
      · simpa [packetNames] using hn
      · have e : rootCount (TopDef.metaD m :: l) = rootCount l := by
          unfold rootCount; rw [List.filter_cons]; simp
        rw [e] at hr; exact hr
    | opt o =>
      unfold packetStep
      wls
      refine packetLoop_flat mn l s0 s q hm (fun p' hp' => hf p' (List.mem_cons_of_mem _ hp')) ?_ ?_
      · simpa [packetNames] using hn
      · have e : rootCount (TopDef.opt o :: l) = rootCount l := by
          unfold rootCount; rw [List.filter_cons]; simp
        rw [e] at hr; exact hr

/-! ### `ResolveDependencies` over quiet fields -/

theorem resolveField_quiet (fuel : Nat) (f : MField) (s : VState) (h : Kind f s quiet) :
    wlp (resolveField fuel f) (fun _ s' => s' = s) s := by
  rw [resolveField]
  wls
  obtain ⟨k, h1, h2⟩ := h.bind_eq
  split
  · next heq _ => rw [h1] at heq; cases heq; exact h2.elim
  · next heq => rw [h1] at heq; cases heq; exact h2.elim
  · next heq => rw [h1] at heq; cases heq; exact h2.elim
  · wls

theorem foldl_id {g : β → α → β} : ∀ (l : List α) (b : β), (∀ x, x ∈ l → ∀ b, g b x = b) → l.foldl g b = b
  | [], _, _ => rfl
  | x :: l, b, h => by
    rw [List.foldl_cons, h x (List.mem_cons_self ..) b]
    exact foldl_id l b (fun y hy => h y (List.mem_cons_of_mem _ hy))

theorem foldl_inv {g : β → α → β} (P : β → Prop) : ∀ (l : List α) (b : β), P b → (∀ b x, x ∈ l → P b → P (g b x)) →
    P (l.foldl g b)
  | [], _, h, _ => h
  | x :: l, b, h, hs => by
    rw [List.foldl_cons]
    exact foldl_inv P l _ (hs b x (List.mem_cons_self ..) h) (fun b y hy => hs b y (List.mem_cons_of_mem _ hy))

theorem recVisit_quiet (s : VState) (fuel : Nat) (pname : String) (fields : List MField) (st : RecSt)
    (h : ∀ f, f ∈ fields → Kind f s quiet) : recVisit s fuel pname fields st = st := by
  cases fuel with
  | zero => rw [recVisit]
  | succ n =>
    rw [recVisit]
    apply foldl_id
    intro f hf st'
    obtain ⟨k, h1, h2⟩ := (h f hf).bind_eq
    simp only [h1]
    cases k <;> first | rfl | exact h2.elim

/-- the fold of `checkRecursion` -/
def recFold (s : VState) : RecSt :=
  s.packets.foldl (fun (st : RecSt) p =>
    if st.black.contains p.name || st.grey.contains p.name then st
    else
      let st := recVisit s (recFuel s) p.name p.fields { st with grey := p.name :: st.grey }
      { st with black := p.name :: st.black }) {}

theorem recFold_quiet (s : VState) (h : AllQuiet s) : (recFold s).report = none := by
  unfold recFold
  refine foldl_inv (fun (st : RecSt) => st.report = none) s.packets _ rfl ?_
  intro st p hp hst
  dsimp only
  split
  · exact hst
  · rw [recVisit_quiet s _ _ _ _ (h p hp)]
    exact hst

theorem checkRecursion_quiet (s : VState) (h : AllQuiet s) : wlp checkRecursion (fun _ s' => s' = s) s := by
  unfold checkRecursion
  wls
  split
  · next heq =>
    have := recFold_quiet s h
    unfold recFold at this
    exact absurd (heq.symm.trans this) (by simp)
  · wls

theorem resolveDeps_quiet (s : VState) (h : AllQuiet s) : wlp resolveDeps (fun _ s' => s' = s) s := by
  unfold resolveDeps
  wls
  have h1 : wlp (s.packets.forM fun p => resolveFields s.ipackets.size p.fields) (fun _ s' => s' = s) s := by
    refine wlp_forM _ (fun s' => s' = s) _ s rfl ?_
    intro p s1 hp e
    subst e
    unfold resolveFields
    refine wlp_forM _ (fun s' => s' = s1) _ s1 rfl ?_
    intro f s2 hf e
    subst e
    exact resolveField_quiet _ f _ (h p hp f hf)
  refine wlp_mono h1 ?_
  intro _ s1 e
  subst e
  exact checkRecursion_quiet _ h

/-! ### MetaData and options without offence -/

def entryName : MetaEntry → String
  | .decl d => d.name.text
  | .ref r => r.name.text

theorem findMeta_isSome_iff (s : VState) (n : String) : (findMeta s n).isSome = true ↔ n ∈ s.metas.map (·.name) := by
  unfold findMeta
  rw [List.find?_isSome, List.mem_map]
  constructor
  · rintro ⟨x, hx, he⟩; exact ⟨x, hx, by simpa using he⟩
  · rintro ⟨x, hx, he⟩; exact ⟨x, hx, by simpa using he⟩

theorem lookup_isSome_iff (l : List (String × String)) (n : String) : (l.lookup n).isSome = true ↔ n ∈ l.map (·.1) := by
  induction l with
  | nil => simp
  | cons x l ih =>
    obtain ⟨k, v⟩ := x
    rw [List.lookup_cons]
    by_cases h : n = k
    · subst h; simp
    · have : (n == k) = false := by simpa using h
      rw [this]
      simp only [ih, List.map_cons, List.mem_cons, h, false_or]

theorem addMetaS_fresh (m : MMeta) (s : VState) (h : (findMeta s m.name).isSome = false) :
    addMetaS m s = { s with metas := s.metas ++ [m] } := by
  simp [addMetaS, h]

theorem metaLoop_flat : ∀ (l : List MetaEntry) (s0 s : VState), Inv s → s.diags = s0.diags → NoPk s →
    (∀ e, e ∈ l → ∃ d, e = .decl d ∧ tyOK d.ty) → (s.metas.map (·.name) ++ l.map entryName).Nodup →
    wlp (l.forM metaEntryStep) (fun _ s' => Inv s' ∧ s'.diags = s0.diags ∧ NoPk s' ∧
      s'.metas.map (·.name) = s.metas.map (·.name) ++ l.map entryName ∧ s'.options = s.options) s
  | [], s0, s, hi, hd, hn, _, _ => (wlp_pure ..).2 ⟨hi, hd, hn, by simp, rfl⟩
  | e :: l, s0, s, hi, hd, hn, he, hnd => by
    rw [forM_cons', wlp_bind]
    obtain ⟨d, rfl, hty⟩ := he e (List.mem_cons_self ..)
    unfold metaEntryStep
    dsimp only
    rw [wlp_bind]
    refine wlp_mono (wlp_and (wlp_and (wp_to_wlp (tyAttr_spec d.ty d.name.text s hi)) ((tyAttr_frames d.ty d.name.text).out s))
      (tyAttr_flat d.ty d.name.text s hty)) ?_
    intro a s1 ⟨⟨⟨hi1, _, k, hk1, hk2⟩, hfr⟩, hd1, _⟩
    wls
    have hnew : (findMeta s1 d.name.text).isSome = false := by
      cases hh : (findMeta s1 d.name.text).isSome with
      | false => rfl
      | true =>
        exfalso
        have h1 := (findMeta_isSome_iff s1 _).1 hh
        rw [hfr.metas] at h1
        exact (List.nodup_append.1 hnd).2.2 _ h1 d.name.text (by simp [entryName]) rfl
    rw [addMetaS_fresh _ _ hnew]
    have hi2 : Inv { s1 with metas := s1.metas ++ [{ name := d.name.text, attr := some a, desc := docOf d.doc, line := d.ty.start.line }] } := by
      have := hi1.addMeta { name := d.name.text, attr := some a, desc := docOf d.doc, line := d.ty.start.line } ⟨a, k, rfl, hk1, hk2⟩
      rw [addMetaS_fresh _ _ hnew] at this
      exact this
    refine wlp_mono (metaLoop_flat l s0 _ hi2 (hd1.trans hd) (hfr.noPk hn)
      (fun e' he' => he e' (List.mem_cons_of_mem _ he')) ?_) ?_
    · show (List.map (fun m : MMeta => m.name) (s1.metas ++ [_]) ++ l.map entryName).Nodup
      rw [hfr.metas]
      simpa [entryName] using hnd
    · intro _ s2 ⟨h1, h2, h3, h4, h5⟩
      refine ⟨h1, h2, h3, ?_, h5.trans hfr.options⟩
      rw [h4]
      show List.map (fun m : MMeta => m.name) (s1.metas ++ [_]) ++ l.map entryName = _
      rw [hfr.metas]
      simp [entryName]

/-- a documented option with an allowed value -/
def OptOK (od : OptDecl) : Prop :=
  ∃ vals, optionValues od.name.text = some vals ∧ (vals = [] ∨ optValueOf od ∈ vals)

theorem addOptionS_good (name value : String) (line : Nat) (vals : List String) (s : VState)
    (h : optionValues name = some vals) (hok : vals = [] ∨ value ∈ vals) (hd : (s.options.lookup name).isSome = false) :
    addOptionS name value line s = { s with options := s.options ++ [(name, value)] } := by
  have hc : (!vals.isEmpty && !vals.contains value) = false := by
    rcases hok with hok | hok
    · simp [hok]
    · simp [hok]
  simp only [addOptionS, h, hc, Bool.false_eq_true, ↓reduceIte, hd]

theorem optLoop_flat : ∀ (l : List OptDecl) (s0 s : VState), Inv s → s.diags = s0.diags → NoPk s →
    (∀ od, od ∈ l → OptOK od) → (s.options.map (·.1) ++ l.map (·.name.text)).Nodup →
    wlp (l.forM optDeclStep) (fun _ s' => Inv s' ∧ s'.diags = s0.diags ∧ NoPk s' ∧ s'.metas = s.metas) s
  | [], s0, s, hi, hd, hn, _, _ => (wlp_pure ..).2 ⟨hi, hd, hn, rfl⟩
  | od :: l, s0, s, hi, hd, hn, ho, hnd => by
    rw [forM_cons', wlp_bind, optDeclStep_eq]
    wls
    obtain ⟨vals, hv, hok⟩ := ho od (List.mem_cons_self ..)
    have hnew : (s.options.lookup od.name.text).isSome = false := by
      cases hh : (s.options.lookup od.name.text).isSome with
      | false => rfl
      | true =>
        exfalso
        have h1 := (lookup_isSome_iff _ _).1 hh
        exact (List.nodup_append.1 hnd).2.2 _ h1 od.name.text (by simp) rfl
    rw [addOptionS_good _ _ _ vals s hv hok hnew]
    refine wlp_mono (optLoop_flat l s0 _ (hi.of_eq rfl rfl rfl) hd hn (fun od' h' => ho od' (List.mem_cons_of_mem _ h')) ?_) ?_
    · show (List.map (fun x : String × String => x.1) (s.options ++ [_]) ++ l.map (·.name.text)).Nodup
      simpa using hnd
    · intro _ s2 ⟨h1, h2, h3, h4⟩
      exact ⟨h1, h2, h3, h4⟩

/-! ### Acceptance of the flat fragment -/

/-- the names of all MetaData entries of the file -/
def metaNames (c : Cst) : List String := (metaEntries c).map entryName

/-- **Well-formed files of the flat fragment.**  The fragment has MetaData declarations (no `RefMetaData` entries),
options, and packets whose fields are typed plain fields (`u16 x`, `char[8] s`, `string t`, with `repeat`), fields of a
MetaData type (`MsgType`, `MsgType kind`), checksum fields, with `@tag(n)` attributes and padding attributes. -/
structure WFFlat (c : Cst) : Prop where
  /-- every MetaData entry is a declaration, and a `char[n]` length fits an int32 -/
  metaDecl : ∀ e, e ∈ metaEntries c → ∃ d, e = .decl d ∧ tyOK d.ty
  /-- no two MetaData entries with the same name -/
  metaNodup : (metaNames c).Nodup
  /-- every option is a documented one and has an allowed value -/
  optOK : ∀ od, od ∈ optDecls c → OptOK od
  /-- no option is set twice -/
  optNodup : ((optDecls c).map (·.name.text)).Nodup
  /-- no two packets with the same name -/
  pktNodup : (packetNames c.defs).Nodup
  /-- at most one root packet -/
  oneRoot : rootCount c.defs ≤ 1
  /-- per packet: fields of the fragment (`char[n]` in range, MetaData types declared, a checksum field has a type or
  is named after a MetaData entry, padding only on `char[n]`), no two fields with the same name -/
  packets : ∀ p, TopDef.packet p ∈ c.defs → FlatPacket (metaNames c) p

theorem visitCst_flat (c : Cst) (h : WFFlat c) : wlp (visitCst c) (fun _ s' => s'.diags = []) {} := by
  rw [wlp_visitCst, metaLoop_eq, optLoop_eq]
  refine wlp_mono (metaLoop_flat (c.defs.flatMap entriesOf) {} {} Inv.empty rfl ⟨rfl, rfl⟩ h.metaDecl
    (by simpa [metaNames, metaEntries] using h.metaNodup)) ?_
  intro _ s1 ⟨hi1, hd1, hn1, hm1, ho1⟩
  have hmk : MetaKnown (metaNames c) s1 := by
    intro n hn
    rw [findMeta_isSome_iff, hm1]
    simpa [metaNames, metaEntries] using hn
  refine wlp_mono (optLoop_flat (c.defs.flatMap declsOf) {} s1 hi1 hd1 hn1 h.optOK ?_) ?_
  · rw [ho1]
    simpa [optDecls] using h.optNodup
  intro _ s2 ⟨hi2, hd2, hn2, hm2⟩
  refine wlp_mono (packetLoop_flat (metaNames c) c.defs s2 s2 ⟨hi2, rfl, ?_⟩ (hmk.fr hm2) h.packets ?_ ?_) ?_
  · intro p hp; rw [hn2.1] at hp; cases hp
  · rw [hn2.1]; simpa using h.pktNodup
  · rw [hn2.2]; simpa using h.oneRoot
  intro _ s3 q
  refine wlp_mono (resolveDeps_quiet s3 q.quiet) ?_
  intro _ s4 e
  subst e
  rw [q.diags, hd2]

end FinProtoc.Visit
