import FinProtoc.Proofs.VisitDiag
import FinProtoc.SpecOf
/-!
# The visitor's model state means the schema of the declarative reading

`schemaOf` reads a `Schema` off the store of the visitor model (`Visit.VState`) the way the generators read it
(`attrGetType` / `getBasicType`, the pad cell of a `char[n]` attribute or else the configured pad, `NewConfiguration`).
`visitCst_refines` walks through the phases of `Visit.visitCst` (the skeleton of `visitCst_flat`) with the
postcondition `schemaOf s = specOf c`.

Nothing here is executed.
-/
namespace FinProtoc.Visit
open FinProtoc FinProtoc.Dsl

/-! ## The abstraction function -/

/-- the byte a stored pad-char spelling stands for.  The model stores pad chars as spelled: `' '`, `'0'`, and NUL either
as a raw NUL between the quotes (attributes, `zchar[n]`) or with the backslash as written (the option's value) -/
def padByte (ch : String) : Option UInt8 :=
  if ch = "' '" then some 32 else if ch = "'0'" then some 48
  else if ch = "'\x00'" ∨ ch = "'\\x00'" then some 0 else none

def padOfCell (p : PadCell) : Option Pad := (padByte p.ch).map fun b => { ch := b, left := p.left }

/-- `NewConfiguration`'s result as a `Config` -/
def configOfM (m : MConfig) : Option Config := do
  let strPfx ← Scalar.ofName? m.str
  let listPfx ← Scalar.ofName? m.list
  let pad ← padOfCell m.pad
  pure { le := m.le, strPfx, listPfx, pad }

/-- a type spelling as the generators read it: through `getBasicType` -/
def scalarOfType (t : String) : Option Scalar := Scalar.ofName? (getBasicType t)

/-- a match key as stored (`decimalKey` for digits, a string literal as written) -/
def keyOfText (k : String) : Key :=
  if k.toList.head? = some '"' then .str (stripQuotes k).toUTF8.toList else .int (natOfDigits k)

/-- the packet an object attribute refers to, as `Field.GetType()` reads it -/
def objName (s : VState) (pkt : String) : RefP → String
  | .none => pkt
  | .named n => n
  | .inline pid => (s.ipackets[pid]?.map (·.name)).getD ""

/-- the kind of a field, read off its attribute cell -/
def kindOfAttr (s : VState) (cfg : Config) : AttrK → Option FKind
  | .basic t => (scalarOfType t).map .scalar
  | .fixed n none => some (.fixed n cfg.pad)
  | .fixed n (some p) => do let c ← s.pads[p]?; let pad ← padOfCell c; pure (.fixed n pad)
  | .dyn => some .dyn
  | .checksum t algo => (scalarOfType t).map (.checksum · algo)
  | .length t (some tgt) => (scalarOfType t).map (.lengthOf · tgt)
  | .object _ pkt ref => some (.obj (objName s pkt ref))
  | .match_ (some key) _ pairs => some (.matchOn key (pairs.map fun p => (keyOfText p.key, p.value)))
  | _ => none

def fieldOfM (s : VState) (cfg : Config) (f : MField) : Option Field := do
  let a ← f.attr
  let k ← s.attrs[a]?
  let kind ← kindOfAttr s cfg k
  pure { name := f.name, kind, rep := f.rep }

def packetOfM (s : VState) (cfg : Config) (p : MPacket) : Option Packet := do
  let fs ← p.fields.mapM (fieldOfM s cfg)
  pure { name := p.name, root := p.root, fields := fs }

/-- **The schema the visitor's state stands for**: the configuration of `NewConfiguration`, one packet per registered
packet, one field per `MField`.  (The anonymous packets of inline objects are not listed: see `DESIGN`.) -/
def schemaOf (s : VState) : Option Schema := do
  let cfg ← configOfM (configOfOptions s.options)
  let ps ← s.packets.mapM (packetOfM s cfg)
  pure { cfg, packets := ps }

/-! ## Spellings -/

/-- what the lexer makes a basic-type token of (`grammar/PacketDsl.g4`: CHAR, UINT8 … FLOAT64) -/
def spellings : List String :=
  ["u8", "uint8", "u16", "uint16", "u32", "uint32", "u64", "uint64", "i8", "int8", "i16", "int16", "i32", "int32",
   "i64", "int64", "f32", "float32", "f64", "float64", "char"]

theorem spellings_ok : ∀ x ∈ spellings, getBasicType x ∈ spellings ∧ Scalar.ofName? (getBasicType x) = Scalar.ofName? x ∧
    (Scalar.ofName? x).isSome = true := by decide +kernel

theorem mem_spellings {x : String} {sc : Scalar} (h : Scalar.ofName? x = some sc) : x ∈ spellings := by
  unfold Scalar.ofName? at h
  split at h <;> first | (simp [spellings]; done) | cases h

theorem scalarOfType_eq {x : String} {sc : Scalar} (h : Scalar.ofName? x = some sc) : scalarOfType x = some sc := by
  unfold scalarOfType
  rw [(spellings_ok x (mem_spellings h)).2.1, h]

theorem scalarOfType_idem {x : String} {sc : Scalar} (h : Scalar.ofName? x = some sc) :
    scalarOfType (getBasicType x) = some sc := by
  have h1 := spellings_ok x (mem_spellings h)
  unfold scalarOfType
  rw [(spellings_ok _ h1.1).2.1, h1.2.1, h]

/-- the pad character of a padding attribute as the model stores it -/
def padCharStored (ch : Option Tok) : String :=
  match ch with | some c => (if c.text = "'\\x00'" then "'\x00'" else c.text) | none => "' '"

theorem padByte_stored (t : String) (b : UInt8) (h : padCharByte t = some b) :
    padByte (if t = "'\\x00'" then "'\x00'" else t) = some b := by
  unfold padCharByte at h
  split at h
  · next e => subst e; cases h; decide
  · split at h
    · next e => subst e; cases h; decide
    · split at h
      · next e => subst e; cases h; decide
      · cases h

/-! ## Configuration -/

/-- every stored option is a documented one with an allowed value -/
def OptsOK (os : List (String × String)) : Prop :=
  ∀ n v, (n, v) ∈ os → ∃ vals, optionValues n = some vals ∧ (vals = [] ∨ v ∈ vals)

theorem mem_of_lookup {k v : String} : ∀ {os : List (String × String)}, os.lookup k = some v → (k, v) ∈ os
  | [], h => by cases h
  | (k', v') :: os, h => by
    rw [List.lookup_cons] at h
    split at h
    · next e =>
      cases h
      have : k = k' := by simpa using e
      subst this; exact List.mem_cons_self ..
    · exact List.mem_cons_of_mem _ (mem_of_lookup h)

theorem OptsOK.values {os : List (String × String)} (h : OptsOK os) {k : String} {vals : List String}
    (hk : optionValues k = some vals) (hne : vals ≠ []) : os.lookup k = none ∨ ∃ v, os.lookup k = some v ∧ v ∈ vals := by
  cases hl : os.lookup k with
  | none => exact .inl rfl
  | some v =>
    obtain ⟨vals', h1, h2⟩ := h k v (mem_of_lookup hl)
    rw [hk] at h1; cases h1
    rcases h2 with h2 | h2
    · exact absurd h2 hne
    · exact .inr ⟨v, rfl, h2⟩

theorem pfx_refines (os : List (String × String)) (h : OptsOK os) (k : String)
    (hk : optionValues k = some ["u8", "u16", "u32", "u64"]) :
    Scalar.ofName? ((os.lookup k).getD "u16") =
      some (match os.lookup k with | some v => (Scalar.ofName? v).getD .u16 | none => .u16) := by
  rcases h.values hk (by simp) with h1 | ⟨v, h1, h2⟩
  · rw [h1]; rfl
  · rw [h1]
    simp only [List.mem_cons, List.not_mem_nil, or_false] at h2
    rcases h2 with rfl | rfl | rfl | rfl <;> rfl

theorem bool_refines (os : List (String × String)) (h : OptsOK os) (k : String)
    (hk : optionValues k = some ["true", "false"]) :
    (match os.lookup k with | some v => v.toLower == "true" | none => false) = decide (os.lookup k = some "true") := by
  rcases h.values hk (by simp) with h1 | ⟨v, h1, h2⟩
  · rw [h1]; rfl
  · rw [h1]
    simp only [List.mem_cons, List.not_mem_nil, or_false] at h2
    rcases h2 with rfl | rfl <;> decide +kernel

theorem padchar_refines (os : List (String × String)) (h : OptsOK os)
    (hnul : os.lookup "FixedStringPadChar" ≠ some "'\x00'") :
    padByte ((os.lookup "FixedStringPadChar").getD "' '") =
      some (match os.lookup "FixedStringPadChar" with | some v => (padCharByte v).getD 32 | none => 32) := by
  rcases h.values (k := "FixedStringPadChar") rfl (by simp) with h1 | ⟨v, h1, h2⟩
  · rw [h1]; decide
  · rw [h1]
    simp only [List.mem_cons, List.not_mem_nil, or_false] at h2
    rcases h2 with rfl | rfl | rfl | rfl
    · decide
    · decide
    · exact absurd h1 hnul
    · decide

/-- `NewConfiguration` of the stored options is the declarative configuration of the same list -/
theorem config_refines (os : List (String × String)) (h : OptsOK os)
    (hnul : os.lookup "FixedStringPadChar" ≠ some "'\x00'") :
    configOfM (configOfOptions os) = some (configOf os) := by
  have h1 := pfx_refines os h "StringPrefixLenType" rfl
  have h2 := pfx_refines os h "ArrayPrefixLenType" rfl
  have h3 := bool_refines os h "LittleEndian" rfl
  have h4 := bool_refines os h "FixedStringPadFromLeft" rfl
  have h5 := padchar_refines os h hnul
  have hp : (configOfOptions os).pad =
      { ch := (os.lookup "FixedStringPadChar").getD "' '",
        left := (match os.lookup "FixedStringPadFromLeft" with | some v => v.toLower == "true" | none => false) } := by
    have key : ∀ (b : Bool) (pc : String), (if (b || decide (pc ≠ "' '")) = true then ({ ch := pc, left := b } : PadCell)
        else { ch := "' '", left := false }) = { ch := pc, left := b } := by
      intro b pc
      by_cases hc : (b || decide (pc ≠ "' '")) = true
      · rw [if_pos hc]
      · rw [if_neg hc]
        simp only [Bool.or_eq_true, decide_eq_true_eq, not_or, Bool.not_eq_true, ne_eq, Decidable.not_not] at hc
        rw [hc.1, hc.2]
    exact key _ _
  unfold configOfM padOfCell
  rw [hp]
  dsimp only
  rw [h5]
  show (Scalar.ofName? ((os.lookup "StringPrefixLenType").getD "u16")).bind (fun strPfx =>
    (Scalar.ofName? ((os.lookup "ArrayPrefixLenType").getD "u16")).bind fun listPfx => _) = _
  rw [h1, h2]
  show some _ = some _
  unfold configOf
  have hle : (configOfOptions os).le = decide (os.lookup "LittleEndian" = some "true") := h3
  rw [hle, h4]
  simp
  exact ⟨rfl, rfl, rfl⟩

def semKeys : List String :=
  ["LittleEndian", "StringPrefixLenType", "ArrayPrefixLenType", "FixedStringPadChar", "FixedStringPadFromLeft"]

theorem configOf_congr (os os' : List (String × String)) (h : ∀ k, k ∈ semKeys → os.lookup k = os'.lookup k) :
    configOf os = configOf os' := by
  unfold configOf
  simp only [h "LittleEndian" (by decide), h "StringPrefixLenType" (by decide), h "ArrayPrefixLenType" (by decide),
    h "FixedStringPadChar" (by decide), h "FixedStringPadFromLeft" (by decide)]

theorem lookup_map_congr (f g : OptDecl → String) (k : String) :
    ∀ (l : List OptDecl), (∀ od, od ∈ l → od.name.text = k → f od = g od) →
      (l.map fun od => (od.name.text, f od)).lookup k = (l.map fun od => (od.name.text, g od)).lookup k
  | [], _ => rfl
  | od :: l, h => by
    simp only [List.map_cons, List.lookup_cons]
    by_cases e : k = od.name.text
    · simp only [e, beq_self_eq_true]
      rw [h od (List.mem_cons_self ..) e.symm]
    · have : (k == od.name.text) = false := by simpa using e
      rw [this]
      exact lookup_map_congr f g k l (fun od' h' => h od' (List.mem_cons_of_mem _ h'))

/-- the declarative reading takes the value of an option exactly as the visitor passes it to `AddOption` -/
theorem optValueText_eq (od : OptDecl) : optValueText od = optValueOf od := rfl

theorem optionsOf_eq (c : Cst) : optionsOf c = (optDecls c).map fun od => (od.name.text, optValueOf od) := by
  have e : (fun d : OptDecl => (d.name.text, optValueText d)) = fun od => (od.name.text, optValueOf od) := rfl
  unfold optionsOf optDecls
  rw [e]
  induction c.defs with
  | nil => rfl
  | cons d l ih =>
    cases d <;> simp [declsOf, ih]

/-! ## `mapM` in `Option` -/

theorem mapM_cons_some {f : α → Option β} {a : α} {l : List α} {b : β} {bs : List β}
    (ha : f a = some b) (hl : l.mapM f = some bs) : (a :: l).mapM f = some (b :: bs) := by
  rw [List.mapM_cons, ha, hl]; rfl

theorem mapM_cons_inv {f : α → Option β} {a : α} {l : List α} {cs : List β}
    (h : (a :: l).mapM f = some cs) : ∃ b bs, f a = some b ∧ l.mapM f = some bs ∧ cs = b :: bs := by
  rw [List.mapM_cons] at h
  cases ha : f a with
  | none => rw [ha] at h; cases h
  | some b =>
    cases hl : l.mapM f with
    | none => rw [ha, hl] at h; cases h
    | some bs => rw [ha, hl] at h; cases h; exact ⟨b, bs, rfl, rfl, rfl⟩

theorem mapM_snoc {f : α → Option β} : ∀ {l : List α} {a : α} {bs : List β} {b : β},
    l.mapM f = some bs → f a = some b → (l ++ [a]).mapM f = some (bs ++ [b])
  | [], a, bs, b, hl, ha => by
    cases hl
    exact mapM_cons_some ha rfl
  | x :: l, a, cs, b, hl, ha => by
    obtain ⟨y, bs, h1, h2, rfl⟩ := mapM_cons_inv hl
    exact mapM_cons_some h1 (mapM_snoc h2 ha)

theorem mapM_mono {f f' : α → Option β} : ∀ {l : List α} {bs : List β}, l.mapM f = some bs →
    (∀ a, a ∈ l → ∀ b, f a = some b → f' a = some b) → l.mapM f' = some bs
  | [], bs, hl, _ => by cases hl; rfl
  | x :: l, cs, hl, h => by
    obtain ⟨y, bs, h1, h2, rfl⟩ := mapM_cons_inv hl
    exact mapM_cons_some (h x (List.mem_cons_self ..) y h1)
      (mapM_mono h2 (fun a ha => h a (List.mem_cons_of_mem _ ha)))

theorem flatten_map_singleton (l : List α) : (l.map fun x => [x]).flatten = l := by
  induction l with
  | nil => rfl
  | cons x l ih => simp [ih]

/-! ## The store relations -/

/-- pad cells are only added -/
def PresP (s s' : VState) : Prop := ∀ (i : Nat) (c : PadCell), s.pads[i]? = some c → s'.pads[i]? = some c

theorem PresP.refl (s : VState) : PresP s s := fun _ _ h => h
theorem PresP.trans {s1 s2 s3 : VState} (h1 : PresP s1 s2) (h2 : PresP s2 s3) : PresP s1 s3 :=
  fun i c h => h2 i c (h1 i c h)
theorem PresP.of_eq {s s' : VState} (h : s'.pads = s.pads) : PresP s s' := by
  intro i c hc; rw [h]; exact hc
theorem PresP.push (s s' : VState) (c : PadCell) (h : s'.pads = s.pads.push c) : PresP s s' := by
  intro i c' hc; rw [h]; exact getElem?_push_of_some hc

/-- the attribute cell `k` holds the declared type `t` (a `zchar[n]` carries its own NUL pad cell) -/
inductive AttrDTy (s : VState) : AttrK → DTy → Prop
  | basic (x : String) (sc : Scalar) : Scalar.ofName? x = some sc → AttrDTy s (.basic x) (.scalar sc)
  | fixed (n : Nat) : AttrDTy s (.fixed n none) (.fixed n false)
  | zfixed (n p : Nat) : s.pads[p]? = some { ch := "'\x00'", left := false } → AttrDTy s (.fixed n (some p)) (.fixed n true)
  | dyn : AttrDTy s .dyn .dyn

theorem AttrDTy.mono {s s' : VState} {k : AttrK} {t : DTy} (h : AttrDTy s k t) (hp : PresP s s') : AttrDTy s' k t := by
  cases h with
  | basic x sc h => exact .basic x sc h
  | fixed n => exact .fixed n
  | zfixed n p h => exact .zfixed n p (hp _ _ h)
  | dyn => exact .dyn

theorem AttrDTy.plain {s : VState} {k : AttrK} {t : DTy} (h : AttrDTy s k t) : plain k := by
  cases h <;> trivial

theorem AttrDTy.fixed' {s : VState} {k : AttrK} {n : Nat} {z : Bool} (h : AttrDTy s k (.fixed n z)) : isFixedK k := by
  cases h <;> trivial

/-- the cell of a declared type reads as the kind the declarative reading gives the type (no padding attribute) -/
theorem AttrDTy.kind {s : VState} {k : AttrK} {t : DTy} (h : AttrDTy s k t) (cfg : Config) :
    kindOfAttr s cfg k = some (kindOfDTy cfg none t) := by
  cases h with
  | basic x sc h =>
    show (scalarOfType x).map FKind.scalar = _
    rw [scalarOfType_eq h]; rfl
  | fixed n => rfl
  | zfixed n p h =>
    show (do let c ← s.pads[p]?; let pad ← padOfCell c; pure (FKind.fixed n pad)) = _
    rw [h]; rfl
  | dyn => rfl

theorem kindOfAttr_mono {s s' : VState} {cfg : Config} {k : AttrK} {x : FKind} (hq : quiet k) (hp : PresP s s')
    (h : kindOfAttr s cfg k = some x) : kindOfAttr s' cfg k = some x := by
  cases k <;> try exact hq.elim
  · exact h
  · exact h
  · next n p =>
    cases p with
    | none => exact h
    | some p =>
      change (do let c ← s.pads[p]?; let pad ← padOfCell c; pure (FKind.fixed n pad)) = _ at h
      show (do let c ← s'.pads[p]?; let pad ← padOfCell c; pure (FKind.fixed n pad)) = _
      cases hc : s.pads[p]? with
      | none => rw [hc] at h; cases h
      | some c => rw [hp _ _ hc]; rw [hc] at h; exact h
  · exact h

/-- the model field `f` reads as the schema field `g`, through a quiet cell -/
def FRel (s : VState) (cfg : Config) (f : MField) (g : Field) : Prop :=
  ∃ (a : Nat) (k : AttrK), f.attr = some a ∧ s.attrs[a]? = some k ∧ quiet k ∧
    kindOfAttr s cfg k = some g.kind ∧ g.name = f.name ∧ g.rep = f.rep

theorem FRel.fieldOfM {s : VState} {cfg : Config} {f : MField} {g : Field} (h : FRel s cfg f g) :
    fieldOfM s cfg f = some g := by
  obtain ⟨a, k, h1, h2, _, h4, h5, h6⟩ := h
  unfold Visit.fieldOfM
  rw [h1]
  show (s.attrs[a]?).bind _ = _
  rw [h2]
  show (kindOfAttr s cfg k).bind _ = _
  rw [h4]
  show some _ = some _
  rw [← h5, ← h6]

theorem FRel.kind {s : VState} {cfg : Config} {f : MField} {g : Field} (h : FRel s cfg f g) : Kind f s quiet := by
  obtain ⟨a, k, h1, h2, h3, _⟩ := h
  exact ⟨a, k, h1, h2, h3⟩

theorem fieldOfM_mono {s s' : VState} {cfg : Config} {f : MField} {g : Field} (hk : Kind f s quiet)
    (hp : Pres s s') (hpp : PresP s s') (h : fieldOfM s cfg f = some g) : fieldOfM s' cfg f = some g := by
  obtain ⟨a, k, h1, h2, h3⟩ := hk
  unfold fieldOfM at h ⊢
  rw [h1] at h ⊢
  change (s.attrs[a]?).bind _ = _ at h
  show (s'.attrs[a]?).bind _ = _
  rw [h2] at h
  rw [hp.keep a k h2 (quiet_stable h3)]
  change (kindOfAttr s cfg k).bind _ = _ at h
  show (kindOfAttr s' cfg k).bind _ = _
  cases hx : kindOfAttr s cfg k with
  | none => rw [hx] at h; cases h
  | some x => rw [kindOfAttr_mono h3 hpp hx]; rw [hx] at h; exact h

theorem fieldsOfM_mono {s s' : VState} {cfg : Config} {fs : List MField} {gs : List Field}
    (hk : ∀ f, f ∈ fs → Kind f s quiet) (hp : Pres s s') (hpp : PresP s s')
    (h : fs.mapM (fieldOfM s cfg) = some gs) : fs.mapM (fieldOfM s' cfg) = some gs :=
  mapM_mono h (fun f hf _ hg => fieldOfM_mono (hk f hf) hp hpp hg)

theorem packetOfM_mono {s s' : VState} {cfg : Config} {p : MPacket} {q : Packet}
    (hk : ∀ f, f ∈ p.fields → Kind f s quiet) (hp : Pres s s') (hpp : PresP s s')
    (h : packetOfM s cfg p = some q) : packetOfM s' cfg p = some q := by
  unfold packetOfM at h ⊢
  cases hx : p.fields.mapM (fieldOfM s cfg) with
  | none => rw [hx] at h; cases h
  | some gs => rw [fieldsOfM_mono hk hp hpp hx]; rw [hx] at h; exact h

/-- the registered MetaData entries, in order, hold the declared types of the declarative reading -/
def MetaRel (s : VState) : List MMeta → List (String × DTy) → Prop
  | [], [] => True
  | m :: ms, d :: ds => (m.name = d.1 ∧ ∃ (a : Nat) (k : AttrK), m.attr = some a ∧ s.attrs[a]? = some k ∧ AttrDTy s k d.2) ∧
      MetaRel s ms ds
  | _, _ => False

theorem MetaRel.mono {s s' : VState} (hp : Pres s s') (hpp : PresP s s') :
    ∀ {ms : List MMeta} {ds : List (String × DTy)}, MetaRel s ms ds → MetaRel s' ms ds
  | [], [], _ => trivial
  | [], _ :: _, h => h.elim
  | _ :: _, [], h => h.elim
  | _ :: _, _ :: _, ⟨⟨h1, a, k, h2, h3, h4⟩, h5⟩ =>
    ⟨⟨h1, a, k, h2, hp.keep a k h3 (plain_stable h4.plain), h4.mono hpp⟩, MetaRel.mono hp hpp h5⟩

theorem MetaRel.snoc {s : VState} {m : MMeta} {d : String × DTy}
    (hm : m.name = d.1 ∧ ∃ (a : Nat) (k : AttrK), m.attr = some a ∧ s.attrs[a]? = some k ∧ AttrDTy s k d.2) :
    ∀ {ms : List MMeta} {ds : List (String × DTy)}, MetaRel s ms ds → MetaRel s (ms ++ [m]) (ds ++ [d])
  | [], [], _ => ⟨hm, trivial⟩
  | [], _ :: _, h => h.elim
  | _ :: _, [], h => h.elim
  | _ :: _, _ :: _, ⟨h1, h2⟩ => ⟨h1, MetaRel.snoc hm h2⟩

theorem MetaRel.find {s : VState} {n : String} {m : MMeta} :
    ∀ {ms : List MMeta} {ds : List (String × DTy)}, MetaRel s ms ds → ms.find? (·.name = n) = some m →
      ∃ (t : DTy) (a : Nat) (k : AttrK), ds.lookup n = some t ∧ m.attr = some a ∧ s.attrs[a]? = some k ∧ AttrDTy s k t
  | [], _, _, hf => by cases hf
  | _ :: _, [], h, _ => h.elim
  | m' :: ms, d :: ds, ⟨⟨h1, a, k, h2, h3, h4⟩, h5⟩, hf => by
    rw [List.find?_cons] at hf
    rw [List.lookup_cons]
    by_cases e : m'.name = n
    · have e1 : decide (m'.name = n) = true := by simpa using e
      rw [e1] at hf
      cases hf
      have e2 : (n == d.1) = true := by rw [← h1, ← e]; simp
      rw [e2]
      exact ⟨d.2, a, k, rfl, h2, h3, h4⟩
    · have e1 : decide (m'.name = n) = false := by simpa using e
      rw [e1] at hf
      have e2 : (n == d.1) = false := by
        rw [← h1]; simpa using fun h => e h.symm
      rw [e2]
      exact MetaRel.find h5 hf

/-! ## The declarative reading of a flat field -/

def padStep (acc : Option Pad) (a : Attr) : Option Pad :=
  match a with
  | .pad kw _ ch _ =>
    some { ch := match ch with | some c => (padCharByte c.text).getD 32 | none => 32,
           left := (kw.text.splitOn "left").length > 1 }
  | _ => acc

theorem padOfAttrs_eq (attrs : List Attr) : padOfAttrs attrs = attrs.foldl padStep none := rfl

theorem noLenCalc {F : Prop} (attrs : List Attr) (h : ∀ a, a ∈ attrs → AttrOK F a) :
    lenAttrOf attrs = none ∧ calcAttrOf attrs = none := by
  constructor
  · unfold lenAttrOf
    apply foldl_id
    intro a ha b
    cases a <;> first | rfl | exact (h _ ha).elim
  · unfold calcAttrOf
    apply foldl_id
    intro a ha b
    cases a <;> first | rfl | exact (h _ ha).elim

/-- what the declarative reading makes of a field of the flat fragment: its name, `repeat`, and its kind as a function of
the padding the prefix attributes resolve to -/
structure SpecF (cfg : Config) (ds : List (String × DTy)) (fd : FieldDef) (nm : String) (r : Bool)
    (kf : Option Pad → FKind) : Prop where
  eq : ∀ attrs, lenAttrOf attrs = none → calcAttrOf attrs = none →
    fieldOf cfg ds attrs fd = some ({ name := nm, kind := kf (padOfAttrs attrs), rep := r }, [])
  fixed : fdFixed fd → ∃ n z, ∀ pad, kf pad = kindOfDTy cfg pad (.fixed n z)

theorem specF_metaF (cfg : Config) (ds : List (String × DTy)) (rep : Option Tok) (d : MetaDecl) (t : DTy)
    (ht : dtyOf d.ty = some t) :
    SpecF cfg ds (.metaF rep d) d.name.text rep.isSome (fun pad => kindOfDTy cfg pad t) := by
  constructor
  · intro attrs hl hc
    rw [fieldOf, ht]
    show some _ = some _
    rw [hl, hc]
    generalize kindOfDTy cfg (padOfAttrs attrs) t = k0
    cases k0 <;> rfl
  · intro hf
    cases hty : d.ty with
    | basic x => rw [show fdFixed (.metaF rep d) = tyFixed d.ty from rfl, hty] at hf; exact hf.elim
    | dyn x => rw [show fdFixed (.metaF rep d) = tyFixed d.ty from rfl, hty] at hf; exact hf.elim
    | fixed kw n rb =>
      rw [hty] at ht
      cases ht
      exact ⟨_, _, fun _ => rfl⟩

theorem specF_obj (cfg : Config) (ds : List (String × DTy)) (rep : Option Tok) (ft : Tok) (fn doc : Option Tok) (comma : Tok)
    (t : DTy) (ht : ds.lookup ft.text = some t) :
    SpecF cfg ds (.obj rep ft fn doc comma) (match fn with | some n => n.text | none => ft.text) rep.isSome
      (fun pad => kindOfDTy cfg pad t) := by
  constructor
  · intro attrs hl hc
    simp only [fieldOf, ht]
    rw [hl, hc]
    generalize kindOfDTy cfg (padOfAttrs attrs) t = k0
    cases k0 <;> rfl
  · intro hf; exact hf.elim

theorem specF_cks (cfg : Config) (ds : List (String × DTy)) (d : CkDecl) (sc : Scalar)
    (hs : scalarFor ds d.ty d.name.text = some sc) :
    SpecF cfg ds (.cks d) d.name.text false (fun _ => .checksum sc d.attr.from_.text) := by
  constructor
  · intro attrs _ _
    rw [fieldOf, hs]
    rfl
  · intro hf; exact hf.elim

/-! ## The visitor on a flat field -/

theorem tyAttr_ref (ty : Ty) (name : String) (s : VState) (t : DTy) (hok : tyOK ty) (ht : dtyOf ty = some t) :
    wlp (tyAttr ty name) (fun a s' => PresP s s' ∧ ∃ k, s'.attrs[a]? = some k ∧ AttrDTy s' k t) s := by
  unfold tyAttr
  split
  · next tok =>
    wls
    refine ⟨PresP.of_eq rfl, _, getElem?_push_size _ _, ?_⟩
    change (scalarOfTok tok).map DTy.scalar = some t at ht
    unfold scalarOfTok at ht
    cases hsc : Scalar.ofName? tok.text with
    | none => rw [hsc] at ht; cases ht
    | some sc => rw [hsc] at ht; cases ht; exact .basic _ _ hsc
  · next kw n rb =>
    have hok' : natOfDigits n.text ≤ 2 ^ 31 - 1 := hok
    have hc : ¬ (natOfDigits n.text > 2 ^ 31 - 1) := Nat.not_lt.2 hok'
    simp only [hc, if_false]
    have hat : atoi n.text = natOfDigits n.text := by
      unfold atoi; exact Nat.min_eq_left (by omega)
    cases ht
    split
    · next hz =>
      wls
      have hz' : (kw.kind == TK.zcharLb) = true := by simpa using hz
      refine ⟨PresP.push _ _ _ rfl, _, getElem?_push_size _ _, ?_⟩
      rw [hat, hz']
      exact .zfixed _ _ (getElem?_push_size _ _)
    · next hz =>
      wls
      have hz' : (kw.kind == TK.zcharLb) = false := by simpa using hz
      refine ⟨PresP.of_eq rfl, _, getElem?_push_size _ _, ?_⟩
      rw [hat, hz']
      exact .fixed _
  · wls
    cases ht
    exact ⟨PresP.of_eq rfl, _, getElem?_push_size _ _, .dyn⟩

/-- the registered MetaData names are exactly `mn` -/
def MetaExact (mn : List String) (s : VState) : Prop := ∀ n, (findMeta s n).isSome = true ↔ n ∈ mn

theorem MetaExact.known {mn : List String} {s : VState} (h : MetaExact mn s) : MetaKnown mn s := fun n hn => (h n).2 hn

theorem MetaExact.fr {mn : List String} {s s' : VState} (h : MetaExact mn s) (hf : s'.metas = s.metas) : MetaExact mn s' := by
  intro n
  have := h n
  unfold findMeta at *
  rw [hf]; exact this

/-- side conditions on a field definition under which the two readings agree: the type token is spelled as the lexer
spells it; a checksum field has a scalar type -/
def FdAgree (_mn : List String) (ds : List (String × DTy)) : FieldDef → Prop
  | .metaF _ d => (dtyOf d.ty).isSome = true
  | .cks d => (scalarFor ds d.ty d.name.text).isSome = true
  | _ => True

/-- invariant of the attribute fold: the field's cell reads as the kind the declarative reading gives under padding `acc` -/
def ARel (s : VState) (cfg : Config) (F : Prop) (nm : String) (r : Bool) (kf : Option Pad → FKind) (acc : Option Pad)
    (f : MField) : Prop :=
  f.name = nm ∧ f.rep = r ∧ ∃ (a : Nat) (k : AttrK), f.attr = some a ∧ s.attrs[a]? = some k ∧ QF F k ∧
    kindOfAttr s cfg k = some (kf acc)

theorem visitFieldDef_ref (cfg : Config) (mn : List String) (ds : List (String × DTy)) (fd : FieldDef) (s : VState)
    (hm : MetaExact mn s) (hr : MetaRel s s.metas ds) (hf : FlatFd mn fd) (hg : FdAgree mn ds fd) :
    wlp (visitFieldDef fd) (fun f s' => PresP s s' ∧ ∃ nm r kf, SpecF cfg ds fd nm r kf ∧
      ARel s' cfg (fdFixed fd) nm r kf none f) s := by
  cases fd with
  | obj rep ft fn doc comma =>
    rw [visitFieldDef]
    unfold visitObj
    wls
    split
    · next m hm' =>
      wls
      obtain ⟨t, a, k, h1, h2, h3, h4⟩ := hr.find hm'
      exact ⟨PresP.refl _, _, _, _, specF_obj cfg ds rep ft fn doc comma t h1, rfl, rfl, a, k, h2, h3,
        ⟨plain_quiet h4.plain, fun hh => hh.elim⟩, h4.kind cfg⟩
    · next hnone =>
      have := hm.known _ hf
      rw [hnone] at this; cases this
  | cks d =>
    obtain ⟨sc, hsc⟩ := Option.isSome_iff_exists.1 hg
    have hsc0 := hsc
    rw [visitFieldDef]
    unfold visitCks metaTypeOf
    cases hty : d.ty with
    | some t =>
      -- a written type wins
      rw [hty] at hsc
      simp only [Option.isSome_some, if_true]
      wls
      change (match dtyOf t with | some (.scalar s) => some s | _ => none) = some sc at hsc
      cases t with
      | basic tok =>
        change (match (scalarOfTok tok).map DTy.scalar with | some (.scalar s) => some s | _ => none) = some sc at hsc
        unfold scalarOfTok at hsc
        cases hx : Scalar.ofName? tok.text with
        | none => rw [hx] at hsc; cases hsc
        | some sc' =>
          rw [hx] at hsc
          cases hsc
          refine ⟨PresP.of_eq rfl, _, _, _, specF_cks cfg ds d _ hsc0, rfl, rfl,
            _, _, rfl, getElem?_push_size _ _, ⟨trivial, fun hh => hh.elim⟩, ?_⟩
          show (scalarOfType tok.text).map _ = _
          rw [scalarOfType_eq hx]; rfl
      | fixed kw n rb => cases hsc
      | dyn tok => cases hsc
    | none =>
      rw [hty] at hsc
      simp only [Option.isSome_none, Bool.false_eq_true, if_false]
      wls
      split
      · next m hm' =>
        -- no type written: the MetaData entry of the field's own name
        obtain ⟨t, a, k, h1, h2, h3, h4⟩ := hr.find hm'
        change (match ds.lookup d.name.text with | some (.scalar s) => some s | _ => none) = some sc at hsc
        rw [h1] at hsc
        have ht : t = .scalar sc := by
          cases t <;> first | (cases hsc; rfl) | cases hsc
        subst ht
        cases h4 with
        | basic x _ hx =>
          rw [h2]
          show wlp (match s.attrs[a]? with | some a => pure (attrGetType a) | none => throw _) _ s
          rw [h3]
          wls
          refine ⟨PresP.of_eq rfl, _, _, _, specF_cks cfg ds d sc hsc0, rfl, rfl,
            _, _, rfl, getElem?_push_size _ _, ⟨trivial, fun hh => hh.elim⟩, ?_⟩
          show (scalarOfType (getBasicType x)).map _ = _
          rw [scalarOfType_idem hx]; rfl
      · next hnone =>
        rcases hf with hf | hf
        · rw [hty] at hf; cases hf
        · have := (hm _).2 hf
          rw [hnone] at this; cases this
  | metaF rep d =>
    obtain ⟨t, ht⟩ := Option.isSome_iff_exists.1 hg
    rw [visitFieldDef]
    unfold visitMetaF
    rw [wlp_bind]
    refine wlp_mono (wlp_and (tyAttr_ref d.ty d.name.text s t hf ht) (tyAttr_flat d.ty d.name.text s hf)) ?_
    intro a s1 ⟨⟨hp, k, h2, h3⟩, _, k', h2', _, h4⟩
    rw [h2] at h2'; cases h2'
    wls
    exact ⟨hp, _, _, _, specF_metaF cfg ds rep d t ht, rfl, rfl, a, k, rfl, h2, ⟨plain_quiet h3.plain, h4⟩, h3.kind cfg⟩
  | iner rep name lb fields rb comma => exact hf.elim
  | len d => exact hf.elim
  | match_ d comma => exact hf.elim

/-- the pad character of a padding attribute is spelled as the lexer spells it -/
def padLex : Attr → Prop
  | .pad _ _ (some c) _ => (padCharByte c.text).isSome = true
  | _ => True

theorem fixed_len_of_kind {s : VState} {cfg : Config} {n : Nat} {po : Option Nat} {n' : Nat} {pd : Pad}
    (h : kindOfAttr s cfg (.fixed n po) = some (.fixed n' pd)) : n = n' := by
  cases po with
  | none =>
    change some (FKind.fixed n cfg.pad) = _ at h
    injection h with h; injection h
  | some p =>
    change (do let c ← s.pads[p]?; let pad ← padOfCell c; pure (FKind.fixed n pad)) = _ at h
    cases hc : s.pads[p]? with
    | none => rw [hc] at h; cases h
    | some c =>
      rw [hc] at h
      change (padOfCell c).bind _ = _ at h
      cases hpc : padOfCell c with
      | none => rw [hpc] at h; cases h
      | some pc =>
        rw [hpc] at h
        change some (FKind.fixed n pc) = _ at h
        injection h with h; injection h

/-- the pad byte the declarative reading gives a padding attribute -/
def padCharSpec (ch : Option Tok) : UInt8 :=
  match ch with | some c => (padCharByte c.text).getD 32 | none => 32

theorem padByte_attr (ch : Option Tok) (hl : ∀ c, ch = some c → (padCharByte c.text).isSome = true) :
    padByte (padCharStored ch) = some (padCharSpec ch) := by
  cases ch with
  | none => decide
  | some c =>
    obtain ⟨b, hb'⟩ := Option.isSome_iff_exists.1 (hl c rfl)
    show padByte (if c.text = "'\\x00'" then "'\x00'" else c.text) = some ((padCharByte c.text).getD 32)
    rw [padByte_stored _ _ hb', hb']; rfl

theorem attrStep_ref (cfg : Config) (F : Prop) (nm : String) (r : Bool) (kf : Option Pad → FKind)
    (hF : F → ∃ n z, ∀ pad, kf pad = kindOfDTy cfg pad (.fixed n z)) (fld : MField) (a : Attr) (s : VState)
    (acc : Option Pad) (hk : ARel s cfg F nm r kf acc fld) (ha : AttrOK F a) (hl : padLex a) :
    wlp (attrStep fld a) (fun f' s' => PresP s s' ∧ ARel s' cfg F nm r kf (padStep acc a) f') s := by
  obtain ⟨hn, hr, a0, k, h1, h2, h3, h4⟩ := hk
  unfold attrStep
  split
  · exact ha.elim
  · exact ha.elim
  · next kw lp ch rp =>
    wls
    have hb : fld.attr.bind (s.attrs[·]?) = some k := by rw [h1]; exact h2
    split
    · next n po heq =>
      rw [hb] at heq
      cases heq
      wls
      obtain ⟨n', z, hkf⟩ := hF ha
      have hnn : n = n' := fixed_len_of_kind (h4.trans (by rw [hkf]; rfl))
      subst hnn
      refine ⟨PresP.push _ _ _ rfl, hn, hr, _, _, rfl, getElem?_push_size _ _, ⟨trivial, fun _ => trivial⟩, ?_⟩
      rw [hkf]
      show (do let c ← (s.pads.push _)[s.pads.size]?; let pad ← padOfCell c; pure (FKind.fixed n pad)) = _
      rw [getElem?_push_size]
      show (padOfCell { ch := padCharStored ch, left := _ }).bind _ = _
      unfold padOfCell
      dsimp only
      rw [padByte_attr ch (fun c hc => by subst hc; exact hl)]
      rfl
    · next hne =>
      exfalso
      have := h3.2 ha
      cases k <;> first | exact this.elim | exact hne _ _ hb
  · wls
    exact ⟨PresP.refl _, hn, hr, a0, k, h1, h2, h3, h4⟩

theorem attrs_ref (cfg : Config) (F : Prop) (nm : String) (r : Bool) (kf : Option Pad → FKind)
    (hF : F → ∃ n z, ∀ pad, kf pad = kindOfDTy cfg pad (.fixed n z)) :
    ∀ (attrs : List Attr) (fld : MField) (s : VState) (acc : Option Pad), ARel s cfg F nm r kf acc fld →
      (∀ a, a ∈ attrs → AttrOK F a) → (∀ a, a ∈ attrs → padLex a) →
      wlp (attrs.foldlM attrStep fld) (fun f' s' => PresP s s' ∧ ARel s' cfg F nm r kf (attrs.foldl padStep acc) f') s
  | [], fld, s, acc, h, _, _ => by rw [List.foldlM_nil, wlp_pure]; exact ⟨PresP.refl _, h⟩
  | a :: attrs, fld, s, acc, h, ha, hl => by
    rw [List.foldlM_cons, wlp_bind]
    refine wlp_mono (attrStep_ref cfg F nm r kf hF fld a s acc h (ha a (List.mem_cons_self ..)) (hl a (List.mem_cons_self ..))) ?_
    intro f1 s1 ⟨hp, h1⟩
    refine wlp_mono (attrs_ref cfg F nm r kf hF attrs f1 s1 _ h1 (fun a' ha' => ha a' (List.mem_cons_of_mem _ ha'))
      (fun a' ha' => hl a' (List.mem_cons_of_mem _ ha'))) ?_
    intro f2 s2 ⟨hp2, h2⟩
    exact ⟨hp.trans hp2, h2⟩

/-- side conditions on a field (with its prefix attributes) under which the two readings agree -/
structure FieldAgree (mn : List String) (ds : List (String × DTy)) (f : FieldWA) : Prop where
  fd : FdAgree mn ds f.fd
  pad : ∀ a, a ∈ f.attrs → padLex a

/-- **One field.**  The visitor's field reads (through `fieldOfM`, in the state it leaves) as the field of the declarative
reading. -/
theorem visitFieldWA_ref (cfg : Config) (mn : List String) (ds : List (String × DTy)) (f : FieldWA) (s : VState)
    (hm : MetaExact mn s) (hr : MetaRel s s.metas ds) (hf : FlatField mn f) (hg : FieldAgree mn ds f) :
    wlp (visitFieldWA f) (fun fld s' => PresP s s' ∧ ∃ g, fieldOf cfg ds f.attrs f.fd = some (g, []) ∧ FRel s' cfg fld g) s := by
  unfold visitFieldWA
  rw [wlp_bind]
  refine wlp_mono (visitFieldDef_ref cfg mn ds f.fd s hm hr hf.fd hg.fd) ?_
  intro f1 s1 ⟨hp, nm, r, kf, hs, h1⟩
  refine wlp_mono (attrs_ref cfg (fdFixed f.fd) nm r kf hs.fixed f.attrs f1 s1 none h1 (fun a ha => hf.attrs a ha) hg.pad) ?_
  intro f2 s2 ⟨hp2, hn, hr2, a, k, h2, h3, h4, h5⟩
  obtain ⟨hl, hc⟩ := noLenCalc f.attrs (fun a ha => hf.attrs a ha)
  refine ⟨hp.trans hp2, _, hs.eq f.attrs hl hc, a, k, h2, h3, h4.1, ?_, hn.symm, hr2.symm⟩
  rw [padOfAttrs_eq]
  exact h5

/-! ## The first loop of `VisitPacketDefinition`, the packet, the packet loop -/

/-- carried through the first loop: the facts of `loop1_flat`, and the fields so far read as `gs` -/
structure R1 (cfg : Config) (s0 : VState) (gs : List Field) (acc : Acc1) (s : VState) : Prop where
  q : Q1 s0 acc s
  presP : PresP s0 s
  fields : acc.1.mapM (fieldOfM s cfg) = some gs

theorem loop1_ref (cfg : Config) (mn : List String) (ds : List (String × DTy)) (r : Bool) (pn : String) :
    ∀ (fs : List FieldWA) (acc : Acc1) (s0 s : VState) (gs0 : List Field), R1 cfg s0 gs0 acc s → MetaExact mn s →
      MetaRel s s.metas ds → (∀ f, f ∈ fs → FlatField mn f) → (∀ f, f ∈ fs → FieldAgree mn ds f) →
      (acc.1.map (·.name) ++ fs.map (fun f => fieldName f.fd)).Nodup →
      wlp (fs.foldlM (pktStep1 r pn) acc) (fun acc' s' => ∃ gs, R1 cfg s0 (gs0 ++ gs) acc' s' ∧
        fs.mapM (fun f => fieldOf cfg ds f.attrs f.fd) = some (gs.map (·, []))) s
  | [], acc, s0, s, gs0, q, _, _, _, _, _ => by
    rw [List.foldlM_nil, wlp_pure]
    exact ⟨[], by rw [List.append_nil]; exact q, rfl⟩
  | f :: fs, acc, s0, s, gs0, R, hm, hr, hf, hg, hn => by
    have q := R.q
    rw [List.foldlM_cons, wlp_bind, pktStep1_eq, wlp_bind]
    have hff := hf f (List.mem_cons_self ..)
    refine wlp_mono (wlp_and (wlp_and (wlp_and (wp_to_wlp (visitFieldWA_spec f s q.inv)) ((visitFieldWA_frames f).out s))
      (wlp_and (visitFieldWA_len f s q.inv) (visitFieldWA_flat mn f s q.inv hm.known hff)))
      (visitFieldWA_ref cfg mn ds f s hm hr hff (hg f (List.mem_cons_self ..)))) ?_
    intro fld s1 ⟨⟨⟨⟨hi, hp, _⟩, hfr⟩, ⟨hname, _⟩, hd, hk⟩, hpp, g, hspec, hrel⟩
    have hnd : acc.1.any (·.name = fld.name) = false := by
      rw [List.any_eq_false]
      intro x hx hxe
      have hxe' : x.name = fieldName f.fd := by rw [← hname]; simpa using hxe
      have h1 : fieldName f.fd ∈ acc.1.map (·.name) := List.mem_map.2 ⟨x, hx, hxe'⟩
      have h2 := (List.nodup_append.1 hn).2.2 _ h1 (fieldName f.fd) (by simp)
      exact h2 rfl
    refine wlp_mono (pktStep1Tail_flat r pn acc f fld s1 hk hnd) ?_
    intro acc' s2 ⟨e, hacc, hlen⟩
    subst e
    have hq' : Q1 s0 acc' s2 := by
      refine ⟨hi, q.fr.trans hfr, q.pres.trans hp, hd.trans q.diags, hlen.trans q.lenF, ?_⟩
      intro f' hf'
      rw [hacc] at hf'
      rcases List.mem_append.1 hf' with hh | hh
      · exact (q.quiet f' hh).mono hp (fun _ => quiet_stable)
      · cases List.mem_singleton.1 hh; exact hk
    have hR' : R1 cfg s0 (gs0 ++ [g]) acc' s2 := by
      refine ⟨hq', R.presP.trans hpp, ?_⟩
      rw [hacc]
      exact mapM_snoc (fieldsOfM_mono q.quiet hp hpp R.fields) hrel.fieldOfM
    have hr' : MetaRel s2 s2.metas ds := by
      rw [hfr.metas]; exact hr.mono hp hpp
    refine wlp_mono (loop1_ref cfg mn ds r pn fs acc' s0 s2 (gs0 ++ [g]) hR' (hm.fr hfr.metas) hr'
      (fun f' hf' => hf f' (List.mem_cons_of_mem _ hf')) (fun f' hf' => hg f' (List.mem_cons_of_mem _ hf')) ?_) ?_
    · rw [hacc, List.map_append, List.append_assoc]
      simpa [hname] using hn
    · intro acc'' s3 ⟨gs, hR, hms⟩
      refine ⟨g :: gs, ?_, mapM_cons_some hspec hms⟩
      rw [show gs0 ++ g :: gs = gs0 ++ [g] ++ gs by simp]
      exact hR

theorem visitPacketDef_ref (cfg : Config) (mn : List String) (ds : List (String × DTy)) (p : PacketDef) (s : VState)
    (h : Inv s) (hm : MetaExact mn s) (hr : MetaRel s s.metas ds)
    (hf : ∀ f, f ∈ p.fields → FlatField mn f) (hg : ∀ f, f ∈ p.fields → FieldAgree mn ds f)
    (hn : (p.fields.map (fun f => fieldName f.fd)).Nodup) :
    wlp (visitPacketDef p) (fun mp s' => (Inv s' ∧ Pres s s' ∧ Fr s s' ∧ s'.diags = s.diags ∧ mp.name = p.name.text ∧
      mp.root = p.root.isSome ∧ ∀ f, f ∈ mp.fields → Kind f s' quiet) ∧ PresP s s' ∧
      ∃ gs, mp.fields.mapM (fieldOfM s' cfg) = some gs ∧
        p.fields.mapM (fun f => fieldOf cfg ds f.attrs f.fd) = some (gs.map (·, []))) s := by
  unfold visitPacketDef
  rw [wlp_bind]
  refine wlp_mono (loop1_ref cfg mn ds p.root.isSome p.name.text p.fields ([], [], none, []) s s []
    ⟨⟨h, Fr.refl s, Pres.refl s, rfl, rfl, fun f hf => by cases hf⟩, PresP.refl s, rfl⟩ hm hr hf hg (by simpa using hn)) ?_
  intro ⟨fields, lines, lenF, mfs⟩ s1 ⟨gs, R, hms⟩
  have q := R.q
  have hl : lenF = none := q.lenF
  subst hl
  dsimp only
  rw [wlp_bind]
  unfold pktLenCheck
  wls
  have h2 : wlp ((List.range fields.length).foldlM (pktStep2 none (fields.map (·.name)) lines) fields)
      (fun fs' s' => fs' = fields ∧ s' = s1) s1 := by
    refine wlp_foldlM _ (fun fs' s' => fs' = fields ∧ s' = s1) _ _ _ ⟨rfl, rfl⟩ ?_
    intro fs' i s' hi ⟨e1, e2⟩
    subst e1; subst e2
    exact pktStep2_flat _ _ _ i _ (List.mem_range.1 hi) q.quiet
  refine wlp_mono h2 ?_
  intro fs' s' ⟨e1, e2⟩
  subst e1; subst e2
  exact ⟨⟨q.inv, q.pres, q.fr, q.diags, by first | rfl | trivial, by first | rfl | trivial, q.quiet⟩, R.presP, gs,
    by simpa using R.fields, hms⟩

theorem map_fst_pair (gs : List Field) : (gs.map fun g => (g, ([] : List Packet))).map (·.1) = gs := by
  induction gs with
  | nil => rfl
  | cons g gs ih => simp only [List.map_cons]; rw [ih]

theorem map_snd_pair (gs : List Field) : ((gs.map fun g => (g, ([] : List Packet))).map (·.2)).flatten = [] := by
  induction gs with
  | nil => rfl
  | cons g gs ih => simp only [List.map_cons, List.flatten_cons, List.nil_append]; exact ih

theorem packetOf_flat (cfg : Config) (ds : List (String × DTy)) (p : PacketDef) (gs : List Field)
    (h : p.fields.mapM (fun f => fieldOf cfg ds f.attrs f.fd) = some (gs.map (·, []))) :
    packetOf cfg ds p = some [{ name := p.name.text, root := p.root.isSome, fields := gs }] := by
  unfold packetOf
  rw [h]
  show some _ = some _
  rw [map_fst_pair, map_snd_pair]

theorem addPacketS_pads (p : MPacket) (s : VState) : (addPacketS p s).pads = s.pads := by
  unfold addPacketS; split
  · rfl
  · dsimp only; split
    · split <;> rfl
    · rfl

/-- the packet definitions of a file, in order (as `specOf` lists them) -/
def pktDefs (l : List TopDef) : List PacketDef :=
  l.filterMap fun d => match d with | .packet p => some p | _ => none

theorem packetLoop_ref (cfg : Config) (mn : List String) (ds : List (String × DTy)) :
    ∀ (l : List TopDef) (s0 s : VState) (ps0 : List Packet), Q3 s0 s → s.packets.mapM (packetOfM s cfg) = some ps0 →
      MetaExact mn s → MetaRel s s.metas ds → (∀ p, TopDef.packet p ∈ l → FlatPacket mn p) →
      (∀ p, TopDef.packet p ∈ l → ∀ f, f ∈ p.fields → FieldAgree mn ds f) →
      (s.packets.map (·.name) ++ packetNames l).Nodup → (if s.root.isSome = true then 1 else 0) + rootCount l ≤ 1 →
      wlp (l.forM packetStep) (fun _ s' => Q3 s0 s' ∧ s'.options = s.options ∧
        ∃ ps, s'.packets.mapM (packetOfM s' cfg) = some (ps0 ++ ps) ∧
          (pktDefs l).mapM (packetOf cfg ds) = some (ps.map fun q => [q])) s
  | [], s0, s, ps0, q, hps, _, _, _, _, _, _ => (wlp_pure ..).2 ⟨q, rfl, [], by rw [List.append_nil]; exact hps, rfl⟩
  | d :: l, s0, s, ps0, q, hps, hm, hmr, hf, hg, hn, hr => by
    rw [forM_cons', wlp_bind]
    cases d with
    | packet p =>
      unfold packetStep
      dsimp only
      rw [wlp_bind]
      have hfp := hf p (List.mem_cons_self ..)
      refine wlp_mono (visitPacketDef_ref cfg mn ds p s q.inv hm hmr hfp.fields (hg p (List.mem_cons_self ..)) hfp.nodup) ?_
      intro mp s1 ⟨⟨hi, hp, hfr, hd, hname, hroot, hq⟩, hpp, gs, hgs, hspec⟩
      wls
      have hn' : (s.packets.map (·.name) ++ p.name.text :: packetNames l).Nodup := by simpa [packetNames] using hn
      have hnew : s1.packets.any (·.name = mp.name) = false := by
        rw [hfr.packets, hname, List.any_eq_false]
        intro x hx hxe
        have h1 : p.name.text ∈ s.packets.map (·.name) := List.mem_map.2 ⟨x, hx, by simpa using hxe⟩
        exact (List.nodup_append.1 hn').2.2 _ h1 p.name.text (List.mem_cons_self ..) rfl
      have hr' : (if s.root.isSome = true then 1 else 0) + ((if p.root.isSome = true then 1 else 0) + rootCount l) ≤ 1 := by
        have e : rootCount (TopDef.packet p :: l) = (if p.root.isSome = true then 1 else 0) + rootCount l := by
          unfold rootCount
          rw [List.filter_cons]
          dsimp only
          split <;> simp <;> omega
        rw [e] at hr; exact hr
      have hrn : mp.root = true → s1.root = none := by
        intro hmr'
        rw [hfr.root]
        rw [hroot] at hmr'
        rw [if_pos hmr'] at hr'
        cases hsr : s.root with
        | none => rfl
        | some x => rw [hsr] at hr'; simp at hr'; omega
      obtain ⟨e1, e2, e3⟩ := addPacketS_fresh mp s1 hnew hrn
      have hp2 : Pres s1 (addPacketS mp s1) := Pres.of_eq (addPacketS_attrs ..)
      have hpp2 : PresP s1 (addPacketS mp s1) := PresP.of_eq (addPacketS_pads ..)
      have hquiet : AllQuiet (addPacketS mp s1) := by
        intro p' hp' f hf'
        rw [e2] at hp'
        rcases List.mem_append.1 hp' with hh | hh
        · rw [hfr.packets] at hh
          exact ((q.quiet p' hh f hf').mono hp (fun _ => quiet_stable)).of_attrs (addPacketS_attrs ..)
        · cases List.mem_singleton.1 hh
          exact (hq f hf').of_attrs (addPacketS_attrs ..)
      have hmp : packetOfM s1 cfg mp = some { name := p.name.text, root := p.root.isSome, fields := gs } := by
        unfold packetOfM
        rw [hgs, hname, hroot]
        rfl
      have hps' : (addPacketS mp s1).packets.mapM (packetOfM (addPacketS mp s1) cfg) =
          some (ps0 ++ [{ name := p.name.text, root := p.root.isSome, fields := gs }]) := by
        rw [e2, hfr.packets]
        refine mapM_snoc ?_ (packetOfM_mono hq hp2 hpp2 hmp)
        exact mapM_mono hps (fun p' hp' _ hq' =>
          packetOfM_mono (q.quiet p' hp') (hp.trans hp2) (hpp.trans hpp2) hq')
      have hmetas : (addPacketS mp s1).metas = s.metas := (addPacketS_metas ..).trans hfr.metas
      have hopts : (addPacketS mp s1).options = s.options := by
        have : (addPacketS mp s1).options = s1.options := by
          unfold addPacketS; split
          · rfl
          · dsimp only; split
            · split <;> rfl
            · rfl
        exact this.trans hfr.options
      refine wlp_mono (packetLoop_ref cfg mn ds l s0 _ _ ⟨addPacketS_inv hi mp, e1.trans (hd.trans q.diags), hquiet⟩ hps'
        (hm.fr hmetas) ?_ (fun p' hp' => hf p' (List.mem_cons_of_mem _ hp'))
        (fun p' hp' => hg p' (List.mem_cons_of_mem _ hp')) ?_ ?_) ?_
      · rw [hmetas]
        exact hmr.mono (hp.trans hp2) (hpp.trans hpp2)
      · rw [e2, hfr.packets]
        simpa [hname] using hn'
      · rw [e3, hfr.root, hroot]
        cases hsr : s.root.isSome <;> cases hpr : p.root.isSome <;> simp [hsr, hpr] at hr' ⊢ <;> omega
      · intro _ s3 ⟨q3, ho, ps, h1, h2⟩
        refine ⟨q3, ho.trans hopts, ({ name := p.name.text, root := p.root.isSome, fields := gs } : Packet) :: ps, ?_, ?_⟩
        · rw [show ps0 ++ ({ name := p.name.text, root := p.root.isSome, fields := gs } : Packet) :: ps =
            ps0 ++ [{ name := p.name.text, root := p.root.isSome, fields := gs }] ++ ps by simp]
          exact h1
        · exact mapM_cons_some (packetOf_flat cfg ds p gs hspec) h2
    | metaD m =>
      unfold packetStep
      wls
      refine packetLoop_ref cfg mn ds l s0 s ps0 q hps hm hmr (fun p' hp' => hf p' (List.mem_cons_of_mem _ hp'))
        (fun p' hp' => hg p' (List.mem_cons_of_mem _ hp')) ?_ ?_
      · simpa [packetNames] using hn
      · have e : rootCount (TopDef.metaD m :: l) = rootCount l := by
          unfold rootCount; rw [List.filter_cons]; simp
        rw [e] at hr; exact hr
    | opt o =>
      unfold packetStep
      wls
      refine packetLoop_ref cfg mn ds l s0 s ps0 q hps hm hmr (fun p' hp' => hf p' (List.mem_cons_of_mem _ hp'))
        (fun p' hp' => hg p' (List.mem_cons_of_mem _ hp')) ?_ ?_
      · simpa [packetNames] using hn
      · have e : rootCount (TopDef.opt o :: l) = rootCount l := by
          unfold rootCount; rw [List.filter_cons]; simp
        rw [e] at hr; exact hr

/-! ## MetaData entries and options -/

def metasStep (acc : List (String × DTy)) (e : MetaEntry) : List (String × DTy) :=
  match e with
  | .decl d => match dtyOf d.ty with | some t => acc ++ [(d.name.text, t)] | none => acc
  | .ref r => match acc.lookup r.typ.text with | some t => acc ++ [(r.name.text, t)] | none => acc

theorem flatten_filterMap (g : α → Option (List β)) (l : List α) :
    (l.filterMap g).flatten = l.flatMap (fun d => (g d).getD []) := by
  induction l with
  | nil => rfl
  | cons d l ih =>
    rw [List.filterMap_cons, List.flatMap_cons]
    cases g d with
    | none => simpa using ih
    | some x => simp [ih]

theorem metasOf_eq (c : Cst) : metasOf c = (metaEntries c).foldl metasStep [] := by
  unfold metasOf metaEntries
  dsimp only
  rw [flatten_filterMap]
  have e : ∀ (g : TopDef → List MetaEntry), (∀ d, g d = entriesOf d) → c.defs.flatMap g = c.defs.flatMap entriesOf := by
    intro g hg
    congr 1
    funext d
    exact hg d
  rw [e _ (fun d => by cases d <;> rfl)]
  rfl

theorem metaLoop_ref : ∀ (l : List MetaEntry) (s0 s : VState) (ds0 : List (String × DTy)), Inv s → s.diags = s0.diags →
    NoPk s → MetaRel s s.metas ds0 →
    (∀ e, e ∈ l → ∃ d, e = .decl d ∧ tyOK d.ty ∧ (dtyOf d.ty).isSome = true) →
    (s.metas.map (·.name) ++ l.map entryName).Nodup →
    wlp (l.forM metaEntryStep) (fun _ s' => Inv s' ∧ s'.diags = s0.diags ∧ NoPk s' ∧
      s'.metas.map (·.name) = s.metas.map (·.name) ++ l.map entryName ∧ s'.options = s.options ∧
      MetaRel s' s'.metas (l.foldl metasStep ds0)) s
  | [], s0, s, ds0, hi, hd, hn, hr, _, _ => (wlp_pure ..).2 ⟨hi, hd, hn, by simp, rfl, hr⟩
  | e :: l, s0, s, ds0, hi, hd, hn, hr, he, hnd => by
    rw [forM_cons', wlp_bind]
    obtain ⟨d, rfl, hty, hlex⟩ := he _ (List.mem_cons_self ..)
    obtain ⟨t, ht⟩ := Option.isSome_iff_exists.1 hlex
    unfold metaEntryStep
    dsimp only
    rw [wlp_bind]
    refine wlp_mono (wlp_and (wlp_and (wlp_and (wp_to_wlp (tyAttr_spec d.ty d.name.text s hi)) ((tyAttr_frames d.ty d.name.text).out s))
      (tyAttr_flat d.ty d.name.text s hty)) (tyAttr_ref d.ty d.name.text s t hty ht)) ?_
    intro a s1 ⟨⟨⟨⟨hi1, hp, k, hk1, hk2⟩, hfr⟩, hd1, _⟩, hpp, k', hk1', hk3⟩
    rw [hk1] at hk1'; cases hk1'
    wls
    have hnew : (findMeta s1 d.name.text).isSome = false := by
      cases hh : (findMeta s1 d.name.text).isSome with
      | false => rfl
      | true =>
        exfalso
        have h1 := (findMeta_isSome_iff s1 _).1 hh
        rw [hfr.metas] at h1
        exact (List.nodup_append.1 hnd).2.2 _ h1 d.name.text (by simp [entryName]) rfl
    rw [addMetaS_fresh _ _ hnew]
    have hi2 : Inv { s1 with metas := s1.metas ++ [{ name := d.name.text, attr := some a, desc := docOf d.doc, line := d.ty.start.line }] } := by
      have := hi1.addMeta { name := d.name.text, attr := some a, desc := docOf d.doc, line := d.ty.start.line } ⟨a, k, rfl, hk1, hk2⟩
      rw [addMetaS_fresh _ _ hnew] at this
      exact this
    have hr2 : MetaRel { s1 with metas := s1.metas ++ [{ name := d.name.text, attr := some a, desc := docOf d.doc, line := d.ty.start.line }] }
        (s1.metas ++ [{ name := d.name.text, attr := some a, desc := docOf d.doc, line := d.ty.start.line }])
        (ds0 ++ [(d.name.text, t)]) := by
      have h1 : MetaRel s1 s1.metas ds0 := by rw [hfr.metas]; exact hr.mono hp hpp
      have key : ∀ (sN : VState) (m : MMeta), sN.attrs = s1.attrs → sN.pads = s1.pads → m.name = d.name.text →
          m.attr = some a → MetaRel sN (s1.metas ++ [m]) (ds0 ++ [(d.name.text, t)]) := by
        intro sN m ha hpd hmn hma
        have h2 : MetaRel sN s1.metas ds0 := MetaRel.mono (Pres.of_eq ha) (PresP.of_eq hpd) h1
        exact MetaRel.snoc (s := sN) (m := m) (d := (d.name.text, t))
          ⟨hmn, a, k, hma, by rw [ha]; exact hk1, hk3.mono (PresP.of_eq hpd)⟩ h2
      exact key _ _ rfl rfl rfl rfl
    have hstep : metasStep ds0 (.decl d) = ds0 ++ [(d.name.text, t)] := by
      show (match dtyOf d.ty with | some t => ds0 ++ [(d.name.text, t)] | none => ds0) = _
      rw [ht]
    refine wlp_mono (metaLoop_ref l s0 _ (ds0 ++ [(d.name.text, t)]) hi2 (hd1.trans hd) (hfr.noPk hn) hr2
      (fun e' he' => he e' (List.mem_cons_of_mem _ he')) ?_) ?_
    · show (List.map (fun m : MMeta => m.name) (s1.metas ++ [_]) ++ l.map entryName).Nodup
      rw [hfr.metas]
      simpa [entryName] using hnd
    · intro _ s2 ⟨h1, h2, h3, h4, h5, h6⟩
      refine ⟨h1, h2, h3, ?_, h5.trans hfr.options, ?_⟩
      · rw [h4]
        show List.map (fun m : MMeta => m.name) (s1.metas ++ [_]) ++ l.map entryName = _
        rw [hfr.metas]
        simp [entryName]
      · rw [List.foldl_cons, hstep]; exact h6

theorem optLoop_ref : ∀ (l : List OptDecl) (s : VState),
    (∀ od, od ∈ l → OptOK od) → (s.options.map (·.1) ++ l.map (·.name.text)).Nodup →
    wlp (l.forM optDeclStep) (fun _ s' => s' = { s with options := s.options ++ l.map fun od => (od.name.text, optValueOf od) }) s
  | [], s, _, _ => (wlp_pure ..).2 (by simp)
  | od :: l, s, ho, hnd => by
    rw [forM_cons', wlp_bind, optDeclStep_eq]
    wls
    obtain ⟨vals, hv, hok⟩ := ho od (List.mem_cons_self ..)
    have hnew : (s.options.lookup od.name.text).isSome = false := by
      cases hh : (s.options.lookup od.name.text).isSome with
      | false => rfl
      | true =>
        exfalso
        have h1 := (lookup_isSome_iff _ _).1 hh
        exact (List.nodup_append.1 hnd).2.2 _ h1 od.name.text (by simp) rfl
    rw [addOptionS_good _ _ _ vals s hv hok hnew]
    refine wlp_mono (optLoop_ref l _ (fun od' h' => ho od' (List.mem_cons_of_mem _ h')) ?_) ?_
    · show (List.map (fun x : String × String => x.1) (s.options ++ [_]) ++ l.map (·.name.text)).Nodup
      simpa using hnd
    · intro _ s2 e
      rw [e]
      simp

/-! ## The whole run -/

/-- **Side conditions under which the two readings are proved to agree.**  `[lexical]` conditions hold of every tree the
parser produces from a text without a raw NUL character (they only exclude `Cst` values whose tokens the lexer cannot
make, and a quoted pad character holding a raw NUL). -/
structure Agree (c : Cst) : Prop where
  /-- [lexical] the type of every MetaData entry is one the declarative reading knows (`u8` … `float64`, `char`, strings) -/
  metaTy : ∀ e, e ∈ metaEntries c → ∀ d, e = .decl d → (dtyOf d.ty).isSome = true
  /-- [lexical] the same for typed fields, and a padding attribute's character is `'0'`, `' '` or `'\x00'`;
  a checksum field has a scalar type -/
  fields : ∀ p, TopDef.packet p ∈ c.defs → ∀ f, f ∈ p.fields → FieldAgree (metaNames c) (metasOf c) f
  /-- [lexical] the value of `FixedStringPadChar` (quotes of a STRING token stripped) is `'0'`, `' '` or `'\x00'` as the
  lexer spells them (not the raw-NUL spelling `model.go` also lists) -/
  optPad : ∀ od, od ∈ optDecls c → od.name.text = "FixedStringPadChar" → (padCharByte (optValueOf od)).isSome = true

theorem mem_map_opts {l : List OptDecl} {f : OptDecl → String} {n v : String}
    (h : (n, v) ∈ l.map fun od => (od.name.text, f od)) : ∃ od, od ∈ l ∧ od.name.text = n ∧ f od = v := by
  obtain ⟨od, h1, h2⟩ := List.mem_map.1 h
  cases h2
  exact ⟨od, h1, rfl, rfl⟩

/-- options, packets and `ResolveDependencies`, from a state in which the MetaData entries are registered and stand for
`metasOf c` (shared by every fragment whose packets are flat) -/
theorem refines_tail (c : Cst) (hoptOK : ∀ od, od ∈ optDecls c → OptOK od)
    (hoptNd : ((optDecls c).map (·.name.text)).Nodup) (hpktNd : (packetNames c.defs).Nodup) (hroot : rootCount c.defs ≤ 1)
    (hpk : ∀ p, TopDef.packet p ∈ c.defs → FlatPacket (metaNames c) p) (ha : Agree c)
    (s1 : VState) (hi1 : Inv s1) (hd1 : s1.diags = []) (hn1 : NoPk s1)
    (hm1 : s1.metas.map (·.name) = metaNames c) (ho1 : s1.options = []) (hr1' : MetaRel s1 s1.metas (metasOf c)) :
    wlp (c.defs.forM optStep) (fun _ s2 => wlp (c.defs.forM packetStep) (fun _ s3 =>
      wlp resolveDeps (fun _ s' => schemaOf s' = specOf c ∧ (specOf c).isSome = true) s3) s2) s1 := by
  rw [optLoop_eq]
  have hme : MetaExact (metaNames c) s1 := by
    intro n
    rw [findMeta_isSome_iff, hm1]
  refine wlp_mono (optLoop_ref (c.defs.flatMap declsOf) s1 hoptOK ?_) ?_
  · rw [ho1]
    simpa [optDecls] using hoptNd
  intro _ s2 e2
  have hopt2 : s2.options = (optDecls c).map fun od => (od.name.text, optValueOf od) := by
    rw [e2]
    show s1.options ++ _ = _
    rw [ho1]
    rfl
  have hi2 : Inv s2 := by rw [e2]; exact hi1.of_eq rfl rfl rfl
  have hn2 : NoPk s2 := by rw [e2]; exact hn1
  have hd2 : s2.diags = [] := by rw [e2]; exact hd1
  have hme2 : MetaExact (metaNames c) s2 := by rw [e2]; exact hme.fr rfl
  have hr2 : MetaRel s2 s2.metas (metasOf c) := by
    rw [e2]
    refine MetaRel.mono ?_ ?_ hr1'
    · exact Pres.of_eq rfl
    · exact PresP.of_eq rfl
  refine wlp_mono (packetLoop_ref (configOf (optionsOf c)) (metaNames c) (metasOf c) c.defs s2 s2 [] ⟨hi2, rfl, ?_⟩
    (by rw [hn2.1]; rfl) hme2 hr2 hpk ha.fields ?_ ?_) ?_
  · intro p hp; rw [hn2.1] at hp; cases hp
  · rw [hn2.1]; simpa using hpktNd
  · rw [hn2.2]; simpa using hroot
  intro _ s3 ⟨q, ho3, ps, hps, hspec⟩
  refine wlp_mono (resolveDeps_quiet s3 q.quiet) ?_
  intro _ s4 e
  rw [e]
  -- the configuration
  have hok : OptsOK s3.options := by
    intro n v hnv
    rw [ho3, hopt2] at hnv
    obtain ⟨od, h1, h2, h3⟩ := mem_map_opts hnv
    obtain ⟨vals, hv1, hv2⟩ := hoptOK od h1
    exact ⟨vals, by rw [← h2]; exact hv1, by rw [← h3]; exact hv2⟩
  have hnul : s3.options.lookup "FixedStringPadChar" ≠ some "'\x00'" := by
    intro hl
    have hmem := mem_of_lookup hl
    rw [ho3, hopt2] at hmem
    obtain ⟨od, h1, h2, h3⟩ := mem_map_opts hmem
    have h4 := ha.optPad od h1 h2
    rw [h3] at h4
    exact absurd h4 (by decide)
  have hcfg : configOfM (configOfOptions s3.options) = some (configOf (optionsOf c)) := by
    rw [config_refines _ hok hnul, ho3, hopt2, optionsOf_eq]
  have hschema : schemaOf s3 = some { cfg := configOf (optionsOf c), packets := ps } := by
    unfold schemaOf
    rw [hcfg]
    show (s3.packets.mapM (packetOfM s3 (configOf (optionsOf c)))).bind _ = _
    rw [hps]
    rfl
  have hspec' : specOf c = some { cfg := configOf (optionsOf c), packets := ps } := by
    unfold specOf
    show ((pktDefs c.defs).mapM (packetOf (configOf (optionsOf c)) (metasOf c))).bind _ = _
    rw [hspec]
    show some _ = some _
    rw [flatten_map_singleton]
  rw [hschema, hspec']
  exact ⟨rfl, rfl⟩

theorem visitCst_refines (c : Cst) (h : WFFlat c) (ha : Agree c) :
    wlp (visitCst c) (fun _ s' => schemaOf s' = specOf c ∧ (specOf c).isSome = true) {} := by
  rw [wlp_visitCst, metaLoop_eq, optLoop_eq]
  refine wlp_mono (metaLoop_ref (c.defs.flatMap entriesOf) {} {} [] Inv.empty rfl ⟨rfl, rfl⟩ trivial ?_
    (by simpa [metaNames, metaEntries] using h.metaNodup)) ?_
  · intro e he
    obtain ⟨d, rfl, hty⟩ := h.metaDecl e he
    exact ⟨d, rfl, hty, ha.metaTy _ he d rfl⟩
  intro _ s1 ⟨hi1, hd1, hn1, hm1, ho1, hr1⟩
  have h0 := refines_tail c h.optOK h.optNodup h.pktNodup h.oneRoot h.packets ha s1 hi1 hd1 hn1
    (by rw [hm1]; simp [metaNames, metaEntries]) ho1 (by rw [metasOf_eq]; exact hr1)
  rw [optLoop_eq] at h0
  exact h0

/-- **Refinement, flat fragment.**  On a well-formed file of the flat fragment (under the side conditions `Agree`) the
state the visitor model ends in stands for exactly the schema of the declarative reading, and there is one. -/
theorem visit_refines_spec_flat (c : Cst) (h : WFFlat c) (ha : Agree c) (s : VState) (hr : run c = .ok s) :
    schemaOf s = specOf c ∧ (specOf c).isSome = true :=
  run_of_wlp (Q := fun s => schemaOf s = specOf c ∧ (specOf c).isSome = true) (visitCst_refines c h ha) hr

end FinProtoc.Visit
