import FinProtoc.Conforms
import FinProtoc.Proofs.WireLemmas
/-!
# Soundness of the encoder validator

`confEnc S P = true` ⇒ the emitted encoder `P` writes exactly `Wire.enc` for every
packet, message, registry and preceding buffer (messages in the `lenSafe` domain).
-/
namespace FinProtoc.Proofs
open FinProtoc FinProtoc.IR FinProtoc.Conforms FinProtoc.Wire

theorem encLE_one (n : Nat) : encLE 1 n = encBE 1 n := by simp [encBE, encLE]

theorem encInt_leOk {S : Schema} {w : Nat} {le : Bool} (h : leOk S w le = true) (n : Nat) :
    encInt le w n = encInt S.cfg.le w n := by
  simp only [leOk, Bool.or_eq_true, decide_eq_true_eq] at h
  rcases h with h | h
  · subst h; unfold encInt; cases le <;> cases S.cfg.le <;> simp [encLE_one]
  · rw [h]

theorem padOf_ok {p : Pad} {pad : Option Pad} (h : padArgOk p pad = true) : padOf pad = p := by
  cases pad with
  | none => simp [padArgOk] at h; simp [padOf, h]
  | some q => simp [padArgOk] at h; simp [padOf, h]

/-- what the induction hypothesis on fuel provides for nested packets -/
def CallOK (S : Schema) (reg : Registry) (call : ECall) (d : Nat) : Prop :=
  ∀ pkt vs acc r, depthList vs < d → lenSafeVal S (.obj pkt) (.struct vs) = true →
    Wire.enc S reg pkt vs acc = some r → call pkt vs acc = some r

theorem wire_obj {S : Schema} {reg cf cv pkt vs acc} :
    encVal S reg cf cv (.obj pkt) (.struct vs) acc = Wire.enc S reg pkt vs acc := by
  simp [encVal, Wire.enc]

theorem wire_match {S : Schema} {reg cf cv key pairs pkt vs acc} :
    encVal S reg cf cv (.matchOn key pairs) (.dyn pkt vs) acc = Wire.enc S reg pkt vs acc := by
  simp [encVal, Wire.enc]

theorem lenSafe_match_obj {S : Schema} {key pairs pkt vs} :
    lenSafeVal S (.matchOn key pairs) (.dyn pkt vs) = lenSafeVal S (.obj pkt) (.struct vs) := by
  simp [lenSafeVal]

/-- one list element -/
theorem elem_sound {S : Schema} {reg : Registry} {call : ECall} {d : Nat} (hc : CallOK S reg call d)
    {cf cv k e v acc r} (hok : elemOkE S k e = true) (hd : v.depth ≤ d) (hs : lenSafeVal S k v = true)
    (h : encVal S reg cf cv k v acc = some r) : encElem call e v acc = some r := by
  cases e with
  | scalar w le =>
    simp only [elemOkE, Bool.and_eq_true] at hok
    obtain ⟨hk, hle⟩ := hok
    cases k <;> simp at hk
    rename_i t; subst hk
    cases v <;> simp [encVal] at h
    subst h; simp [encElem, encInt_leOk hle]
  | string pw le cm =>
    simp only [elemOkE, Bool.and_eq_true, decide_eq_true_eq] at hok
    obtain ⟨⟨hk, hpw⟩, hle⟩ := hok
    subst hk hpw
    cases v <;> simp [encVal] at h
    subst h; simp [encElem, encInt_leOk hle]
  | fixed n pad =>
    cases k <;> simp [elemOkE] at hok
    rename_i n' p
    obtain ⟨hn, hp⟩ := hok; subst hn
    cases v <;> simp [encVal] at h
    rename_i bs
    obtain ⟨hlen, h⟩ := h; subst h
    simp [encElem, hlen, padOf_ok hp]
  | object ty =>
    simp only [elemOkE, decide_eq_true_eq] at hok
    subst hok
    cases v <;> simp [encVal] at h
    rename_i vs
    have hd' : depthList vs < d := by simp [Val.depth] at hd; omega
    have : Wire.enc S reg ty vs acc = some r := by simpa [Wire.enc] using h
    simpa [encElem] using hc ty vs acc r hd' hs this

theorem elems_sound {S : Schema} {reg : Registry} {call : ECall} {d : Nat} (hc : CallOK S reg call d)
    {cf cv k e} (hok : elemOkE S k e = true) :
    ∀ (es : List Val) acc r, depthList es ≤ d → lenSafeList S k es = true →
      encList S reg cf cv k es acc = some r → encElems call e es acc = some r := by
  intro es
  induction es with
  | nil => intro acc r _ _ h; simpa [encList, encElems] using h
  | cons v vs ih =>
    intro acc r hd hs h
    simp only [encList] at h
    obtain ⟨acc', h1, h2⟩ := bind_eq_some'.mp h
    simp only [lenSafeList, Bool.and_eq_true] at hs
    simp only [depthList] at hd
    have e1 := elem_sound hc hok (by omega) hs.1 h1
    have e2 := ih acc' r (by omega) hs.2 h2
    simp [encElems, e1, e2]

/-- the Wire-side expression `encFields` evaluates for one field -/
def wireField (S : Schema) (reg : Registry) (cf : List Field) (cv : List Val) (f : Field) (v : Val) (acc : Bytes) : Option Bytes :=
  if f.rep then
    match v with
    | .list es => encList S reg cf cv f.kind es (acc ++ encInt S.cfg.le S.cfg.listPfx.width es.length)
    | _ => none
  else encVal S reg cf cv f.kind v acc

def lenSafeField (S : Schema) (f : Field) (v : Val) : Bool :=
  if f.rep then (match v with | .list es => lenSafeList S f.kind es | _ => true) else lenSafeVal S f.kind v

theorem encFields_cons {S : Schema} {reg cf cv f fs v vs acc} :
    encFields S reg cf cv (f :: fs) (v :: vs) acc =
      (wireField S reg cf cv f v acc >>= fun a => encFields S reg cf cv fs vs a) := by
  unfold wireField
  cases v <;> simp [encFields]

/-- a field that is neither a length-of field nor its target -/
theorem plain_sound {S : Schema} {reg : Registry} {call : ECall} {d : Nat} (hc : CallOK S reg call d)
    {cv : List Val} {cfs : List Field} {i f st v acc r vars}
    (hok : plainOkE S i f st = true) (hv : cv[i]? = some v) (hd : v.depth ≤ d)
    (hs : lenSafeField S f v = true)
    (h : wireField S reg cfs cv f v acc = some r) :
    stepE call reg cv st { buf := acc, vars := vars } = some { buf := r, vars := vars } := by
  unfold plainOkE at hok
  unfold wireField at h
  unfold lenSafeField at hs
  by_cases hrep : f.rep
  · simp only [hrep, if_true] at hok h hs
    cases st <;> simp at hok
    rename_i pw le e j
    obtain ⟨⟨⟨hpw, hle⟩, he⟩, hj⟩ := hok
    subst hj hpw
    cases v <;> simp at h
    rename_i es
    simp only at hs
    have hd' : depthList es ≤ d := by simp [Val.depth] at hd; omega
    have := elems_sound hc he es _ r hd' hs h
    simp [stepE, hv, encInt_leOk hle, this]
  · simp only [hrep] at hok h hs
    cases hk : f.kind <;> rw [hk] at hok h hs <;> cases st <;> simp at hok
    · -- scalar
      rename_i t w le j
      obtain ⟨⟨hw, hle⟩, hj⟩ := hok; subst hj hw
      cases v <;> simp [encVal] at h
      subst h; simp [stepE, hv, encInt_leOk hle]
    · -- fixed
      rename_i n p n' pad j
      obtain ⟨⟨hn, hp⟩, hj⟩ := hok; subst hj hn
      cases v <;> simp [encVal] at h
      obtain ⟨hlen, h⟩ := h; subst h
      simp [stepE, hv, hlen, padOf_ok hp]
    · -- dyn
      rename_i pw le j
      obtain ⟨⟨hpw, hle⟩, hj⟩ := hok; subst hj hpw
      cases v <;> simp [encVal] at h
      subst h; simp [stepE, hv, encInt_leOk hle]
    · -- obj
      rename_i pkt ty j
      obtain ⟨hty, hj⟩ := hok; subst hj hty
      cases v <;> simp only [encVal] at h <;> try (simp at h; done)
      rename_i vs
      have hd' : depthList vs < d := by simp [Val.depth] at hd; omega
      have hw : Wire.enc S reg ty vs acc = some r := by simpa [Wire.enc] using h
      have := hc ty vs acc r hd' hs hw
      simp [stepE, hv, this]
    · -- match
      rename_i key pairs j
      subst hok
      cases v <;> simp only [encVal] at h <;> try (simp at h; done)
      rename_i pkt vs
      have hd' : depthList vs < d := by simp [Val.depth] at hd; omega
      have hw : Wire.enc S reg pkt vs acc = some r := by simpa [Wire.enc] using h
      rw [lenSafe_match_obj] at hs
      have := hc pkt vs acc r hd' hs hw
      simp [stepE, hv, this]
    · -- checksum
      rename_i t algo algo' w le j
      obtain ⟨⟨⟨ha, hw⟩, hle⟩, hj⟩ := hok; subst hj hw ha
      cases v <;> simp [encVal] at h
      subst h; simp [stepE, hv, encInt_leOk hle]
      rfl

theorem lookupSize_at {S : Schema} {target : String} :
    ∀ (cfs : List Field) (cv : List Val) (j : Nat) (f2 : Field) (v2 : Val),
      fieldIdx cfs target = some j → cfs[j]? = some f2 → cv[j]? = some v2 →
      lookupSize S cfs cv target = sizeField S f2 v2 := by
  intro cfs
  induction cfs with
  | nil => intro cv j f2 v2 _ hf; simp at hf
  | cons f fs ih =>
    intro cv j f2 v2 hidx hf hv
    cases cv with
    | nil => simp at hv
    | cons v vs =>
      unfold fieldIdx at hidx
      simp only [List.findIdx_cons] at hidx
      by_cases hn : f.name = target
      · simp [hn] at hidx
        subst hidx
        simp at hf hv; subst hf hv
        simp [lookupSize, hn]
      · simp only [hn, decide_false, cond_false, List.length_cons] at hidx
        split at hidx <;> simp at hidx
        rename_i hlt
        cases j with
        | zero => omega
        | succ j =>
          simp at hf hv
          have hidx' : fieldIdx fs target = some j := by
            unfold fieldIdx
            have : List.findIdx (fun x => decide (x.name = target)) fs = j := by omega
            simp [this]; omega
          simp [lookupSize, hn, ih vs j f2 v2 hidx' hf hv]

theorem setAt_mid (a z x : Bytes) (y : Bytes) (h : y.length = z.length) :
    setAt (a ++ z ++ x) a.length y = some (a ++ y ++ x) := by
  unfold setAt
  have h1 : a.length + y.length ≤ (a ++ z ++ x).length := by simp; omega
  simp only [h1, if_true]
  congr 1
  have e1 : (a ++ z ++ x).take a.length = a := by simp [List.append_assoc]
  have e2 : (a ++ z ++ x).drop (a.length + y.length) = x := by
    rw [h, List.append_assoc, List.drop_append]
    simp
  rw [e1, e2]

theorem encFields_length {S : Schema} {reg cf cv} :
    ∀ (fs : List Field) (vs : List Val) acc r, encFields S reg cf cv fs vs acc = some r → fs.length = vs.length := by
  intro fs
  induction fs with
  | nil => intro vs acc r h; cases vs <;> simp [encFields] at h ⊢
  | cons f fs ih =>
    intro vs acc r h
    cases vs with
    | nil => simp [encFields] at h
    | cons v vs =>
      rw [encFields_cons] at h
      obtain ⟨a, _, h2⟩ := bind_eq_some'.mp h
      simp [ih vs a r h2]

theorem lenSafeFields_cons {S : Schema} {f fs v vs} (h : lenSafeFields S (f :: fs) (v :: vs) = true) :
    lenSafeField S f v = true ∧ lenSafeFields S fs vs = true ∧
      (∀ t target f2 fs' v2 vs', f.kind = .lengthOf t target → fs = f2 :: fs' → vs = v2 :: vs' →
        f2.rep = false ∧ ckFreeVal S f2.kind v2 = true) := by
  unfold lenSafeFields at h
  simp only [Bool.and_eq_true] at h
  obtain ⟨⟨h1, h2⟩, h3⟩ := h
  refine ⟨by unfold lenSafeField; exact h1, h3, ?_⟩
  intro t target f2 fs' v2 vs' hk hfs hvs
  subst hfs hvs
  rw [hk] at h2
  simpa using h2

/-- all the fields of one packet frame -/
theorem frame_sound {S : Schema} {reg : Registry} {call : ECall} {d : Nat} (hc : CallOK S reg call d)
    (cfs : List Field) (cv : List Val) (hd : depthList cv ≤ d) :
    ∀ (n : Nat) (fs : List Field), fs.length ≤ n →
      ∀ (i : Nat) (vs : List Val) (steps : List EStep) (acc r : Bytes) (vars : List (String × Nat)),
      confFieldsE S cfs i fs steps = true →
      (∀ j f, fs[j]? = some f → cfs[i + j]? = some f) →
      (∀ j v, vs[j]? = some v → cv[i + j]? = some v) →
      lenSafeFields S fs vs = true →
      encFields S reg cfs cv fs vs acc = some r →
      ∃ s', stepsE call reg cv steps { buf := acc, vars := vars } = some s' ∧ s'.buf = r := by
  intro n
  induction n with
  | zero =>
    intro fs hlen0 i vs steps acc r vars hconf _ _ _ h
    have : fs = [] := by cases fs <;> simp at hlen0 ⊢
    subst this
    cases vs <;> simp [encFields] at h
    cases steps <;> simp [confFieldsE] at hconf
    subst h
    exact ⟨_, rfl, rfl⟩
  | succ n ih =>
    intro fs hlenn i vs steps acc r vars hconf hcf hcv hs h
    cases fs with
    | nil =>
      cases vs <;> simp [encFields] at h
      cases steps <;> simp [confFieldsE] at hconf
      subst h
      exact ⟨_, rfl, rfl⟩
    | cons f fs =>
    cases vs with
    | nil => simp [encFields] at h
    | cons v vs =>
      rw [encFields_cons] at h
      obtain ⟨acc1, h1, h2⟩ := bind_eq_some'.mp h
      obtain ⟨hs1, hs2, hs3⟩ := lenSafeFields_cons hs
      have hvi : cv[i]? = some v := by simpa using hcv 0 v (by simp)
      have hdv : v.depth ≤ d := Nat.le_trans (depth_le_of_getElem? hvi) hd
      -- is this a (non-repeated) length-of field?
      by_cases hlen : (∃ t target, f.kind = .lengthOf t target) ∧ f.rep = false
      · obtain ⟨⟨t, target, hk⟩, hrep⟩ := hlen
        unfold confFieldsE at hconf
        simp only [hk, hrep] at hconf
        cases fs with
        | nil => simp at hconf
        | cons f2 fs' =>
          -- steps must be slot, mark, st2, mark, patch, rest
          rcases steps with _ | ⟨s1, _ | ⟨s2, _ | ⟨s3, _ | ⟨s4, _ | ⟨s5, rest⟩⟩⟩⟩⟩ <;> try (simp at hconf; done)
          cases s1 <;> try (simp at hconf; done)
          cases s2 <;> try (simp at hconf; done)
          cases s4 <;> try (simp at hconf; done)
          cases s5 <;> try (simp at hconf; done)
          rename_i w1 le1 pv0 sv0 ev0 w2 le2 pv sv ev slice
          simp only [Bool.and_eq_true, decide_eq_true_eq, bne_iff_ne, ne_eq, Bool.not_eq_true', and_assoc] at hconf
          obtain ⟨hw1, hle1, hw2, hle2, hpv, hsv, hev, hne1, hne2, hne3, hname, hidx, hrep2, hcall, hslice, hp2, hrest⟩ := hconf
          subst hpv hsv hev hw1 hw2
          cases vs with
          | nil => simp [encFields] at h2
          | cons v2 vs' =>
            obtain ⟨_, hck⟩ := hs3 t target f2 fs' v2 vs' hk rfl rfl
            obtain ⟨hs21, hs22, _⟩ := lenSafeFields_cons hs2
            rw [encFields_cons] at h2
            obtain ⟨acc2, h21, h22⟩ := bind_eq_some'.mp h2
            -- the Wire side of the length field
            have hf2 : cfs[i + 1]? = some f2 := by simpa using hcf 1 f2 (by simp)
            have hv2 : cv[i + 1]? = some v2 := by simpa using hcv 1 v2 (by simp)
            have hsz := lookupSize_at (S := S) cfs cv (i + 1) f2 v2 hidx hf2 hv2
            unfold wireField at h1
            simp only [hrep, hk] at h1
            cases v <;> simp only [encVal] at h1 <;> try (simp at h1; done)
            obtain ⟨n, hn, h1⟩ := bind_eq_some'.mp h1
            simp at h1; subst h1
            -- the Wire side of the target
            have h21' : encVal S reg cfs cv f2.kind v2 (acc ++ encInt S.cfg.le t.width n) = some acc2 := by
              unfold wireField at h21; simpa [hrep2] using h21
            obtain ⟨xs, hacc2, hsize⟩ := encVal_size h21'
            have hn' : n = xs.length := by
              rw [hsz] at hn
              unfold sizeField at hn
              simp only [hrep2] at hn
              rw [hsize] at hn; simpa using hn.symm
            subst hacc2
            -- the same target encoded behind the zero placeholder
            have hz := encVal_prefix hck h21' (acc ++ encInt le1 t.width 0)
            have hw2f : wireField S reg cfs cv f2 v2 (acc ++ encInt le1 t.width 0) = some ((acc ++ encInt le1 t.width 0) ++ xs) := by
              unfold wireField; simpa [hrep2] using hz
            have hdv2 : v2.depth ≤ d := Nat.le_trans (depth_le_of_getElem? hv2) hd
            have hst3 := plain_sound hc (vars := (sv, (acc ++ encInt le1 t.width 0).length) :: (pv, acc.length) :: vars)
              hp2 hv2 hdv2 hs21 hw2f
            -- the patch
            have hpatch : setAt ((acc ++ encInt le1 t.width 0) ++ xs) acc.length (encInt le2 t.width xs.length)
                = some ((acc ++ encInt le2 t.width xs.length) ++ xs) := by
              apply setAt_mid; simp
            -- remaining fields
            have hcf' : ∀ j f, fs'[j]? = some f → cfs[i + 2 + j]? = some f := by
              intro j f hj
              have := hcf (j + 2) f (by simpa using hj)
              simpa [Nat.add_assoc, Nat.add_comm 2 j] using this
            have hcv' : ∀ j v, vs'[j]? = some v → cv[i + 2 + j]? = some v := by
              intro j v hj
              have := hcv (j + 2) v (by simpa using hj)
              simpa [Nat.add_assoc, Nat.add_comm 2 j] using this
            obtain ⟨s', hrun, hbuf⟩ := ih fs' (by simp at hlenn; omega) (i + 2) vs' rest
              (acc ++ encInt S.cfg.le t.width n ++ xs) r
              ((ev, ((acc ++ encInt le1 t.width 0) ++ xs).length) :: (sv, (acc ++ encInt le1 t.width 0).length) :: (pv, acc.length) :: vars)
              hrest hcf' hcv' hs22 h22
            refine ⟨s', ?_, hbuf⟩
            have hsv_ne : (sv == ev) = false := by simpa using hne1
            have hpv_sv : (pv == sv) = false := by simpa using hne2
            have hpv_ev : (pv == ev) = false := by simpa using hne3
            have hev_sv : (ev == sv) = false := by
              simp only [beq_eq_false_iff_ne, ne_eq] at hsv_ne ⊢; exact fun e => hsv_ne e.symm
            have hev_pv : (ev == pv) = false := by
              simp only [beq_eq_false_iff_ne, ne_eq] at hpv_ev ⊢; exact fun e => hpv_ev e.symm
            have hsv_pv : (sv == pv) = false := by
              simp only [beq_eq_false_iff_ne, ne_eq] at hpv_sv ⊢; exact fun e => hpv_sv e.symm
            have e1 : stepE call reg cv (.slot t.width le1 pv) { buf := acc, vars := vars } =
                some { buf := acc ++ encInt le1 t.width 0, vars := (pv, acc.length) :: vars } := rfl
            have e2 : stepE call reg cv (.mark sv) { buf := acc ++ encInt le1 t.width 0, vars := (pv, acc.length) :: vars } =
                some { buf := acc ++ encInt le1 t.width 0, vars := (sv, (acc ++ encInt le1 t.width 0).length) :: (pv, acc.length) :: vars } := rfl
            have e4 : stepE call reg cv (.mark ev)
                { buf := acc ++ encInt le1 t.width 0 ++ xs, vars := (sv, (acc ++ encInt le1 t.width 0).length) :: (pv, acc.length) :: vars } =
                some { buf := acc ++ encInt le1 t.width 0 ++ xs,
                       vars := (ev, (acc ++ encInt le1 t.width 0 ++ xs).length) :: (sv, (acc ++ encInt le1 t.width 0).length) :: (pv, acc.length) :: vars } := rfl
            have hsub : (acc ++ encInt le1 t.width 0 ++ xs).length - (acc ++ encInt le1 t.width 0).length = xs.length := by
              simp; omega
            have e5 : stepE call reg cv (.patch t.width le2 pv sv ev slice)
                { buf := acc ++ encInt le1 t.width 0 ++ xs,
                  vars := (ev, (acc ++ encInt le1 t.width 0 ++ xs).length) :: (sv, (acc ++ encInt le1 t.width 0).length) :: (pv, acc.length) :: vars } =
                some { buf := acc ++ encInt S.cfg.le t.width n ++ xs,
                       vars := (ev, (acc ++ encInt le1 t.width 0 ++ xs).length) :: (sv, (acc ++ encInt le1 t.width 0).length) :: (pv, acc.length) :: vars } := by
              simp only [stepE, EState.get, List.lookup, beq_self_eq_true, hsv_ne, hpv_sv, hpv_ev,
                hslice, if_true, bind, Option.bind]
              rw [hsub, hpatch, encInt_leOk hle2, hn']
              rfl
            simp only [stepsE, e1, e2, hst3, e4, e5, bind, Option.bind]
            exact hrun
      · -- an ordinary field: exactly one step
        have hplain : ∃ st rest, steps = st :: rest ∧ plainOkE S i f st = true ∧ confFieldsE S cfs (i + 1) fs rest = true := by
          unfold confFieldsE at hconf
          cases hk : f.kind <;> cases hr : f.rep <;> simp only [hk, hr] at hconf <;>
            first
            | (exfalso; exact hlen ⟨⟨_, _, hk⟩, hr⟩)
            | (cases steps with
               | nil => simp at hconf
               | cons st rest =>
                 simp only [Bool.and_eq_true] at hconf
                 exact ⟨st, rest, rfl, hconf.1, hconf.2⟩)
        obtain ⟨st, rest, rfl, hp, hrest⟩ := hplain
        have hstep := plain_sound hc (vars := vars) hp hvi hdv hs1 h1
        have hcf' : ∀ j f, fs[j]? = some f → cfs[i + 1 + j]? = some f := by
          intro j f hj
          have := hcf (j + 1) f (by simpa using hj)
          simpa [Nat.add_assoc, Nat.add_comm 1 j] using this
        have hcv' : ∀ j v, vs[j]? = some v → cv[i + 1 + j]? = some v := by
          intro j v hj
          have := hcv (j + 1) v (by simpa using hj)
          simpa [Nat.add_assoc, Nat.add_comm 1 j] using this
        obtain ⟨s', hrun, hbuf⟩ := ih fs (by simp at hlenn; omega) (i + 1) vs rest acc1 r vars hrest hcf' hcv' hs2 h2
        exact ⟨s', by simp [stepsE, hstep, hrun], hbuf⟩

theorem find_spec {S : Schema} {pkt : String} {p : Packet} (h : S.find pkt = some p) : p ∈ S.packets ∧ p.name = pkt := by
  unfold Schema.find at h
  exact ⟨List.mem_of_find?_eq_some h, by simpa using List.find?_some h⟩

/-- Every nested call behaves like the specification, for every amount of fuel. -/
theorem callOK_all {S : Schema} {P : Prog} (hconf : confEnc S P = true) (reg : Registry) :
    ∀ fuel, CallOK S reg (encStruct P reg fuel) fuel := by
  intro fuel
  induction fuel with
  | zero => intro pkt vs acc r hd; omega
  | succ fuel ih =>
    intro pkt vs acc r hd hs hw
    unfold Wire.enc at hw
    obtain ⟨p, hp, hw⟩ := bind_eq_some'.mp hw
    obtain ⟨hmem, hname⟩ := find_spec hp
    have hpk : confPacketE S P p = true := by
      unfold confEnc at hconf
      exact List.all_eq_true.mp hconf p hmem
    unfold confPacketE at hpk
    rw [hname] at hpk
    cases hst : P.find pkt with
    | none => simp [hst] at hpk
    | some st =>
      simp only [hst, Bool.and_eq_true, decide_eq_true_eq] at hpk
      obtain ⟨hml, hcf⟩ := hpk
      have hlen := encFields_length p.fields vs acc r hw
      have hs' : lenSafeFields S p.fields vs = true := by simpa [lenSafeVal, hp] using hs
      obtain ⟨s', hrun, hbuf⟩ := frame_sound ih p.fields vs (by omega) p.fields.length p.fields (Nat.le_refl _)
        0 vs st.enc acc r [] hcf (by intro j f hj; simpa using hj) (by intro j v hj; simpa using hj) hs' hw
      simp only [encStruct, hst, bind, Option.bind]
      have : ¬ (st.members.length ≠ vs.length) := by omega
      simp only [this, if_false, hrun, hbuf]
      rfl

end FinProtoc.Proofs
