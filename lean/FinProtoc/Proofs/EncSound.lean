import FinProtoc.Conforms
import FinProtoc.Proofs.WireLemmas
import FinProtoc.Proofs.ConfInv
/-!
# Soundness of the encoder validator

`confEnc S P = true` ⇒ the emitted encoder `P` writes exactly `Wire.enc` for every
packet, message, registry and preceding buffer (messages in the `lenSafe` domain).
-/
namespace FinProtoc.Proofs
open FinProtoc FinProtoc.IR FinProtoc.Conforms FinProtoc.Wire

theorem encLE_one (n : Nat) : encLE 1 n = encBE 1 n := by simp [encBE, encLE]

theorem encInt_leOk {S : Schema} {w : Nat} {le : Bool} (h : leOk S w le = true) (n : Nat) :
    encInt le w n = encInt S.cfg.le w n := by
  simp only [leOk, Bool.or_eq_true, decide_eq_true_eq] at h
  rcases h with h | h
  · subst h; unfold encInt; cases le <;> cases S.cfg.le <;> simp [encLE_one]
  · rw [h]

theorem padOf_ok {p : Pad} {pad : Option Pad} (h : padArgOk p pad = true) : padOf pad = p := by
  cases pad with
  | none => simp [padArgOk] at h; simp [padOf, h]
  | some q => simp [padArgOk] at h; simp [padOf, h]

/-- what the induction hypothesis on fuel provides for nested packets -/
def CallOK (S : Schema) (reg : Registry) (call : ECall) (d : Nat) : Prop :=
  ∀ pkt vs acc r, depthList vs < d → lenSafeVal S (.obj pkt) (.struct vs) = true →
    Wire.enc S reg pkt vs acc = some r → call pkt vs acc = some r

theorem wire_obj {S : Schema} {reg cf cv pkt vs acc} :
    encVal S reg cf cv (.obj pkt) (.struct vs) acc = Wire.enc S reg pkt vs acc := by
  simp [encVal, Wire.enc]

theorem wire_match {S : Schema} {reg cf cv key pairs pkt vs acc} :
    encVal S reg cf cv (.matchOn key pairs) (.dyn pkt vs) acc = Wire.enc S reg pkt vs acc := by
  simp [encVal, Wire.enc]

theorem lenSafe_match_obj {S : Schema} {key pairs pkt vs} :
    lenSafeVal S (.matchOn key pairs) (.dyn pkt vs) = lenSafeVal S (.obj pkt) (.struct vs) := by
  simp [lenSafeVal]

/-- one list element -/
theorem elem_sound {S : Schema} {reg : Registry} {call : ECall} {d : Nat} (hc : CallOK S reg call d)
    {cf cv k e v acc r} (hok : elemOkE S k e = true) (hd : v.depth ≤ d) (hs : lenSafeVal S k v = true)
    (h : encVal S reg cf cv k v acc = some r) : encElem call e v acc = some r := by
  cases e with
  | scalar w le =>
    simp only [elemOkE, Bool.and_eq_true] at hok
    obtain ⟨hk, hle⟩ := hok
    cases k <;> simp at hk
    rename_i t; subst hk
    cases v <;> simp [encVal] at h
    subst h; simp [encElem, encInt_leOk hle]
  | string pw le cm =>
    simp only [elemOkE, Bool.and_eq_true, decide_eq_true_eq] at hok
    obtain ⟨⟨hk, hpw⟩, hle⟩ := hok
    subst hk hpw
    cases v <;> simp [encVal] at h
    subst h; simp [encElem, encInt_leOk hle]
  | fixed n pad =>
    cases k <;> simp [elemOkE] at hok
    rename_i n' p
    obtain ⟨hn, hp⟩ := hok; subst hn
    cases v <;> simp [encVal] at h
    rename_i bs
    obtain ⟨hlen, h⟩ := h; subst h
    simp [encElem, hlen, padOf_ok hp]
  | object ty =>
    simp only [elemOkE, decide_eq_true_eq] at hok
    subst hok
    cases v <;> simp [encVal] at h
    rename_i vs
    have hd' : depthList vs < d := by simp [Val.depth] at hd; omega
    have : Wire.enc S reg ty vs acc = some r := by simpa [Wire.enc] using h
    simpa [encElem] using hc ty vs acc r hd' hs this

theorem elems_sound {S : Schema} {reg : Registry} {call : ECall} {d : Nat} (hc : CallOK S reg call d)
    {cf cv k e} (hok : elemOkE S k e = true) :
    ∀ (es : List Val) acc r, depthList es ≤ d → lenSafeList S k es = true →
      encList S reg cf cv k es acc = some r → encElems call e es acc = some r := by
  intro es
  induction es with
  | nil => intro acc r _ _ h; simpa [encList, encElems] using h
  | cons v vs ih =>
    intro acc r hd hs h
    simp only [encList] at h
    obtain ⟨acc', h1, h2⟩ := bind_eq_some'.mp h
    simp only [lenSafeList, Bool.and_eq_true] at hs
    simp only [depthList] at hd
    have e1 := elem_sound hc hok (by omega) hs.1 h1
    have e2 := ih acc' r (by omega) hs.2 h2
    simp [encElems, e1, e2]

/-- the Wire-side expression `encFields` evaluates for one field -/
def wireField (S : Schema) (reg : Registry) (cf : List Field) (cv : List Val) (f : Field) (v : Val) (acc : Bytes) : Option Bytes :=
  if f.rep then
    match v with
    | .list es => encList S reg cf cv f.kind es (acc ++ encInt S.cfg.le S.cfg.listPfx.width es.length)
    | _ => none
  else encVal S reg cf cv f.kind v acc

def lenSafeField (S : Schema) (f : Field) (v : Val) : Bool :=
  if f.rep then (match v with | .list es => lenSafeList S f.kind es | _ => true) else lenSafeVal S f.kind v

theorem encFields_cons {S : Schema} {reg cf cv f fs v vs acc} :
    encFields S reg cf cv (f :: fs) (v :: vs) acc =
      (wireField S reg cf cv f v acc >>= fun a => encFields S reg cf cv fs vs a) := by
  unfold wireField
  cases v <;> simp [encFields]

/-- a field that is neither a length-of field nor its target -/
theorem plain_sound {S : Schema} {reg : Registry} {call : ECall} {d : Nat} (hc : CallOK S reg call d)
    {cv : List Val} {cfs : List Field} {i f st v acc r vars}
    (hok : plainOkE S i f st = true) (hv : cv[i]? = some v) (hd : v.depth ≤ d)
    (hs : lenSafeField S f v = true)
    (h : wireField S reg cfs cv f v acc = some r) :
    stepE call reg cv st { buf := acc, vars := vars } = some { buf := r, vars := vars } := by
  unfold plainOkE at hok
  unfold wireField at h
  unfold lenSafeField at hs
  by_cases hrep : f.rep
  · simp only [hrep, if_true] at hok h hs
    cases st <;> simp at hok
    rename_i pw le e j
    obtain ⟨⟨⟨hpw, hle⟩, he⟩, hj⟩ := hok
    subst hj hpw
    cases v <;> simp at h
    rename_i es
    simp only at hs
    have hd' : depthList es ≤ d := by simp [Val.depth] at hd; omega
    have := elems_sound hc he es _ r hd' hs h
    simp [stepE, hv, encInt_leOk hle, this]
  · simp only [hrep] at hok h hs
    cases hk : f.kind <;> rw [hk] at hok h hs <;> cases st <;> simp at hok
    · -- scalar
      rename_i t w le j
      obtain ⟨⟨hw, hle⟩, hj⟩ := hok; subst hj hw
      cases v <;> simp [encVal] at h
      subst h; simp [stepE, hv, encInt_leOk hle]
    · -- fixed
      rename_i n p n' pad j
      obtain ⟨⟨hn, hp⟩, hj⟩ := hok; subst hj hn
      cases v <;> simp [encVal] at h
      obtain ⟨hlen, h⟩ := h; subst h
      simp [stepE, hv, hlen, padOf_ok hp]
    · -- dyn
      rename_i pw le j
      obtain ⟨⟨hpw, hle⟩, hj⟩ := hok; subst hj hpw
      cases v <;> simp [encVal] at h
      subst h; simp [stepE, hv, encInt_leOk hle]
    · -- obj
      rename_i pkt ty j
      obtain ⟨hty, hj⟩ := hok; subst hj hty
      cases v <;> simp only [encVal] at h <;> try (simp at h; done)
      rename_i vs
      have hd' : depthList vs < d := by simp [Val.depth] at hd; omega
      have hw : Wire.enc S reg ty vs acc = some r := by simpa [Wire.enc] using h
      have := hc ty vs acc r hd' hs hw
      simp [stepE, hv, this]
    · -- match
      rename_i key pairs j
      subst hok
      cases v <;> simp only [encVal] at h <;> try (simp at h; done)
      rename_i pkt vs
      have hd' : depthList vs < d := by simp [Val.depth] at hd; omega
      have hw : Wire.enc S reg pkt vs acc = some r := by simpa [Wire.enc] using h
      rw [lenSafe_match_obj] at hs
      have := hc pkt vs acc r hd' hs hw
      simp [stepE, hv, this]
    · -- checksum
      rename_i t algo algo' w le j
      obtain ⟨⟨⟨ha, hw⟩, hle⟩, hj⟩ := hok; subst hj hw ha
      cases v <;> simp [encVal] at h
      subst h; simp [stepE, hv, encInt_leOk hle]
      rfl

theorem lookupSize_at {S : Schema} {target : String} :
    ∀ (cfs : List Field) (cv : List Val) (j : Nat) (f2 : Field) (v2 : Val),
      fieldIdx cfs target = some j → cfs[j]? = some f2 → cv[j]? = some v2 →
      lookupSize S cfs cv target = sizeField S f2 v2 := by
  intro cfs
  induction cfs with
  | nil => intro cv j f2 v2 _ hf; simp at hf
  | cons f fs ih =>
    intro cv j f2 v2 hidx hf hv
    cases cv with
    | nil => simp at hv
    | cons v vs =>
      unfold fieldIdx at hidx
      simp only [List.findIdx_cons] at hidx
      by_cases hn : f.name = target
      · simp [hn] at hidx
        subst hidx
        simp at hf hv; subst hf hv
        simp [lookupSize, hn]
      · simp only [hn, decide_false, cond_false, List.length_cons] at hidx
        split at hidx <;> simp at hidx
        rename_i hlt
        cases j with
        | zero => omega
        | succ j =>
          simp at hf hv
          have hidx' : fieldIdx fs target = some j := by
            unfold fieldIdx
            have : List.findIdx (fun x => decide (x.name = target)) fs = j := by omega
            simp [this]; omega
          simp [lookupSize, hn, ih vs j f2 v2 hidx' hf hv]

theorem setAt_mid (a z x : Bytes) (y : Bytes) (h : y.length = z.length) :
    setAt (a ++ z ++ x) a.length y = some (a ++ y ++ x) := by
  unfold setAt
  have h1 : a.length + y.length ≤ (a ++ z ++ x).length := by simp; omega
  simp only [h1, if_true]
  congr 1
  have e1 : (a ++ z ++ x).take a.length = a := by simp [List.append_assoc]
  have e2 : (a ++ z ++ x).drop (a.length + y.length) = x := by
    rw [h, List.append_assoc, List.drop_append]
    simp
  rw [e1, e2]

theorem encFields_length {S : Schema} {reg cf cv} :
    ∀ (fs : List Field) (vs : List Val) acc r, encFields S reg cf cv fs vs acc = some r → fs.length = vs.length := by
  intro fs
  induction fs with
  | nil => intro vs acc r h; cases vs <;> simp [encFields] at h ⊢
  | cons f fs ih =>
    intro vs acc r h
    cases vs with
    | nil => simp [encFields] at h
    | cons v vs =>
      rw [encFields_cons] at h
      obtain ⟨a, _, h2⟩ := bind_eq_some'.mp h
      simp [ih vs a r h2]

theorem lenSafeFields_cons {S : Schema} {f fs v vs} (h : lenSafeFields S (f :: fs) (v :: vs) = true) :
    lenSafeField S f v = true ∧ lenSafeFields S fs vs = true ∧
      (∀ t target, f.kind = .lengthOf t target → ckFreeUpTo S target fs vs = true) := by
  unfold lenSafeFields at h
  simp only [Bool.and_eq_true] at h
  obtain ⟨⟨h1, h2⟩, h3⟩ := h
  refine ⟨by unfold lenSafeField; exact h1, h3, ?_⟩
  intro t target hk
  rw [hk] at h2
  simpa using h2

/-! ### Facts about one field of the wire side -/

theorem wireField_size {S : Schema} {reg cf cv f v acc r} (h : wireField S reg cf cv f v acc = some r) :
    ∃ xs, r = acc ++ xs ∧ sizeField S f v = some xs.length := by
  unfold wireField at h
  unfold sizeField
  by_cases hrep : f.rep
  · simp only [hrep, if_true] at h ⊢
    cases v <;> simp at h
    rename_i es
    obtain ⟨xs, rfl, hs⟩ := encList_size h
    refine ⟨encInt S.cfg.le S.cfg.listPfx.width es.length ++ xs, by simp [List.append_assoc], ?_⟩
    simp [hs]
  · simp only [hrep] at h ⊢
    obtain ⟨xs, rfl, hs⟩ := encVal_size h
    exact ⟨xs, rfl, by simpa using hs⟩

theorem wireField_prefix {S : Schema} {reg cf cv f v acc xs} (hck : ckFreeField S f v = true)
    (h : wireField S reg cf cv f v acc = some (acc ++ xs)) (acc' : Bytes) :
    wireField S reg cf cv f v acc' = some (acc' ++ xs) := by
  unfold wireField at h ⊢
  unfold ckFreeField at hck
  by_cases hrep : f.rep
  · simp only [hrep, if_true] at h hck ⊢
    cases v <;> simp at h
    rename_i es
    simp only at hck
    obtain ⟨ys, hys, _⟩ := encList_size h
    have hxs : xs = encInt S.cfg.le S.cfg.listPfx.width es.length ++ ys := by
      have := hys; simp only [List.append_assoc] at this
      exact List.append_cancel_left this
    subst hxs
    have h' : encList S reg cf cv f.kind es (acc ++ encInt S.cfg.le S.cfg.listPfx.width es.length) =
        some ((acc ++ encInt S.cfg.le S.cfg.listPfx.width es.length) ++ ys) := by rw [h, hys]
    have := (enc_prefix_all S reg).2.2 cf cv f.kind es _ ys hck h' (acc' ++ encInt S.cfg.le S.cfg.listPfx.width es.length)
    simpa [List.append_assoc] using this
  · simp only [hrep] at h hck ⊢
    exact encVal_prefix hck h acc'

/-! ### The relation between the specification's buffer and the emitted encoder's buffer

Outside a pending length field they are equal.  While a length field waits for its target the emitted buffer holds
the zero placeholder where the specification already has the length; the position variable points at it. -/
def BufRel (S : Schema) (cfs : List Field) (cv : List Val) :
    Option Pending → Bytes → Bytes → List (String × Nat) → List Field → List Val → Prop
  | none, accW, accE, _, _, _ => accE = accW
  | some p, accW, accE, vars, fs, vs =>
    ∃ a mid n le1, accW = a ++ encInt S.cfg.le p.w n ++ mid ∧ accE = a ++ encInt le1 p.w 0 ++ mid ∧
      vars.lookup p.pv = some a.length ∧ lookupSize S cfs cv p.target = some n ∧ ckFreeUpTo S p.target fs vs = true

/-- all the fields of one packet frame -/
theorem frame_sound {S : Schema} {reg : Registry} {call : ECall} {d : Nat} (hc : CallOK S reg call d)
    (cfs : List Field) (cv : List Val) (hd : depthList cv ≤ d) :
    ∀ (fs : List Field) (pend : Option Pending) (i : Nat) (vs : List Val) (steps : List EStep)
      (accW accE r : Bytes) (vars : List (String × Nat)),
      confFieldsE S cfs pend i fs steps = true →
      (∀ j f, fs[j]? = some f → cfs[i + j]? = some f) →
      (∀ j v, vs[j]? = some v → cv[i + j]? = some v) →
      lenSafeFields S fs vs = true →
      BufRel S cfs cv pend accW accE vars fs vs →
      encFields S reg cfs cv fs vs accW = some r →
      ∃ s', stepsE call reg cv steps { buf := accE, vars := vars } = some s' ∧ s'.buf = r := by
  intro fs
  induction fs with
  | nil =>
    intro pend i vs steps accW accE r vars hconf _ _ _ hrel h
    cases vs <;> simp [encFields] at h
    subst h
    cases pend with
    | some p => simp [confFieldsE] at hconf
    | none =>
      cases steps <;> simp [confFieldsE] at hconf
      simp only [BufRel] at hrel
      subst hrel
      exact ⟨_, rfl, rfl⟩
  | cons f fs ih =>
    intro pend i vs steps accW accE r vars hconf hcf hcv hs hrel h
    cases vs with
    | nil => simp [encFields] at h
    | cons v vs =>
      rw [encFields_cons] at h
      obtain ⟨acc1, h1, h2⟩ := bind_eq_some'.mp h
      obtain ⟨hs1, hs2, hs3⟩ := lenSafeFields_cons hs
      have hfi : cfs[i]? = some f := by simpa using hcf 0 f (by simp)
      have hvi : cv[i]? = some v := by simpa using hcv 0 v (by simp)
      have hdv : v.depth ≤ d := Nat.le_trans (depth_le_of_getElem? hvi) hd
      have hcf' : ∀ j g, fs[j]? = some g → cfs[i + 1 + j]? = some g := by
        intro j g hj
        have := hcf (j + 1) g (by simpa using hj)
        simpa [Nat.add_assoc, Nat.add_comm 1 j] using this
      have hcv' : ∀ j w, vs[j]? = some w → cv[i + 1 + j]? = some w := by
        intro j w hj
        have := hcv (j + 1) w (by simpa using hj)
        simpa [Nat.add_assoc, Nat.add_comm 1 j] using this
      cases hrole : roleOf pend f with
      | len t target =>
        obtain ⟨hk, hrep, hpend⟩ := roleOf_len hrole
        subst hpend
        obtain ⟨le1, pv, rest, rfl, _, hrest⟩ := confFieldsE_len hrole hconf
        have hE : accW = accE := by simpa [BufRel] using hrel.symm
        subst hE
        -- the wire side of the length field
        unfold wireField at h1
        simp only [hrep, hk] at h1
        cases v <;> simp only [encVal] at h1 <;> try (simp at h1; done)
        obtain ⟨n, hn, h1⟩ := bind_eq_some'.mp h1
        simp at h1; subst h1
        have hrel' : BufRel S cfs cv (some ⟨pv, t.width, target⟩) (accW ++ encInt S.cfg.le t.width n)
            (accW ++ encInt le1 t.width 0) ((pv, accW.length) :: vars) fs vs := by
          refine ⟨accW, [], n, le1, by simp, by simp, by simp [List.lookup], hn, hs3 t target hk⟩
        obtain ⟨s', hrun, hbuf⟩ := ih (some ⟨pv, t.width, target⟩) (i + 1) vs rest _ _ r _ hrest hcf' hcv' hs2 hrel' h2
        refine ⟨s', ?_, hbuf⟩
        have e1 : stepE call reg cv (.slot t.width le1 pv) { buf := accW, vars := vars } =
            some { buf := accW ++ encInt le1 t.width 0, vars := (pv, accW.length) :: vars } := rfl
        simp only [stepsE, e1, bind, Option.bind]
        exact hrun
      | target p =>
        obtain ⟨hpend, hname⟩ := roleOf_target hrole
        subst hpend
        obtain ⟨sv, st2, ev, le2, slice, rest, rfl, hle2, hne1, hne2, hne3, hidx, hrep2, _, hslice, hp2, hrest⟩ :=
          confFieldsE_target hrole hconf
        obtain ⟨a, mid, n, le1, haw, hae, hlook, hsize, hck⟩ := hrel
        subst haw hae
        -- the target is checksum-free
        have hckf : ckFreeField S f v = true := by
          unfold ckFreeUpTo at hck
          simp only [Bool.and_eq_true] at hck
          exact hck.1
        -- the wire side of the target
        obtain ⟨xs, hacc1, hsz⟩ := wireField_size h1
        subst hacc1
        have hn : n = xs.length := by
          have := lookupSize_at (S := S) cfs cv i f v hidx hfi hvi
          rw [this, hsz] at hsize
          simpa using hsize.symm
        -- the same target encoded behind the placeholder
        have hw2f := wireField_prefix hckf h1 (a ++ encInt le1 p.w 0 ++ mid)
        have hst := plain_sound hc (vars := (sv, (a ++ encInt le1 p.w 0 ++ mid).length) :: vars) hp2 hvi hdv hs1 hw2f
        -- the patch
        have hpatch : setAt (a ++ encInt le1 p.w 0 ++ (mid ++ xs)) a.length (encInt le2 p.w xs.length)
            = some (a ++ encInt le2 p.w xs.length ++ (mid ++ xs)) := by
          apply setAt_mid; simp
        have hrel' : BufRel S cfs cv none (a ++ encInt S.cfg.le p.w n ++ mid ++ xs) (a ++ encInt S.cfg.le p.w n ++ mid ++ xs)
            ((ev, (a ++ encInt le1 p.w 0 ++ mid ++ xs).length) :: (sv, (a ++ encInt le1 p.w 0 ++ mid).length) :: vars) fs vs := rfl
        obtain ⟨s', hrun, hbuf⟩ := ih none (i + 1) vs rest _ _ r _ hrest hcf' hcv' hs2 hrel' h2
        refine ⟨s', ?_, hbuf⟩
        have hsv_ne : (sv == ev) = false := by simpa using hne1
        have hpv_sv : (p.pv == sv) = false := by simpa using hne2
        have hpv_ev : (p.pv == ev) = false := by simpa using hne3
        have e1 : stepE call reg cv (.mark sv) { buf := a ++ encInt le1 p.w 0 ++ mid, vars := vars } =
            some { buf := a ++ encInt le1 p.w 0 ++ mid, vars := (sv, (a ++ encInt le1 p.w 0 ++ mid).length) :: vars } := rfl
        have e3 : stepE call reg cv (.mark ev)
            { buf := a ++ encInt le1 p.w 0 ++ mid ++ xs, vars := (sv, (a ++ encInt le1 p.w 0 ++ mid).length) :: vars } =
            some { buf := a ++ encInt le1 p.w 0 ++ mid ++ xs,
                   vars := (ev, (a ++ encInt le1 p.w 0 ++ mid ++ xs).length) :: (sv, (a ++ encInt le1 p.w 0 ++ mid).length) :: vars } := rfl
        have hsub : (a ++ encInt le1 p.w 0 ++ mid ++ xs).length - (a ++ encInt le1 p.w 0 ++ mid).length = xs.length := by
          simp; omega
        have e4 : stepE call reg cv (.patch p.w le2 p.pv sv ev slice)
            { buf := a ++ encInt le1 p.w 0 ++ mid ++ xs,
              vars := (ev, (a ++ encInt le1 p.w 0 ++ mid ++ xs).length) :: (sv, (a ++ encInt le1 p.w 0 ++ mid).length) :: vars } =
            some { buf := a ++ encInt S.cfg.le p.w n ++ mid ++ xs,
                   vars := (ev, (a ++ encInt le1 p.w 0 ++ mid ++ xs).length) :: (sv, (a ++ encInt le1 p.w 0 ++ mid).length) :: vars } := by
          have hbuf' : a ++ encInt le1 p.w 0 ++ mid ++ xs = a ++ encInt le1 p.w 0 ++ (mid ++ xs) := by simp [List.append_assoc]
          simp only [stepE, EState.get, List.lookup, beq_self_eq_true, hsv_ne, hpv_sv, hpv_ev, hlook,
            hslice, if_true, bind, Option.bind]
          rw [hsub, hbuf', hpatch, encInt_leOk hle2, hn]
          simp [List.append_assoc]
        simp only [stepsE, e1, hst, e3, e4, bind, Option.bind]
        exact hrun
      | plain =>
        obtain ⟨st, rest, rfl, hp, hrest⟩ := confFieldsE_plain hrole hconf
        cases pend with
        | none =>
          have hE : accW = accE := by simpa [BufRel] using hrel.symm
          subst hE
          have hstep := plain_sound hc (vars := vars) hp hvi hdv hs1 h1
          have hrel' : BufRel S cfs cv none acc1 acc1 vars fs vs := rfl
          obtain ⟨s', hrun, hbuf⟩ := ih none (i + 1) vs rest acc1 acc1 r vars hrest hcf' hcv' hs2 hrel' h2
          refine ⟨s', ?_, hbuf⟩
          simp only [stepsE, hstep, bind, Option.bind]
          exact hrun
        | some p =>
          have hname := roleOf_plain_some hrole
          obtain ⟨a, mid, n, le1, haw, hae, hlook, hsize, hck⟩ := hrel
          subst haw hae
          unfold ckFreeUpTo at hck
          simp only [Bool.and_eq_true, Bool.or_eq_true, beq_iff_eq] at hck
          obtain ⟨hckf, hck'⟩ := hck
          have hck'' : ckFreeUpTo S p.target fs vs = true := by
            rcases hck' with hk | hk
            · exact absurd hk hname
            · exact hk
          obtain ⟨xs, hacc1, _⟩ := wireField_size h1
          subst hacc1
          have hw2f := wireField_prefix hckf h1 (a ++ encInt le1 p.w 0 ++ mid)
          have hstep := plain_sound hc (vars := vars) hp hvi hdv hs1 hw2f
          have hrel' : BufRel S cfs cv (some p) (a ++ encInt S.cfg.le p.w n ++ mid ++ xs) (a ++ encInt le1 p.w 0 ++ mid ++ xs) vars fs vs :=
            ⟨a, mid ++ xs, n, le1, by simp [List.append_assoc], by simp [List.append_assoc], hlook, hsize, hck''⟩
          obtain ⟨s', hrun, hbuf⟩ := ih (some p) (i + 1) vs rest _ _ r vars hrest hcf' hcv' hs2 hrel' h2
          refine ⟨s', ?_, hbuf⟩
          simp only [stepsE, hstep, bind, Option.bind]
          exact hrun
      | bad => exact (confFieldsE_bad hrole hconf).elim

theorem find_spec {S : Schema} {pkt : String} {p : Packet} (h : S.find pkt = some p) : p ∈ S.packets ∧ p.name = pkt := by
  unfold Schema.find at h
  exact ⟨List.mem_of_find?_eq_some h, by simpa using List.find?_some h⟩

/-- Every nested call behaves like the specification, for every amount of fuel. -/
theorem callOK_all {S : Schema} {P : Prog} (hconf : confEnc S P = true) (reg : Registry) :
    ∀ fuel, CallOK S reg (encStruct P reg fuel) fuel := by
  intro fuel
  induction fuel with
  | zero => intro pkt vs acc r hd; omega
  | succ fuel ih =>
    intro pkt vs acc r hd hs hw
    unfold Wire.enc at hw
    obtain ⟨p, hp, hw⟩ := bind_eq_some'.mp hw
    obtain ⟨hmem, hname⟩ := find_spec hp
    have hpk : confPacketE S P p = true := by
      unfold confEnc at hconf
      exact List.all_eq_true.mp hconf p hmem
    unfold confPacketE at hpk
    rw [hname] at hpk
    cases hst : P.find pkt with
    | none => simp [hst] at hpk
    | some st =>
      simp only [hst, Bool.and_eq_true, decide_eq_true_eq] at hpk
      obtain ⟨hml, hcf⟩ := hpk
      have hlen := encFields_length p.fields vs acc r hw
      have hs' : lenSafeFields S p.fields vs = true := by simpa [lenSafeVal, hp] using hs
      obtain ⟨s', hrun, hbuf⟩ := frame_sound ih p.fields vs (by omega) p.fields none
        0 vs st.enc acc acc r [] hcf (by intro j f hj; simpa using hj) (by intro j v hj; simpa using hj) hs' rfl hw
      simp only [encStruct, hst, bind, Option.bind]
      have : ¬ (st.members.length ≠ vs.length) := by omega
      simp only [this, if_false, hrun, hbuf]
      rfl

end FinProtoc.Proofs
