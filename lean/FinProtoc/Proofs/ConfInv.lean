import FinProtoc.Conforms
/-!
# Inversion lemmas for the encoder validator

`confFieldsE` decides, field by field, which steps the emitted encoder must consist of; these lemmas turn
`confFieldsE … (f :: fs) steps = true` back into the shape of `steps`, by the role of `f`.
-/
namespace FinProtoc.Conforms
open FinProtoc FinProtoc.IR

theorem roleOf_len {pend : Option Pending} {f : Field} {t : Scalar} {target : String} (h : roleOf pend f = .len t target) :
    f.kind = .lengthOf t target ∧ f.rep = false ∧ pend = none := by
  unfold roleOf at h
  cases hk : f.kind <;> cases hr : f.rep <;> cases pend <;> simp only [hk, hr] at h <;>
    first
    | (injection h with h1 h2; subst h1 h2; exact ⟨rfl, rfl, rfl⟩)
    | (split at h <;> cases h)
    | cases h

theorem roleOf_target {pend : Option Pending} {f : Field} {p : Pending} (h : roleOf pend f = .target p) :
    pend = some p ∧ f.name = p.target := by
  unfold roleOf at h
  cases hk : f.kind <;> cases hr : f.rep <;> cases pend <;> simp only [hk, hr] at h <;>
    first
    | cases h
    | (split at h
       · rename_i hn; injection h with h1; subst h1; exact ⟨rfl, hn⟩
       · cases h)

theorem roleOf_plain_some {f : Field} {p : Pending} (h : roleOf (some p) f = .plain) : f.name ≠ p.target := by
  unfold roleOf at h
  cases hk : f.kind <;> cases hr : f.rep <;> simp only [hk, hr] at h <;>
    first
    | cases h
    | (split at h
       · cases h
       · assumption)

theorem confFieldsE_len {S : Schema} {all : List Field} {pend : Option Pending} {i : Nat} {f : Field} {fs : List Field}
    {steps : List EStep} {t : Scalar} {target : String}
    (hrole : roleOf pend f = .len t target) (h : confFieldsE S all pend i (f :: fs) steps = true) :
    ∃ le1 pv rest, steps = .slot t.width le1 pv :: rest ∧ leOk S t.width le1 = true ∧
      confFieldsE S all (some ⟨pv, t.width, target⟩) (i + 1) fs rest = true := by
  unfold confFieldsE at h
  simp only [hrole] at h
  cases steps with
  | nil => simp at h
  | cons s1 rest =>
    cases s1 <;> try (simp at h; done)
    rename_i w1 le1 pv
    simp only [Bool.and_eq_true, decide_eq_true_eq] at h
    obtain ⟨⟨hw1, hle⟩, hrest⟩ := h
    subst hw1
    exact ⟨le1, pv, rest, rfl, hle, hrest⟩

theorem confFieldsE_plain {S : Schema} {all : List Field} {pend : Option Pending} {i : Nat} {f : Field} {fs : List Field}
    {steps : List EStep} (hrole : roleOf pend f = .plain) (h : confFieldsE S all pend i (f :: fs) steps = true) :
    ∃ st rest, steps = st :: rest ∧ plainOkE S i f st = true ∧ confFieldsE S all pend (i + 1) fs rest = true := by
  unfold confFieldsE at h
  simp only [hrole] at h
  cases steps with
  | nil => simp at h
  | cons st rest =>
    simp only [Bool.and_eq_true] at h
    exact ⟨st, rest, rfl, h.1, h.2⟩

theorem confFieldsE_bad {S : Schema} {all : List Field} {pend : Option Pending} {i : Nat} {f : Field} {fs : List Field}
    {steps : List EStep} (hrole : roleOf pend f = .bad) (h : confFieldsE S all pend i (f :: fs) steps = true) : False := by
  unfold confFieldsE at h
  simp [hrole] at h

theorem confFieldsE_target {S : Schema} {all : List Field} {pend : Option Pending} {i : Nat} {f : Field} {fs : List Field}
    {steps : List EStep} {p : Pending}
    (hrole : roleOf pend f = .target p) (h : confFieldsE S all pend i (f :: fs) steps = true) :
    ∃ sv st2 ev le2 slice rest, steps = .mark sv :: st2 :: .mark ev :: .patch p.w le2 p.pv sv ev slice :: rest ∧
      leOk S p.w le2 = true ∧ sv ≠ ev ∧ p.pv ≠ sv ∧ p.pv ≠ ev ∧ fieldIdx all p.target = some i ∧ f.rep = false ∧
      isCallKind f.kind = true ∧ sliceOk p.w slice = true ∧ plainOkE S i f st2 = true ∧ confFieldsE S all none (i + 1) fs rest = true := by
  unfold confFieldsE at h
  simp only [hrole] at h
  cases steps with
  | nil => simp at h
  | cons s1 steps1 =>
    cases s1 with
    | mark sv =>
      cases steps1 with
      | nil => simp at h
      | cons st2 steps2 =>
        cases steps2 with
        | nil => simp at h
        | cons s3 steps3 =>
          cases s3 with
          | mark ev =>
            cases steps3 with
            | nil => simp at h
            | cons s4 rest =>
              cases s4 with
              | patch w2 le2 pv' sv' ev' slice =>
                simp only [Bool.and_eq_true, decide_eq_true_eq, bne_iff_ne, ne_eq, Bool.not_eq_true', and_assoc] at h
                obtain ⟨hw2, hle2, hpv, hsv, hev, hne1, hne2, hne3, hidx, hrep2, hcall, hslice, hp2, hrest⟩ := h
                subst hpv hsv hev hw2
                exact ⟨sv', st2, ev', le2, slice, rest, rfl, hle2, hne1, hne2, hne3, hidx, hrep2, hcall, hslice, hp2, hrest⟩
              | _ => simp at h
          | _ => simp at h
    | _ => simp at h

end FinProtoc.Conforms
