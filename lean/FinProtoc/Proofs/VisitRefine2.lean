import FinProtoc.Proofs.VisitRefine
import FinProtoc.Proofs.VisitDiag2
/-!
# Refinement on the fragment with MetaData reference entries (`WFRefs`)

A reference entry `Type name` makes the visitor register `name` with THE attribute object of `Type` (same slot, same pad
cell for a `zchar[n]`); the declarative reading gives `name` the declared type of `Type`.  Everything after the MetaData
phase is `refines_tail` of `VisitRefine.lean`.
-/
namespace FinProtoc.Visit
open FinProtoc FinProtoc.Dsl

theorem MetaRel.addMeta {s sN : VState} {m : MMeta} {ds0 : List (String × DTy)} {n : String} {t : DTy} {a : Nat} {k : AttrK}
    (h1 : MetaRel s s.metas ds0) (ha : sN.attrs = s.attrs) (hpd : sN.pads = s.pads) (hmn : m.name = n)
    (hma : m.attr = some a) (hk1 : s.attrs[a]? = some k) (hk3 : AttrDTy s k t) :
    MetaRel sN (s.metas ++ [m]) (ds0 ++ [(n, t)]) := by
  have h2 : MetaRel sN s.metas ds0 := MetaRel.mono (Pres.of_eq ha) (PresP.of_eq hpd) h1
  exact MetaRel.snoc (s := sN) (m := m) (d := (n, t))
    ⟨hmn, a, k, hma, by rw [ha]; exact hk1, hk3.mono (PresP.of_eq hpd)⟩ h2

/-- a reference to a registered entry, under a fresh name: the new entry stands for the type of the entry referred to -/
theorem metaRef_rel (r : RefMetaDecl) (s : VState) (ds0 : List (String × DTy)) (hr : MetaRel s s.metas ds0)
    (hk : (findMeta s r.typ.text).isSome = true) (hnew : (findMeta s r.name.text).isSome = false) :
    wlp (metaEntryStep (.ref r)) (fun _ s' => MetaRel s' s'.metas (metasStep ds0 (.ref r))) s := by
  unfold metaEntryStep
  dsimp only
  wls
  cases hm : findMeta s r.typ.text with
  | none => rw [hm] at hk; cases hk
  | some m =>
    obtain ⟨t, a, k, h1, h2, h3, h4⟩ := hr.find hm
    simp only [Option.isNone_some, Bool.false_eq_true, if_false, Option.bind_some, h2, Option.isSome_some, if_true]
    wls
    rw [addMetaS_fresh _ _ hnew]
    have hstep : metasStep ds0 (.ref r) = ds0 ++ [(r.name.text, t)] := by
      show (match ds0.lookup r.typ.text with | some t => ds0 ++ [(r.name.text, t)] | none => ds0) = _
      rw [h1]
    rw [hstep]
    exact MetaRel.addMeta hr rfl rfl rfl rfl h3 h4

theorem metaLoop_ref2 : ∀ (l : List MetaEntry) (s0 s : VState) (ds0 : List (String × DTy)), Inv s → s.diags = s0.diags →
    NoPk s → MetaRel s s.metas ds0 → EntriesOK (s.metas.map (·.name)) l →
    (∀ e, e ∈ l → ∀ d, e = .decl d → (dtyOf d.ty).isSome = true) →
    (s.metas.map (·.name) ++ l.map entryName).Nodup →
    wlp (l.forM metaEntryStep) (fun _ s' => Inv s' ∧ s'.diags = s0.diags ∧ NoPk s' ∧
      s'.metas.map (·.name) = s.metas.map (·.name) ++ l.map entryName ∧ s'.options = s.options ∧
      MetaRel s' s'.metas (l.foldl metasStep ds0)) s
  | [], s0, s, ds0, hi, hd, hn, hr, _, _, _ => (wlp_pure ..).2 ⟨hi, hd, hn, by simp, rfl, hr⟩
  | .decl d :: l, s0, s, ds0, hi, hd, hn, hr, he, hlex, hnd => by
    rw [forM_cons', wlp_bind, ← wlp_forM_single]
    have hnd1 : (s.metas.map (·.name) ++ [MetaEntry.decl d].map entryName).Nodup := by
      have := hnd
      rw [show (MetaEntry.decl d :: l).map entryName = [MetaEntry.decl d].map entryName ++ l.map entryName from rfl,
        ← List.append_assoc] at this
      exact (List.nodup_append.1 this).1
    refine wlp_mono (metaLoop_ref [.decl d] s0 s ds0 hi hd hn hr
      (fun e h => by cases List.mem_singleton.1 h; exact ⟨d, rfl, he.1, hlex _ (List.mem_cons_self ..) d rfl⟩) hnd1) ?_
    intro _ s1 ⟨hi1, hd1, hn1, hm1, ho1, hr1⟩
    have hm1' : s1.metas.map (·.name) = s.metas.map (·.name) ++ [d.name.text] := hm1
    refine wlp_mono (metaLoop_ref2 l s0 s1 _ hi1 hd1 hn1 hr1 (by rw [hm1']; exact he.2)
      (fun e h => hlex e (List.mem_cons_of_mem _ h)) ?_) ?_
    · rw [hm1', List.append_assoc]; exact hnd
    · intro _ s2 ⟨h1, h2, h3, h4, h5, h6⟩
      refine ⟨h1, h2, h3, ?_, h5.trans ho1, h6⟩
      rw [h4, hm1', List.append_assoc]; rfl
  | .ref r :: l, s0, s, ds0, hi, hd, hn, hr, he, hlex, hnd => by
    rw [forM_cons', wlp_bind]
    have hk : (findMeta s r.typ.text).isSome = true := (findMeta_isSome_iff s _).2 he.1
    have hnew : (findMeta s r.name.text).isSome = false := by
      cases hh : (findMeta s r.name.text).isSome with
      | false => rfl
      | true =>
        exfalso
        have h1 := (findMeta_isSome_iff s _).1 hh
        exact (List.nodup_append.1 hnd).2.2 _ h1 r.name.text (by simp [entryName]) rfl
    refine wlp_mono (wlp_and (metaRef_ok r s hi hk hnew) (metaRef_rel r s ds0 hr hk hnew)) ?_
    intro _ s1 ⟨⟨hi1, hd1, hp1, hr1, hm1, ho1⟩, hrel⟩
    refine wlp_mono (metaLoop_ref2 l s0 s1 _ hi1 (hd1.trans hd) ⟨hp1.trans hn.1, hr1.trans hn.2⟩ hrel
      (by rw [hm1]; exact he.2) (fun e h => hlex e (List.mem_cons_of_mem _ h)) ?_) ?_
    · rw [hm1, List.append_assoc]; exact hnd
    · intro _ s2 ⟨h1, h2, h3, h4, h5, h6⟩
      refine ⟨h1, h2, h3, ?_, h5.trans ho1, h6⟩
      rw [h4, hm1, List.append_assoc]; rfl

theorem visitCst_refines_refs (c : Cst) (h : WFRefs c) (ha : Agree c) :
    wlp (visitCst c) (fun _ s' => schemaOf s' = specOf c ∧ (specOf c).isSome = true) {} := by
  rw [wlp_visitCst, metaLoop_eq]
  refine wlp_mono (metaLoop_ref2 (c.defs.flatMap entriesOf) {} {} [] Inv.empty rfl ⟨rfl, rfl⟩ trivial h.metaOK
    (fun e he d hd => ha.metaTy e he d hd) (by simpa [metaNames, metaEntries] using h.metaNodup)) ?_
  intro _ s1 ⟨hi1, hd1, hn1, hm1, ho1, hr1⟩
  exact refines_tail c h.optOK h.optNodup h.pktNodup h.oneRoot h.packets ha s1 hi1 hd1 hn1
    (by rw [hm1]; simp [metaNames, metaEntries]) ho1 (by rw [metasOf_eq]; exact hr1)

/-- **Refinement, flat fragment with MetaData reference entries.** -/
theorem visit_refines_spec_refs (c : Cst) (h : WFRefs c) (ha : Agree c) (s : VState) (hr : run c = .ok s) :
    schemaOf s = specOf c ∧ (specOf c).isSome = true :=
  run_of_wlp (Q := fun s => schemaOf s = specOf c ∧ (specOf c).isSome = true) (visitCst_refines_refs c h ha) hr

end FinProtoc.Visit
