import FinProtoc.Conforms
import FinProtoc.Proofs.EncSound
/-!
# Soundness of the decoder validator

`confDec S P = true` ⇒ whenever the declared decoder `Wire.dec` reads a message from a
byte string, the emitted decoder `P` reads the same field values and leaves the same
unread bytes (`dec_sound_all`), and a match key that is absent from the DSL's table makes
the emitted decoder fail (`dispatch_miss`).
-/
namespace FinProtoc.Proofs
open FinProtoc FinProtoc.IR FinProtoc.Conforms FinProtoc.Wire

theorem takeN_length {n : Nat} {bs x r : Bytes} (h : takeN n bs = some (x, r)) : x.length = n := by
  unfold takeN at h
  split at h
  · simp at h; obtain ⟨rfl, _⟩ := h; simp; omega
  · simp at h

theorem decInt_leOk {S : Schema} {w : Nat} {le : Bool} (h : leOk S w le = true) {x : Bytes} (hx : x.length = w) :
    decInt le x = decInt S.cfg.le x := by
  simp only [leOk, Bool.or_eq_true, decide_eq_true_eq] at h
  rcases h with h | h
  · subst h
    match x, hx with
    | [b], _ => unfold decInt decBE; cases le <;> cases S.cfg.le <;> simp
  · rw [h]

/-- the emitted nested decoders agree with the declared ones -/
def CallD (_S : Schema) (wcall : Wire.DCall) (icall : Wire.DCall) : Prop :=
  ∀ pkt bs res, wcall pkt bs = some res → icall pkt bs = some res

theorem elemD_sound {S : Schema} {wcall icall : Wire.DCall} (hc : CallD S wcall icall)
    {k e bs res} (hok : elemOkD S k e = true) (h : decPlain S wcall k bs = some res) :
    decElem icall e bs = some res := by
  cases e with
  | scalar w le =>
    simp only [elemOkD, Bool.and_eq_true] at hok
    obtain ⟨hk, hle⟩ := hok
    cases k <;> simp at hk
    rename_i t; subst hk
    simp only [decPlain] at h
    obtain ⟨⟨x, r⟩, hx, h⟩ := bind_eq_some'.mp h
    simp at h; subst h
    simp [decElem, hx, decInt_leOk hle (takeN_length hx)]
  | string pw le cm =>
    simp only [elemOkD, Bool.and_eq_true, decide_eq_true_eq] at hok
    obtain ⟨⟨⟨hk, hpw⟩, hle⟩, hcm⟩ := hok
    subst hk hpw hcm
    simp only [decPlain] at h
    obtain ⟨⟨x, r⟩, hx, h⟩ := bind_eq_some'.mp h
    obtain ⟨⟨y, r'⟩, hy, h⟩ := bind_eq_some'.mp h
    simp at h; subst h
    simp [decElem, hx, readCount, decInt_leOk hle (takeN_length hx), hy]
  | fixed n pad =>
    cases k <;> simp [elemOkD] at hok
    rename_i n' p
    obtain ⟨hn, hp⟩ := hok; subst hn
    simp only [decPlain] at h
    obtain ⟨⟨x, r⟩, hx, h⟩ := bind_eq_some'.mp h
    simp at h; subst h
    simp [decElem, hx, padOf_ok hp]
  | object ty =>
    simp only [elemOkD, decide_eq_true_eq] at hok
    subst hok
    simp only [decPlain] at h
    obtain ⟨⟨vs, r⟩, hx, h⟩ := bind_eq_some'.mp h
    simp at h; subst h
    simp [decElem, hc ty bs _ hx]

theorem elemsD_sound {S : Schema} {wcall icall : Wire.DCall} (hc : CallD S wcall icall)
    {k e} (hok : elemOkD S k e = true) :
    ∀ (n : Nat) bs res, decListN S wcall k n bs = some res → decElems icall e n bs = some res := by
  intro n
  induction n with
  | zero => intro bs res h; simpa [decListN, decElems] using h
  | succ n ih =>
    intro bs res h
    simp only [decListN] at h
    obtain ⟨⟨v, r⟩, h1, h⟩ := bind_eq_some'.mp h
    obtain ⟨⟨vs, r'⟩, h2, h⟩ := bind_eq_some'.mp h
    simp at h; subst h
    simp [decElems, elemD_sound hc hok h1, ih r _ h2]

/-- `find?` through a key-normalising map -/
theorem keyMatches_norm (kw : Option Nat) (e : Key × String) (v : Val) :
    keyMatches kw (normKey kw e).1 v = keyMatches kw e.1 v := by
  obtain ⟨k, tgt⟩ := e
  cases k with
  | int a =>
    cases kw with
    | none => simp [normKey]
    | some w => cases v <;> simp [normKey, keyMatches]
  | str a => simp [normKey]

theorem normKey_snd (kw : Option Nat) (e : Key × String) : (normKey kw e).2 = e.2 := by
  obtain ⟨k, tgt⟩ := e
  cases k <;> simp [normKey]

theorem find_norm (kw : Option Nat) (v : Val) :
    ∀ (l : List (Key × String)),
      ((l.map (normKey kw)).find? fun e => keyMatches kw e.1 v).map (·.2) = (l.find? fun e => keyMatches kw e.1 v).map (·.2) := by
  intro l
  induction l with
  | nil => rfl
  | cons e l ih =>
    rw [List.map_cons, List.find?_cons, List.find?_cons, keyMatches_norm]
    cases h : keyMatches kw e.1 v
    · exact ih
    · simp [normKey_snd]

theorem table_lookup_eq {kw : Option Nat} {pairs : List (Key × String)} {t : Table} (h : tableOk kw pairs t = true) (v : Val) :
    t.lookup v = (pairs.find? fun e => keyMatches kw e.1 v).map (·.2) := by
  simp only [tableOk, Bool.and_eq_true, decide_eq_true_eq] at h
  obtain ⟨⟨hkw, _⟩, hent⟩ := h
  unfold Table.lookup
  rw [hkw, ← find_norm kw v t.entries, hent, find_norm]

/-- what is known about the two environments after `vals.length` fields -/
structure EnvInv (all : List Field) (vals : List Val) (wenv : List (String × Val)) (ienv : DEnv) : Prop where
  wenv_eq : wenv = ((all.take vals.length).map (·.name)).zip vals
  ienv_get : ∀ j v, vals[j]? = some v → ienv.lookup j = some v

theorem lookup_zip_first :
    ∀ (names : List String) (vals : List Val) (key : String) (k : Nat),
      names.length = vals.length → names.findIdx (· = key) = k → k < names.length →
      (names.zip vals).lookup key = vals[k]? := by
  intro names
  induction names with
  | nil => intro vals key k _ _ hk; simp at hk
  | cons n ns ih =>
    intro vals key k hl hidx hk
    cases vals with
    | nil => simp at hl
    | cons v vs =>
      simp only [List.zip_cons_cons, List.lookup_cons]
      simp only [List.findIdx_cons] at hidx
      by_cases hn : n = key
      · subst hn; simp at hidx; subst hidx; simp
      · have hn' : (key == n) = false := by simp; exact fun e => hn e.symm
        simp only [hn, decide_false, cond_false] at hidx
        simp only [hn']
        cases k with
        | zero => omega
        | succ k =>
          simp at hl hk
          have := ih vs key k hl (by omega) (by omega)
          simpa using this

theorem findIdx_take {α} (p : α → Bool) :
    ∀ (l : List α) (i : Nat), l.findIdx p < i → (l.take i).findIdx p = l.findIdx p := by
  intro l
  induction l with
  | nil => intro i h; simp
  | cons a l ih =>
    intro i h
    cases i with
    | zero => omega
    | succ i =>
      simp only [List.take_succ_cons, List.findIdx_cons] at h ⊢
      cases hp : p a
      · simp only [hp, cond_false] at h ⊢
        rw [ih i (by omega)]
      · simp

theorem wenv_lookup {all : List Field} {vals : List Val} {wenv ienv} (inv : EnvInv all vals wenv ienv)
    {key : String} {k : Nat} (hidx : fieldIdx all key = some k) (hk : k < vals.length) (hlen : vals.length ≤ all.length) :
    wenv.lookup key = vals[k]? := by
  rw [inv.wenv_eq]
  unfold fieldIdx at hidx
  split at hidx <;> simp at hidx
  apply lookup_zip_first
  · simp; omega
  · rw [← hidx]
    have : List.findIdx (fun x => decide (x = key)) (List.map (fun x => x.name) (List.take vals.length all)) =
        List.findIdx (fun x => decide (x.name = key)) (List.take vals.length all) := by
      rw [List.findIdx_map]; rfl
    rw [this]
    exact findIdx_take _ all vals.length (by omega)
  · simp; omega

/-- one field of a packet -/
theorem fieldD_sound {S : Schema} {P : Prog} {wcall icall : Wire.DCall} (hc : CallD S wcall icall)
    {all : List Field} {vals : List Val} {wenv : List (String × Val)} {ienv : DEnv} (inv : EnvInv all vals wenv ienv)
    (hlen : vals.length ≤ all.length)
    {f : Field} {st : DStep} {bs r : Bytes} {v : Val}
    (hok : plainOkD S P all vals.length f st = true)
    (h : decField S wcall all wenv f bs = some (v, r)) :
    stepD P icall st (ienv, bs) = some ((vals.length, v) :: ienv, r) := by
  unfold plainOkD at hok
  unfold decField at h
  by_cases hrep : f.rep
  · simp only [hrep, if_true] at hok h
    cases st <;> simp at hok
    rename_i pw le cm e j
    obtain ⟨⟨⟨⟨hpw, hle⟩, hcm⟩, he⟩, hj⟩ := hok
    subst hj hpw hcm
    obtain ⟨⟨x, r1⟩, hx, h⟩ := bind_eq_some'.mp h
    obtain ⟨⟨vs, r2⟩, hvs, h⟩ := bind_eq_some'.mp h
    simp at h; obtain ⟨rfl, rfl⟩ := h
    have := elemsD_sound hc he _ _ _ hvs
    simp [stepD, hx, readCount, decInt_leOk hle (takeN_length hx), this]
  · simp only [hrep] at hok h
    cases hk : f.kind <;> rw [hk] at hok h <;> cases st <;> simp at hok
    · -- scalar
      rename_i t w le j
      obtain ⟨⟨hw, hle⟩, hj⟩ := hok; subst hj hw
      simp only [decPlain] at h
      obtain ⟨⟨x, r1⟩, hx, h⟩ := bind_eq_some'.mp h
      simp at h; obtain ⟨rfl, rfl⟩ := h
      simp [stepD, hx, decInt_leOk hle (takeN_length hx)]
    · -- fixed
      rename_i n p n' pad j
      obtain ⟨⟨hn, hp⟩, hj⟩ := hok; subst hj hn
      simp only [decPlain] at h
      obtain ⟨⟨x, r1⟩, hx, h⟩ := bind_eq_some'.mp h
      simp at h; obtain ⟨rfl, rfl⟩ := h
      simp [stepD, decElem, hx, padOf_ok hp]
    · -- dyn
      rename_i pw le cm j
      obtain ⟨⟨⟨hpw, hle⟩, hcm⟩, hj⟩ := hok; subst hj hpw hcm
      simp only [decPlain] at h
      obtain ⟨⟨x, r1⟩, hx, h⟩ := bind_eq_some'.mp h
      obtain ⟨⟨y, r2⟩, hy, h⟩ := bind_eq_some'.mp h
      simp at h; obtain ⟨rfl, rfl⟩ := h
      simp [stepD, decElem, hx, readCount, decInt_leOk hle (takeN_length hx), hy]
    · -- obj
      rename_i pkt ty j
      obtain ⟨hty, hj⟩ := hok; subst hj hty
      simp only [decPlain] at h
      obtain ⟨⟨vs, r1⟩, hx, h⟩ := bind_eq_some'.mp h
      simp at h; obtain ⟨rfl, rfl⟩ := h
      simp [stepD, hc ty bs _ hx]
    · -- match
      rename_i key pairs k tbl j
      obtain ⟨⟨⟨hj, hidx⟩, hklt⟩, htab⟩ := hok
      subst hj
      obtain ⟨kv, hkv, h⟩ := bind_eq_some'.mp h
      obtain ⟨kw, hkw, h⟩ := bind_eq_some'.mp h
      obtain ⟨⟨kk, pkt⟩, hfind, h⟩ := bind_eq_some'.mp h
      obtain ⟨⟨vs, r1⟩, hcall, h⟩ := bind_eq_some'.mp h
      simp at h; obtain ⟨rfl, rfl⟩ := h
      rw [hkw] at htab
      cases htb : P.table tbl with
      | none => simp [htb] at htab
      | some t =>
        simp only [htb] at htab
        have hlk := table_lookup_eq htab kv
        rw [hfind] at hlk
        have hk2 : ienv.lookup k = some kv := by
          have := wenv_lookup inv hidx hklt hlen
          rw [hkv] at this
          exact inv.ienv_get k kv this.symm
        simp [stepD, hk2, htb, hlk, hc pkt bs _ hcall]
    · -- length-of: read back as a plain integer
      rename_i t target w le j
      obtain ⟨⟨hw, hle⟩, hj⟩ := hok; subst hj hw
      simp only [decPlain] at h
      obtain ⟨⟨x, r1⟩, hx, h⟩ := bind_eq_some'.mp h
      simp at h; obtain ⟨rfl, rfl⟩ := h
      simp [stepD, hx, decInt_leOk hle (takeN_length hx)]
    · -- checksum: read back as a plain integer
      rename_i t algo w le j
      obtain ⟨⟨hw, hle⟩, hj⟩ := hok; subst hj hw
      simp only [decPlain] at h
      obtain ⟨⟨x, r1⟩, hx, h⟩ := bind_eq_some'.mp h
      simp at h; obtain ⟨rfl, rfl⟩ := h
      simp [stepD, hx, decInt_leOk hle (takeN_length hx)]

theorem take_succ_of_get {α} (l : List α) (i : Nat) (a : α) (h : l[i]? = some a) : l.take (i + 1) = l.take i ++ [a] := by
  rw [List.take_add_one, h]; rfl

theorem envInv_push {all : List Field} {vals : List Val} {wenv ienv} (inv : EnvInv all vals wenv ienv)
    {f : Field} (hf : all[vals.length]? = some f) (v : Val) :
    EnvInv all (vals ++ [v]) (wenv ++ [(f.name, v)]) ((vals.length, v) :: ienv) := by
  constructor
  · rw [inv.wenv_eq]
    simp only [List.length_append, List.length_cons, List.length_nil, Nat.zero_add]
    rw [take_succ_of_get all vals.length f hf, List.map_append, List.zip_append (by simp; exact (Nat.min_eq_left (by
      have := List.getElem?_eq_some_iff.mp hf; obtain ⟨h, _⟩ := this; omega)))]
    simp
  · intro j w hj
    by_cases hjl : j = vals.length
    · subst hjl; simp at hj; subst hj; simp
    · have hne : (j == vals.length) = false := by simp [hjl]
      simp only [List.lookup_cons, hne]
      apply inv.ienv_get
      rw [List.getElem?_append] at hj
      split at hj
      · exact hj
      · rename_i hge
        have : j - vals.length = 0 ∨ j - vals.length > 0 := by omega
        rcases this with h0 | h0
        · omega
        · exfalso
          have : ([v] : List Val)[j - vals.length]? = none := by
            apply List.getElem?_eq_none; simp; omega
          rw [this] at hj; cases hj

/-- all the fields of one packet frame -/
theorem frameD_sound {S : Schema} {P : Prog} {wcall icall : Wire.DCall} (hc : CallD S wcall icall) (all : List Field) :
    ∀ (fs : List Field) (vals : List Val) (wenv : List (String × Val)) (ienv : DEnv) (steps : List DStep) (bs : Bytes)
      (out : List Val) (r : Bytes),
      EnvInv all vals wenv ienv →
      (∀ j f, fs[j]? = some f → all[vals.length + j]? = some f) →
      confFieldsD S P all vals.length fs steps = true →
      decFields S wcall all fs wenv bs = some (out, r) →
      ∃ wenv' ienv', stepsD P icall steps (ienv, bs) = some (ienv', r) ∧ EnvInv all (vals ++ out) wenv' ienv' ∧
        out.length = fs.length := by
  intro fs
  induction fs with
  | nil =>
    intro vals wenv ienv steps bs out r inv _ hconf h
    cases steps <;> simp [confFieldsD] at hconf
    simp [decFields] at h
    obtain ⟨rfl, rfl⟩ := h
    exact ⟨wenv, ienv, rfl, by simpa using inv, rfl⟩
  | cons f fs ih =>
    intro vals wenv ienv steps bs out r inv hcf hconf h
    cases steps with
    | nil => simp [confFieldsD] at hconf
    | cons st rest =>
      simp only [confFieldsD, Bool.and_eq_true] at hconf
      obtain ⟨hp, hrest⟩ := hconf
      simp only [decFields] at h
      obtain ⟨⟨v, r1⟩, h1, h⟩ := bind_eq_some'.mp h
      obtain ⟨⟨vs, r2⟩, h2, h⟩ := bind_eq_some'.mp h
      simp at h; obtain ⟨rfl, rfl⟩ := h
      have hf : all[vals.length]? = some f := by simpa using hcf 0 f (by simp)
      have hlen : vals.length ≤ all.length := by
        have := List.getElem?_eq_some_iff.mp hf; obtain ⟨h, _⟩ := this; omega
      have hstep := fieldD_sound hc inv hlen hp h1
      have inv' := envInv_push inv hf v
      have hcf' : ∀ j g, fs[j]? = some g → all[(vals ++ [v]).length + j]? = some g := by
        intro j g hj
        have := hcf (j + 1) g (by simpa using hj)
        simpa [Nat.add_assoc, Nat.add_comm 1 j] using this
      have hrest' : confFieldsD S P all (vals ++ [v]).length fs rest = true := by simpa using hrest
      obtain ⟨wenv', ienv', hrun, inv'', hl⟩ := ih (vals ++ [v]) _ _ rest r1 vs r2 inv' hcf' hrest' h2
      refine ⟨wenv', ienv', by simp [stepsD, hstep, hrun], by simpa [List.append_assoc] using inv'', by simp [hl]⟩

theorem collect_of_get (env : DEnv) (out : List Val) (hget : ∀ j v, out[j]? = some v → env.lookup j = some v) :
    ∀ (n i : Nat), i + n = out.length → collect env n i = some (out.drop i) := by
  intro n
  induction n with
  | zero => intro i h; simp [collect]; omega
  | succ n ih =>
    intro i h
    have hi : i < out.length := by omega
    have hv : out[i]? = some out[i] := List.getElem?_eq_getElem hi
    simp only [collect, hget i _ hv, ih (i + 1) (by omega), bind, Option.bind]
    rw [List.drop_eq_getElem_cons hi]
    rfl

/-- Whatever the declared decoder reads, the emitted decoder reads the same. -/
theorem dec_sound_all {S : Schema} {P : Prog} (hconf : confDec S P = true) :
    ∀ fuel, CallD S (Wire.dec S fuel) (decStruct P fuel) := by
  intro fuel
  induction fuel with
  | zero => intro pkt bs res h; simp [Wire.dec] at h
  | succ fuel ih =>
    intro pkt bs res h
    obtain ⟨out, r⟩ := res
    simp only [Wire.dec] at h
    obtain ⟨p, hp, h⟩ := bind_eq_some'.mp h
    obtain ⟨hmem, hname⟩ := find_spec hp
    have hpk : confPacketD S P p = true := by
      unfold confDec at hconf
      exact List.all_eq_true.mp hconf p hmem
    unfold confPacketD at hpk
    rw [hname] at hpk
    cases hst : P.find pkt with
    | none => simp [hst] at hpk
    | some st =>
      simp only [hst, Bool.and_eq_true, decide_eq_true_eq] at hpk
      obtain ⟨hml, hcf⟩ := hpk
      have inv0 : EnvInv p.fields [] [] [] := ⟨by simp, by intro j v hj; simp at hj⟩
      obtain ⟨wenv', ienv', hrun, inv', hl⟩ := frameD_sound ih p.fields p.fields [] [] [] st.dec bs out r inv0
        (by intro j f hj; simpa using hj) (by simpa using hcf) h
      have hcol := collect_of_get ienv' out (by intro j v hj; exact inv'.ienv_get j v (by simpa using hj)) out.length 0 (by simp)
      simp only [decStruct, hst, hrun, bind, Option.bind]
      rw [hml, ← hl, hcol]
      simp

/-- C05, the miss case: a key value that no pair of the DSL's table denotes makes the emitted dispatch fail. -/
theorem dispatch_miss {P : Prog} {icall : Wire.DCall} {kw : Option Nat} {pairs : List (Key × String)} {t : Table}
    (htab : tableOk kw pairs t = true) {tbl : String} (ht : P.table tbl = some t)
    {env : DEnv} {k i : Nat} {kv : Val} (hk : env.lookup k = some kv)
    (hmiss : ∀ e ∈ pairs, keyMatches kw e.1 kv = false) (bs : Bytes) :
    stepD P icall (.dispatch k tbl i) (env, bs) = none := by
  have hlk := table_lookup_eq htab kv
  have : (pairs.find? fun e => keyMatches kw e.1 kv) = none := by
    apply List.find?_eq_none.mpr
    intro e he; simp [hmiss e he]
  rw [this] at hlk
  simp [stepD, hk, ht, hlk]

end FinProtoc.Proofs
