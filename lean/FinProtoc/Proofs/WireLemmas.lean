import FinProtoc.Typed
/-!
# Facts about the wire specification itself (no IR involved)

* `enc_size`   – an encoding only appends, and appends exactly `size` bytes.
* `enc_prefix` – a checksum-free value encodes to the same bytes whatever precedes it.
-/
namespace FinProtoc.Wire
open FinProtoc

theorem bind_eq_some' {α β} {x : Option α} {f : α → Option β} {b : β} :
    (x >>= f) = some b ↔ ∃ a, x = some a ∧ f a = some b := by
  cases x <;> simp

/-- the three statements of `enc_size`, for the mutual induction -/
def SizeV (S : Schema) (reg : Registry) (cf : List Field) (cv : List Val) (k : FKind) (v : Val) (acc : Bytes) : Prop :=
  ∀ r, encVal S reg cf cv k v acc = some r → ∃ xs, r = acc ++ xs ∧ sizeVal S k v = some xs.length
def SizeF (S : Schema) (reg : Registry) (cf : List Field) (cv : List Val) (fs : List Field) (vs : List Val) (acc : Bytes) : Prop :=
  ∀ r, encFields S reg cf cv fs vs acc = some r → ∃ xs, r = acc ++ xs ∧ sizeFields S fs vs = some xs.length
def SizeL (S : Schema) (reg : Registry) (cf : List Field) (cv : List Val) (k : FKind) (vs : List Val) (acc : Bytes) : Prop :=
  ∀ r, encList S reg cf cv k vs acc = some r → ∃ xs, r = acc ++ xs ∧ sizeList S k vs = some xs.length

theorem padTo_length (n : Nat) (p : Pad) (bs : Bytes) (h : bs.length ≤ n) : (padTo n p bs).length = n := by
  unfold padTo; split <;> simp <;> omega

theorem enc_size_all (S : Schema) (reg : Registry) :
    (∀ cf cv k v acc, SizeV S reg cf cv k v acc) ∧
    (∀ cf cv fs vs acc, SizeF S reg cf cv fs vs acc) ∧
    (∀ cf cv k vs acc, SizeL S reg cf cv k vs acc) := by
  apply encVal.mutual_induct S (motive_1 := SizeV S reg) (motive_2 := SizeF S reg) (motive_3 := SizeL S reg)
  · intro cf cv t n acc r h
    simp [encVal] at h; subst h
    exact ⟨_, rfl, by simp [sizeVal]⟩
  · intro cf cv n pad bs acc hle r h
    simp [encVal, hle] at h; subst h
    exact ⟨_, rfl, by simp [sizeVal, padTo_length _ _ _ hle]⟩
  · intro cf cv n pad bs acc hle r h
    simp [encVal, hle] at h
  · intro cf cv bs acc r h
    simp [encVal] at h; subst h
    exact ⟨_, rfl, by simp [sizeVal]⟩
  · intro cf cv pkt vs acc ih r h
    simp only [encVal, bind_eq_some'] at h
    obtain ⟨p, hp, h⟩ := h
    obtain ⟨xs, rfl, hs⟩ := ih p r h
    exact ⟨xs, rfl, by simp [sizeVal, hp, hs]⟩
  · intro cf cv key pairs pkt vs acc ih r h
    simp only [encVal, bind_eq_some'] at h
    obtain ⟨p, hp, h⟩ := h
    obtain ⟨xs, rfl, hs⟩ := ih p r h
    exact ⟨xs, rfl, by simp [sizeVal, hp, hs]⟩
  · intro cf cv t target n acc r h
    simp only [encVal, bind_eq_some'] at h
    obtain ⟨m, _, h⟩ := h
    simp at h; subst h
    exact ⟨_, rfl, by simp [sizeVal]⟩
  · intro cf cv t algo n acc r h
    simp [encVal] at h; subst h
    exact ⟨_, rfl, by simp [sizeVal]⟩
  · intro v cf cv k acc h1 h2 h3 h4 h5 h6 h7 r h
    exfalso
    unfold encVal at h
    split at h <;> first | (simp at h; done) | skip
    all_goals first | exact h1 _ _ rfl rfl | exact h2 _ _ _ rfl rfl | exact h3 _ rfl rfl | exact h4 _ _ rfl rfl
                    | exact h5 _ _ _ _ rfl rfl | exact h6 _ _ _ rfl rfl | exact h7 _ _ _ rfl rfl | skip
    all_goals simp_all
  · intro cf cv acc r h
    simp [encFields] at h; subst h
    exact ⟨[], by simp, by simp [sizeFields]⟩
  · intro cf cv f fs v vs acc ihL ihV ihF r h
    by_cases hrep : f.rep
    · cases v with
      | list es =>
        simp only [encFields, hrep, if_true] at h
        obtain ⟨acc', h1, h2⟩ := bind_eq_some'.mp h
        obtain ⟨xs, rfl, hs⟩ := ihL acc' h1
        obtain ⟨ys, rfl, ht⟩ := ihF _ r h2
        refine ⟨encInt S.cfg.le S.cfg.listPfx.width es.length ++ xs ++ ys, by simp [List.append_assoc], ?_⟩
        simp [sizeFields, hrep, hs, ht]; omega
      | _ => simp [encFields, hrep] at h
    · have h' : (encVal S reg cf cv f.kind v acc >>= fun acc' => encFields S reg cf cv fs vs acc') = some r := by
        cases v <;> simpa [encFields, hrep] using h
      obtain ⟨acc', h1, h2⟩ := bind_eq_some'.mp h'
      obtain ⟨xs, rfl, hs⟩ := ihV acc' h1
      obtain ⟨ys, rfl, ht⟩ := ihF _ r h2
      refine ⟨xs ++ ys, by simp [List.append_assoc], ?_⟩
      cases v <;> simp [sizeFields, hrep, hs, ht]
  · intro vs cf cv fs acc h1 h2 r h
    exfalso
    unfold encFields at h
    split at h
    · exact h1 rfl rfl
    · exact h2 _ _ _ _ rfl rfl
    · simp at h
  · intro cf cv k acc r h
    simp [encList] at h; subst h
    exact ⟨[], by simp, by simp [sizeList]⟩
  · intro cf cv k v vs acc ihV ihL r h
    simp only [encList, bind_eq_some'] at h
    obtain ⟨acc', h1, h2⟩ := h
    obtain ⟨xs, rfl, hs⟩ := ihV acc' h1
    obtain ⟨ys, rfl, ht⟩ := ihL _ r h2
    exact ⟨xs ++ ys, by simp [List.append_assoc], by simp [sizeList, hs, ht]⟩

theorem encVal_size {S reg cf cv k v acc r} (h : encVal S reg cf cv k v acc = some r) :
    ∃ xs, r = acc ++ xs ∧ sizeVal S k v = some xs.length := (enc_size_all S reg).1 cf cv k v acc r h

theorem encFields_size {S reg cf cv fs vs acc r} (h : encFields S reg cf cv fs vs acc = some r) :
    ∃ xs, r = acc ++ xs ∧ sizeFields S fs vs = some xs.length := (enc_size_all S reg).2.1 cf cv fs vs acc r h

theorem encList_size {S reg cf cv k vs acc r} (h : encList S reg cf cv k vs acc = some r) :
    ∃ xs, r = acc ++ xs ∧ sizeList S k vs = some xs.length := (enc_size_all S reg).2.2 cf cv k vs acc r h

end FinProtoc.Wire

namespace FinProtoc.Wire
open FinProtoc

def PreV (S : Schema) (reg : Registry) (cf : List Field) (cv : List Val) (k : FKind) (v : Val) (acc : Bytes) : Prop :=
  ∀ xs, ckFreeVal S k v = true → encVal S reg cf cv k v acc = some (acc ++ xs) →
    ∀ acc', encVal S reg cf cv k v acc' = some (acc' ++ xs)
def PreF (S : Schema) (reg : Registry) (cf : List Field) (cv : List Val) (fs : List Field) (vs : List Val) (acc : Bytes) : Prop :=
  ∀ xs, ckFreeFields S fs vs = true → encFields S reg cf cv fs vs acc = some (acc ++ xs) →
    ∀ acc', encFields S reg cf cv fs vs acc' = some (acc' ++ xs)
def PreL (S : Schema) (reg : Registry) (cf : List Field) (cv : List Val) (k : FKind) (vs : List Val) (acc : Bytes) : Prop :=
  ∀ xs, ckFreeList S k vs = true → encList S reg cf cv k vs acc = some (acc ++ xs) →
    ∀ acc', encList S reg cf cv k vs acc' = some (acc' ++ xs)

theorem enc_prefix_all (S : Schema) (reg : Registry) :
    (∀ cf cv k v acc, PreV S reg cf cv k v acc) ∧
    (∀ cf cv fs vs acc, PreF S reg cf cv fs vs acc) ∧
    (∀ cf cv k vs acc, PreL S reg cf cv k vs acc) := by
  apply encVal.mutual_induct S (motive_1 := PreV S reg) (motive_2 := PreF S reg) (motive_3 := PreL S reg)
  · intro cf cv t n acc xs _ h acc'
    simp [encVal] at h ⊢; exact h
  · intro cf cv n pad bs acc hle xs _ h acc'
    simp [encVal, hle] at h ⊢; exact h
  · intro cf cv n pad bs acc hle xs _ h
    simp [encVal, hle] at h
  · intro cf cv bs acc xs _ h acc'
    simp [encVal] at h ⊢; exact h
  · intro cf cv pkt vs acc ih xs hck h acc'
    simp only [encVal, bind_eq_some'] at h ⊢
    obtain ⟨p, hp, h⟩ := h
    simp only [ckFreeVal, hp] at hck
    exact ⟨p, hp, ih p xs hck h acc'⟩
  · intro cf cv key pairs pkt vs acc ih xs hck h acc'
    simp only [encVal, bind_eq_some'] at h ⊢
    obtain ⟨p, hp, h⟩ := h
    simp only [ckFreeVal, hp] at hck
    exact ⟨p, hp, ih p xs hck h acc'⟩
  · intro cf cv t target n acc xs _ h acc'
    simp only [encVal, bind_eq_some'] at h ⊢
    obtain ⟨m, hm, h⟩ := h
    refine ⟨m, hm, ?_⟩
    simp at h ⊢; exact h
  · intro cf cv t algo n acc xs hck h
    simp [ckFreeVal] at hck
  · intro v cf cv k acc h1 h2 h3 h4 h5 h6 h7 xs _ h
    exfalso
    unfold encVal at h
    split at h <;> first | (simp at h; done) | skip
    all_goals first | exact h1 _ _ rfl rfl | exact h2 _ _ _ rfl rfl | exact h3 _ rfl rfl | exact h4 _ _ rfl rfl
                    | exact h5 _ _ _ _ rfl rfl | exact h6 _ _ _ rfl rfl | exact h7 _ _ _ rfl rfl | skip
    all_goals simp_all
  · intro cf cv acc xs _ h acc'
    simp [encFields] at h ⊢; exact h
  · intro cf cv f fs v vs acc ihL ihV ihF xs hck h acc'
    by_cases hrep : f.rep
    · cases v with
      | list es =>
        simp only [encFields, hrep, if_true] at h ⊢
        simp only [ckFreeFields, hrep, if_true, Bool.and_eq_true] at hck
        obtain ⟨acc1, h1, h2⟩ := bind_eq_some'.mp h
        obtain ⟨x1, rfl, _⟩ := encList_size h1
        obtain ⟨x2, hx2, _⟩ := encFields_size h2
        have hxs : xs = encInt S.cfg.le S.cfg.listPfx.width es.length ++ x1 ++ x2 := by
          have := hx2; simp only [List.append_assoc] at this
          simpa [List.append_assoc] using (List.append_cancel_left this)
        subst hxs
        apply bind_eq_some'.mpr
        refine ⟨_, ihL x1 hck.1 h1 (acc' ++ encInt S.cfg.le S.cfg.listPfx.width es.length), ?_⟩
        have h2' : encFields S reg cf cv fs vs ((acc ++ encInt S.cfg.le S.cfg.listPfx.width es.length) ++ x1) =
            some (((acc ++ encInt S.cfg.le S.cfg.listPfx.width es.length) ++ x1) ++ x2) := by
          rw [h2, hx2]
        have := ihF _ x2 hck.2 h2' ((acc' ++ encInt S.cfg.le S.cfg.listPfx.width es.length) ++ x1)
        simpa [List.append_assoc] using this
      | _ => simp [encFields, hrep] at h
    · have h' : (encVal S reg cf cv f.kind v acc >>= fun a => encFields S reg cf cv fs vs a) = some (acc ++ xs) := by
        cases v <;> simpa [encFields, hrep] using h
      have hck' : ckFreeVal S f.kind v = true ∧ ckFreeFields S fs vs = true := by
        cases v <;> simpa [ckFreeFields, hrep] using hck
      obtain ⟨acc1, h1, h2⟩ := bind_eq_some'.mp h'
      obtain ⟨x1, rfl, _⟩ := encVal_size h1
      obtain ⟨x2, hx2, _⟩ := encFields_size h2
      have hxs : xs = x1 ++ x2 := by
        have := hx2; simp only [List.append_assoc] at this
        exact (List.append_cancel_left this)
      subst hxs
      have g : (encVal S reg cf cv f.kind v acc' >>= fun a => encFields S reg cf cv fs vs a) = some (acc' ++ (x1 ++ x2)) := by
        apply bind_eq_some'.mpr
        refine ⟨_, ihV x1 hck'.1 h1 acc', ?_⟩
        have h2' : encFields S reg cf cv fs vs (acc ++ x1) = some ((acc ++ x1) ++ x2) := by rw [h2, hx2]
        have := ihF _ x2 hck'.2 h2' (acc' ++ x1)
        simpa [List.append_assoc] using this
      cases v <;> simpa [encFields, hrep] using g
  · intro vs cf cv fs acc h1 h2 xs _ h
    exfalso
    unfold encFields at h
    split at h
    · exact h1 rfl rfl
    · exact h2 _ _ _ _ rfl rfl
    · simp at h
  · intro cf cv k acc xs _ h acc'
    simp [encList] at h ⊢; exact h
  · intro cf cv k v vs acc ihV ihL xs hck h acc'
    simp only [encList] at h ⊢
    simp only [ckFreeList, Bool.and_eq_true] at hck
    obtain ⟨acc1, h1, h2⟩ := bind_eq_some'.mp h
    obtain ⟨x1, rfl, _⟩ := encVal_size h1
    obtain ⟨x2, hx2, _⟩ := encList_size h2
    have hxs : xs = x1 ++ x2 := by
      have := hx2; simp only [List.append_assoc] at this
      exact (List.append_cancel_left this)
    subst hxs
    apply bind_eq_some'.mpr
    refine ⟨_, ihV x1 hck.1 h1 acc', ?_⟩
    have h2' : encList S reg cf cv k vs (acc ++ x1) = some ((acc ++ x1) ++ x2) := by rw [h2, hx2]
    have := ihL _ x2 hck.2 h2' (acc' ++ x1)
    simpa [List.append_assoc] using this

theorem encVal_prefix {S reg cf cv k v acc xs} (hck : ckFreeVal S k v = true)
    (h : encVal S reg cf cv k v acc = some (acc ++ xs)) (acc' : Bytes) :
    encVal S reg cf cv k v acc' = some (acc' ++ xs) := (enc_prefix_all S reg).1 cf cv k v acc xs hck h acc'

end FinProtoc.Wire
