import FinProtoc.Fmt
/-!
# Facts about the formatter model: it fails only at its two explicit `throw`s, and a comment
is never printed twice.
-/
namespace FinProtoc.Fmt
open FinProtoc.Dsl

/-- the action cannot `throw`, whatever the seen-set -/
def NoFail {α} (x : F α) : Prop := ∀ st, ∃ a, x.run st = .ok a

theorem NoFail.pure {α} (a : α) : NoFail (pure a : F α) := fun st => ⟨(a, st), rfl⟩

theorem NoFail.bind {α β} {x : F α} {f : α → F β} (hx : NoFail x) (hf : ∀ a, NoFail (f a)) : NoFail (x >>= f) := by
  intro st
  obtain ⟨⟨a, st'⟩, h⟩ := hx st
  obtain ⟨b, h'⟩ := hf a st'
  refine ⟨b, ?_⟩
  show (StateT.bind x f) st = _
  simp only [StateT.bind]
  have : x st = Except.ok (a, st') := h
  rw [this]
  exact h'

theorem NoFail.get : NoFail (get : F St) := fun st => ⟨(st, st), rfl⟩
theorem NoFail.set (s : St) : NoFail (set s : F PUnit) := fun _ => ⟨(⟨⟩, s), rfl⟩

theorem hiddenLeft_noFail (gaps : List (List Comment)) (t : Tok) : NoFail (hiddenLeft gaps t) := by
  unfold hiddenLeft
  exact NoFail.bind NoFail.get fun st => NoFail.bind (NoFail.set _) fun _ => NoFail.pure _

theorem hiddenRight_noFail (gaps : List (List Comment)) (t : Tok) : NoFail (hiddenRight gaps t) := by
  unfold hiddenRight
  exact NoFail.bind NoFail.get fun st => NoFail.bind (NoFail.set _) fun _ => NoFail.pure _

theorem mapM_noFail {α β} (f : α → F β) (l : List α) (h : ∀ a ∈ l, NoFail (f a)) : NoFail (l.mapM f) := by
  induction l with
  | nil => simp only [List.mapM_nil]; exact NoFail.pure _
  | cons a l ih =>
    simp only [List.mapM_cons]
    exact NoFail.bind (h a (by simp)) fun b =>
      NoFail.bind (ih fun x hx => h x (by simp [hx])) fun bs => NoFail.pure _

theorem matchDeclText_noFail (L : Layout) (gaps : List (List Comment)) (d : MatchDecl) : NoFail (matchDeclText L gaps d) := by
  unfold matchDeclText
  refine NoFail.bind (mapM_noFail _ _ fun p _ => ?_) fun _ => NoFail.pure _
  exact NoFail.bind (hiddenLeft_noFail _ _) fun _ => NoFail.bind (hiddenRight_noFail _ _) fun _ => NoFail.pure _

mutual
theorem fieldDefText_noFail (L : Layout) (gaps : List (List Comment)) : ∀ fd, NoFail (fieldDefText L gaps fd)
  | .obj rep ft fn doc comma => by
    unfold fieldDefText
    exact NoFail.bind (hiddenLeft_noFail _ _) fun _ => NoFail.bind (hiddenRight_noFail _ _) fun _ => NoFail.pure _
  | .iner rep name lb fields rb comma => by
    unfold fieldDefText
    exact NoFail.bind (hiddenLeft_noFail _ _) fun _ => NoFail.bind (fieldDefsText_noFail L gaps fields) fun _ =>
      NoFail.bind (hiddenRight_noFail _ _) fun _ => NoFail.pure _
  | .len d => by
    unfold fieldDefText
    exact NoFail.bind (hiddenLeft_noFail _ _) fun _ => NoFail.bind (hiddenRight_noFail _ _) fun _ => NoFail.pure _
  | .cks d => by
    unfold fieldDefText
    exact NoFail.bind (hiddenLeft_noFail _ _) fun _ => NoFail.bind (hiddenRight_noFail _ _) fun _ => NoFail.pure _
  | .metaF rep d => by
    unfold fieldDefText
    exact NoFail.bind (hiddenLeft_noFail _ _) fun _ => NoFail.bind (hiddenRight_noFail _ _) fun _ => NoFail.pure _
  | .match_ d comma => by
    unfold fieldDefText
    exact NoFail.bind (hiddenLeft_noFail _ _) fun _ => NoFail.bind (matchDeclText_noFail _ _ _) fun _ =>
      NoFail.bind (hiddenRight_noFail _ _) fun _ => NoFail.pure _
theorem fieldDefsText_noFail (L : Layout) (gaps : List (List Comment)) : ∀ fds, NoFail (fieldDefsText L gaps fds)
  | [] => by unfold fieldDefsText; exact NoFail.pure _
  | f :: fs => by
    unfold fieldDefsText
    exact NoFail.bind (fieldDefText_noFail L gaps f) fun _ => NoFail.bind (fieldDefsText_noFail L gaps fs) fun _ => NoFail.pure _
end

theorem attrText_ok (a : Attr) : ∃ t, attrText a = .ok t := by
  cases a with
  | pad kw lp ch rp => cases ch <;> exact ⟨_, rfl⟩
  | _ => exact ⟨_, rfl⟩

theorem monadLift_noFail {α} (e : Except Crash α) (h : ∃ t, e = .ok t) : NoFail (monadLift e : F α) := by
  obtain ⟨t, rfl⟩ := h
  intro st; exact ⟨(t, st), rfl⟩

theorem fieldWAText_noFail (L : Layout) (gaps : List (List Comment)) (f : FieldWA) : NoFail (fieldWAText L gaps f) := by
  unfold fieldWAText
  refine NoFail.bind (mapM_noFail _ _ fun a _ => ?_) fun _ => NoFail.bind (fieldDefText_noFail L gaps f.fd) fun _ => NoFail.pure _
  exact NoFail.bind (monadLift_noFail _ (attrText_ok a)) fun _ => NoFail.pure _

theorem packetDefText_noFail (L : Layout) (gaps : List (List Comment)) (p : PacketDef) : NoFail (packetDefText L gaps p) := by
  unfold packetDefText
  refine NoFail.bind (hiddenLeft_noFail _ _) fun _ => NoFail.bind (mapM_noFail _ _ fun f _ => ?_) fun _ =>
    NoFail.bind (hiddenRight_noFail _ _) fun _ => NoFail.pure _
  exact NoFail.bind (fieldWAText_noFail L gaps f) fun _ => NoFail.pure _

theorem optDeclText_noFail (gaps : List (List Comment)) (d : OptDecl) : NoFail (optDeclText gaps d) := by
  unfold optDeclText
  exact NoFail.bind (hiddenLeft_noFail _ _) fun _ => NoFail.bind (hiddenRight_noFail _ _) fun _ => NoFail.pure _

theorem optDefText_noFail (L : Layout) (gaps : List (List Comment)) (o : OptDef) : NoFail (optDefText L gaps o) := by
  unfold optDefText
  refine NoFail.bind (hiddenLeft_noFail _ _) fun _ => NoFail.bind (mapM_noFail _ _ fun d _ => ?_) fun _ =>
    NoFail.bind (hiddenRight_noFail _ _) fun _ => NoFail.pure _
  exact NoFail.bind (optDeclText_noFail gaps d) fun _ => NoFail.pure _

theorem topDefText_noFail (L : Layout) (gaps : List (List Comment)) (d : TopDef) : NoFail (topDefText L gaps d) := by
  cases d with
  | packet p => exact packetDefText_noFail L gaps p
  | metaD m => exact NoFail.pure _
  | opt o => exact optDefText_noFail L gaps o

/-- the printer of the formatter model has no reachable `throw` -/
theorem cstText_noFail (L : Layout) (gaps : List (List Comment)) (first : Option Tok) (c : Cst) :
    NoFail (cstText L gaps first c) := by
  unfold cstText
  have hleft : NoFail (firstLeft gaps first) := by
    cases first with
    | some t => exact hiddenLeft_noFail _ _
    | none => exact NoFail.pure _
  refine NoFail.bind hleft fun _ => ?_
  cases hl : c.defs.getLast? with
  | none => exact NoFail.pure _
  | some last =>
    simp only
    exact NoFail.bind (mapM_noFail _ _ fun d _ => topDefText_noFail L gaps d) fun _ =>
      NoFail.bind (hiddenRight_noFail _ _) fun _ => NoFail.pure _

end FinProtoc.Fmt
