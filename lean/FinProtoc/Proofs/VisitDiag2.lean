import FinProtoc.Proofs.VisitDiag
/-!
# More offences through the loops of the visitor model

Continues `VisitDiag.lean`:

* duplicate match keys (issued while the match field is visited);
* a second length field in the root packet;
* `Evo` - what an attribute slot can become (an `.object` keeps its packet name, a `.match_` its key and pairs, every
  other attribute its value), for every step up to `visitCst`; with it the unknown packet types of object fields and
  match targets, which are only diagnosed by `ResolveDependencies`, after all packets are registered.
-/
namespace FinProtoc.Visit
open FinProtoc FinProtoc.Dsl

/-! ## A diagnostic issued while a field is visited -/

theorem pktStep1Tail_frames (isRoot : Bool) (pname : String) (acc : Acc1) (fwa : FieldWA) (fld : MField) :
    Frames (pktStep1Tail isRoot pname acc fwa fld) := by
  obtain ⟨fields, lines, lenF, mfs⟩ := acc
  unfold pktStep1Tail; frames

theorem pktStep1_diag_of_visit (r : Bool) (pn : String) (acc : Acc1) (fwa : FieldWA) (s : VState) (d : Nat × String)
    (h : wlp (visitFieldWA fwa) (fun _ s' => d ∈ s'.diags) s) :
    wlp (pktStep1 r pn acc fwa) (fun _ s' => d ∈ s'.diags) s := by
  rw [pktStep1_eq, wlp_bind]
  refine wlp_mono h ?_
  intro fld s1 hd
  exact wlp_mono ((pktStep1Tail_frames r pn acc fwa fld).out s1) (fun _ _ hf => hf.mem_diags hd)

theorem visitFieldWA_diag_of_fd (f : FieldWA) (s : VState) (d : Nat × String)
    (h : wlp (visitFieldDef f.fd) (fun _ s' => d ∈ s'.diags) s) :
    wlp (visitFieldWA f) (fun _ s' => d ∈ s'.diags) s := by
  unfold visitFieldWA
  rw [wlp_bind]
  refine wlp_mono h ?_
  intro fld s1 hd
  exact wlp_mono ((frames_foldlM attrStep_frames f.attrs fld).out s1) (fun _ _ hf => hf.mem_diags hd)

/-- a diagnostic that visiting the field definition of `f` issues (from every state that satisfies the invariants) is in
the final list of every run over a file whose packet `p` has the field `f` -/
theorem diag_of_field {c : Cst} {s : VState} {d : Nat × String} (p : PacketDef) (f : FieldWA)
    (hp : TopDef.packet p ∈ c.defs) (hf : f ∈ p.fields)
    (hw : ∀ s0, Inv s0 → wlp (visitFieldDef f.fd) (fun _ s' => d ∈ s'.diags) s0) (h : run c = .ok s) : d ∈ s.diags := by
  obtain ⟨l1, l2, hc⟩ := List.append_of_mem hf
  refine diag_of_packet p hp ?_ h
  intro s0 hi
  rw [hc]
  exact foldlM_offence1 Inv (fun b x s h => pktStep1_inv _ _ b x s h) f l1 l2 d (fun _ => True) _ s0 hi (wlp_true _ _)
    (fun b s hs _ => pktStep1_diag_of_visit _ _ b f s d (visitFieldWA_diag_of_fd f s d (hw s hs)))

/-! ## Duplicate match keys -/

theorem dupKeyStep_seen (seen : List String) (pr : MPair) (s : VState) :
    wlp (dupKeyStep seen pr) (fun seen' _ => pr.key ∈ seen' ∧ ∀ k, k ∈ seen → k ∈ seen') s := by
  unfold dupKeyStep
  split
  · next h =>
    wls
    exact ⟨by simpa using h, fun _ hk => hk⟩
  · wls
    exact ⟨List.mem_cons_self .., fun _ hk => List.mem_cons_of_mem _ hk⟩

theorem dupKeyStep_dup (seen : List String) (pr : MPair) (s : VState) (h : pr.key ∈ seen) :
    wlp (dupKeyStep seen pr) (fun _ s' => (pr.line, "Duplicate match key: " ++ pr.key) ∈ s'.diags) s := by
  unfold dupKeyStep
  have hc : seen.contains pr.key = true := by simpa using h
  rw [if_pos hc]
  wls
  exact List.mem_append_right _ (List.mem_singleton.2 rfl)

theorem dupKey_loop (l1 l2 l3 : List MPair) (a b : MPair) (hk : a.key = b.key) (seen0 : List String) (s : VState) :
    wlp ((l1 ++ a :: (l2 ++ b :: l3)).foldlM dupKeyStep seen0)
      (fun _ s' => (b.line, "Duplicate match key: " ++ b.key) ∈ s'.diags) s := by
  refine foldlM_offence2 (fun _ => True)
    (fun seen x s _ => wlp_mono ((dupKeyStep_frames seen x).out s) (fun _ _ hf => ⟨trivial, hf⟩))
    (fun seen => b.key ∈ seen) ?_ a b l1 l2 l3 _ seen0 s trivial ?_ ?_
  · intro seen x s _ hp
    exact wlp_mono (dupKeyStep_seen seen x s) (fun _ _ hh => hh.2 _ hp)
  · intro seen s _
    rw [← hk]
    exact wlp_mono (dupKeyStep_seen seen a s) (fun _ _ hh => hh.1)
  · intro seen s _ hp
    exact dupKeyStep_dup seen b s hp

theorem visitMatch_dupKey (d : MatchDecl) (a b : MPair) (hb : Before (pairsOfMatch d) a b) (hk : a.key = b.key)
    (s : VState) :
    wlp (visitMatch d) (fun _ s' => (b.line, "Duplicate match key: " ++ b.key) ∈ s'.diags) s := by
  obtain ⟨l1, l2, l3, hc⟩ := hb
  unfold visitMatch
  rw [wlp_bind, hc]
  refine wlp_mono (dupKey_loop l1 l2 l3 a b hk [] s) ?_
  intro _ s1 hd
  wls
  exact hd

/-! ## A second length field in the root packet -/

def hasLenF (acc : Acc1) : Prop := acc.2.2.1.isSome = true

theorem pktStep1Tail_lenKeep (r : Bool) (pn : String) (acc : Acc1) (fwa : FieldWA) (fld : MField) (s : VState)
    (hs : hasLenF acc) : wlp (pktStep1Tail r pn acc fwa fld) (fun acc' _ => hasLenF acc') s := by
  obtain ⟨fields, lines, lenF, mfs⟩ := acc
  unfold hasLenF at *
  unfold pktStep1Tail
  wls
  split
  · wls; exact hs
  · split
    · wls; exact hs
    · try dsimp only
      split
      · wls
        show (if _ then _ else lenF).isSome = true
        split
        · rfl
        · exact hs
      · wls
        show (if _ then _ else lenF).isSome = true
        split
        · rfl
        · exact hs

theorem pktStep1_lenKeep (r : Bool) (pn : String) (acc : Acc1) (fwa : FieldWA) (s : VState) (hs : hasLenF acc) :
    wlp (pktStep1 r pn acc fwa) (fun acc' _ => hasLenF acc') s := by
  rw [pktStep1_eq, wlp_bind]
  intro fld s1 _
  exact pktStep1Tail_lenKeep r pn acc fwa fld s1 hs

/-- a length field of the root packet sets the `lengthField` pointer (or it was set already) -/
theorem pktStep1_lenSome (pn : String) (acc : Acc1) (fwa : FieldWA) (s : VState) (h : Inv s) (hl : isLenSyn fwa = true) :
    wlp (pktStep1 true pn acc fwa) (fun acc' _ => hasLenF acc') s := by
  apply pktStep1_wlp _ _ _ _ _ h
  intro fld s1 _ _ hn hlen
  obtain ⟨fields, lines, lenF, mfs⟩ := acc
  unfold pktStep1Tail hasLenF
  wls
  rw [hlen.isLenK, hl]
  simp only [Bool.not_true, Bool.and_false, Bool.false_eq_true, if_false, Bool.true_and, if_true]
  split
  · next hsome => wls; exact hsome
  · split
    · wls; rfl
    · wls; rfl

/-- a length field of the root packet, when the `lengthField` pointer is set already, is diagnosed at its line -/
theorem pktStep1_dupLen (pn : String) (acc : Acc1) (fwa : FieldWA) (s : VState) (h : Inv s) (hl : isLenSyn fwa = true)
    (hs : hasLenF acc) :
    wlp (pktStep1 true pn acc fwa) (fun _ s' => (fwa.start.line, "Duplicate LengthOfField declaration") ∈ s'.diags) s := by
  apply pktStep1_wlp _ _ _ _ _ h
  intro fld s1 _ _ hn hlen
  obtain ⟨fields, lines, lenF, mfs⟩ := acc
  unfold hasLenF at hs
  unfold pktStep1Tail
  wls
  rw [hlen.isLenK, hl]
  simp only [Bool.not_true, Bool.and_false, Bool.false_eq_true, if_false, Bool.true_and]
  rw [if_pos hs]
  wls
  exact List.mem_append_right _ (List.mem_singleton.2 rfl)

/-! ## What an attribute slot can become

`Pres` (in `VisitSafe.lean`) says that *stable* attributes keep their value.  The two kinds that are overwritten in place
are followed here: an `.object` slot keeps `iner` and the packet name, and its reference is what it was, or `nil`, or the
packet of that name once it is registered; a `.match_` slot keeps its key name and its pairs. -/

theorem hasPk_append {s s' : VState} (h : ∃ l, s'.packets = s.packets ++ l) {n : String} (hf : hasPk s n) : hasPk s' n := by
  obtain ⟨l, e⟩ := h
  unfold hasPk at *
  rw [e, List.any_append, hf]; rfl

/-- attribute `k` of a slot has become `k'` (in state `s'`) -/
def Ev (s' : VState) (k k' : AttrK) : Prop :=
  (stable k ∧ k' = k) ∨
  (∃ iner p r r', k = .object iner p r ∧ k' = .object iner p r' ∧ (r' = r ∨ r' = .none ∨ (r' = .named p ∧ hasPk s' p))) ∨
  (∃ key kr kr' pairs, k = .match_ key kr pairs ∧ k' = .match_ key kr' pairs)

theorem Ev.refl (s : VState) (k : AttrK) : Ev s k k := by
  cases k with
  | object i p r => exact .inr (.inl ⟨i, p, r, r, rfl, rfl, .inl rfl⟩)
  | match_ key kr pairs => exact .inr (.inr ⟨key, kr, kr, pairs, rfl, rfl⟩)
  | _ => exact .inl ⟨trivial, rfl⟩

theorem Ev.trans {s2 s3 : VState} {k k' k'' : AttrK} (hpk : ∀ p, hasPk s2 p → hasPk s3 p) (h1 : Ev s2 k k')
    (h2 : Ev s3 k' k'') : Ev s3 k k'' := by
  rcases h1 with ⟨_, e⟩ | ⟨i, p, r, r', e1, e2, hr⟩ | ⟨key, kr, kr', pairs, e1, e2⟩
  · subst e; exact h2
  · subst e1; subst e2
    rcases h2 with ⟨hs, _⟩ | ⟨i2, p2, r2, r2', e1, e2, hr2⟩ | ⟨_, _, _, _, e1, _⟩
    · exact hs.elim
    · cases e1; subst e2
      refine .inr (.inl ⟨_, _, _, _, rfl, rfl, ?_⟩)
      rcases hr2 with h | h | h
      · subst h
        rcases hr with h | h | ⟨h, hp⟩
        · exact .inl h
        · exact .inr (.inl h)
        · exact .inr (.inr ⟨h, hpk _ hp⟩)
      · exact .inr (.inl h)
      · exact .inr (.inr h)
    · cases e1
  · subst e1; subst e2
    rcases h2 with ⟨hs, _⟩ | ⟨_, _, _, _, e1, _⟩ | ⟨key2, kr2, kr2', pairs2, e1, e2⟩
    · exact hs.elim
    · cases e1
    · cases e1; subst e2
      exact .inr (.inr ⟨_, _, _, _, rfl, rfl⟩)

theorem Ev.notStable {s : VState} {k k' : AttrK} (h : Ev s k k') (hk : ¬ stable k) : ¬ stable k' := by
  rcases h with ⟨hs, _⟩ | ⟨_, _, _, _, _, e, _⟩ | ⟨_, _, _, _, _, e⟩
  · exact absurd hs hk
  · subst e; exact fun hh => hh
  · subst e; exact fun hh => hh

/-- from `s` to `s'`: every attribute slot has evolved, the packet list was only appended to -/
structure Evo (s s' : VState) : Prop where
  keep : ∀ (i : Nat) (k : AttrK), s.attrs[i]? = some k → ∃ k', s'.attrs[i]? = some k' ∧ Ev s' k k'
  packets : ∃ l, s'.packets = s.packets ++ l

theorem Evo.refl (s : VState) : Evo s s := ⟨fun _ k h => ⟨k, h, Ev.refl s k⟩, ⟨[], (List.append_nil _).symm⟩⟩

theorem Evo.trans {s1 s2 s3 : VState} (h1 : Evo s1 s2) (h2 : Evo s2 s3) : Evo s1 s3 := by
  constructor
  · intro i k hk
    obtain ⟨k', hk', e1⟩ := h1.keep i k hk
    obtain ⟨k'', hk'', e2⟩ := h2.keep i k' hk'
    exact ⟨k'', hk'', Ev.trans (fun p hp => hasPk_append h2.packets hp) e1 e2⟩
  · obtain ⟨l1, e1⟩ := h1.packets
    obtain ⟨l2, e2⟩ := h2.packets
    exact ⟨l1 ++ l2, by rw [e2, e1, List.append_assoc]⟩

/-- the attribute store is the same, packets were appended -/
theorem Evo.of_attrs {s s' : VState} (ha : s'.attrs = s.attrs) (hp : ∃ l, s'.packets = s.packets ++ l) : Evo s s' :=
  ⟨fun _ k h => ⟨k, by rw [ha]; exact h, Ev.refl s' k⟩, hp⟩

theorem Evo.same {s s' : VState} (ha : s'.attrs = s.attrs) (hp : s'.packets = s.packets) : Evo s s' :=
  Evo.of_attrs ha ⟨[], by rw [hp, List.append_nil]⟩

theorem Evo.push (s : VState) (a : AttrK) : Evo s { s with attrs := s.attrs.push a } :=
  ⟨fun _ k h => ⟨k, getElem?_push_of_some h, Ev.refl _ k⟩, ⟨[], (List.append_nil _).symm⟩⟩

theorem Evo.of_push {s s' : VState} (a : AttrK) (ha : s'.attrs = s.attrs.push a) (hp : s'.packets = s.packets) : Evo s s' :=
  (Evo.push s a).trans (Evo.same ha hp)

/-- one slot overwritten in place by what its attribute may become -/
theorem Evo.set (s : VState) (ai : Nat) (k v : AttrK) (h : s.attrs[ai]? = some k)
    (hev : Ev { s with attrs := s.attrs.set! ai v } k v) : Evo s { s with attrs := s.attrs.set! ai v } := by
  refine ⟨?_, ⟨[], (List.append_nil _).symm⟩⟩
  intro i k0 hk0
  show ∃ k', (s.attrs.set! ai v)[i]? = some k' ∧ _
  rw [Array.set!_eq_setIfInBounds, Array.getElem?_setIfInBounds]
  split
  · next heq =>
    subst heq
    rw [h] at hk0; cases hk0
    rw [if_pos (lt_size_of_getElem? h)]
    exact ⟨v, rfl, hev⟩
  · exact ⟨k0, hk0, Ev.refl _ k0⟩

/-- the step lets every slot evolve, from every state -/
structure Evos (m : V α) : Prop where
  out : ∀ s, wlp m (fun _ s' => Evo s s') s

theorem evos_pure (a : α) : Evos (pure a : V α) := ⟨fun s => (wlp_pure ..).2 (Evo.refl s)⟩

theorem evos_bind {m : V α} {f : α → V β} (hm : Evos m) (hf : ∀ a, Evos (f a)) : Evos (m >>= f) := by
  constructor
  intro s
  rw [wlp_bind]
  refine wlp_mono (hm.out s) ?_
  intro a s1 h1
  exact wlp_mono ((hf a).out s1) (fun _ _ h2 => h1.trans h2)

theorem evos_get : Evos (get : V VState) := ⟨fun s => (wlp_get ..).2 (Evo.refl s)⟩
theorem evos_throw (e : Crash) : Evos (throw e : V α) := ⟨fun _ => (wlp_throw ..).2 trivial⟩
theorem evos_lift (x : Except Crash α) : Evos (liftM x : V α) := ⟨fun s => (wlp_lift ..).2 (fun _ _ => Evo.refl s)⟩
theorem evos_newAttr (a : AttrK) : Evos (newAttr a) := ⟨fun s => (wlp_newAttr ..).2 (Evo.push s a)⟩
theorem evos_newPad (p : PadCell) : Evos (newPad p) := ⟨fun _ => (wlp_newPad ..).2 (Evo.same rfl rfl)⟩
theorem evos_addDiag (l : Nat) (m : String) : Evos (addDiag l m) := ⟨fun _ => (wlp_addDiag ..).2 (Evo.same rfl rfl)⟩

theorem evos_of_wlp {m : V α} (h : ∀ s, wlp m (fun _ s' => Evo s s') s) : Evos m := ⟨h⟩

theorem evos_foldlM {f : β → α → V β} (hf : ∀ b x, Evos (f b x)) (xs : List α) (b : β) : Evos (xs.foldlM f b) := by
  constructor
  intro s
  refine wlp_foldlM f (fun _ s' => Evo s s') xs b s (Evo.refl s) ?_
  intro b x s1 _ h1
  exact wlp_mono ((hf b x).out s1) (fun _ _ h2 => h1.trans h2)

theorem evos_forM {f : α → V PUnit} (hf : ∀ x, Evos (f x)) (xs : List α) : Evos (xs.forM f) := by
  constructor
  intro s
  refine wlp_forM f (fun s' => Evo s s') xs s (Evo.refl s) ?_
  intro x s1 _ h1
  exact wlp_mono ((hf x).out s1) (fun _ _ h2 => h1.trans h2)

/-- decompose an `Evos` goal along binds, branches and the primitives (in-place updates are left over) -/
macro "evos" : tactic =>
  `(tactic| repeat' (first
      | exact evos_pure _ | exact evos_get | exact evos_throw _ | exact evos_lift _
      | exact evos_newAttr _ | exact evos_newPad _ | exact evos_addDiag _ _
      | apply evos_bind | intro _ | dsimp only | split))

theorem tyAttr_evos (ty : Ty) (name : String) : Evos (tyAttr ty name) := by
  unfold tyAttr; evos

theorem visitObj_evos (rep : Option Tok) (ft : Tok) (fn : Option Tok) : Evos (visitObj rep ft fn) := by
  unfold visitObj; evos

theorem metaTypeOf_evos (name : String) (hasTy : Bool) (typ0 : String) (line : Nat) (site : String) :
    Evos (metaTypeOf name hasTy typ0 line site) := by
  unfold metaTypeOf; evos

theorem visitLen_evos (d : LenDecl) (line : Nat) : Evos (visitLen d line) := by
  unfold visitLen
  refine evos_bind (metaTypeOf_evos ..) ?_
  evos

theorem visitCks_evos (d : CkDecl) (line : Nat) : Evos (visitCks d line) := by
  unfold visitCks
  refine evos_bind (metaTypeOf_evos ..) ?_
  evos

theorem visitMetaF_evos (rep : Option Tok) (d : MetaDecl) : Evos (visitMetaF rep d) := by
  unfold visitMetaF
  refine evos_bind (tyAttr_evos ..) ?_
  evos

theorem dupKeyStep_evos (seen : List String) (pr : MPair) : Evos (dupKeyStep seen pr) := by
  unfold dupKeyStep; evos

theorem visitMatch_evos (d : MatchDecl) : Evos (visitMatch d) := by
  unfold visitMatch
  refine evos_bind (evos_foldlM dupKeyStep_evos _ _) ?_
  evos

theorem ev_match (s : VState) (key : Option String) (kr kr' : Bool) (pairs : List MPair) :
    Ev s (.match_ key kr pairs) (.match_ key kr' pairs) := .inr (.inr ⟨key, kr, kr', pairs, rfl, rfl⟩)

theorem inerMatchStep_evos (subs : List MField) (f : MField) (line : Nat) : Evos (inerMatchStep subs f line) := by
  constructor
  intro s
  unfold inerMatchStep
  wls
  split
  · next k kr pairs ai h1 h2 =>
    have hat := attr_at h1 h2
    split
    · wls
      exact Evo.set s ai _ _ hat (ev_match ..)
    · wls
      exact Evo.same rfl rfl
  · wls
    exact Evo.refl s

theorem inerLenStep_evos (f : MField) (line : Nat) : Evos (inerLenStep f line) := by
  unfold inerLenStep; evos

theorem inerStep_evos (subs : List MField) (x : MField × FieldDef) : Evos (inerStep subs x) := by
  unfold inerStep
  exact evos_bind (inerMatchStep_evos ..) (fun _ => inerLenStep_evos ..)

theorem inerFinish_evos (rep : Option Tok) (name : Tok) (fields : List FieldDef) (subs : List MField) :
    Evos (inerFinish rep name fields subs) := by
  unfold inerFinish
  refine evos_bind (evos_forM (inerStep_evos subs) _) ?_
  intro _
  constructor
  intro s
  wls
  exact Evo.of_push _ rfl rfl

mutual
theorem visitFieldDef_evos : (fd : FieldDef) → Evos (visitFieldDef fd)
  | .obj rep ft fn _ _ => by rw [visitFieldDef]; exact visitObj_evos rep ft fn
  | .iner rep name _ fields _ _ => by
    rw [visitFieldDef]
    exact evos_bind (visitFieldDefs_evos fields) (fun subs => inerFinish_evos rep name fields subs)
  | .len d => by rw [visitFieldDef]; exact visitLen_evos d _
  | .cks d => by rw [visitFieldDef]; exact visitCks_evos d _
  | .metaF rep d => by rw [visitFieldDef]; exact visitMetaF_evos rep d
  | .match_ d _ => by rw [visitFieldDef]; exact visitMatch_evos d
theorem visitFieldDefs_evos : (fds : List FieldDef) → Evos (visitFieldDefs fds)
  | [] => by rw [visitFieldDefs]; exact evos_pure _
  | fd :: fds => by
    rw [visitFieldDefs]
    exact evos_bind (visitFieldDef_evos fd) (fun _ => evos_bind (visitFieldDefs_evos fds) (fun _ => evos_pure _))
end

theorem attrStep_evos (fld : MField) (a : Attr) : Evos (attrStep fld a) := by
  unfold attrStep; evos

theorem visitFieldWA_evos (f : FieldWA) : Evos (visitFieldWA f) := by
  unfold visitFieldWA
  exact evos_bind (visitFieldDef_evos f.fd) (fun fld => evos_foldlM attrStep_evos _ _)

theorem pktStep1Tail_evos (isRoot : Bool) (pname : String) (acc : Acc1) (fwa : FieldWA) (fld : MField) :
    Evos (pktStep1Tail isRoot pname acc fwa fld) := by
  obtain ⟨fields, lines, lenF, mfs⟩ := acc
  unfold pktStep1Tail; evos

theorem pktStep1_evos (isRoot : Bool) (pname : String) (acc : Acc1) (fwa : FieldWA) :
    Evos (pktStep1 isRoot pname acc fwa) := by
  rw [pktStep1_eq]
  exact evos_bind (visitFieldWA_evos fwa) (fun _ => pktStep1Tail_evos ..)

theorem pktLenCheck_evos (fields : List MField) (lines : List Nat) (fm : List String) (lenF : LenF) :
    Evos (pktLenCheck fields lines fm lenF) := by
  unfold pktLenCheck; evos

theorem pktStep2Len_evos (lenF : LenF) (fs : List MField) (i : Nat) : Evos (pktStep2Len lenF fs i) := by
  unfold pktStep2Len; evos

theorem pktStep2Res_evos (fm : List String) (lines : List Nat) (fs : List MField) (i : Nat) :
    Evos (pktStep2Res fm lines fs i) := by
  constructor
  intro s
  unfold pktStep2Res
  wls
  split
  · next pkt ref ai h1 h2 =>
    have hat := attr_at h1 h2
    wls
    refine Evo.set s ai _ _ hat (.inr (.inl ⟨false, pkt, ref, _, rfl, rfl, ?_⟩))
    split
    · next hp => exact .inr (.inr ⟨rfl, hp⟩)
    · exact .inr (.inl rfl)
  · wls
    intro t _
    exact Evo.push _ _
  · next k kr pairs ai h1 h2 =>
    have hat := attr_at h1 h2
    split
    · wls
      exact Evo.set s ai _ _ hat (ev_match ..)
    · wls
      exact Evo.same rfl rfl
  · wls
    exact Evo.refl s

theorem pktStep2_evos (lenF : LenF) (fm : List String) (lines : List Nat) (fs : List MField) (i : Nat) :
    Evos (pktStep2 lenF fm lines fs i) := by
  unfold pktStep2
  exact evos_bind (pktStep2Len_evos ..) (fun _ => pktStep2Res_evos ..)

theorem visitPacketDef_evos (p : PacketDef) : Evos (visitPacketDef p) := by
  unfold visitPacketDef
  refine evos_bind (evos_foldlM (pktStep1_evos _ _) _ _) ?_
  intro ⟨fields, lines, lenF, mfs⟩
  refine evos_bind (pktLenCheck_evos ..) ?_
  intro lenF'
  refine evos_bind (evos_foldlM (pktStep2_evos _ _ _) _ _) ?_
  intro _
  exact evos_pure _

theorem packetStep_evos (d : TopDef) : Evos (packetStep d) := by
  unfold packetStep
  split
  · refine evos_bind (visitPacketDef_evos _) ?_
    intro mp
    constructor
    intro s
    wls
    exact Evo.of_attrs (addPacketS_attrs ..) (addPacketS_grow mp s).packets
  · exact evos_pure _

theorem matchTargetStep_evos (f : MField) (pr : MPair) : Evos (matchTargetStep f pr) := by
  unfold matchTargetStep; evos

theorem resolveField_evos : (fuel : Nat) → (f : MField) → Evos (resolveField fuel f)
  | fuel, f => by
    constructor
    intro s
    rw [resolveField]
    wls
    split
    · next iner pkt ai h1 h2 =>
      have hat := attr_at h1 h2
      split
      · next hp =>
        wls
        exact Evo.set s ai _ _ hat (.inr (.inl ⟨iner, pkt, .none, _, rfl, rfl, .inr (.inr ⟨rfl, hp⟩)⟩))
      · wls
        exact Evo.same rfl rfl
    · split
      · cases fuel with
        | zero => exact (wlp_throw ..).2 trivial
        | succ n => exact (evos_forM (fun f' => resolveField_evos n f') _).out s
      · wls
        exact Evo.refl s
    · exact (evos_forM (matchTargetStep_evos f) _).out s
    · wls
      exact Evo.refl s

theorem resolveFields_evos (fuel : Nat) (fields : List MField) : Evos (resolveFields fuel fields) :=
  evos_forM (resolveField_evos fuel) _

/-! ## Following one field from its declaration to `ResolveDependencies` -/

/-- the attribute (and the line) that a freshly visited object field / match field gets -/
def freshSlot : FieldDef → Option (AttrK × Nat)
  | .obj rep ft _ _ _ => some (.object false ft.text .none, (rep.getD ft).line)
  | .match_ d _ => some (.match_ (some d.key.text) false (pairsOfMatch d), 0)
  | _ => none

theorem freshSlot_unstable {fd : FieldDef} {k0 : AttrK} {l : Nat} (h : freshSlot fd = some (k0, l)) : ¬ stable k0 := by
  cases fd <;> simp only [freshSlot, Option.some.injEq, Prod.mk.injEq, reduceCtorEq] at h
  all_goals (obtain ⟨rfl, _⟩ := h; exact fun hh => hh)

theorem freshSlot_notLen {fd : FieldDef} {k0 : AttrK} {l : Nat} (h : freshSlot fd = some (k0, l)) : fdIsLen fd = false := by
  cases fd <;> first | rfl | (simp only [freshSlot, reduceCtorEq] at h)

/-- the model field `g` is named `n`, stands at line `l`, and its slot holds what `k0` has become -/
def Tracked (n : String) (l : Nat) (k0 : AttrK) (g : MField) (s : VState) : Prop :=
  g.name = n ∧ g.line = l ∧ ∃ (ai : Nat) (k' : AttrK), g.attr = some ai ∧ s.attrs[ai]? = some k' ∧ Ev s k0 k'

theorem Tracked.evo {n : String} {l : Nat} {k0 : AttrK} {g : MField} {s s' : VState} (h : Tracked n l k0 g s)
    (he : Evo s s') : Tracked n l k0 g s' := by
  obtain ⟨h1, h2, ai, k', h3, h4, h5⟩ := h
  obtain ⟨k'', h6, h7⟩ := he.keep ai k' h4
  exact ⟨h1, h2, ai, k'', h3, h6, Ev.trans (fun p hp => hasPk_append he.packets hp) h5 h7⟩

def SameF (g' g : MField) : Prop := g'.name = g.name ∧ g'.line = g.line ∧ g'.attr = g.attr

theorem Tracked.same {n : String} {l : Nat} {k0 : AttrK} {g g' : MField} {s : VState} (h : Tracked n l k0 g s)
    (hs : SameF g' g) : Tracked n l k0 g' s := by
  obtain ⟨h1, h2, ai, k', h3, h4, h5⟩ := h
  exact ⟨hs.1.trans h1, hs.2.1.trans h2, ai, k', hs.2.2.trans h3, h4, h5⟩

/-- the field is not of a MetaData type -/
def notMetaTyped (fd : FieldDef) (s : VState) : Prop :=
  match fd with
  | .obj _ ft _ _ _ => findMeta s ft.text = none
  | _ => True

theorem notMetaTyped.fr {fd : FieldDef} {s s' : VState} (h : notMetaTyped fd s) (e : s'.metas = s.metas) :
    notMetaTyped fd s' := by
  cases fd <;> first | trivial | (unfold notMetaTyped findMeta at *; rw [e]; exact h)

theorem visitFieldDef_fresh (fd : FieldDef) (k0 : AttrK) (l : Nat) (hfs : freshSlot fd = some (k0, l)) (s : VState)
    (hm : notMetaTyped fd s) : wlp (visitFieldDef fd) (fun g s' => Tracked (fieldName fd) l k0 g s') s := by
  cases fd with
  | obj rep ft fn doc comma =>
    simp only [freshSlot, Option.some.injEq, Prod.mk.injEq] at hfs
    obtain ⟨rfl, rfl⟩ := hfs
    rw [visitFieldDef]
    unfold visitObj
    wls
    have hnone : findMeta s ft.text = none := hm
    split
    · next m hm' => rw [hnone] at hm'; cases hm'
    · wls
      exact ⟨rfl, rfl, _, _, rfl, getElem?_push_size _ _, Ev.refl _ _⟩
  | match_ d comma =>
    simp only [freshSlot, Option.some.injEq, Prod.mk.injEq] at hfs
    obtain ⟨rfl, rfl⟩ := hfs
    rw [visitFieldDef]
    unfold visitMatch
    rw [wlp_bind]
    intro _ s1 _
    wls
    exact ⟨rfl, rfl, _, _, rfl, getElem?_push_size _ _, Ev.refl _ _⟩
  | iner rep name lb fields rb comma => simp only [freshSlot, reduceCtorEq] at hfs
  | len d => simp only [freshSlot, reduceCtorEq] at hfs
  | cks d => simp only [freshSlot, reduceCtorEq] at hfs
  | metaF rep d => simp only [freshSlot, reduceCtorEq] at hfs

/-- prefix attributes that leave the attribute object of the field alone: `@tag(n)` and the padding attributes
(`@calculatedFrom` / `@lengthOf` replace it) -/
def attrKeeps : Attr → Bool
  | .calc _ => false
  | .len _ => false
  | _ => true

theorem attrStep_tracked (fld : MField) (a : Attr) (s : VState) (n : String) (l : Nat) (k0 : AttrK)
    (hk : attrKeeps a = true) (hu : ¬ stable k0) (ht : Tracked n l k0 fld s) :
    wlp (attrStep fld a) (fun g s' => Tracked n l k0 g s') s := by
  unfold attrStep
  split
  · simp [attrKeeps] at hk
  · simp [attrKeeps] at hk
  · wls
    split
    · next n' pd heq =>
      exfalso
      obtain ⟨_, _, ai, k', h3, h4, h5⟩ := ht
      have h6 : s.attrs[ai]? = some (.fixed n' pd) := attr_at heq h3
      rw [h4] at h6; cases h6
      exact h5.notStable hu trivial
    · wls
      exact ht.evo (Evo.same rfl rfl)
  · wls
    exact ⟨ht.1, ht.2.1, ht.2.2⟩

theorem attrs_tracked (n : String) (l : Nat) (k0 : AttrK) (hu : ¬ stable k0) :
    ∀ (attrs : List Attr) (fld : MField) (s : VState), (∀ a, a ∈ attrs → attrKeeps a = true) → Tracked n l k0 fld s →
      wlp (attrs.foldlM attrStep fld) (fun g s' => Tracked n l k0 g s') s
  | [], fld, s, _, h => by rw [List.foldlM_nil, wlp_pure]; exact h
  | a :: attrs, fld, s, hk, h => by
    rw [List.foldlM_cons, wlp_bind]
    refine wlp_mono (attrStep_tracked fld a s n l k0 (hk a (List.mem_cons_self ..)) hu h) ?_
    intro f1 s1 h1
    exact attrs_tracked n l k0 hu attrs f1 s1 (fun a' ha' => hk a' (List.mem_cons_of_mem _ ha')) h1

theorem visitFieldWA_tracked (f : FieldWA) (k0 : AttrK) (l : Nat) (hfs : freshSlot f.fd = some (k0, l))
    (hk : ∀ a, a ∈ f.attrs → attrKeeps a = true) (s : VState) (hm : notMetaTyped f.fd s) :
    wlp (visitFieldWA f) (fun g s' => Tracked (fieldName f.fd) l k0 g s') s := by
  unfold visitFieldWA
  rw [wlp_bind]
  refine wlp_mono (visitFieldDef_fresh f.fd k0 l hfs s hm) ?_
  intro f1 s1 h1
  exact attrs_tracked _ l k0 (freshSlot_unstable hfs) f.attrs f1 s1 hk h1

theorem foldl_attrLen_keeps : ∀ (attrs : List Attr) (b : Bool), (∀ a, a ∈ attrs → attrKeeps a = true) →
    attrs.foldl (fun b a => attrLen a b) b = b
  | [], _, _ => rfl
  | a :: attrs, b, hk => by
    rw [List.foldl_cons]
    have : attrLen a b = b := by
      have := hk a (List.mem_cons_self ..)
      cases a <;> first | rfl | (simp [attrKeeps] at this)
    rw [this]
    exact foldl_attrLen_keeps attrs b (fun a' ha' => hk a' (List.mem_cons_of_mem _ ha'))

theorem isLenSyn_of_keeps (f : FieldWA) {k0 : AttrK} {l : Nat} (hfs : freshSlot f.fd = some (k0, l))
    (hk : ∀ a, a ∈ f.attrs → attrKeeps a = true) : isLenSyn f = false := by
  unfold isLenSyn
  rw [foldl_attrLen_keeps f.attrs _ hk]
  exact freshSlot_notLen hfs

/-! ### The first loop -/

theorem pktStep1_names (r : Bool) (pn : String) (acc : Acc1) (fwa : FieldWA) (s : VState) (h : Inv s) :
    wlp (pktStep1 r pn acc fwa)
      (fun acc' s' => (Inv s' ∧ Fr s s') ∧ ∀ g, g ∈ acc'.1 → g ∈ acc.1 ∨ g.name = fieldName fwa.fd) s := by
  refine wlp_and (pktStep1_inv r pn acc fwa s h) ?_
  apply pktStep1_wlp _ _ _ _ _ h
  intro fld s1 _ _ hn _
  refine wlp_mono (pktStep1Tail_fields r pn acc fwa fld s1) ?_
  intro acc' _ hh g hg
  rcases hh with e | e
  · rw [e] at hg; exact .inl hg
  · rw [e] at hg
    rcases List.mem_append.1 hg with h1 | h1
    · exact .inl h1
    · cases List.mem_singleton.1 h1; exact .inr hn

/-- the names of the fields collected by the first loop are names of the field definitions it went over -/
theorem loop1_names (r : Bool) (pn : String) (fs : List FieldWA) (acc : Acc1) (s : VState) (h : Inv s) :
    wlp (fs.foldlM (pktStep1 r pn) acc) (fun acc' s' => Inv s' ∧ Fr s s' ∧
      ∀ g, g ∈ acc'.1 → g ∈ acc.1 ∨ g.name ∈ fs.map (fun f => fieldName f.fd)) s := by
  refine wlp_foldlM _ (fun acc' s' => Inv s' ∧ Fr s s' ∧
    ∀ g, g ∈ acc'.1 → g ∈ acc.1 ∨ g.name ∈ fs.map (fun f => fieldName f.fd)) fs acc s
    ⟨h, Fr.refl s, fun g hg => .inl hg⟩ ?_
  intro b x s1 hx ⟨hi, hfr, hnm⟩
  refine wlp_mono (pktStep1_names r pn b x s1 hi) ?_
  intro b' s2 ⟨⟨hi2, hfr2⟩, hn2⟩
  refine ⟨hi2, hfr.trans hfr2, ?_⟩
  intro g hg
  rcases hn2 g hg with h1 | h1
  · exact hnm g h1
  · exact .inr (List.mem_map.2 ⟨x, hx, h1.symm⟩)

theorem pktStep1_fieldsMono (r : Bool) (pn : String) (acc : Acc1) (fwa : FieldWA) (s : VState) :
    wlp (pktStep1 r pn acc fwa) (fun acc' _ => ∀ g, g ∈ acc.1 → g ∈ acc'.1) s := by
  rw [pktStep1_eq, wlp_bind]
  intro fld s1 _
  refine wlp_mono (pktStep1Tail_fields r pn acc fwa fld s1) ?_
  intro acc' _ hh g hg
  rcases hh with e | e
  · rw [e]; exact hg
  · rw [e]; exact List.mem_append_left _ hg

theorem pktStep1_tracks (r : Bool) (pn : String) (acc : Acc1) (f : FieldWA) (s : VState) (h : Inv s) (k0 : AttrK) (l : Nat)
    (hfs : freshSlot f.fd = some (k0, l)) (hk : ∀ a, a ∈ f.attrs → attrKeeps a = true) (hm : notMetaTyped f.fd s)
    (hnew : ∀ g, g ∈ acc.1 → g.name ≠ fieldName f.fd) :
    wlp (pktStep1 r pn acc f) (fun acc' s' => ∃ g, g ∈ acc'.1 ∧ Tracked (fieldName f.fd) l k0 g s') s := by
  rw [pktStep1_eq, wlp_bind]
  refine wlp_mono (wlp_and (visitFieldWA_len f s h) (visitFieldWA_tracked f k0 l hfs hk s hm)) ?_
  intro fld s1 ⟨⟨hn, hlen⟩, ht⟩
  obtain ⟨fields, lines, lenF, mfs⟩ := acc
  unfold pktStep1Tail
  wls
  rw [hlen.isLenK, isLenSyn_of_keeps f hfs hk]
  simp only [Bool.false_and, Bool.false_eq_true, if_false]
  have hd : fields.any (·.name = fld.name) = false := by
    rw [List.any_eq_false]
    intro x hx hxe
    exact hnew x hx (by rw [← hn]; simpa using hxe)
  rw [if_neg (by rw [hd]; exact Bool.false_ne_true)]
  wls
  exact ⟨fld, List.mem_append_right _ (List.mem_singleton.2 rfl), ht⟩

theorem loop1_tracks (r : Bool) (pn : String) (f : FieldWA) (l1 l2 : List FieldWA) (k0 : AttrK) (l : Nat)
    (hfs : freshSlot f.fd = some (k0, l)) (hk : ∀ a, a ∈ f.attrs → attrKeeps a = true)
    (hnew : fieldName f.fd ∉ l1.map (fun f => fieldName f.fd)) (s : VState) (hi : Inv s) (hm : notMetaTyped f.fd s) :
    wlp ((l1 ++ f :: l2).foldlM (pktStep1 r pn) ([], [], none, []))
      (fun acc' s' => ∃ g, g ∈ acc'.1 ∧ Tracked (fieldName f.fd) l k0 g s') s := by
  rw [wlp_foldlM_split]
  refine wlp_mono (loop1_names r pn l1 _ s hi) ?_
  intro acc1 s1 ⟨hi1, hfr1, hn1⟩
  refine wlp_mono (pktStep1_tracks r pn acc1 f s1 hi1 k0 l hfs hk (hm.fr hfr1.metas) ?_) ?_
  · intro g hg he
    rcases hn1 g hg with h | h
    · cases h
    · exact hnew (he ▸ h)
  · intro acc2 s2 ht
    refine wlp_foldlM _ (fun acc' s' => ∃ g, g ∈ acc'.1 ∧ Tracked (fieldName f.fd) l k0 g s') l2 acc2 s2 ht ?_
    intro b x s3 _ ⟨g, hg, htg⟩
    refine wlp_mono (wlp_and ((pktStep1_evos r pn b x).out s3) (pktStep1_fieldsMono r pn b x s3)) ?_
    intro b' s4 ⟨he, hmono⟩
    exact ⟨g, hmono g hg, htg.evo he⟩

/-! ### The second loop -/

theorem mem_setField (fs : List MField) (i : Nat) (x g : MField) (hg : g ∈ fs) :
    g ∈ setField fs i x ∨ (g = fs[i]! ∧ x ∈ setField fs i x) := by
  obtain ⟨j, hj, rfl⟩ := List.getElem_of_mem hg
  unfold setField
  by_cases h : i = j
  · subst h
    refine .inr ⟨?_, List.mem_of_getElem? (i := i) (by rw [List.getElem?_set_self hj])⟩
    rw [List.getElem!_eq_getElem?_getD, List.getElem?_eq_getElem hj]; rfl
  · exact .inl (List.mem_of_getElem? (i := j) (by rw [List.getElem?_set_ne h, List.getElem?_eq_getElem hj]))

def SameAll (fs fs' : List MField) : Prop := ∀ g, g ∈ fs → ∃ g', g' ∈ fs' ∧ SameF g' g

theorem SameAll.refl (fs : List MField) : SameAll fs fs := fun g hg => ⟨g, hg, rfl, rfl, rfl⟩

theorem SameAll.trans {a b c : List MField} (h1 : SameAll a b) (h2 : SameAll b c) : SameAll a c := by
  intro g hg
  obtain ⟨g1, hg1, s1⟩ := h1 g hg
  obtain ⟨g2, hg2, s2⟩ := h2 g1 hg1
  exact ⟨g2, hg2, s2.1.trans s1.1, s2.2.1.trans s1.2.1, s2.2.2.trans s1.2.2⟩

theorem sameAll_setField (fs : List MField) (i : Nat) (x : MField) (hx : SameF x fs[i]!) : SameAll fs (setField fs i x) := by
  intro g hg
  rcases mem_setField fs i x g hg with h | ⟨h1, h2⟩
  · exact ⟨g, h, rfl, rfl, rfl⟩
  · subst h1; exact ⟨x, h2, hx⟩

theorem pktStep2Len_same (lenF : LenF) (fs : List MField) (i : Nat) (s : VState) :
    wlp (pktStep2Len lenF fs i) (fun fs' _ => SameAll fs fs') s := by
  unfold pktStep2Len
  wls
  split
  · next lf0 li =>
    split
    · split
      · wls
      · split
        · wls
          cases li with
          | none => exact sameAll_setField fs i _ ⟨rfl, rfl, rfl⟩
          | some j =>
            dsimp only
            exact SameAll.trans (b := setField fs j { fs[j]! with lenAttr := some s.attrs.size })
              (sameAll_setField fs j _ ⟨rfl, rfl, rfl⟩) (sameAll_setField _ i _ ⟨rfl, rfl, rfl⟩)
        · wls
          exact SameAll.refl fs
    · wls
  · wls
    exact SameAll.refl fs

theorem pktStep2Res_same (fm : List String) (lines : List Nat) (fs : List MField) (i : Nat) (s : VState) :
    wlp (pktStep2Res fm lines fs i) (fun fs' _ => ∀ g, g ∈ fs →
      (∃ g', g' ∈ fs' ∧ SameF g' g) ∨ (∃ (ai : Nat) (k : AttrK), g.attr = some ai ∧ s.attrs[ai]? = some k ∧ stable k)) s := by
  unfold pktStep2Res
  wls
  split
  · wls
    exact fun g hg => .inl ⟨g, hg, rfl, rfl, rfl⟩
  · next t0 tname ai h1 h2 =>
    have hat := attr_at h1 h2
    wls
    intro t _ g hg
    rcases mem_setField fs i { fs[i]! with attr := some s.attrs.size } g hg with h | ⟨h3, _⟩
    · exact .inl ⟨g, h, rfl, rfl, rfl⟩
    · subst h3
      exact .inr ⟨ai, _, h2, hat, trivial⟩
  · split
    · wls
      exact fun g hg => .inl ⟨g, hg, rfl, rfl, rfl⟩
    · wls
      exact fun g hg => .inl ⟨g, hg, rfl, rfl, rfl⟩
  · wls
    exact fun g hg => .inl ⟨g, hg, rfl, rfl, rfl⟩

theorem pktStep2_tracks (lenF : LenF) (fm : List String) (lines : List Nat) (fs : List MField) (i : Nat) (s : VState)
    (n : String) (l : Nat) (k0 : AttrK) (hu : ¬ stable k0) (ht : ∃ g, g ∈ fs ∧ Tracked n l k0 g s) :
    wlp (pktStep2 lenF fm lines fs i) (fun fs' s' => ∃ g, g ∈ fs' ∧ Tracked n l k0 g s') s := by
  unfold pktStep2
  rw [wlp_bind]
  obtain ⟨g, hg, htg⟩ := ht
  refine wlp_mono (wlp_and ((pktStep2Len_evos lenF fs i).out s) (pktStep2Len_same lenF fs i s)) ?_
  intro fs1 s1 ⟨he1, hs1⟩
  obtain ⟨g1, hg1, hsame1⟩ := hs1 g hg
  have ht1 : Tracked n l k0 g1 s1 := (htg.evo he1).same hsame1
  refine wlp_mono (wlp_and ((pktStep2Res_evos fm lines fs1 i).out s1) (pktStep2Res_same fm lines fs1 i s1)) ?_
  intro fs2 s2 ⟨he2, hs2⟩
  rcases hs2 g1 hg1 with ⟨g2, hg2, hsame2⟩ | ⟨ai, k, ha, hk, hst⟩
  · exact ⟨g2, hg2, (ht1.evo he2).same hsame2⟩
  · exfalso
    obtain ⟨_, _, ai', k', h3, h4, h5⟩ := ht1
    rw [ha] at h3; cases h3
    rw [hk] at h4; cases h4
    exact h5.notStable hu hst

/-- a field of packet `p` that is an object field (not of a MetaData type) or a match field, carries only `@tag` / padding
attributes and does not repeat the name of an earlier field: the model packet has a field of that name and line whose
slot holds what the fresh attribute has become -/
theorem visitPacketDef_tracks (p : PacketDef) (f : FieldWA) (l1 l2 : List FieldWA) (hc : p.fields = l1 ++ f :: l2)
    (k0 : AttrK) (l : Nat) (hfs : freshSlot f.fd = some (k0, l)) (hk : ∀ a, a ∈ f.attrs → attrKeeps a = true)
    (hnew : fieldName f.fd ∉ l1.map (fun f => fieldName f.fd)) (s : VState) (hi : Inv s) (hm : notMetaTyped f.fd s) :
    wlp (visitPacketDef p) (fun mp s' => ∃ g, g ∈ mp.fields ∧ Tracked (fieldName f.fd) l k0 g s') s := by
  unfold visitPacketDef
  rw [wlp_bind, hc]
  refine wlp_mono (loop1_tracks p.root.isSome p.name.text f l1 l2 k0 l hfs hk hnew s hi hm) ?_
  intro ⟨fields, lines, lenF, mfs⟩ s1 ht
  dsimp only
  rw [wlp_bind]
  refine wlp_mono ((pktLenCheck_evos ..).out s1) ?_
  intro lenF' s2 he2
  rw [wlp_bind]
  have ht2 : ∃ g, g ∈ fields ∧ Tracked (fieldName f.fd) l k0 g s2 := by
    obtain ⟨g, hg, h⟩ := ht
    exact ⟨g, hg, h.evo he2⟩
  refine wlp_mono (wlp_foldlM _ (fun fs' s' => ∃ g, g ∈ fs' ∧ Tracked (fieldName f.fd) l k0 g s') _ fields s2 ht2
    (fun fs' i s' _ h => pktStep2_tracks _ _ _ fs' i s' _ l k0 (freshSlot_unstable hfs) h)) ?_
  intro fs s3 h3
  rw [wlp_pure]
  exact h3

/-! ### The packet loop -/

/-- the model has a packet `pn` with a tracked field -/
def TrackedP (pn n : String) (l : Nat) (k0 : AttrK) (s : VState) : Prop :=
  ∃ mp, mp ∈ s.packets ∧ mp.name = pn ∧ ∃ g, g ∈ mp.fields ∧ Tracked n l k0 g s

theorem TrackedP.evo {pn n : String} {l : Nat} {k0 : AttrK} {s s' : VState} (h : TrackedP pn n l k0 s) (he : Evo s s') :
    TrackedP pn n l k0 s' := by
  obtain ⟨mp, h1, h2, g, h3, h4⟩ := h
  obtain ⟨l', e⟩ := he.packets
  exact ⟨mp, by rw [e]; exact List.mem_append_left _ h1, h2, g, h3, h4.evo he⟩

theorem addPacketS_new (mp : MPacket) (s : VState) (h : s.packets.any (·.name = mp.name) = false) :
    (addPacketS mp s).packets = s.packets ++ [mp] := by
  unfold addPacketS
  rw [if_neg (by rw [h]; exact Bool.false_ne_true)]
  dsimp only
  split
  · split <;> rfl
  · rfl

theorem packetStep_tracks (p : PacketDef) (f : FieldWA) (l1 l2 : List FieldWA) (hc : p.fields = l1 ++ f :: l2)
    (k0 : AttrK) (l : Nat) (hfs : freshSlot f.fd = some (k0, l)) (hk : ∀ a, a ∈ f.attrs → attrKeeps a = true)
    (hnew : fieldName f.fd ∉ l1.map (fun f => fieldName f.fd)) (s : VState) (hi : Inv s) (hm : notMetaTyped f.fd s)
    (hnp : ¬ hasPk s p.name.text) :
    wlp (packetStep (.packet p)) (fun _ s' => TrackedP p.name.text (fieldName f.fd) l k0 s') s := by
  unfold packetStep
  dsimp only
  rw [wlp_bind]
  refine wlp_mono (wlp_and (wlp_and ((visitPacketDef_frames p).out s) (visitPacketDef_res p s))
    (visitPacketDef_tracks p f l1 l2 hc k0 l hfs hk hnew s hi hm)) ?_
  intro mp s1 ⟨⟨hfr, hname, _, _⟩, g, hg, ht⟩
  wls
  have hnew' : s1.packets.any (·.name = mp.name) = false := by
    rw [hname, hfr.packets]
    unfold hasPk at hnp
    simpa using hnp
  refine ⟨mp, ?_, hname, g, hg, ht.evo (Evo.of_attrs (addPacketS_attrs ..) (addPacketS_grow mp s1).packets)⟩
  rw [addPacketS_new mp s1 hnew']
  exact List.mem_append_right _ (List.mem_singleton.2 rfl)

theorem packetStep_metas (d : TopDef) (s : VState) : wlp (packetStep d) (fun _ s' => s'.metas = s.metas) s := by
  unfold packetStep
  split
  · rw [wlp_bind]
    refine wlp_mono ((visitPacketDef_frames _).out s) ?_
    intro mp s1 hfr
    wls
    exact (addPacketS_metas ..).trans hfr.metas
  · wls

theorem packetLoop_tracks (L1 L2 : List TopDef) (p : PacketDef) (f : FieldWA) (l1 l2 : List FieldWA)
    (hc : p.fields = l1 ++ f :: l2) (k0 : AttrK) (l : Nat) (hfs : freshSlot f.fd = some (k0, l))
    (hk : ∀ a, a ∈ f.attrs → attrKeeps a = true) (hnew : fieldName f.fd ∉ l1.map (fun f => fieldName f.fd))
    (hpn : p.name.text ∉ packetNames L1) (s2 : VState) (hn : NoPk s2) (hi : Inv s2) (hm : notMetaTyped f.fd s2) :
    wlp ((L1 ++ .packet p :: L2).forM packetStep) (fun _ s' => TrackedP p.name.text (fieldName f.fd) l k0 s') s2 := by
  rw [wlp_forM_split]
  have h1 : wlp (L1.forM packetStep) (fun _ s => (PkFrom L1 s ∧ Inv s) ∧ s.metas = s2.metas) s2 :=
    wlp_and (wlp_and (packetLoop_pkFrom L1 s2 hn.1) (wp_to_wlp (forM_inv packetStep packetStep_spec L1 s2 hi)))
      (wlp_forM _ (fun s => s.metas = s2.metas) L1 s2 rfl
        (fun d s _ hs => wlp_mono (packetStep_metas d s) (fun _ _ hh => hh.trans hs)))
  refine wlp_mono h1 ?_
  intro _ s ⟨⟨hpk, hinv⟩, hmet⟩
  refine wlp_mono (packetStep_tracks p f l1 l2 hc k0 l hfs hk hnew s hinv (hm.fr hmet)
    (not_hasPk_of_pkFrom hpk (fun r hr e => hpn (e ▸ mem_packetNames hr)))) ?_
  intro _ s' ht
  exact wlp_mono ((evos_forM packetStep_evos L2).out s') (fun _ _ he => ht.evo he)

/-! ### `ResolveDependencies` -/

/-- a diagnostic that `resolveField` issues for field `g` of a registered packet (in every state the earlier fields may
have left) is a diagnostic of `ResolveDependencies` -/
theorem resolveDeps_offence (s : VState) (mp : MPacket) (hmp : mp ∈ s.packets) (g : MField) (hg : g ∈ mp.fields)
    (d : Nat × String)
    (hx : ∀ s1, Evo s s1 → Fr s s1 → wlp (resolveField s.ipackets.size g) (fun _ s' => d ∈ s'.diags) s1) :
    wlp resolveDeps (fun _ s' => d ∈ s'.diags) s := by
  unfold resolveDeps
  wls
  obtain ⟨p1, p2, hp⟩ := List.append_of_mem hmp
  obtain ⟨f1, f2, hf⟩ := List.append_of_mem hg
  refine wlp_mono (Q := fun _ s' => d ∈ s'.diags) ?_
    (fun _ s1 hd => wlp_mono (checkRecursion_frames.out s1) (fun _ _ hfr => hfr.mem_diags hd))
  rw [hp]
  refine forM_offence1 (f := fun p => resolveFields s.ipackets.size p.fields) (fun p => (resolveFields_frames _ _).grows)
    mp p1 p2 d (fun s1 => Evo s s1 ∧ Fr s s1) s ?_ ?_
  · exact wlp_and ((evos_forM (fun p => resolveFields_evos _ _) p1).out s)
      ((frames_forM (fun p => resolveFields_frames _ _) p1).out s)
  · intro s1 ⟨he1, hfr1⟩
    unfold resolveFields
    rw [hf]
    refine forM_offence1 (fun x => (resolveField_frames _ x).grows) g f1 f2 d (fun s2 => Evo s s2 ∧ Fr s s2) s1 ?_
      (fun s2 h => hx s2 h.1 h.2)
    exact wlp_mono (wlp_and ((evos_forM (resolveField_evos _) f1).out s1) ((frames_forM (resolveField_frames _) f1).out s1))
      (fun _ _ hh => ⟨he1.trans hh.1, hfr1.trans hh.2⟩)

theorem resolveField_unknownObj (fuel : Nat) (g : MField) (s : VState) (n pkt : String) (l : Nat)
    (ht : Tracked n l (.object false pkt .none) g s) (hn : ¬ hasPk s pkt) :
    wlp (resolveField fuel g) (fun _ s' => (l, "Unknown packet type " ++ pkt ++ " for field " ++ n) ∈ s'.diags) s := by
  obtain ⟨hn', hl', ai, k', ha, hs, hev⟩ := ht
  have hk : k' = .object false pkt .none := by
    rcases hev with ⟨hst, _⟩ | ⟨i, p, r, r', e1, e2, hr⟩ | ⟨_, _, _, _, e1, _⟩
    · exact hst.elim
    · cases e1; subst e2
      rcases hr with h | h | ⟨_, hp⟩
      · rw [h]
      · rw [h]
      · exact absurd hp hn
    · cases e1
  subst hk
  have hb : g.attr.bind (s.attrs[·]?) = some (.object false pkt .none) := by rw [ha]; exact hs
  rw [resolveField]
  wls
  split
  · next iner pkt' ai' heq heq2 =>
    rw [hb] at heq; cases heq
    unfold hasPk at hn
    rw [if_neg hn]
    wls
    rw [hn', hl']
    exact List.mem_append_right _ (List.mem_singleton.2 rfl)
  · next heq => rw [hb] at heq; cases heq
  · next heq => rw [hb] at heq; cases heq
  · exfalso
    rename_i h1 h2 h3
    first | exact h1 _ _ _ hb ha | exact h2 _ _ _ hb ha | exact h3 _ _ _ hb ha

theorem matchTargetStep_unknown (f : MField) (pr : MPair) (s : VState) (hn : ¬ hasPk s pr.value) :
    wlp (matchTargetStep f pr) (fun _ s' =>
      (pr.line, "Unknown packet type " ++ pr.value ++ " for match key " ++ pr.key ++ " of field " ++ f.name) ∈ s'.diags) s := by
  unfold matchTargetStep
  wls
  unfold hasPk at hn
  have : (!(s.packets.any (·.name = pr.value))) = true := by simpa using hn
  rw [if_pos this]
  wls
  exact List.mem_append_right _ (List.mem_singleton.2 rfl)

theorem resolveField_unknownTarget (fuel : Nat) (g : MField) (s : VState) (n : String) (l : Nat) (key : Option String)
    (pairs : List MPair) (pr : MPair) (hpr : pr ∈ pairs) (ht : Tracked n l (.match_ key false pairs) g s)
    (hn : ¬ hasPk s pr.value) :
    wlp (resolveField fuel g) (fun _ s' =>
      (pr.line, "Unknown packet type " ++ pr.value ++ " for match key " ++ pr.key ++ " of field " ++ n) ∈ s'.diags) s := by
  obtain ⟨hn', hl', ai, k', ha, hs, hev⟩ := ht
  have hk : ∃ kr, k' = .match_ key kr pairs := by
    rcases hev with ⟨hst, _⟩ | ⟨_, _, _, _, e1, _⟩ | ⟨_, _, kr', _, e1, e2⟩
    · exact hst.elim
    · cases e1
    · cases e1; exact ⟨kr', e2⟩
  obtain ⟨kr, rfl⟩ := hk
  have hb : g.attr.bind (s.attrs[·]?) = some (.match_ key kr pairs) := by rw [ha]; exact hs
  obtain ⟨q1, q2, hq⟩ := List.append_of_mem hpr
  rw [resolveField]
  wls
  split
  · next heq _ => rw [hb] at heq; cases heq
  · next heq => rw [hb] at heq; cases heq
  · next _ _ pairs' heq =>
    rw [hb] at heq; cases heq
    rw [hq, ← hn']
    refine forM_offence1 (fun x => (matchTargetStep_frames g x).grows) pr q1 q2 _ (fun s1 => Fr s s1) s
      ((frames_forM (matchTargetStep_frames g) q1).out s) ?_
    intro s1 hfr
    refine matchTargetStep_unknown g pr s1 ?_
    unfold hasPk at *
    rw [hfr.packets]; exact hn
  · exfalso
    rename_i h1 h2 h3
    first | exact h1 _ _ _ hb | exact h2 _ _ _ hb | exact h3 _ _ _ hb

/-! ### Whole runs -/

/-- every registered MetaData entry is named in `N` -/
def MetaFrom (N : List String) (s : VState) : Prop := ∀ m, m ∈ s.metas → m.name ∈ N

theorem MetaFrom.fr {N : List String} {s s' : VState} (h : MetaFrom N s) (e : s'.metas = s.metas) : MetaFrom N s' := by
  intro m hm; rw [e] at hm; exact h m hm

theorem addMetaS_metaFrom (m : MMeta) (s : VState) (N : List String) (hn : m.name ∈ N) (h : MetaFrom N s) :
    MetaFrom N (addMetaS m s) := by
  unfold addMetaS
  split
  · exact h
  · intro m' hm'
    rcases List.mem_append.1 hm' with h1 | h1
    · exact h m' h1
    · cases List.mem_singleton.1 h1; exact hn

theorem metaEntryStep_metaFrom (e : MetaEntry) (N : List String) (s : VState) (he : entryName e ∈ N) (h : MetaFrom N s) :
    wlp (metaEntryStep e) (fun _ => MetaFrom N) s := by
  unfold metaEntryStep
  split
  · rw [wlp_bind]
    refine wlp_mono ((tyAttr_frames ..).out s) ?_
    intro a s1 hfr
    wls
    exact addMetaS_metaFrom _ _ _ he (h.fr hfr.metas)
  · wls
    have key : ∀ (c : Prop) [Decidable c] (m : MMeta) (s1 : VState), m.name ∈ N → MetaFrom N s1 →
        wlp (if c then addMeta m else pure PUnit.unit) (fun _ => MetaFrom N) s1 := by
      intro c _ m s1 hm h1
      split
      · wls; exact addMetaS_metaFrom _ _ _ hm h1
      · wls; exact h1
    split
    · wls; exact key _ _ _ he h
    · exact key _ _ _ he h

theorem findMeta_none_of_metaFrom {N : List String} {s : VState} {n : String} (h : MetaFrom N s) (hn : n ∉ N) :
    findMeta s n = none := by
  cases hf : findMeta s n with
  | none => rfl
  | some m =>
    exfalso
    have h1 : m ∈ s.metas := mem_of_findMeta hf
    have h2 : m.name = n := by
      have := List.find?_some hf
      simpa using this
    exact hn (h2 ▸ h m h1)

theorem optStep_metas (d : TopDef) (s : VState) : wlp (optStep d) (fun _ s' => s'.metas = s.metas) s := by
  unfold optStep
  split
  · refine wlp_forM _ (fun s' => s'.metas = s.metas) _ s rfl ?_
    intro od s1 _ h1
    unfold optDeclStep
    wls
    exact (addOptionS_metas ..).trans h1
  · wls

/-- whatever the packet phase and `ResolveDependencies` establish from every state the first two phases can leave (no
packet, no root, the store invariants, only MetaData entries of the file) holds of the run -/
theorem run_phase34 {c : Cst} {s : VState} {Q : VState → Prop}
    (hw : ∀ s2, NoPk s2 → Inv s2 → MetaFrom (metaNames c) s2 →
      wlp (c.defs.forM packetStep) (fun _ s3 => wlp resolveDeps (fun _ => Q) s3) s2)
    (h : run c = .ok s) : Q s := by
  refine run_of_wlp (Q := Q) ((wlp_visitCst ..).2 ?_) h
  have hmf : wlp (c.defs.forM metaStep) (fun _ => MetaFrom (metaNames c)) {} := by
    rw [metaLoop_eq]
    refine wlp_forM _ (MetaFrom (metaNames c)) _ {} (fun m hm => by cases hm) ?_
    intro e s1 he h1
    exact metaEntryStep_metaFrom e _ s1 (List.mem_map.2 ⟨e, he, rfl⟩) h1
  have h1 : wlp (c.defs.forM metaStep) (fun _ s' => (NoPk s' ∧ Inv s') ∧ MetaFrom (metaNames c) s') {} :=
    wlp_and (wlp_and (wlp_forM _ NoPk _ _ ⟨rfl, rfl⟩ (fun d s _ hs => metaStep_noPk d s hs))
      (wp_to_wlp (forM_inv metaStep metaStep_spec c.defs {} Inv.empty))) hmf
  refine wlp_mono h1 ?_
  intro _ s1 ⟨⟨hn1, hi1⟩, hm1⟩
  have h2 : wlp (c.defs.forM optStep) (fun _ s' => (NoPk s' ∧ Inv s') ∧ s'.metas = s1.metas) s1 :=
    wlp_and (wlp_and (wlp_forM _ NoPk _ _ hn1 (fun d s _ hs => optStep_noPk d s hs))
      (wp_to_wlp (forM_inv optStep optStep_spec c.defs s1 hi1)))
      (wlp_forM _ (fun s => s.metas = s1.metas) _ s1 rfl (fun d s _ hs => wlp_mono (optStep_metas d s) (fun _ _ hh => hh.trans hs)))
  refine wlp_mono h2 ?_
  intro _ s2 ⟨⟨hn2, hi2⟩, hm2⟩
  exact hw s2 hn2 hi2 (hm1.fr hm2)

/-- the tracked field of a registered packet, at the start of `ResolveDependencies`, with the packets of the file -/
theorem run_tracked {c : Cst} {s : VState} {d : Nat × String} (L1 L2 : List TopDef) (p : PacketDef) (f : FieldWA)
    (l1 l2 : List FieldWA) (hcd : c.defs = L1 ++ .packet p :: L2) (hc : p.fields = l1 ++ f :: l2) (k0 : AttrK) (l : Nat)
    (hfs : freshSlot f.fd = some (k0, l)) (hk : ∀ a, a ∈ f.attrs → attrKeeps a = true)
    (hnew : fieldName f.fd ∉ l1.map (fun f => fieldName f.fd)) (hpn : p.name.text ∉ packetNames L1)
    (hm : ∀ s2, MetaFrom (metaNames c) s2 → notMetaTyped f.fd s2)
    (hx : ∀ (fuel : Nat) (g : MField) (s1 : VState), PkFrom c.defs s1 → Tracked (fieldName f.fd) l k0 g s1 →
      wlp (resolveField fuel g) (fun _ s' => d ∈ s'.diags) s1)
    (h : run c = .ok s) : d ∈ s.diags := by
  refine run_phase34 (Q := fun s => d ∈ s.diags) ?_ h
  intro s2 hn hi hmf
  have h3 : wlp (c.defs.forM packetStep) (fun _ s3 => PkFrom c.defs s3 ∧ TrackedP p.name.text (fieldName f.fd) l k0 s3) s2 := by
    refine wlp_and (packetLoop_pkFrom c.defs s2 hn.1) ?_
    rw [hcd]
    exact packetLoop_tracks L1 L2 p f l1 l2 hc k0 l hfs hk hnew hpn s2 hn hi (hm s2 hmf)
  refine wlp_mono h3 ?_
  intro _ s3 ⟨hpk, mp, hmp, _, g, hg, ht⟩
  refine resolveDeps_offence s3 mp hmp g hg d ?_
  intro s1 he hfr
  refine hx _ g s1 ?_ (ht.evo he)
  intro x hx'
  rw [hfr.packets] at hx'
  exact hpk x hx'

/-! ## Acceptance: the flat fragment with `RefMetaData` entries -/

/-- MetaData entries, given the names `seen` so far: a declaration (`char[n]` in range), or a reference `Type name` whose
`Type` is an EARLIER entry -/
def EntriesOK : List String → List MetaEntry → Prop
  | _, [] => True
  | seen, .decl d :: l => tyOK d.ty ∧ EntriesOK (seen ++ [d.name.text]) l
  | seen, .ref r :: l => r.typ.text ∈ seen ∧ EntriesOK (seen ++ [r.name.text]) l

theorem wlp_forM_single (f : α → V PUnit) (x : α) (Q : PUnit → VState → Prop) (s : VState) :
    wlp ([x].forM f) Q s ↔ wlp (f x) Q s := by
  rw [forM_cons', wlp_bind]
  constructor
  · intro h; exact wlp_mono h (fun _ s1 h1 => (wlp_pure (α := PUnit) ⟨⟩ Q s1).1 h1)
  · intro h; exact wlp_mono h (fun _ s1 h1 => (wlp_pure (α := PUnit) ⟨⟩ Q s1).2 h1)

/-- a reference to a registered entry, under a fresh name, registers the name and nothing else -/
theorem metaRef_ok (r : RefMetaDecl) (s : VState) (hi : Inv s) (hk : (findMeta s r.typ.text).isSome = true)
    (hnew : (findMeta s r.name.text).isSome = false) :
    wlp (metaEntryStep (.ref r)) (fun _ s' => Inv s' ∧ s'.diags = s.diags ∧ s'.packets = s.packets ∧ s'.root = s.root ∧
      s'.metas.map (·.name) = s.metas.map (·.name) ++ [r.name.text] ∧ s'.options = s.options) s := by
  unfold metaEntryStep
  dsimp only
  wls
  cases hm : findMeta s r.typ.text with
  | none => rw [hm] at hk; cases hk
  | some m =>
    obtain ⟨a, k, h1, h2, h3⟩ := hi.metaOK m (mem_of_findMeta hm)
    simp only [Option.isNone_some, Bool.false_eq_true, if_false, Option.bind_some, h1, Option.isSome_some, if_true]
    wls
    rw [addMetaS_fresh _ _ hnew]
    refine ⟨?_, rfl, rfl, rfl, by simp, rfl⟩
    have := hi.addMeta { name := r.name.text, attr := some a, desc := docOf r.doc, line := r.typ.line } ⟨a, k, rfl, h2, h3⟩
    rw [addMetaS_fresh _ _ hnew] at this
    exact this

theorem metaLoop_refs : ∀ (l : List MetaEntry) (s0 s : VState), Inv s → s.diags = s0.diags → NoPk s →
    EntriesOK (s.metas.map (·.name)) l → (s.metas.map (·.name) ++ l.map entryName).Nodup →
    wlp (l.forM metaEntryStep) (fun _ s' => Inv s' ∧ s'.diags = s0.diags ∧ NoPk s' ∧
      s'.metas.map (·.name) = s.metas.map (·.name) ++ l.map entryName ∧ s'.options = s.options) s
  | [], s0, s, hi, hd, hn, _, _ => (wlp_pure ..).2 ⟨hi, hd, hn, by simp, rfl⟩
  | .decl d :: l, s0, s, hi, hd, hn, he, hnd => by
    rw [forM_cons', wlp_bind, ← wlp_forM_single]
    have hnd1 : (s.metas.map (·.name) ++ [MetaEntry.decl d].map entryName).Nodup := by
      have := hnd
      rw [show (MetaEntry.decl d :: l).map entryName = [MetaEntry.decl d].map entryName ++ l.map entryName from rfl,
        ← List.append_assoc] at this
      exact (List.nodup_append.1 this).1
    refine wlp_mono (metaLoop_flat [.decl d] s0 s hi hd hn
      (fun e h => by cases List.mem_singleton.1 h; exact ⟨d, rfl, he.1⟩) hnd1) ?_
    intro _ s1 ⟨hi1, hd1, hn1, hm1, ho1⟩
    have hm1' : s1.metas.map (·.name) = s.metas.map (·.name) ++ [d.name.text] := hm1
    refine wlp_mono (metaLoop_refs l s0 s1 hi1 hd1 hn1 (by rw [hm1']; exact he.2) ?_) ?_
    · rw [hm1', List.append_assoc]; exact hnd
    · intro _ s2 ⟨h1, h2, h3, h4, h5⟩
      refine ⟨h1, h2, h3, ?_, h5.trans ho1⟩
      rw [h4, hm1', List.append_assoc]; rfl
  | .ref r :: l, s0, s, hi, hd, hn, he, hnd => by
    rw [forM_cons', wlp_bind]
    have hk : (findMeta s r.typ.text).isSome = true := (findMeta_isSome_iff s _).2 he.1
    have hnew : (findMeta s r.name.text).isSome = false := by
      cases hh : (findMeta s r.name.text).isSome with
      | false => rfl
      | true =>
        exfalso
        have h1 := (findMeta_isSome_iff s _).1 hh
        exact (List.nodup_append.1 hnd).2.2 _ h1 r.name.text (by simp [entryName]) rfl
    refine wlp_mono (metaRef_ok r s hi hk hnew) ?_
    intro _ s1 ⟨hi1, hd1, hp1, hr1, hm1, ho1⟩
    refine wlp_mono (metaLoop_refs l s0 s1 hi1 (hd1.trans hd) ⟨hp1.trans hn.1, hr1.trans hn.2⟩
      (by rw [hm1]; exact he.2) ?_) ?_
    · rw [hm1, List.append_assoc]; exact hnd
    · intro _ s2 ⟨h1, h2, h3, h4, h5⟩
      refine ⟨h1, h2, h3, ?_, h5.trans ho1⟩
      rw [h4, hm1, List.append_assoc]; rfl

/-- **Well-formed files of the flat fragment with MetaData references.**  As `WFFlat`, but a MetaData entry may also be a
reference `Type name` to an EARLIER entry (of the same or an earlier block).  Still excluded: length fields, prefix
`@calculatedFrom` / `@lengthOf` attributes, packet-typed fields, inline objects and match fields. -/
structure WFRefs (c : Cst) : Prop where
  /-- every MetaData entry is a declaration (`char[n]` in range) or refers to an earlier entry -/
  metaOK : EntriesOK [] (metaEntries c)
  /-- no two MetaData entries with the same name -/
  metaNodup : (metaNames c).Nodup
  /-- every option is a documented one and has an allowed value -/
  optOK : ∀ od, od ∈ optDecls c → OptOK od
  /-- no option is set twice -/
  optNodup : ((optDecls c).map (·.name.text)).Nodup
  /-- no two packets with the same name -/
  pktNodup : (packetNames c.defs).Nodup
  /-- at most one root packet -/
  oneRoot : rootCount c.defs ≤ 1
  /-- per packet: fields of the flat fragment, no two fields with the same name -/
  packets : ∀ p, TopDef.packet p ∈ c.defs → FlatPacket (metaNames c) p

theorem visitCst_refs (c : Cst) (h : WFRefs c) : wlp (visitCst c) (fun _ s' => s'.diags = []) {} := by
  rw [wlp_visitCst, metaLoop_eq, optLoop_eq]
  refine wlp_mono (metaLoop_refs (c.defs.flatMap entriesOf) {} {} Inv.empty rfl ⟨rfl, rfl⟩ h.metaOK
    (by simpa [metaNames, metaEntries] using h.metaNodup)) ?_
  intro _ s1 ⟨hi1, hd1, hn1, hm1, ho1⟩
  have hmk : MetaKnown (metaNames c) s1 := by
    intro n hn
    rw [findMeta_isSome_iff, hm1]
    simpa [metaNames, metaEntries] using hn
  refine wlp_mono (optLoop_flat (c.defs.flatMap declsOf) {} s1 hi1 hd1 hn1 h.optOK ?_) ?_
  · rw [ho1]
    simpa [optDecls] using h.optNodup
  intro _ s2 ⟨hi2, hd2, hn2, hm2⟩
  refine wlp_mono (packetLoop_flat (metaNames c) c.defs s2 s2 ⟨hi2, rfl, ?_⟩ (hmk.fr hm2) h.packets ?_ ?_) ?_
  · intro p hp; rw [hn2.1] at hp; cases hp
  · rw [hn2.1]; simpa using h.pktNodup
  · rw [hn2.2]; simpa using h.oneRoot
  intro _ s3 q
  refine wlp_mono (resolveDeps_quiet s3 q.quiet) ?_
  intro _ s4 e
  subst e
  rw [q.diags, hd2]

/-! ## Positions: fields, their lines and the `lengthField` pointer through the first loop -/

/-- fields and lines were extended by equally many entries -/
def Ext (acc acc' : Acc1) : Prop := ∃ X Y, acc'.1 = acc.1 ++ X ∧ acc'.2.1 = acc.2.1 ++ Y ∧ X.length = Y.length

/-- the `lengthField` pointer, once set, stays what it is -/
def LenKeep (acc acc' : Acc1) : Prop := ∀ v, acc.2.2.1 = some v → acc'.2.2.1 = some v

theorem Ext.refl (acc : Acc1) : Ext acc acc := ⟨[], [], by simp, by simp, rfl⟩

theorem Ext.trans {a b c : Acc1} (h1 : Ext a b) (h2 : Ext b c) : Ext a c := by
  obtain ⟨X1, Y1, e1, e2, e3⟩ := h1
  obtain ⟨X2, Y2, f1, f2, f3⟩ := h2
  exact ⟨X1 ++ X2, Y1 ++ Y2, by rw [f1, e1, List.append_assoc], by rw [f2, e2, List.append_assoc], by simp [e3, f3]⟩

theorem pktStep1Tail_shape (r : Bool) (pn : String) (acc : Acc1) (fwa : FieldWA) (fld : MField) (s : VState) :
    wlp (pktStep1Tail r pn acc fwa fld) (fun acc' _ =>
      ((acc'.1 = acc.1 ∧ acc'.2.1 = acc.2.1) ∨ (acc'.1 = acc.1 ++ [fld] ∧ acc'.2.1 = acc.2.1 ++ [fwa.start.line])) ∧
        LenKeep acc acc') s := by
  obtain ⟨fields, lines, lenF, mfs⟩ := acc
  unfold pktStep1Tail LenKeep
  wls
  split
  · wls; exact ⟨by simp, fun v h => h⟩
  · split
    · wls; exact ⟨by simp, fun v h => h⟩
    · next h1 h2 =>
      have hk : ∀ (v : MField × Option Nat) (x : MField × Option Nat), lenF = some v →
          (if isLenK (fld.attr.bind (s.attrs[·]?)) = true then some x else lenF) = some v := by
        intro v x hv
        subst hv
        have : isLenK (fld.attr.bind (s.attrs[·]?)) = false := by simpa using h2
        simp [this]
      try dsimp only
      split
      · wls; exact ⟨by simp, fun v hv => hk v _ hv⟩
      · wls; exact ⟨by simp, fun v hv => hk v _ hv⟩

theorem pktStep1_ext (r : Bool) (pn : String) (acc : Acc1) (fwa : FieldWA) (s : VState) :
    wlp (pktStep1 r pn acc fwa) (fun acc' _ => Ext acc acc' ∧ LenKeep acc acc') s := by
  rw [pktStep1_eq, wlp_bind]
  intro fld s1 _
  refine wlp_mono (pktStep1Tail_shape r pn acc fwa fld s1) ?_
  intro acc' _ ⟨hh, hk⟩
  refine ⟨?_, hk⟩
  rcases hh with ⟨e1, e2⟩ | ⟨e1, e2⟩
  · exact ⟨[], [], by simp [e1], by simp [e2], rfl⟩
  · exact ⟨[fld], [fwa.start.line], e1, e2, rfl⟩

theorem loop1_ext (r : Bool) (pn : String) (fs : List FieldWA) (acc : Acc1) (s : VState) :
    wlp (fs.foldlM (pktStep1 r pn) acc) (fun acc' _ => Ext acc acc' ∧ LenKeep acc acc') s := by
  refine wlp_foldlM _ (fun acc' _ => Ext acc acc' ∧ LenKeep acc acc') fs acc s ⟨Ext.refl acc, fun _ h => h⟩ ?_
  intro b x s1 _ ⟨h1, h2⟩
  refine wlp_mono (pktStep1_ext r pn b x s1) ?_
  intro b' _ ⟨h3, h4⟩
  exact ⟨h1.trans h3, fun v hv => h4 v (h2 v hv)⟩

theorem pktStep1_nonLen (r : Bool) (pn : String) (acc : Acc1) (fwa : FieldWA) (s : VState) (h : Inv s)
    (hl : isLenSyn fwa = false) : wlp (pktStep1 r pn acc fwa) (fun acc' _ => acc'.2.2.1 = acc.2.2.1) s := by
  apply pktStep1_wlp _ _ _ _ _ h
  intro fld s1 _ _ _ hlen
  obtain ⟨fields, lines, lenF, mfs⟩ := acc
  unfold pktStep1Tail
  wls
  rw [hlen.isLenK, hl]
  simp only [Bool.false_and, Bool.false_eq_true, if_false]
  split
  · wls
  · wls

theorem loop1_hasField (r : Bool) (pn : String) (n : String) (fs : List FieldWA) (acc : Acc1) (s : VState)
    (hf : hasField acc n) : wlp (fs.foldlM (pktStep1 r pn) acc) (fun acc' _ => hasField acc' n) s :=
  wlp_foldlM _ (fun acc' _ => hasField acc' n) fs acc s hf (fun b x s1 _ h => pktStep1_hasField r pn n b x s1 h)

/-- over fields that are not length fields the `lengthField` pointer does not move and every name gets registered -/
theorem loop1_nonLen (r : Bool) (pn : String) : ∀ (l1 : List FieldWA) (acc : Acc1) (s : VState), Inv s →
    (∀ x, x ∈ l1 → isLenSyn x = false) →
    wlp (l1.foldlM (pktStep1 r pn) acc)
      (fun acc' _ => acc'.2.2.1 = acc.2.2.1 ∧ ∀ x, x ∈ l1 → hasField acc' (fieldName x.fd)) s
  | [], acc, s, _, _ => by rw [List.foldlM_nil, wlp_pure]; exact ⟨rfl, fun x hx => by cases hx⟩
  | x :: l1, acc, s, hi, hl => by
    rw [List.foldlM_cons, wlp_bind]
    have hx := hl x (List.mem_cons_self ..)
    refine wlp_mono (wlp_and (pktStep1_inv r pn acc x s hi)
      (wlp_and (pktStep1_nonLen r pn acc x s hi hx) (pktStep1_registers r pn acc x s hi hx))) ?_
    intro acc1 s1 ⟨⟨hi1, _⟩, he, hreg⟩
    refine wlp_mono (wlp_and (loop1_nonLen r pn l1 acc1 s1 hi1 (fun y hy => hl y (List.mem_cons_of_mem _ hy)))
      (loop1_hasField r pn _ l1 acc1 s1 hreg)) ?_
    intro acc2 _ ⟨⟨he2, hreg2⟩, hx2⟩
    refine ⟨he2.trans he, ?_⟩
    intro y hy
    rcases List.mem_cons.1 hy with h | h
    · subst h; exact hx2
    · exact hreg2 y h

/-- the field's attribute is a length attribute with target `t` -/
def LenSlot (g : MField) (s : VState) (t : String) : Prop :=
  ∃ (ai : Nat) (typ : String), g.attr = some ai ∧ s.attrs[ai]? = some (.length typ (some t))

theorem Ev.of_stable {s : VState} {k k' : AttrK} (hs : stable k) (h : Ev s k k') : k' = k := by
  rcases h with ⟨_, e⟩ | ⟨_, _, _, _, e, _⟩ | ⟨_, _, _, _, e, _⟩
  · exact e
  · subst e; exact hs.elim
  · subst e; exact hs.elim

theorem LenSlot.evo {g : MField} {s s' : VState} {t : String} (h : LenSlot g s t) (he : Evo s s') : LenSlot g s' t := by
  obtain ⟨ai, typ, h1, h2⟩ := h
  obtain ⟨k', h3, h4⟩ := he.keep ai _ h2
  rw [Ev.of_stable (k := .length typ (some t)) trivial h4] at h3
  exact ⟨ai, typ, h1, h3⟩

theorem attrStep_lenSlot (fld : MField) (a : Attr) (s : VState) (t : String) (hk : attrKeeps a = true)
    (h : LenSlot fld s t) : wlp (attrStep fld a) (fun g s' => g.name = fld.name ∧ LenSlot g s' t) s := by
  unfold attrStep
  split
  · simp [attrKeeps] at hk
  · simp [attrKeeps] at hk
  · wls
    split
    · next n' pd heq =>
      exfalso
      obtain ⟨ai, typ, h1, h2⟩ := h
      have h6 := attr_at heq h1
      rw [h2] at h6; cases h6
    · wls
      exact ⟨by first | rfl | trivial, h.evo (Evo.same rfl rfl)⟩
  · wls
    exact ⟨by first | rfl | trivial, h⟩

theorem attrs_lenSlot (t : String) : ∀ (attrs : List Attr) (fld : MField) (s : VState),
    (∀ a, a ∈ attrs → attrKeeps a = true) → LenSlot fld s t →
    wlp (attrs.foldlM attrStep fld) (fun g s' => g.name = fld.name ∧ LenSlot g s' t) s
  | [], fld, s, _, h => by rw [List.foldlM_nil, wlp_pure]; exact ⟨rfl, h⟩
  | a :: attrs, fld, s, hk, h => by
    rw [List.foldlM_cons, wlp_bind]
    refine wlp_mono (attrStep_lenSlot fld a s t (hk a (List.mem_cons_self ..)) h) ?_
    intro f1 s1 ⟨hn, h1⟩
    refine wlp_mono (attrs_lenSlot t attrs f1 s1 (fun a' ha' => hk a' (List.mem_cons_of_mem _ ha')) h1) ?_
    intro f2 s2 ⟨hn2, h2⟩
    exact ⟨hn2.trans hn, h2⟩

theorem visitLen_slot (d : LenDecl) (line : Nat) (s : VState) :
    wlp (visitLen d line) (fun g s' => g.name = d.name.text ∧ LenSlot g s' d.attr.from_.text) s := by
  unfold visitLen
  rw [wlp_bind]
  intro typ s1 _
  wls
  exact ⟨by first | rfl | trivial, _, typ, rfl, getElem?_push_size _ _⟩

theorem visitFieldWA_lenSlot (f : FieldWA) (d : LenDecl) (hfd : f.fd = .len d) (hk : ∀ a, a ∈ f.attrs → attrKeeps a = true)
    (s : VState) :
    wlp (visitFieldWA f) (fun g s' => g.name = d.name.text ∧ LenSlot g s' d.attr.from_.text) s := by
  unfold visitFieldWA
  rw [wlp_bind, hfd, visitFieldDef]
  refine wlp_mono (visitLen_slot d _ s) ?_
  intro f1 s1 ⟨hn, h1⟩
  refine wlp_mono (attrs_lenSlot _ f.attrs f1 s1 hk h1) ?_
  intro f2 s2 ⟨hn2, h2⟩
  exact ⟨hn2.trans hn, h2⟩

theorem isLenSyn_lenDecl (f : FieldWA) (d : LenDecl) (hfd : f.fd = .len d) (hk : ∀ a, a ∈ f.attrs → attrKeeps a = true) :
    isLenSyn f = true := by
  unfold isLenSyn
  rw [foldl_attrLen_keeps f.attrs _ hk, hfd]
  rfl

/-- the first length field of the root packet (a declaration with only `@tag` / padding attributes, under a fresh name):
it is appended, and the `lengthField` pointer records it with its position -/
theorem pktStep1_lenAt (pn : String) (acc : Acc1) (f : FieldWA) (s : VState) (hi : Inv s) (d : LenDecl)
    (hfd : f.fd = .len d) (hk : ∀ a, a ∈ f.attrs → attrKeeps a = true) (hnone : acc.2.2.1 = none)
    (hnew : ∀ g, g ∈ acc.1 → g.name ≠ d.name.text) :
    wlp (pktStep1 true pn acc f) (fun acc' s' => ∃ fld, acc'.1 = acc.1 ++ [fld] ∧ acc'.2.1 = acc.2.1 ++ [f.start.line] ∧
      acc'.2.2.1 = some (fld, some acc.1.length) ∧ fld.name = d.name.text ∧ LenSlot fld s' d.attr.from_.text) s := by
  rw [pktStep1_eq, wlp_bind]
  refine wlp_mono (wlp_and (visitFieldWA_len f s hi) (visitFieldWA_lenSlot f d hfd hk s)) ?_
  intro fld s1 ⟨⟨_, hlen⟩, hname, hslot⟩
  obtain ⟨fields, lines, lenF, mfs⟩ := acc
  dsimp only at hnone hnew ⊢
  subst hnone
  unfold pktStep1Tail
  wls
  rw [hlen.isLenK, isLenSyn_lenDecl f d hfd hk]
  have hd : fields.any (·.name = fld.name) = false := by
    rw [List.any_eq_false]
    intro x hx hxe
    exact hnew x hx (by rw [← hname]; simpa using hxe)
  simp only [Bool.not_true, Bool.and_false, Bool.false_eq_true, if_false, Option.isSome_none, hd, if_true]
  wls
  exact ⟨fld, by simp, by simp, by simp, hname, hslot⟩

/-- the end of the first loop over `l1 ++ f :: l2`, `f` the first length field of the root packet -/
theorem loop1_lenAt (pn : String) (f : FieldWA) (d : LenDecl) (l1 l2 : List FieldWA) (hfd : f.fd = .len d)
    (hk : ∀ a, a ∈ f.attrs → attrKeeps a = true) (hl1 : ∀ x, x ∈ l1 → isLenSyn x = false)
    (hnew : d.name.text ∉ l1.map (fun f => fieldName f.fd)) (s : VState) (hi : Inv s) :
    wlp ((l1 ++ f :: l2).foldlM (pktStep1 true pn) ([], [], none, [])) (fun acc s' =>
      ∃ lf i F1 X, acc.2.2.1 = some (lf, some i) ∧ acc.2.1[i]? = some f.start.line ∧ lf.name = d.name.text ∧
        LenSlot lf s' d.attr.from_.text ∧ acc.1 = F1 ++ X ∧ F1.length = i ∧
        ∀ x, x ∈ l1 → F1.any (·.name = fieldName x.fd) = true) s := by
  rw [wlp_foldlM_split]
  refine wlp_mono (wlp_and (loop1_names true pn l1 _ s hi) (wlp_and (loop1_nonLen true pn l1 _ s hi hl1)
    (loop1_ext true pn l1 _ s))) ?_
  intro acc1 s1 ⟨⟨hi1, _, hn1⟩, ⟨hnone, hreg⟩, ⟨X0, Y0, e1, e2, e3⟩, _⟩
  refine wlp_mono (pktStep1_lenAt pn acc1 f s1 hi1 d hfd hk hnone ?_) ?_
  · intro g hg he
    rcases hn1 g hg with h | h
    · cases h
    · exact hnew (he ▸ h)
  intro acc2 s2 ⟨fld, f1, f2, f3, f4, f5⟩
  refine wlp_mono (wlp_and (loop1_ext true pn l2 acc2 s2) ((evos_foldlM (pktStep1_evos true pn) l2 acc2).out s2)) ?_
  intro acc3 s3 ⟨⟨⟨X, Y, g1, g2, _⟩, hkeep⟩, hevo⟩
  refine ⟨fld, acc1.1.length, acc1.1, [fld] ++ X, hkeep _ f3, ?_, f4, f5.evo hevo, by rw [g1, f1, List.append_assoc], rfl, hreg⟩
  have hlen : acc1.2.1.length = acc1.1.length := by
    rw [e1, e2]; simp [e3]
  rw [g2, f2, ← hlen, List.getElem?_append_left (by simp), List.getElem?_concat_length]

theorem pktLenCheck_unknown (fields : List MField) (lines : List Nat) (fm : List String) (lf : MField) (i : Nat)
    (s : VState) (t : String) (hs : LenSlot lf s t) (hfm : fm.contains t = false) :
    wlp (pktLenCheck fields lines fm (some (lf, some i)))
      (fun _ s' => (lines.getD i 0, "Unknown field " ++ t ++ " for @lengthOf of field " ++ lf.name) ∈ s'.diags) s := by
  obtain ⟨ai, typ, h1, h2⟩ := hs
  have hb : lf.attr.bind (s.attrs[·]?) = some (.length typ (some t)) := by rw [h1]; exact h2
  unfold pktLenCheck
  simp only [wlp_bind, wlp_get, hb, hfm, Bool.false_eq_true, if_false]
  wls
  exact List.mem_append_right _ (List.mem_singleton.2 rfl)

theorem pktLenCheck_before (fields : List MField) (lines : List Nat) (fm : List String) (lf : MField) (i j : Nat)
    (s : VState) (t : String) (hs : LenSlot lf s t) (hfm : fm.contains t = true)
    (hj : fields.findIdx? (·.name = t) = some j) (hji : j ≤ i) :
    wlp (pktLenCheck fields lines fm (some (lf, some i)))
      (fun _ s' => (lines.getD i 0, "Field " ++ t ++ " measured by @lengthOf of field " ++ lf.name ++
        " must be declared after it") ∈ s'.diags) s := by
  obtain ⟨ai, typ, h1, h2⟩ := hs
  have hb : lf.attr.bind (s.attrs[·]?) = some (.length typ (some t)) := by rw [h1]; exact h2
  unfold pktLenCheck
  simp only [wlp_bind, wlp_get, hb, hfm, if_true, hj, hji]
  wls
  exact List.mem_append_right _ (List.mem_singleton.2 rfl)

theorem findIdx?_append_of_any (p : α → Bool) : ∀ (xs ys : List α), xs.any p = true →
    ∃ j, j < xs.length ∧ (xs ++ ys).findIdx? p = some j
  | [], _, h => by simp at h
  | x :: xs, ys, h => by
    rw [List.cons_append, List.findIdx?_cons]
    by_cases hp : p x = true
    · exact ⟨0, by simp, by simp [hp]⟩
    · have hxs : xs.any p = true := by
        rw [List.any_cons] at h
        simpa [hp] using h
      obtain ⟨j, hj, e⟩ := findIdx?_append_of_any p xs ys hxs
      exact ⟨j + 1, by simp; omega, by simp [hp, e]⟩

/-- a diagnostic that visiting packet `p` issues (from every state that satisfies the invariants) is in the final list of
every run over a file that contains `p` -/
theorem diag_of_packetDef {c : Cst} {s : VState} {d : Nat × String} (p : PacketDef) (hp : TopDef.packet p ∈ c.defs)
    (hw : ∀ s0, Inv s0 → wlp (visitPacketDef p) (fun _ s' => d ∈ s'.diags) s0) (h : run c = .ok s) : d ∈ s.diags := by
  obtain ⟨l1, l2, hc⟩ := List.append_of_mem hp
  refine diag_of_phase3 ?_ h
  intro s2 _ hi
  rw [hc]
  exact forM_offence1 packetStep_grows _ l1 l2 d Inv s2 (wp_to_wlp (forM_inv packetStep packetStep_spec l1 s2 hi))
    (fun s hs => packetStep_diag p s d (hw s hs))

/-- what is known at the end of the first loop about the length field `f` (see `loop1_lenAt`), plus the names -/
theorem visitPacketDef_lenCheck (p : PacketDef) (f : FieldWA) (d : LenDecl) (l1 l2 : List FieldWA)
    (hroot : p.root.isSome = true) (hc : p.fields = l1 ++ f :: l2) (hfd : f.fd = .len d)
    (hk : ∀ a, a ∈ f.attrs → attrKeeps a = true) (hl1 : ∀ x, x ∈ l1 → isLenSyn x = false)
    (hnew : d.name.text ∉ l1.map (fun f => fieldName f.fd)) (dg : Nat × String) (s : VState) (hi : Inv s)
    (hx : ∀ (fields : List MField) (lines : List Nat) (lf : MField) (i : Nat) (F1 X : List MField) (s1 : VState),
      (∀ g, g ∈ fields → g.name ∈ p.fields.map (fun f => fieldName f.fd)) → lines.getD i 0 = f.start.line →
      lf.name = d.name.text → LenSlot lf s1 d.attr.from_.text → fields = F1 ++ X → F1.length = i →
      (∀ x, x ∈ l1 → F1.any (·.name = fieldName x.fd) = true) →
      wlp (pktLenCheck fields lines (fields.map (·.name)) (some (lf, some i))) (fun _ s' => dg ∈ s'.diags) s1) :
    wlp (visitPacketDef p) (fun _ s' => dg ∈ s'.diags) s := by
  unfold visitPacketDef
  rw [wlp_bind, hroot, hc]
  have hA := loop1_names true p.name.text (l1 ++ f :: l2) ([], [], none, []) s hi
  have hB := loop1_lenAt p.name.text f d l1 l2 hfd hk hl1 hnew s hi
  refine wlp_mono (wlp_and hA hB) ?_
  intro ⟨fields, lines, lenF, mfs⟩ s1 ⟨⟨_, _, hnames⟩, lf, i, F1, X, h1, h2, h3, h4, h5, h6, h7⟩
  dsimp only at h1 h2 h5 hnames ⊢
  subst h1
  rw [wlp_bind]
  refine wlp_mono (hx fields lines lf i F1 X s1 ?_ ?_ h3 h4 h5 h6 h7) ?_
  · intro g hg
    rw [hc]
    rcases hnames g hg with h | h
    · cases h
    · exact h
  · rw [List.getD_eq_getElem?_getD, h2]; rfl
  intro lenF' s2 hd
  rw [wlp_bind]
  refine wlp_mono ((frames_foldlM (pktStep2_frames _ _ _) _ _).out s2) ?_
  intro fs s3 h3'
  rw [wlp_pure]
  exact h3'.mem_diags hd

/-! ## The second loop by position: the unknown key field of a match field -/

theorem getElem?_setField (fs : List MField) (i k : Nat) (x : MField) :
    (setField fs i x)[k]? = if i = k ∧ i < fs.length then some x else fs[k]? := by
  unfold setField
  rw [List.getElem?_set]
  by_cases h1 : i = k
  · subst h1
    by_cases h2 : i < fs.length
    · simp [h2]
    · simp [h2]
  · simp [h1]

/-- position by position: the entry is untouched, or it keeps name and line and its attribute pointers are related by `A` -/
def IdxRel (A : MField → MField → Prop) (fs fs' : List MField) : Prop :=
  ∀ k : Nat, fs'[k]? = fs[k]? ∨
    ∃ g g', fs[k]? = some g ∧ fs'[k]? = some g' ∧ g'.name = g.name ∧ g'.line = g.line ∧ A g g'

theorem IdxRel.refl (A : MField → MField → Prop) (fs : List MField) : IdxRel A fs fs := fun _ => .inl rfl

theorem idxRel_setField (A : MField → MField → Prop) (fs : List MField) (i : Nat) (x : MField)
    (hx : i < fs.length → x.name = fs[i]!.name ∧ x.line = fs[i]!.line ∧ A fs[i]! x) : IdxRel A fs (setField fs i x) := by
  intro k
  rw [getElem?_setField]
  split
  · next h =>
    obtain ⟨rfl, h2⟩ := h
    obtain ⟨a, b, c⟩ := hx h2
    refine .inr ⟨fs[i]!, x, ?_, rfl, a, b, c⟩
    rw [List.getElem!_eq_getElem?_getD, List.getElem?_eq_getElem h2]; rfl
  · exact .inl rfl

theorem IdxRel.trans {A : MField → MField → Prop} (hA : ∀ a b c, A a b → A b c → A a c) {a b c : List MField}
    (h1 : IdxRel A a b) (h2 : IdxRel A b c) : IdxRel A a c := by
  intro k
  rcases h1 k with e1 | ⟨g, g', e1, e2, n1, l1, a1⟩
  · rcases h2 k with e2 | ⟨g, g', f1, f2, n2, l2, a2⟩
    · exact .inl (e2.trans e1)
    · exact .inr ⟨g, g', by rw [← e1]; exact f1, f2, n2, l2, a2⟩
  · rcases h2 k with e3 | ⟨g2, g2', f1, f2, n2, l2, a2⟩
    · exact .inr ⟨g, g', e1, e3.trans e2, n1, l1, a1⟩
    · rw [e2] at f1; cases f1
      exact .inr ⟨g, g2', e1, f2, n2.trans n1, l2.trans l1, hA _ _ _ a1 a2⟩

theorem IdxRel.at {A : MField → MField → Prop} {fs fs' : List MField} (h : IdxRel A fs fs') {k : Nat} {g : MField}
    (hg : fs[k]? = some g) : ∃ g', fs'[k]? = some g' ∧ g'.name = g.name ∧ g'.line = g.line ∧ (g' = g ∨ A g g') := by
  rcases h k with e | ⟨g0, g', e1, e2, n, l, a⟩
  · exact ⟨g, e.trans hg, rfl, rfl, .inl rfl⟩
  · rw [hg] at e1; cases e1
    exact ⟨g', e2, n, l, .inr a⟩

theorem IdxRel.names {A : MField → MField → Prop} {fs fs' : List MField} (h : IdxRel A fs fs') (N : List String)
    (hn : ∀ x, x ∈ fs → x.name ∈ N) : ∀ x, x ∈ fs' → x.name ∈ N := by
  intro x hx
  obtain ⟨k, hk⟩ := List.getElem?_of_mem hx
  rcases h k with e | ⟨g, g', e1, e2, n, _, _⟩
  · exact hn x (List.mem_of_getElem? (e ▸ hk))
  · rw [hk] at e2; cases e2
    rw [n]; exact hn g (List.mem_of_getElem? e1)

def AttrEq (g g' : MField) : Prop := g'.attr = g.attr

theorem pktStep2Len_idx (lenF : LenF) (fs : List MField) (i : Nat) (s : VState) :
    wlp (pktStep2Len lenF fs i) (fun fs' _ => IdxRel AttrEq fs fs') s := by
  have ht : ∀ a b c, AttrEq a b → AttrEq b c → AttrEq a c := fun a b c h1 h2 => Eq.trans h2 h1
  unfold pktStep2Len
  wls
  split
  · next lf0 li =>
    split
    · split
      · wls
      · split
        · wls
          cases li with
          | none => exact idxRel_setField _ fs i _ (fun _ => ⟨rfl, rfl, rfl⟩)
          | some j =>
            dsimp only
            exact IdxRel.trans ht (b := setField fs j { fs[j]! with lenAttr := some s.attrs.size })
              (idxRel_setField _ fs j _ (fun _ => ⟨rfl, rfl, rfl⟩)) (idxRel_setField _ _ i _ (fun _ => ⟨rfl, rfl, rfl⟩))
        · wls
          exact IdxRel.refl _ fs
    · wls
  · wls
    exact IdxRel.refl _ fs

/-- the attribute pointer is kept, or it pointed to a stable attribute -/
def AttrEqOrStable (s : VState) (g g' : MField) : Prop :=
  g'.attr = g.attr ∨ ∃ (ai : Nat) (k : AttrK), g.attr = some ai ∧ s.attrs[ai]? = some k ∧ stable k

theorem pktStep2Res_idx (fm : List String) (lines : List Nat) (fs : List MField) (i : Nat) (s : VState) :
    wlp (pktStep2Res fm lines fs i) (fun fs' _ => IdxRel (AttrEqOrStable s) fs fs') s := by
  unfold pktStep2Res
  wls
  split
  · wls
    exact IdxRel.refl _ fs
  · next t0 tname ai h1 h2 =>
    have hat := attr_at h1 h2
    wls
    intro t _
    exact idxRel_setField _ fs i _ (fun _ => ⟨rfl, rfl, .inr ⟨ai, _, h2, hat, trivial⟩⟩)
  · split
    · wls
      exact IdxRel.refl _ fs
    · wls
      exact IdxRel.refl _ fs
  · wls
    exact IdxRel.refl _ fs

/-- loop invariant: the tracked field stands at position `i`, all names are in `N` -/
def J2 (i : Nat) (n : String) (l : Nat) (k0 : AttrK) (N : List String) (fs : List MField) (s : VState) : Prop :=
  (∃ g, fs[i]? = some g ∧ Tracked n l k0 g s) ∧ ∀ x, x ∈ fs → x.name ∈ N

theorem J2.len {i : Nat} {n : String} {l : Nat} {k0 : AttrK} {N : List String} {fs fs' : List MField} {s s' : VState}
    (h : J2 i n l k0 N fs s) (he : Evo s s') (hr : IdxRel AttrEq fs fs') : J2 i n l k0 N fs' s' := by
  obtain ⟨⟨g, hg, ht⟩, hn⟩ := h
  obtain ⟨g', hg', n1, l1, ha⟩ := hr.at hg
  refine ⟨⟨g', hg', (ht.evo he).same ⟨n1, l1, ?_⟩⟩, hr.names N hn⟩
  rcases ha with rfl | ha
  · rfl
  · exact ha

theorem J2.res {i : Nat} {n : String} {l : Nat} {k0 : AttrK} {N : List String} {fs fs' : List MField} {s s' : VState}
    (hu : ¬ stable k0) (h : J2 i n l k0 N fs s) (he : Evo s s') (hr : IdxRel (AttrEqOrStable s) fs fs') :
    J2 i n l k0 N fs' s' := by
  obtain ⟨⟨g, hg, ht⟩, hn⟩ := h
  obtain ⟨g', hg', n1, l1, ha⟩ := hr.at hg
  refine ⟨⟨g', hg', (ht.evo he).same ⟨n1, l1, ?_⟩⟩, hr.names N hn⟩
  rcases ha with rfl | ha | ⟨ai, k, ha, hk, hst⟩
  · rfl
  · exact ha
  · exfalso
    obtain ⟨_, _, ai', k', h3, h4, h5⟩ := ht
    rw [ha] at h3; cases h3
    rw [hk] at h4; cases h4
    exact h5.notStable hu hst

theorem pktStep2_J (lenF : LenF) (fm : List String) (lines : List Nat) (fs : List MField) (j : Nat) (s : VState)
    (i : Nat) (n : String) (l : Nat) (k0 : AttrK) (N : List String) (hu : ¬ stable k0) (h : J2 i n l k0 N fs s) :
    wlp (pktStep2 lenF fm lines fs j) (fun fs' s' => J2 i n l k0 N fs' s') s := by
  unfold pktStep2
  rw [wlp_bind]
  refine wlp_mono (wlp_and ((pktStep2Len_evos lenF fs j).out s) (pktStep2Len_idx lenF fs j s)) ?_
  intro fs1 s1 ⟨he1, hr1⟩
  have h1 := h.len he1 hr1
  refine wlp_mono (wlp_and ((pktStep2Res_evos fm lines fs1 j).out s1) (pktStep2Res_idx fm lines fs1 j s1)) ?_
  intro fs2 s2 ⟨he2, hr2⟩
  exact J2.res hu h1 he2 hr2

/-- the step of the second loop at the position of a match field whose key names no field -/
theorem pktStep2_unknownKey (lenF : LenF) (fm : List String) (lines : List Nat) (fs : List MField) (s : VState) (i : Nat)
    (n : String) (l : Nat) (key : String) (pairs : List MPair) (N : List String)
    (h : J2 i n l (.match_ (some key) false pairs) N fs s) (hkey : key ∉ N) :
    wlp (pktStep2 lenF fm lines fs i) (fun _ s' =>
      (lines.getD i 0, "Unknown key field " ++ key ++ " for match field " ++ n) ∈ s'.diags) s := by
  unfold pktStep2
  rw [wlp_bind]
  refine wlp_mono (wlp_and ((pktStep2Len_evos lenF fs i).out s) (pktStep2Len_idx lenF fs i s)) ?_
  intro fs1 s1 ⟨he1, hr1⟩
  obtain ⟨⟨g, hg, hn', _, ai, k', ha, hs, hev⟩, hnames⟩ := h.len he1 hr1
  have hk : ∃ kr, k' = .match_ (some key) kr pairs := by
    rcases hev with ⟨hst, _⟩ | ⟨_, _, _, _, e1, _⟩ | ⟨_, _, kr', _, e1, e2⟩
    · exact hst.elim
    · cases e1
    · cases e1; exact ⟨kr', e2⟩
  obtain ⟨kr, rfl⟩ := hk
  have hgi : fs1[i]! = g := getElem!_of_getElem? hg
  have hb : (fs1[i]!).attr.bind (s1.attrs[·]?) = some (.match_ (some key) kr pairs) := by rw [hgi, ha]; exact hs
  unfold pktStep2Res
  wls
  split
  · next heq _ => rw [hb] at heq; cases heq
  · next heq _ => rw [hb] at heq; cases heq
  · next k2 kr2 pairs2 ai2 heq heq2 =>
    rw [hb] at heq; cases heq
    split
    · next kf hkf =>
      exfalso
      have h1 := List.mem_of_find?_eq_some hkf
      have h2 : kf.name = key := by simpa using List.find?_some hkf
      exact hkey (h2 ▸ hnames kf h1)
    · wls
      rw [hgi, hn']
      exact List.mem_append_right _ (List.mem_singleton.2 rfl)
  · exfalso
    rename_i h1 h2 h3
    have ha' : (fs1[i]!).attr = some ai := by rw [hgi]; exact ha
    first | exact h3 _ _ _ _ hb ha' | exact h2 _ _ _ _ hb ha' | exact h1 _ _ _ _ hb ha'

theorem pktStep1_tracksAt (r : Bool) (pn : String) (acc : Acc1) (f : FieldWA) (s : VState) (h : Inv s) (k0 : AttrK) (l : Nat)
    (hfs : freshSlot f.fd = some (k0, l)) (hk : ∀ a, a ∈ f.attrs → attrKeeps a = true) (hm : notMetaTyped f.fd s)
    (hnew : ∀ g, g ∈ acc.1 → g.name ≠ fieldName f.fd) :
    wlp (pktStep1 r pn acc f) (fun acc' s' => ∃ fld, acc'.1 = acc.1 ++ [fld] ∧ acc'.2.1 = acc.2.1 ++ [f.start.line] ∧
      Tracked (fieldName f.fd) l k0 fld s') s := by
  rw [pktStep1_eq, wlp_bind]
  refine wlp_mono (wlp_and (visitFieldWA_len f s h) (visitFieldWA_tracked f k0 l hfs hk s hm)) ?_
  intro fld s1 ⟨⟨hn, hlen⟩, ht⟩
  obtain ⟨fields, lines, lenF, mfs⟩ := acc
  unfold pktStep1Tail
  wls
  rw [hlen.isLenK, isLenSyn_of_keeps f hfs hk]
  simp only [Bool.false_and, Bool.false_eq_true, if_false]
  have hd : fields.any (·.name = fld.name) = false := by
    rw [List.any_eq_false]
    intro x hx hxe
    exact hnew x hx (by rw [← hn]; simpa using hxe)
  rw [if_neg (by rw [hd]; exact Bool.false_ne_true)]
  wls
  exact ⟨fld, by simp, by simp, ht⟩

/-- the end of the first loop: the tracked field and its line stand at the same position -/
theorem loop1_tracksAt (r : Bool) (pn : String) (f : FieldWA) (l1 l2 : List FieldWA) (k0 : AttrK) (l : Nat)
    (hfs : freshSlot f.fd = some (k0, l)) (hk : ∀ a, a ∈ f.attrs → attrKeeps a = true)
    (hnew : fieldName f.fd ∉ l1.map (fun f => fieldName f.fd)) (s : VState) (hi : Inv s) (hm : notMetaTyped f.fd s) :
    wlp ((l1 ++ f :: l2).foldlM (pktStep1 r pn) ([], [], none, []))
      (fun acc s' => ∃ (g : MField) (i : Nat), acc.1[i]? = some g ∧ acc.2.1[i]? = some f.start.line ∧
        Tracked (fieldName f.fd) l k0 g s') s := by
  rw [wlp_foldlM_split]
  refine wlp_mono (wlp_and (loop1_names r pn l1 _ s hi) (loop1_ext r pn l1 _ s)) ?_
  intro acc1 s1 ⟨⟨hi1, hfr1, hn1⟩, ⟨X0, Y0, e1, e2, e3⟩, _⟩
  refine wlp_mono (pktStep1_tracksAt r pn acc1 f s1 hi1 k0 l hfs hk (hm.fr hfr1.metas) ?_) ?_
  · intro g hg he
    rcases hn1 g hg with h | h
    · cases h
    · exact hnew (he ▸ h)
  intro acc2 s2 ⟨fld, f1, f2, ht⟩
  refine wlp_mono (wlp_and (loop1_ext r pn l2 acc2 s2) ((evos_foldlM (pktStep1_evos r pn) l2 acc2).out s2)) ?_
  intro acc3 s3 ⟨⟨⟨X, Y, g1, g2, _⟩, _⟩, hevo⟩
  have hlen : acc1.2.1.length = acc1.1.length := by
    rw [e1, e2]; simp [e3]
  refine ⟨fld, acc1.1.length, ?_, ?_, ht.evo hevo⟩
  · rw [g1, f1, List.getElem?_append_left (by simp), List.getElem?_concat_length]
  · rw [g2, f2, ← hlen, List.getElem?_append_left (by simp), List.getElem?_concat_length]

/-- a match field of packet `p` (only `@tag` / padding attributes, a fresh name) whose key names no field of `p` -/
theorem visitPacketDef_unknownKey (p : PacketDef) (f : FieldWA) (d : MatchDecl) (comma : Tok) (l1 l2 : List FieldWA)
    (hc : p.fields = l1 ++ f :: l2) (hfd : f.fd = .match_ d comma) (hk : ∀ a, a ∈ f.attrs → attrKeeps a = true)
    (hnew : fieldName f.fd ∉ l1.map (fun f => fieldName f.fd))
    (hkey : d.key.text ∉ p.fields.map (fun f => fieldName f.fd)) (s : VState) (hi : Inv s) :
    wlp (visitPacketDef p) (fun _ s' =>
      (f.start.line, "Unknown key field " ++ d.key.text ++ " for match field " ++ d.name.text) ∈ s'.diags) s := by
  have hfs : freshSlot f.fd = some (.match_ (some d.key.text) false (pairsOfMatch d), 0) := by rw [hfd]; rfl
  have hname : fieldName f.fd = d.name.text := by rw [hfd]; rfl
  have hm : notMetaTyped f.fd s := by rw [hfd]; trivial
  rw [hc] at hkey
  unfold visitPacketDef
  rw [wlp_bind, hc]
  refine wlp_mono (wlp_and (loop1_names p.root.isSome p.name.text (l1 ++ f :: l2) ([], [], none, []) s hi)
    (loop1_tracksAt p.root.isSome p.name.text f l1 l2 _ 0 hfs hk hnew s hi hm)) ?_
  intro ⟨fields, lines, lenF, mfs⟩ s1 ⟨⟨_, _, hnames⟩, g, i, h1, h2, ht⟩
  dsimp only at h1 h2 hnames ⊢
  rw [wlp_bind]
  refine wlp_mono ((pktLenCheck_evos ..).out s1) ?_
  intro lenF' s2 he2
  rw [wlp_bind]
  have hi' : i < fields.length := by
    rcases Nat.lt_or_ge i fields.length with hh | hh
    · exact hh
    · rw [List.getElem?_eq_none hh] at h1; cases h1
  obtain ⟨r1, r2, hr⟩ := List.append_of_mem (List.mem_range.2 hi')
  rw [hr, wlp_foldlM_split]
  have hJ : J2 i (fieldName f.fd) 0 (.match_ (some d.key.text) false (pairsOfMatch d))
      ((l1 ++ f :: l2).map (fun f => fieldName f.fd)) fields s2 := by
    refine ⟨⟨g, h1, ht.evo he2⟩, ?_⟩
    intro x hx
    rcases hnames x hx with h | h
    · cases h
    · exact h
  refine wlp_mono (wlp_foldlM _ (fun fs' s' => J2 i (fieldName f.fd) 0 (.match_ (some d.key.text) false (pairsOfMatch d))
    ((l1 ++ f :: l2).map (fun f => fieldName f.fd)) fs' s') r1 fields s2 hJ
    (fun fs' j s' _ h => pktStep2_J _ _ _ fs' j s' i _ 0 _ _ (freshSlot_unstable hfs) h)) ?_
  intro fs1 s3 hJ1
  refine wlp_mono (pktStep2_unknownKey lenF' _ lines fs1 s3 i _ 0 _ _ _ hJ1 hkey) ?_
  intro fs2 s4 hd
  refine wlp_mono ((frames_foldlM (pktStep2_frames _ _ _) r2 fs2).out s4) ?_
  intro fs3 s5 hfr
  rw [wlp_pure]
  have hline : lines.getD i 0 = f.start.line := by rw [List.getD_eq_getElem?_getD, h2]; rfl
  rw [← hline, ← hname]
  exact hfr.mem_diags hd

/-! ## Acceptance: quiet fields in general, and prefix `@calculatedFrom` attributes

The packet-level part of the acceptance proof of `VisitDiag.lean` only uses that visiting a field yields a quiet attribute
and no diagnostic.  It is repeated here for that semantic condition (`QuietFieldSem`), which the flat fields satisfy and
which also holds when a prefix `@calculatedFrom(..)` turns a field into a checksum field. -/

/-- visiting the field yields a quiet attribute and no diagnostic, from every state that knows the MetaData names `mn` -/
def QuietFieldSem (mn : List String) (f : FieldWA) : Prop :=
  ∀ s, Inv s → MetaKnown mn s → wlp (visitFieldWA f) (fun fld s' => s'.diags = s.diags ∧ Kind fld s' quiet) s

theorem FlatField.sem {mn : List String} {f : FieldWA} (h : FlatField mn f) : QuietFieldSem mn f :=
  fun s hi hm => visitFieldWA_flat mn f s hi hm h

theorem loop1_quiet (mn : List String) (r : Bool) (pn : String) :
    ∀ (fs : List FieldWA) (acc : Acc1) (s0 s : VState), Q1 s0 acc s → MetaKnown mn s →
      (∀ f, f ∈ fs → QuietFieldSem mn f) → (acc.1.map (·.name) ++ fs.map (fun f => fieldName f.fd)).Nodup →
      wlp (fs.foldlM (pktStep1 r pn) acc) (fun acc' s' => Q1 s0 acc' s') s
  | [], acc, s0, s, q, _, _, _ => by rw [List.foldlM_nil, wlp_pure]; exact q
  | f :: fs, acc, s0, s, q, hm, hf, hn => by
    rw [List.foldlM_cons, wlp_bind, pktStep1_eq, wlp_bind]
    have hff := hf f (List.mem_cons_self ..)
    refine wlp_mono (wlp_and (wlp_and (wp_to_wlp (visitFieldWA_spec f s q.inv)) ((visitFieldWA_frames f).out s))
      (wlp_and (visitFieldWA_len f s q.inv) (hff s q.inv hm))) ?_
    intro fld s1 ⟨⟨⟨hi, hp, _⟩, hfr⟩, ⟨hname, _⟩, hd, hk⟩
    have hnd : acc.1.any (·.name = fld.name) = false := by
      rw [List.any_eq_false]
      intro x hx hxe
      have hxe' : x.name = fieldName f.fd := by rw [← hname]; simpa using hxe
      have h1 : fieldName f.fd ∈ acc.1.map (·.name) := List.mem_map.2 ⟨x, hx, hxe'⟩
      have h2 := (List.nodup_append.1 hn).2.2 _ h1 (fieldName f.fd) (by simp)
      exact h2 rfl
    refine wlp_mono (pktStep1Tail_flat r pn acc f fld s1 hk hnd) ?_
    intro acc' s2 ⟨e, hacc, hlen⟩
    subst e
    refine loop1_quiet mn r pn fs acc' s0 s2 ?_ (hm.fr hfr.metas) (fun f' hf' => hf f' (List.mem_cons_of_mem _ hf')) ?_
    · refine ⟨hi, q.fr.trans hfr, q.pres.trans hp, hd.trans q.diags, hlen.trans q.lenF, ?_⟩
      intro f' hf'
      rw [hacc] at hf'
      rcases List.mem_append.1 hf' with hh | hh
      · exact (q.quiet f' hh).mono hp (fun _ => quiet_stable)
      · cases List.mem_singleton.1 hh; exact hk
    · rw [hacc, List.map_append, List.append_assoc]
      simpa [hname] using hn

theorem visitPacketDef_quiet (mn : List String) (p : PacketDef) (s : VState) (h : Inv s) (hm : MetaKnown mn s)
    (hf : ∀ f, f ∈ p.fields → QuietFieldSem mn f) (hn : (p.fields.map (fun f => fieldName f.fd)).Nodup) :
    wlp (visitPacketDef p) (fun mp s' => Inv s' ∧ Pres s s' ∧ Fr s s' ∧ s'.diags = s.diags ∧ mp.name = p.name.text ∧
      mp.root = p.root.isSome ∧ ∀ f, f ∈ mp.fields → Kind f s' quiet) s := by
  unfold visitPacketDef
  rw [wlp_bind]
  refine wlp_mono (loop1_quiet mn p.root.isSome p.name.text p.fields ([], [], none, []) s s
    ⟨h, Fr.refl s, Pres.refl s, rfl, rfl, fun f hf => by cases hf⟩ hm hf (by simpa using hn)) ?_
  intro ⟨fields, lines, lenF, mfs⟩ s1 q
  have hl : lenF = none := q.lenF
  subst hl
  dsimp only
  rw [wlp_bind]
  unfold pktLenCheck
  wls
  have h2 : wlp ((List.range fields.length).foldlM (pktStep2 none (fields.map (·.name)) lines) fields)
      (fun fs' s' => fs' = fields ∧ s' = s1) s1 := by
    refine wlp_foldlM _ (fun fs' s' => fs' = fields ∧ s' = s1) _ _ _ ⟨rfl, rfl⟩ ?_
    intro fs' i s' hi ⟨e1, e2⟩
    subst e1; subst e2
    exact pktStep2_flat _ _ _ i _ (List.mem_range.1 hi) q.quiet
  refine wlp_mono h2 ?_
  intro fs' s' ⟨e1, e2⟩
  subst e1; subst e2
  exact ⟨q.inv, q.pres, q.fr, q.diags, by first | rfl | trivial, by first | rfl | trivial, q.quiet⟩


/-- a packet all of whose fields are quiet, with pairwise different names -/
structure QuietPacket (mn : List String) (p : PacketDef) : Prop where
  fields : ∀ f, f ∈ p.fields → QuietFieldSem mn f
  nodup : (p.fields.map (fun f => fieldName f.fd)).Nodup

theorem packetLoop_quiet (mn : List String) :
    ∀ (l : List TopDef) (s0 s : VState), Q3 s0 s → MetaKnown mn s → (∀ p, TopDef.packet p ∈ l → QuietPacket mn p) →
      (s.packets.map (·.name) ++ packetNames l).Nodup → (if s.root.isSome = true then 1 else 0) + rootCount l ≤ 1 →
      wlp (l.forM packetStep) (fun _ s' => Q3 s0 s') s
  | [], s0, s, q, _, _, _, _ => (wlp_pure ..).2 q
  | d :: l, s0, s, q, hm, hf, hn, hr => by
    rw [forM_cons', wlp_bind]
    cases d with
    | packet p =>
      unfold packetStep
      dsimp only
      rw [wlp_bind]
      have hfp := hf p (List.mem_cons_self ..)
      refine wlp_mono (visitPacketDef_quiet mn p s q.inv hm hfp.fields hfp.nodup) ?_
      intro mp s1 ⟨hi, hp, hfr, hd, hname, hroot, hq⟩
      wls
      have hn' : (s.packets.map (·.name) ++ p.name.text :: packetNames l).Nodup := by simpa [packetNames] using hn
      have hnew : s1.packets.any (·.name = mp.name) = false := by
        rw [hfr.packets, hname, List.any_eq_false]
        intro x hx hxe
        have h1 : p.name.text ∈ s.packets.map (·.name) := List.mem_map.2 ⟨x, hx, by simpa using hxe⟩
        exact (List.nodup_append.1 hn').2.2 _ h1 p.name.text (List.mem_cons_self ..) rfl
      have hr' : (if s.root.isSome = true then 1 else 0) + ((if p.root.isSome = true then 1 else 0) + rootCount l) ≤ 1 := by
        have e : rootCount (TopDef.packet p :: l) = (if p.root.isSome = true then 1 else 0) + rootCount l := by
          unfold rootCount
          rw [List.filter_cons]
          dsimp only
          split <;> simp <;> omega
        rw [e] at hr; exact hr
      have hrn : mp.root = true → s1.root = none := by
        intro hmr
        rw [hfr.root]
        rw [hroot] at hmr
        rw [if_pos hmr] at hr'
        cases hsr : s.root with
        | none => rfl
        | some x => rw [hsr] at hr'; simp at hr'; omega
      obtain ⟨e1, e2, e3⟩ := addPacketS_fresh mp s1 hnew hrn
      refine packetLoop_quiet mn l s0 _ ⟨addPacketS_inv hi mp, e1.trans (hd.trans q.diags), ?_⟩ ?_ ?_ ?_ ?_
      · intro p' hp' f hf'
        rw [e2] at hp'
        rcases List.mem_append.1 hp' with hh | hh
        · rw [hfr.packets] at hh
          exact ((q.quiet p' hh f hf').mono hp (fun _ => quiet_stable)).of_attrs (addPacketS_attrs ..)
        · cases List.mem_singleton.1 hh
          exact (hq f hf').of_attrs (addPacketS_attrs ..)
      · exact hm.fr ((addPacketS_metas ..).trans hfr.metas)
      · intro p' hp'; exact hf p' (List.mem_cons_of_mem _ hp')
      · rw [e2, hfr.packets]
        simpa [hname] using hn'
      · rw [e3, hfr.root, hroot]
        cases hsr : s.root.isSome <;> cases hpr : p.root.isSome <;> simp [hsr, hpr] at hr' ⊢ <;> omega
    | metaD m =>
      unfold packetStep
      wls
      refine packetLoop_quiet mn l s0 s q hm (fun p' hp' => hf p' (List.mem_cons_of_mem _ hp')) ?_ ?_
      · simpa [packetNames] using hn
      · have e : rootCount (TopDef.metaD m :: l) = rootCount l := by
          unfold rootCount; rw [List.filter_cons]; simp
        rw [e] at hr; exact hr
    | opt o =>
      unfold packetStep
      wls
      refine packetLoop_quiet mn l s0 s q hm (fun p' hp' => hf p' (List.mem_cons_of_mem _ hp')) ?_ ?_
      · simpa [packetNames] using hn
      · have e : rootCount (TopDef.opt o :: l) = rootCount l := by
          unfold rootCount; rw [List.filter_cons]; simp
        rw [e] at hr; exact hr


/-- prefix attributes: `@tag(n)`; padding on a `char[n]` field; `@calculatedFrom(..)` on a field that is not `char[n]`
(the field becomes a checksum field of its type) -/
def AttrOK2 (F : Prop) : Attr → Prop
  | .tag _ _ _ => True
  | .pad _ _ _ _ => F
  | .calc _ => ¬ F
  | .len _ => False

theorem attrStep_flat2 (F : Prop) (fld : MField) (a : Attr) (s : VState) (hk : Kind fld s (QF F)) (ha : AttrOK2 F a) :
    wlp (attrStep fld a) (fun f' s' => s'.diags = s.diags ∧ Kind f' s' (QF F)) s := by
  cases a with
  | «calc» c =>
    unfold attrStep
    wls
    intro t _
    exact ⟨by first | rfl | trivial, kind_fresh _ _ _ rfl _ ⟨trivial, fun hh => (ha hh).elim⟩⟩
  | len l => exact ha.elim
  | tag kw n rp => exact attrStep_flat F fld _ s hk trivial
  | pad kw lp ch rp => exact attrStep_flat F fld _ s hk ha

theorem attrs_flat2 (F : Prop) : ∀ (attrs : List Attr) (fld : MField) (s : VState), Kind fld s (QF F) →
    (∀ a, a ∈ attrs → AttrOK2 F a) →
    wlp (attrs.foldlM attrStep fld) (fun f' s' => s'.diags = s.diags ∧ Kind f' s' (QF F)) s
  | [], fld, s, h, _ => by rw [List.foldlM_nil, wlp_pure]; exact ⟨rfl, h⟩
  | a :: attrs, fld, s, h, ha => by
    rw [List.foldlM_cons, wlp_bind]
    refine wlp_mono (attrStep_flat2 F fld a s h (ha a (List.mem_cons_self ..))) ?_
    intro f1 s1 ⟨hd, h1⟩
    refine wlp_mono (attrs_flat2 F attrs f1 s1 h1 (fun a' ha' => ha a' (List.mem_cons_of_mem _ ha'))) ?_
    intro f2 s2 ⟨hd2, h2⟩
    exact ⟨hd2.trans hd, h2⟩

/-- fields of the flat fragment with prefix `@calculatedFrom` attributes -/
structure CalcField (mn : List String) (f : FieldWA) : Prop where
  fd : FlatFd mn f.fd
  attrs : ∀ a, a ∈ f.attrs → AttrOK2 (fdFixed f.fd) a

theorem CalcField.sem {mn : List String} {f : FieldWA} (h : CalcField mn f) : QuietFieldSem mn f := by
  intro s hi hm
  unfold visitFieldWA
  rw [wlp_bind]
  refine wlp_mono (visitFieldDef_flat mn f.fd s hi hm h.fd) ?_
  intro f1 s1 ⟨hd, h1⟩
  refine wlp_mono (attrs_flat2 (fdFixed f.fd) f.attrs f1 s1 h1 h.attrs) ?_
  intro f2 s2 ⟨hd2, h2⟩
  exact ⟨hd2.trans hd, h2.imp (fun _ hq => hq.1)⟩

/-- **Well-formed files of the flat fragment with MetaData references and prefix `@calculatedFrom` attributes.**
As `WFRefs`, and a field that is not a `char[n]` field may carry prefix `@calculatedFrom(..)` attributes (next to `@tag`).
Still excluded: length fields, prefix `@lengthOf` attributes, `@calculatedFrom` on `char[n]` fields, packet-typed fields,
inline objects and match fields. -/
structure WFCalc (c : Cst) : Prop where
  metaOK : EntriesOK [] (metaEntries c)
  metaNodup : (metaNames c).Nodup
  optOK : ∀ od, od ∈ optDecls c → OptOK od
  optNodup : ((optDecls c).map (·.name.text)).Nodup
  pktNodup : (packetNames c.defs).Nodup
  oneRoot : rootCount c.defs ≤ 1
  /-- per packet: fields of the fragment, no two fields with the same name -/
  fields : ∀ p, TopDef.packet p ∈ c.defs → ∀ f, f ∈ p.fields → CalcField (metaNames c) f
  fieldNodup : ∀ p, TopDef.packet p ∈ c.defs → (p.fields.map (fun f => fieldName f.fd)).Nodup

theorem visitCst_calc (c : Cst) (h : WFCalc c) : wlp (visitCst c) (fun _ s' => s'.diags = []) {} := by
  rw [wlp_visitCst, metaLoop_eq, optLoop_eq]
  refine wlp_mono (metaLoop_refs (c.defs.flatMap entriesOf) {} {} Inv.empty rfl ⟨rfl, rfl⟩ h.metaOK
    (by simpa [metaNames, metaEntries] using h.metaNodup)) ?_
  intro _ s1 ⟨hi1, hd1, hn1, hm1, ho1⟩
  have hmk : MetaKnown (metaNames c) s1 := by
    intro n hn
    rw [findMeta_isSome_iff, hm1]
    simpa [metaNames, metaEntries] using hn
  refine wlp_mono (optLoop_flat (c.defs.flatMap declsOf) {} s1 hi1 hd1 hn1 h.optOK ?_) ?_
  · rw [ho1]
    simpa [optDecls] using h.optNodup
  intro _ s2 ⟨hi2, hd2, hn2, hm2⟩
  refine wlp_mono (packetLoop_quiet (metaNames c) c.defs s2 s2 ⟨hi2, rfl, ?_⟩ (hmk.fr hm2)
    (fun p hp => ⟨fun f hf => (h.fields p hp f hf).sem, h.fieldNodup p hp⟩) ?_ ?_) ?_
  · intro p hp; rw [hn2.1] at hp; cases hp
  · rw [hn2.1]; simpa using h.pktNodup
  · rw [hn2.2]; simpa using h.oneRoot
  intro _ s3 q
  refine wlp_mono (resolveDeps_quiet s3 q.quiet) ?_
  intro _ s4 e
  subst e
  rw [q.diags, hd2]

/-! ## Field definitions nested in inline objects -/

/-- `SubFd inner outer`: `inner` is `outer` or a (transitive) sub-field of the inline object `outer` -/
inductive SubFd : FieldDef → FieldDef → Prop
  | refl (fd : FieldDef) : SubFd fd fd
  | iner {fd fd' : FieldDef} {fields : List FieldDef} (rep : Option Tok) (name lb rb comma : Tok) :
      fd' ∈ fields → SubFd fd fd' → SubFd fd (.iner rep name lb fields rb comma)

theorem visitFieldDefs_diag (d : Nat × String) : ∀ (fields : List FieldDef) (fd' : FieldDef), fd' ∈ fields →
    (∀ s, wlp (visitFieldDef fd') (fun _ s' => d ∈ s'.diags) s) →
    ∀ s, wlp (visitFieldDefs fields) (fun _ s' => d ∈ s'.diags) s
  | [], _, hm, _, _ => by cases hm
  | fd :: fds, fd', hm, h, s => by
    rw [visitFieldDefs, wlp_bind]
    rcases List.mem_cons.1 hm with e | hm'
    · subst e
      refine wlp_mono (h s) ?_
      intro f s1 hd
      rw [wlp_bind]
      refine wlp_mono ((visitFieldDefs_frames fds).out s1) ?_
      intro fs s2 hfr
      rw [wlp_pure]
      exact hfr.mem_diags hd
    · intro f s1 _
      rw [wlp_bind]
      refine wlp_mono (visitFieldDefs_diag d fds fd' hm' h s1) ?_
      intro fs s2 hd
      rw [wlp_pure]
      exact hd

/-- a diagnostic issued whenever `inner` is visited is issued whenever a field definition that contains it is visited -/
theorem visitFieldDef_sub_diag (d : Nat × String) {inner outer : FieldDef} (hs : SubFd inner outer)
    (h : ∀ s, wlp (visitFieldDef inner) (fun _ s' => d ∈ s'.diags) s) :
    ∀ s, wlp (visitFieldDef outer) (fun _ s' => d ∈ s'.diags) s := by
  induction hs with
  | refl => exact h
  | iner rep name lb rb comma hm _ ih =>
    intro s
    rw [visitFieldDef, wlp_bind]
    refine wlp_mono (visitFieldDefs_diag d _ _ hm ih s) ?_
    intro subs s1 hd
    exact wlp_mono ((inerFinish_frames rep name _ subs).out s1) (fun _ _ hfr => hfr.mem_diags hd)

/-! ## A length field inside an inline object -/

theorem visitFieldDefs_length : ∀ (l : List FieldDef) (s : VState),
    wlp (visitFieldDefs l) (fun subs _ => subs.length = l.length) s
  | [], s => by rw [visitFieldDefs, wlp_pure]; rfl
  | fd :: fds, s => by
    rw [visitFieldDefs, wlp_bind]
    intro f s1 _
    rw [wlp_bind]
    refine wlp_mono (visitFieldDefs_length fds s1) ?_
    intro fs s2 h
    rw [wlp_pure]
    simp [h]

/-- the sub-fields of an inline object with a length field declaration at position `|a|` -/
theorem visitFieldDefs_lenAt (d : LenDecl) (b : List FieldDef) : ∀ (a : List FieldDef) (s : VState),
    wlp (visitFieldDefs (a ++ .len d :: b)) (fun subs s' => ∃ sa g sb, subs = sa ++ g :: sb ∧ sa.length = a.length ∧
      LenSlot g s' d.attr.from_.text) s
  | [], s => by
    rw [List.nil_append, visitFieldDefs, wlp_bind, visitFieldDef]
    refine wlp_mono (visitLen_slot d _ s) ?_
    intro g s1 ⟨_, hs⟩
    rw [wlp_bind]
    refine wlp_mono ((visitFieldDefs_evos b).out s1) ?_
    intro fs s2 he
    rw [wlp_pure]
    exact ⟨[], g, fs, rfl, rfl, hs.evo he⟩
  | x :: a, s => by
    rw [List.cons_append, visitFieldDefs, wlp_bind]
    intro f s1 _
    rw [wlp_bind]
    refine wlp_mono (visitFieldDefs_lenAt d b a s1) ?_
    intro fs s2 ⟨sa, g, sb, e, hl, hs⟩
    rw [wlp_pure]
    exact ⟨f :: sa, g, sb, by rw [e]; rfl, by simp [hl], hs⟩

theorem LenSlot.isLenK {g : MField} {s : VState} {t : String} (h : LenSlot g s t) :
    isLenK (g.attr.bind (s.attrs[·]?)) = true := by
  obtain ⟨ai, typ, h1, h2⟩ := h
  rw [h1]
  show Visit.isLenK (s.attrs[ai]?) = true
  rw [h2]; rfl

theorem inerStep_lenSub (subs : List MField) (g : MField) (fd : FieldDef) (s : VState) (t : String) (hs : LenSlot g s t) :
    wlp (inerStep subs (g, fd)) (fun _ s' =>
      (fd.start.line, "LengthOfField can only be declared in the root packet") ∈ s'.diags) s := by
  unfold inerStep
  rw [wlp_bind]
  refine wlp_mono ((inerMatchStep_evos subs g fd.start.line).out s) ?_
  intro _ s1 he
  have h1 := (hs.evo he).isLenK
  unfold inerLenStep
  wls
  rw [if_pos h1]
  wls
  exact List.mem_append_right _ (List.mem_singleton.2 rfl)

theorem inerFinish_lenSub (rep : Option Tok) (name : Tok) (a b : List FieldDef) (d : LenDecl) (sa sb : List MField)
    (g : MField) (hl : sa.length = a.length) (s : VState) (hs : LenSlot g s d.attr.from_.text) :
    wlp (inerFinish rep name (a ++ .len d :: b) (sa ++ g :: sb)) (fun _ s' =>
      ((FieldDef.len d).start.line, "LengthOfField can only be declared in the root packet") ∈ s'.diags) s := by
  unfold inerFinish
  rw [wlp_bind, List.zip_append hl, List.zip_cons_cons]
  refine wlp_mono (forM_offence1 (fun x => (inerStep_frames _ x).grows) (g, FieldDef.len d) (sa.zip a) (sb.zip b) _
    (fun s1 => LenSlot g s1 d.attr.from_.text) s ?_ (fun s1 h1 => inerStep_lenSub _ g _ s1 _ h1)) ?_
  · exact wlp_mono ((evos_forM (inerStep_evos _) (sa.zip a)).out s) (fun _ _ he => hs.evo he)
  · intro _ s1 hd
    wls
    exact hd

/-- an inline object with a length field declaration among its sub-fields -/
theorem visitFieldDef_lenInInline (rep : Option Tok) (name lb rb comma : Tok) (a b : List FieldDef) (d : LenDecl)
    (s : VState) :
    wlp (visitFieldDef (.iner rep name lb (a ++ .len d :: b) rb comma)) (fun _ s' =>
      ((FieldDef.len d).start.line, "LengthOfField can only be declared in the root packet") ∈ s'.diags) s := by
  rw [visitFieldDef, wlp_bind]
  refine wlp_mono (visitFieldDefs_lenAt d b a s) ?_
  intro subs s1 ⟨sa, g, sb, e, hl, hs⟩
  subst e
  exact inerFinish_lenSub rep name a b d sa sb g hl s1 hs

/-! ## A match field inside an inline object whose key names no sub-field -/

theorem visitFieldDef_name (fd : FieldDef) (s : VState) : wlp (visitFieldDef fd) (fun f _ => f.name = fieldName fd) s := by
  cases fd with
  | obj rep ft fn doc comma =>
    rw [visitFieldDef]
    unfold visitObj
    wls
    split
    · wls; try (first | rfl | trivial)
    · wls; try (first | rfl | trivial)
  | iner rep name lb fields rb comma =>
    rw [visitFieldDef, wlp_bind]
    intro subs s1 _
    unfold inerFinish
    rw [wlp_bind]
    intro _ s2 _
    wls
    try (first | rfl | trivial)
  | len d =>
    rw [visitFieldDef]
    unfold visitLen
    rw [wlp_bind]
    intro typ s1 _
    wls
    try (first | rfl | trivial)
  | cks d =>
    rw [visitFieldDef]
    unfold visitCks
    rw [wlp_bind]
    intro typ s1 _
    wls
    try (first | rfl | trivial)
  | metaF rep d =>
    rw [visitFieldDef]
    unfold visitMetaF
    rw [wlp_bind]
    intro a s1 _
    wls
    try (first | rfl | trivial)
  | match_ d comma =>
    rw [visitFieldDef]
    unfold visitMatch
    rw [wlp_bind]
    intro _ s1 _
    wls
    try (first | rfl | trivial)

theorem visitFieldDefs_names : ∀ (l : List FieldDef) (s : VState),
    wlp (visitFieldDefs l) (fun subs _ => subs.map (·.name) = l.map fieldName) s
  | [], s => by rw [visitFieldDefs, wlp_pure]; rfl
  | fd :: fds, s => by
    rw [visitFieldDefs, wlp_bind]
    refine wlp_mono (visitFieldDef_name fd s) ?_
    intro f s1 hn
    rw [wlp_bind]
    refine wlp_mono (visitFieldDefs_names fds s1) ?_
    intro fs s2 h
    rw [wlp_pure]
    simp [h, hn]

theorem visitFieldDefs_matchAt (d : MatchDecl) (comma : Tok) (b : List FieldDef) : ∀ (a : List FieldDef) (s : VState),
    wlp (visitFieldDefs (a ++ .match_ d comma :: b)) (fun subs s' => ∃ sa g sb, subs = sa ++ g :: sb ∧
      sa.length = a.length ∧ Tracked d.name.text 0 (.match_ (some d.key.text) false (pairsOfMatch d)) g s') s
  | [], s => by
    rw [List.nil_append, visitFieldDefs, wlp_bind]
    refine wlp_mono (visitFieldDef_fresh (.match_ d comma) _ 0 rfl s trivial) ?_
    intro g s1 hs
    rw [wlp_bind]
    refine wlp_mono ((visitFieldDefs_evos b).out s1) ?_
    intro fs s2 he
    rw [wlp_pure]
    exact ⟨[], g, fs, rfl, rfl, hs.evo he⟩
  | x :: a, s => by
    rw [List.cons_append, visitFieldDefs, wlp_bind]
    intro f s1 _
    rw [wlp_bind]
    refine wlp_mono (visitFieldDefs_matchAt d comma b a s1) ?_
    intro fs s2 ⟨sa, g, sb, e, hl, hs⟩
    rw [wlp_pure]
    exact ⟨f :: sa, g, sb, by rw [e]; rfl, by simp [hl], hs⟩

theorem inerStep_unknownKey (subs : List MField) (g : MField) (fd : FieldDef) (s : VState) (n key : String)
    (pairs : List MPair) (hnames : ∀ x, x ∈ subs → x.name ≠ key) (ht : Tracked n 0 (.match_ (some key) false pairs) g s) :
    wlp (inerStep subs (g, fd)) (fun _ s' =>
      (fd.start.line, "Unknown key field " ++ key ++ " for match field " ++ n) ∈ s'.diags) s := by
  obtain ⟨hn', _, ai, k', ha, hs, hev⟩ := ht
  have hk : ∃ kr, k' = .match_ (some key) kr pairs := by
    rcases hev with ⟨hst, _⟩ | ⟨_, _, _, _, e1, _⟩ | ⟨_, _, kr', _, e1, e2⟩
    · exact hst.elim
    · cases e1
    · cases e1; exact ⟨kr', e2⟩
  obtain ⟨kr, rfl⟩ := hk
  have hb : g.attr.bind (s.attrs[·]?) = some (.match_ (some key) kr pairs) := by rw [ha]; exact hs
  unfold inerStep
  rw [wlp_bind]
  refine wlp_mono (Q := fun _ s1 => (fd.start.line, "Unknown key field " ++ key ++ " for match field " ++ n) ∈ s1.diags) ?_
    (fun _ s1 hd => wlp_mono ((inerLenStep_frames g fd.start.line).out s1) (fun _ _ hfr => hfr.mem_diags hd))
  unfold inerMatchStep
  wls
  split
  · next k2 kr2 pairs2 ai2 heq heq2 =>
    rw [hb] at heq; cases heq
    split
    · next kf hkf =>
      exfalso
      have h1 : kf ∈ subs := List.mem_reverse.1 (List.mem_of_find?_eq_some hkf)
      have h2 : kf.name = key := by simpa using List.find?_some hkf
      exact hnames kf h1 h2
    · wls
      rw [hn']
      exact List.mem_append_right _ (List.mem_singleton.2 rfl)
  · exfalso
    rename_i h1
    exact h1 _ _ _ _ hb ha

theorem inerFinish_unknownKey (rep : Option Tok) (name : Tok) (a b : List FieldDef) (d : MatchDecl) (comma : Tok)
    (sa sb : List MField) (g : MField) (hl : sa.length = a.length)
    (hnames : ∀ x, x ∈ sa ++ g :: sb → x.name ≠ d.key.text) (s : VState)
    (ht : Tracked d.name.text 0 (.match_ (some d.key.text) false (pairsOfMatch d)) g s) :
    wlp (inerFinish rep name (a ++ .match_ d comma :: b) (sa ++ g :: sb)) (fun _ s' =>
      ((FieldDef.match_ d comma).start.line, "Unknown key field " ++ d.key.text ++ " for match field " ++ d.name.text) ∈ s'.diags) s := by
  unfold inerFinish
  rw [wlp_bind, List.zip_append hl, List.zip_cons_cons]
  refine wlp_mono (forM_offence1 (fun x => (inerStep_frames _ x).grows) (g, FieldDef.match_ d comma) (sa.zip a) (sb.zip b) _
    (fun s1 => Tracked d.name.text 0 (.match_ (some d.key.text) false (pairsOfMatch d)) g s1) s ?_
    (fun s1 h1 => inerStep_unknownKey _ g _ s1 _ _ _ hnames h1)) ?_
  · exact wlp_mono ((evos_forM (inerStep_evos _) (sa.zip a)).out s) (fun _ _ he => ht.evo he)
  · intro _ s1 hd
    wls
    exact hd

/-- an inline object with a match field among its sub-fields whose key is not the name of a sub-field -/
theorem visitFieldDef_unknownKeyInline (rep : Option Tok) (name lb rb comma' : Tok) (a b : List FieldDef) (d : MatchDecl)
    (comma : Tok) (hkey : d.key.text ∉ (a ++ .match_ d comma :: b).map fieldName) (s : VState) :
    wlp (visitFieldDef (.iner rep name lb (a ++ .match_ d comma :: b) rb comma')) (fun _ s' =>
      ((FieldDef.match_ d comma).start.line, "Unknown key field " ++ d.key.text ++ " for match field " ++ d.name.text) ∈ s'.diags) s := by
  rw [visitFieldDef, wlp_bind]
  refine wlp_mono (wlp_and (visitFieldDefs_matchAt d comma b a s) (visitFieldDefs_names _ s)) ?_
  intro subs s1 ⟨⟨sa, g, sb, e, hl, hs⟩, hnm⟩
  subst e
  refine inerFinish_unknownKey rep name a b d comma sa sb g hl ?_ s1 hs
  intro x hx he
  apply hkey
  rw [← hnm, ← he]
  exact List.mem_map.2 ⟨x, hx, rfl⟩

/-! ## A `RefMetaData` entry that names no earlier entry -/

theorem metaRef_unknown (r : RefMetaDecl) (s : VState) (h : findMeta s r.typ.text = none) :
    wlp (metaEntryStep (.ref r)) (fun _ s' =>
      (r.typ.line, "Unknown MetaData type " ++ r.typ.text ++ " for " ++ r.name.text) ∈ s'.diags) s := by
  unfold metaEntryStep
  dsimp only
  wls
  simp only [h, Option.isNone_none, if_true, Option.bind_none, Option.isSome_none, Bool.false_eq_true, if_false]
  wls
  exact List.mem_append_right _ (List.mem_singleton.2 rfl)

/-- the MetaData loop over `l1` registers only names of `l1` -/
theorem metaLoop_metaFrom (l1 : List MetaEntry) :
    wlp (l1.forM metaEntryStep) (fun _ => MetaFrom (l1.map entryName)) {} :=
  wlp_forM _ (MetaFrom (l1.map entryName)) _ {} (fun m hm => by cases hm)
    (fun e s1 he h1 => metaEntryStep_metaFrom e _ s1 (List.mem_map.2 ⟨e, he, rfl⟩) h1)

end FinProtoc.Visit
