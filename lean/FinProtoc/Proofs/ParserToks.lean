import FinProtoc.Dsl.Parser
/-!
# The parser neither drops, invents nor reorders tokens

For every rule `p` of the recursive-descent parser model: if `p ts = some (node, rest)` then the
tokens kept in `node` (its token view `node.toks`, all tokens in source order) followed by `rest`
are exactly the input `ts`.
-/
namespace FinProtoc.Dsl

theorem tok_toks {k : TK} {ts : List Tok} {t : Tok} {r : List Tok} (h : tok k ts = some (t, r)) : t :: r = ts := by
  cases ts with
  | nil => simp [tok] at h
  | cons a as =>
    simp only [tok] at h
    split at h
    · simp at h; obtain ⟨rfl, rfl⟩ := h; rfl
    · cases h

theorem optTokP_toks {k : TK} {ts : List Tok} {o : Option Tok} {r : List Tok} (h : optTokP k ts = (o, r)) : optTok o ++ r = ts := by
  cases ts with
  | nil => simp [optTokP] at h; obtain ⟨rfl, rfl⟩ := h; rfl
  | cons a as =>
    simp only [optTokP] at h
    split at h
    · simp at h; obtain ⟨rfl, rfl⟩ := h; rfl
    · simp at h; obtain ⟨rfl, rfl⟩ := h; rfl

theorem pTy_toks {ts : List Tok} {ty : Ty} {r : List Tok} (h : pTy ts = some (ty, r)) : ty.toks ++ r = ts := by
  unfold pTy at h
  split at h
  · split at h
    · simp at h; obtain ⟨rfl, rfl⟩ := h; rfl
    · split at h
      · simp at h; obtain ⟨rfl, rfl⟩ := h; rfl
      · split at h
        · split at h
          · split at h
            · simp at h; obtain ⟨rfl, rfl⟩ := h; rfl
            · cases h
          · cases h
        · cases h
  · cases h

theorem pMetaDecl_toks {ts : List Tok} {d : MetaDecl} {r : List Tok} (h : pMetaDecl ts = some (d, r)) : d.toks ++ r = ts := by
  unfold pMetaDecl at h
  simp only [bind, Option.bind_eq_some_iff, Prod.exists] at h
  obtain ⟨ty, r1, h1, name, r2, h2, h⟩ := h
  generalize hq : optTokP TK.strLit r2 = q at h
  obtain ⟨doc, r3⟩ := q
  obtain ⟨comma, r4, h4, h⟩ := h
  simp only [pure, Option.some.injEq, Prod.mk.injEq] at h
  obtain ⟨rfl, rfl⟩ := h
  have e4 := tok_toks h4; have e3 := optTokP_toks hq; have e2 := tok_toks h2; have e1 := pTy_toks h1
  simp only at e4
  subst e4; subst e3; subst e2; subst e1
  simp [MetaDecl.toks]

theorem pRefMetaDecl_toks {ts : List Tok} {d : RefMetaDecl} {r : List Tok} (h : pRefMetaDecl ts = some (d, r)) : d.toks ++ r = ts := by
  unfold pRefMetaDecl at h
  simp only [bind, Option.bind_eq_some_iff, Prod.exists] at h
  obtain ⟨ty, r1, h1, name, r2, h2, h⟩ := h
  generalize hq : optTokP TK.strLit r2 = q at h
  obtain ⟨doc, r3⟩ := q
  obtain ⟨comma, r4, h4, h⟩ := h
  simp only [pure, Option.some.injEq, Prod.mk.injEq] at h
  obtain ⟨rfl, rfl⟩ := h
  have e4 := tok_toks h4; have e3 := optTokP_toks hq; have e2 := tok_toks h2; have e1 := tok_toks h1
  simp only at e4
  subst e4; subst e3; subst e2; subst e1
  simp [RefMetaDecl.toks]

theorem pMetaEntries_toks : ∀ (fuel : Nat) {ts : List Tok} {es : List MetaEntry} {r : List Tok},
    pMetaEntries fuel ts = some (es, r) → (es.map MetaEntry.toks).flatten ++ r = ts := by
  intro fuel
  induction fuel with
  | zero => intro ts es r h; simp [pMetaEntries] at h
  | succ fuel ih =>
    intro ts es r h
    unfold pMetaEntries at h
    split at h
    · split at h
      · simp only [bind, Option.bind_eq_some_iff, Prod.exists] at h
        obtain ⟨d, r1, h1, rest, r2, h2, h⟩ := h
        simp only [pure, Option.some.injEq, Prod.mk.injEq] at h
        obtain ⟨rfl, rfl⟩ := h
        have e2 := ih h2; have e1 := pMetaDecl_toks h1
        subst e2; rw [← e1]
        simp [MetaEntry.toks]
      · split at h
        · simp only [bind, Option.bind_eq_some_iff, Prod.exists] at h
          obtain ⟨d, r1, h1, rest, r2, h2, h⟩ := h
          simp only [pure, Option.some.injEq, Prod.mk.injEq] at h
          obtain ⟨rfl, rfl⟩ := h
          have e2 := ih h2; have e1 := pRefMetaDecl_toks h1
          subst e2; rw [← e1]
          simp [MetaEntry.toks]
        · simp at h; obtain ⟨rfl, rfl⟩ := h; simp
    · simp at h; obtain ⟨rfl, rfl⟩ := h; simp

theorem pMetaDef_toks {ts : List Tok} {m : MetaDef} {r : List Tok} (h : pMetaDef ts = some (m, r)) : m.toks ++ r = ts := by
  unfold pMetaDef at h
  simp only [bind, Option.bind_eq_some_iff, Prod.exists] at h
  obtain ⟨kw, r1, h1, name, r2, h2, lb, r3, h3, es, r4, h4, rb, r5, h5, h⟩ := h
  simp only [pure, Option.some.injEq, Prod.mk.injEq] at h
  obtain ⟨rfl, rfl⟩ := h
  have e5 := tok_toks h5; have e4 := pMetaEntries_toks _ h4; have e3 := tok_toks h3
  have e2 := tok_toks h2; have e1 := tok_toks h1
  subst e5; subst e4; subst e3; subst e2; subst e1
  simp [MetaDef.toks]

theorem pValue_toks {ts : List Tok} {v : ValueC} {r : List Tok} (h : pValue ts = some (v, r)) : v.toks ++ r = ts := by
  unfold pValue at h
  split at h
  · split at h
    · simp only [Option.map_eq_some_iff, Prod.exists, Prod.mk.injEq] at h
      obtain ⟨ty, r1, h1, rfl, rfl⟩ := h
      exact pTy_toks h1
    · split at h
      · simp at h; obtain ⟨rfl, rfl⟩ := h; rfl
      · cases h
  · cases h

theorem pOptDecl_toks {ts : List Tok} {d : OptDecl} {r : List Tok} (h : pOptDecl ts = some (d, r)) : d.toks ++ r = ts := by
  unfold pOptDecl at h
  simp only [bind, Option.bind_eq_some_iff, Prod.exists] at h
  obtain ⟨name, r1, h1, eq, r2, h2, v, r3, h3, h⟩ := h
  generalize hq : optTokP TK.semi r3 = q at h
  obtain ⟨semi, r4⟩ := q
  simp only [pure, Option.some.injEq, Prod.mk.injEq] at h
  obtain ⟨rfl, rfl⟩ := h
  have e4 := optTokP_toks hq; have e3 := pValue_toks h3; have e2 := tok_toks h2; have e1 := tok_toks h1
  subst e4; subst e3; subst e2; subst e1
  simp [OptDecl.toks]

theorem pOptDecls_toks : ∀ (fuel : Nat) {ts : List Tok} {ds : List OptDecl} {r : List Tok},
    pOptDecls fuel ts = some (ds, r) → (ds.map OptDecl.toks).flatten ++ r = ts := by
  intro fuel
  induction fuel with
  | zero => intro ts es r h; simp [pOptDecls] at h
  | succ fuel ih =>
    intro ts es r h
    unfold pOptDecls at h
    split at h
    · split at h
      · simp only [bind, Option.bind_eq_some_iff, Prod.exists] at h
        obtain ⟨d, r1, h1, rest, r2, h2, h⟩ := h
        simp only [pure, Option.some.injEq, Prod.mk.injEq] at h
        obtain ⟨rfl, rfl⟩ := h
        have e2 := ih h2; have e1 := pOptDecl_toks h1
        subst e2; rw [← e1]
        simp
      · simp at h; obtain ⟨rfl, rfl⟩ := h; simp
    · simp at h; obtain ⟨rfl, rfl⟩ := h; simp

theorem pOptDef_toks {ts : List Tok} {o : OptDef} {r : List Tok} (h : pOptDef ts = some (o, r)) : o.toks ++ r = ts := by
  unfold pOptDef at h
  simp only [bind, Option.bind_eq_some_iff, Prod.exists] at h
  obtain ⟨kw, r1, h1, lb, r3, h3, es, r4, h4, rb, r5, h5, h⟩ := h
  simp only [pure, Option.some.injEq, Prod.mk.injEq] at h
  obtain ⟨rfl, rfl⟩ := h
  have e5 := tok_toks h5; have e4 := pOptDecls_toks _ h4; have e3 := tok_toks h3
  have e1 := tok_toks h1
  subst e5; subst e4; subst e3; subst e1
  simp [OptDef.toks]

theorem pListRest_toks : ∀ (fuel : Nat) {ts : List Tok} {l : List (Tok × Tok)} {r : List Tok},
    pListRest fuel ts = some (l, r) → (l.map fun (c, i) => [c, i]).flatten ++ r = ts := by
  intro fuel
  induction fuel with
  | zero => intro ts es r h; simp [pListRest] at h
  | succ fuel ih =>
    intro ts es r h
    unfold pListRest at h
    split at h
    · split at h
      · split at h
        · split at h
          · simp only [bind, Option.bind_eq_some_iff, Prod.exists] at h
            obtain ⟨rest, r2, h2, h⟩ := h
            simp only [pure, Option.some.injEq, Prod.mk.injEq] at h
            obtain ⟨rfl, rfl⟩ := h
            have e2 := ih h2
            subst e2
            simp
          · cases h
        · cases h
      · simp at h; obtain ⟨rfl, rfl⟩ := h; simp
    · simp at h; obtain ⟨rfl, rfl⟩ := h; simp

theorem pMatchKey_toks {ts : List Tok} {k : MatchKey} {r : List Tok} (h : pMatchKey ts = some (k, r)) : k.toks ++ r = ts := by
  unfold pMatchKey at h
  split at h
  · split at h
    · simp at h; obtain ⟨rfl, rfl⟩ := h; rfl
    · split at h
      · split at h
        · split at h
          · simp only [bind, Option.bind_eq_some_iff, Prod.exists] at h
            obtain ⟨rest, r1, h1, rb, r2, h2, h⟩ := h
            simp only [pure, Option.some.injEq, Prod.mk.injEq] at h
            obtain ⟨rfl, rfl⟩ := h
            have e2 := tok_toks h2; have e1 := pListRest_toks _ h1
            subst e2; subst e1
            simp [MatchKey.toks]
          · cases h
        · cases h
      · cases h
  · cases h

theorem pMatchPair_toks {ts : List Tok} {p : MatchPair} {r : List Tok} (h : pMatchPair ts = some (p, r)) : p.toks ++ r = ts := by
  unfold pMatchPair at h
  simp only [bind, Option.bind_eq_some_iff, Prod.exists] at h
  obtain ⟨key, r1, h1, colon, r2, h2, target, r3, h3, h⟩ := h
  generalize hq : optTokP TK.comma r3 = q at h
  obtain ⟨comma, r4⟩ := q
  simp only [pure, Option.some.injEq, Prod.mk.injEq] at h
  obtain ⟨rfl, rfl⟩ := h
  have e4 := optTokP_toks hq; have e3 := tok_toks h3; have e2 := tok_toks h2; have e1 := pMatchKey_toks h1
  subst e4; subst e3; subst e2; subst e1
  simp [MatchPair.toks]

theorem pMatchPairs_toks : ∀ (fuel : Nat) {ts : List Tok} {ps : List MatchPair} {r : List Tok},
    pMatchPairs fuel ts = some (ps, r) → (ps.map MatchPair.toks).flatten ++ r = ts := by
  intro fuel
  induction fuel with
  | zero => intro ts es r h; simp [pMatchPairs] at h
  | succ fuel ih =>
    intro ts es r h
    unfold pMatchPairs at h
    split at h
    · split at h
      · simp only [bind, Option.bind_eq_some_iff, Prod.exists] at h
        obtain ⟨d, r1, h1, rest, r2, h2, h⟩ := h
        simp only [pure, Option.some.injEq, Prod.mk.injEq] at h
        obtain ⟨rfl, rfl⟩ := h
        have e2 := ih h2; have e1 := pMatchPair_toks h1
        subst e2; rw [← e1]
        simp
      · simp at h; obtain ⟨rfl, rfl⟩ := h; simp
    · simp at h; obtain ⟨rfl, rfl⟩ := h; simp

theorem pMatchDecl_toks {ts : List Tok} {d : MatchDecl} {r : List Tok} (h : pMatchDecl ts = some (d, r)) : d.toks ++ r = ts := by
  unfold pMatchDecl at h
  simp only [bind, Option.bind_eq_some_iff, Prod.exists] at h
  obtain ⟨kw, r1, h1, key, r2, h2, as_, r3, h3, name, r4, h4, lb, r5, h5, ps, r6, h6, h⟩ := h
  split at h
  · cases h
  · simp only [Option.bind_eq_some_iff, Prod.exists] at h
    obtain ⟨rb, r7, h7, h⟩ := h
    simp only [pure, Option.some.injEq, Prod.mk.injEq] at h
    obtain ⟨rfl, rfl⟩ := h
    have e7 := tok_toks h7; have e6 := pMatchPairs_toks _ h6; have e5 := tok_toks h5
    have e4 := tok_toks h4; have e3 := tok_toks h3; have e2 := tok_toks h2; have e1 := tok_toks h1
    subst e7; subst e6; subst e5; subst e4; subst e3; subst e2; subst e1
    simp [MatchDecl.toks]

theorem pLenAttr_toks {ts : List Tok} {a : LenAttr} {r : List Tok} (h : pLenAttr ts = some (a, r)) : a.toks ++ r = ts := by
  unfold pLenAttr at h
  simp only [bind, Option.bind_eq_some_iff, Prod.exists] at h
  obtain ⟨kw, r1, h1, fr, r2, h2, rp, r3, h3, h⟩ := h
  simp only [pure, Option.some.injEq, Prod.mk.injEq] at h
  obtain ⟨rfl, rfl⟩ := h
  have e3 := tok_toks h3; have e2 := tok_toks h2; have e1 := tok_toks h1
  subst e3; subst e2; subst e1
  simp [LenAttr.toks]

theorem pCalcAttr_toks {ts : List Tok} {a : CalcAttr} {r : List Tok} (h : pCalcAttr ts = some (a, r)) : a.toks ++ r = ts := by
  unfold pCalcAttr at h
  simp only [bind, Option.bind_eq_some_iff, Prod.exists] at h
  obtain ⟨kw, r1, h1, fr, r2, h2, rp, r3, h3, h⟩ := h
  simp only [pure, Option.some.injEq, Prod.mk.injEq] at h
  obtain ⟨rfl, rfl⟩ := h
  have e3 := tok_toks h3; have e2 := tok_toks h2; have e1 := tok_toks h1
  subst e3; subst e2; subst e1
  simp [CalcAttr.toks]

theorem pLenOrCk_toks {ty : Option Ty} {name : Tok} {ts : List Tok} {fd : FieldDef} {r : List Tok}
    (h : pLenOrCk ty name ts = some (fd, r)) : fd.toks ++ r = optTy ty ++ [name] ++ ts := by
  unfold pLenOrCk at h
  split at h
  · split at h
    · simp only [bind, Option.bind_eq_some_iff, Prod.exists] at h
      obtain ⟨attr, r1, h1, h⟩ := h
      generalize hq : optTokP TK.strLit r1 = q at h
      obtain ⟨doc, r2⟩ := q
      obtain ⟨comma, r3, h3, h⟩ := h
      simp only [pure, Option.some.injEq, Prod.mk.injEq] at h
      obtain ⟨rfl, rfl⟩ := h
      have e3 := tok_toks h3; have e2 := optTokP_toks hq; have e1 := pLenAttr_toks h1
      simp only at e3
      subst e3; subst e2; rw [← e1]
      simp [FieldDef.toks, LenDecl.toks]
    · split at h
      · simp only [bind, Option.bind_eq_some_iff, Prod.exists] at h
        obtain ⟨attr, r1, h1, h⟩ := h
        generalize hq : optTokP TK.strLit r1 = q at h
        obtain ⟨doc, r2⟩ := q
        obtain ⟨comma, r3, h3, h⟩ := h
        simp only [pure, Option.some.injEq, Prod.mk.injEq] at h
        obtain ⟨rfl, rfl⟩ := h
        have e3 := tok_toks h3; have e2 := optTokP_toks hq; have e1 := pCalcAttr_toks h1
        simp only at e3
        subst e3; subst e2; rw [← e1]
        simp [FieldDef.toks, CkDecl.toks]
      · cases h
  · cases h

theorem pField_toks : ∀ (fuel : Nat),
    (∀ {ts : List Tok} {fd : FieldDef} {r : List Tok}, pFieldDef fuel ts = some (fd, r) → fd.toks ++ r = ts) ∧
    (∀ {ts : List Tok} {fds : List FieldDef} {r : List Tok}, pFieldDefs fuel ts = some (fds, r) → FieldDef.toksList fds ++ r = ts) := by
  intro fuel
  induction fuel with
  | zero => constructor <;> (intro ts es r h; simp [pFieldDef, pFieldDefs] at h)
  | succ fuel ih =>
    obtain ⟨ih1, ih2⟩ := ih
    constructor
    · intro ts fd r h
      unfold pFieldDef at h
      generalize hq : optTokP TK.repeat_ ts = q at h
      obtain ⟨rep, ts1⟩ := q
      have e0 := optTokP_toks hq
      simp only at h
      subst e0
      split at h
      · rename_i t rest
        split at h
        · -- match
          split at h
          · cases h
          · rename_i hrep
            simp only [bind, Option.bind_eq_some_iff, Prod.exists] at h
            obtain ⟨d, r1, h1, comma, r2, h2, h⟩ := h
            simp only [pure, Option.some.injEq, Prod.mk.injEq] at h
            obtain ⟨rfl, rfl⟩ := h
            have e2 := tok_toks h2; have e1 := pMatchDecl_toks h1
            try simp only at e2
            subst e2; rw [← e1]
            cases rep with
            | some x => simp at hrep
            | none => simp [FieldDef.toks, optTok]
        · split at h
          · -- type first
            simp only [bind, Option.bind_eq_some_iff, Prod.exists] at h
            obtain ⟨ty, r1, h1, name, r2, h2, h⟩ := h
            have e2 := tok_toks h2; have e1 := pTy_toks h1
            split at h
            · rename_i a r3
              split at h
              · split at h
                · cases h
                · rename_i hrep
                  have e3 := pLenOrCk_toks h
                  rw [e3, ← e1, ← e2]
                  cases rep with
                  | some x => simp at hrep
                  | none => simp [optTy, optTok]
              · generalize hq2 : optTokP TK.strLit (a :: r3) = q at h
                obtain ⟨doc, r4⟩ := q
                simp only [Option.bind_eq_some_iff, Prod.exists] at h
                obtain ⟨comma, r5, h5, h⟩ := h
                simp only [pure, Option.some.injEq, Prod.mk.injEq] at h
                obtain ⟨rfl, rfl⟩ := h
                have e5 := tok_toks h5; have e4 := optTokP_toks hq2
                try simp only at e5
                subst e5; rw [← e1, ← e2, ← e4]
                simp [FieldDef.toks, MetaDecl.toks]
            · cases h
          · split at h
            · split at h
              · rename_i a rest'
                split at h
                · -- inline object
                  simp only [bind, Option.bind_eq_some_iff, Prod.exists] at h
                  obtain ⟨fields, r1, h1, h⟩ := h
                  split at h
                  · cases h
                  · simp only [Option.bind_eq_some_iff, Prod.exists] at h
                    obtain ⟨rb, r2, h2, comma, r3, h3, h⟩ := h
                    simp only [pure, Option.some.injEq, Prod.mk.injEq] at h
                    obtain ⟨rfl, rfl⟩ := h
                    have e3 := tok_toks h3; have e2 := tok_toks h2; have e1 := ih2 h1
                    subst e3; subst e2; subst e1
                    simp [FieldDef.toks]
                · split at h
                  · split at h
                    · cases h
                    · rename_i hrep
                      have e3 := pLenOrCk_toks h
                      rw [e3]
                      cases rep with
                      | some x => simp at hrep
                      | none => simp [optTy, optTok]
                  · generalize hq1 : optTokP TK.ident (a :: rest') = q1 at h
                    obtain ⟨fname, r1⟩ := q1
                    generalize hq2 : optTokP TK.strLit r1 = q2 at h
                    obtain ⟨doc, r2⟩ := q2
                    simp only [bind, Option.bind_eq_some_iff, Prod.exists] at h
                    obtain ⟨comma, r3, h3, h⟩ := h
                    simp only [pure, Option.some.injEq, Prod.mk.injEq] at h
                    obtain ⟨rfl, rfl⟩ := h
                    have e3 := tok_toks h3; have e2 := optTokP_toks hq2; have e1 := optTokP_toks hq1
                    try simp only at e3
                    subst e3; subst e2; rw [← e1]
                    simp [FieldDef.toks]
              · cases h
            · cases h
      · cases h
    · intro ts fds r h
      unfold pFieldDefs at h
      split at h
      · split at h
        · simp only [bind, Option.bind_eq_some_iff, Prod.exists] at h
          obtain ⟨d, r1, h1, rest, r2, h2, h⟩ := h
          simp only [pure, Option.some.injEq, Prod.mk.injEq] at h
          obtain ⟨rfl, rfl⟩ := h
          have e2 := ih2 h2; have e1 := ih1 h1
          subst e2; rw [← e1]
          simp [FieldDef.toksList]
        · simp at h; obtain ⟨rfl, rfl⟩ := h; simp [FieldDef.toksList]
      · simp at h; obtain ⟨rfl, rfl⟩ := h; simp [FieldDef.toksList]

theorem pFieldDef_toks (fuel : Nat) {ts : List Tok} {fd : FieldDef} {r : List Tok}
    (h : pFieldDef fuel ts = some (fd, r)) : fd.toks ++ r = ts := (pField_toks fuel).1 h

theorem pFieldDefs_toks (fuel : Nat) {ts : List Tok} {fds : List FieldDef} {r : List Tok}
    (h : pFieldDefs fuel ts = some (fds, r)) : FieldDef.toksList fds ++ r = ts := (pField_toks fuel).2 h

theorem pAttr_toks {ts : List Tok} {a : Attr} {r : List Tok} (h : pAttr ts = some (a, r)) : a.toks ++ r = ts := by
  unfold pAttr at h
  split at h
  · split at h
    · simp only [Option.map_eq_some_iff, Prod.exists, Prod.mk.injEq] at h
      obtain ⟨x, r1, h1, rfl, rfl⟩ := h
      exact pLenAttr_toks h1
    · split at h
      · simp only [Option.map_eq_some_iff, Prod.exists, Prod.mk.injEq] at h
        obtain ⟨x, r1, h1, rfl, rfl⟩ := h
        exact pCalcAttr_toks h1
      · split at h
        · simp only [bind, Option.bind_eq_some_iff, Prod.exists] at h
          obtain ⟨n, r1, h1, rp, r2, h2, h⟩ := h
          simp only [pure, Option.some.injEq, Prod.mk.injEq] at h
          obtain ⟨rfl, rfl⟩ := h
          have e2 := tok_toks h2; have e1 := tok_toks h1
          subst e2; subst e1
          simp [Attr.toks]
        · split at h
          · simp only [bind, Option.bind_eq_some_iff, Prod.exists] at h
            obtain ⟨lp, r1, h1, h⟩ := h
            generalize hq : optTokP TK.padChar r1 = q at h
            obtain ⟨ch, r2⟩ := q
            obtain ⟨rp, r3, h3, h⟩ := h
            simp only [pure, Option.some.injEq, Prod.mk.injEq] at h
            obtain ⟨rfl, rfl⟩ := h
            have e3 := tok_toks h3; have e2 := optTokP_toks hq; have e1 := tok_toks h1
            try simp only at e3
            subst e3; subst e2; subst e1
            simp [Attr.toks]
          · cases h
  · cases h

theorem pAttrs_toks : ∀ (fuel : Nat) {ts : List Tok} {as : List Attr} {r : List Tok},
    pAttrs fuel ts = some (as, r) → (as.map Attr.toks).flatten ++ r = ts := by
  intro fuel
  induction fuel with
  | zero => intro ts es r h; simp [pAttrs] at h
  | succ fuel ih =>
    intro ts es r h
    unfold pAttrs at h
    split at h
    · split at h
      · simp only [bind, Option.bind_eq_some_iff, Prod.exists] at h
        obtain ⟨d, r1, h1, rest, r2, h2, h⟩ := h
        simp only [pure, Option.some.injEq, Prod.mk.injEq] at h
        obtain ⟨rfl, rfl⟩ := h
        have e2 := ih h2; have e1 := pAttr_toks h1
        subst e2; rw [← e1]
        simp
      · simp at h; obtain ⟨rfl, rfl⟩ := h; simp
    · simp at h; obtain ⟨rfl, rfl⟩ := h; simp

theorem pFieldWA_toks {ts : List Tok} {f : FieldWA} {r : List Tok} (h : pFieldWA ts = some (f, r)) : f.toks ++ r = ts := by
  unfold pFieldWA at h
  simp only [bind, Option.bind_eq_some_iff, Prod.exists] at h
  obtain ⟨attrs, r1, h1, fd, r2, h2, h⟩ := h
  simp only [pure, Option.some.injEq, Prod.mk.injEq] at h
  obtain ⟨rfl, rfl⟩ := h
  have e2 := pFieldDef_toks _ h2; have e1 := pAttrs_toks _ h1
  subst e2; subst e1
  simp [FieldWA.toks]

theorem pFieldWAs_toks : ∀ (fuel : Nat) {ts : List Tok} {fs : List FieldWA} {r : List Tok},
    pFieldWAs fuel ts = some (fs, r) → (fs.map FieldWA.toks).flatten ++ r = ts := by
  intro fuel
  induction fuel with
  | zero => intro ts es r h; simp [pFieldWAs] at h
  | succ fuel ih =>
    intro ts es r h
    unfold pFieldWAs at h
    split at h
    · split at h
      · simp only [bind, Option.bind_eq_some_iff, Prod.exists] at h
        obtain ⟨d, r1, h1, rest, r2, h2, h⟩ := h
        simp only [pure, Option.some.injEq, Prod.mk.injEq] at h
        obtain ⟨rfl, rfl⟩ := h
        have e2 := ih h2; have e1 := pFieldWA_toks h1
        subst e2; rw [← e1]
        simp
      · simp at h; obtain ⟨rfl, rfl⟩ := h; simp
    · simp at h; obtain ⟨rfl, rfl⟩ := h; simp

theorem pPacketDef_toks {ts : List Tok} {p : PacketDef} {r : List Tok} (h : pPacketDef ts = some (p, r)) : p.toks ++ r = ts := by
  unfold pPacketDef at h
  generalize hq : optTokP TK.root ts = q at h
  obtain ⟨root, r0⟩ := q
  simp only [bind, Option.bind_eq_some_iff, Prod.exists] at h
  obtain ⟨kw, r1, h1, name, r2, h2, lb, r3, h3, fs, r4, h4, rb, r5, h5, h⟩ := h
  simp only [pure, Option.some.injEq, Prod.mk.injEq] at h
  obtain ⟨rfl, rfl⟩ := h
  have e5 := tok_toks h5; have e4 := pFieldWAs_toks _ h4; have e3 := tok_toks h3
  have e2 := tok_toks h2; have e1 := tok_toks h1; have e0 := optTokP_toks hq
  subst e5; subst e4; subst e3; subst e2; subst e1; subst e0
  simp [PacketDef.toks]

theorem pTop_toks : ∀ (fuel : Nat) {ts : List Tok} {ds : List TopDef} {r : List Tok},
    pTop fuel ts = some (ds, r) → (ds.map TopDef.toks).flatten ++ r = ts := by
  intro fuel
  induction fuel with
  | zero => intro ts es r h; simp [pTop] at h
  | succ fuel ih =>
    intro ts es r h
    unfold pTop at h
    split at h
    · split at h
      · simp only [bind, Option.bind_eq_some_iff, Prod.exists] at h
        obtain ⟨d, r1, h1, rest, r2, h2, h⟩ := h
        simp only [pure, Option.some.injEq, Prod.mk.injEq] at h
        obtain ⟨rfl, rfl⟩ := h
        have e2 := ih h2; have e1 := pPacketDef_toks h1
        subst e2; rw [← e1]
        simp [TopDef.toks]
      · split at h
        · simp only [bind, Option.bind_eq_some_iff, Prod.exists] at h
          obtain ⟨d, r1, h1, rest, r2, h2, h⟩ := h
          simp only [pure, Option.some.injEq, Prod.mk.injEq] at h
          obtain ⟨rfl, rfl⟩ := h
          have e2 := ih h2; have e1 := pMetaDef_toks h1
          subst e2; rw [← e1]
          simp [TopDef.toks]
        · split at h
          · simp only [bind, Option.bind_eq_some_iff, Prod.exists] at h
            obtain ⟨d, r1, h1, rest, r2, h2, h⟩ := h
            simp only [pure, Option.some.injEq, Prod.mk.injEq] at h
            obtain ⟨rfl, rfl⟩ := h
            have e2 := ih h2; have e1 := pOptDef_toks h1
            subst e2; rw [← e1]
            simp [TopDef.toks]
          · simp at h; obtain ⟨rfl, rfl⟩ := h; simp
    · simp at h; obtain ⟨rfl, rfl⟩ := h; simp

/-- the whole parser: the tokens of the tree followed by the unconsumed tokens are the input -/
theorem parseToks_toks' {ts : List Tok} {cst : Cst} {rest : List Tok} (h : parseToks ts = some (cst, rest)) :
    cst.toks ++ rest = ts := by
  unfold parseToks at h
  simp only [Option.map_eq_some_iff, Prod.exists, Prod.mk.injEq] at h
  obtain ⟨ds, r, h1, rfl, rfl⟩ := h
  exact pTop_toks _ h1

end FinProtoc.Dsl
