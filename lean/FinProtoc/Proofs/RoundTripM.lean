import FinProtoc.Proofs.RoundTripC
/-!
# The declared round trip, all field kinds (match payloads included)

Domain `m*` = every field kind: scalars, strings, fixed strings, lists, nested objects, length-of and checksum members
with any caller value, and match payloads whose key member (declared earlier in the same packet, a non-repeated scalar
or string) holds a key that selects the supplied payload packet — i.e. the messages a sender can legitimately build.

`dec_enc_full`: decoding what such a message encodes to, followed by any suffix, yields the message up to its computed
members (`eraseFields`) and leaves exactly the suffix — for every schema, registry, buffer prefix and fuel above the
nesting depth.
-/
namespace FinProtoc.Wire
open FinProtoc

/-- the key member holds a key that selects payload packet `pkt` -/
def keyOk (all : List Field) (env : List (String × Val)) (key : String) (pairs : List (Key × String)) (pkt : String) : Bool :=
  match env.lookup key, keyWidthOf all key with
  | some kv, some kw => (match pairs.find? (fun x => keyMatches kw x.1 kv) with | some x => x.2 == pkt | none => false)
  | _, _ => false

mutual
/-- one member of a packet whose fields are `all`; `env` = the (name, value) pairs of the members before it; the Boolean
says whether the member is repeated -/
def mVal (S : Schema) (all : List Field) (env : List (String × Val)) : Bool → FKind → Val → Bool
  | true, .matchOn _ _, _ => false
  | true, k, .list es => decide (es.length < 256 ^ S.cfg.listPfx.width) && mList S k es
  | true, _, _ => false
  | false, .scalar t, .int n => decide (n < 256 ^ t.width)
  | false, .fixed n pad, .str bs => decide (trimPad pad (padTo n pad bs) = bs)
  | false, .dyn, .str bs => decide (bs.length < 256 ^ S.cfg.strPfx.width)
  | false, .obj pkt, .struct vs => match S.find pkt with | some p => mFields S p.fields p.fields [] vs | none => false
  | false, .matchOn key pairs, .dyn pkt vs =>
    keyOk all env key pairs pkt && (match S.find pkt with | some p => mFields S p.fields p.fields [] vs | none => false)
  | false, .lengthOf _ _, .int _ => true
  | false, .checksum _ _, .int _ => true
  | false, _, _ => false
/-- list elements (never match payloads: a match field cannot be repeated) -/
def mList (S : Schema) (k : FKind) : List Val → Bool
  | [] => true
  | v :: vs => mVal S [] [] false k v && mList S k vs
def mFields (S : Schema) (all : List Field) : List Field → List (String × Val) → List Val → Bool
  | [], _, [] => true
  | f :: fs, env, v :: vs => mVal S all env f.rep f.kind v && mFields S all fs (env ++ [(f.name, v)]) vs
  | _, _, _ => false
end


/-- the decoder's view of one member value -/
def decValue (S : Schema) (fuel : Nat) : FKind → Val → Bytes → Option (Val × Bytes)
  | .matchOn _ _, .dyn pkt _, bs => (dec S fuel pkt bs).map fun x => (.dyn pkt x.1, x.2)
  | k, _, bs => decPlain S (dec S fuel) k bs

theorem decValue_plain (S : Schema) (fuel : Nat) (k : FKind) (v : Val) (bs : Bytes) (hk : ∀ key pairs, k ≠ .matchOn key pairs) :
    decValue S fuel k v bs = decPlain S (dec S fuel) k bs := by
  unfold decValue
  split
  · rename_i key pairs _ _
    exact absurd rfl (hk key pairs)
  · rfl

/-- kinds a match key can have: erasing computed members does not touch them -/
theorem erase_keykind (S : Schema) (k : FKind) (x : Val) (h : (∃ t, k = .scalar t) ∨ k = .dyn ∨ ∃ n p, k = .fixed n p) :
    eraseVal S false k x = x := by
  rcases h with ⟨t, rfl⟩ | rfl | ⟨n, p, rfl⟩ <;> cases x <;> simp [eraseVal]

/-- the decoder's environment against the sender's: same member names, values equal up to computed members -/
def EnvRel (S : Schema) (pre : List Field) (env envD : List (String × Val)) : Prop :=
  env.map Prod.fst = pre.map (·.name) ∧ envD.map Prod.fst = pre.map (·.name) ∧
  eraseFields S pre (envD.map Prod.snd) = eraseFields S pre (env.map Prod.snd)

theorem EnvRel_nil (S : Schema) : EnvRel S [] [] [] := ⟨rfl, rfl, rfl⟩

theorem eraseFields_snoc (S : Schema) :
    ∀ (pre : List Field) (xs : List Val) (f : Field) (x : Val), pre.length = xs.length →
      eraseFields S (pre ++ [f]) (xs ++ [x]) = eraseFields S pre xs ++ [eraseVal S f.rep f.kind x] := by
  intro pre
  induction pre with
  | nil => intro xs f x h; cases xs <;> simp at h; simp [eraseFields]
  | cons g pre ih =>
    intro xs f x h
    cases xs with
    | nil => simp at h
    | cons y ys =>
      simp only [List.length_cons, Nat.add_right_cancel_iff] at h
      simp only [List.cons_append, eraseFields, ih ys f x h]

theorem eraseFields_length (S : Schema) : ∀ (pre : List Field) (xs : List Val), (eraseFields S pre xs).length = xs.length := by
  intro pre
  induction pre with
  | nil => intro xs; simp [eraseFields]
  | cons g pre ih => intro xs; cases xs <;> simp [eraseFields, ih]

theorem EnvRel_snoc {S : Schema} {pre : List Field} {env envD : List (String × Val)} (h : EnvRel S pre env envD)
    (f : Field) (v d : Val) (he : eraseVal S f.rep f.kind d = eraseVal S f.rep f.kind v) :
    EnvRel S (pre ++ [f]) (env ++ [(f.name, v)]) (envD ++ [(f.name, d)]) := by
  obtain ⟨h1, h2, h3⟩ := h
  have l1 : pre.length = (env.map Prod.snd).length := by
    have := congrArg List.length h1; simp at this; simp [this]
  have l2 : pre.length = (envD.map Prod.snd).length := by
    have := congrArg List.length h2; simp at this; simp [this]
  refine ⟨by simp [h1], by simp [h2], ?_⟩
  simp only [List.map_append, List.map_cons, List.map_nil]
  rw [eraseFields_snoc S pre _ f d l2, eraseFields_snoc S pre _ f v l1, h3, he]

/-- a member that can be a match key is seen alike by sender and decoder -/
theorem lookup_rel {S : Schema} {key : String} {kw : Option Nat} {kv : Val} :
    ∀ (pre rest : List Field) (env envD : List (String × Val)), EnvRel S pre env envD →
      keyWidthOf (pre ++ rest) key = some kw → env.lookup key = some kv → envD.lookup key = some kv := by
  intro pre
  induction pre with
  | nil =>
    intro rest env envD h _ hl
    obtain ⟨h1, _, _⟩ := h
    cases env with
    | nil => simp [List.lookup] at hl
    | cons a env => simp at h1
  | cons g pre ih =>
    intro rest env envD h hkw hl
    obtain ⟨h1, h2, h3⟩ := h
    cases env with
    | nil => simp at h1
    | cons a env =>
      cases envD with
      | nil => simp at h2
      | cons b envD =>
        obtain ⟨an, av⟩ := a
        obtain ⟨bn, bv⟩ := b
        simp only [List.map_cons, List.cons.injEq] at h1 h2
        obtain ⟨ha, h1'⟩ := h1
        obtain ⟨hb, h2'⟩ := h2
        subst ha hb
        simp only [List.map_cons, eraseFields, List.cons.injEq] at h3
        obtain ⟨hv, h3'⟩ := h3
        by_cases hkey : key = g.name
        · subst hkey
          simp only [List.lookup, beq_self_eq_true] at hl ⊢
          injection hl with hl
          subst hl
          -- the key field is `g`: a non-repeated scalar / string / fixed string
          unfold keyWidthOf at hkw
          simp only [List.cons_append, List.find?_cons, decide_true] at hkw
          have hnr : g.rep = false := by
            cases hr : g.rep with
            | false => rfl
            | true => simp [hr] at hkw
          simp only [hnr, Bool.false_eq_true, if_false] at hkw
          rw [hnr] at hv
          have hkind : (∃ t, g.kind = .scalar t) ∨ g.kind = .dyn ∨ ∃ n p, g.kind = .fixed n p := by
            cases hk : g.kind <;> simp [hk] at hkw
            · exact Or.inl ⟨_, rfl⟩
            · exact Or.inr (Or.inr ⟨_, _, rfl⟩)
            · exact Or.inr (Or.inl rfl)
          rw [erase_keykind S g.kind bv hkind, erase_keykind S g.kind av hkind] at hv
          rw [hv]
        · have hne : (key == g.name) = false := by simpa using hkey
          simp only [List.lookup, hne] at hl ⊢
          have hkw' : keyWidthOf (pre ++ rest) key = some kw := by
            unfold keyWidthOf at hkw ⊢
            have : decide (g.name = key) = false := by simpa using fun e => hkey e.symm
            simpa [List.find?_cons, this] using hkw
          exact ih rest env envD ⟨h1', h2', h3'⟩ hkw' hl

def MtV (S : Schema) (reg : Registry) (cf : List Field) (cv : List Val) (k : FKind) (v : Val) (acc : Bytes) : Prop :=
  ∀ r all env, mVal S all env false k v = true → encVal S reg cf cv k v acc = some r →
    ∃ xs, r = acc ++ xs ∧ ∀ fuel sfx, v.depth ≤ fuel →
      ∃ d, decValue S fuel k v (xs ++ sfx) = some (d, sfx) ∧ eraseVal S false k d = eraseVal S false k v
def MtF (S : Schema) (reg : Registry) (cf : List Field) (cv : List Val) (fs : List Field) (vs : List Val) (acc : Bytes) : Prop :=
  ∀ r all pre env, all = pre ++ fs → mFields S all fs env vs = true → encFields S reg cf cv fs vs acc = some r →
    ∃ xs, r = acc ++ xs ∧ ∀ fuel sfx envD, depthList vs ≤ fuel → EnvRel S pre env envD →
      ∃ ds, decFields S (dec S fuel) all fs envD (xs ++ sfx) = some (ds, sfx) ∧ eraseFields S fs ds = eraseFields S fs vs
def MtL (S : Schema) (reg : Registry) (cf : List Field) (cv : List Val) (k : FKind) (vs : List Val) (acc : Bytes) : Prop :=
  ∀ r, mList S k vs = true → encList S reg cf cv k vs acc = some r →
    ∃ xs, r = acc ++ xs ∧ ∀ fuel sfx, depthList vs ≤ fuel →
      ∃ ds, decListN S (dec S fuel) k vs.length (xs ++ sfx) = some (ds, sfx) ∧ eraseList S k ds = eraseList S k vs

/-- a repeated member is never a match field -/
theorem mVal_rep_not_match {S : Schema} {all env k v} (h : mVal S all env true k v = true) : ∀ key pairs, k ≠ .matchOn key pairs := by
  intro key pairs hk
  subst hk
  simp [mVal] at h

theorem mVal_rep_list {S : Schema} {all env k es} (h : mVal S all env true k (.list es) = true) :
    es.length < 256 ^ S.cfg.listPfx.width ∧ mList S k es = true := by
  cases k <;> simp [mVal] at h <;> exact h

theorem dec_enc_full_all (S : Schema) (reg : Registry) :
    (∀ cf cv k v acc, MtV S reg cf cv k v acc) ∧
    (∀ cf cv fs vs acc, MtF S reg cf cv fs vs acc) ∧
    (∀ cf cv k vs acc, MtL S reg cf cv k vs acc) := by
  apply encVal.mutual_induct S (motive_1 := MtV S reg) (motive_2 := MtF S reg) (motive_3 := MtL S reg)
  · -- scalar
    intro cf cv t n acc r all env hp h
    simp [encVal] at h; subst h
    simp only [mVal, decide_eq_true_eq] at hp
    refine ⟨_, rfl, ?_⟩
    intro fuel sfx _
    refine ⟨.int n, ?_, rfl⟩
    simp only [decValue, decPlain, takeN_append' t.width _ sfx (encInt_length _ _ _), bind, Option.bind, decInt_encInt _ _ _ hp]
    rfl
  · -- fixed, fits
    intro cf cv n pad bs acc hle r all env hp h
    simp [encVal, hle] at h; subst h
    simp only [mVal, decide_eq_true_eq] at hp
    refine ⟨_, rfl, ?_⟩
    intro fuel sfx _
    refine ⟨.str bs, ?_, rfl⟩
    simp only [decValue, decPlain, takeN_append' n _ sfx (padTo_length _ _ _ hle), bind, Option.bind, hp]
    rfl
  · -- fixed, too long
    intro cf cv n pad bs acc hle r _ _ _ h
    simp [encVal, hle] at h
  · -- dyn
    intro cf cv bs acc r all env hp h
    simp [encVal] at h; subst h
    simp only [mVal, decide_eq_true_eq] at hp
    refine ⟨encInt S.cfg.le S.cfg.strPfx.width bs.length ++ bs, by simp, ?_⟩
    intro fuel sfx _
    refine ⟨.str bs, ?_, rfl⟩
    have h1 : takeN S.cfg.strPfx.width ((encInt S.cfg.le S.cfg.strPfx.width bs.length ++ bs) ++ sfx) =
        some (encInt S.cfg.le S.cfg.strPfx.width bs.length, bs ++ sfx) := by
      rw [List.append_assoc]; exact takeN_append' _ _ _ (encInt_length _ _ _)
    simp only [decValue, decPlain, h1, bind, Option.bind, decInt_encInt _ _ _ hp, takeN_append]
    rfl
  · -- obj
    intro cf cv pkt vs acc ih r all env hp h
    simp only [encVal, bind_eq_some'] at h
    obtain ⟨p, hfind, h⟩ := h
    simp only [mVal, hfind] at hp
    obtain ⟨xs, rfl, hdec⟩ := ih p r p.fields [] [] (by simp) hp h
    refine ⟨xs, rfl, ?_⟩
    intro fuel sfx hd
    cases fuel with
    | zero => simp [Val.depth] at hd
    | succ f =>
      have hd' : depthList vs ≤ f := by simp [Val.depth] at hd; omega
      obtain ⟨ds, hds, her⟩ := hdec f sfx [] hd' (EnvRel_nil S)
      refine ⟨.struct ds, ?_, ?_⟩
      · simp only [decValue, decPlain, dec, hfind, bind, Option.bind, hds]
        rfl
      · simp only [eraseVal, hfind, her]
  · -- match payload
    intro cf cv key pairs pkt vs acc ih r all env hp h
    simp only [encVal, bind_eq_some'] at h
    obtain ⟨p, hfind, h⟩ := h
    simp only [mVal, hfind, Bool.and_eq_true] at hp
    obtain ⟨xs, rfl, hdec⟩ := ih p r p.fields [] [] (by simp) hp.2 h
    refine ⟨xs, rfl, ?_⟩
    intro fuel sfx hd
    cases fuel with
    | zero => simp [Val.depth] at hd
    | succ f =>
      have hd' : depthList vs ≤ f := by simp [Val.depth] at hd; omega
      obtain ⟨ds, hds, her⟩ := hdec f sfx [] hd' (EnvRel_nil S)
      refine ⟨.dyn pkt ds, ?_, ?_⟩
      · simp only [decValue, dec, hfind, bind, Option.bind, hds]
        rfl
      · simp only [eraseVal, hfind, her]
  · -- lengthOf
    intro cf cv t target n acc r all env _ h
    simp only [encVal, bind_eq_some'] at h
    obtain ⟨m, _, h⟩ := h
    simp at h; subst h
    refine ⟨_, rfl, ?_⟩
    intro fuel sfx _
    refine ⟨.int (decInt S.cfg.le (encInt S.cfg.le t.width m)), ?_, by simp [eraseVal]⟩
    simp only [decValue, decPlain, takeN_append' t.width _ sfx (encInt_length _ _ _), bind, Option.bind]
    rfl
  · -- checksum
    intro cf cv t algo n acc r all env _ h
    simp [encVal] at h; subst h
    refine ⟨_, rfl, ?_⟩
    intro fuel sfx _
    refine ⟨.int (decInt S.cfg.le (encInt S.cfg.le t.width (match reg algo with | some f => f acc | none => n))), ?_, by simp [eraseVal]⟩
    simp only [decValue, decPlain, takeN_append' t.width _ sfx (encInt_length _ _ _), bind, Option.bind]
    rfl
  · -- ill-typed combinations
    intro v cf cv k acc h1 h2 h3 h4 h5 h6 h7 r _ _ _ h
    exfalso
    unfold encVal at h
    split at h <;> first | (simp at h; done) | skip
    all_goals first | exact h1 _ _ rfl rfl | exact h2 _ _ _ rfl rfl | exact h3 _ rfl rfl | exact h4 _ _ rfl rfl
                    | exact h5 _ _ _ _ rfl rfl | exact h6 _ _ _ rfl rfl | exact h7 _ _ _ rfl rfl | skip
    all_goals simp_all
  · -- fields, nil
    intro cf cv acc r all pre env _ _ h
    simp [encFields] at h; subst h
    refine ⟨[], by simp, ?_⟩
    intro fuel sfx envD _ _
    exact ⟨[], by simp [decFields], rfl⟩
  · -- fields, cons
    intro cf cv f fs v vs acc ihL ihV ihF r all pre env hall hp h
    simp only [mFields, Bool.and_eq_true] at hp
    obtain ⟨hpv, hpf⟩ := hp
    have hall' : all = (pre ++ [f]) ++ fs := by simp [hall]
    by_cases hrep : f.rep
    · have hr : f.rep = true := hrep
      rw [hr] at hpv
      have hnm := mVal_rep_not_match hpv
      cases v with
      | list es =>
        simp only [encFields, hrep, if_true] at h
        have hpv' := mVal_rep_list hpv
        obtain ⟨hlen, hpl⟩ := hpv'
        obtain ⟨acc1, h1, h2⟩ := bind_eq_some'.mp h
        obtain ⟨x1, hx1, hd1⟩ := ihL acc1 hpl h1
        subst hx1
        obtain ⟨x2, hx2, hd2⟩ := ihF _ r all (pre ++ [f]) (env ++ [(f.name, .list es)]) hall' hpf h2
        subst hx2
        refine ⟨encInt S.cfg.le S.cfg.listPfx.width es.length ++ x1 ++ x2, by simp [List.append_assoc], ?_⟩
        intro fuel sfx envD hd hrel
        have hde : depthList es ≤ fuel := by
          simp only [depthList, Val.depth] at hd; omega
        have hdv : depthList vs ≤ fuel := by
          simp only [depthList] at hd; omega
        obtain ⟨ds1, hds1, her1⟩ := hd1 fuel (x2 ++ sfx) hde
        have e : eraseVal S f.rep f.kind (.list ds1) = eraseVal S f.rep f.kind (.list es) := by
          rw [hr]; simp only [eraseVal, her1]
        obtain ⟨ds2, hds2, her2⟩ := hd2 fuel sfx (envD ++ [(f.name, .list ds1)]) hdv (EnvRel_snoc hrel f _ _ e)
        have ht : takeN S.cfg.listPfx.width ((encInt S.cfg.le S.cfg.listPfx.width es.length ++ x1 ++ x2) ++ sfx) =
            some (encInt S.cfg.le S.cfg.listPfx.width es.length, x1 ++ (x2 ++ sfx)) := by
          simp only [List.append_assoc]; exact takeN_append' _ _ _ (encInt_length _ _ _)
        have hfield : decField S (dec S fuel) all envD f ((encInt S.cfg.le S.cfg.listPfx.width es.length ++ x1 ++ x2) ++ sfx) =
            some (.list ds1, x2 ++ sfx) := by
          unfold decField
          simp only [hrep, if_true, ht, bind, Option.bind, decInt_encInt _ _ _ hlen, hds1]
          rfl
        refine ⟨.list ds1 :: ds2, ?_, ?_⟩
        · simp only [decFields, hfield, bind, Option.bind, hds2]
          rfl
        · rw [eraseFields, eraseFields, e, her2]
      | _ => simp [encFields, hrep] at h
    · simp only [Bool.not_eq_true] at hrep
      rw [hrep] at hpv
      have h' : (encVal S reg cf cv f.kind v acc >>= fun a => encFields S reg cf cv fs vs a) = some r := by
        cases v <;> simpa [encFields, hrep] using h
      obtain ⟨acc1, h1, h2⟩ := bind_eq_some'.mp h'
      obtain ⟨x1, hx1, hd1⟩ := ihV acc1 all env hpv h1
      subst hx1
      obtain ⟨x2, hx2, hd2⟩ := ihF _ r all (pre ++ [f]) (env ++ [(f.name, v)]) hall' hpf h2
      subst hx2
      refine ⟨x1 ++ x2, by simp [List.append_assoc], ?_⟩
      intro fuel sfx envD hd hrel
      have hdv : v.depth ≤ fuel := by simp only [depthList] at hd; omega
      have hdvs : depthList vs ≤ fuel := by simp only [depthList] at hd; omega
      obtain ⟨d1, hds1, her1⟩ := hd1 fuel (x2 ++ sfx) hdv
      have e : eraseVal S f.rep f.kind d1 = eraseVal S f.rep f.kind v := by
        rw [hrep]; exact her1
      obtain ⟨ds2, hds2, her2⟩ := hd2 fuel sfx (envD ++ [(f.name, d1)]) hdvs (EnvRel_snoc hrel f _ _ e)
      have hfield : decField S (dec S fuel) all envD f ((x1 ++ x2) ++ sfx) = some (d1, x2 ++ sfx) := by
        by_cases hm : ∃ key pairs, f.kind = .matchOn key pairs
        · obtain ⟨key, pairs, hk⟩ := hm
          rw [hk] at hpv hds1
          cases v <;> try (simp [mVal] at hpv; done)
          rename_i pkt pvs
          simp only [mVal, Bool.and_eq_true] at hpv
          obtain ⟨hkey, _⟩ := hpv
          -- the sender's key selects `pkt`; the decoder sees the same key value
          unfold keyOk at hkey
          cases hl : env.lookup key with
          | none => simp [hl] at hkey
          | some kv =>
            cases hkw : keyWidthOf all key with
            | none => simp [hl, hkw] at hkey
            | some kw =>
              simp only [hl, hkw] at hkey
              cases hf : pairs.find? (fun x => keyMatches kw x.1 kv) with
              | none => simp [hf] at hkey
              | some x =>
                simp only [hf, beq_iff_eq] at hkey
                have hlD : envD.lookup key = some kv := lookup_rel pre (f :: fs) env envD hrel (by rw [← hall]; exact hkw) hl
                -- what the payload decodes to
                simp only [decValue] at hds1
                cases hdp : dec S fuel pkt (x1 ++ (x2 ++ sfx)) with
                | none => simp [hdp] at hds1
                | some res =>
                  obtain ⟨pds, rest⟩ := res
                  rw [hdp] at hds1
                  simp only [Option.map_some, Option.some.injEq, Prod.mk.injEq] at hds1
                  obtain ⟨hd1v, hrest⟩ := hds1
                  subst hd1v hrest
                  unfold decField
                  simp only [hrep, Bool.false_eq_true, if_false, hk, hlD, hkw, bind, Option.bind]
                  have hfind' : List.find? (fun x => keyMatches kw x.fst kv) pairs = some x := hf
                  obtain ⟨xk, xp⟩ := x
                  simp only at hkey
                  subst hkey
                  simp only [hfind', List.append_assoc, hdp]
                  rfl
        · have hnm : ∀ key pairs, f.kind ≠ .matchOn key pairs := fun key pairs hk => hm ⟨key, pairs, hk⟩
          rw [decField_plain S _ all envD f _ hrep hnm, List.append_assoc]
          rw [decValue_plain S fuel f.kind v _ hnm] at hds1
          exact hds1
      refine ⟨d1 :: ds2, ?_, ?_⟩
      · simp only [decFields, hfield, bind, Option.bind, hds2]
        rfl
      · rw [eraseFields, eraseFields, e, her2]
  · -- fields, length mismatch
    intro vs cf cv fs acc h1 h2 r _ _ _ _ _ h
    exfalso
    unfold encFields at h
    split at h
    · exact h1 rfl rfl
    · exact h2 _ _ _ _ rfl rfl
    · simp at h
  · -- list, nil
    intro cf cv k acc r _ h
    simp [encList] at h; subst h
    refine ⟨[], by simp, ?_⟩
    intro fuel sfx _
    exact ⟨[], by simp [decListN], rfl⟩
  · -- list, cons
    intro cf cv k v vs acc ihV ihL r hp h
    simp only [encList] at h
    simp only [mList, Bool.and_eq_true] at hp
    obtain ⟨acc1, h1, h2⟩ := bind_eq_some'.mp h
    obtain ⟨x1, hx1, hd1⟩ := ihV acc1 [] [] hp.1 h1
    subst hx1
    obtain ⟨x2, hx2, hd2⟩ := ihL _ r hp.2 h2
    subst hx2
    refine ⟨x1 ++ x2, by simp [List.append_assoc], ?_⟩
    intro fuel sfx hd
    have hdv : v.depth ≤ fuel := by simp only [depthList] at hd; omega
    have hdvs : depthList vs ≤ fuel := by simp only [depthList] at hd; omega
    obtain ⟨d1, hds1, her1⟩ := hd1 fuel (x2 ++ sfx) hdv
    obtain ⟨ds2, hds2, her2⟩ := hd2 fuel sfx hdvs
    -- a list element is never a match payload (its key check fails with the empty environment)
    have hnm : ∀ key pairs, k ≠ .matchOn key pairs := by
      intro key pairs hk
      subst hk
      have := hp.1
      cases v <;> simp [mVal, keyOk, List.lookup] at this
    have e1 : decPlain S (dec S fuel) k ((x1 ++ x2) ++ sfx) = some (d1, x2 ++ sfx) := by
      rw [List.append_assoc, ← decValue_plain S fuel k v _ hnm]; exact hds1
    refine ⟨d1 :: ds2, ?_, ?_⟩
    · simp only [List.length_cons, decListN, e1, bind, Option.bind, hds2]
      rfl
    · simp only [eraseList, her1, her2]

/-- the declared decoder inverts the declared encoder on every legitimately built message, up to its computed
members, whatever follows in the buffer -/
theorem dec_enc_full (S : Schema) (reg : Registry) (pkt : String) (vs : List Val) (acc r : Bytes)
    (hp : mVal S [] [] false (.obj pkt) (.struct vs) = true) (h : Wire.enc S reg pkt vs acc = some r) :
    ∃ xs, r = acc ++ xs ∧ ∀ fuel sfx, depthList vs < fuel →
      ∃ ds p, S.find pkt = some p ∧ Wire.dec S fuel pkt (xs ++ sfx) = some (ds, sfx) ∧
        eraseFields S p.fields ds = eraseFields S p.fields vs := by
  unfold Wire.enc at h
  obtain ⟨p, hfind, h⟩ := bind_eq_some'.mp h
  simp only [mVal, hfind] at hp
  obtain ⟨xs, hx, hd⟩ := (dec_enc_full_all S reg).2.1 p.fields vs p.fields vs acc r p.fields [] [] (by simp) hp h
  refine ⟨xs, hx, ?_⟩
  intro fuel sfx hlt
  cases fuel with
  | zero => omega
  | succ f =>
    obtain ⟨ds, hds, her⟩ := hd f sfx [] (by omega) (EnvRel_nil S)
    refine ⟨ds, p, hfind, ?_, her⟩
    simp only [dec, hfind, bind, Option.bind]
    exact hds

end FinProtoc.Wire
