import FinProtoc.Proofs.FmtLemmas
/-!
# The seen-set of the printer

A small relational calculus for the printer monad `F = StateT St (Except Crash)`: `Tr R x` says that
every successful run of `x` takes a state `st` to a state `st'` with `R st st'`.  For a reflexive and
transitive `R` that holds for the two comment look-ups (`hiddenLeft`, `hiddenRight`), it holds for the
whole printer (`cstText_tr`) — the printer touches the state nowhere else.  Instances: `seen` stays
duplicate-free, `seen` only grows, `seen` only contains ids of comments of the text.

Then: the lexer's comment ids are pairwise distinct (`lex_gapsDistinct`); a look-up marks exactly what it prints
(`marked_iff`, `hiddenLeft_marks`, `hiddenRight_marks`); and a second calculus `Does gaps ls x` ("`x` only extends
`seen`, and after it each look-up of the list `ls` is complete") that follows the printer rule by rule
(`cstText_does`, with `cstLooks` = the look-ups of a run in the order they are performed).
-/
namespace FinProtoc.Fmt
open FinProtoc.Dsl

theorem run_bind_ok {α β} {x : F α} {f : α → F β} {st st'' : St} {b : β}
    (h : (x >>= f).run st = .ok (b, st'')) :
    ∃ a st', x.run st = .ok (a, st') ∧ (f a).run st' = .ok (b, st'') := by
  have h' : (StateT.bind x f) st = .ok (b, st'') := h
  simp only [StateT.bind] at h'
  cases hx : x st with
  | error e => rw [hx] at h'; cases h'
  | ok p => obtain ⟨a, st'⟩ := p; rw [hx] at h'; exact ⟨a, st', hx, h'⟩

/-- every successful run of `x` relates the state before to the state after by `R` -/
def Tr (R : St → St → Prop) {α} (x : F α) : Prop := ∀ st a st', x.run st = .ok (a, st') → R st st'

structure PreOrd (R : St → St → Prop) : Prop where
  refl : ∀ s, R s s
  trans : ∀ {a b c}, R a b → R b c → R a c

section
set_option linter.unusedSectionVars false
variable {R : St → St → Prop}

theorem Tr.pure {α} (hR : PreOrd R) (a : α) : Tr R (pure a : F α) := by
  intro st b st' h
  have : (Except.ok (a, st) : Except Crash (α × St)) = .ok (b, st') := h
  cases this; exact hR.refl _

theorem Tr.bind {α β} (hR : PreOrd R) {x : F α} {f : α → F β} (hx : Tr R x) (hf : ∀ a, Tr R (f a)) : Tr R (x >>= f) := by
  intro st b st'' h
  obtain ⟨a, st', h1, h2⟩ := run_bind_ok h
  exact hR.trans (hx _ _ _ h1) (hf a _ _ _ h2)

theorem Tr.lift {α} (hR : PreOrd R) (e : Except Crash α) : Tr R (monadLift e : F α) := by
  intro st b st' h
  cases e with
  | error c => cases h
  | ok a =>
    have : (Except.ok (a, st) : Except Crash (α × St)) = .ok (b, st') := h
    cases this; exact hR.refl _

theorem Tr.mapM {α β} (hR : PreOrd R) (f : α → F β) (l : List α) (h : ∀ a ∈ l, Tr R (f a)) : Tr R (l.mapM f) := by
  induction l with
  | nil => simp only [List.mapM_nil]; exact Tr.pure hR _
  | cons a l ih =>
    simp only [List.mapM_cons]
    exact Tr.bind hR (h a (by simp)) fun b =>
      Tr.bind hR (ih fun x hx => h x (by simp [hx])) fun bs => Tr.pure hR _

variable (hR : PreOrd R) (gaps : List (List Comment))
  (hl : ∀ t, Tr R (hiddenLeft gaps t)) (hr : ∀ t, Tr R (hiddenRight gaps t))
include hR hl hr

theorem matchDeclText_tr (L : Layout) (d : MatchDecl) : Tr R (matchDeclText L gaps d) := by
  unfold matchDeclText
  refine Tr.bind hR (Tr.mapM hR _ _ fun p _ => ?_) fun _ => Tr.pure hR _
  exact Tr.bind hR (hl _) fun _ => Tr.bind hR (hr _) fun _ => Tr.pure hR _

mutual
theorem fieldDefText_tr (L : Layout) : ∀ fd, Tr R (fieldDefText L gaps fd)
  | .obj rep ft fn doc comma => by
    unfold fieldDefText
    exact Tr.bind hR (hl _) fun _ => Tr.bind hR (hr _) fun _ => Tr.pure hR _
  | .iner rep name lb fields rb comma => by
    unfold fieldDefText
    exact Tr.bind hR (hl _) fun _ => Tr.bind hR (fieldDefsText_tr L fields) fun _ =>
      Tr.bind hR (hr _) fun _ => Tr.pure hR _
  | .len d => by
    unfold fieldDefText
    exact Tr.bind hR (hl _) fun _ => Tr.bind hR (hr _) fun _ => Tr.pure hR _
  | .cks d => by
    unfold fieldDefText
    exact Tr.bind hR (hl _) fun _ => Tr.bind hR (hr _) fun _ => Tr.pure hR _
  | .metaF rep d => by
    unfold fieldDefText
    exact Tr.bind hR (hl _) fun _ => Tr.bind hR (hr _) fun _ => Tr.pure hR _
  | .match_ d comma => by
    unfold fieldDefText
    exact Tr.bind hR (hl _) fun _ => Tr.bind hR (matchDeclText_tr hR gaps hl hr L d) fun _ =>
      Tr.bind hR (hr _) fun _ => Tr.pure hR _
theorem fieldDefsText_tr (L : Layout) : ∀ fds, Tr R (fieldDefsText L gaps fds)
  | [] => by unfold fieldDefsText; exact Tr.pure hR _
  | f :: fs => by
    unfold fieldDefsText
    exact Tr.bind hR (fieldDefText_tr L f) fun _ => Tr.bind hR (fieldDefsText_tr L fs) fun _ => Tr.pure hR _
end

theorem fieldWAText_tr (L : Layout) (f : FieldWA) : Tr R (fieldWAText L gaps f) := by
  unfold fieldWAText
  refine Tr.bind hR (Tr.mapM hR _ _ fun a _ => ?_) fun _ =>
    Tr.bind hR (fieldDefText_tr hR gaps hl hr L f.fd) fun _ => Tr.pure hR _
  exact Tr.bind hR (Tr.lift hR _) fun _ => Tr.pure hR _

theorem packetDefText_tr (L : Layout) (p : PacketDef) : Tr R (packetDefText L gaps p) := by
  unfold packetDefText
  refine Tr.bind hR (hl _) fun _ => Tr.bind hR (Tr.mapM hR _ _ fun f _ => ?_) fun _ =>
    Tr.bind hR (hr _) fun _ => Tr.pure hR _
  exact Tr.bind hR (fieldWAText_tr hR gaps hl hr L f) fun _ => Tr.pure hR _

theorem optDeclText_tr (d : OptDecl) : Tr R (optDeclText gaps d) := by
  unfold optDeclText
  exact Tr.bind hR (hl _) fun _ => Tr.bind hR (hr _) fun _ => Tr.pure hR _

theorem optDefText_tr (L : Layout) (o : OptDef) : Tr R (optDefText L gaps o) := by
  unfold optDefText
  refine Tr.bind hR (hl _) fun _ => Tr.bind hR (Tr.mapM hR _ _ fun d _ => ?_) fun _ =>
    Tr.bind hR (hr _) fun _ => Tr.pure hR _
  exact Tr.bind hR (optDeclText_tr hR gaps hl hr d) fun _ => Tr.pure hR _

theorem topDefText_tr (L : Layout) (d : TopDef) : Tr R (topDefText L gaps d) := by
  cases d with
  | packet p => exact packetDefText_tr hR gaps hl hr L p
  | metaD m => exact Tr.pure hR _
  | opt o => exact optDefText_tr hR gaps hl hr L o

/-- a reflexive, transitive relation on printer states that holds across each of the two comment
look-ups holds across the whole printer: the look-ups are the only places where the state changes -/
theorem cstText_tr (L : Layout) (first : Option Tok) (c : Cst) : Tr R (cstText L gaps first c) := by
  unfold cstText
  have hleft : Tr R (firstLeft gaps first) := by
    cases first with
    | some t => exact hl _
    | none => exact Tr.pure hR _
  refine Tr.bind hR hleft fun _ => ?_
  cases hlast : c.defs.getLast? with
  | none => exact Tr.pure hR _
  | some last =>
    simp only
    exact Tr.bind hR (Tr.mapM hR _ _ fun d _ => topDefText_tr hR gaps hl hr L d) fun _ =>
      Tr.bind hR (hr _) fun _ => Tr.pure hR _

end

/-! ## What the two look-ups do to the state -/

/-- the comments a left look-up at `t` prints in state `st` -/
def leftNew (gaps : List (List Comment)) (t : Tok) (st : St) : List Comment :=
  (gapAt gaps t.idx).filter fun c => !st.seen.contains c.id

/-- the comments a right look-up at `t` prints in state `st` -/
def rightNew (gaps : List (List Comment)) (t : Tok) (st : St) : List Comment :=
  (gapAt gaps (t.idx + 1)).filter fun c => !st.seen.contains c.id && c.line = t.line

theorem hiddenLeft_run (gaps : List (List Comment)) (t : Tok) (st : St) :
    (hiddenLeft gaps t).run st =
      .ok (String.join ((leftNew gaps t st).map fun c => c.text ++ "\n"),
           { seen := st.seen ++ (leftNew gaps t st).map Comment.id }) := rfl

theorem hiddenRight_run (gaps : List (List Comment)) (t : Tok) (st : St) :
    (hiddenRight gaps t).run st =
      .ok (String.join ((rightNew gaps t st).map (·.text)),
           { seen := st.seen ++ (rightNew gaps t st).map Comment.id }) := rfl

theorem hiddenLeft_ok {gaps : List (List Comment)} {t : Tok} {st st' : St} {out : String}
    (h : (hiddenLeft gaps t).run st = .ok (out, st')) :
    out = String.join ((leftNew gaps t st).map fun c => c.text ++ "\n") ∧
    st'.seen = st.seen ++ (leftNew gaps t st).map Comment.id := by
  rw [hiddenLeft_run] at h
  cases h; exact ⟨rfl, rfl⟩

theorem hiddenRight_ok {gaps : List (List Comment)} {t : Tok} {st st' : St} {out : String}
    (h : (hiddenRight gaps t).run st = .ok (out, st')) :
    out = String.join ((rightNew gaps t st).map (·.text)) ∧
    st'.seen = st.seen ++ (rightNew gaps t st).map Comment.id := by
  rw [hiddenRight_run] at h
  cases h; exact ⟨rfl, rfl⟩

/-- the comment ids are pairwise distinct, within each gap and across the gaps -/
def GapsDistinct (gaps : List (List Comment)) : Prop := (gaps.flatten.map Comment.id).Nodup

theorem gapAt_sublist (gaps : List (List Comment)) (i : Nat) : (gapAt gaps i).Sublist gaps.flatten := by
  unfold gapAt
  by_cases h : i < gaps.length
  · have : gaps.getD i [] = gaps[i] := by simp [List.getD, h]
    rw [this]
    exact List.sublist_flatten_of_mem (List.getElem_mem h)
  · have : gaps.getD i [] = [] := by simp [List.getD, Nat.le_of_not_lt h]
    rw [this]; exact List.nil_sublist _

theorem GapsDistinct.gap {gaps : List (List Comment)} (h : GapsDistinct gaps) (i : Nat) :
    ((gapAt gaps i).map Comment.id).Nodup :=
  List.Nodup.sublist ((gapAt_sublist gaps i).map _) h

/-- appending the not-yet-seen ids of a duplicate-free list keeps `seen` duplicate-free -/
theorem nodup_append_fresh (seen : List Nat) (g : List Comment) (q : Comment → Bool)
    (hq : ∀ c, q c = true → seen.contains c.id = false)
    (hs : seen.Nodup) (hg : (g.map Comment.id).Nodup) :
    (seen ++ (g.filter q).map Comment.id).Nodup := by
  rw [List.nodup_append]
  refine ⟨hs, List.Nodup.sublist ((List.filter_sublist (l := g)).map _) hg, ?_⟩
  intro a ha b hb hab
  subst hab
  obtain ⟨c, hc, rfl⟩ := List.mem_map.mp hb
  have := hq c (List.mem_filter.mp hc).2
  simp at this
  exact this ha

/-! ## Three instances of the calculus -/

def RNodup (st st' : St) : Prop := st.seen.Nodup → st'.seen.Nodup
def RMono (st st' : St) : Prop := st.seen <+: st'.seen
def RFrom (gaps : List (List Comment)) (st st' : St) : Prop :=
  ∀ i ∈ st'.seen, i ∈ st.seen ∨ i ∈ gaps.flatten.map Comment.id

theorem RNodup.preOrd : PreOrd RNodup := ⟨fun _ h => h, fun h1 h2 h => h2 (h1 h)⟩
theorem RMono.preOrd : PreOrd RMono := ⟨fun _ => List.prefix_refl _, fun h1 h2 => List.IsPrefix.trans h1 h2⟩
theorem RFrom.preOrd (gaps : List (List Comment)) : PreOrd (RFrom gaps) :=
  ⟨fun _ _ h => Or.inl h, fun {a b c} h1 h2 i hi => by
    rcases h2 i hi with h | h
    · exact h1 i h
    · exact Or.inr h⟩

theorem hiddenLeft_nodup {gaps : List (List Comment)} (hg : GapsDistinct gaps) (t : Tok) : Tr RNodup (hiddenLeft gaps t) := by
  intro st out st' h hs
  rw [(hiddenLeft_ok h).2]
  exact nodup_append_fresh _ _ _ (fun c hc => by simpa using hc) hs (hg.gap _)

theorem hiddenRight_nodup {gaps : List (List Comment)} (hg : GapsDistinct gaps) (t : Tok) : Tr RNodup (hiddenRight gaps t) := by
  intro st out st' h hs
  rw [(hiddenRight_ok h).2]
  exact nodup_append_fresh _ _ _ (fun c hc => by
    simp only [Bool.and_eq_true, Bool.not_eq_true'] at hc; exact hc.1) hs (hg.gap _)

theorem hiddenLeft_mono (gaps : List (List Comment)) (t : Tok) : Tr RMono (hiddenLeft gaps t) := by
  intro st out st' h
  show st.seen <+: st'.seen
  rw [(hiddenLeft_ok h).2]; exact List.prefix_append _ _

theorem hiddenRight_mono (gaps : List (List Comment)) (t : Tok) : Tr RMono (hiddenRight gaps t) := by
  intro st out st' h
  show st.seen <+: st'.seen
  rw [(hiddenRight_ok h).2]; exact List.prefix_append _ _

theorem hiddenLeft_from (gaps : List (List Comment)) (t : Tok) : Tr (RFrom gaps) (hiddenLeft gaps t) := by
  intro st out st' h i hi
  rw [(hiddenLeft_ok h).2, List.mem_append] at hi
  rcases hi with hi | hi
  · exact Or.inl hi
  · obtain ⟨c, hc, rfl⟩ := List.mem_map.mp hi
    exact Or.inr (List.mem_map.mpr ⟨c, (gapAt_sublist gaps _).subset (List.mem_filter.mp hc).1, rfl⟩)

theorem hiddenRight_from (gaps : List (List Comment)) (t : Tok) : Tr (RFrom gaps) (hiddenRight gaps t) := by
  intro st out st' h i hi
  rw [(hiddenRight_ok h).2, List.mem_append] at hi
  rcases hi with hi | hi
  · exact Or.inl hi
  · obtain ⟨c, hc, rfl⟩ := List.mem_map.mp hi
    exact Or.inr (List.mem_map.mpr ⟨c, (gapAt_sublist gaps _).subset (List.mem_filter.mp hc).1, rfl⟩)

theorem cstText_nodup (L : Layout) {gaps : List (List Comment)} (hg : GapsDistinct gaps) (first : Option Tok) (c : Cst) :
    Tr RNodup (cstText L gaps first c) :=
  cstText_tr RNodup.preOrd gaps (hiddenLeft_nodup hg) (hiddenRight_nodup hg) L first c

theorem cstText_mono (L : Layout) (gaps : List (List Comment)) (first : Option Tok) (c : Cst) :
    Tr RMono (cstText L gaps first c) :=
  cstText_tr RMono.preOrd gaps (hiddenLeft_mono gaps) (hiddenRight_mono gaps) L first c

theorem cstText_from (L : Layout) (gaps : List (List Comment)) (first : Option Tok) (c : Cst) :
    Tr (RFrom gaps) (cstText L gaps first c) :=
  cstText_tr (RFrom.preOrd gaps) gaps (hiddenLeft_from gaps) (hiddenRight_from gaps) L first c

/-! ## The lexer numbers the comments consecutively, so their ids are pairwise distinct -/

theorem splitStream_distinct : ∀ (rs : List RawTok) (i cid : Nat) (pend : List Comment) (ts : List Tok) (gs : List (List Comment)),
    ((gs.reverse.flatten ++ pend.reverse).map Comment.id).Nodup →
    (∀ x ∈ (gs.reverse.flatten ++ pend.reverse).map Comment.id, x < cid) →
    GapsDistinct (splitStream rs i cid pend ts gs).gaps := by
  intro rs
  induction rs with
  | nil =>
    intro i cid pend ts gs h1 _
    simpa [splitStream, GapsDistinct] using h1
  | cons r rs ih =>
    intro i cid pend ts gs h1 h2
    unfold splitStream
    split
    · apply ih
      · simp only [List.reverse_cons, ← List.append_assoc, List.map_append, List.map_cons, List.map_nil]
        rw [List.nodup_append]
        refine ⟨by simpa using h1, by simp, ?_⟩
        intro a ha b hb hab
        simp at hb; subst hb; subst hab
        have := h2 a (by simpa using ha)
        exact Nat.lt_irrefl _ this
      · intro x hx
        simp only [List.reverse_cons, ← List.append_assoc, List.map_append, List.map_cons, List.map_nil, List.mem_append, List.mem_singleton] at hx
        rcases hx with hx | hx
        · exact Nat.lt_succ_of_lt (h2 x (by simpa using hx))
        · subst hx; exact Nat.lt_succ_self _
    · apply ih
      · simpa using h1
      · intro x hx; exact h2 x (by simpa using hx)

theorem lex_gapsDistinct (s : String) : GapsDistinct (lex s).gaps :=
  splitStream_distinct _ 0 0 [] [] [] (by simp) (by simp)

/-! ## A look-up marks exactly what it prints -/

theorem eq_of_nodup_map {α β} (f : α → β) : ∀ {l : List α}, (l.map f).Nodup → ∀ {a b}, a ∈ l → b ∈ l → f a = f b → a = b
  | [], _, _, _, ha, _, _ => by cases ha
  | x :: l, h, a, b, ha, hb, hab => by
    simp only [List.map_cons, List.nodup_cons, List.mem_map, not_exists, not_and] at h
    rcases List.mem_cons.mp ha with rfl | ha' <;> rcases List.mem_cons.mp hb with rfl | hb'
    · rfl
    · exact absurd hab.symm (h.1 b hb')
    · exact absurd hab (h.1 a ha')
    · exact eq_of_nodup_map f h.2 ha' hb' hab

/-- the new part of `seen` are the ids of `cs`; with distinct ids, a comment of the text is in `cs`
exactly when the look-up marked it -/
theorem marked_iff {gaps : List (List Comment)} (hg : GapsDistinct gaps) {seen : List Nat} {cs : List Comment}
    (hsub : ∀ c ∈ cs, c ∈ gaps.flatten) (hfresh : ∀ c ∈ cs, c.id ∉ seen) (c : Comment) (hc : c ∈ gaps.flatten) :
    c ∈ cs ↔ c.id ∈ seen ++ cs.map Comment.id ∧ c.id ∉ seen := by
  constructor
  · intro h
    exact ⟨List.mem_append_right _ (List.mem_map.mpr ⟨c, h, rfl⟩), hfresh c h⟩
  · rintro ⟨h1, h2⟩
    rcases List.mem_append.mp h1 with h1 | h1
    · exact absurd h1 h2
    · obtain ⟨c', hc', he⟩ := List.mem_map.mp h1
      have := eq_of_nodup_map Comment.id hg (hsub c' hc') hc he
      subst this; exact hc'

theorem leftNew_sub (gaps : List (List Comment)) (t : Tok) (st : St) : ∀ c ∈ leftNew gaps t st, c ∈ gaps.flatten :=
  fun _ hc => (gapAt_sublist gaps _).subset (List.mem_filter.mp hc).1

theorem rightNew_sub (gaps : List (List Comment)) (t : Tok) (st : St) : ∀ c ∈ rightNew gaps t st, c ∈ gaps.flatten :=
  fun _ hc => (gapAt_sublist gaps _).subset (List.mem_filter.mp hc).1

theorem leftNew_fresh (gaps : List (List Comment)) (t : Tok) (st : St) : ∀ c ∈ leftNew gaps t st, c.id ∉ st.seen := by
  intro c hc
  have := (List.mem_filter.mp hc).2
  simpa using this

theorem rightNew_fresh (gaps : List (List Comment)) (t : Tok) (st : St) : ∀ c ∈ rightNew gaps t st, c.id ∉ st.seen := by
  intro c hc
  have := (List.mem_filter.mp hc).2
  simp only [Bool.and_eq_true, Bool.not_eq_true'] at this
  simpa using this.1

/-- after a left look-up at `t`, every comment of the gap before `t` is marked -/
theorem hiddenLeft_marks {gaps : List (List Comment)} {t : Tok} {st st' : St} {out : String}
    (h : (hiddenLeft gaps t).run st = .ok (out, st')) : ∀ c ∈ gapAt gaps t.idx, c.id ∈ st'.seen := by
  intro c hc
  rw [(hiddenLeft_ok h).2]
  by_cases hs : c.id ∈ st.seen
  · exact List.mem_append_left _ hs
  · refine List.mem_append_right _ (List.mem_map.mpr ⟨c, List.mem_filter.mpr ⟨hc, ?_⟩, rfl⟩)
    simpa using hs

/-- after a right look-up at `t`, every comment of the gap after `t` that starts on `t`'s line is marked -/
theorem hiddenRight_marks {gaps : List (List Comment)} {t : Tok} {st st' : St} {out : String}
    (h : (hiddenRight gaps t).run st = .ok (out, st')) :
    ∀ c ∈ gapAt gaps (t.idx + 1), c.line = t.line → c.id ∈ st'.seen := by
  intro c hc hline
  rw [(hiddenRight_ok h).2]
  by_cases hs : c.id ∈ st.seen
  · exact List.mem_append_left _ hs
  · refine List.mem_append_right _ (List.mem_map.mpr ⟨c, List.mem_filter.mpr ⟨hc, ?_⟩, rfl⟩)
    simp [hs, hline]


/-! ## Every look-up the printer performs is complete at the end -/

/-- a comment look-up: the gap before a token, or the rest of the token's line in the gap after it -/
inductive Look
  | left (t : Tok)
  | right (t : Tok)

/-- the look-up has nothing left to print: every comment it ranges over is marked -/
def Look.Done (gaps : List (List Comment)) : Look → St → Prop
  | .left t, st => ∀ c ∈ gapAt gaps t.idx, c.id ∈ st.seen
  | .right t, st => ∀ c ∈ gapAt gaps (t.idx + 1), c.line = t.line → c.id ∈ st.seen

theorem Look.Done.up {gaps : List (List Comment)} {ℓ : Look} {st st' : St} (h : ℓ.Done gaps st) (hm : RMono st st') :
    ℓ.Done gaps st' := by
  cases ℓ with
  | left t => exact fun c hc => hm.subset (h c hc)
  | right t => exact fun c hc hl => hm.subset (h c hc hl)

/-- `x` only extends `seen`, and after a successful run each look-up of `ls` is complete -/
def Does (gaps : List (List Comment)) (ls : List Look) {α} (x : F α) : Prop :=
  Tr RMono x ∧ ∀ ℓ ∈ ls, ∀ st a st', x.run st = .ok (a, st') → ℓ.Done gaps st'

variable {gaps : List (List Comment)}

theorem Does.mono {α} {x : F α} {ls ls' : List Look} (h : Does gaps ls x) (hs : ∀ ℓ ∈ ls', ℓ ∈ ls) : Does gaps ls' x :=
  ⟨h.1, fun ℓ hl => h.2 ℓ (hs ℓ hl)⟩

theorem Does.pure {α} (a : α) : Does gaps [] (pure a : F α) :=
  ⟨Tr.pure RMono.preOrd a, fun _ h => by cases h⟩

theorem Does.lift {α} (e : Except Crash α) : Does gaps [] (monadLift e : F α) :=
  ⟨Tr.lift RMono.preOrd e, fun _ h => by cases h⟩

theorem Does.bind {α β} {x : F α} {f : α → F β} {la lb : List Look}
    (hx : Does gaps la x) (hf : ∀ a, Does gaps lb (f a)) : Does gaps (la ++ lb) (x >>= f) := by
  refine ⟨Tr.bind RMono.preOrd hx.1 fun a => (hf a).1, ?_⟩
  intro ℓ hl st b st'' h
  obtain ⟨a, st', h1, h2⟩ := run_bind_ok h
  rcases List.mem_append.mp hl with hl | hl
  · exact (hx.2 ℓ hl _ _ _ h1).up ((hf a).1 _ _ _ h2)
  · exact (hf a).2 ℓ hl _ _ _ h2

theorem Does.mapM {α β} (f : α → F β) (g : α → List Look) (l : List α) (h : ∀ a ∈ l, Does gaps (g a) (f a)) :
    Does gaps (l.flatMap g) (l.mapM f) := by
  induction l with
  | nil => simp only [List.mapM_nil, List.flatMap_nil]; exact Does.pure _
  | cons a l ih =>
    simp only [List.mapM_cons, List.flatMap_cons]
    refine (Does.bind (h a (by simp)) fun b =>
      Does.bind (ih fun x hx => h x (by simp [hx])) fun bs => Does.pure _).mono ?_
    intro ℓ hl; simpa using hl

theorem Does.left (t : Tok) : Does gaps [.left t] (hiddenLeft gaps t) :=
  ⟨hiddenLeft_mono gaps t, fun ℓ hl st a st' h => by
    simp only [List.mem_singleton] at hl; subst hl; exact hiddenLeft_marks h⟩

theorem Does.right (t : Tok) : Does gaps [.right t] (hiddenRight gaps t) :=
  ⟨hiddenRight_mono gaps t, fun ℓ hl st a st' h => by
    simp only [List.mem_singleton] at hl; subst hl; exact hiddenRight_marks h⟩

/-! the look-ups of each printer function, in the order in which it performs them -/

def matchDeclLooks (d : MatchDecl) : List Look := d.pairs.flatMap fun p => [.left p.key.start, .right p.stop]

mutual
def fieldDefLooks : FieldDef → List Look
  | .obj rep ft _ _ comma => [.left (rep.getD ft), .right comma]
  | .iner rep name _ fields _ comma => [.left (rep.getD name)] ++ fieldDefsLooks fields ++ [.right comma]
  | .len d => [.left (FieldDef.len d).start, .right d.comma]
  | .cks d => [.left (FieldDef.cks d).start, .right d.comma]
  | .metaF rep d => [.left (rep.getD d.ty.start), .right d.comma]
  | .match_ d comma => [.left d.kw] ++ matchDeclLooks d ++ [.right comma]
def fieldDefsLooks : List FieldDef → List Look
  | [] => []
  | f :: fs => fieldDefLooks f ++ fieldDefsLooks fs
end

def packetDefLooks (p : PacketDef) : List Look :=
  [.left p.start] ++ p.fields.flatMap (fun f => fieldDefLooks f.fd) ++ [.right p.rb]

def optDeclLooks (d : OptDecl) : List Look :=
  [.left d.name, .right (match d.semi with | some s => s | none => (d.value.toks.getLast?.getD d.eq))]

def optDefLooks (o : OptDef) : List Look := [.left o.kw] ++ o.decls.flatMap optDeclLooks ++ [.right o.rb]

def topDefLooks : TopDef → List Look
  | .packet p => packetDefLooks p
  | .metaD _ => []
  | .opt o => optDefLooks o

/-- all look-ups of a run of the printer: before the first token of the text, those of the definitions, and after
the last token of the last definition -/
def cstLooks (first : Option Tok) (c : Cst) : List Look :=
  (match first with | some t => [.left t] | none => []) ++
  (match c.defs.getLast? with
   | none => []
   | some last => c.defs.flatMap topDefLooks ++ [.right last.stop])

theorem matchDeclText_does (L : Layout) (d : MatchDecl) : Does gaps (matchDeclLooks d) (matchDeclText L gaps d) := by
  unfold matchDeclText matchDeclLooks
  refine (Does.bind (Does.mapM _ (fun p => [.left p.key.start, .right p.stop]) _ fun p _ => ?_) fun _ => Does.pure _).mono
    (fun ℓ hl => by simpa using hl)
  exact (Does.bind (Does.left _) fun _ => Does.bind (Does.right _) fun _ => Does.pure _).mono (fun ℓ hl => by simpa using hl)

mutual
theorem fieldDefText_does (L : Layout) : ∀ fd, Does gaps (fieldDefLooks fd) (fieldDefText L gaps fd)
  | .obj rep ft fn doc comma => by
    unfold fieldDefText fieldDefLooks
    exact (Does.bind (Does.left _) fun _ => Does.bind (Does.right _) fun _ => Does.pure _).mono (fun ℓ hl => by simpa using hl)
  | .iner rep name lb fields rb comma => by
    unfold fieldDefText fieldDefLooks
    exact (Does.bind (Does.left _) fun _ => Does.bind (fieldDefsText_does L fields) fun _ =>
      Does.bind (Does.right _) fun _ => Does.pure _).mono (fun ℓ hl => by simpa using hl)
  | .len d => by
    unfold fieldDefText fieldDefLooks
    exact (Does.bind (Does.left _) fun _ => Does.bind (Does.right _) fun _ => Does.pure _).mono (fun ℓ hl => by simpa using hl)
  | .cks d => by
    unfold fieldDefText fieldDefLooks
    exact (Does.bind (Does.left _) fun _ => Does.bind (Does.right _) fun _ => Does.pure _).mono (fun ℓ hl => by simpa using hl)
  | .metaF rep d => by
    unfold fieldDefText fieldDefLooks
    exact (Does.bind (Does.left _) fun _ => Does.bind (Does.right _) fun _ => Does.pure _).mono (fun ℓ hl => by simpa using hl)
  | .match_ d comma => by
    unfold fieldDefText fieldDefLooks
    exact (Does.bind (Does.left _) fun _ => Does.bind (matchDeclText_does L d) fun _ =>
      Does.bind (Does.right _) fun _ => Does.pure _).mono (fun ℓ hl => by simpa using hl)
theorem fieldDefsText_does (L : Layout) : ∀ fds, Does gaps (fieldDefsLooks fds) (fieldDefsText L gaps fds)
  | [] => by unfold fieldDefsText fieldDefsLooks; exact Does.pure _
  | f :: fs => by
    unfold fieldDefsText fieldDefsLooks
    exact (Does.bind (fieldDefText_does L f) fun _ => Does.bind (fieldDefsText_does L fs) fun _ => Does.pure _).mono
      (fun ℓ hl => by simpa using hl)
end

theorem fieldWAText_does (L : Layout) (f : FieldWA) : Does gaps (fieldDefLooks f.fd) (fieldWAText L gaps f) := by
  unfold fieldWAText
  refine (Does.bind (Does.mapM _ (fun _ => []) _ fun a _ => ?_) fun _ =>
    Does.bind (fieldDefText_does L f.fd) fun _ => Does.pure _).mono (fun ℓ hl => by simpa using hl)
  exact (Does.bind (Does.lift _) fun _ => Does.pure _).mono (fun ℓ hl => by simp at hl)

theorem packetDefText_does (L : Layout) (p : PacketDef) : Does gaps (packetDefLooks p) (packetDefText L gaps p) := by
  unfold packetDefText packetDefLooks
  refine (Does.bind (Does.left _) fun _ => Does.bind (Does.mapM _ (fun f : FieldWA => fieldDefLooks f.fd) _ fun f _ => ?_) fun _ =>
    Does.bind (Does.right _) fun _ => Does.pure _).mono (fun ℓ hl => by simpa using hl)
  exact (Does.bind (fieldWAText_does L f) fun _ => Does.pure _).mono (fun ℓ hl => by simpa using hl)

theorem optDeclText_does (d : OptDecl) : Does gaps (optDeclLooks d) (optDeclText gaps d) := by
  unfold optDeclText optDeclLooks
  exact (Does.bind (Does.left _) fun _ => Does.bind (Does.right _) fun _ => Does.pure _).mono (fun ℓ hl => by
    simp only [List.mem_cons, List.mem_append, List.not_mem_nil, or_false] at hl ⊢; exact hl)

theorem optDefText_does (L : Layout) (o : OptDef) : Does gaps (optDefLooks o) (optDefText L gaps o) := by
  unfold optDefText optDefLooks
  refine (Does.bind (Does.left _) fun _ => Does.bind (Does.mapM _ optDeclLooks _ fun d _ => ?_) fun _ =>
    Does.bind (Does.right _) fun _ => Does.pure _).mono (fun ℓ hl => by simpa using hl)
  exact (Does.bind (optDeclText_does d) fun _ => Does.pure _).mono (fun ℓ hl => by simpa using hl)

theorem topDefText_does (L : Layout) (d : TopDef) : Does gaps (topDefLooks d) (topDefText L gaps d) := by
  cases d with
  | packet p => exact packetDefText_does L p
  | metaD m => exact Does.pure _
  | opt o => exact optDefText_does L o

theorem cstText_does (L : Layout) (first : Option Tok) (c : Cst) : Does gaps (cstLooks first c) (cstText L gaps first c) := by
  unfold cstText cstLooks
  have hleft : Does gaps (match first with | some t => [.left t] | none => []) (firstLeft gaps first) := by
    cases first with
    | some t => exact Does.left _
    | none => exact Does.pure _
  refine Does.bind hleft fun _ => ?_
  cases hlast : c.defs.getLast? with
  | none => exact Does.pure _
  | some last =>
    simp only
    exact (Does.bind (Does.mapM _ topDefLooks _ fun d _ => topDefText_does L d) fun _ =>
      Does.bind (Does.right _) fun _ => Does.pure _).mono (fun ℓ hl => by simpa using hl)


theorem start_mem_fieldDefLooks (fd : FieldDef) : Look.left fd.start ∈ fieldDefLooks fd := by
  cases fd <;> simp [fieldDefLooks, FieldDef.start]

theorem stop_mem_fieldDefLooks (fd : FieldDef) : Look.right fd.stop ∈ fieldDefLooks fd := by
  cases fd <;> simp [fieldDefLooks, FieldDef.stop]

end FinProtoc.Fmt
