import Lean.Data.Json
import FinProtoc.Load
import FinProtoc.SelfTest
import FinProtoc.Proofs.RoundTripM
/-!
# Loading extracted self-tests (JSON from `/verif/tv/tests.py`) and reporting their outcome
-/
namespace FinProtoc.SelfTest
open Lean FinProtoc FinProtoc.IR FinProtoc.Load

partial def sexprJ (j : Json) : Load.R SExpr := do
  let a ← arr j
  let tag ← str (← idx a 0)
  match tag with
  | "int" => pure (.int (← (← idx a 1).getInt?))
  | "flt" => pure (.flt (← nat (← idx a 1)) (← nat (← idx a 2)) (← bool (← idx a 3)))
  | "num" => pure (.num (← (← idx a 1).getInt?) (← nat (← idx a 2)) (← nat (← idx a 3)) (← bool (← idx a 4)))
  | "str" => pure (.str ((← arr (← idx a 1)).toList.filterMap fun b => b.getNat?.toOption |>.map UInt8.ofNat))
  | "list" => pure (.list (← (← arr (← idx a 1)).toList.mapM sexprJ))
  | "obj" => do
    let ty ← str (← idx a 1)
    let sets ← (← arr (← idx a 2)).toList.mapM fun kv => do
      let p ← arr kv
      pure (← str (← idx p 0), ← sexprJ (← idx p 1))
    pure (.obj ty sets)
  | "dflt" => pure .dflt
  | t => throw s!"bad sample expression {t}"

def flagsJ (j : Json) : Flags :=
  let b := fun (k : String) (d : Bool) => (j.getObjValAs? Bool k).toOption.getD d
  { storeBack := b "storeBack" false, strictRange := b "strictRange" true,
    floatsAreDoubles := b "floatsAreDoubles" false, dupIsError := b "dupIsError" false }

/-- fix-ups arrive as member identifiers of the packet's struct -/
def testJ (P : Prog) (j : Json) : Load.R Test := do
  let name ← str (← j.getObjVal? "name")
  let pkt ← str (← j.getObjVal? "packet")
  let sample ← sexprJ (← j.getObjVal? "sample")
  let fx ← (← arr (← j.getObjVal? "fixups")).toList.mapM str
  let members := match P.find pkt with | some st => st.members | none => []
  let fixups ← fx.mapM fun (id : String) => do
    let i : Nat := members.findIdx (·.ident = id)
    if i < members.length then pure i else throw s!"fix-up of {id}, which is not a member of {pkt}"
  pure { name, pkt, sample, fixups }

def Outcome.text : Outcome → String
  | .pass => "pass"
  | .illTyped w => "ill-typed: " ++ w
  | .encodeFails => "encode-fails"
  | .decodeFails => "decode-fails"
  | .mismatch => "mismatch"

def Outcome.cls : Outcome → String
  | .pass => "pass"
  | .illTyped _ => "ill-typed"
  | .encodeFails => "encode-fails"
  | .decodeFails => "decode-fails"
  | .mismatch => "mismatch"

/-- the two checksum registries every test is evaluated under: none registered, and the byte sum modulo 128
(the stand-in runtimes' `FP_CHECKSUM=sum`) -/
def registries : List (String × Registry) :=
  [("none", fun _ => none), ("sum", fun _ => some fun b => (b.foldl (fun a x => a + x.toNat) 0) % 128)]

/-- where does the compared `original` differ from `decoded`?  (diagnostics only) -/
def firstDiff (S : Schema) (fl : Flags) (t : Test) (reg : Registry) (fuel : Nat) (P : Prog) : String :=
  match sampleVals S P fl t, S.find t.pkt with
  | .ok vs, some p =>
    match Wire.enc S reg t.pkt vs [] with
    | some bs =>
      match Wire.dec S fuel t.pkt bs with
      | some (ds, _) =>
        let adj := adjFields S fl.storeBack t.fixups 0 p.fields vs ds
        let bad := (p.fields.zip (adj.zip ds)).filter fun (_, a, d) => !(a.beq d)
        -- a differing member that is itself computed = a missing top-level fix-up; otherwise the difference is inside it
        String.intercalate ", " (bad.map fun (f, _, _) => f.name ++ (if isComputed f.kind && !f.rep then "(computed)" else "(nested)"))
      | none => ""
    | none => ""
  | _, _ => ""

mutual
/-- first reason why a sample is outside the round-trip domain `Wire.mVal` (diagnostics for `decode-fails`) -/
def whyVal (S : Schema) (all : List Field) (env : List (String × Val)) (depth : Nat) : Bool → FKind → Val → Option String
  | true, k, .list es => whyList S depth k es
  | true, _, _ => some "repeated member is not a list"
  | false, .obj pkt, .struct vs => match S.find pkt with | some p => whyFields S p.fields (depth + 1) p.fields [] vs | none => some "unknown packet"
  | false, .matchOn key pairs, .dyn pkt vs =>
    if !Wire.keyOk all env key pairs pkt then
      some ((if depth = 0 then "top-level" else "nested") ++ "-key-does-not-select-payload")
    else match S.find pkt with | some p => whyFields S p.fields (depth + 1) p.fields [] vs | none => some "unknown packet"
  | false, k, v => if Wire.mVal S all env false k v then none else some ((if depth = 0 then "top-level" else "nested") ++ "-value-out-of-domain")
def whyList (S : Schema) (depth : Nat) (k : FKind) : List Val → Option String
  | [] => none
  | v :: vs => match whyVal S [] [] depth false k v with | some r => some r | none => whyList S depth k vs
def whyFields (S : Schema) (all : List Field) (depth : Nat) : List Field → List (String × Val) → List Val → Option String
  | f :: fs, env, v :: vs =>
    match whyVal S all env depth f.rep f.kind v with
    | some r => some r
    | none => whyFields S all depth fs (env ++ [(f.name, v)]) vs
  | _, _, _ => none
end

def whyDecodeFails (S : Schema) (P : Prog) (fl : Flags) (t : Test) : String :=
  match sampleVals S P fl t, S.find t.pkt with
  | .ok vs, some p => (whyFields S p.fields 0 p.fields [] vs).getD "sample-in-domain"
  | _, _ => ""

/-- the packets a test's sample is built from, with the depth at which each is instantiated: the test's own packet at
depth 0, object members / list elements / the FIRST target of every match field below (what the test emitters walk) -/
def reach (S : Schema) : Nat → Nat → String → List (Nat × String × Bool × String)   -- (depth, packet, by value as an object member, member name)
  | 0, _, _ => []
  | fuel + 1, depth, pkt =>
    match S.find pkt with
    | none => []
    | some p =>
      p.fields.flatMap fun f =>
        match f.kind with
        | .obj q => (depth + 1, q, true, f.name) :: reach S fuel (depth + 1) q
        | .matchOn _ pairs => (match pairs.head? with
            | some (_, q) => (depth + 1, q, false, f.name) :: reach S fuel (depth + 1) q
            | none => [])
        | _ => []

def hasMatch (S : Schema) (pkt : String) : Bool :=
  match S.find pkt with | some p => p.fields.any (fun f => match f.kind with | .matchOn _ _ => true | _ => false) | none => false
def hasComputed (S : Schema) (pkt : String) : Bool :=
  match S.find pkt with | some p => p.fields.any (fun f => isComputed f.kind) | none => false

/-- structural features of a test that the known defects of the test emitters depend on -/
def features (S : Schema) (t : Test) : List String :=
  let r := reach S 8 0 t.pkt
  let names := r.map (·.2.1)
  let members := r.map (·.2.2.2)
  (if r.any (fun x => hasMatch S x.2.1) then ["nested-match"] else []) ++
  (if r.any (fun x => hasComputed S x.2.1) then ["nested-computed"] else []) ++
  -- the emitters name test locals after packets / members in one flat scope
  -- … an object member's local after the MEMBER (`unit0`, `unit := …`), a match payload's local after its PACKET (`leg`): two
  -- locals of one name anywhere in the flattened sample clash; one packet held under two different member names does not
  (let locals := r.map fun x => (if x.2.2.1 then x.2.2.2 else x.2.1).toLower
   if names.contains t.pkt || locals.eraseDups.length < locals.length then ["local-name-clash"] else []) ++
  -- … the Go, Python and C++ emitters name BOTH kinds of local after the member (`venue := &msg.Cancel{…}` for a match payload)
  (let locals := r.map fun x => x.2.2.2.toLower
   if names.contains t.pkt || locals.eraseDups.length < locals.length then ["local-name-clash/member"] else []) ++
  (if r.any (fun x => x.2.2.1 && hasMatch S x.2.1) then ["match-holder-by-value"] else [])

def reportJ (S : Schema) (P : Prog) (fl : Flags) (fuel : Nat) (t : Test) : Json :=
  Json.mkObj ([("name", (t.name : Json)), ("packet", (t.pkt : Json)), ("features", Json.arr ((features S t).map Json.str).toArray)] ++
    registries.flatMap fun (rn, reg) =>
      let sp := specRun S P fl reg fuel t
      let em := emittedRun S P fl reg fuel t
      [("spec_" ++ rn, (sp.text : Json)), ("emitted_" ++ rn, (em.text : Json)), ("ok_" ++ rn, (specOk S P fl reg fuel t : Json)),
       ("cls_" ++ rn, (em.cls : Json)),
       ("diff_" ++ rn, (if sp == .mismatch then firstDiff S fl t reg fuel P else "" : Json)),
       ("why_" ++ rn, (if em == .decodeFails then whyDecodeFails S P fl t else "" : Json))])

end FinProtoc.SelfTest
