import Lean.Data.Json
import FinProtoc.Load
import FinProtoc.SelfTest
/-!
# Loading extracted self-tests (JSON from `/verif/tv/tests.py`) and reporting their outcome
-/
namespace FinProtoc.SelfTest
open Lean FinProtoc FinProtoc.IR FinProtoc.Load

partial def sexprJ (j : Json) : Load.R SExpr := do
  let a ← arr j
  let tag ← str (← idx a 0)
  match tag with
  | "int" => pure (.int (← (← idx a 1).getInt?))
  | "flt" => pure (.flt (← nat (← idx a 1)) (← nat (← idx a 2)) (← bool (← idx a 3)))
  | "num" => pure (.num (← (← idx a 1).getInt?) (← nat (← idx a 2)) (← nat (← idx a 3)) (← bool (← idx a 4)))
  | "str" => pure (.str ((← arr (← idx a 1)).toList.filterMap fun b => b.getNat?.toOption |>.map UInt8.ofNat))
  | "list" => pure (.list (← (← arr (← idx a 1)).toList.mapM sexprJ))
  | "obj" => do
    let ty ← str (← idx a 1)
    let sets ← (← arr (← idx a 2)).toList.mapM fun kv => do
      let p ← arr kv
      pure (← str (← idx p 0), ← sexprJ (← idx p 1))
    pure (.obj ty sets)
  | "dflt" => pure .dflt
  | t => throw s!"bad sample expression {t}"

def flagsJ (j : Json) : Flags :=
  let b := fun (k : String) (d : Bool) => (j.getObjValAs? Bool k).toOption.getD d
  { storeBack := b "storeBack" false, strictRange := b "strictRange" true,
    floatsAreDoubles := b "floatsAreDoubles" false, dupIsError := b "dupIsError" false }

/-- fix-ups arrive as member identifiers of the packet's struct -/
def testJ (P : Prog) (j : Json) : Load.R Test := do
  let name ← str (← j.getObjVal? "name")
  let pkt ← str (← j.getObjVal? "packet")
  let sample ← sexprJ (← j.getObjVal? "sample")
  let fx ← (← arr (← j.getObjVal? "fixups")).toList.mapM str
  let members := match P.find pkt with | some st => st.members | none => []
  let fixups ← fx.mapM fun (id : String) => do
    let i : Nat := members.findIdx (·.ident = id)
    if i < members.length then pure i else throw s!"fix-up of {id}, which is not a member of {pkt}"
  pure { name, pkt, sample, fixups }

def Outcome.text : Outcome → String
  | .pass => "pass"
  | .illTyped w => "ill-typed: " ++ w
  | .encodeFails => "encode-fails"
  | .decodeFails => "decode-fails"
  | .mismatch => "mismatch"

def Outcome.cls : Outcome → String
  | .pass => "pass"
  | .illTyped _ => "ill-typed"
  | .encodeFails => "encode-fails"
  | .decodeFails => "decode-fails"
  | .mismatch => "mismatch"

/-- the two checksum registries every test is evaluated under: none registered, and the byte sum modulo 128
(the stand-in runtimes' `FP_CHECKSUM=sum`) -/
def registries : List (String × Registry) :=
  [("none", fun _ => none), ("sum", fun _ => some fun b => (b.foldl (fun a x => a + x.toNat) 0) % 128)]

/-- where does the compared `original` differ from `decoded`?  (diagnostics only) -/
def firstDiff (S : Schema) (fl : Flags) (t : Test) (reg : Registry) (fuel : Nat) (P : Prog) : String :=
  match sampleVals S P fl t, S.find t.pkt with
  | .ok vs, some p =>
    match Wire.enc S reg t.pkt vs [] with
    | some bs =>
      match Wire.dec S fuel t.pkt bs with
      | some (ds, _) =>
        let adj := adjFields S fl.storeBack t.fixups 0 p.fields vs ds
        let bad := (p.fields.zip (adj.zip ds)).filter fun (_, a, d) => !(a.beq d)
        String.intercalate ", " (bad.map fun (f, _, _) => f.name)
      | none => ""
    | none => ""
  | _, _ => ""

def reportJ (S : Schema) (P : Prog) (fl : Flags) (fuel : Nat) (t : Test) : Json :=
  Json.mkObj ([("name", (t.name : Json)), ("packet", (t.pkt : Json))] ++
    registries.flatMap fun (rn, reg) =>
      let sp := specRun S P fl reg fuel t
      let em := emittedRun S P fl reg fuel t
      [("spec_" ++ rn, (sp.text : Json)), ("emitted_" ++ rn, (em.text : Json)), ("ok_" ++ rn, (specOk S P fl reg fuel t : Json)),
       ("cls_" ++ rn, (em.cls : Json)),
       ("diff_" ++ rn, (if sp == .mismatch then firstDiff S fl t reg fuel P else "" : Json))])

end FinProtoc.SelfTest
