/-!
# Abstract model of the generator driver (C13, C14)

A generator reads the parsed model and produces files; the driver (`cmd/compile.go`) runs the
requested generators one after another over ONE parsed model.  Output maps are association lists
built by insertion (`output[name] = bytes`).
-/
namespace FinProtoc.Driver

/-- `m[k] = v` on an association list: the last write to a key wins -/
def finsert (m : List (String × String)) (k v : String) : List (String × String) :=
  (k, v) :: m.filter (fun p => p.1 != k)

def build (pairs : List (String × String)) : List (String × String) :=
  pairs.foldl (fun m kv => finsert m kv.1 kv.2) []

/-- a generator: model ↦ (files, model afterwards) -/
abbrev Gen (M : Type) := M → List (String × String) × M

/-- run generators left to right over one model; collect what each produced -/
def runAll {M : Type} : List (Gen M) → M → List (List (String × String))
  | [], _ => []
  | g :: gs, m => (g m).1 :: runAll gs (g m).2

end FinProtoc.Driver
