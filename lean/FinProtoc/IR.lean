import FinProtoc.Spec
/-!
# Codec IR: what an emitted encoder/decoder *does*, with an executable semantics

One IR for the five codec targets.  A step records every decision the emitted text
encodes (type token, byte-order suffix, prefix type, pad arguments, which member, which
position variable, slice bounds, how a count is read).  Member references are already
resolved to positions in the struct's member list (resolution by first declaration with
that identifier is done by the loader; an unresolved identifier never gets here).

The semantics is operational: an output buffer that grows, position variables, an
in-place patch for length slots, a checksum service that sees the buffer as it is *at that
moment*.  Library calls are macros whose expansion is the runtime contract of DESIGN §7.
-/
namespace FinProtoc.IR
open FinProtoc

/-- how an emitted decoder treats a count it has read (string length / list size) -/
inductive CountMode
  | unsigned      -- used as an unsigned number of its width
  | signedPos     -- read into a signed carrier; the body runs only when it is `> 0`
  deriving DecidableEq, Repr, Inhabited

/-- element codec of a list -/
inductive Elem
  | scalar (w : Nat) (le : Bool)
  | string (pw : Nat) (le : Bool) (cm : CountMode)
  | fixed (n : Nat) (pad : Option Pad)
  | object (ty : String)
  deriving DecidableEq, Repr, Inhabited

/-- Widths are in bytes, as implied by the type token of the emitted call. -/
inductive EStep
  | scalar (w : Nat) (le : Bool) (src : Nat)
  | string (pw : Nat) (le : Bool) (src : Nat)
  | fixed (n : Nat) (pad : Option Pad) (src : Nat)
  | list (pw : Nat) (le : Bool) (elem : Elem) (src : Nat)
  | object (ty : String) (src : Nat)                 -- callee = the member's declared struct
  | dynamic (src : Nat)                              -- callee = the dynamic type of the value
  | mark (var : String)                              -- var := current buffer length
  | slot (w : Nat) (le : Bool) (posVar : String)     -- posVar := buffer length; write a zero of width w
  | patch (w : Nat) (le : Bool) (posVar startVar endVar : String) (slice : Option Nat)
  | checksum (algo : String) (w : Nat) (le : Bool) (src : Nat)
  | skip (note : String)                             -- nothing is written for this field
  deriving DecidableEq, Repr, Inhabited

inductive DStep
  | scalar (w : Nat) (le : Bool) (dst : Nat)
  | string (pw : Nat) (le : Bool) (cm : CountMode) (dst : Nat)
  | fixed (n : Nat) (pad : Option Pad) (dst : Nat)
  | list (pw : Nat) (le : Bool) (cm : CountMode) (elem : Elem) (dst : Nat)
  | object (ty : String) (dst : Nat)
  | dispatch (keySrc : Nat) (table : String) (dst : Nat)
  | skip (note : String)
  deriving DecidableEq, Repr, Inhabited

structure Member where
  ident : String
  ty : String          -- the declared type, as text (used by the well-typedness checks)
  deriving DecidableEq, Repr, Inhabited

structure Struct where
  name : String
  members : List Member
  enc : List EStep
  dec : List DStep
  deriving Repr, Inhabited

/-- a dispatch table (generated factory): key literal ↦ struct; `keyWidth` = byte width of the
integer key type (none for string keys); `errOnMiss` = a missing key is reported as an error -/
structure Table where
  name : String
  entries : List (Key × String)
  keyWidth : Option Nat
  errOnMiss : Bool
  deriving Repr, Inhabited

structure Prog where
  structs : List Struct
  tables : List Table
  deriving Repr, Inhabited

def Prog.find (P : Prog) (name : String) : Option Struct := P.structs.find? (·.name = name)
def Prog.table (P : Prog) (name : String) : Option Table := P.tables.find? (·.name = name)

def padOf : Option Pad → Pad
  | some p => p
  | none => Pad.default

/-! ## Encoding -/

structure EState where
  buf : Bytes
  vars : List (String × Nat) := []
  deriving Repr, Inhabited

def EState.get (s : EState) (v : String) : Option Nat := s.vars.lookup v

/-- overwrite `xs.length` bytes of `b` at `pos` (defined only when they exist) -/
def setAt (b : Bytes) (pos : Nat) (xs : Bytes) : Option Bytes :=
  if pos + xs.length ≤ b.length then some (b.take pos ++ xs ++ b.drop (pos + xs.length)) else none

abbrev ECall := String → List Val → Bytes → Option Bytes

def encElem (call : ECall) : Elem → Val → Bytes → Option Bytes
  | .scalar w le, .int n, acc => some (acc ++ encInt le w n)
  | .string pw le _, .str bs, acc => some (acc ++ encInt le pw bs.length ++ bs)
  | .fixed n pad, .str bs, acc => if bs.length ≤ n then some (acc ++ padTo n (padOf pad) bs) else none
  | .object ty, .struct vs, acc => call ty vs acc
  | _, _, _ => none

def encElems (call : ECall) (e : Elem) : List Val → Bytes → Option Bytes
  | [], acc => some acc
  | v :: vs, acc => do let acc' ← encElem call e v acc; encElems call e vs acc'

/-- in-place integer setters exist for 16/32/64 bits only (`binary.*.PutUintN`); a target
whose setter takes a position instead of a slice has `slice = none` -/
def sliceOk (w : Nat) : Option Nat → Bool
  | none => true
  | some n => w ≤ n && (w = 2 || w = 4 || w = 8)

def stepE (call : ECall) (reg : Registry) (vs : List Val) : EStep → EState → Option EState
  | .scalar w le i, s => match vs[i]? with
    | some (.int n) => some { s with buf := s.buf ++ encInt le w n }
    | _ => none
  | .string pw le i, s => match vs[i]? with
    | some (.str bs) => some { s with buf := s.buf ++ encInt le pw bs.length ++ bs }
    | _ => none
  | .fixed n pad i, s => match vs[i]? with
    | some (.str bs) => if bs.length ≤ n then some { s with buf := s.buf ++ padTo n (padOf pad) bs } else none
    | _ => none
  | .list pw le e i, s => match vs[i]? with
    | some (.list es) => do
      let b ← encElems call e es (s.buf ++ encInt le pw es.length)
      pure { s with buf := b }
    | _ => none
  | .object ty i, s => match vs[i]? with
    | some (.struct fs) => do let b ← call ty fs s.buf; pure { s with buf := b }
    | _ => none
  | .dynamic i, s => match vs[i]? with
    | some (.dyn pkt fs) => do let b ← call pkt fs s.buf; pure { s with buf := b }
    | _ => none
  | .mark v, s => some { s with vars := (v, s.buf.length) :: s.vars }
  | .slot w le pv, s => some { buf := s.buf ++ encInt le w 0, vars := (pv, s.buf.length) :: s.vars }
  | .patch w le pv sv ev slice, s => do
    let pos ← s.get pv
    let a ← s.get sv
    let b ← s.get ev
    if sliceOk w slice then
      let nb ← setAt s.buf pos (encInt le w (b - a))
      pure { s with buf := nb }
    else none
  | .checksum algo w le i, s => match vs[i]? with
    | some (.int n) =>
      some { s with buf := s.buf ++ encInt le w (match reg algo with | some f => f s.buf | none => n) }
    | _ => none
  | .skip _, s => some s

def stepsE (call : ECall) (reg : Registry) (vs : List Val) : List EStep → EState → Option EState
  | [], s => some s
  | st :: rest, s => do let s' ← stepE call reg vs st s; stepsE call reg vs rest s'

/-- run the emitted `encode` of struct `name` on member values `vs`, appending to `acc` -/
def encStruct (P : Prog) (reg : Registry) : Nat → ECall
  | 0 => fun _ _ _ => none
  | fuel + 1 => fun name vs acc => do
    let st ← P.find name
    if st.members.length ≠ vs.length then none else
    let s ← stepsE (encStruct P reg fuel) reg vs st.enc { buf := acc }
    pure s.buf

/-! ## Decoding -/

/-- the count a decoder derives from the `w` prefix bytes -/
def readCount (cm : CountMode) (le : Bool) (w : Nat) (bs : Bytes) : Nat :=
  let n := decInt le bs
  match cm with
  | .unsigned => n
  | .signedPos => if n < 2 ^ (8 * w - 1) then n else 0


def decElem (call : Wire.DCall) : Elem → Bytes → Option (Val × Bytes)
  | .scalar w le, bs => do let (x, r) ← Wire.takeN w bs; pure (.int (decInt le x), r)
  | .string pw le cm, bs => do
    let (x, r) ← Wire.takeN pw bs
    let (y, r') ← Wire.takeN (readCount cm le pw x) r
    pure (.str y, r')
  | .fixed n pad, bs => do let (x, r) ← Wire.takeN n bs; pure (.str (Wire.trimPad (padOf pad) x), r)
  | .object ty, bs => do let (vs, r) ← call ty bs; pure (.struct vs, r)

def decElems (call : Wire.DCall) (e : Elem) : Nat → Bytes → Option (List Val × Bytes)
  | 0, bs => some ([], bs)
  | n + 1, bs => do
    let (v, r) ← decElem call e bs
    let (vs, r') ← decElems call e n r
    pure (v :: vs, r')

def Table.lookup (t : Table) (v : Val) : Option String :=
  (t.entries.find? fun (k, _) => Wire.keyMatches t.keyWidth k v).map (·.2)

/-- decoded member values so far, by member position -/
abbrev DEnv := List (Nat × Val)

def stepD (P : Prog) (call : Wire.DCall) : DStep → DEnv × Bytes → Option (DEnv × Bytes)
  | .scalar w le i, (env, bs) => do let (x, r) ← Wire.takeN w bs; pure ((i, .int (decInt le x)) :: env, r)
  | .string pw le cm i, (env, bs) => do
    let (v, r) ← decElem call (.string pw le cm) bs
    pure ((i, v) :: env, r)
  | .fixed n pad i, (env, bs) => do let (v, r) ← decElem call (.fixed n pad) bs; pure ((i, v) :: env, r)
  | .list pw le cm e i, (env, bs) => do
    let (x, r) ← Wire.takeN pw bs
    let (vs, r') ← decElems call e (readCount cm le pw x) r
    pure ((i, .list vs) :: env, r')
  | .object ty i, (env, bs) => do let (vs, r) ← call ty bs; pure ((i, .struct vs) :: env, r)
  | .dispatch k tbl i, (env, bs) => do
    let kv ← env.lookup k
    let t ← P.table tbl
    match t.lookup kv with
    | some ty => do let (vs, r) ← call ty bs; pure ((i, .dyn ty vs) :: env, r)
    | none => none     -- reported error when `errOnMiss`; the validator insists on it
  | .skip _, s => some s

def stepsD (P : Prog) (call : Wire.DCall) : List DStep → DEnv × Bytes → Option (DEnv × Bytes)
  | [], s => some s
  | st :: rest, s => do let s' ← stepD P call st s; stepsD P call rest s'

def collect (env : DEnv) : Nat → Nat → Option (List Val)
  | 0, _ => some []
  | n + 1, i => do let v ← env.lookup i; let vs ← collect env n (i + 1); pure (v :: vs)

/-- run the emitted `decode` of struct `name`: member values in declaration order + unread bytes -/
def decStruct (P : Prog) : Nat → Wire.DCall
  | 0 => fun _ _ => none
  | fuel + 1 => fun name bs => do
    let st ← P.find name
    let (env, r) ← stepsD P (decStruct P fuel) st.dec ([], bs)
    let vs ← collect env st.members.length 0
    pure (vs, r)

end FinProtoc.IR
