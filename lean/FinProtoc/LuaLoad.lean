import Lean.Data.Json
import FinProtoc.Lua
import FinProtoc.Load
/-! Loading the extracted Lua IR (JSON from tv/lua.py) and explaining a validator failure. -/
namespace FinProtoc.Lua
open Lean FinProtoc FinProtoc.Load

def lenJ (j : Json) : R LLen := do
  let a ← arr j
  let tag ← str (← idx a 0)
  if tag = "n" then pure (.lit (← nat (← idx a 1))) else pure (.var (← str (← idx a 1)))

def simpleJ (j : Json) : R LSimple := do
  let a ← arr j
  let tag ← str (← idx a 0)
  match tag with
  | "local" => pure (.readLocal (← str (← idx a 1)) (← nat (← idx a 2)) (← bool (← idx a 3)))
  | "localstr" => pure (.readStr (← str (← idx a 1)) (← nat (← idx a 2)) (← lenJ (← idx a 3)))
  | "add" => pure (.add (← str (← idx a 1)) (← lenJ (← idx a 2)))
  | "addtext" => pure (.addText (← lenJ (← idx a 1)))
  | "adv" => pure (.adv (← lenJ (← idx a 1)))
  | "call" => pure (.call (← str (← idx a 1)) (← bool (← idx a 2)))
  | t => throw s!"bad lua statement {t}"

def stmtJ (j : Json) : R LStmt := do
  let a ← arr j
  let tag ← str (← idx a 0)
  match tag with
  | "for" => pure (.forLoop (← str (← idx a 1)) (← (← arr (← idx a 2)).toList.mapM simpleJ))
  | "if" => do
    let arms ← (← arr (← idx a 2)).toList.mapM fun e => do
      let x ← arr e
      pure (← keyJ (← idx x 0), ← str (← idx x 1), ← bool (← idx x 2))
    pure (.ifChain (← str (← idx a 1)) arms)
  | _ => do pure (.simple (← simpleJ j))

def progJ (j : Json) : R LProg := do
  let funcs ← (← arr (← j.getObjVal? "funcs")).toList.mapM fun f => do
    pure ({ name := ← str (← f.getObjVal? "name"), body := ← (← arr (← f.getObjVal? "stmts")).toList.mapM stmtJ } : LFunc)
  let main ← (← arr (← j.getObjVal? "main")).toList.mapM stmtJ
  pure { funcs, main }

def lenS : LLen → String
  | .lit n => toString n | .var v => v
def simpleS : LSimple → String
  | .readLocal v w le => s!"local {v} = buf(offset,{w}):{if le then "le_" else ""}uint()"
  | .readStr v sk l => s!"local {v} = buf(offset+{sk},{lenS l}):string()"
  | .add f l => s!"add(fields.{f}, buf(offset,{lenS l}))"
  | .addText l => s!"add(text, buf(offset,{lenS l}))"
  | .adv l => s!"offset = offset + {lenS l}"
  | .call fn a => s!"{if a then "offset = " else ""}{fn}(…)"
  | .nop => "nop"
def stmtS : LStmt → String
  | .simple s => simpleS s
  | .forLoop c b => s!"for i=1,{c} do " ++ "; ".intercalate (b.map simpleS) ++ " end"
  | .ifChain k arms => s!"if {k} == … chain [" ++ ", ".intercalate (arms.map fun (key, fn, a) =>
      (match key with | .int n => toString n | .str b => "\"" ++ (String.fromUTF8? ⟨b.toArray⟩).getD "?" ++ "\"") ++ "→" ++ (if a then "offset=" else "") ++ fn) ++ "]"

/-- classify how an emitted statement deviates from the canonical one (for finding signatures) -/
def diffClass (want got : Option LStmt) : String :=
  match want, got with
  | some (.simple (.call _ wa)), some (.simple (.call _ ga)) => if wa ≠ ga then "call-drops-offset" else "call-target"
  | some (.ifChain _ wa), some (.ifChain _ ga) =>
    if wa.map (·.1) ≠ ga.map (·.1) then "match-keys"
    else if wa.map (·.2.1) ≠ ga.map (·.2.1) then "match-targets"
    else if wa.map (·.2.2) ≠ ga.map (·.2.2) then "match-call-drops-offset" else "match-key-variable"
  | some (.simple (.readLocal _ ww wl)), some (.simple (.readLocal _ gw gl)) =>
    if ww ≠ gw then "read-width" else if wl ≠ gl then "read-byte-order" else "read-variable"
  | some (.simple (.readStr _ ws _)), some (.simple (.readStr _ gs _)) => if ws ≠ gs then "string-key-read-at-prefix" else "string-key-length"
  | some (.simple (.add wf wl)), some (.simple (.add gf gl)) => if wf ≠ gf then "field-id" else if wl ≠ gl then "field-length" else "?"
  | some (.simple (.adv _)), some (.simple (.adv _)) => "advance-length"
  | some (.simple (.addText _)), some (.simple (.addText _)) => "prefix-display-length"
  | some (.forLoop wc wb), some (.forLoop gc gb) => if wc ≠ gc then "loop-count-variable" else if wb.length ≠ gb.length then "loop-body-shape" else "loop-body"
  | some _, none => "missing-statement"
  | none, some _ => "extra-statement"
  | _, _ => "shape"

structure DReason where
  where_ : String
  cls : String
  expected : String
  got : String
  deriving Repr

def firstDiff (where_ : String) : List LStmt → List LStmt → Option DReason
  | [], [] => none
  | w :: ws, g :: gs => if w = g then firstDiff where_ ws gs else
      some { where_, cls := diffClass (some w) (some g), expected := stmtS w, got := stmtS g }
  | w :: _, [] => some { where_, cls := diffClass (some w) none, expected := stmtS w, got := "(end)" }
  | [], g :: _ => some { where_, cls := diffClass none (some g), expected := "(end)", got := stmtS g }

def explainDis (S : Schema) (snake : String → String) (D : LProg) : List DReason :=
  (S.packets.filterMap fun p =>
    if p.root then firstDiff ("main(" ++ p.name ++ ")") (packetStmts S snake p) D.main
    else match D.funcs.find? (·.name = fnName snake p.name) with
      | some f => firstDiff (fnName snake p.name) (packetStmts S snake p) f.body
      | none => some { where_ := fnName snake p.name, cls := "missing-helper", expected := fnName snake p.name, got := "" }) ++
  (if orderOk D.funcs then [] else [{ where_ := "file", cls := "helper-used-before-definition", expected := "callee before caller", got := "" }]) ++
  (if (calleesOf D.main).all (fun c => D.funcs.any (·.name = c)) then [] else [{ where_ := "main", cls := "undefined-helper", expected := "", got := "" }]) ++
  (if (S.packets.filter (·.root)).length = 1 then [] else [{ where_ := "schema", cls := "root-count", expected := "1", got := toString (S.packets.filter (·.root)).length }])

end FinProtoc.Lua
